import TexelVerif.Conc.StepG1b
/-! `G1` is preserved by `send` (performing a pending notify / enqueue). -/
namespace Conc

variable {n : Nat}

theorem mem_purge {l : List (Cmd n)} {x : Cmd n} (h : x ∈ purge l) : x ∈ l := (List.mem_filter.1 h).1

theorem mem_pushCmd {l : List (Cmd n)} {c x : Cmd n} (h : x ∈ pushCmd l c) : x ∈ l ∨ x = c := by
  unfold pushCmd at h
  rcases List.mem_append.1 h with h | h
  · left; split at h
    · exact mem_purge h
    · exact h
  · right; simpa using h

theorem filter_purger_purge (l : List (Cmd n)) : (purge l).filter Cmd.isPurger = [] := by
  rw [List.filter_eq_nil_iff]
  intro x hx
  have := (List.mem_filter.1 hx).2
  cases x <;> simp [Cmd.purgeable] at this <;> simp [Cmd.isPurger]

theorem purger_pushCmd (l : List (Cmd n)) (c : Cmd n) (h : (l.filter Cmd.isPurger).length ≤ 1) :
    ((pushCmd l c).filter Cmd.isPurger).length ≤ 1 := by
  unfold pushCmd
  rw [List.filter_append]
  by_cases hc : c.isPurger = true
  · simp [hc, filter_purger_purge]
  · simp [hc]; exact h

theorem hasStart_pushCmd {l : List (Cmd n)} {c : Cmd n} (h : hasStart (pushCmd l c) = true) : hasStart l = true ∨ c.isStart = true := by
  unfold hasStart at h ⊢
  rw [List.any_eq_true] at h
  obtain ⟨x, hx, hs⟩ := h
  rcases mem_pushCmd hx with h1 | h1
  · left; rw [List.any_eq_true]; exact ⟨x, h1, hs⟩
  · right; rw [← h1]; exact hs

theorem hasPStart_erase {l : List (Out n)} {o : Out n} (h : hasPStart (l.erase o) = true) : hasPStart l = true := by
  unfold hasPStart at h ⊢
  rw [List.any_eq_true] at h ⊢
  obtain ⟨x, hx, hs⟩ := h
  exact ⟨x, List.mem_of_mem_erase hx, hs⟩

theorem hasPStart_of_mem {l : List (Out n)} {o : Out n} (h : o ∈ l) (ho : o.isStart = true) : hasPStart l = true := by
  unfold hasPStart; rw [List.any_eq_true]; exact ⟨o, h, ho⟩

theorem pStop_pos_of_mem {l : List (Out n)} {t : Fin n} (h : Out.enq t Cmd.stop ∈ l) : 1 ≤ pStop l t := by
  unfold pStop; exact List.one_le_count_iff.2 h

theorem pAck_pos_of_mem {l : List (Out n)} {p c : Fin n} (h : Out.enq p (Cmd.ack c) ∈ l) : 1 ≤ pAck l p c := by
  unfold pAck; exact List.one_le_count_iff.2 h

/-- the sender of a pending START is outside a round -/
theorem G1.start_sender_idle {r : Fin n} {s : St n} (h : G1 r s) {v : Fin n} (va : s.alive v = true)
    (hps : hasPStart (s.out v) = true) : inRound s v = false := by
  by_cases hv : v = r
  · subst hv
    exact h.root_not_inRound (by rw [h.rootStart hps]; rfl)
  · exact h.startRound v va hv (Or.inr hps)

theorem stepSend_G1 {r : Fin n} {s s' : St n} (h : G1 r s) (v : Fin n) (o : Out n) (hs : stepSend s v o = some s') : G1 r s' := by
  unfold stepSend at hs
  split at hs
  · rename_i hg
    obtain ⟨va, hmo⟩ := hg
    cases hs
    have hok := h.outOk v o va hmo
    have hpur := h.purger1 v va
    cases o with
    | notify t =>
      -- only the pending list of `v` shrinks, by a notify
      have hps : ∀ c, pStop ((s.out v).erase (Out.notify t)) c = pStop (s.out v) c := by
        intro c; rw [pStop_erase]; simp
      have hpa : ∀ p c, pAck ((s.out v).erase (Out.notify t)) p c = pAck (s.out v) p c := by
        intro p c; rw [pAck_erase]; simp
      refine h.local v (s.pc v) (s.q v) ((s.out v).erase (Out.notify t)) (s.selfWait v) (s.childWait v) va rfl rfl rfl
        (by simp [applyOut]) (fun _ hx => hx) hpur rfl (by simp [applyOut]) (by simp [applyOut]) (by simp [applyOut]) rfl ?_ ?_ ?_ ?_ ?_ ?_ ?_
      · refine Eq.trans (h.sum v va) ?_
        exact sumCh_congr s s v _ _ (fun _ => rfl) (fun c _ => by unfold debt debtDown; rw [hps])
      · intro c hc; have := h.le1 v c hc; unfold debt at this; unfold debtDown; rw [hps]; exact this
      · intro p _; unfold debtUp debt inRound; rw [hpa]
      · intro x hx; exact h.outOk v x va (List.mem_of_mem_erase hx)
      · intro hne hst
        apply h.startRound v va hne
        rcases hst with h1 | h1
        · exact Or.inl h1
        · exact Or.inr (hasPStart_erase h1)
      · intro e hir; subst e; exact h.rootRound hir
      · intro e hst; subst e; exact h.rootStart (hasPStart_erase hst)
    | enq t c =>
      -- the new state
      have hq' : (applyOut { s with out := upd s.out v ((s.out v).erase (Out.enq t c)) } (Out.enq t c)).q = upd s.q t (pushCmd (s.q t) c) := rfl
      have ho' : (applyOut { s with out := upd s.out v ((s.out v).erase (Out.enq t c)) } (Out.enq t c)).out = upd s.out v ((s.out v).erase (Out.enq t c)) := rfl
      generalize hs' : applyOut { s with out := upd s.out v ((s.out v).erase (Out.enq t c)) } (Out.enq t c) = s' at hq' ho'
      have ha : s'.alive = s.alive := by rw [← hs']; rfl
      have hp : s'.parent = s.parent := by rw [← hs']; rfl
      have hd : s'.depth = s.depth := by rw [← hs']; rfl
      have h3 : s'.selfWait = s.selfWait := by rw [← hs']; rfl
      have h4 : s'.childWait = s.childWait := by rw [← hs']; rfl
      have hpc : s'.pc = s.pc := by rw [← hs']; rfl
      have hic := isChild_congr ha hp
      have hir := inRound_congr h3 h4
      -- the four components of every debt
      have hA : ∀ d, cStop (s'.q d) = if d = t then (if c.isPurger then 0 else cStop (s.q t)) + (if c = Cmd.stop then 1 else 0) else cStop (s.q d) := by
        intro d; rw [hq']
        by_cases hdt : d = t
        · subst hdt; rw [upd_same, cStop_push]; simp
        · rw [upd_other _ _ _ _ hdt]; simp [hdt]
      have hB : ∀ p d, pStop (s'.out p) d = pStop (s.out p) d - (if p = v ∧ t = d ∧ c = Cmd.stop then 1 else 0) := by
        intro p d; rw [ho']
        by_cases hpv : p = v
        · subst hpv; rw [upd_same, pStop_erase]
          by_cases hx : Out.enq t c = Out.enq d Cmd.stop
          · cases hx; simp
          · have : ¬ (t = d ∧ c = Cmd.stop) := by rintro ⟨e1, e2⟩; subst e1; subst e2; exact hx rfl
            simp [hx, this]
        · rw [upd_other _ _ _ _ hpv]; simp [hpv]
      have hC : ∀ p d, cAck (s'.q p) d = cAck (s.q p) d + (if p = t ∧ c = Cmd.ack d then 1 else 0) := by
        intro p d; rw [hq']
        by_cases hpt : p = t
        · subst hpt; rw [upd_same, cAck_push]; simp
        · rw [upd_other _ _ _ _ hpt]; simp [hpt]
      have hD : ∀ p d, pAck (s'.out d) p d = pAck (s.out d) p d - (if d = v ∧ t = p ∧ c = Cmd.ack d then 1 else 0) := by
        intro p d; rw [ho']
        by_cases hdv : d = v
        · subst hdv; rw [upd_same, pAck_erase]
          by_cases hx : Out.enq t c = Out.enq p (Cmd.ack d)
          · cases hx; simp
          · have : ¬ (t = p ∧ c = Cmd.ack d) := by rintro ⟨e1, e2⟩; subst e1; subst e2; exact hx rfl
            simp [hx, this]
        · rw [upd_other _ _ _ _ hdv]; simp [hdv]
      -- every debt is unchanged
      have hdebt : ∀ p d, isChild s p d = true → debt s' p d = debt s p d := by
        intro p d hc
        unfold debt
        rw [hir, hA, hB, hC, hD]
        rcases hok with ⟨hvt, hdown⟩ | ⟨hpar, hment⟩
        · -- a parent-to-child command
          have hnack : ∀ x, c ≠ Cmd.ack x := by intro x e; subst e; simp [Cmd.isDown] at hdown
          have hC0 : (if p = t ∧ c = Cmd.ack d then 1 else 0) = 0 := by simp [hnack d]
          have hD0 : (if d = v ∧ t = p ∧ c = Cmd.ack d then 1 else 0) = 0 := by simp [hnack d]
          rw [hC0, hD0]
          by_cases hdt : d = t
          · subst hdt
            have hpv : p = v := by
              have e1 := ((isChild_iff s p d).1 hc).2
              have e2 := ((isChild_iff s v d).1 hvt).2
              rw [e1] at e2; cases e2; rfl
            subst hpv
            have hle := h.le1 p d hc
            unfold debt at hle
            cases c with
            | stop =>
              have := pStop_pos_of_mem hmo
              simp [Cmd.isPurger]; omega
            | start e j =>
              have hidle := h.start_sender_idle va (hasPStart_of_mem hmo rfl)
              have := (h.idle_children hidle hc).1
              simp [Cmd.isPurger, this]
            | init => simp [Cmd.isPurger]
            | quit => simp [Cmd.isPurger]
            | report _ _ _ => simp [Cmd.isDown] at hdown
            | ack _ => simp [Cmd.isDown] at hdown
            | quitAck _ => simp [Cmd.isDown] at hdown
          · have : ¬ (p = v ∧ t = d ∧ c = Cmd.stop) := by rintro ⟨_, e, _⟩; exact hdt e.symm
            simp [hdt, this]
        · -- a child-to-parent command
          have hnp : c.isPurger = false := by cases c <;> simp [mentions] at hment <;> rfl
          have hns : c ≠ Cmd.stop := by intro e; subst e; simp [mentions] at hment
          have hB0 : (if p = v ∧ t = d ∧ c = Cmd.stop then 1 else 0) = 0 := by simp [hns]
          have hA0 : (if d = t then (if c.isPurger then 0 else cStop (s.q t)) + (if c = Cmd.stop then 1 else 0) else cStop (s.q d)) = cStop (s.q d) := by
            by_cases hdt : d = t
            · subst hdt; simp [hnp, hns]
            · simp [hdt]
          rw [hA0, hB0]
          by_cases hca : c = Cmd.ack v
          · subst hca
            by_cases hcond : p = t ∧ d = v
            · obtain ⟨e1, e2⟩ := hcond
              subst e1; subst e2
              have := pAck_pos_of_mem hmo
              simp; omega
            · have c1 : ¬ (p = t ∧ Cmd.ack v = Cmd.ack d) := by
                rintro ⟨e1, e2⟩; cases e2; exact hcond ⟨e1, rfl⟩
              have c2 : ¬ (d = v ∧ t = p ∧ Cmd.ack v = Cmd.ack d) := by
                rintro ⟨e1, e2, _⟩; exact hcond ⟨e2.symm, e1⟩
              rw [if_neg c1, if_neg c2]; omega
          · have c1 : ¬ (p = t ∧ c = Cmd.ack d) := by
              rintro ⟨_, e2⟩; subst e2
              simp [mentions] at hment; subst hment; exact hca rfl
            have c2 : ¬ (d = v ∧ t = p ∧ c = Cmd.ack d) := by
              rintro ⟨e1, _, e2⟩; subst e1; exact hca e2
            simp [c1, c2]
      have hvt : v ≠ t := by
        rcases hok with ⟨hvt, _⟩ | ⟨hpar, _⟩
        · exact fun e => h.child_ne hvt e.symm
        · exact h.child_ne ((isChild_iff s t v).2 ⟨va, hpar⟩)
      refine ⟨?_, ?_, ?_, ?_, ?_, ?_, ?_, ?_, ?_, ?_, ?_, ?_, ?_⟩
      · rw [ha]; exact h.rootAlive
      · rw [hp]; exact h.rootPar
      · intro w hw hne; rw [ha] at hw; rw [hp, ha]; exact h.par w hw hne
      · intro w p hw hpp; rw [ha] at hw; rw [hp] at hpp; rw [hd]; exact h.dep w p hw hpp
      · intro p hpa; rw [ha] at hpa; rw [h4, h.sum p hpa]
        exact sumCh_congr s s' p _ _ (hic p) (fun c hc => (hdebt p c hc).symm)
      · intro p c' hc; rw [hic] at hc; rw [hdebt p c' hc]; exact h.le1 p c' hc
      · intro w x hw hx; rw [ha] at hw; rw [ho'] at hx
        rw [OutOk_congr ha hp]
        by_cases hwv : w = v
        · subst hwv; rw [upd_same] at hx; exact h.outOk w x hw (List.mem_of_mem_erase hx)
        · rw [upd_other _ _ _ _ hwv] at hx; exact h.outOk w x hw hx
      · intro w x hw hx; rw [ha] at hw; rw [hq'] at hx
        rw [QOk_congr ha hp]
        by_cases hwt : w = t
        · subst hwt; rw [upd_same] at hx
          rcases mem_pushCmd hx with h1 | h1
          · exact h.qOk w x hw h1
          · subst h1
            rcases hok with ⟨hvt', hdown⟩ | ⟨hpar, hment⟩
            · have hwr := h.child_ne_root hvt'
              cases x <;> simp [Cmd.isDown] at hdown <;> exact hwr
            · have hcv : isChild s w v = true := (isChild_iff s w v).2 ⟨va, hpar⟩
              cases x <;> simp [mentions] at hment <;> (subst hment; exact hcv)
        · rw [upd_other _ _ _ _ hwt] at hx; exact h.qOk w x hw hx
      · intro w hw; rw [ha] at hw; rw [hq']
        by_cases hwt : w = t
        · subst hwt; rw [upd_same]; exact purger_pushCmd _ _ (h.purger1 w hw)
        · rw [upd_other _ _ _ _ hwt]; exact h.purger1 w hw
      · intro w hw hne hst; rw [ha] at hw; rw [hq', ho'] at hst; rw [hir]
        by_cases hwt : w = t
        · subst hwt
          rw [upd_same, upd_other _ _ _ _ (fun e => hvt e.symm)] at hst
          rcases hst with h1 | h1
          · rcases hasStart_pushCmd h1 with h2 | h2
            · exact h.startRound w hw hne (Or.inl h2)
            · -- a START arrives: its sender is outside a round, so is `w`
              have hidle := h.start_sender_idle va (hasPStart_of_mem hmo (by simpa [Out.isStart] using h2))
              rcases hok with ⟨hvt', _⟩ | ⟨_, hment⟩
              · exact (h.idle_children hidle hvt').2.2.1
              · cases c <;> simp [mentions] at hment <;> simp [Cmd.isStart] at h2
          · exact h.startRound w hw hne (Or.inr h1)
        · rw [upd_other _ _ _ _ hwt] at hst
          by_cases hwv : w = v
          · subst hwv; rw [upd_same] at hst
            apply h.startRound w hw hne
            rcases hst with h1 | h1
            · exact Or.inl h1
            · exact Or.inr (hasPStart_erase h1)
          · rw [upd_other _ _ _ _ hwv] at hst; exact h.startRound w hw hne hst
      · intro hr'; rw [hir] at hr'; rw [hpc]; exact h.rootRound hr'
      · intro hst; rw [ho'] at hst; rw [hpc]
        by_cases hrv : r = v
        · subst hrv; rw [upd_same] at hst; exact h.rootStart (hasPStart_erase hst)
        · rw [upd_other _ _ _ _ hrv] at hst; exact h.rootStart hst
      · intro w hw; rw [ha] at hw; rw [hpc]; exact h.pcKind w hw
  · cases hs

end Conc
