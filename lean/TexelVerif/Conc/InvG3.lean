import TexelVerif.Conc.StepG2
/-! The engine-thread / protocol-thread invariant `G3`: the main loop of the engine thread never
    misses a request (quit, options, start) of the protocol thread, and best moves are counted
    one per `go`. -/
namespace Conc

variable {n : Nat}

def Reg.active (g : Reg) : Bool := g.cur || (g.nxt == some true)

/-- inside `doSearch` … until `search = false` -/
def searchPc : Pc → Bool
  | .eBegin | .eGo | .esearch | .ehold _ | .ebest _ | .estop | .eack | .ecollect | .ecwait | .epost | .eend => true
  | _ => false

/-- after `finishSearch` of the current search -/
def postBest : Pc → Bool
  | .estop | .eack | .ecollect | .ecwait | .epost | .eend => true
  | _ => false

/-- the protocol thread is in the middle of a request: it still owes the engine thread a notify -/
def PN (r : Fin n) (s : St n) : Prop := Out.notify r ∈ s.pOut ∨ s.quitF.nxt ≠ none ∨ s.search.nxt ≠ none

/-- what the engine thread may rely on at each point of its main loop when its flag is clear and no request is in progress -/
def need (s : St n) : Pc → Prop
  | .ewait => s.quitF.cur = false ∧ s.search.cur = false ∧ s.pend = false ∧ s.optsFin = true
  | .eQ1 => s.quitF.cur = true → s.quitF.seenF = false
  | .eOpts1 => s.quitF.cur = false
  | .eS0 => s.quitF.cur = false ∧ s.pend = false ∧ s.optsFin = true
  | .eS1 => s.quitF.cur = false ∧ s.pend = false ∧ s.optsFin = true ∧ (s.search.cur = true → s.search.seenF = false)
  | .eend => s.pend = false ∧ s.optsFin = true
  | _ => True

structure G3 (r : Fin n) (s : St n) : Prop where
  r1q : s.quitF.nxt ≠ some false
  r1s : s.search.nxt ≠ some false
  excl : ¬ (s.quitF.active = true ∧ s.search.active = true)
  s1 : searchPc (s.pc r) = true → s.search.active = true
  q1 : quitPc (s.pc r) = true → s.quitF.active = true
  r4 : s.quitF.seenT = true → s.quitF.active = true
  r5 : s.pc r = .eS1 → s.search.seenT = true → s.search.active = true
  b1 : s.goCount = s.bmCount + (if s.search.active && !postBest (s.pc r) then 1 else 0)
  ne : s.flag r = false → ¬ PN r s → need s (s.pc r)

/-- steps of other threads: nothing `G3` reads changes, except that the root's flag may get set -/
theorem G3.frame {r : Fin n} {s s' : St n} (h : G3 r s)
    (hpc : s'.pc r = s.pc r) (hf : s'.flag r = s.flag r ∨ s'.flag r = true)
    (hq : s'.quitF = s.quitF) (hs : s'.search = s.search) (hpe : s'.pend = s.pend) (hof : s'.optsFin = s.optsFin)
    (hpo : s'.pOut = s.pOut) (hg : s'.goCount = s.goCount) (hb : s'.bmCount = s.bmCount) : G3 r s' := by
  refine ⟨?_, ?_, ?_, ?_, ?_, ?_, ?_, ?_, ?_⟩
  · rw [hq]; exact h.r1q
  · rw [hs]; exact h.r1s
  · rw [hq, hs]; exact h.excl
  · rw [hpc, hs]; exact h.s1
  · rw [hpc, hq]; exact h.q1
  · rw [hq]; exact h.r4
  · rw [hpc, hs]; exact h.r5
  · rw [hg, hb, hs, hpc]; exact h.b1
  · intro hfl hpn
    have hfl' : s.flag r = false := by
      rcases hf with e | e
      · rw [← e]; exact hfl
      · rw [e] at hfl; cases hfl
    have hpn' : ¬ PN r s := by
      intro hh; apply hpn; unfold PN at hh ⊢; rw [hpo, hq, hs]; exact hh
    have := h.ne hfl' hpn'
    rw [hpc]
    cases hp : s.pc r <;> simp only [hp, need] at this ⊢ <;> (try rw [hq]) <;> (try rw [hs]) <;> (try rw [hpe]) <;> (try rw [hof]) <;> exact this

end Conc
