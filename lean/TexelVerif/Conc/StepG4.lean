import TexelVerif.Conc.InvG4
/-! Every step preserves the activity invariant `G4` (given `G1`). -/
namespace Conc

variable {n : Nat}

theorem G4.frame {r : Fin n} {s s' : St n} (h : G4 r s)
    (ha : s'.alive = s.alive) (hp : s'.parent = s.parent) (hg : s'.gen = s.gen)
    (hsi : ∀ p v, isChild s p v = true → stopIn s' p v = stopIn s p v)
    (hai : ∀ p v, isChild s p v = true → 0 < ackIn s' p v → 0 < ackIn s p v)
    (hir : ∀ v, v ≠ r → inRound s' v = inRound s v)
    (hsw : ∀ v, s.alive v = true → inRound s v = true → s'.selfWait v = s.selfWait v)
    (hj : ∀ v, s.alive v = true → v ≠ r → inRound s v = true → s'.jobId v = none ∨ s'.jobId v = s.jobId v)
    (hs : ∀ v, s.alive v = true → v ≠ r → isSearch (s'.pc v) = true → isSearch (s.pc v) = true ∨ inRound s v = false)
    (hact : ∀ v, s.alive v = true → v ≠ r → act s' v = true →
              act s v = true ∨ inRound s v = true ∨ actR s' r = true ∨ s.gen v + 1 = s.gen r)
    (hR : actR s r = true → actR s' r = true) : G4 r s' := by
  have hic := isChild_congr ha hp
  refine ⟨?_, ?_, ?_, ?_, ?_, ?_, ?_, ?_, ?_, ?_⟩
  · intro v hv; rw [ha] at hv; rw [hg]; exact h.gN v hv
  · intro v hv; rw [ha] at hv; rw [hg]; exact h.gN2 v hv
  · intro p v hc; rw [hic] at hc; rw [hg]; exact h.gM p v hc
  · intro p v hc hst; rw [hic] at hc; rw [hsi p v hc] at hst; rw [hg]; exact h.gX p v hc hst
  · intro p v hc ho; rw [hic] at hc; rw [hg] at ho; rw [hsi p v hc, hg]; exact h.gW p v hc ho
  · intro v hv hne hr; rw [ha] at hv; rw [hir v hne] at hr; rw [hg]; exact h.gZ v hv hne hr
  · intro p v hc hak; rw [hic] at hc; rw [hg]; exact h.gZ2 p v hc (hai p v hc hak)
  · intro v hv hne hr; rw [ha] at hv; rw [hir v hne] at hr
    rcases hj v hv hne hr with e | e
    · exact e
    · rw [e]; exact h.j1 v hv hne hr
  · intro v hv hne hr hsw'; rw [ha] at hv; rw [hir v hne] at hr
    rw [hsw v hv hr] at hsw'
    cases hh : isSearch (s'.pc v)
    · rfl
    · rcases hs v hv hne hh with e | e
      · rw [h.j2 v hv hne hr hsw'] at e; cases e
      · rw [hr] at e; cases e
  · intro v hv hne hact'; rw [ha] at hv; rw [hir v hne, hg]
    rcases hact v hv hne hact' with e | e | e | e
    · rcases h.a v hv hne e with e1 | e1 | e1
      · exact Or.inl e1
      · exact Or.inr (Or.inl (hR e1))
      · exact Or.inr (Or.inr e1)
    · exact Or.inl e
    · exact Or.inr (Or.inl e)
    · exact Or.inr (Or.inr e)

/-- stop / ack traffic on every edge is unchanged when thread `v` only pops a neutral command and sets
    pending actions with the same stop / ack counts -/
theorem parts_local {s s' : St n} (v : Fin n) (ql : List (Cmd n)) (ol : List (Out n))
    (hq : s'.q = upd s.q v ql) (ho : s'.out = upd s.out v ol)
    (h1 : cStop ql = cStop (s.q v)) (h2 : ∀ d, cAck ql d = cAck (s.q v) d)
    (h3 : ∀ d, pStop ol d = pStop (s.out v) d) (h4 : ∀ p d, pAck ol p d = pAck (s.out v) p d) (p c : Fin n) :
    stopIn s' p c = stopIn s p c ∧ ackIn s' p c = ackIn s p c := by
  unfold stopIn ackIn
  rw [hq, ho]
  have e1 : cStop (upd s.q v ql c) = cStop (s.q c) := by
    by_cases hc : c = v
    · subst hc; rw [upd_same, h1]
    · rw [upd_other _ _ _ _ hc]
  have e2 : pStop (upd s.out v ol p) c = pStop (s.out p) c := by
    by_cases hc : p = v
    · subst hc; rw [upd_same, h3]
    · rw [upd_other _ _ _ _ hc]
  have e3 : cAck (upd s.q v ql p) c = cAck (s.q p) c := by
    by_cases hc : p = v
    · subst hc; rw [upd_same, h2]
    · rw [upd_other _ _ _ _ hc]
  have e4 : pAck (upd s.out v ol c) p c = pAck (s.out c) p c := by
    by_cases hc : c = v
    · subst hc; rw [upd_same, h4]
    · rw [upd_other _ _ _ _ hc]
  rw [e1, e2, e3, e4]; exact ⟨rfl, rfl⟩

theorem act_upd_other {s s' : St n} {v w : Fin n} (hw : w ≠ v)
    (hj : s'.jobId w = s.jobId w) (hpc : s'.pc w = s.pc w) (hq : s'.q w = s.q w) (ho : s'.out w = s.out w) :
    act s' w = act s w := by
  unfold act; rw [hj, hpc, hq, ho]

/-- a step of thread `v` that keeps the stop / ack traffic, the stop counters and the generations -/
theorem G4.neutral {r : Fin n} {s s' : St n} (h : G4 r s) (v : Fin n) (x : Pc) (ql : List (Cmd n)) (ol : List (Out n))
    (jb : Option Nat)
    (ha : s'.alive = s.alive) (hp : s'.parent = s.parent) (hg : s'.gen = s.gen)
    (h3 : s'.selfWait = s.selfWait) (h4 : s'.childWait = s.childWait)
    (hq : s'.q = upd s.q v ql) (ho : s'.out = upd s.out v ol) (hj : s'.jobId = upd s.jobId v jb) (hpc : s'.pc = upd s.pc v x)
    (c1 : cStop ql = cStop (s.q v)) (c2 : ∀ d, cAck ql d = cAck (s.q v) d)
    (c3 : ∀ d, pStop ol d = pStop (s.out v) d) (c4 : ∀ p d, pAck ol p d = pAck (s.out v) p d)
    (ojob : v ≠ r → inRound s v = true → jb = none ∨ jb = s.jobId v)
    (osearch : v ≠ r → isSearch x = true → isSearch (s.pc v) = true ∨ inRound s v = false)
    (oact : v ≠ r → (jb.isSome || isSearch x || hasStart ql || hasPStart ol) = true →
             act s v = true ∨ inRound s v = true ∨ actR s' r = true ∨ s.gen v + 1 = s.gen r)
    (oR : actR s r = true → actR s' r = true) : G4 r s' := by
  have hir : ∀ w, inRound s' w = inRound s w := inRound_congr h3 h4
  refine h.frame ha hp hg (fun p c _ => (parts_local v ql ol hq ho c1 c2 c3 c4 p c).1)
    (fun p c _ hh => by rw [(parts_local v ql ol hq ho c1 c2 c3 c4 p c).2] at hh; exact hh) (fun w _ => hir w) (fun w _ _ => by rw [h3]) ?_ ?_ ?_ oR
  · intro w _ hne hr
    rw [hj]
    by_cases hwv : w = v
    · subst hwv; rw [upd_same]; exact ojob hne hr
    · rw [upd_other _ _ _ _ hwv]; exact Or.inr rfl
  · intro w _ hne hh
    rw [hpc] at hh
    by_cases hwv : w = v
    · subst hwv; rw [upd_same] at hh; exact osearch hne hh
    · rw [upd_other _ _ _ _ hwv] at hh; exact Or.inl hh
  · intro w _ hne hh
    by_cases hwv : w = v
    · subst hwv
      unfold act at hh
      rw [hj, hpc, hq, ho] at hh
      simp only [upd_same] at hh
      exact oact hne hh
    · left
      rw [← act_upd_other hwv (by rw [hj, upd_other _ _ _ _ hwv]) (by rw [hpc, upd_other _ _ _ _ hwv])
        (by rw [hq, upd_other _ _ _ _ hwv]) (by rw [ho, upd_other _ _ _ _ hwv])]
      exact hh

theorem actR_upd_other {s : St n} {r v : Fin n} (x : Pc) (h : r ≠ v) : actR { s with pc := upd s.pc v x } r = actR s r := by
  simp [actR, h]

theorem hasStart_tail {c : Cmd n} {rest : List (Cmd n)} (h : hasStart rest = true) : hasStart (c :: rest) = true := by
  rw [hasStart_cons, h]; simp

theorem act_of_parts {s : St n} {v : Fin n} {jb : Option Nat} {x : Pc} {ql : List (Cmd n)} {ol : List (Out n)}
    (hh : (jb.isSome || isSearch x || hasStart ql || hasPStart ol) = true)
    (a1 : jb.isSome = true → (s.jobId v).isSome = true ∨ isSearch (s.pc v) = true ∨ hasStart (s.q v) = true ∨ hasPStart (s.out v) = true)
    (a2 : isSearch x = true → (s.jobId v).isSome = true ∨ isSearch (s.pc v) = true ∨ hasStart (s.q v) = true ∨ hasPStart (s.out v) = true)
    (a3 : hasStart ql = true → (s.jobId v).isSome = true ∨ isSearch (s.pc v) = true ∨ hasStart (s.q v) = true ∨ hasPStart (s.out v) = true)
    (a4 : hasPStart ol = true → (s.jobId v).isSome = true ∨ isSearch (s.pc v) = true ∨ hasStart (s.q v) = true ∨ hasPStart (s.out v) = true) :
    act s v = true := by
  unfold act
  simp only [Bool.or_eq_true] at hh ⊢
  have key : (s.jobId v).isSome = true ∨ isSearch (s.pc v) = true ∨ hasStart (s.q v) = true ∨ hasPStart (s.out v) = true := by
    rcases hh with ((hh | hh) | hh) | hh
    · exact a1 hh
    · exact a2 hh
    · exact a3 hh
    · exact a4 hh
  rcases key with k | k | k | k
  · exact Or.inl (Or.inl (Or.inl k))
  · exact Or.inl (Or.inl (Or.inr k))
  · exact Or.inl (Or.inr k)
  · exact Or.inr k

end Conc
