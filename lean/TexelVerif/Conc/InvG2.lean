import TexelVerif.Conc.Quiesce
/-! The notifier invariant `G2`: the sticky `Notifier::notified` flag never loses a wake-up.
    A thread that is at (or on its way to) `Notifier::wait` with the flag clear has an empty queue,
    no job and no self-acknowledgement outstanding. -/
namespace Conc

variable {n : Nat}

/-- program points at which "flag clear ⇒ queue empty" holds (everything but the draining polls) -/
def quietPc : Pc → Bool
  | .wait | .search _ | .ackSelf | .ecwait | .eqwait => true
  | _ => false

/-- program points at which `stopAckWaitSelf` can be set -/
def selfPc : Pc → Bool
  | .poll | .search _ | .ackSelf | .eack => true
  | _ => false

def quitPc : Pc → Bool
  | .eQuit0 | .equit | .eqwait | .edone => true
  | _ => false

def Cmd.isQuit : Cmd n → Bool
  | .quit => true
  | .quitAck _ => true
  | _ => false

def Out.isQuit : Out n → Bool
  | .enq _ c => c.isQuit
  | _ => false

structure G2 (r : Fin n) (s : St n) : Prop where
  /-- QUIT traffic exists only once the engine thread has left its main loop -/
  qphase : ∀ v, s.alive v = true → ((s.q v).any Cmd.isQuit = true ∨ (s.out v).any Out.isQuit = true ∨ s.quitWait v ≠ -1) → quitPc (s.pc r) = true
  ns : ∀ v, s.alive v = true → s.selfWait v = true → selfPc (s.pc v) = true
  nq : ∀ v, s.alive v = true → quietPc (s.pc v) = true → s.flag v = false → s.q v = []
  nj : ∀ v, s.alive v = true → s.flag v = false →
        (∀ j, s.pc v = .search j → s.jobId v = some j) ∧ ((s.pc v = .ackSelf ∨ s.pc v = .wait) → s.jobId v = none)


/-- a step of the thread owning `v` that touches only `v`'s own components -/
theorem G2.local {r : Fin n} {s s' : St n} (h : G2 r s) (v : Fin n) (x : Pc) (ql : List (Cmd n)) (ol : List (Out n))
    (fl sw : Bool) (qw : Int) (jb : Option Nat)
    (ha : s'.alive = s.alive) (hq : s'.q = upd s.q v ql) (ho : s'.out = upd s.out v ol)
    (hf : s'.flag = upd s.flag v fl) (h3 : s'.selfWait = upd s.selfWait v sw) (hw : s'.quitWait = upd s.quitWait v qw)
    (hj : s'.jobId = upd s.jobId v jb) (hpc : s'.pc = upd s.pc v x)
    (oq1 : quitPc (s.pc r) = true → quitPc (s'.pc r) = true)
    (oq2 : (ql.any Cmd.isQuit = true ∨ ol.any Out.isQuit = true ∨ qw ≠ -1) → quitPc (s'.pc r) = true)
    (os : sw = true → selfPc x = true)
    (on : quietPc x = true → fl = false → ql = [])
    (oj : fl = false → (∀ j, x = .search j → jb = some j) ∧ ((x = .ackSelf ∨ x = .wait) → jb = none)) : G2 r s' := by
  refine ⟨?_, ?_, ?_, ?_⟩
  · intro w hwa hqq
    rw [ha] at hwa
    by_cases hwv : w = v
    · subst hwv; rw [hq, ho, hw] at hqq; simp only [upd_same] at hqq; exact oq2 hqq
    · rw [hq, ho, hw] at hqq; simp only [upd_other _ _ _ _ hwv] at hqq
      exact oq1 (h.qphase w hwa hqq)
  · intro w hwa hsw
    rw [ha] at hwa
    rw [hpc]
    by_cases hwv : w = v
    · subst hwv; rw [h3, upd_same] at hsw; rw [upd_same]; exact os hsw
    · rw [h3, upd_other _ _ _ _ hwv] at hsw; rw [upd_other _ _ _ _ hwv]; exact h.ns w hwa hsw
  · intro w hwa hqp hff
    rw [ha] at hwa
    rw [hpc] at hqp; rw [hf] at hff; rw [hq]
    by_cases hwv : w = v
    · subst hwv; rw [upd_same] at hqp hff ⊢; exact on hqp hff
    · rw [upd_other _ _ _ _ hwv] at hqp hff ⊢; exact h.nq w hwa hqp hff
  · intro w hwa hff
    rw [ha] at hwa
    rw [hf] at hff; rw [hpc, hj]
    by_cases hwv : w = v
    · subst hwv; rw [upd_same] at hff ⊢; rw [upd_same]; exact oj hff
    · rw [upd_other _ _ _ _ hwv] at hff ⊢; rw [upd_other _ _ _ _ hwv]; exact h.nj w hwa hff

end Conc
