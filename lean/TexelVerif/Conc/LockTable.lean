import TexelVerif.Conc.Access
import TexelVerif.Conc.LockTypes
/-! The hand-written side of the static tie between the protocol model's locking assumptions and the C++ source
    (properties C09 / C10): which C++ data member realises which shared location of `Conc/Access.lean`, under which
    protection discipline, and the decidable checks that `Bridge/LockFacts.lean` / `Bridge/WaitFacts.lean` run over the facts
    extracted from the current source (`Generated/LockFacts.lean`, tools/locktie.py).

    TRUSTED in this file: the assignment member ↦ (location, discipline) and the function lists (`…Fns`), which say which
    functions run in the owning thread / in the set-up phase / while all other threads are parked.  Everything else is checked. -/
namespace Conc.LockTie

/-- the shared locations of `Conc/Access.lean` (index dropped: a site talks about "the queue of `this`") plus the
    classes of members the model does not mention because they are not shared or are thread-safe objects -/
inductive SKind where
  | queue | flag | counters | job | children | regs | params | pending | options | ttGen | ttData   -- = constructors of `Conc.Loc`
  | sync      -- std::mutex / std::condition_variable / Notifier / TranspositionTable sub-objects: thread-safe by their own contract
  | setup     -- written during construction / thread start-up only, before the object is visible to a second thread
  | eOwned    -- touched by the engine thread only
  | pOwned    -- touched by the protocol (UCI) thread only
  | term      -- WorkerThread::terminate (atomic flag of the thread shut-down, outside the search protocol)
  | pool      -- ThreadPool state (utility worker pool, also used by TranspositionTable::clear): guarded by the pool mutex
  | hook      -- TEXEL_VERIF instrumentation
deriving DecidableEq, Repr

/-- location of the model ↦ its static kind -/
def SKind.ofLoc {n : Nat} : Loc n → SKind
  | .queue _ => .queue
  | .flag _ => .flag
  | .counters _ => .counters
  | .job _ => .job
  | .children _ => .children
  | .regs => .regs
  | .params => .params
  | .pending => .pending
  | .options => .options
  | .ttGen => .ttGen
  | .ttData => .ttData

/-- the kinds that are locations of the model -/
def modelKinds : List SKind := [.queue, .flag, .counters, .job, .children, .regs, .params, .pending, .options, .ttGen, .ttData]

/-- the C++ mutex member behind a lock of the model -/
def lockName {n : Nat} : Conc.Lock n → String
  | .qmutex _ => "Communicator::mutex"
  | .nmutex _ => "Notifier::mutex"
  | .emutex => "EngineMainThread::mutex"

inductive Disc where
  | sync                    -- no requirement (thread-safe object)
  | atomic                  -- std::atomic / RelaxedShared at the declaration and at every site
  | guarded (m : String)    -- every access holds mutex member `m` of the same object (or is in a listed function)
  | wguarded (m : String)   -- every WRITE holds `m` (or is in a listed function); reads by the owner are lock-free (Access.lean: children, params)
  | owned                   -- accessed only from the listed functions (they run in the owning thread)
  | setup                   -- written only in a constructor of the object itself or in the listed set-up functions
  | quiesced                -- written only in the listed functions (they run while every other thread is parked: model facts G3.s1 / quiescent_at_ack)
deriving DecidableEq, Repr

structure Row where
  cls : String
  name : String
  kind : SKind
  disc : Disc
  fns : List String
deriving Repr

/-- the mutex a row demands (guarded / wguarded) -/
def Row.mutex? (r : Row) : Option String :=
  match r.disc with
  | .guarded m => some m
  | .wguarded m => some m
  | _ => none

/-- (location kind, C++ mutex) of every locked access the model performs (`acc_locked_pairs` in Bridge/LockFacts.lean) -/
def lockedPairs : List (SKind × String) :=
  [(.queue, "Communicator::mutex"), (.flag, "Notifier::mutex"), (.children, "Communicator::mutex"),
   (.pending, "EngineMainThread::mutex"), (.params, "EngineMainThread::mutex"), (.regs, "EngineMainThread::mutex")]

/-! ### function lists (trusted: which thread / phase runs a function) -/

/-- run by the thread that owns the communicator (`Communicator::poll` handlers and the `sendXxx` broadcasts) -/
def counterFns : List String :=
  ["Communicator::hasStopAck", "Communicator::hasQuitAck", "Communicator::sendStopSearch", "Communicator::sendStopAck",
   "Communicator::sendQuit", "Communicator::sendQuitAck"]

/-- run by the worker's own thread (its main loop, the command handlers called from `poll`, the stop handler inside its search);
    `~WorkerThread` touches the state only after `thread->join()`; the constructor before the thread exists -/
def workerFns : List String :=
  ["WorkerThread::mainLoop", "WorkerThread::mainLoopCluster", "WorkerThread::doSearch", "WorkerThread::poll",
   "WorkerThread::shouldStop", "WorkerThread::sendReportResult", "WorkerThread::sendReportStats",
   "WorkerThread::CommHandler::assignThreads", "WorkerThread::CommHandler::initSearch", "WorkerThread::CommHandler::startSearch",
   "WorkerThread::CommHandler::stopSearch", "WorkerThread::CommHandler::setParam", "WorkerThread::CommHandler::quit",
   "WorkerThread::CommHandler::reportResult", "WorkerThread::CommHandler::stopAck", "WorkerThread::CommHandler::quitAck",
   "WorkerThread::~WorkerThread", "WorkerThread::WorkerThread"]

/-- the engine thread inside `doSearch` (model: `P` writes `params` only while `E` is outside `doSearch`, fact G3.s1) -/
def engineSearchFns : List String := ["EngineMainThread::doSearch"]

/-- writers of the transposition-table generation / contempt key: called by `P` before a search starts or by `E` in `setOptions` -/
def ttGenFns : List String :=
  ["TranspositionTable::nextGeneration", "TranspositionTable::clear", "TranspositionTable::reSize", "TranspositionTable::setWhiteContempt"]

/-- writers of the table geometry (hash size): `E` in `setOptions` (listeners) while no helper searches, or table-base set-up -/
def ttSizeFns : List String := ["TranspositionTable::reSize", "TranspositionTable::setUsedSize"]

/-! ### the table -/

def rows : List Row := [
  -- Notifier (lib/texellib/hw/parallel.hpp)
  ⟨"Notifier", "mutex", .sync, .sync, []⟩,
  ⟨"Notifier", "cv", .sync, .sync, []⟩,
  ⟨"Notifier", "notified", .flag, .guarded "Notifier::mutex", []⟩,
  ⟨"Notifier", "verifId", .hook, .setup, ["ThreadCommunicator::ThreadCommunicator", "ThreadCommunicator::setNotifier"]⟩,
  -- Communicator
  ⟨"Communicator", "cmdQueue", .queue, .guarded "Communicator::mutex", []⟩,
  ⟨"Communicator", "mutex", .sync, .sync, []⟩,
  ⟨"Communicator", "nodesSearched", .ttData, .atomic, []⟩,
  ⟨"Communicator", "tbHits", .ttData, .atomic, []⟩,
  ⟨"Communicator", "children", .children, .wguarded "Communicator::mutex", []⟩,
  ⟨"Communicator", "ctt", .setup, .setup, []⟩,
  ⟨"Communicator", "stopAckWaitSelf", .counters, .owned, counterFns⟩,
  ⟨"Communicator", "stopAckWaitChildren", .counters, .owned, counterFns⟩,
  ⟨"Communicator", "quitAckWaitChildren", .counters, .owned, counterFns⟩,
  -- ThreadCommunicator
  ⟨"ThreadCommunicator", "notifier", .setup, .setup, ["ThreadCommunicator::setNotifier"]⟩,
  ⟨"ThreadCommunicator", "ttReceiver", .setup, .setup, []⟩,
  -- WorkerThread
  ⟨"WorkerThread", "threadNo", .setup, .setup, []⟩,
  ⟨"WorkerThread", "disabled", .job, .owned, workerFns⟩,
  ⟨"WorkerThread", "comm", .job, .owned, workerFns⟩,
  ⟨"WorkerThread", "thread", .setup, .setup, []⟩,
  ⟨"WorkerThread", "threadNotifier", .sync, .sync, []⟩,
  ⟨"WorkerThread", "children", .job, .owned, workerFns⟩,
  ⟨"WorkerThread", "initialized", .sync, .sync, []⟩,
  ⟨"WorkerThread", "terminate", .term, .atomic, []⟩,
  ⟨"WorkerThread", "et", .job, .owned, workerFns⟩,
  ⟨"WorkerThread", "kt", .job, .owned, workerFns⟩,
  ⟨"WorkerThread", "ht", .job, .owned, workerFns⟩,
  ⟨"WorkerThread", "logFile", .job, .owned, workerFns⟩,
  ⟨"WorkerThread", "rootNodeIdx", .job, .owned, workerFns⟩,
  ⟨"WorkerThread", "pos", .job, .owned, workerFns⟩,
  ⟨"WorkerThread", "sti", .job, .owned, workerFns⟩,
  ⟨"WorkerThread", "posHashList", .job, .owned, workerFns⟩,
  ⟨"WorkerThread", "posHashListSize", .job, .owned, workerFns⟩,
  ⟨"WorkerThread", "whiteContempt", .job, .owned, workerFns⟩,
  ⟨"WorkerThread", "jobId", .job, .owned, workerFns⟩,
  ⟨"WorkerThread", "alpha", .job, .owned, workerFns⟩,
  ⟨"WorkerThread", "beta", .job, .owned, workerFns⟩,
  ⟨"WorkerThread", "depth", .job, .owned, workerFns⟩,
  ⟨"WorkerThread", "hasResult", .job, .owned, workerFns⟩,
  -- EngineMainThread (app/texel/enginecontrol.hpp)
  ⟨"EngineMainThread", "notifier", .sync, .sync, []⟩,
  ⟨"EngineMainThread", "tt", .sync, .sync, []⟩,
  ⟨"EngineMainThread", "comm", .setup, .setup, ["EngineMainThread::mainLoop"]⟩,   -- moved out at start-up on a non-master cluster node
  ⟨"EngineMainThread", "children", .pOwned, .owned, ["EngineMainThread::startSearch"]⟩,
  ⟨"EngineMainThread", "mutex", .sync, .sync, []⟩,
  ⟨"EngineMainThread", "searchStopped", .sync, .sync, []⟩,
  ⟨"EngineMainThread", "optionsSet", .sync, .sync, []⟩,
  ⟨"EngineMainThread", "search", .regs, .atomic, []⟩,
  ⟨"EngineMainThread", "quitFlag", .regs, .atomic, []⟩,
  ⟨"EngineMainThread", "engineControl", .params, .wguarded "EngineMainThread::mutex", engineSearchFns⟩,
  ⟨"EngineMainThread", "sc", .params, .wguarded "EngineMainThread::mutex", engineSearchFns⟩,
  ⟨"EngineMainThread", "pos", .params, .wguarded "EngineMainThread::mutex", engineSearchFns⟩,
  ⟨"EngineMainThread", "moves", .params, .wguarded "EngineMainThread::mutex", engineSearchFns⟩,
  ⟨"EngineMainThread", "ownBook", .params, .wguarded "EngineMainThread::mutex", engineSearchFns⟩,
  ⟨"EngineMainThread", "analyseMode", .params, .wguarded "EngineMainThread::mutex", engineSearchFns⟩,
  ⟨"EngineMainThread", "maxDepth", .params, .wguarded "EngineMainThread::mutex", engineSearchFns⟩,
  ⟨"EngineMainThread", "maxNodes", .params, .wguarded "EngineMainThread::mutex", engineSearchFns⟩,
  ⟨"EngineMainThread", "maxPV", .params, .wguarded "EngineMainThread::mutex", engineSearchFns⟩,
  ⟨"EngineMainThread", "minProbeDepth", .params, .wguarded "EngineMainThread::mutex", engineSearchFns⟩,
  ⟨"EngineMainThread", "ponder", .params, .wguarded "EngineMainThread::mutex", engineSearchFns⟩,
  ⟨"EngineMainThread", "infinite", .params, .wguarded "EngineMainThread::mutex", engineSearchFns⟩,
  ⟨"EngineMainThread", "clearHistory", .eOwned, .owned, ["EngineMainThread::doSearch", "EngineMainThread::setClearHistory"]⟩,
  ⟨"EngineMainThread", "pendingOptions", .pending, .guarded "EngineMainThread::mutex", []⟩,
  ⟨"EngineMainThread", "optionsSetFinished", .pending, .guarded "EngineMainThread::mutex", []⟩,
  -- EngineControl: only the two flags the engine thread polls
  ⟨"EngineControl", "ponder", .regs, .atomic, []⟩,
  ⟨"EngineControl", "infinite", .regs, .atomic, []⟩,
  -- ThreadPool (lib/texellib/threadpool.hpp)
  ⟨"ThreadPool", "mutex", .sync, .sync, []⟩,
  ⟨"ThreadPool", "taskCv", .sync, .sync, []⟩,
  ⟨"ThreadPool", "completeCv", .sync, .sync, []⟩,
  ⟨"ThreadPool", "nActive", .pool, .guarded "ThreadPool::mutex", []⟩,
  ⟨"ThreadPool", "stopped", .pool, .guarded "ThreadPool::mutex", []⟩,
  ⟨"ThreadPool", "threads", .setup, .setup, []⟩,
  ⟨"ThreadPool", "tasks", .pool, .guarded "ThreadPool::mutex", []⟩,
  ⟨"ThreadPool", "results", .pool, .guarded "ThreadPool::mutex", []⟩,
  ⟨"ThreadPool", "exceptions", .pool, .guarded "ThreadPool::mutex", []⟩,
  -- TranspositionTable / Search: the members named by Access.lean (`ttGen`, `options` = hash size, `ttData`)
  ⟨"TranspositionTable", "generation", .ttGen, .quiesced, ttGenFns⟩,
  ⟨"TranspositionTable", "contemptHash", .ttGen, .quiesced, ttGenFns⟩,
  ⟨"TranspositionTable", "table", .options, .quiesced, ttSizeFns⟩,
  ⟨"TranspositionTable", "tableP", .options, .quiesced, ttSizeFns⟩,
  ⟨"TranspositionTable", "tableSize", .options, .quiesced, ttSizeFns⟩,
  ⟨"TranspositionTable", "usedSize", .options, .quiesced, ttSizeFns⟩,
  ⟨"TranspositionTable", "usedSizeTopBits", .options, .quiesced, ttSizeFns⟩,
  ⟨"TranspositionTable", "usedSizeShift", .options, .quiesced, ttSizeFns⟩,
  ⟨"TranspositionTable", "usedSizeMask", .options, .quiesced, ttSizeFns⟩,
  ⟨"TranspositionTable::TTEntryStorage", "key", .ttData, .atomic, []⟩,
  ⟨"TranspositionTable::TTEntryStorage", "data", .ttData, .atomic, []⟩,
  ⟨"Search", "minTimeMillis", .ttData, .atomic, []⟩,
  ⟨"Search", "maxTimeMillis", .ttData, .atomic, []⟩,
  ⟨"Search", "earlyStopPercentage", .ttData, .atomic, []⟩,
  ⟨"RelaxedShared", "data", .ttData, .atomic, []⟩
]

/-! ### the checks -/

def rowOf (cls name : String) : Option Row := rows.find? (fun r => r.cls == cls && r.name == name)

/-- lock on mutex member `m` of the accessed object itself -/
def Access.holds (a : Access) (m : String) : Bool := a.locks.any (fun l => l.mutex == m && l.base == a.base)

/-- (i) the access respects the discipline of its row -/
def Access.okFor (a : Access) (r : Row) : Bool :=
  match r.disc with
  | .sync => true
  | .atomic => true
  | .guarded m => a.holds m || r.fns.contains a.fn
  | .wguarded m => !a.write || a.holds m || r.fns.contains a.fn
  | .owned => r.fns.contains a.fn
  | .setup => !a.write || (a.ctor && a.base == "this") || r.fns.contains a.fn
  | .quiesced => !a.write || r.fns.contains a.fn

def needsSite (d : Disc) : Bool :=
  match d with
  | .guarded _ => true
  | .wguarded _ => true
  | .owned => true
  | .quiesced => true
  | _ => false

def Group.row (g : Group) : Option Row := rowOf g.member.cls g.member.name

def badDiscipline (gs : List Group) : List Access :=
  gs.flatMap (fun g => match g.row with | some r => g.sites.filter (fun a => !a.okFor r) | none => [])

/-- (iii) atomic rows: atomic type at the declaration and at every site -/
inductive AtomicGap where
  | decl (m : Member)
  | site (a : Access)
deriving Repr, DecidableEq

def badAtomic (gs : List Group) : List AtomicGap :=
  gs.flatMap (fun g => match g.row with
    | some r => if r.disc == .atomic then
        (if g.member.atomicTy then [] else [AtomicGap.decl g.member]) ++ (g.sites.filter (fun a => !a.atomicTy)).map AtomicGap.site
      else []
    | none => [])

/-- (iv) completeness -/
inductive TableGap where
  | missingRow (m : Member)      -- non-const member of a thread-layer class without a row
  | untabled (a : Access)        -- access site of a non-const member without a row
  | noSite (m : Member)          -- row with a lexically checked discipline but no access site in the scanned sources
deriving Repr, DecidableEq

def tableGaps (gs : List Group) (complete : List String) : List TableGap :=
  gs.flatMap (fun g => match g.row with
    | some r => if needsSite r.disc && g.sites.isEmpty then [TableGap.noSite g.member] else []
    | none => if g.member.isConst then [] else
        (if complete.contains g.member.cls then [TableGap.missingRow g.member] else []) ++ g.sites.map TableGap.untabled)

def staleRows (gs : List Group) : List Row :=
  rows.filter (fun r => !gs.any (fun g => g.member.cls == r.cls && g.member.name == r.name))

def uncoveredKinds : List SKind := modelKinds.filter (fun k => !rows.any (fun r => r.kind == k))

def threadClasses : List String := ["Notifier", "Communicator", "ThreadCommunicator", "WorkerThread", "EngineMainThread", "ThreadPool"]

def classesWithoutMembers (gs : List Group) (complete : List String) : List String :=
  (threadClasses.filter (fun c => !complete.contains c)) ++ complete.filter (fun c => !gs.any (fun g => g.member.cls == c))

/-- (ii) the lost-wake-up condition -/
def Wait.wellFormed (w : Wait) : Bool :=
  w.mutex.isSome && w.held && (w.looped || w.call != "wait") && !w.preds.isEmpty

def badWaitShape (ws : List Wait) : List Wait := ws.filter (fun w => !w.wellFormed)

/-- write sites of a predicate variable of `w` that do not hold the waiter's mutex (on the written object) -/
def Wait.badWrites (w : Wait) (gs : List Group) : List Access :=
  match w.mutex with
  | none => []
  | some m => w.preds.flatMap (fun p =>
      (gs.filter (fun g => g.member.cls == p.cls && g.member.name == p.name)).flatMap (fun g =>
        g.sites.filter (fun a => a.write && !a.holds m.mutex)))

def badPredicateWrites (ws : List Wait) (gs : List Group) : List (Wait × Access) :=
  ws.flatMap (fun w => (w.badWrites gs).map (fun a => (w, a)))

/-- a notification of `w`'s condition variable that follows, in the same function, a write of one of `w`'s predicate
    variables made with `w`'s mutex held -/
def Notify.serves (nf : Notify) (w : Wait) : Bool :=
  nf.cv == w.cv && nf.written.any (fun x => w.preds.any (fun p => p.cls == x.var.cls && p.name == x.var.name) &&
    match w.mutex with | some m => x.locks.any (fun l => l.mutex == m.mutex && l.base == x.var.base) | none => false)

def unservedWaits (ws : List Wait) (ns : List Notify) : List Wait := ws.filter (fun w => !ns.any (fun nf => nf.serves w))

/-- notifications of a real condition variable that do not follow a guarded write of any waiter's predicate -/
def idleNotifies (ws : List Wait) (ns : List Notify) : List Notify :=
  ns.filter (fun nf => !nf.cv.startsWith "Notifier:" && !ws.any (fun w => nf.serves w))

/-! ### human-readable diagnosis (used by tools/locktie.py when a Bridge theorem fails) -/

def showLocks (ls : List Lock) : String := "[" ++ String.intercalate ", " (ls.map (fun l => l.mutex ++ "@" ++ l.base)) ++ "]"

def Access.show (a : Access) : String :=
  s!"{a.file}:{a.line}:{a.col} {if a.write then "write" else "read"} of {a.cls}::{a.name} (object `{a.base}`) in {a.fn}, locks held {showLocks a.locks}"

def Disc.show : Disc → String
  | .sync => "sync" | .atomic => "atomic" | .guarded m => s!"guarded by {m}" | .wguarded m => s!"writes guarded by {m}"
  | .owned => "owned by one thread (listed functions only)" | .setup => "set-up only" | .quiesced => "written only while the other threads are parked (listed functions only)"

def diagnoseLockFacts (gs : List Group) (complete : List String) (_ : List Wait) (_ : List Notify) : List String :=
  (badDiscipline gs).map (fun a => s!"lock_discipline_guarded: {a.show}; discipline: {match rowOf a.cls a.name with | some r => r.disc.show | none => "?"}") ++
  (badAtomic gs).map (fun x => match x with
    | .decl m => s!"atomics_are_atomic: {m.file}:{m.line} {m.cls}::{m.name} is declared `{m.type}`, the table says atomic"
    | .site a => s!"atomics_are_atomic: {a.show}: not of atomic type") ++
  (tableGaps gs complete).map (fun x => match x with
    | .missingRow m => s!"access_table_complete: member {m.cls}::{m.name} (`{m.type}`, {m.file}:{m.line}) is not const and not in the table Conc/LockTable.lean"
    | .untabled a => s!"access_table_complete: {a.show}: member not in the table"
    | .noSite m => s!"access_table_complete: table row {m.cls}::{m.name} has no access site in the scanned sources") ++
  (staleRows gs).map (fun r => s!"access_table_complete: table row {r.cls}::{r.name} has no such member in the source") ++
  uncoveredKinds.map (fun k => s!"access_table_complete: location kind {repr k} of Conc/Access.lean has no member in the table") ++
  (classesWithoutMembers gs complete).map (fun c => s!"access_table_complete: class {c} has no extracted members")

def Wait.show (w : Wait) : String :=
  s!"{w.file}:{w.line} {w.cv}.{w.call} in {w.fn} (mutex {match w.mutex with | some m => m.mutex ++ "@" ++ m.base | none => "?"}, predicate reads {w.preds.map (fun p => p.cls ++ "::" ++ p.name)})"

def diagnoseWaitFacts (gs : List Group) (_ : List String) (ws : List Wait) (ns : List Notify) : List String :=
  (badWaitShape ws).map (fun w => s!"waits_well_formed: {w.show}: lock not held / not re-tested in a loop / empty predicate") ++
  (badPredicateWrites ws gs).map (fun (w, a) => s!"wait_predicates_guarded: {a.show} — but it is read by the wait predicate of {w.show}: a wake-up can be lost") ++
  (unservedWaits ws ns).map (fun w => s!"notifies_cover_waits: no notify of {w.cv} follows a write (under the waiter's mutex) of a predicate variable of {w.show}") ++
  (idleNotifies ws ns).map (fun nf => s!"notifies_cover_waits: {nf.file}:{nf.line} {nf.cv}.{nf.call} in {nf.fn} does not follow a write, under the waiters' mutex, of any variable a waiter tests (written: {nf.written.map (fun x => x.var.cls ++ "::" ++ x.var.name ++ showLocks x.locks)})")

end Conc.LockTie
