import TexelVerif.Conc.StepG1
/-! `G1` is preserved by the dequeue step (all command handlers), the self-ack and the root's stop broadcast. -/
namespace Conc

variable {n : Nat}

theorem filter_purger_tail {c : Cmd n} {rest : List (Cmd n)} (h : ((c :: rest).filter Cmd.isPurger).length ≤ 1) :
    (rest.filter Cmd.isPurger).length ≤ 1 := by
  rw [List.filter_cons] at h
  split at h
  · simp only [List.length_cons] at h; omega
  · exact h

theorem hasStart_false_of_purger {c : Cmd n} {rest : List (Cmd n)} (hc : c.isPurger = true)
    (h : ((c :: rest).filter Cmd.isPurger).length ≤ 1) : hasStart rest = false := by
  rw [List.filter_cons, hc] at h
  simp only [if_true, List.length_cons] at h
  have h0 : rest.filter Cmd.isPurger = [] := List.eq_nil_of_length_eq_zero (by omega)
  unfold hasStart
  rw [List.any_eq_false]
  intro x hx hs
  have : x ∈ rest.filter Cmd.isPurger := List.mem_filter.2 ⟨hx, by cases x <;> simp [Cmd.isStart] at hs <;> rfl⟩
  rw [h0] at this; cases this

theorem pStop_notify_cons (t : Fin n) (l : List (Out n)) (c : Fin n) : pStop (Out.notify t :: l) c = pStop l c := by
  simp [pStop]

theorem pAck_notify_cons (t : Fin n) (l : List (Out n)) (p c : Fin n) : pAck (Out.notify t :: l) p c = pAck l p c := by
  simp [pAck]

/-- the facts available when `v` is not in a round -/
theorem G1.idle_children {r : Fin n} {s : St n} (h : G1 r s) {v c : Fin n} (hr : inRound s v = false)
    (hc : isChild s v c = true) :
    cStop (s.q c) = 0 ∧ pStop (s.out v) c = 0 ∧ inRound s c = false ∧ cAck (s.q v) c = 0 ∧ pAck (s.out c) v c = 0 :=
  debt_zero_parts (h.debt_zero hc hr)

/-- STOP handler at a helper, and `sendStopSearch` at the root: `v` is outside a round, all children's
    debts become one pending STOP each -/
theorem G1.stop_local {r : Fin n} {s : St n} (h : G1 r s) {v : Fin n} (ql : List (Cmd n)) (hr : inRound s v = false)
    (hca : ∀ c, cAck ql c ≤ cAck (s.q v) c) :
    nChildren s v = sumCh s v (debtDown s v ql (Out.notify v :: bcast s v .stop)) ∧
    ∀ c, isChild s v c = true → debtDown s v ql (Out.notify v :: bcast s v .stop) c ≤ 1 := by
  have key : ∀ c, isChild s v c = true → debtDown s v ql (Out.notify v :: bcast s v .stop) c = 1 := by
    intro c hc
    obtain ⟨h1, _, h3, h4, h5⟩ := h.idle_children hr hc
    unfold debtDown
    rw [pStop_notify_cons, pStop_bcast, h1, h3, h5]
    have := hca c
    simp [hc]; omega
  constructor
  · rw [← sumCh_one]
    exact sumCh_congr s s v _ _ (fun _ => rfl) (fun c hc => (key c hc).symm)
  · intro c hc; rw [key c hc]; exact Nat.le_refl 1

/-- popping a STOP_ACK from child `src`: that child's debt goes from 1 to 0 -/
theorem G1.ack_local {r : Fin n} {s : St n} (h : G1 r s) {v src : Fin n} (rest : List (Cmd n)) (ol : List (Out n))
    (va : s.alive v = true) (hq : s.q v = Cmd.ack src :: rest) (hout : s.out v = []) (hol0 : ∀ c, pStop ol c = 0) :
    1 ≤ s.childWait v ∧ s.childWait v - 1 = sumCh s v (debtDown s v rest ol) ∧
    ∀ c, isChild s v c = true → debtDown s v rest ol c ≤ 1 := by
  have hcs : isChild s v src = true := h.qOk v (Cmd.ack src) va (by rw [hq]; exact List.mem_cons_self)
  have hle := h.le1 v src hcs
  have hca : cAck (s.q v) src = cAck rest src + 1 := by rw [hq, cAck_cons]; simp
  have hps : ∀ c, pStop (s.out v) c = 0 := by intro c; rw [hout]; simp [pStop]
  have hdsrc : debt s v src = 1 ∧ debtDown s v rest ol src = 0 := by
    unfold debt at hle ⊢
    unfold debtDown
    rw [hca] at hle ⊢
    rw [hps, hol0]
    rw [hps] at hle
    constructor <;> omega
  have hother : ∀ c, c ≠ src → debtDown s v rest ol c = debt s v c := by
    intro c hc
    unfold debt debtDown
    rw [hps, hol0, hq, cAck_cons]
    have : Cmd.ack src ≠ Cmd.ack c := by intro e; cases e; exact hc rfl
    simp [this]
  have hsum := h.sum v va
  have hge : debt s v src ≤ sumCh s v (debt s v) := sumCh_ge s v _ src hcs
  have hupd := sumCh_upd1 s s v src (debt s v) (debtDown s v rest ol) (fun _ => rfl) hcs (fun c hc _ => (hother c hc).symm)
  refine ⟨by omega, by omega, ?_⟩
  intro c hc
  by_cases hcs' : c = src
  · subst hcs'; omega
  · rw [hother c hcs']; exact h.le1 v c hc

theorem cAck_tail_le (c : Cmd n) (rest : List (Cmd n)) (d : Fin n) : cAck rest d ≤ cAck (c :: rest) d := by
  rw [cAck_cons]; omega

theorem handleW_G1 {r : Fin n} {s : St n} (h : G1 r s) (v : Fin n) (c : Cmd n) (rest : List (Cmd n))
    (va : s.alive v = true) (hne : v ≠ r) (hq : s.q v = c :: rest) (hout : s.out v = []) :
    G1 r (handleW { s with q := upd s.q v rest } v c) := by
  have hmem : ∀ x, x ∈ rest → x ∈ s.q v := by intro x hx; rw [hq]; exact List.mem_cons_of_mem _ hx
  have hpur : (rest.filter Cmd.isPurger).length ≤ 1 := filter_purger_tail (by rw [← hq]; exact h.purger1 v va)
  have hk : isEnginePc (s.pc v) = isEnginePc (s.pc v) := rfl
  have hrr : v = r → inRound s r = true → roundPc (s.pc v) = true := fun e => absurd e hne
  obtain ⟨p0, hp0, hp0a⟩ := h.par v va hne
  have hcp : isChild s p0 v = true := (isChild_iff s p0 v).2 ⟨va, hp0⟩
  cases c with
  | init =>
    refine h.neutral v (s.pc v) rest (bcast s v .init) va rfl rfl rfl rfl rfl rfl
      (Or.inr ⟨_, hq, by simp, by simp⟩) rfl hout
      (pStop_bcast_ne s v _ (by simp)) (fun p d => pAck_bcast s v _ p d (by simp)) (OutOk_bcast s v _ rfl)
      (by intro hst; rw [hasPStart_bcast s v _ rfl] at hst; cases hst) (by simp [handleW]) hk hrr
  | start e j =>
    refine h.neutral v (s.pc v) rest (bcast s v (.start e j)) va rfl rfl rfl rfl rfl rfl
      (Or.inr ⟨_, hq, by simp, by simp⟩) rfl hout
      (pStop_bcast_ne s v _ (by simp)) (fun p d => pAck_bcast s v _ p d (by simp)) (OutOk_bcast s v _ rfl)
      ?_ (by simp [handleW]) hk hrr
    intro _
    refine ⟨fun _ => ?_, fun e => absurd e hne⟩
    exact h.startRound v va hne (Or.inl (by rw [hq, hasStart_cons]; simp [Cmd.isStart]))
  | stop =>
    -- v is not in a round: its debt towards p0 is already 1 through the queued STOP
    have hle := h.le1 p0 v hcp
    have hcs : cStop (s.q v) = cStop rest + 1 := by rw [hq, cStop_cons]; simp
    have hparts : cStop rest = 0 ∧ pStop (s.out p0) v = 0 ∧ inRound s v = false ∧ cAck (s.q p0) v = 0 ∧ pAck (s.out v) p0 v = 0 := by
      unfold debt at hle
      rw [hcs] at hle
      cases hir : inRound s v
      · rw [hir] at hle; simp only [Bool.false_eq_true, ↓reduceIte] at hle
        exact ⟨by omega, by omega, rfl, by omega, by omega⟩
      · rw [hir] at hle; simp only [↓reduceIte] at hle; exfalso; omega
    obtain ⟨hsum, hlev⟩ := h.stop_local (v := v) rest hparts.2.2.1 (fun d => by rw [hq]; exact cAck_tail_le _ _ d)
    refine h.local v (s.pc v) rest (Out.notify v :: bcast s v .stop) true (nChildren s v) va rfl rfl rfl rfl hmem hpur rfl rfl rfl
      (by simp [handleW]) hk hsum hlev ?_ ?_ ?_ (fun e => absurd e hne) (fun e => absurd e hne)
    · intro p hc
      have hpp : p = p0 := by
        have := ((isChild_iff s p v).1 hc).2; rw [hp0] at this; cases this; rfl
      subst hpp
      unfold debtUp debt
      rw [pAck_notify_cons, pAck_bcast s v _ p v (by simp), hcs, hparts.1, hparts.2.1, hparts.2.2.1, hparts.2.2.2.1, hparts.2.2.2.2]
      simp
    · intro o ho
      rcases List.mem_cons.1 ho with e | ho
      · subst e; simp [OutOk]
      · exact OutOk_bcast s v _ rfl o ho
    · intro _ hst
      exfalso
      rcases hst with h1 | h1
      · rw [hasStart_false_of_purger (c := Cmd.stop) rfl (by rw [← hq]; exact h.purger1 v va)] at h1; cases h1
      · have : hasPStart (Out.notify v :: bcast s v Cmd.stop) = false := by
          have hb := hasPStart_bcast s v Cmd.stop rfl
          unfold hasPStart at hb ⊢
          rw [List.any_cons, hb]; rfl
        rw [this] at h1; cases h1
  | quit =>
    simp only [handleW]
    split
    · refine h.neutral v (s.pc v) rest (toParent s v (.quitAck v)) va rfl rfl rfl rfl rfl rfl
        (Or.inr ⟨_, hq, by simp, by simp⟩) rfl hout
        (pStop_toParent s v _ (by simp)) (pAck_toParent_ne s v _ (by simp)) (OutOk_toParent s v _ (by simp [mentions]))
        (by intro hst; rw [hasPStart_toParent s v _ rfl] at hst; cases hst) (by simp) hk hrr
    · refine h.neutral v (s.pc v) rest (bcast s v .quit) va rfl rfl rfl rfl rfl rfl
        (Or.inr ⟨_, hq, by simp, by simp⟩) rfl hout
        (pStop_bcast_ne s v _ (by simp)) (fun p d => pAck_bcast s v _ p d (by simp)) (OutOk_bcast s v _ rfl)
        (by intro hst; rw [hasPStart_bcast s v _ rfl] at hst; cases hst) (by simp) hk hrr
  | report src e j =>
    simp only [handleW]
    split
    · refine h.neutral v (s.pc v) rest (toParent s v (.report v e j)) va rfl rfl rfl rfl rfl rfl
        (Or.inr ⟨_, hq, by simp, by simp⟩) rfl hout
        (pStop_toParent s v _ (by simp)) (pAck_toParent_ne s v _ (by simp)) (OutOk_toParent s v _ (by simp [mentions]))
        (by intro hst; rw [hasPStart_toParent s v _ rfl] at hst; cases hst) (by simp) hk hrr
    · refine h.neutral v (s.pc v) rest [] va rfl rfl rfl rfl rfl rfl
        (Or.inr ⟨_, hq, by simp, by simp⟩) (by rw [← hout, upd_self]) hout
        (by intro d; simp [pStop]) (by intro p d; simp [pAck]) (by intro o ho; cases ho)
        (by intro hst; simp [hasPStart] at hst) (by simp) hk hrr
  | quitAck src =>
    simp only [handleW]
    refine h.neutral v (s.pc v) rest (if s.quitWait v - 1 = 0 then toParent s v (.quitAck v) else []) va rfl rfl rfl rfl rfl rfl
      (Or.inr ⟨_, hq, by simp, by simp⟩) rfl hout ?_ ?_ ?_ ?_ (by simp) hk hrr
    · intro d; split
      · exact pStop_toParent s v _ (by simp) d
      · simp [pStop]
    · intro p d; split
      · exact pAck_toParent_ne s v _ (by simp) p d
      · simp [pAck]
    · intro o ho; split at ho
      · exact OutOk_toParent s v _ (by simp [mentions]) o ho
      · cases ho
    · intro hst; split at hst
      · rw [hasPStart_toParent s v _ rfl] at hst; cases hst
      · simp [hasPStart] at hst
  | ack src =>
    simp only [handleW]
    rw [show toParent { s with q := upd s.q v rest } v (Cmd.ack v) = toParent s v (Cmd.ack v) from rfl]
    have hps0 : ∀ c, pStop (if s.selfWait v = false ∧ s.childWait v - 1 = 0 then toParent s v (.ack v) else []) c = 0 := by
      intro c; split
      · exact pStop_toParent s v _ (by simp) c
      · simp [pStop]
    obtain ⟨hge, hsum, hlev⟩ := h.ack_local rest _ va hq hout hps0
    have hcs : cStop (s.q v) = cStop rest := by rw [hq, cStop_cons]; simp
    have hir : inRound s v = true := by simp [inRound]; right; omega
    refine h.local v (s.pc v) rest _ (s.selfWait v) (s.childWait v - 1) va rfl rfl rfl rfl hmem hpur rfl (by simp) rfl
      (by simp) hk hsum hlev ?_ ?_ ?_ (fun e => absurd e hne) (fun e => absurd e hne)
    · intro p hc
      have hpp : p = p0 := by
        have := ((isChild_iff s p v).1 hc).2; rw [hp0] at this; cases this; rfl
      subst hpp
      unfold debtUp debt
      rw [hcs, hir, hout]
      by_cases hfw : s.selfWait v = false ∧ s.childWait v - 1 = 0
      · rw [if_pos hfw]
        have : pAck (toParent s v (Cmd.ack v)) p v = 1 := by simp [toParent, hp0, pAck]
        rw [this]; simp [hfw.1, hfw.2, pAck]; omega
      · rw [if_neg hfw]
        have : (s.selfWait v || decide (0 < s.childWait v - 1)) = true := by
          cases hsw : s.selfWait v
          · simp [hsw] at hfw; simp <;> omega
          · rfl
        rw [this]
    · intro o ho; split at ho
      · exact OutOk_toParent s v _ (by simp [mentions]) o ho
      · cases ho
    · intro _ hst
      exfalso
      rcases hst with h1 | h1
      · have := h.startRound v va hne (Or.inl (by rw [hq, hasStart_cons, h1]; simp))
        rw [hir] at this; cases this
      · split at h1
        · rw [hasPStart_toParent s v _ rfl] at h1; cases h1
        · simp [hasPStart] at h1

/-- outside a round the root's queue holds no STOP_ACK, and it never holds a STOP -/
theorem G1.root_head {r : Fin n} {s : St n} (h : G1 r s) {c : Cmd n} {rest : List (Cmd n)} (hq : s.q r = c :: rest) :
    c ≠ Cmd.stop ∧ (inRound s r = false → ∀ d, c ≠ Cmd.ack d) := by
  have hm : c ∈ s.q r := by rw [hq]; exact List.mem_cons_self
  have hok := h.qOk r c h.rootAlive hm
  constructor
  · intro e; subst e; exact hok rfl
  · intro hr d e; subst e
    have hcd : isChild s r d = true := hok
    have := (h.idle_children hr hcd).2.2.2.1
    rw [hq, cAck_cons] at this; simp at this

theorem stepDeq_G1 {r : Fin n} {s s' : St n} (h : G1 r s) (v : Fin n) (hs : stepDeq s v = some s') : G1 r s' := by
  unfold stepDeq at hs
  split at hs
  · rename_i hg
    split at hs
    · cases hs
    · rename_i c rest hq
      simp only at hs
      split at hs
      · rename_i hpc; cases hs
        exact handleW_G1 h v c rest hg.1 (h.worker_ne_root hg.1 (by rw [hpc]; rfl)) hq hg.2
      · rename_i j hpc; cases hs
        exact handleW_G1 h v c rest hg.1 (h.worker_ne_root hg.1 (by rw [hpc]; rfl)) hq hg.2
      · rename_i hpc; cases hs
        have hvr : v = r := h.root_pc hg.1 (by rw [hpc]; rfl)
        subst hvr
        have hnr : inRound s v = false := h.root_not_inRound (by rw [hpc]; rfl)
        obtain ⟨h1, h2⟩ := h.root_head hq
        refine h.neutral v (s.pc v) rest [] hg.1 rfl rfl rfl rfl rfl rfl (Or.inr ⟨c, hq, h1, h2 hnr⟩)
          (by rw [← hg.2, upd_self]) hg.2 (by intro d; simp [pStop]) (by intro p d; simp [pAck]) (by intro o ho; cases ho)
          (by intro hst; simp [hasPStart] at hst) (by simp) rfl ?_
        intro _ hir; rw [hnr] at hir; cases hir
      · rename_i hpc; cases hs
        have hvr : v = r := h.root_pc hg.1 (by rw [hpc]; rfl)
        subst hvr
        obtain ⟨h1, h2⟩ := h.root_head hq
        have hmem : ∀ x, x ∈ rest → x ∈ s.q v := by intro x hx; rw [hq]; exact List.mem_cons_of_mem _ hx
        have hpur : (rest.filter Cmd.isPurger).length ≤ 1 := filter_purger_tail (by rw [← hq]; exact h.purger1 v hg.1)
        cases c with
        | ack src =>
          simp only [handleE]
          obtain ⟨hge, hsum, hlev⟩ := h.ack_local rest [] hg.1 hq hg.2 (by intro c; simp [pStop])
          refine h.local v (s.pc v) rest [] (s.selfWait v) (s.childWait v - 1) hg.1 rfl rfl rfl rfl hmem hpur
            (by rw [← hg.2, upd_self]) (by simp) rfl (by simp) rfl hsum hlev ?_ (by intro o ho; cases ho)
            (fun hne => absurd rfl hne) (fun _ _ => by rw [hpc]; rfl) (by intro _ hst; simp [hasPStart] at hst)
          intro p hc; exact absurd rfl (h.child_ne_root hc)
        | init | start _ _ | stop | quit | report _ _ _ | quitAck _ =>
          simp only [handleE]
          refine h.neutral v (s.pc v) rest [] hg.1 rfl rfl rfl rfl rfl rfl (Or.inr ⟨_, hq, h1, by intro d; simp⟩)
            (by rw [← hg.2, upd_self]) hg.2 (by intro d; simp [pStop]) (by intro p d; simp [pAck]) (by intro o ho; cases ho)
            (by intro hst; simp [hasPStart] at hst) (by simp) rfl (fun _ _ => by rw [hpc]; rfl)
      · rename_i hpc; cases hs
        have hvr : v = r := h.root_pc hg.1 (by rw [hpc]; rfl)
        subst hvr
        have hnr : inRound s v = false := h.root_not_inRound (by rw [hpc]; rfl)
        obtain ⟨h1, h2⟩ := h.root_head hq
        have hrr : v = v → inRound s v = true → roundPc (s.pc v) = true := by
          intro _ hir; rw [hnr] at hir; cases hir
        cases c with
        | quitAck src =>
          simp only [handleE]
          refine h.neutral v (s.pc v) rest [] hg.1 rfl rfl rfl rfl rfl rfl (Or.inr ⟨_, hq, h1, h2 hnr⟩)
            (by rw [← hg.2, upd_self]) hg.2 (by intro d; simp [pStop]) (by intro p d; simp [pAck]) (by intro o ho; cases ho)
            (by intro hst; simp [hasPStart] at hst) (by simp) rfl hrr
        | init | start _ _ | stop | quit | report _ _ _ | ack _ =>
          simp only [handleE]
          refine h.neutral v (s.pc v) rest [] hg.1 rfl rfl rfl rfl rfl rfl (Or.inr ⟨_, hq, h1, h2 hnr⟩)
            (by rw [← hg.2, upd_self]) hg.2 (by intro d; simp [pStop]) (by intro p d; simp [pAck]) (by intro o ho; cases ho)
            (by intro hst; simp [hasPStart] at hst) (by simp) rfl hrr
      · cases hs
  · cases hs

theorem hasPStart_stop_bcast (s : St n) (v : Fin n) : hasPStart (Out.notify v :: bcast s v Cmd.stop) = false := by
  have hb := hasPStart_bcast s v Cmd.stop rfl
  unfold hasPStart at hb ⊢
  rw [List.any_cons, hb]; rfl

/-- with no pending actions, `debtDown` with the unchanged queue is the debt -/
theorem debtDown_same {s : St n} {v : Fin n} (hout : s.out v = []) (ol : List (Out n)) (hol : ∀ c, pStop ol c = 0) (c : Fin n) :
    debtDown s v (s.q v) ol c = debt s v c := by
  unfold debtDown debt
  rw [hol, hout]; simp [pStop]

theorem stepAckSelf_G1 {r : Fin n} {s s' : St n} (h : G1 r s) (v : Fin n) (hs : stepAckSelf s v = some s') : G1 r s' := by
  unfold stepAckSelf at hs
  split at hs
  · rename_i hg
    have hpur := h.purger1 v hg.1
    split at hs
    · rename_i hpc
      have hne : v ≠ r := h.worker_ne_root hg.1 (by rw [hpc]; rfl)
      split at hs
      · rename_i hsw; cases hs
        obtain ⟨p0, hp0, _⟩ := h.par v hg.1 hne
        have hps0 : ∀ c, pStop (if s.childWait v = 0 then toParent s v (.ack v) else []) c = 0 := by
          intro c; split
          · exact pStop_toParent s v _ (by simp) c
          · simp [pStop]
        have hir : inRound s v = true := by simp [inRound, hsw]
        refine h.local v .wait (s.q v) _ false (s.childWait v) hg.1 rfl rfl rfl (by simp) (fun _ hx => hx) hpur rfl rfl (by simp) rfl
          (by rw [hpc]; rfl) ?_ ?_ ?_ ?_ ?_ (fun e => absurd e hne) (fun e => absurd e hne)
        · refine Eq.trans (h.sum v hg.1) ?_
          exact sumCh_congr s s v _ _ (fun _ => rfl) (fun c _ => (debtDown_same hg.2 _ hps0 c).symm)
        · intro c hc; rw [debtDown_same hg.2 _ hps0 c]; exact h.le1 v c hc
        · intro p hc
          have hpp : p = p0 := by
            have := ((isChild_iff s p v).1 hc).2; rw [hp0] at this; cases this; rfl
          subst hpp
          unfold debtUp debt
          rw [hir, hg.2]
          by_cases hz : s.childWait v = 0
          · rw [if_pos hz]
            have : pAck (toParent s v (Cmd.ack v)) p v = 1 := by simp [toParent, hp0, pAck]
            rw [this]; simp [hz, pAck]; omega
          · rw [if_neg hz]
            have : (false || decide (0 < s.childWait v)) = true := by simp; omega
            rw [this]
        · intro o ho; split at ho
          · exact OutOk_toParent s v _ (by simp [mentions]) o ho
          · cases ho
        · intro _ hst
          exfalso
          rcases hst with h1 | h1
          · have := h.startRound v hg.1 hne (Or.inl h1)
            rw [hir] at this; cases this
          · split at h1
            · rw [hasPStart_toParent s v _ rfl] at h1; cases h1
            · simp [hasPStart] at h1
      · cases hs
        exact h.frame_pc v .wait rfl rfl rfl rfl rfl rfl rfl rfl hg.2 (by rw [hpc]; rfl) (fun e => absurd e hne)
    · rename_i hpc; cases hs
      have hvr : v = r := h.root_pc hg.1 (by rw [hpc]; rfl)
      subst hvr
      refine h.local v .ecollect (s.q v) [] false (s.childWait v) hg.1 rfl rfl rfl (by simp) (fun _ hx => hx) hpur
        (by rw [← hg.2, upd_self]) rfl (by simp) rfl (by rw [hpc]; rfl) ?_ ?_ ?_ (by intro o ho; cases ho)
        (fun hne => absurd rfl hne) (fun _ _ => rfl) (by intro _ hst; simp [hasPStart] at hst)
      · refine Eq.trans (h.sum v hg.1) ?_
        exact sumCh_congr s s v _ _ (fun _ => rfl) (fun c _ => (debtDown_same hg.2 _ (by intro c; simp [pStop]) c).symm)
      · intro c hc; rw [debtDown_same hg.2 _ (by intro c; simp [pStop]) c]; exact h.le1 v c hc
      · intro p hc; exact absurd rfl (h.child_ne_root hc)
    · cases hs
  · cases hs

theorem stepEStopSend_G1 {r : Fin n} {s s' : St n} (h : G1 r s) (hs : stepE r s .eStopSend = some s') : G1 r s' := by
  simp only [stepE] at hs
  split at hs
  · rename_i hg; cases hs
    have hnr : inRound s r = false := h.root_not_inRound (by rw [hg.2]; rfl)
    obtain ⟨hsum, hlev⟩ := h.stop_local (v := r) (s.q r) hnr (fun _ => Nat.le_refl _)
    refine h.local r .eack (s.q r) (Out.notify r :: bcast s r .stop) true (nChildren s r) h.rootAlive rfl rfl rfl (by simp [setPc]) (fun _ hx => hx)
      (h.purger1 r h.rootAlive) rfl rfl rfl rfl (by rw [hg.2]; rfl) hsum hlev ?_ ?_ (fun hne => absurd rfl hne) (fun _ _ => rfl) ?_
    · intro p hc; exact absurd rfl (h.child_ne_root hc)
    · intro o ho
      rcases List.mem_cons.1 ho with e | ho
      · subst e; simp [OutOk]
      · exact OutOk_bcast s r _ rfl o ho
    · intro _ hst; rw [hasPStart_stop_bcast] at hst; cases hst
  · cases hs

end Conc
