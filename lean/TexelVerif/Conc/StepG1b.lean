import TexelVerif.Conc.StepG1
/-! `G1` is preserved by the dequeue step (all command handlers), the self-ack and the root's stop broadcast. -/
namespace Conc

variable {n : Nat}

theorem filter_purger_tail {c : Cmd n} {rest : List (Cmd n)} (h : ((c :: rest).filter Cmd.isPurger).length ≤ 1) :
    (rest.filter Cmd.isPurger).length ≤ 1 := by
  rw [List.filter_cons] at h
  split at h
  · simp only [List.length_cons] at h; omega
  · exact h

theorem hasStart_false_of_purger {c : Cmd n} {rest : List (Cmd n)} (hc : c.isPurger = true)
    (h : ((c :: rest).filter Cmd.isPurger).length ≤ 1) : hasStart rest = false := by
  rw [List.filter_cons, hc] at h
  simp only [if_true, List.length_cons] at h
  have h0 : rest.filter Cmd.isPurger = [] := List.eq_nil_of_length_eq_zero (by omega)
  unfold hasStart
  rw [List.any_eq_false]
  intro x hx hs
  have : x ∈ rest.filter Cmd.isPurger := List.mem_filter.2 ⟨hx, by cases x <;> simp [Cmd.isStart] at hs <;> rfl⟩
  rw [h0] at this; cases this

theorem pStop_notify_cons (t : Fin n) (l : List (Out n)) (c : Fin n) : pStop (Out.notify t :: l) c = pStop l c := by
  simp [pStop]

theorem pAck_notify_cons (t : Fin n) (l : List (Out n)) (p c : Fin n) : pAck (Out.notify t :: l) p c = pAck l p c := by
  simp [pAck]

/-- the facts available when `v` is not in a round -/
theorem G1.idle_children {r : Fin n} {s : St n} (h : G1 r s) {v c : Fin n} (hr : inRound s v = false)
    (hc : isChild s v c = true) :
    cStop (s.q c) = 0 ∧ pStop (s.out v) c = 0 ∧ inRound s c = false ∧ cAck (s.q v) c = 0 ∧ pAck (s.out c) v c = 0 :=
  debt_zero_parts (h.debt_zero hc hr)

/-- STOP handler at a helper, and `sendStopSearch` at the root: `v` is outside a round, all children's
    debts become one pending STOP each -/
theorem G1.stop_local {r : Fin n} {s : St n} (h : G1 r s) {v : Fin n} (ql : List (Cmd n)) (hr : inRound s v = false)
    (hca : ∀ c, cAck ql c ≤ cAck (s.q v) c) :
    nChildren s v = sumCh s v (debtDown s v ql (Out.notify v :: bcast s v .stop)) ∧
    ∀ c, isChild s v c = true → debtDown s v ql (Out.notify v :: bcast s v .stop) c ≤ 1 := by
  have key : ∀ c, isChild s v c = true → debtDown s v ql (Out.notify v :: bcast s v .stop) c = 1 := by
    intro c hc
    obtain ⟨h1, _, h3, h4, h5⟩ := h.idle_children hr hc
    unfold debtDown
    rw [pStop_notify_cons, pStop_bcast, h1, h3, h5]
    have := hca c
    simp [hc]; omega
  constructor
  · rw [← sumCh_one]
    exact sumCh_congr s s v _ _ (fun _ => rfl) (fun c hc => (key c hc).symm)
  · intro c hc; rw [key c hc]; exact Nat.le_refl 1

/-- popping a STOP_ACK from child `src`: that child's debt goes from 1 to 0 -/
theorem G1.ack_local {r : Fin n} {s : St n} (h : G1 r s) {v src : Fin n} (rest : List (Cmd n)) (ol : List (Out n))
    (va : s.alive v = true) (hq : s.q v = Cmd.ack src :: rest) (hout : s.out v = []) (hol0 : ∀ c, pStop ol c = 0) :
    1 ≤ s.childWait v ∧ s.childWait v - 1 = sumCh s v (debtDown s v rest ol) ∧
    ∀ c, isChild s v c = true → debtDown s v rest ol c ≤ 1 := by
  have hcs : isChild s v src = true := h.qOk v (Cmd.ack src) va (by rw [hq]; exact List.mem_cons_self)
  have hle := h.le1 v src hcs
  have hca : cAck (s.q v) src = cAck rest src + 1 := by rw [hq, cAck_cons]; simp
  have hps : ∀ c, pStop (s.out v) c = 0 := by intro c; rw [hout]; simp [pStop]
  have hdsrc : debt s v src = 1 ∧ debtDown s v rest ol src = 0 := by
    unfold debt at hle ⊢
    unfold debtDown
    rw [hca] at hle ⊢
    rw [hps, hol0]
    rw [hps] at hle
    constructor <;> omega
  have hother : ∀ c, c ≠ src → debtDown s v rest ol c = debt s v c := by
    intro c hc
    unfold debt debtDown
    rw [hps, hol0, hq, cAck_cons]
    have : Cmd.ack src ≠ Cmd.ack c := by intro e; cases e; exact hc rfl
    simp [this]
  have hsum := h.sum v va
  have hge : debt s v src ≤ sumCh s v (debt s v) := sumCh_ge s v _ src hcs
  have hupd := sumCh_upd1 s s v src (debt s v) (debtDown s v rest ol) (fun _ => rfl) hcs (fun c hc _ => (hother c hc).symm)
  refine ⟨by omega, by omega, ?_⟩
  intro c hc
  by_cases hcs' : c = src
  · subst hcs'; omega
  · rw [hother c hcs']; exact h.le1 v c hc

theorem cAck_tail_le (c : Cmd n) (rest : List (Cmd n)) (d : Fin n) : cAck rest d ≤ cAck (c :: rest) d := by
  rw [cAck_cons]; omega

theorem handleW_G1 {r : Fin n} {s : St n} (h : G1 r s) (v : Fin n) (c : Cmd n) (rest : List (Cmd n))
    (va : s.alive v = true) (hne : v ≠ r) (hq : s.q v = c :: rest) (hout : s.out v = []) :
    G1 r (handleW { s with q := upd s.q v rest } v c) := by
  have hmem : ∀ x, x ∈ rest → x ∈ s.q v := by intro x hx; rw [hq]; exact List.mem_cons_of_mem _ hx
  have hpur : (rest.filter Cmd.isPurger).length ≤ 1 := filter_purger_tail (by rw [← hq]; exact h.purger1 v va)
  have hk : isEnginePc (s.pc v) = isEnginePc (s.pc v) := rfl
  have hrr : v = r → inRound s r = true → roundPc (s.pc v) = true := fun e => absurd e hne
  obtain ⟨p0, hp0, hp0a⟩ := h.par v va hne
  have hcp : isChild s p0 v = true := (isChild_iff s p0 v).2 ⟨va, hp0⟩
  cases c with
  | init =>
    refine h.neutral v (s.pc v) rest (bcast s v .init) va rfl rfl rfl rfl rfl rfl
      (Or.inr ⟨_, hq, by simp, by simp⟩) rfl hout
      (pStop_bcast_ne s v _ (by simp)) (fun p d => pAck_bcast s v _ p d (by simp)) (OutOk_bcast s v _ rfl)
      (by intro hst; rw [hasPStart_bcast s v _ rfl] at hst; cases hst) (by simp [handleW]) hk hrr
  | start e j =>
    refine h.neutral v (s.pc v) rest (bcast s v (.start e j)) va rfl rfl rfl rfl rfl rfl
      (Or.inr ⟨_, hq, by simp, by simp⟩) rfl hout
      (pStop_bcast_ne s v _ (by simp)) (fun p d => pAck_bcast s v _ p d (by simp)) (OutOk_bcast s v _ rfl)
      ?_ (by simp [handleW]) hk hrr
    intro _
    refine ⟨fun _ => ?_, fun e => absurd e hne⟩
    exact h.startRound v va hne (Or.inl (by rw [hq, hasStart_cons]; simp [Cmd.isStart]))
  | stop =>
    -- v is not in a round: its debt towards p0 is already 1 through the queued STOP
    have hle := h.le1 p0 v hcp
    have hcs : cStop (s.q v) = cStop rest + 1 := by rw [hq, cStop_cons]; simp
    have hparts : cStop rest = 0 ∧ pStop (s.out p0) v = 0 ∧ inRound s v = false ∧ cAck (s.q p0) v = 0 ∧ pAck (s.out v) p0 v = 0 := by
      unfold debt at hle
      rw [hcs] at hle
      cases hir : inRound s v
      · rw [hir] at hle; simp only [Bool.false_eq_true, ↓reduceIte] at hle
        exact ⟨by omega, by omega, rfl, by omega, by omega⟩
      · rw [hir] at hle; simp only [↓reduceIte] at hle; exfalso; omega
    obtain ⟨hsum, hlev⟩ := h.stop_local (v := v) rest hparts.2.2.1 (fun d => by rw [hq]; exact cAck_tail_le _ _ d)
    refine h.local v (s.pc v) rest (Out.notify v :: bcast s v .stop) true (nChildren s v) va rfl rfl rfl rfl hmem hpur rfl rfl rfl
      (by simp [handleW]) hk hsum hlev ?_ ?_ ?_ (fun e => absurd e hne) (fun e => absurd e hne)
    · intro p hc
      have hpp : p = p0 := by
        have := ((isChild_iff s p v).1 hc).2; rw [hp0] at this; cases this; rfl
      subst hpp
      unfold debtUp debt
      rw [pAck_notify_cons, pAck_bcast s v _ p v (by simp), hcs, hparts.1, hparts.2.1, hparts.2.2.1, hparts.2.2.2.1, hparts.2.2.2.2]
      simp
    · intro o ho
      rcases List.mem_cons.1 ho with e | ho
      · subst e; simp [OutOk]
      · exact OutOk_bcast s v _ rfl o ho
    · intro _ hst
      exfalso
      rcases hst with h1 | h1
      · rw [hasStart_false_of_purger (c := Cmd.stop) rfl (by rw [← hq]; exact h.purger1 v va)] at h1; cases h1
      · have : hasPStart (Out.notify v :: bcast s v Cmd.stop) = false := by
          have hb := hasPStart_bcast s v Cmd.stop rfl
          unfold hasPStart at hb ⊢
          rw [List.any_cons, hb]; rfl
        rw [this] at h1; cases h1
  | quit =>
    simp only [handleW]
    split
    · refine h.neutral v (s.pc v) rest (toParent s v (.quitAck v)) va rfl rfl rfl rfl rfl rfl
        (Or.inr ⟨_, hq, by simp, by simp⟩) rfl hout
        (pStop_toParent s v _ (by simp)) (pAck_toParent_ne s v _ (by simp)) (OutOk_toParent s v _ (by simp [mentions]))
        (by intro hst; rw [hasPStart_toParent s v _ rfl] at hst; cases hst) (by simp) hk hrr
    · refine h.neutral v (s.pc v) rest (bcast s v .quit) va rfl rfl rfl rfl rfl rfl
        (Or.inr ⟨_, hq, by simp, by simp⟩) rfl hout
        (pStop_bcast_ne s v _ (by simp)) (fun p d => pAck_bcast s v _ p d (by simp)) (OutOk_bcast s v _ rfl)
        (by intro hst; rw [hasPStart_bcast s v _ rfl] at hst; cases hst) (by simp) hk hrr
  | report src e j =>
    simp only [handleW]
    split
    · refine h.neutral v (s.pc v) rest (toParent s v (.report v e j)) va rfl rfl rfl rfl rfl rfl
        (Or.inr ⟨_, hq, by simp, by simp⟩) rfl hout
        (pStop_toParent s v _ (by simp)) (pAck_toParent_ne s v _ (by simp)) (OutOk_toParent s v _ (by simp [mentions]))
        (by intro hst; rw [hasPStart_toParent s v _ rfl] at hst; cases hst) (by simp) hk hrr
    · refine h.neutral v (s.pc v) rest [] va rfl rfl rfl rfl rfl rfl
        (Or.inr ⟨_, hq, by simp, by simp⟩) (by rw [← hout, upd_self]) hout
        (by intro d; simp [pStop]) (by intro p d; simp [pAck]) (by intro o ho; cases ho)
        (by intro hst; simp [hasPStart] at hst) (by simp) hk hrr
  | quitAck src =>
    simp only [handleW]
    refine h.neutral v (s.pc v) rest (if s.quitWait v - 1 = 0 then toParent s v (.quitAck v) else []) va rfl rfl rfl rfl rfl rfl
      (Or.inr ⟨_, hq, by simp, by simp⟩) rfl hout ?_ ?_ ?_ ?_ (by simp) hk hrr
    · intro d; split
      · exact pStop_toParent s v _ (by simp) d
      · simp [pStop]
    · intro p d; split
      · exact pAck_toParent_ne s v _ (by simp) p d
      · simp [pAck]
    · intro o ho; split at ho
      · exact OutOk_toParent s v _ (by simp [mentions]) o ho
      · cases ho
    · intro hst; split at hst
      · rw [hasPStart_toParent s v _ rfl] at hst; cases hst
      · simp [hasPStart] at hst
  | ack src =>
    simp only [handleW]
    rw [show toParent { s with q := upd s.q v rest } v (Cmd.ack v) = toParent s v (Cmd.ack v) from rfl]
    have hps0 : ∀ c, pStop (if s.selfWait v = false ∧ s.childWait v - 1 = 0 then toParent s v (.ack v) else []) c = 0 := by
      intro c; split
      · exact pStop_toParent s v _ (by simp) c
      · simp [pStop]
    obtain ⟨hge, hsum, hlev⟩ := h.ack_local rest _ va hq hout hps0
    have hcs : cStop (s.q v) = cStop rest := by rw [hq, cStop_cons]; simp
    have hir : inRound s v = true := by simp [inRound]; right; omega
    refine h.local v (s.pc v) rest _ (s.selfWait v) (s.childWait v - 1) va rfl rfl rfl rfl hmem hpur rfl (by simp) rfl
      (by simp) hk hsum hlev ?_ ?_ ?_ (fun e => absurd e hne) (fun e => absurd e hne)
    · intro p hc
      have hpp : p = p0 := by
        have := ((isChild_iff s p v).1 hc).2; rw [hp0] at this; cases this; rfl
      subst hpp
      unfold debtUp debt
      rw [hcs, hir, hout]
      by_cases hfw : s.selfWait v = false ∧ s.childWait v - 1 = 0
      · rw [if_pos hfw]
        have : pAck (toParent s v (Cmd.ack v)) p v = 1 := by simp [toParent, hp0, pAck]
        rw [this]; simp [hfw.1, hfw.2, pAck]; omega
      · rw [if_neg hfw]
        have : (s.selfWait v || decide (0 < s.childWait v - 1)) = true := by
          cases hsw : s.selfWait v
          · simp [hsw] at hfw; simp <;> omega
          · rfl
        rw [this]
    · intro o ho; split at ho
      · exact OutOk_toParent s v _ (by simp [mentions]) o ho
      · cases ho
    · intro _ hst
      exfalso
      rcases hst with h1 | h1
      · have := h.startRound v va hne (Or.inl (by rw [hq, hasStart_cons, h1]; simp))
        rw [hir] at this; cases this
      · split at h1
        · rw [hasPStart_toParent s v _ rfl] at h1; cases h1
        · simp [hasPStart] at h1

end Conc
