import TexelVerif.Conc.StepG4
/-! `G4` is preserved by the steps that leave the stop / ack traffic alone. -/
namespace Conc

variable {n : Nat}

/-- nothing `G4` reads changes -/
theorem G4.same {r : Fin n} {s s' : St n} (h : G4 r s)
    (ha : s'.alive = s.alive) (hp : s'.parent = s.parent) (hg : s'.gen = s.gen)
    (h3 : s'.selfWait = s.selfWait) (h4 : s'.childWait = s.childWait)
    (hq : s'.q = s.q) (ho : s'.out = s.out) (hj : s'.jobId = s.jobId) (hpc : s'.pc = s.pc) : G4 r s' := by
  refine h.neutral r (s.pc r) (s.q r) (s.out r) (s.jobId r) ha hp hg h3 h4 (by rw [hq]; simp) (by rw [ho]; simp) (by rw [hj]; simp)
    (by rw [hpc]; simp) rfl (fun _ => rfl) (fun _ => rfl) (fun _ _ => rfl) (fun hne => absurd rfl hne) (fun hne => absurd rfl hne)
    (fun hne => absurd rfl hne) ?_
  intro hh; unfold actR at hh ⊢; rw [hpc]; exact hh

/-- a helper `v ≠ r` moves its program counter and / or job without becoming more active -/
theorem G4.helper_move {r : Fin n} {s s' : St n} (h : G4 r s) (v : Fin n) (va : s.alive v = true) (hvr : v ≠ r) (x : Pc) (jb : Option Nat)
    (ha : s'.alive = s.alive) (hp : s'.parent = s.parent) (hg : s'.gen = s.gen)
    (h3 : s'.selfWait = s.selfWait) (h4 : s'.childWait = s.childWait)
    (hq : s'.q = s.q) (ho : s'.out = s.out) (hj : s'.jobId = upd s.jobId v jb) (hpc : s'.pc = upd s.pc v x)
    (ojob : jb = none ∨ jb = s.jobId v)
    (osearch : isSearch x = true → isSearch (s.pc v) = true ∨ (s.jobId v).isSome = true) : G4 r s' := by
  have hrv : r ≠ v := fun e => hvr e.symm
  refine h.neutral v x (s.q v) (s.out v) jb ha hp hg h3 h4 (by rw [hq]; simp) (by rw [ho]; simp) hj hpc
    rfl (fun _ => rfl) (fun _ => rfl) (fun _ _ => rfl) (fun _ _ => ojob) ?_ ?_ ?_
  · intro _ hx
    rcases osearch hx with e | e
    · exact Or.inl e
    · right
      cases hr : inRound s v
      · rfl
      · have := h.j1 v va hvr hr
        rw [this] at e; cases e
  · intro _ hh
    left
    apply act_of_parts hh
    · intro hjb
      rcases ojob with e | e
      · rw [e] at hjb; cases hjb
      · rw [e] at hjb; exact Or.inl hjb
    · intro hx
      rcases osearch hx with e | e
      · exact Or.inr (Or.inl e)
      · exact Or.inl e
    · intro hst; exact Or.inr (Or.inr (Or.inl hst))
    · intro hst; exact Or.inr (Or.inr (Or.inr hst))
  · intro hh
    unfold actR at hh ⊢
    rw [hpc, upd_other _ _ _ _ hrv]; exact hh

/-- an engine-thread step that moves its program counter and / or sets pending actions without STOP / ack,
    and does not leave the searching phase -/
theorem G4.root_move {r : Fin n} {s s' : St n} (h : G4 r s) (x : Pc) (ol : List (Out n))
    (ha : s'.alive = s.alive) (hp : s'.parent = s.parent) (hg : s'.gen = s.gen)
    (h3 : s'.selfWait = s.selfWait) (h4 : s'.childWait = s.childWait)
    (hq : s'.q = s.q) (ho : s'.out = upd s.out r ol) (hj : s'.jobId = s.jobId) (hpc : s'.pc = upd s.pc r x)
    (c3 : ∀ d, pStop ol d = pStop (s.out r) d) (c4 : ∀ p d, pAck ol p d = pAck (s.out r) p d)
    (oR : actR s r = true → actPc x = true) :
    G4 r s' := by
  refine h.neutral r x (s.q r) ol (s.jobId r) ha hp hg h3 h4 (by rw [hq]; simp) ho (by rw [hj]; simp) hpc
    rfl (fun _ => rfl) c3 c4 (fun hne => absurd rfl hne) (fun hne => absurd rfl hne) (fun hne => absurd rfl hne) ?_
  intro hh
  have := oR hh
  unfold actR; rw [hpc, upd_same]; exact this

theorem stepWaitRet_G4 {r : Fin n} {s s' : St n} (h1 : G1 r s) (h : G4 r s) (v : Fin n) (hs : stepWaitRet s v = some s') : G4 r s' := by
  unfold stepWaitRet at hs
  split at hs
  · rename_i hg
    obtain ⟨va, hout, hwp, hfl⟩ := hg
    cases hs
    by_cases hvr : v = r
    · subst hvr
      refine h.root_move (afterWait (s.pc v)) (s.out v) rfl rfl rfl rfl rfl rfl (by simp) rfl rfl (fun _ => rfl) (fun _ _ => rfl) ?_
      intro hh
      unfold actR at hh
      cases hp : s.pc v <;> simp [hp, isWaitPc] at hwp <;> simp [hp, actPc] at hh
    · refine h.helper_move v va hvr (afterWait (s.pc v)) (s.jobId v) rfl rfl rfl rfl rfl rfl rfl (by simp) rfl (Or.inr rfl) ?_
      intro hx
      cases hp : s.pc v <;> simp [hp, isWaitPc] at hwp <;> simp [hp, afterWait, isSearch] at hx
  · cases hs

theorem stepSearchLeave_G4 {r : Fin n} {s s' : St n} (h1 : G1 r s) (h : G4 r s) (v : Fin n) (m : Bool)
    (hs : stepSearchLeave s v m = some s') : G4 r s' := by
  unfold stepSearchLeave at hs
  split at hs
  · rename_i hg
    split at hs
    · rename_i j hpc
      have hne : v ≠ r := h1.worker_ne_root hg.1 (by rw [hpc]; rfl)
      split at hs
      · cases hs
        exact h.helper_move v hg.1 hne .ackSelf none rfl rfl rfl rfl rfl rfl rfl rfl rfl (Or.inl rfl) (by intro hx; cases hx)
      · split at hs
        · cases hs
          exact h.helper_move v hg.1 hne .ackSelf (s.jobId v) rfl rfl rfl rfl rfl rfl rfl (by simp) rfl (Or.inr rfl) (by intro hx; cases hx)
        · cases hs
    · cases hs
  · cases hs

theorem stepSearchResult_G4 {r : Fin n} {s s' : St n} (h1 : G1 r s) (h : G4 r s) (v : Fin n) (hs : stepSearchResult s v = some s') : G4 r s' := by
  unfold stepSearchResult at hs
  split at hs
  · rename_i hg
    split at hs
    · rename_i j hpc
      have hne : v ≠ r := h1.worker_ne_root hg.1 (by rw [hpc]; rfl)
      have hrv : r ≠ v := fun e => hne e.symm
      split at hs
      · cases hs
        refine h.neutral v (s.pc v) (s.q v) (toParent s v (.report v (s.jobEp v) j)) (s.jobId v) rfl rfl rfl rfl rfl (by simp) rfl (by simp) (by simp)
          rfl (fun _ => rfl) ?_ ?_ (fun _ _ => Or.inr rfl) (fun _ hx => Or.inl hx) ?_ ?_
        · intro d; rw [hg.2, pStop_toParent s v _ (by simp)]; simp [pStop]
        · intro p d; rw [hg.2, pAck_toParent_ne s v _ (by simp)]; simp [pAck]
        · intro _ hh
          left
          apply act_of_parts hh
          · intro e; exact Or.inl e
          · intro e; exact Or.inr (Or.inl e)
          · intro e; exact Or.inr (Or.inr (Or.inl e))
          · intro e; rw [hasPStart_toParent s v _ rfl] at e; cases e
        · intro hh; exact hh
      · cases hs; exact h
    · cases hs
  · cases hs

theorem stepPollEmpty_G4 {r : Fin n} {s s' : St n} (h1 : G1 r s) (h : G4 r s) (v : Fin n) (hs : stepPollEmpty s v = some s') : G4 r s' := by
  unfold stepPollEmpty at hs
  split at hs
  · rename_i hg
    obtain ⟨va, hout, hqe⟩ := hg
    split at hs
    · rename_i hpc; cases hs
      have hne : v ≠ r := h1.worker_ne_root va (by rw [hpc]; rfl)
      refine h.helper_move v va hne _ (s.jobId v) rfl rfl rfl rfl rfl rfl rfl (by simp) rfl (Or.inr rfl) ?_
      intro hx
      right
      split at hx
      · cases hx
      · split at hx
        · rename_i j hj; rw [hj]; rfl
        · cases hx
    · cases hs; exact h
    · cases hs; exact h
    · rename_i hpc
      have hvr : v = r := h1.root_pc va (by rw [hpc]; rfl)
      subst hvr
      split at hs
      · cases hs
        refine h.root_move .epost [Out.notify v] rfl rfl rfl rfl rfl rfl rfl rfl rfl ?_ ?_ ?_
        · intro d; rw [hout]; simp [pStop]
        · intro p d; rw [hout]; simp [pAck]
        · intro hh; unfold actR at hh; rw [hpc] at hh; cases hh
      · cases hs
        refine h.root_move .ecwait (s.out v) rfl rfl rfl rfl rfl rfl (by simp) rfl rfl (fun _ => rfl) (fun _ _ => rfl) ?_
        intro hh; unfold actR at hh; rw [hpc] at hh; cases hh
    · rename_i hpc; cases hs
      have hvr : v = r := h1.root_pc va (by rw [hpc]; rfl)
      subst hvr
      refine h.root_move _ (s.out v) rfl rfl rfl rfl rfl rfl (by simp) rfl rfl (fun _ => rfl) (fun _ _ => rfl) ?_
      intro hh; unfold actR at hh; rw [hpc] at hh; cases hh
    · cases hs
  · cases hs

theorem stepERdPre_G4 {r : Fin n} {s s' : St n} (h : G4 r s) (x : Var) (hs : stepERdPre r s x = some s') : G4 r s' := by
  unfold stepERdPre at hs
  split at hs
  · split at hs
    · rename_i hpc; cases hs
      refine h.root_move .eQ1 (s.out r) rfl rfl rfl rfl rfl rfl (by simp [setPc]) rfl rfl (fun _ => rfl) (fun _ _ => rfl) ?_
      intro hh; unfold actR at hh; rw [hpc] at hh; cases hh
    · rename_i hpc; cases hs
      refine h.root_move .eS1 (s.out r) rfl rfl rfl rfl rfl rfl (by simp [setPc]) rfl rfl (fun _ => rfl) (fun _ _ => rfl) ?_
      intro hh; unfold actR at hh; rw [hpc] at hh; cases hh
    · cases hs; exact h.same rfl rfl rfl rfl rfl rfl rfl rfl rfl
    · cases hs; exact h.same rfl rfl rfl rfl rfl rfl rfl rfl rfl
    · cases hs
  · cases hs

theorem stepERd_G4 {r : Fin n} {s s' : St n} (h : G4 r s) (x : Var) (b : Bool) (hs : stepERd r s x b = some s') : G4 r s' := by
  unfold stepERd at hs
  split at hs
  · split at hs
    · rename_i hpc
      split at hs
      · cases hs
        refine h.root_move _ (s.out r) rfl rfl rfl rfl rfl rfl (by simp [setPc]) rfl rfl (fun _ => rfl) (fun _ _ => rfl) ?_
        intro hh; unfold actR at hh; rw [hpc] at hh; cases hh
      · cases hs
    · rename_i hpc
      split at hs
      · cases hs
        refine h.root_move _ (s.out r) rfl rfl rfl rfl rfl rfl (by simp [setPc]) rfl rfl (fun _ => rfl) (fun _ _ => rfl) ?_
        intro hh; unfold actR at hh; rw [hpc] at hh; cases hh
      · cases hs
    · cases hs
  · cases hs

theorem stepEOpts_G4 {r : Fin n} {s s' : St n} (h : G4 r s) (k : Bool) (hs : stepEOpts r s k = some s') : G4 r s' := by
  unfold stepEOpts at hs
  split at hs
  · split at hs
    · rename_i hpc; cases hs
      cases k
      · refine h.root_move .eS0 (s.out r) rfl rfl rfl rfl rfl rfl (by simp [setPc]) rfl rfl (fun _ => rfl) (fun _ _ => rfl) ?_
        intro hh; unfold actR at hh; rw [hpc] at hh; cases hh
      · exact h.same rfl rfl rfl rfl rfl rfl rfl rfl rfl
    · rename_i hpc; cases hs
      cases k
      · refine h.root_move .eend (s.out r) rfl rfl rfl rfl rfl rfl (by simp [setPc]) rfl rfl (fun _ => rfl) (fun _ _ => rfl) ?_
        intro hh; unfold actR at hh; rw [hpc] at hh; cases hh
      · exact h.same rfl rfl rfl rfl rfl rfl rfl rfl rfl
    · cases hs
  · cases hs

theorem stepP_G4 {r : Fin n} {s s' : St n} (h : G4 r s) (e : Ev n) (hs : stepP r s e = some s') : G4 r s' := by
  cases e <;> simp only [stepP] at hs <;> try (cases hs)
  case pWr x b =>
    cases x <;> simp only [stepPWr] at hs <;> try (cases hs)
    all_goals (split at hs <;> first | (cases hs; exact h.same rfl rfl rfl rfl rfl rfl rfl rfl rfl) | cases hs)
  case pWd x =>
    cases x <;> simp only [stepPWd] at hs <;> try (cases hs)
    all_goals (split at hs <;> first | (cases hs; exact h.same rfl rfl rfl rfl rfl rfl rfl rfl rfl) | cases hs)
  case pWaitStop =>
    split at hs
    · cases hs; exact h
    · cases hs
  case pWaitOpts =>
    split at hs
    · cases hs; exact h
    · cases hs
  case pSetOpt =>
    split at hs
    · cases hs; exact h.same rfl rfl rfl rfl rfl rfl rfl rfl rfl
    · cases hs
  case pNotify t =>
    exact h.same rfl rfl rfl rfl rfl rfl rfl rfl rfl

/-- engine-thread steps other than `eStopSend` -/
theorem stepE_G4_easy {r : Fin n} {s s' : St n} (h : G4 r s) (e : Ev n) (hne : e ≠ .eStopSend)
    (hs : stepE r s e = some s') : G4 r s' := by
  cases e <;> simp only [stepE] at hs <;> try (cases hs)
  case eBegin =>
    split at hs
    · rename_i hg; cases hs
      refine h.root_move .eGo (s.out r) rfl rfl rfl rfl rfl rfl (by simp [setPc]) rfl rfl (fun _ => rfl) (fun _ _ => rfl) ?_
      intro hh; unfold actR at hh; rw [hg.2] at hh; cases hh
    · cases hs
  case eInit =>
    split at hs
    · rename_i hg; cases hs
      refine h.root_move .esearch (bcast s r .init) rfl rfl rfl rfl rfl rfl rfl rfl rfl ?_ ?_ (fun _ => rfl)
      · intro d; rw [hg.1, pStop_bcast_ne s r _ (by simp)]; simp [pStop]
      · intro p d; rw [hg.1, pAck_bcast s r _ p d (by simp)]; simp [pAck]
    · cases hs
  case eJobNext =>
    split at hs
    · rename_i hg; cases hs
      refine h.root_move .esearch (bcast s r (.start s.epoch (s.ejob + 1))) rfl rfl rfl rfl rfl rfl rfl rfl (by rw [← hg.2]; simp) ?_ ?_ (fun _ => rfl)
      · intro d; rw [hg.1, pStop_bcast_ne s r _ (by simp)]; simp [pStop]
      · intro p d; rw [hg.1, pAck_bcast s r _ p d (by simp)]; simp [pAck]
    · cases hs
  case eSearchDone =>
    split at hs
    · cases hs
      exact h.root_move (.ehold true) (s.out r) rfl rfl rfl rfl rfl rfl (by simp [setPc]) rfl rfl (fun _ => rfl) (fun _ _ => rfl) (fun _ => rfl)
    · cases hs
  case eHoldDone =>
    split at hs
    · split at hs
      · rename_i hpc; cases hs
        refine h.root_move (.ebest false) (s.out r) rfl rfl rfl rfl rfl rfl (by simp [setPc]) rfl rfl (fun _ => rfl) (fun _ _ => rfl) ?_
        intro hh; unfold actR at hh; rw [hpc] at hh; cases hh
      · rename_i ws hpc; cases hs
        refine h.root_move (.ebest ws) (s.out r) rfl rfl rfl rfl rfl rfl (by simp [setPc]) rfl rfl (fun _ => rfl) (fun _ _ => rfl) ?_
        intro hh; unfold actR at hh; rw [hpc] at hh
        cases ws
        · cases hh
        · rfl
      · cases hs
    · cases hs
  case eBest =>
    split at hs
    · split at hs
      · rename_i ws hpc; cases hs
        refine h.root_move (if ws then .estop else .epost) (s.out r) rfl rfl rfl rfl rfl rfl (by simp [setPc]) rfl rfl (fun _ => rfl) (fun _ _ => rfl) ?_
        intro hh; unfold actR at hh; rw [hpc] at hh
        cases ws
        · cases hh
        · rfl
      · cases hs
    · cases hs
  case eStopSend => exact absurd rfl hne
  case eSearchEnd =>
    split at hs
    · rename_i hg; cases hs
      refine h.root_move .ewait (s.out r) rfl rfl rfl rfl rfl rfl (by simp [setPc]) rfl rfl (fun _ => rfl) (fun _ _ => rfl) ?_
      intro hh; unfold actR at hh; rw [hg.2.1] at hh; cases hh
    · cases hs
  case eQuitSend =>
    split at hs
    · rename_i hg; cases hs
      have hnr : actR s r = true → False := by intro hh; unfold actR at hh; rw [hg.2] at hh; cases hh
      split
      · exact h.root_move .equit (s.out r) rfl rfl rfl rfl rfl rfl (by simp [setPc]) rfl rfl (fun _ => rfl) (fun _ _ => rfl) (fun hh => absurd hh hnr)
      · refine h.root_move .equit (bcast s r .quit) rfl rfl rfl rfl rfl rfl rfl rfl rfl ?_ ?_ (fun hh => absurd hh hnr)
        · intro d; rw [hg.1, pStop_bcast_ne s r _ (by simp)]; simp [pStop]
        · intro p d; rw [hg.1, pAck_bcast s r _ p d (by simp)]; simp [pAck]
    · cases hs

end Conc
