import TexelVerif.Conc.StepG6
/-! QUIT / QUIT_ACK accounting (the analogue of the stop/ack debts for the shutdown handshake). -/
namespace Conc

variable {n : Nat}

def cQuit (l : List (Cmd n)) : Nat := l.count Cmd.quit
def cQAck (l : List (Cmd n)) (c : Fin n) : Nat := l.count (Cmd.quitAck c)
def pQuit (l : List (Out n)) (c : Fin n) : Nat := l.count (Out.enq c Cmd.quit)
def pQAck (l : List (Out n)) (p c : Fin n) : Nat := l.count (Out.enq p (Cmd.quitAck c))

/-- QUIT on its way from `p` to `c` -/
def quitIn (s : St n) (p c : Fin n) : Nat := cQuit (s.q c) + pQuit (s.out p) c
/-- QUIT_ACK on its way from `c` to `p` -/
def qackIn (s : St n) (p c : Fin n) : Nat := cQAck (s.q p) c + pQAck (s.out c) p c
/-- number of QUIT_ACKs `c` still owes `p` -/
def qdebt (s : St n) (p c : Fin n) : Nat :=
  quitIn s p c + (if 0 < s.quitWait c then 1 else 0) + qackIn s p c

structure G8 (r : Fin n) (s : St n) : Prop where
  qrange : ∀ v, s.alive v = true → -1 ≤ s.quitWait v
  qsum : ∀ p, s.alive p = true → 0 ≤ s.quitWait p → s.quitWait p = (sumCh s p (qdebt s p) : Nat)
  qzero : ∀ p c, isChild s p c = true → s.quitWait p = -1 → s.quitWait c = -1 ∧ qdebt s p c = 0
  qle1 : ∀ p c, isChild s p c = true → qdebt s p c ≤ 1
  qpre : ∀ p c, isChild s p c = true → 0 < quitIn s p c → s.quitWait c = -1

/-! ### list lemmas -/

theorem cQuit_cons (x : Cmd n) (l : List (Cmd n)) : cQuit (x :: l) = cQuit l + (if x = Cmd.quit then 1 else 0) := by
  unfold cQuit; rw [List.count_cons]
  by_cases hx : x = Cmd.quit
  · subst hx; simp
  · simp [hx]

theorem cQAck_cons (x : Cmd n) (l : List (Cmd n)) (c : Fin n) :
    cQAck (x :: l) c = cQAck l c + (if x = Cmd.quitAck c then 1 else 0) := by
  unfold cQAck; rw [List.count_cons]
  by_cases hx : x = Cmd.quitAck c
  · subst hx; simp
  · simp [hx]

theorem cQuit_purge (l : List (Cmd n)) : cQuit (purge l) = cQuit l := by
  unfold cQuit purge; exact List.count_filter (by simp [Cmd.purgeable])

theorem cQAck_purge (l : List (Cmd n)) (c : Fin n) : cQAck (purge l) c = cQAck l c := by
  unfold cQAck purge; exact List.count_filter (by simp [Cmd.purgeable])

theorem cQuit_push (l : List (Cmd n)) (x : Cmd n) : cQuit (pushCmd l x) = cQuit l + (if x = Cmd.quit then 1 else 0) := by
  unfold pushCmd
  split
  · have := cQuit_purge l
    unfold cQuit at this ⊢
    rw [List.count_append, this]
    by_cases hx : x = Cmd.quit
    · subst hx; simp
    · simp [hx]
  · unfold cQuit
    rw [List.count_append]
    by_cases hx : x = Cmd.quit
    · subst hx; simp
    · simp [hx]

theorem cQAck_push (l : List (Cmd n)) (x : Cmd n) (c : Fin n) :
    cQAck (pushCmd l x) c = cQAck l c + (if x = Cmd.quitAck c then 1 else 0) := by
  unfold pushCmd
  split
  · have := cQAck_purge l c
    unfold cQAck at this ⊢
    rw [List.count_append, this]
    by_cases hx : x = Cmd.quitAck c
    · subst hx; simp
    · simp [hx]
  · unfold cQAck
    rw [List.count_append]
    by_cases hx : x = Cmd.quitAck c
    · subst hx; simp
    · simp [hx]

theorem pQuit_erase (l : List (Out n)) (o : Out n) (c : Fin n) :
    pQuit (l.erase o) c = pQuit l c - (if o = Out.enq c Cmd.quit then 1 else 0) := by
  unfold pQuit
  by_cases h : o = Out.enq c Cmd.quit
  · subst h; simp [List.count_erase_self]
  · rw [List.count_erase_of_ne (Ne.symm h)]; simp [h]

theorem pQAck_erase (l : List (Out n)) (o : Out n) (p c : Fin n) :
    pQAck (l.erase o) p c = pQAck l p c - (if o = Out.enq p (Cmd.quitAck c) then 1 else 0) := by
  unfold pQAck
  by_cases h : o = Out.enq p (Cmd.quitAck c)
  · subst h; simp [List.count_erase_self]
  · rw [List.count_erase_of_ne (Ne.symm h)]; simp [h]

theorem pQuit_bcast (s : St n) (p : Fin n) (x : Cmd n) (c : Fin n) :
    pQuit (bcast s p x) c = if x = Cmd.quit ∧ isChild s p c = true then 1 else 0 := by
  unfold pQuit bcast
  rw [count_map_enq _ (children_nodup s p)]
  simp only [mem_children]

theorem pQAck_bcast (s : St n) (p : Fin n) (x : Cmd n) (q c : Fin n) (hx : ∀ d, x ≠ Cmd.quitAck d) :
    pQAck (bcast s p x) q c = 0 := by
  unfold pQAck bcast
  rw [count_map_enq _ (children_nodup s p)]
  simp [hx c]

theorem pQuit_nil (c : Fin n) : pQuit ([] : List (Out n)) c = 0 := by simp [pQuit]
theorem pQAck_nil (p c : Fin n) : pQAck ([] : List (Out n)) p c = 0 := by simp [pQAck]

theorem pQuit_toParent (s : St n) (v : Fin n) (x : Cmd n) (hx : x ≠ Cmd.quit) (d : Fin n) : pQuit (toParent s v x) d = 0 := by
  unfold toParent pQuit
  split
  · rw [List.count_eq_zero]; intro hm; simp at hm; exact hx hm.2.symm
  · simp

theorem pQAck_toParent_ne (s : St n) (v : Fin n) (x : Cmd n) (hx : ∀ d, x ≠ Cmd.quitAck d) (p d : Fin n) :
    pQAck (toParent s v x) p d = 0 := by
  unfold toParent pQAck
  split
  · rw [List.count_eq_zero]; intro hm; simp at hm; exact hx d hm.2.symm
  · simp

/-- a step that leaves the tree, the QUIT traffic and `quitAckWaitChildren` alone -/
theorem G8.frame {r : Fin n} {s s' : St n} (h : G8 r s)
    (ha : s'.alive = s.alive) (hp : s'.parent = s.parent) (hw : s'.quitWait = s.quitWait)
    (hqi : ∀ p c, isChild s p c = true → quitIn s' p c = quitIn s p c) (hai : ∀ p c, isChild s p c = true → qackIn s' p c = qackIn s p c) : G8 r s' := by
  have hic := isChild_congr ha hp
  have hd : ∀ p c, isChild s p c = true → qdebt s' p c = qdebt s p c := by intro p c hc; unfold qdebt; rw [hqi p c hc, hai p c hc, hw]
  refine ⟨?_, ?_, ?_, ?_, ?_⟩
  · intro v hv; rw [ha] at hv; rw [hw]; exact h.qrange v hv
  · intro p hpa h0; rw [ha] at hpa; rw [hw] at h0 ⊢
    rw [h.qsum p hpa h0]
    congr 1
    exact sumCh_congr s s' p _ _ (hic p) (fun c hc => (hd p c hc).symm)
  · intro p c hc hm; rw [hic] at hc; rw [hw] at hm ⊢; rw [hd p c hc]; exact h.qzero p c hc hm
  · intro p c hc; rw [hic] at hc; rw [hd p c hc]; exact h.qle1 p c hc
  · intro p c hc hq; rw [hic] at hc; rw [hqi p c hc] at hq; rw [hw]; exact h.qpre p c hc hq

/-- thread `v` pops a non-QUIT command and / or sets pending actions without QUIT traffic -/
theorem qparts_local {s s' : St n} (v : Fin n) (ql : List (Cmd n)) (ol : List (Out n))
    (hq : s'.q = upd s.q v ql) (ho : s'.out = upd s.out v ol)
    (h1 : cQuit ql = cQuit (s.q v)) (h2 : ∀ d, cQAck ql d = cQAck (s.q v) d)
    (h3 : ∀ d, pQuit ol d = pQuit (s.out v) d) (h4 : ∀ p d, pQAck ol p d = pQAck (s.out v) p d) (p c : Fin n) :
    quitIn s' p c = quitIn s p c ∧ qackIn s' p c = qackIn s p c := by
  unfold quitIn qackIn
  rw [hq, ho]
  have e1 : cQuit (upd s.q v ql c) = cQuit (s.q c) := by
    by_cases hc : c = v
    · subst hc; rw [upd_same, h1]
    · rw [upd_other _ _ _ _ hc]
  have e2 : pQuit (upd s.out v ol p) c = pQuit (s.out p) c := by
    by_cases hc : p = v
    · subst hc; rw [upd_same, h3]
    · rw [upd_other _ _ _ _ hc]
  have e3 : cQAck (upd s.q v ql p) c = cQAck (s.q p) c := by
    by_cases hc : p = v
    · subst hc; rw [upd_same, h2]
    · rw [upd_other _ _ _ _ hc]
  have e4 : pQAck (upd s.out v ol c) p c = pQAck (s.out c) p c := by
    by_cases hc : c = v
    · subst hc; rw [upd_same, h4]
    · rw [upd_other _ _ _ _ hc]
  rw [e1, e2, e3, e4]; exact ⟨rfl, rfl⟩

theorem G8.neutral {r : Fin n} {s s' : St n} (h : G8 r s) (v : Fin n) (ql : List (Cmd n)) (ol : List (Out n))
    (ha : s'.alive = s.alive) (hp : s'.parent = s.parent) (hw : s'.quitWait = s.quitWait)
    (hq : s'.q = upd s.q v ql) (ho : s'.out = upd s.out v ol)
    (h1 : cQuit ql = cQuit (s.q v)) (h2 : ∀ d, cQAck ql d = cQAck (s.q v) d)
    (h3 : ∀ d, pQuit ol d = pQuit (s.out v) d) (h4 : ∀ p d, pQAck ol p d = pQAck (s.out v) p d) : G8 r s' :=
  h.frame ha hp hw (fun p c _ => (qparts_local v ql ol hq ho h1 h2 h3 h4 p c).1) (fun p c _ => (qparts_local v ql ol hq ho h1 h2 h3 h4 p c).2)

/-- QUIT handler of a helper / `sendQuit` at the root: `v` had not seen a QUIT yet (`quitWait v = -1`);
    all children get a pending QUIT, or (no children) `v` acknowledges at once -/
theorem G8.quit_step {r : Fin n} {s s' : St n} (h1 : G1 r s) (h : G8 r s) (v : Fin n) (ql : List (Cmd n)) (ol : List (Out n)) (qw : Int)
    (va : s.alive v = true) (hout : s.out v = []) (hm1 : s.quitWait v = -1)
    (ha : s'.alive = s.alive) (hp : s'.parent = s.parent)
    (hw : s'.quitWait = upd s.quitWait v qw) (hq : s'.q = upd s.q v ql) (ho : s'.out = upd s.out v ol)
    (c2 : ∀ d, cQAck ql d ≤ cQAck (s.q v) d)
    (hqw : qw = (nChildren s v : Nat))
    (hol : (0 < nChildren s v ∧ ol = bcast s v .quit) ∨ (nChildren s v = 0 ∧ ol = toParent s v (.quitAck v)))
    (hup : ∀ p, isChild s p v = true → cQuit ql + 1 = cQuit (s.q v)) : G8 r s' := by
  have hic := isChild_congr ha hp
  have hwv : s'.quitWait v = qw := by rw [hw, upd_same]
  have hwo : ∀ w, w ≠ v → s'.quitWait w = s.quitWait w := by intro w hw'; rw [hw, upd_other _ _ _ _ hw']
  -- children of v: everything was zero, now exactly the pending QUIT
  have hch : ∀ c, isChild s v c = true → qdebt s' v c = 1 ∧ s.quitWait c = -1 := by
    intro c hc
    obtain ⟨hcq, hz⟩ := h.qzero v c hc hm1
    have hcv : c ≠ v := h1.child_ne hc
    have h0 : 0 < nChildren s v := by
      have := (mem_children s v c).2 hc
      unfold nChildren
      exact List.length_pos_of_mem this
    rcases hol with ⟨_, e⟩ | ⟨e, _⟩
    · refine ⟨?_, hcq⟩
      unfold qdebt quitIn qackIn at hz ⊢
      rw [hq, ho, hwo c hcv, upd_other _ _ _ _ hcv, upd_same, upd_same, upd_other _ _ _ _ hcv, e, pQuit_bcast, hcq]
      have := c2 c
      rw [hout] at hz
      simp [hc]
      simp [pQuit_nil] at hz
      omega
    · omega
  have hup' : ∀ p, isChild s p v = true → qdebt s' p v = qdebt s p v := by
    intro p hc
    have hvp : v ≠ p := h1.child_ne hc
    have hpv : p ≠ v := fun e => hvp e.symm
    have hcq := hup p hc
    unfold qdebt quitIn qackIn
    rw [hq, ho, hwv, upd_same, upd_other _ _ _ _ hpv, upd_other _ _ _ _ hpv, upd_same, hm1, hout]
    have hneg : ¬ ((0 : Int) < -1) := by decide
    rw [if_neg hneg, pQAck_nil]
    rcases hol with ⟨h0, e⟩ | ⟨h0, e⟩
    · rw [e, pQAck_bcast s v _ p v (by simp), hqw]
      have : (0 : Int) < ((nChildren s v : Nat) : Int) := by exact_mod_cast h0
      rw [if_pos this]; omega
    · rw [e, hqw, h0]
      have hpar := ((isChild_iff s p v).1 hc).2
      have : pQAck (toParent s v (Cmd.quitAck v)) p v = 1 := by simp [toParent, hpar, pQAck]
      rw [this]
      have hz : ¬ ((0 : Int) < ((0 : Nat) : Int)) := by decide
      rw [if_neg hz]; omega
  have hother : ∀ p c, p ≠ v → c ≠ v → qdebt s' p c = qdebt s p c := by
    intro p c hpv hcv
    unfold qdebt quitIn qackIn
    rw [hq, ho, hwo c hcv, upd_other _ _ _ _ hcv, upd_other _ _ _ _ hpv, upd_other _ _ _ _ hpv, upd_other _ _ _ _ hcv]
  have hdo : ∀ p c, p ≠ v → isChild s p c = true → qdebt s' p c = qdebt s p c := by
    intro p c hpv hc
    by_cases hcv : c = v
    · subst hcv; exact hup' p hc
    · exact hother p c hpv hcv
  refine ⟨?_, ?_, ?_, ?_, ?_⟩
  · intro w hw'; rw [ha] at hw'
    by_cases hwv' : w = v
    · subst hwv'; rw [hwv, hqw]; omega
    · rw [hwo w hwv']; exact h.qrange w hw'
  · intro p hpa h0; rw [ha] at hpa
    by_cases hpv : p = v
    · subst hpv
      rw [hwv, hqw]
      congr 1
      rw [← sumCh_one]
      exact sumCh_congr s s' p _ _ (hic p) (fun c hc => ((hch c hc).1).symm)
    · rw [hwo p hpv] at h0 ⊢
      rw [h.qsum p hpa h0]
      congr 1
      exact sumCh_congr s s' p _ _ (hic p) (fun c hc => (hdo p c hpv hc).symm)
  · intro p c hc hm; rw [hic] at hc
    by_cases hpv : p = v
    · subst hpv; rw [hwv, hqw] at hm; omega
    · rw [hwo p hpv] at hm
      obtain ⟨a1, a2⟩ := h.qzero p c hc hm
      by_cases hcv : c = v
      · subst hcv
        -- v's parent has not seen QUIT, but a QUIT for v was queued or v is the root: impossible / vacuous
        exfalso
        have := hup p hc
        unfold qdebt quitIn at a2
        unfold cQuit at this a2
        omega
      · rw [hwo c hcv, hother p c hpv hcv]; exact ⟨a1, a2⟩
  · intro p c hc; rw [hic] at hc
    by_cases hpv : p = v
    · subst hpv; rw [(hch c hc).1]; exact Nat.le_refl 1
    · rw [hdo p c hpv hc]; exact h.qle1 p c hc
  · intro p c hc hqi; rw [hic] at hc
    by_cases hpv : p = v
    · subst hpv
      have hcv : c ≠ p := h1.child_ne hc
      rw [hwo c hcv]; exact (hch c hc).2
    · by_cases hcv : c = v
      · subst hcv
        exfalso
        have hcq := hup p hc
        have hle := h.qle1 p c hc
        unfold quitIn at hqi
        rw [hq, ho, upd_same, upd_other _ _ _ _ hpv] at hqi
        unfold qdebt quitIn at hle
        unfold cQuit at hcq hqi hle
        omega
      · have : quitIn s' p c = quitIn s p c := by
          unfold quitIn; rw [hq, ho, upd_other _ _ _ _ hcv, upd_other _ _ _ _ hpv]
        rw [this] at hqi
        rw [hwo c hcv]; exact h.qpre p c hc hqi

/-- QUIT_ACK handler: the acknowledging child's debt goes from 1 to 0; when the last one arrives the ack is passed up -/
theorem G8.qack_step {r : Fin n} {s s' : St n} (h1 : G1 r s) (h : G8 r s) (v src : Fin n) (rest : List (Cmd n)) (ol : List (Out n))
    (va : s.alive v = true) (hq0 : s.q v = Cmd.quitAck src :: rest) (hout : s.out v = [])
    (ha : s'.alive = s.alive) (hp : s'.parent = s.parent)
    (hw : s'.quitWait = upd s.quitWait v (s.quitWait v - 1)) (hq : s'.q = upd s.q v rest) (ho : s'.out = upd s.out v ol)
    (hol : ol = (if s.quitWait v - 1 = 0 then toParent s v (.quitAck v) else []) ∨ (ol = [] ∧ v = r)) : G8 r s' := by
  have hic := isChild_congr ha hp
  have hcs : isChild s v src = true := h1.qOk v (Cmd.quitAck src) va (by rw [hq0]; exact List.mem_cons_self)
  have hca : cQAck (s.q v) src = cQAck rest src + 1 := by rw [hq0, cQAck_cons]; simp
  have hle := h.qle1 v src hcs
  have hdsrc : qdebt s v src = 1 := by
    unfold qdebt qackIn at hle ⊢; rw [hca] at hle ⊢; omega
  have hnm1 : s.quitWait v ≠ -1 := by
    intro e; have := (h.qzero v src hcs e).2; omega
  have hge0 : 0 ≤ s.quitWait v := by have := h.qrange v va; omega
  have hsum := h.qsum v va hge0
  have hge : qdebt s v src ≤ sumCh s v (qdebt s v) := sumCh_ge s v _ src hcs
  have hwv : s'.quitWait v = s.quitWait v - 1 := by rw [hw, upd_same]
  have hwo : ∀ w, w ≠ v → s'.quitWait w = s.quitWait w := by intro w hw'; rw [hw, upd_other _ _ _ _ hw']
  have hpq : ∀ d, pQuit ol d = 0 := by
    intro d
    rcases hol with e | ⟨e, _⟩
    · rw [e]; split
      · exact pQuit_toParent s v _ (by simp) d
      · exact pQuit_nil d
    · rw [e]; exact pQuit_nil d
  -- debts of the children of v
  have hd_src : qdebt s' v src = 0 := by
    have hsv : src ≠ v := h1.child_ne hcs
    unfold qdebt quitIn qackIn at hle ⊢
    rw [hq, ho, hwo src hsv, upd_other _ _ _ _ hsv, upd_same, upd_same, upd_other _ _ _ _ hsv, hpq]
    rw [hca, hout] at hle
    simp [pQuit_nil] at hle
    omega
  have hd_other : ∀ c, c ≠ src → isChild s v c = true → qdebt s' v c = qdebt s v c := by
    intro c hc hcc
    have hcv : c ≠ v := h1.child_ne hcc
    unfold qdebt quitIn qackIn
    rw [hq, ho, hwo c hcv, upd_other _ _ _ _ hcv, upd_same, upd_same, upd_other _ _ _ _ hcv, hpq, hout, pQuit_nil, hq0, cQAck_cons]
    have : Cmd.quitAck src ≠ Cmd.quitAck c := by intro e; cases e; exact hc rfl
    simp [this]
  have hup : ∀ p, isChild s p v = true → qdebt s' p v = qdebt s p v := by
    intro p hc
    have hvp : v ≠ p := h1.child_ne hc
    have hpv : p ≠ v := fun e => hvp e.symm
    have hvr : v ≠ r := h1.child_ne_root hc
    have hpar := ((isChild_iff s p v).1 hc).2
    have hcq : cQuit rest = cQuit (s.q v) := by rw [hq0, cQuit_cons]; simp
    unfold qdebt quitIn qackIn
    rw [hq, ho, hwv, upd_same, upd_other _ _ _ _ hpv, upd_other _ _ _ _ hpv, upd_same, hcq, hout, pQAck_nil]
    have hsumpos : (1 : Int) ≤ s.quitWait v := by rw [hsum]; exact_mod_cast (by omega : 1 ≤ sumCh s v (qdebt s v))
    have hpos : (0 : Int) < s.quitWait v := by omega
    rw [if_pos hpos]
    rcases hol with e | ⟨_, e⟩
    · by_cases hz : s.quitWait v - 1 = 0
      · rw [e, if_pos hz]
        have : pQAck (toParent s v (Cmd.quitAck v)) p v = 1 := by simp [toParent, hpar, pQAck]
        rw [this]
        have : ¬ ((0 : Int) < s.quitWait v - 1) := by omega
        rw [if_neg this]; omega
      · rw [e, if_neg hz, pQAck_nil]
        have : (0 : Int) < s.quitWait v - 1 := by omega
        rw [if_pos this]
    · exact absurd e hvr
  have hother : ∀ p c, p ≠ v → c ≠ v → qdebt s' p c = qdebt s p c := by
    intro p c hpv hcv
    unfold qdebt quitIn qackIn
    rw [hq, ho, hwo c hcv, upd_other _ _ _ _ hcv, upd_other _ _ _ _ hpv, upd_other _ _ _ _ hpv, upd_other _ _ _ _ hcv]
  have hdo : ∀ p c, p ≠ v → isChild s p c = true → qdebt s' p c = qdebt s p c := by
    intro p c hpv hc
    by_cases hcv : c = v
    · subst hcv; exact hup p hc
    · exact hother p c hpv hcv
  have hupd := sumCh_upd1 s s' v src (qdebt s v) (qdebt s' v) (hic v) hcs (fun c hc hcc => (hd_other c hc hcc).symm)
  refine ⟨?_, ?_, ?_, ?_, ?_⟩
  · intro w hw'; rw [ha] at hw'
    by_cases hwv' : w = v
    · subst hwv'; rw [hwv]
      have : (1 : Int) ≤ s.quitWait w := by rw [hsum]; exact_mod_cast (by omega : 1 ≤ sumCh s w (qdebt s w))
      omega
    · rw [hwo w hwv']; exact h.qrange w hw'
  · intro p hpa h0; rw [ha] at hpa
    by_cases hpv : p = v
    · subst hpv
      rw [hwv, hsum]
      have : sumCh s p (qdebt s p) = sumCh s' p (qdebt s' p) + 1 := by omega
      rw [this]; push_cast; omega
    · rw [hwo p hpv] at h0 ⊢
      rw [h.qsum p hpa h0]
      congr 1
      exact sumCh_congr s s' p _ _ (hic p) (fun c hc => (hdo p c hpv hc).symm)
  · intro p c hc hm; rw [hic] at hc
    by_cases hpv : p = v
    · subst hpv; rw [hwv] at hm
      have : (1 : Int) ≤ s.quitWait p := by rw [hsum]; exact_mod_cast (by omega : 1 ≤ sumCh s p (qdebt s p))
      omega
    · rw [hwo p hpv] at hm
      obtain ⟨a1, a2⟩ := h.qzero p c hc hm
      by_cases hcv : c = v
      · subst hcv; exact absurd a1 hnm1
      · rw [hwo c hcv, hother p c hpv hcv]; exact ⟨a1, a2⟩
  · intro p c hc; rw [hic] at hc
    by_cases hpv : p = v
    · subst hpv
      by_cases hcs' : c = src
      · subst hcs'; rw [hd_src]; omega
      · rw [hd_other c hcs' hc]; exact h.qle1 p c hc
    · rw [hdo p c hpv hc]; exact h.qle1 p c hc
  · intro p c hc hqi; rw [hic] at hc
    have hcq : cQuit rest = cQuit (s.q v) := by rw [hq0, cQuit_cons]; simp
    have hqi' : quitIn s' p c = quitIn s p c := by
      unfold quitIn; rw [hq, ho]
      have e1 : cQuit (upd s.q v rest c) = cQuit (s.q c) := by
        by_cases hcv : c = v
        · subst hcv; rw [upd_same, hcq]
        · rw [upd_other _ _ _ _ hcv]
      have e2 : pQuit (upd s.out v ol p) c = pQuit (s.out p) c := by
        by_cases hpv : p = v
        · subst hpv; rw [upd_same, hpq, hout, pQuit_nil]
        · rw [upd_other _ _ _ _ hpv]
      rw [e1, e2]
    rw [hqi'] at hqi
    have old := h.qpre p c hc hqi
    by_cases hcv : c = v
    · subst hcv; exact absurd old hnm1
    · rw [hwo c hcv]; exact old

end Conc
