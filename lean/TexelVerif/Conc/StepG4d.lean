import TexelVerif.Conc.StepG4c
/-! `G4` is preserved by the root's stop broadcast, the ack handlers and the self-ack. -/
namespace Conc

variable {n : Nat}

/-- `sendStopSearch` at the root: a new stop wave starts; every helper becomes old -/
theorem G4.root_stop {r : Fin n} {s s' : St n} (h1 : G1 r s) (h : G4 r s) (hnr : inRound s r = false) (hout : s.out r = [])
    (ha : s'.alive = s.alive) (hp : s'.parent = s.parent)
    (hg : s'.gen = upd s.gen r (s.gen r + 1)) (hq' : s'.q = s.q)
    (ho' : s'.out = upd s.out r (Out.notify r :: bcast s r .stop))
    (h3 : s'.selfWait = upd s.selfWait r true) (h4 : s'.childWait = upd s.childWait r (nChildren s r))
    (hj : s'.jobId = s.jobId) (hpc : s'.pc = upd s.pc r .eack) : G4 r s' := by
  have hic := isChild_congr ha hp
  have hnew := h.all_new h1 hnr
  have hgr : s'.gen r = s.gen r + 1 := by rw [hg, upd_same]
  have hgo : ∀ w, w ≠ r → s'.gen w = s.gen w := by intro w hw; rw [hg, upd_other _ _ _ _ hw]
  have hqu := h1.quiescent hnr
  have hiro : ∀ w, w ≠ r → inRound s' w = inRound s w := by
    intro w hw; simp [inRound, h3, h4, hw]
  have hsi_root : ∀ c, isChild s r c = true → stopIn s' r c = 1 := by
    intro c hc
    have := h1.quiescent_edge hnr hc
    unfold stopIn; rw [hq', ho', upd_same, pStop_stop_bcast, this.1]; simp [hc]
  have hsi_other : ∀ p w, p ≠ r → isChild s p w = true → stopIn s' p w = 0 := by
    intro p w hpr hc
    have := h1.quiescent_edge hnr hc
    unfold stopIn; rw [hq', ho', upd_other _ _ _ _ hpr, this.1, this.2.1]
  have hai : ∀ p w, isChild s p w = true → ackIn s' p w = 0 := by
    intro p w hc
    have hq := h1.quiescent_edge hnr hc
    have hwr : w ≠ r := h1.child_ne_root hc
    unfold ackIn; rw [hq', ho', upd_other _ _ _ _ hwr, hq.2.2.2.1, hq.2.2.2.2]
  refine ⟨?_, ?_, ?_, ?_, ?_, ?_, ?_, ?_, ?_, ?_⟩
  · intro w hw; rw [ha] at hw; rw [hgr]
    by_cases hwr : w = r
    · subst hwr; rw [hgr]; exact Nat.le_refl _
    · rw [hgo w hwr, hnew w hw]; omega
  · intro w hw; rw [ha] at hw; rw [hgr]
    by_cases hwr : w = r
    · subst hwr; rw [hgr]; omega
    · rw [hgo w hwr, hnew w hw]; omega
  · intro p w hc; rw [hic] at hc
    have hwr : w ≠ r := h1.child_ne_root hc
    have hwa : s.alive w = true := ((isChild_iff s p w).1 hc).1
    rw [hgo w hwr, hnew w hwa]
    by_cases hpr : p = r
    · subst hpr; rw [hgr]; omega
    · rw [hgo p hpr, hnew p (h1.parent_alive hc)]; exact Nat.le_refl _
  · intro p w hc hst; rw [hic] at hc
    have hwr : w ≠ r := h1.child_ne_root hc
    have hwa : s.alive w = true := ((isChild_iff s p w).1 hc).1
    by_cases hpr : p = r
    · subst hpr; rw [hgo w hwr, hnew w hwa, hgr]; exact ⟨rfl, rfl⟩
    · rw [hsi_other p w hpr hc] at hst; omega
  · intro p w hc _; rw [hic] at hc
    by_cases hpr : p = r
    · subst hpr; left; rw [hsi_root w hc]; omega
    · right; rw [hgo p hpr, hnew p (h1.parent_alive hc), hgr]
  · intro w hw hwr hr; rw [ha] at hw; rw [hiro w hwr, hqu w hw] at hr; cases hr
  · intro p w hc hak; rw [hic] at hc; rw [hai p w hc] at hak; omega
  · intro w hw hwr hr; rw [ha] at hw; rw [hiro w hwr, hqu w hw] at hr; cases hr
  · intro w hw hwr hr; rw [ha] at hw; rw [hiro w hwr, hqu w hw] at hr; cases hr
  · intro w hw hwr _; rw [ha] at hw
    right; right; rw [hgo w hwr, hnew w hw, hgr]

/-- thread `v` leaves or stays in its round without touching STOP traffic: ack handler and self-ack.
    `ql` ⊆ the old queue, `ol` is empty or the single ack to the parent, `sw'`/`cw'` the new counters. -/
theorem G4.ack_step {r : Fin n} {s s' : St n} (h1 : G1 r s) (h : G4 r s) (v : Fin n) (x : Pc) (ql : List (Cmd n)) (ol : List (Out n))
    (sw : Bool) (cw : Nat) (va : s.alive v = true) (hout : s.out v = [])
    (hin : v ≠ r → inRound s v = true)
    (ha : s'.alive = s.alive) (hp : s'.parent = s.parent) (hg : s'.gen = s.gen)
    (hq' : s'.q = upd s.q v ql) (ho' : s'.out = upd s.out v ol)
    (h3 : s'.selfWait = upd s.selfWait v sw) (h4 : s'.childWait = upd s.childWait v cw)
    (hj : s'.jobId = s.jobId) (hpc : s'.pc = upd s.pc v x)
    (c1 : cStop ql = cStop (s.q v)) (c2 : ∀ d, cAck ql d ≤ cAck (s.q v) d) (cst : hasStart ql = true → hasStart (s.q v) = true)
    (c3 : ∀ d, pStop ol d = 0) (c5 : hasPStart ol = false)
    (hsw : sw = true → s.selfWait v = true)
    (hx : v ≠ r → sw = false → isSearch x = false ∨ (s.selfWait v = false ∧ x = s.pc v))
    (hx2 : v ≠ r → isSearch x = true → isSearch (s.pc v) = true)
    (hR : v = r → actR s r = true → actPc x = true) : G4 r s' := by
  have hic := isChild_congr ha hp
  have hiro : ∀ w, w ≠ v → inRound s' w = inRound s w := by
    intro w hw; simp [inRound, h3, h4, hw]
  have hsi : ∀ p w, stopIn s' p w = stopIn s p w := by
    intro p w
    unfold stopIn; rw [hq', ho']
    have e1 : cStop (upd s.q v ql w) = cStop (s.q w) := by
      by_cases hw : w = v
      · subst hw; rw [upd_same, c1]
      · rw [upd_other _ _ _ _ hw]
    have e2 : pStop (upd s.out v ol p) w = pStop (s.out p) w := by
      by_cases hpv : p = v
      · subst hpv; rw [upd_same, c3, hout, pStop_nil]
      · rw [upd_other _ _ _ _ hpv]
    rw [e1, e2]
  -- acks on edges below v can only decrease; the edge above v may gain the pending ack
  have hai_down : ∀ p w, w ≠ v → 0 < ackIn s' p w → 0 < ackIn s p w := by
    intro p w hw hh
    unfold ackIn at hh ⊢
    rw [hq', ho', upd_other _ _ _ _ hw] at hh
    by_cases hpv : p = v
    · subst hpv; rw [upd_same] at hh; have := c2 w; omega
    · rw [upd_other _ _ _ _ hpv] at hh; exact hh
  have hactR : actR s r = true → actR s' r = true := by
    intro hh; unfold actR; rw [hpc]
    by_cases hrv : r = v
    · subst hrv; rw [upd_same]; exact hR rfl hh
    · rw [upd_other _ _ _ _ hrv]; exact hh
  have hact_o : ∀ w, w ≠ v → act s' w = act s w := by
    intro w hw
    exact act_upd_other hw (by rw [hj]) (by rw [hpc, upd_other _ _ _ _ hw]) (by rw [hq', upd_other _ _ _ _ hw]) (by rw [ho', upd_other _ _ _ _ hw])
  refine ⟨?_, ?_, ?_, ?_, ?_, ?_, ?_, ?_, ?_, ?_⟩
  · intro w hw; rw [ha] at hw; rw [hg]; exact h.gN w hw
  · intro w hw; rw [ha] at hw; rw [hg]; exact h.gN2 w hw
  · intro p w hc; rw [hic] at hc; rw [hg]; exact h.gM p w hc
  · intro p w hc hst; rw [hic] at hc; rw [hsi] at hst; rw [hg]; exact h.gX p w hc hst
  · intro p w hc ho; rw [hic] at hc; rw [hg] at ho; rw [hsi, hg]; exact h.gW p w hc ho
  · intro w hw hwr hr; rw [ha] at hw; rw [hg]
    by_cases hwv : w = v
    · subst hwv; exact h.gZ w hw hwr (hin hwr)
    · rw [hiro w hwv] at hr; exact h.gZ w hw hwr hr
  · intro p w hc hak; rw [hic] at hc; rw [hg]
    by_cases hwv : w = v
    · subst hwv
      have hwr : w ≠ r := h1.child_ne_root hc
      exact h.gZ w va hwr (hin hwr)
    · exact h.gZ2 p w hc (hai_down p w hwv hak)
  · intro w hw hwr hr; rw [ha] at hw; rw [hj]
    by_cases hwv : w = v
    · subst hwv; exact h.j1 w hw hwr (hin hwr)
    · rw [hiro w hwv] at hr; exact h.j1 w hw hwr hr
  · intro w hw hwr hr hsw'; rw [ha] at hw; rw [hpc]
    by_cases hwv : w = v
    · subst hwv
      rw [h3, upd_same] at hsw'
      rw [upd_same]
      rcases hx hwr hsw' with e | ⟨e1, e2⟩
      · exact e
      · rw [e2]; exact h.j2 w hw hwr (hin hwr) e1
    · rw [hiro w hwv] at hr; rw [h3, upd_other _ _ _ _ hwv] at hsw'
      rw [upd_other _ _ _ _ hwv]; exact h.j2 w hw hwr hr hsw'
  · intro w hw hwr hact; rw [ha] at hw; rw [hg]
    by_cases hwv : w = v
    · subst hwv
      -- v was in its round: no job, no START queued; if it is still searching it is still in the round
      have hin' := hin hwr
      have hjn := h.j1 w hw hwr hin'
      have hns : hasStart (s.q w) = false := by
        cases hh : hasStart (s.q w)
        · rfl
        · have := h1.startRound w hw hwr (Or.inl hh); rw [hin'] at this; cases this
      unfold act at hact
      rw [hj, hpc, hq', ho', upd_same, upd_same, upd_same, hjn, c5] at hact
      simp only [Option.isSome_none, Bool.false_or, Bool.or_false, Bool.or_eq_true] at hact
      rcases hact with hs | hs
      · -- still inside doSearch: then the self-ack has not happened, the round is still open
        left
        have hs0 := hx2 hwr hs
        cases hsw0 : s.selfWait w
        · have := h.j2 w hw hwr hin' hsw0; rw [hs0] at this; cases this
        · -- selfWait was set; a step that keeps `search` keeps selfWait (sw = true) or leaves search
          cases hsw1 : sw
          · rcases hx hwr hsw1 with e | ⟨e1, _⟩
            · rw [hs] at e; cases e
            · rw [hsw0] at e1; cases e1
          · simp [inRound, h3, hsw1]
      · rw [cst hs] at hns; cases hns
    · rw [hact_o w hwv] at hact
      rw [hiro w hwv]
      rcases h.a w hw hwr hact with e | e | e
      · exact Or.inl e
      · exact Or.inr (Or.inl (hactR e))
      · exact Or.inr (Or.inr e)

end Conc
