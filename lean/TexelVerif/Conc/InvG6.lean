import TexelVerif.Conc.StepG4e
/-! Results and epochs: FIFO order of reports and acks, reports only from helpers the stop wave has not
    passed, and every START / REPORT / job tagged with the current search epoch. -/
namespace Conc

variable {n : Nat}

def Cmd.isReportFrom (src : Fin n) : Cmd n → Bool
  | .report s _ _ => s == src
  | _ => false

/-- in a queue, no REPORT_RESULT of a child follows a STOP_ACK of that child -/
def okOrder : List (Cmd n) → Bool
  | [] => true
  | c :: rest => (match c with
                  | .ack src => rest.all (fun d => !d.isReportFrom src)
                  | _ => true) && okOrder rest

def Out.isReport : Out n → Bool
  | .enq _ (.report _ _ _) => true
  | _ => false

def hasPReport (l : List (Out n)) : Bool := l.any Out.isReport
def hasReportFrom (l : List (Cmd n)) (src : Fin n) : Bool := l.any (Cmd.isReportFrom src)

theorem okOrder_tail {c : Cmd n} {l : List (Cmd n)} (h : okOrder (c :: l) = true) : okOrder l = true := by
  simp only [okOrder, Bool.and_eq_true] at h; exact h.2

theorem okOrder_head_ack {src : Fin n} {l : List (Cmd n)} (h : okOrder (Cmd.ack src :: l) = true) : hasReportFrom l src = false := by
  simp only [okOrder, Bool.and_eq_true] at h
  unfold hasReportFrom
  rw [List.any_eq_false]
  intro x hx
  have := List.all_eq_true.1 h.1 x hx
  simpa using this

theorem okOrder_filter (p : Cmd n → Bool) (l : List (Cmd n)) (h : okOrder l = true) : okOrder (l.filter p) = true := by
  induction l with
  | nil => rfl
  | cons c rest ih =>
    have ht := okOrder_tail h
    rw [List.filter_cons]
    split
    · simp only [okOrder, Bool.and_eq_true] at h ⊢
      refine ⟨?_, ih ht⟩
      cases c <;> simp only at h ⊢
      case ack src =>
        rw [List.all_eq_true] at h ⊢
        intro x hx
        exact h.1 x (List.mem_filter.1 hx).1
    · exact ih ht

theorem okOrder_append (l : List (Cmd n)) (c : Cmd n) (h : okOrder l = true)
    (hc : ∀ src, c.isReportFrom src = true → Cmd.ack src ∉ l) : okOrder (l ++ [c]) = true := by
  induction l with
  | nil => cases c <;> simp [okOrder]
  | cons d rest ih =>
    have ht := okOrder_tail h
    have ih' := ih ht (fun src hs hm => hc src hs (List.mem_cons_of_mem _ hm))
    simp only [List.cons_append, okOrder, Bool.and_eq_true] at h ⊢
    refine ⟨?_, ih'⟩
    cases d <;> simp only at h ⊢
    case ack src =>
      rw [List.all_eq_true] at h ⊢
      intro x hx
      rcases List.mem_append.1 hx with hx | hx
      · exact h.1 x hx
      · simp at hx; subst hx
        cases hr : x.isReportFrom src
        · rfl
        · exact absurd List.mem_cons_self (hc src hr)

theorem okOrder_pushCmd (l : List (Cmd n)) (c : Cmd n) (h : okOrder l = true)
    (hc : ∀ src, c.isReportFrom src = true → Cmd.ack src ∉ l) : okOrder (pushCmd l c) = true := by
  unfold pushCmd
  split
  · apply okOrder_append _ _ (okOrder_filter _ _ h)
    intro src hs hm; exact hc src hs (List.mem_filter.1 hm).1
  · exact okOrder_append _ _ h hc

structure G6 (r : Fin n) (s : St n) : Prop where
  ord : ∀ p, s.alive p = true → okOrder (s.q p) = true
  /-- a helper about to send a report has not been passed by the stop wave and has no ack on its way -/
  pr : ∀ v, s.alive v = true → v ≠ r → hasPReport (s.out v) = true →
        (actR s r = true ∨ s.gen v + 1 = s.gen r) ∧ ∀ p, isChild s p v = true → ackIn s p v = 0
  /-- a queued report comes from a child whose stop round (as seen by the parent) is not over -/
  rp : ∀ p src, isChild s p src = true → hasReportFrom (s.q p) src = true →
        actR s r = true ∨ s.gen src + 1 = s.gen r ∨ 0 < stopIn s p src ∨ inRound s src = true ∨ 0 < ackIn s p src
  e1 : ∀ v e j, s.alive v = true → Cmd.start e j ∈ s.q v → e = s.epoch
  e2 : ∀ v t e j, s.alive v = true → Out.enq t (Cmd.start e j) ∈ s.out v → e = s.epoch
  e3 : ∀ v src e j, s.alive v = true → Cmd.report src e j ∈ s.q v → e = s.epoch
  e4 : ∀ v t src e j, s.alive v = true → Out.enq t (Cmd.report src e j) ∈ s.out v → e = s.epoch
  e5 : ∀ v, s.alive v = true → v ≠ r → s.jobId v ≠ none → s.jobEp v = s.epoch

theorem hasReportFrom_tail {c : Cmd n} {l : List (Cmd n)} {src : Fin n} (h : hasReportFrom l src = true) :
    hasReportFrom (c :: l) src = true := by
  unfold hasReportFrom at h ⊢; rw [List.any_cons, h]; simp

theorem mem_of_hasReportFrom {l : List (Cmd n)} {src : Fin n} (h : hasReportFrom l src = true) : ∃ e j, Cmd.report src e j ∈ l := by
  unfold hasReportFrom at h
  rw [List.any_eq_true] at h
  obtain ⟨x, hx, hr⟩ := h
  cases x <;> simp [Cmd.isReportFrom] at hr
  case report s e j => subst hr; exact ⟨e, j, hx⟩

theorem hasReportFrom_of_mem {l : List (Cmd n)} {src : Fin n} {e j : Nat} (h : Cmd.report src e j ∈ l) : hasReportFrom l src = true := by
  unfold hasReportFrom; rw [List.any_eq_true]; exact ⟨_, h, by simp [Cmd.isReportFrom]⟩

/-- a step that changes nothing `G6` reads except (possibly) the root's phase, jobs that end, and the flags -/
theorem G6.frame {r : Fin n} {s s' : St n} (h : G6 r s)
    (ha : s'.alive = s.alive) (hp : s'.parent = s.parent) (hg : s'.gen = s.gen) (hep : s'.epoch = s.epoch)
    (hq : s'.q = s.q) (ho : s'.out = s.out) (h3 : s'.selfWait = s.selfWait) (h4 : s'.childWait = s.childWait)
    (hj : ∀ v, s'.jobId v ≠ none → s.jobId v ≠ none ∧ s'.jobEp v = s.jobEp v)
    (hR : actR s r = true → actR s' r = true) : G6 r s' := by
  have hic := isChild_congr ha hp
  have hsi : ∀ p v, stopIn s' p v = stopIn s p v := by intro p v; unfold stopIn; rw [hq, ho]
  have hai : ∀ p v, ackIn s' p v = ackIn s p v := by intro p v; unfold ackIn; rw [hq, ho]
  have hir := inRound_congr h3 h4
  refine ⟨?_, ?_, ?_, ?_, ?_, ?_, ?_, ?_⟩
  · intro p hpa; rw [ha] at hpa; rw [hq]; exact h.ord p hpa
  · intro v hv hne hpr; rw [ha] at hv; rw [ho] at hpr
    obtain ⟨h1, h2⟩ := h.pr v hv hne hpr
    refine ⟨?_, fun p hc => by rw [hic] at hc; rw [hai]; exact h2 p hc⟩
    rw [hg]; rcases h1 with e | e
    · exact Or.inl (hR e)
    · exact Or.inr e
  · intro p src hc hrf; rw [hic] at hc; rw [hq] at hrf
    rw [hg, hsi, hai, hir]
    rcases h.rp p src hc hrf with e | e
    · exact Or.inl (hR e)
    · exact Or.inr e
  · intro v e j hv hm; rw [ha] at hv; rw [hq] at hm; rw [hep]; exact h.e1 v e j hv hm
  · intro v t e j hv hm; rw [ha] at hv; rw [ho] at hm; rw [hep]; exact h.e2 v t e j hv hm
  · intro v src e j hv hm; rw [ha] at hv; rw [hq] at hm; rw [hep]; exact h.e3 v src e j hv hm
  · intro v t src e j hv hm; rw [ha] at hv; rw [ho] at hm; rw [hep]; exact h.e4 v t src e j hv hm
  · intro v hv hne hjn; rw [ha] at hv
    obtain ⟨a1, a2⟩ := hj v hjn
    rw [a2, hep]; exact h.e5 v hv hne a1

/-- thread `v` pops commands / sets pending actions / changes its job without changing the stop-ack traffic -/
theorem G6.neutral {r : Fin n} {s s' : St n} (h : G6 r s) (v : Fin n) (ql : List (Cmd n)) (ol : List (Out n))
    (jb : Option Nat) (je : Nat)
    (ha : s'.alive = s.alive) (hp : s'.parent = s.parent) (hg : s'.gen = s.gen) (hep : s'.epoch = s.epoch)
    (h3 : s'.selfWait = s.selfWait) (h4 : s'.childWait = s.childWait)
    (hq : s'.q = upd s.q v ql) (ho : s'.out = upd s.out v ol) (hj : s'.jobId = upd s.jobId v jb) (hje : s'.jobEp = upd s.jobEp v je)
    (c1 : cStop ql = cStop (s.q v)) (c2 : ∀ d, cAck ql d = cAck (s.q v) d)
    (c3 : ∀ d, pStop ol d = pStop (s.out v) d) (c4 : ∀ p d, pAck ol p d = pAck (s.out v) p d)
    (hord : okOrder ql = true) (hmem : ∀ c, c ∈ ql → c ∈ s.q v)
    (hpr : v ≠ r → hasPReport ol = true → (actR s' r = true ∨ s.gen v + 1 = s.gen r) ∧ ∀ p, isChild s p v = true → ackIn s p v = 0)
    (he2 : ∀ t e j, Out.enq t (Cmd.start e j) ∈ ol → e = s.epoch)
    (he4 : ∀ t src e j, Out.enq t (Cmd.report src e j) ∈ ol → e = s.epoch)
    (he5 : v ≠ r → jb ≠ none → je = s.epoch)
    (hR : actR s r = true → actR s' r = true) : G6 r s' := by
  have hic := isChild_congr ha hp
  have hir := inRound_congr h3 h4
  have hparts := fun p c => parts_local (s := s) (s' := s') v ql ol hq ho c1 c2 c3 c4 p c
  refine ⟨?_, ?_, ?_, ?_, ?_, ?_, ?_, ?_⟩
  · intro p hpa; rw [ha] at hpa; rw [hq]
    by_cases hpv : p = v
    · subst hpv; rw [upd_same]; exact hord
    · rw [upd_other _ _ _ _ hpv]; exact h.ord p hpa
  · intro w hw hne hprw; rw [ha] at hw; rw [ho] at hprw
    by_cases hwv : w = v
    · subst hwv; rw [upd_same] at hprw
      obtain ⟨a1, a2⟩ := hpr hne hprw
      refine ⟨by rw [hg]; exact a1, fun p hc => ?_⟩
      rw [hic] at hc; rw [(hparts p w).2]; exact a2 p hc
    · rw [upd_other _ _ _ _ hwv] at hprw
      obtain ⟨a1, a2⟩ := h.pr w hw hne hprw
      refine ⟨?_, fun p hc => by rw [hic] at hc; rw [(hparts p w).2]; exact a2 p hc⟩
      rw [hg]; rcases a1 with e | e
      · exact Or.inl (hR e)
      · exact Or.inr e
  · intro p src hc hrf; rw [hic] at hc; rw [hq] at hrf
    have hold : hasReportFrom (s.q p) src = true := by
      by_cases hpv : p = v
      · subst hpv; rw [upd_same] at hrf
        obtain ⟨e, j, hm⟩ := mem_of_hasReportFrom hrf
        exact hasReportFrom_of_mem (hmem _ hm)
      · rw [upd_other _ _ _ _ hpv] at hrf; exact hrf
    rw [hg, (hparts p src).1, (hparts p src).2, hir]
    rcases h.rp p src hc hold with e | e
    · exact Or.inl (hR e)
    · exact Or.inr e
  · intro w e j hw hm; rw [ha] at hw; rw [hq] at hm; rw [hep]
    by_cases hwv : w = v
    · subst hwv; rw [upd_same] at hm; exact h.e1 w e j hw (hmem _ hm)
    · rw [upd_other _ _ _ _ hwv] at hm; exact h.e1 w e j hw hm
  · intro w t e j hw hm; rw [ha] at hw; rw [ho] at hm; rw [hep]
    by_cases hwv : w = v
    · subst hwv; rw [upd_same] at hm; exact he2 t e j hm
    · rw [upd_other _ _ _ _ hwv] at hm; exact h.e2 w t e j hw hm
  · intro w src e j hw hm; rw [ha] at hw; rw [hq] at hm; rw [hep]
    by_cases hwv : w = v
    · subst hwv; rw [upd_same] at hm; exact h.e3 w src e j hw (hmem _ hm)
    · rw [upd_other _ _ _ _ hwv] at hm; exact h.e3 w src e j hw hm
  · intro w t src e j hw hm; rw [ha] at hw; rw [ho] at hm; rw [hep]
    by_cases hwv : w = v
    · subst hwv; rw [upd_same] at hm; exact he4 t src e j hm
    · rw [upd_other _ _ _ _ hwv] at hm; exact h.e4 w t src e j hw hm
  · intro w hw hne hjn; rw [ha] at hw; rw [hj] at hjn; rw [hje, hep]
    by_cases hwv : w = v
    · subst hwv; rw [upd_same] at hjn ⊢; exact he5 hne hjn
    · rw [upd_other _ _ _ _ hwv] at hjn ⊢; exact h.e5 w hw hne hjn

theorem actPc_not_round {p : Pc} (h : actPc p = true) : roundPc p = false := by
  cases p <;> simp [actPc] at h <;> rfl

/-- a helper with a job has not been passed by the stop wave and has no ack on its way -/
theorem job_not_passed {r : Fin n} {s : St n} (h1 : G1 r s) (h4 : G4 r s) {v : Fin n} (hv : s.alive v = true) (hvr : v ≠ r)
    (hjob : s.jobId v ≠ none) :
    (actR s r = true ∨ s.gen v + 1 = s.gen r) ∧ ∀ p, isChild s p v = true → ackIn s p v = 0 := by
  have hact : act s v = true := by
    unfold act
    cases hj : s.jobId v with
    | none => exact absurd hj hjob
    | some j => simp
  rcases h4.a v hv hvr hact with e | e | e
  · exact absurd (h4.j1 v hv hvr e) hjob
  · refine ⟨Or.inl e, fun p hc => ?_⟩
    have hnr : inRound s r = false := h1.root_not_inRound (actPc_not_round e)
    have := h1.quiescent_edge hnr hc
    unfold ackIn; omega
  · refine ⟨Or.inr e, fun p hc => ?_⟩
    cases hk : ackIn s p v with
    | zero => rfl
    | succ k => have := h4.gZ2 p v hc (by omega); omega

theorem hasPReport_bcast (s : St n) (p : Fin n) (x : Cmd n) (hx : ∀ a b c, x ≠ Cmd.report a b c) : hasPReport (bcast s p x) = false := by
  unfold hasPReport bcast
  rw [List.any_eq_false]
  intro o ho
  obtain ⟨c, _, e⟩ := List.mem_map.1 ho
  subst e
  cases x <;> simp [Out.isReport]
  case report a b c => exact absurd rfl (hx a b c)

theorem hasPReport_toParent (s : St n) (v : Fin n) (x : Cmd n) (hx : ∀ a b c, x ≠ Cmd.report a b c) : hasPReport (toParent s v x) = false := by
  unfold toParent hasPReport
  split
  · cases x <;> simp [Out.isReport]
    case report a b c => exact absurd rfl (hx a b c)
  · rfl

theorem mem_bcast_start {s : St n} {p : Fin n} {x : Cmd n} {t : Fin n} {e j : Nat} (h : Out.enq t (Cmd.start e j) ∈ bcast s p x) : x = Cmd.start e j := by
  obtain ⟨c, _, e'⟩ := (mem_bcast s p x _).1 h
  cases e'; rfl

theorem mem_bcast_report {s : St n} {p : Fin n} {x : Cmd n} {t src : Fin n} {e j : Nat} (h : Out.enq t (Cmd.report src e j) ∈ bcast s p x) : x = Cmd.report src e j := by
  obtain ⟨c, _, e'⟩ := (mem_bcast s p x _).1 h
  cases e'; rfl

theorem mem_toParent {s : St n} {v : Fin n} {x : Cmd n} {t : Fin n} {y : Cmd n} (h : Out.enq t y ∈ toParent s v x) : y = x := by
  unfold toParent at h
  split at h
  · simp at h; exact h.2
  · cases h

/-- handlers of a helper that do not touch stop / ack traffic -/
theorem handleW_neutral_G6 {r : Fin n} {s : St n} (h1 : G1 r s) (h4 : G4 r s) (h : G6 r s) (v : Fin n) (c : Cmd n) (rest : List (Cmd n))
    (va : s.alive v = true) (hne : v ≠ r) (hq : s.q v = c :: rest) (hout : s.out v = [])
    (hc1 : c ≠ Cmd.stop) (hc2 : ∀ d, c ≠ Cmd.ack d) :
    G6 r (handleW { s with q := upd s.q v rest } v c) := by
  have c1 : cStop rest = cStop (s.q v) := by rw [hq, cStop_cons]; simp [hc1]
  have c2 : ∀ d, cAck rest d = cAck (s.q v) d := by intro d; rw [hq, cAck_cons]; simp [hc2 d]
  have hord : okOrder rest = true := okOrder_tail (by rw [← hq]; exact h.ord v va)
  have hmem : ∀ x, x ∈ rest → x ∈ s.q v := by intro x hx; rw [hq]; exact List.mem_cons_of_mem _ hx
  have hhead : c ∈ s.q v := by rw [hq]; exact List.mem_cons_self
  have hR : ∀ s' : St n, s'.pc = s.pc → actR s r = true → actR s' r = true := by
    intro s' e hh; unfold actR at hh ⊢; rw [e]; exact hh
  have no2 : ∀ (ol : List (Out n)), (∀ t e j, Out.enq t (Cmd.start e j) ∉ ol) → ∀ t e j, Out.enq t (Cmd.start e j) ∈ ol → e = s.epoch :=
    fun ol hno t e j hm => absurd hm (hno t e j)
  cases c with
  | stop => exact absurd rfl hc1
  | ack d => exact absurd rfl (hc2 d)
  | init =>
    refine h.neutral v rest (bcast s v .init) none (s.jobEp v) rfl rfl rfl rfl rfl rfl rfl rfl (by simp [handleW]) (by simp [handleW])
      c1 c2 ?_ ?_ hord hmem ?_ ?_ ?_ (fun _ hh => absurd rfl hh) (hR _ rfl)
    · intro d; rw [hout, pStop_bcast_ne s v _ (by simp), pStop_nil]
    · intro p d; rw [hout, pAck_bcast s v _ p d (by simp), pAck_nil]
    · intro _ hh; rw [hasPReport_bcast s v _ (by simp)] at hh; cases hh
    · intro t e j hm; cases mem_bcast_start hm
    · intro t src e j hm; cases mem_bcast_report hm
  | start e j =>
    have hee : e = s.epoch := h.e1 v e j va hhead
    refine h.neutral v rest (bcast s v (.start e j)) (some j) e rfl rfl rfl rfl rfl rfl rfl rfl (by simp [handleW]) (by simp [handleW])
      c1 c2 ?_ ?_ hord hmem ?_ ?_ ?_ (fun _ _ => hee) (hR _ rfl)
    · intro d; rw [hout, pStop_bcast_ne s v _ (by simp), pStop_nil]
    · intro p d; rw [hout, pAck_bcast s v _ p d (by simp), pAck_nil]
    · intro _ hh; rw [hasPReport_bcast s v _ (by simp)] at hh; cases hh
    · intro t e' j' hm; have := mem_bcast_start hm; cases this; exact hee
    · intro t src e' j' hm; cases mem_bcast_report hm
  | quit =>
    simp only [handleW]
    split
    · refine h.neutral v rest (toParent s v (.quitAck v)) (s.jobId v) (s.jobEp v) rfl rfl rfl rfl rfl rfl rfl rfl (by simp) (by simp)
        c1 c2 ?_ ?_ hord hmem ?_ ?_ ?_ (fun hne' hj => h.e5 v va hne' hj) (hR _ rfl)
      · intro d; rw [hout, pStop_toParent s v _ (by simp), pStop_nil]
      · intro p d; rw [hout, pAck_toParent_ne s v _ (by simp), pAck_nil]
      · intro _ hh; rw [hasPReport_toParent s v _ (by simp)] at hh; cases hh
      · intro t e j hm; cases mem_toParent hm
      · intro t src e j hm; cases mem_toParent hm
    · refine h.neutral v rest (bcast s v .quit) (s.jobId v) (s.jobEp v) rfl rfl rfl rfl rfl rfl rfl rfl (by simp) (by simp)
        c1 c2 ?_ ?_ hord hmem ?_ ?_ ?_ (fun hne' hj => h.e5 v va hne' hj) (hR _ rfl)
      · intro d; rw [hout, pStop_bcast_ne s v _ (by simp), pStop_nil]
      · intro p d; rw [hout, pAck_bcast s v _ p d (by simp), pAck_nil]
      · intro _ hh; rw [hasPReport_bcast s v _ (by simp)] at hh; cases hh
      · intro t e j hm; cases mem_bcast_start hm
      · intro t src e j hm; cases mem_bcast_report hm
  | report src e j =>
    have hee : e = s.epoch := h.e3 v src e j va hhead
    simp only [handleW]
    split
    · rename_i hfw
      refine h.neutral v rest (toParent s v (.report v e j)) (s.jobId v) (s.jobEp v) rfl rfl rfl rfl rfl rfl rfl rfl (by simp) (by simp)
        c1 c2 ?_ ?_ hord hmem ?_ ?_ ?_ (fun hne' hj => h.e5 v va hne' hj) (hR _ rfl)
      · intro d; rw [hout, pStop_toParent s v _ (by simp), pStop_nil]
      · intro p d; rw [hout, pAck_toParent_ne s v _ (by simp), pAck_nil]
      · intro _ _
        have := job_not_passed h1 h4 va hne (by rw [hfw.2]; simp)
        exact this
      · intro t e' j' hm; cases mem_toParent hm
      · intro t src' e' j' hm; have := mem_toParent hm; cases this; exact hee
    · refine h.neutral v rest (s.out v) (s.jobId v) (s.jobEp v) rfl rfl rfl rfl rfl rfl rfl (by simp) (by simp) (by simp)
        c1 c2 (fun _ => rfl) (fun _ _ => rfl) hord hmem ?_ ?_ ?_ (fun hne' hj => h.e5 v va hne' hj) (hR _ rfl)
      · intro _ hh; rw [hout] at hh; cases hh
      · intro t e' j' hm; rw [hout] at hm; cases hm
      · intro t src' e' j' hm; rw [hout] at hm; cases hm
  | quitAck src =>
    simp only [handleW]
    refine h.neutral v rest _ (s.jobId v) (s.jobEp v) rfl rfl rfl rfl rfl rfl rfl rfl (by simp) (by simp)
      c1 c2 ?_ ?_ hord hmem ?_ ?_ ?_ (fun hne' hj => h.e5 v va hne' hj) (hR _ rfl)
    · intro d; rw [hout, pStop_nil]; split
      · exact pStop_toParent s v _ (by simp) d
      · exact pStop_nil d
    · intro p d; rw [hout, pAck_nil]; split
      · exact pAck_toParent_ne s v _ (by simp) p d
      · exact pAck_nil p d
    · intro _ hh; exfalso
      split at hh
      · rw [hasPReport_toParent _ v _ (by simp)] at hh; cases hh
      · cases hh
    · intro t e j hm; split at hm
      · cases mem_toParent hm
      · cases hm
    · intro t src' e j hm; split at hm
      · cases mem_toParent hm
      · cases hm

theorem hasPReport_stop_bcast (s : St n) (v : Fin n) : hasPReport (Out.notify v :: bcast s v Cmd.stop) = false := by
  have hb := hasPReport_bcast s v Cmd.stop (by simp)
  unfold hasPReport at hb ⊢
  rw [List.any_cons, hb]; rfl

theorem not_mem_stop_bcast_start (s : St n) (v t : Fin n) (e j : Nat) : Out.enq t (Cmd.start e j) ∉ (Out.notify v :: bcast s v Cmd.stop) := by
  intro hm
  rcases List.mem_cons.1 hm with e' | e'
  · cases e'
  · cases mem_bcast_start e'

theorem not_mem_stop_bcast_report (s : St n) (v t src : Fin n) (e j : Nat) : Out.enq t (Cmd.report src e j) ∉ (Out.notify v :: bcast s v Cmd.stop) := by
  intro hm
  rcases List.mem_cons.1 hm with e' | e'
  · cases e'
  · cases mem_bcast_report e'

/-- STOP handler of a helper -/
theorem G6.stop_handler {r : Fin n} {s s' : St n} (h1 : G1 r s) (h : G6 r s) (v : Fin n) (rest : List (Cmd n))
    (va : s.alive v = true) (hne : v ≠ r) (hq : s.q v = Cmd.stop :: rest) (hout : s.out v = [])
    (ha : s'.alive = s.alive) (hp : s'.parent = s.parent) (hep : s'.epoch = s.epoch)
    (hg : s'.gen = upd s.gen v (s.gen v + 1)) (hq' : s'.q = upd s.q v rest)
    (ho' : s'.out = upd s.out v (Out.notify v :: bcast s v .stop))
    (h3 : s'.selfWait = upd s.selfWait v true) (h4 : s'.childWait = upd s.childWait v (nChildren s v))
    (hj : s'.jobId = upd s.jobId v none) (hje : s'.jobEp = s.jobEp) (hpc : s'.pc = s.pc) : G6 r s' := by
  have hic := isChild_congr ha hp
  have hrv : r ≠ v := fun e => hne e.symm
  have hgr : s'.gen r = s.gen r := by rw [hg, upd_other _ _ _ _ hrv]
  have hgo : ∀ w, w ≠ v → s'.gen w = s.gen w := by intro w hw; rw [hg, upd_other _ _ _ _ hw]
  have hactR : actR s' r = actR s r := by unfold actR; rw [hpc]
  have hiro : ∀ w, w ≠ v → inRound s' w = inRound s w := by intro w hw; simp [inRound, h3, h4, hw]
  have hirv : inRound s' v = true := by simp [inRound, h3]
  have hmem : ∀ x, x ∈ rest → x ∈ s.q v := by intro x hx; rw [hq]; exact List.mem_cons_of_mem _ hx
  have hsi_down : ∀ c, isChild s v c = true → 0 < stopIn s' v c := by
    intro c hc
    unfold stopIn; rw [ho', upd_same, pStop_stop_bcast]; simp [hc]
  have hsi_other : ∀ p w, p ≠ v → w ≠ v → stopIn s' p w = stopIn s p w := by
    intro p w hpv hwv; unfold stopIn; rw [hq', ho', upd_other _ _ _ _ hwv, upd_other _ _ _ _ hpv]
  have hai_le : ∀ p w, w ≠ v → ackIn s' p w ≤ ackIn s p w := by
    intro p w hwv
    unfold ackIn; rw [hq', ho', upd_other _ _ _ _ hwv]
    by_cases hpv : p = v
    · subst hpv; rw [upd_same]; have : cAck rest w ≤ cAck (s.q p) w := by rw [hq]; exact cAck_tail_le _ _ w
      omega
    · rw [upd_other _ _ _ _ hpv]; exact Nat.le_refl _
  have hai_other : ∀ p w, p ≠ v → w ≠ v → ackIn s' p w = ackIn s p w := by
    intro p w hpv hwv; unfold ackIn; rw [hq', ho', upd_other _ _ _ _ hpv, upd_other _ _ _ _ hwv]
  refine ⟨?_, ?_, ?_, ?_, ?_, ?_, ?_, ?_⟩
  · intro p hpa; rw [ha] at hpa; rw [hq']
    by_cases hpv : p = v
    · subst hpv; rw [upd_same]; exact okOrder_tail (by rw [← hq]; exact h.ord p hpa)
    · rw [upd_other _ _ _ _ hpv]; exact h.ord p hpa
  · intro w hw hwr hprw; rw [ha] at hw; rw [ho'] at hprw
    by_cases hwv : w = v
    · subst hwv; rw [upd_same, hasPReport_stop_bcast] at hprw; cases hprw
    · rw [upd_other _ _ _ _ hwv] at hprw
      obtain ⟨a1, a2⟩ := h.pr w hw hwr hprw
      refine ⟨by rw [hactR, hgr, hgo w hwv]; exact a1, fun p hc => ?_⟩
      rw [hic] at hc
      have := hai_le p w hwv
      have := a2 p hc
      omega
  · intro p src hc hrf; rw [hic] at hc; rw [hq'] at hrf
    by_cases hsv : src = v
    · subst hsv; exact Or.inr (Or.inr (Or.inr (Or.inl hirv)))
    · by_cases hpv : p = v
      · subst hpv; exact Or.inr (Or.inr (Or.inl (hsi_down src hc)))
      · rw [upd_other _ _ _ _ hpv] at hrf
        rw [hactR, hgr, hgo src hsv, hsi_other p src hpv hsv, hiro src hsv, hai_other p src hpv hsv]
        exact h.rp p src hc hrf
  · intro w e j hw hm; rw [ha] at hw; rw [hq'] at hm; rw [hep]
    by_cases hwv : w = v
    · subst hwv; rw [upd_same] at hm; exact h.e1 w e j hw (hmem _ hm)
    · rw [upd_other _ _ _ _ hwv] at hm; exact h.e1 w e j hw hm
  · intro w t e j hw hm; rw [ha] at hw; rw [ho'] at hm; rw [hep]
    by_cases hwv : w = v
    · subst hwv; rw [upd_same] at hm; exact absurd hm (not_mem_stop_bcast_start s w t e j)
    · rw [upd_other _ _ _ _ hwv] at hm; exact h.e2 w t e j hw hm
  · intro w src e j hw hm; rw [ha] at hw; rw [hq'] at hm; rw [hep]
    by_cases hwv : w = v
    · subst hwv; rw [upd_same] at hm; exact h.e3 w src e j hw (hmem _ hm)
    · rw [upd_other _ _ _ _ hwv] at hm; exact h.e3 w src e j hw hm
  · intro w t src e j hw hm; rw [ha] at hw; rw [ho'] at hm; rw [hep]
    by_cases hwv : w = v
    · subst hwv; rw [upd_same] at hm; exact absurd hm (not_mem_stop_bcast_report s w t src e j)
    · rw [upd_other _ _ _ _ hwv] at hm; exact h.e4 w t src e j hw hm
  · intro w hw hwr hjn; rw [ha] at hw; rw [hj] at hjn; rw [hje, hep]
    by_cases hwv : w = v
    · subst hwv; rw [upd_same] at hjn; exact absurd rfl hjn
    · rw [upd_other _ _ _ _ hwv] at hjn; exact h.e5 w hw hwr hjn

/-- ack handler / self-ack of thread `v`: no STOP traffic changes, acks below `v` can only decrease, the round of `v`
    either continues or is replaced by its pending ack -/
theorem G6.ack_step {r : Fin n} {s s' : St n} (h : G6 r s) (v : Fin n) (ql : List (Cmd n)) (ol : List (Out n))
    (sw : Bool) (cw : Nat) (hout : s.out v = [])
    (ha : s'.alive = s.alive) (hp : s'.parent = s.parent) (hg : s'.gen = s.gen) (hep : s'.epoch = s.epoch)
    (hq' : s'.q = upd s.q v ql) (ho' : s'.out = upd s.out v ol)
    (h3 : s'.selfWait = upd s.selfWait v sw) (h4 : s'.childWait = upd s.childWait v cw)
    (hj : s'.jobId = s.jobId) (hje : s'.jobEp = s.jobEp)
    (hord : okOrder ql = true) (hmem : ∀ c, c ∈ ql → c ∈ s.q v)
    (c1 : cStop ql = cStop (s.q v)) (c2 : ∀ d, cAck ql d ≤ cAck (s.q v) d)
    (hrep : ∀ c, hasReportFrom ql c = true → cAck ql c = cAck (s.q v) c)
    (c3 : ∀ d, pStop ol d = 0) (c5 : hasPReport ol = false)
    (hnos : ∀ t e j, Out.enq t (Cmd.start e j) ∉ ol)
    (hkeep : ∀ p, isChild s p v = true → (sw || decide (0 < cw)) = true ∨ 0 < pAck ol p v)
    (hR : actR s r = true → actR s' r = true) : G6 r s' := by
  have hic := isChild_congr ha hp
  have hiro : ∀ w, w ≠ v → inRound s' w = inRound s w := by intro w hw; simp [inRound, h3, h4, hw]
  have hirv : inRound s' v = (sw || decide (0 < cw)) := by simp [inRound, h3, h4]
  have hsi : ∀ p w, stopIn s' p w = stopIn s p w := by
    intro p w
    unfold stopIn; rw [hq', ho']
    have e1 : cStop (upd s.q v ql w) = cStop (s.q w) := by
      by_cases hw : w = v
      · subst hw; rw [upd_same, c1]
      · rw [upd_other _ _ _ _ hw]
    have e2 : pStop (upd s.out v ol p) w = pStop (s.out p) w := by
      by_cases hpv : p = v
      · subst hpv; rw [upd_same, c3, hout, pStop_nil]
      · rw [upd_other _ _ _ _ hpv]
    rw [e1, e2]
  have hai_le : ∀ p w, w ≠ v → ackIn s' p w ≤ ackIn s p w := by
    intro p w hw
    unfold ackIn; rw [hq', ho', upd_other _ _ _ _ hw]
    by_cases hpv : p = v
    · subst hpv; rw [upd_same]; have := c2 w; omega
    · rw [upd_other _ _ _ _ hpv]; exact Nat.le_refl _
  refine ⟨?_, ?_, ?_, ?_, ?_, ?_, ?_, ?_⟩
  · intro p hpa; rw [ha] at hpa; rw [hq']
    by_cases hpv : p = v
    · subst hpv; rw [upd_same]; exact hord
    · rw [upd_other _ _ _ _ hpv]; exact h.ord p hpa
  · intro w hw hwr hprw; rw [ha] at hw; rw [ho'] at hprw
    by_cases hwv : w = v
    · subst hwv; rw [upd_same, c5] at hprw; cases hprw
    · rw [upd_other _ _ _ _ hwv] at hprw
      obtain ⟨a1, a2⟩ := h.pr w hw hwr hprw
      refine ⟨?_, fun p hc => ?_⟩
      · rw [hg]; rcases a1 with e | e
        · exact Or.inl (hR e)
        · exact Or.inr e
      · rw [hic] at hc
        have := hai_le p w hwv
        have := a2 p hc
        omega
  · intro p src hc hrf; rw [hic] at hc; rw [hq'] at hrf
    rw [hg, hsi]
    by_cases hsv : src = v
    · subst hsv
      rcases hkeep p hc with e | e
      · right; right; right; left; rw [hirv]; exact e
      · right; right; right; right
        unfold ackIn; rw [ho', upd_same]; omega
    · rw [hiro src hsv]
      by_cases hpv : p = v
      · subst hpv
        rw [upd_same] at hrf
        have hold : hasReportFrom (s.q p) src = true := by
          obtain ⟨e, j, hm⟩ := mem_of_hasReportFrom hrf
          exact hasReportFrom_of_mem (hmem _ hm)
        have hae : ackIn s' p src = ackIn s p src := by
          unfold ackIn; rw [hq', ho', upd_same, upd_other _ _ _ _ hsv, hrep src hrf]
        rw [hae]
        rcases h.rp p src hc hold with e | e
        · exact Or.inl (hR e)
        · exact Or.inr e
      · rw [upd_other _ _ _ _ hpv] at hrf
        have hae : ackIn s' p src = ackIn s p src := by
          unfold ackIn; rw [hq', ho', upd_other _ _ _ _ hpv, upd_other _ _ _ _ hsv]
        rw [hae]
        rcases h.rp p src hc hrf with e | e
        · exact Or.inl (hR e)
        · exact Or.inr e
  · intro w e j hw hm; rw [ha] at hw; rw [hq'] at hm; rw [hep]
    by_cases hwv : w = v
    · subst hwv; rw [upd_same] at hm; exact h.e1 w e j hw (hmem _ hm)
    · rw [upd_other _ _ _ _ hwv] at hm; exact h.e1 w e j hw hm
  · intro w t e j hw hm; rw [ha] at hw; rw [ho'] at hm; rw [hep]
    by_cases hwv : w = v
    · subst hwv; rw [upd_same] at hm; exact absurd hm (hnos t e j)
    · rw [upd_other _ _ _ _ hwv] at hm; exact h.e2 w t e j hw hm
  · intro w src e j hw hm; rw [ha] at hw; rw [hq'] at hm; rw [hep]
    by_cases hwv : w = v
    · subst hwv; rw [upd_same] at hm; exact h.e3 w src e j hw (hmem _ hm)
    · rw [upd_other _ _ _ _ hwv] at hm; exact h.e3 w src e j hw hm
  · intro w t src e j hw hm; rw [ha] at hw; rw [ho'] at hm; rw [hep]
    by_cases hwv : w = v
    · subst hwv; rw [upd_same] at hm
      have : hasPReport ol = true := by unfold hasPReport; rw [List.any_eq_true]; exact ⟨_, hm, rfl⟩
      rw [c5] at this; cases this
    · rw [upd_other _ _ _ _ hwv] at hm; exact h.e4 w t src e j hw hm
  · intro w hw hwr hjn; rw [ha] at hw; rw [hj] at hjn; rw [hje, hep]; exact h.e5 w hw hwr hjn

/-- `sendStopSearch` at the root -/
theorem G6.root_stop {r : Fin n} {s s' : St n} (h1 : G1 r s) (h4g : G4 r s) (h : G6 r s) (hnr : inRound s r = false)
    (ha : s'.alive = s.alive) (hp : s'.parent = s.parent) (hep : s'.epoch = s.epoch)
    (hg : s'.gen = upd s.gen r (s.gen r + 1)) (hq' : s'.q = s.q)
    (ho' : s'.out = upd s.out r (Out.notify r :: bcast s r .stop))
    (h3 : s'.selfWait = upd s.selfWait r true) (h4 : s'.childWait = upd s.childWait r (nChildren s r))
    (hj : s'.jobId = s.jobId) (hje : s'.jobEp = s.jobEp) : G6 r s' := by
  have hic := isChild_congr ha hp
  have hnew := h4g.all_new h1 hnr
  have hgr : s'.gen r = s.gen r + 1 := by rw [hg, upd_same]
  have hgo : ∀ w, w ≠ r → s'.gen w = s.gen w := by intro w hw; rw [hg, upd_other _ _ _ _ hw]
  have hold : ∀ w, s.alive w = true → w ≠ r → s'.gen w + 1 = s'.gen r := by
    intro w hw hwr; rw [hgo w hwr, hgr, hnew w hw]
  have hai : ∀ p w, w ≠ r → ackIn s' p w = ackIn s p w := by
    intro p w hw; unfold ackIn; rw [hq', ho', upd_other _ _ _ _ hw]
  refine ⟨?_, ?_, ?_, ?_, ?_, ?_, ?_, ?_⟩
  · intro p hpa; rw [ha] at hpa; rw [hq']; exact h.ord p hpa
  · intro w hw hwr hprw; rw [ha] at hw; rw [ho', upd_other _ _ _ _ hwr] at hprw
    obtain ⟨_, a2⟩ := h.pr w hw hwr hprw
    exact ⟨Or.inr (hold w hw hwr), fun p hc => by rw [hic] at hc; rw [hai p w hwr]; exact a2 p hc⟩
  · intro p src hc _; rw [hic] at hc
    have hsa : s.alive src = true := ((isChild_iff s p src).1 hc).1
    exact Or.inr (Or.inl (hold src hsa (h1.child_ne_root hc)))
  · intro w e j hw hm; rw [ha] at hw; rw [hq'] at hm; rw [hep]; exact h.e1 w e j hw hm
  · intro w t e j hw hm; rw [ha] at hw; rw [ho'] at hm; rw [hep]
    by_cases hwr : w = r
    · subst hwr; rw [upd_same] at hm; exact absurd hm (not_mem_stop_bcast_start s w t e j)
    · rw [upd_other _ _ _ _ hwr] at hm; exact h.e2 w t e j hw hm
  · intro w src e j hw hm; rw [ha] at hw; rw [hq'] at hm; rw [hep]; exact h.e3 w src e j hw hm
  · intro w t src e j hw hm; rw [ha] at hw; rw [ho'] at hm; rw [hep]
    by_cases hwr : w = r
    · subst hwr; rw [upd_same] at hm; exact absurd hm (not_mem_stop_bcast_report s w t src e j)
    · rw [upd_other _ _ _ _ hwr] at hm; exact h.e4 w t src e j hw hm
  · intro w hw hwr hjn; rw [ha] at hw; rw [hj] at hjn; rw [hje, hep]; exact h.e5 w hw hwr hjn

theorem hasPReport_erase {l : List (Out n)} {o : Out n} (h : hasPReport (l.erase o) = true) : hasPReport l = true := by
  unfold hasPReport at h ⊢
  rw [List.any_eq_true] at h ⊢
  obtain ⟨x, hx, hs⟩ := h
  exact ⟨x, List.mem_of_mem_erase hx, hs⟩

theorem hasPReport_of_mem {l : List (Out n)} {t src : Fin n} {e j : Nat} (h : Out.enq t (Cmd.report src e j) ∈ l) : hasPReport l = true := by
  unfold hasPReport; rw [List.any_eq_true]; exact ⟨_, h, rfl⟩

theorem mem_pushCmd' {l : List (Cmd n)} {c x : Cmd n} (h : x ∈ pushCmd l c) : x ∈ l ∨ x = c := mem_pushCmd h

/-- performing a pending enqueue -/
theorem G6.send {r : Fin n} {s : St n} (h1 : G1 r s) (h : G6 r s) (v t : Fin n) (c : Cmd n) (va : s.alive v = true)
    (hmo : Out.enq t c ∈ s.out v) :
    G6 r { s with q := upd s.q t (pushCmd (s.q t) c), out := upd s.out v ((s.out v).erase (Out.enq t c)), flag := upd s.flag t true } := by
  have hok := h1.outOk v _ va hmo
  have hparts : ∀ p d, isChild s p d = true →
      stopIn { s with q := upd s.q t (pushCmd (s.q t) c), out := upd s.out v ((s.out v).erase (Out.enq t c)), flag := upd s.flag t true } p d = stopIn s p d ∧
      ackIn { s with q := upd s.q t (pushCmd (s.q t) c), out := upd s.out v ((s.out v).erase (Out.enq t c)), flag := upd s.flag t true } p d = ackIn s p d :=
    fun p d hc => send_parts h1 v t c va hmo p d hc (cStop_push _ _)
  -- a report being sent comes from `v` itself, which has no ack on its way
  have hrep_src : ∀ src, c.isReportFrom src = true → src = v ∧ s.parent v = some t ∧ v ≠ r := by
    intro src hs
    rcases hok with ⟨_, hdown⟩ | ⟨hpar, hment⟩
    · cases c <;> simp [Cmd.isReportFrom] at hs <;> simp [Cmd.isDown] at hdown
    · cases c <;> simp [Cmd.isReportFrom] at hs
      case report a b d =>
        simp [mentions] at hment
        refine ⟨by rw [← hs, hment], hpar, ?_⟩
        intro e; subst e; rw [h1.rootPar] at hpar; cases hpar
  have hprv : ∀ src, c.isReportFrom src = true → (actR s r = true ∨ s.gen v + 1 = s.gen r) ∧ ackIn s t v = 0 := by
    intro src hs
    obtain ⟨_, hpar, hvr⟩ := hrep_src src hs
    have hpr : hasPReport (s.out v) = true := by
      cases c <;> simp [Cmd.isReportFrom] at hs
      case report a b d => exact hasPReport_of_mem hmo
    obtain ⟨a1, a2⟩ := h.pr v va hvr hpr
    exact ⟨a1, a2 t ((isChild_iff s t v).2 ⟨va, hpar⟩)⟩
  refine ⟨?_, ?_, ?_, ?_, ?_, ?_, ?_, ?_⟩
  · intro p hpa
    show okOrder (upd s.q t (pushCmd (s.q t) c) p) = true
    by_cases hpt : p = t
    · subst hpt; rw [upd_same]
      apply okOrder_pushCmd _ _ (h.ord p hpa)
      intro src hs hm
      obtain ⟨e1, _, _⟩ := hrep_src src hs
      subst e1
      have := (hprv src hs).2
      unfold ackIn cAck at this
      have h0 : (s.q p).count (Cmd.ack src) = 0 := by omega
      rw [List.count_eq_zero] at h0; exact h0 hm
    · rw [upd_other _ _ _ _ hpt]; exact h.ord p hpa
  · intro w hw hwr hprw
    have hold : hasPReport (s.out w) = true := by
      have hprw : hasPReport (upd s.out v ((s.out v).erase (Out.enq t c)) w) = true := hprw
      by_cases hwv : w = v
      · subst hwv; rw [upd_same] at hprw; exact hasPReport_erase hprw
      · rw [upd_other _ _ _ _ hwv] at hprw; exact hprw
    obtain ⟨a1, a2⟩ := h.pr w hw hwr hold
    exact ⟨a1, fun p hc => by rw [(hparts p w hc).2]; exact a2 p hc⟩
  · intro p src hc hrf
    show _ ∨ _ ∨ 0 < stopIn _ p src ∨ inRound s src = true ∨ 0 < ackIn _ p src
    rw [(hparts p src hc).1, (hparts p src hc).2]
    have hrf' : hasReportFrom (upd s.q t (pushCmd (s.q t) c) p) src = true := hrf
    by_cases hpt : p = t
    · subst hpt; rw [upd_same] at hrf'
      obtain ⟨e, j, hm⟩ := mem_of_hasReportFrom hrf'
      rcases mem_pushCmd hm with k | k
      · exact h.rp p src hc (hasReportFrom_of_mem k)
      · have hs : c.isReportFrom src = true := by rw [← k]; simp [Cmd.isReportFrom]
        obtain ⟨e1, _, _⟩ := hrep_src src hs
        subst e1
        rcases (hprv src hs).1 with a | a
        · exact Or.inl a
        · exact Or.inr (Or.inl a)
    · rw [upd_other _ _ _ _ hpt] at hrf'; exact h.rp p src hc hrf'
  · intro w e j hw hm
    have hm' : Cmd.start e j ∈ upd s.q t (pushCmd (s.q t) c) w := hm
    by_cases hwt : w = t
    · subst hwt; rw [upd_same] at hm'
      rcases mem_pushCmd hm' with k | k
      · exact h.e1 w e j hw k
      · subst k; exact h.e2 v w e j va hmo
    · rw [upd_other _ _ _ _ hwt] at hm'; exact h.e1 w e j hw hm'
  · intro w t' e j hw hm
    have hm' : Out.enq t' (Cmd.start e j) ∈ upd s.out v ((s.out v).erase (Out.enq t c)) w := hm
    by_cases hwv : w = v
    · subst hwv; rw [upd_same] at hm'; exact h.e2 w t' e j hw (List.mem_of_mem_erase hm')
    · rw [upd_other _ _ _ _ hwv] at hm'; exact h.e2 w t' e j hw hm'
  · intro w src e j hw hm
    have hm' : Cmd.report src e j ∈ upd s.q t (pushCmd (s.q t) c) w := hm
    by_cases hwt : w = t
    · subst hwt; rw [upd_same] at hm'
      rcases mem_pushCmd hm' with k | k
      · exact h.e3 w src e j hw k
      · subst k; exact h.e4 v w src e j va hmo
    · rw [upd_other _ _ _ _ hwt] at hm'; exact h.e3 w src e j hw hm'
  · intro w t' src e j hw hm
    have hm' : Out.enq t' (Cmd.report src e j) ∈ upd s.out v ((s.out v).erase (Out.enq t c)) w := hm
    by_cases hwv : w = v
    · subst hwv; rw [upd_same] at hm'; exact h.e4 w t' src e j hw (List.mem_of_mem_erase hm')
    · rw [upd_other _ _ _ _ hwv] at hm'; exact h.e4 w t' src e j hw hm'
  · intro w hw hwr hjn; exact h.e5 w hw hwr hjn

end Conc
