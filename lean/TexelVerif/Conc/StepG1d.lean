import TexelVerif.Conc.StepG1c
/-! `G1` is preserved by thread creation and termination; `G1` holds initially; every step preserves `G1`. -/
namespace Conc

variable {n : Nat}

theorem pendingTo_zero {l : List (Out n)} {v : Fin n} (h : pendingTo l v = 0) (c : Cmd n) : Out.enq v c ∉ l := by
  intro hm
  unfold pendingTo at h
  have := List.filter_eq_nil_iff.1 (List.eq_nil_of_length_eq_zero h) (Out.enq v c) hm
  simp at this

theorem nChildren_zero {s : St n} {v : Fin n} (h : nChildren s v = 0) (b : Fin n) : isChild s v b = false := by
  unfold nChildren at h
  cases hb : isChild s v b
  · rfl
  · have := (mem_children s v b).2 hb
    rw [List.eq_nil_of_length_eq_zero h] at this
    cases this

theorem cAck_zero_of_all {l : List (Cmd n)} {v : Fin n} (h : l.all (fun c => !mentions v c) = true) : cAck l v = 0 := by
  unfold cAck
  rw [List.count_eq_zero]
  intro hm
  have := List.all_eq_true.1 h _ hm
  simp [mentions] at this

theorem G1.spawn {r : Fin n} {s s' : St n} (h : G1 r s) (v p : Fin n)
    (hav : s.alive v = false) (hap : s.alive p = true) (hvr : v ≠ r) (hvp : v ≠ p) (hqv : s.q v = []) (hov : s.out v = [])
    (hpend : pendingTo (s.out p) v = 0) (hment : (s.q p).all (fun c => !mentions v c) = true)
    (hnoch : (List.finRange n).all (fun c => !(s.parent c == some v && s.alive c)) = true)
    (ha : s'.alive = upd s.alive v true) (hp : s'.parent = upd s.parent v (some p))
    (hd : s'.depth = upd s.depth v (s.depth p + 1)) (h1 : s'.q = s.q) (h2 : s'.out = s.out)
    (h3 : s'.selfWait = upd s.selfWait v false) (h4 : s'.childWait = upd s.childWait v 0)
    (hpc : s'.pc = upd s.pc v .wait) : G1 r s' := by
    have hnoch' : ∀ c, s.parent c = some v → s.alive c = false := by
      intro c hc
      have := List.all_eq_true.1 hnoch c (List.mem_finRange c)
      simp [hc] at this
      exact this
    have hpv : p ≠ v := fun e => hvp e.symm
    have hrv : r ≠ v := fun e => hvr e.symm
    have hicv : ∀ a, isChild s' a v = decide (a = p) := by
      intro a; simp [isChild, ha, hp]
      by_cases e : a = p
      · subst e; simp
      · have : ¬ p = a := fun e' => e e'.symm
        simp [e, this]
    have hico : ∀ a b, b ≠ v → isChild s' a b = isChild s a b := by
      intro a b hb; simp [isChild, ha, hp, hb]
    have hsv : ∀ a, isChild s a v = false := by intro a; simp [isChild, hav]
    have hnov : ∀ b, b ≠ v → isChild s v b = false := by
      intro b _
      cases hb : isChild s v b
      · rfl
      · have hh := (isChild_iff s v b).1 hb
        rw [hnoch' b hh.2] at hh; cases hh.1
    have hiro : ∀ w, w ≠ v → inRound s' w = inRound s w := by
      intro w hw; simp [inRound, h3, h4, hw]
    have hirv : inRound s' v = false := by simp [inRound, h3, h4]
    have hdo : ∀ a b, b ≠ v → debt s' a b = debt s a b := by
      intro a b hb; unfold debt; rw [hiro b hb, h1, h2]
    have hdv : debt s' p v = 0 := by
      unfold debt
      rw [hirv, h1, h2, hqv, hov]
      have e1 : pStop (s.out p) v = 0 := by
        unfold pStop; rw [List.count_eq_zero]; exact pendingTo_zero hpend _
      rw [e1, cAck_zero_of_all hment]
      simp [cStop, pAck]
    refine ⟨?_, ?_, ?_, ?_, ?_, ?_, ?_, ?_, ?_, ?_, ?_, ?_, ?_⟩
    · rw [ha, upd_other _ _ _ _ hrv]; exact h.rootAlive
    · rw [hp, upd_other _ _ _ _ hrv]; exact h.rootPar
    · intro w hw hne
      by_cases hwv : w = v
      · subst hwv
        exact ⟨p, by rw [hp, upd_same], by rw [ha, upd_other _ _ _ _ hpv]; exact hap⟩
      · rw [ha, upd_other _ _ _ _ hwv] at hw
        obtain ⟨p', hp', hpa⟩ := h.par w hw hne
        refine ⟨p', by rw [hp, upd_other _ _ _ _ hwv]; exact hp', ?_⟩
        rw [ha]; by_cases e : p' = v
        · subst e; simp
        · rw [upd_other _ _ _ _ e]; exact hpa
    · intro w p' hw hpp
      rw [hd]
      by_cases hwv : w = v
      · subst hwv
        rw [hp, upd_same] at hpp; cases hpp
        rw [upd_same, upd_other _ _ _ _ hpv]; omega
      · rw [ha, upd_other _ _ _ _ hwv] at hw
        rw [hp, upd_other _ _ _ _ hwv] at hpp
        have hp'v : p' ≠ v := by
          intro e; subst e
          rw [hnoch' w hpp] at hw; cases hw
        rw [upd_other _ _ _ _ hwv, upd_other _ _ _ _ hp'v]
        exact h.dep w p' hw hpp
    · intro a haa
      rw [h4]
      by_cases hav' : a = v
      · subst hav'
        rw [upd_same]
        symm; apply sumAll_zero
        intro b
        by_cases hb : b = a
        · subst hb; rw [hicv]; simp [hvp]
        · rw [hico a b hb, hnov b hb]; simp
      · rw [ha, upd_other _ _ _ _ hav'] at haa
        rw [upd_other _ _ _ _ hav', h.sum a haa]
        apply sumAll_congr
        intro b
        by_cases hb : b = v
        · subst hb
          rw [hsv a, hicv a]
          by_cases hap' : a = p
          · subst hap'; simp [hdv]
          · simp [hap']
        · rw [hico a b hb, hdo a b hb]
    · intro a b hc
      by_cases hb : b = v
      · subst hb
        rw [hicv] at hc
        have : a = p := by simpa using hc
        subst this; rw [hdv]; omega
      · rw [hico a b hb] at hc
        rw [hdo a b hb]; exact h.le1 a b hc
    · intro w o hw ho
      rw [h2] at ho
      by_cases hwv : w = v
      · subst hwv; rw [hov] at ho; cases ho
      · rw [ha, upd_other _ _ _ _ hwv] at hw
        have hok := h.outOk w o hw ho
        cases o with
        | notify t => exact hok
        | enq t c =>
          rcases hok with ⟨hc, hdn⟩ | ⟨hpar, hm⟩
          · left
            have htv : t ≠ v := by intro e; subst e; rw [hsv w] at hc; cases hc
            exact ⟨by rw [hico w t htv]; exact hc, hdn⟩
          · right; exact ⟨by rw [hp, upd_other _ _ _ _ hwv]; exact hpar, hm⟩
    · intro w c hw hc
      rw [h1] at hc
      by_cases hwv : w = v
      · subst hwv; rw [hqv] at hc; cases hc
      · rw [ha, upd_other _ _ _ _ hwv] at hw
        have hok := h.qOk w c hw hc
        have key : ∀ src, isChild s w src = true → isChild s' w src = true := by
          intro src hsrc
          have : src ≠ v := by intro e; subst e; rw [hsv w] at hsrc; cases hsrc
          rw [hico w src this]; exact hsrc
        cases c with
        | ack src => exact key src hok
        | report src _ _ => exact key src hok
        | quitAck src => exact key src hok
        | init => exact hok
        | start _ _ => exact hok
        | stop => exact hok
        | quit => exact hok
    · intro w hw
      rw [h1]
      by_cases hwv : w = v
      · subst hwv; rw [hqv]; simp
      · rw [ha, upd_other _ _ _ _ hwv] at hw; exact h.purger1 w hw
    · intro w hw hne hst
      rw [h1, h2] at hst
      by_cases hwv : w = v
      · subst hwv; rw [hqv, hov] at hst; simp [hasStart, hasPStart] at hst
      · rw [ha, upd_other _ _ _ _ hwv] at hw
        rw [hiro w hwv]; exact h.startRound w hw hne hst
    · intro hr'
      rw [hiro r hrv] at hr'
      rw [hpc, upd_other _ _ _ _ hrv]; exact h.rootRound hr'
    · intro hst
      rw [h2] at hst
      rw [hpc, upd_other _ _ _ _ hrv]; exact h.rootStart hst
    · intro w hw
      rw [hpc]
      by_cases hwv : w = v
      · subst hwv; rw [upd_same]; simp [isEnginePc, hvr]
      · rw [ha, upd_other _ _ _ _ hwv] at hw
        rw [upd_other _ _ _ _ hwv]; exact h.pcKind w hw

theorem stepSpawn_G1 {r : Fin n} {s s' : St n} (h : G1 r s) (v p : Fin n) (hs : stepSpawn r s v p = some s') : G1 r s' := by
  unfold stepSpawn at hs
  split at hs
  · rename_i hg
    obtain ⟨hav, hap, hvr, hvp, hqv, hov, _, _, _, _, hpend, hment, hnoch⟩ := hg
    cases hs
    exact h.spawn v p hav hap hvr hvp hqv hov hpend hment hnoch rfl rfl rfl rfl rfl rfl rfl rfl
  · cases hs

theorem stepExit_G1 {r : Fin n} {s s' : St n} (h : G1 r s) (v : Fin n) (hs : stepExit r s v = some s') : G1 r s' := by
  unfold stepExit at hs
  split at hs
  · rename_i hg
    obtain ⟨hav, hvr, _, hov, hqv, _, hsw, hcw, _, hnc, hclean⟩ := hg
    cases hs
    obtain ⟨p0, hp0, hp0a⟩ := h.par v hav hvr
    have hclean' : pendingTo (s.out p0) v = 0 ∧ (s.q p0).all (fun c => !mentions v c) = true := by
      unfold parentClean at hclean
      rw [hp0] at hclean
      simpa using hclean
    have hrv : r ≠ v := fun e => hvr e.symm
    have hnov := nChildren_zero hnc
    have hpar_unique : ∀ a, isChild s a v = true → a = p0 := by
      intro a hc
      have := ((isChild_iff s a v).1 hc).2; rw [hp0] at this; cases this; rfl
    have hirv : inRound s v = false := by simp [inRound, hsw, hcw]
    -- the debt of v towards its parent is zero
    have hdv : debt s p0 v = 0 := by
      unfold debt
      rw [hirv, hqv, hov]
      have e1 : pStop (s.out p0) v = 0 := by
        unfold pStop; rw [List.count_eq_zero]; exact pendingTo_zero hclean'.1 _
      rw [e1, cAck_zero_of_all hclean'.2]
      simp [cStop, pAck]
    have hicv : ∀ a, isChild ({ s with alive := upd s.alive v false } : St n) a v = false := by
      intro a; simp [isChild]
    have hico : ∀ a b, b ≠ v → isChild ({ s with alive := upd s.alive v false } : St n) a b = isChild s a b := by
      intro a b hb; simp [isChild, hb]
    have hdeq : ∀ a b, debt ({ s with alive := upd s.alive v false } : St n) a b = debt s a b := fun _ _ => rfl
    have hireq : ∀ w, inRound ({ s with alive := upd s.alive v false } : St n) w = inRound s w := fun _ => rfl
    have halive : ∀ w, (upd s.alive v false) w = true → w ≠ v ∧ s.alive w = true := by
      intro w hw
      by_cases hwv : w = v
      · subst hwv; simp at hw
      · rw [upd_other _ _ _ _ hwv] at hw; exact ⟨hwv, hw⟩
    refine ⟨?_, ?_, ?_, ?_, ?_, ?_, ?_, ?_, ?_, ?_, ?_, ?_, ?_⟩
    · show upd s.alive v false r = true
      rw [upd_other _ _ _ _ hrv]; exact h.rootAlive
    · exact h.rootPar
    · intro w hw hne
      obtain ⟨hwv, hwa⟩ := halive w hw
      obtain ⟨p', hp', hpa⟩ := h.par w hwa hne
      refine ⟨p', hp', ?_⟩
      show upd s.alive v false p' = true
      have : p' ≠ v := by
        intro e; subst e
        have := hnov w
        rw [(isChild_iff s p' w).2 ⟨hwa, hp'⟩] at this; cases this
      rw [upd_other _ _ _ _ this]; exact hpa
    · intro w p' hw hpp
      exact h.dep w p' (halive w hw).2 hpp
    · intro a haa
      obtain ⟨hav', haa'⟩ := halive a haa
      show s.childWait a = _
      rw [h.sum a haa']
      apply sumAll_congr
      intro b
      by_cases hb : b = v
      · subst hb
        rw [hicv a]
        cases hc : isChild s a b
        · simp
        · have := hpar_unique a hc; subst this; simp [hdv]
      · rw [hico a b hb, hdeq]
    · intro a b hc
      by_cases hb : b = v
      · subst hb; rw [hicv a] at hc; cases hc
      · rw [hico a b hb] at hc; rw [hdeq]; exact h.le1 a b hc
    · intro w o hw ho
      obtain ⟨hwv, hwa⟩ := halive w hw
      have hok := h.outOk w o hwa ho
      cases o with
      | notify t => exact hok
      | enq t c =>
        rcases hok with ⟨hc, hdn⟩ | ⟨hpar, hm⟩
        · left
          have htv : t ≠ v := by
            intro e; subst e
            have := hpar_unique w hc; subst this
            exact pendingTo_zero hclean'.1 c ho
          exact ⟨by rw [hico w t htv]; exact hc, hdn⟩
        · right; exact ⟨hpar, hm⟩
    · intro w c hw hc
      obtain ⟨hwv, hwa⟩ := halive w hw
      have hok := h.qOk w c hwa hc
      have key : ∀ src, isChild s w src = true → mentions src c = true →
          isChild ({ s with alive := upd s.alive v false } : St n) w src = true := by
        intro src hsrc hm
        have : src ≠ v := by
          intro e; subst e
          have := hpar_unique w hsrc; subst this
          have := List.all_eq_true.1 hclean'.2 c hc
          rw [hm] at this; cases this
        rw [hico w src this]; exact hsrc
      cases c with
      | ack src => exact key src hok (by simp [mentions])
      | report src _ _ => exact key src hok (by simp [mentions])
      | quitAck src => exact key src hok (by simp [mentions])
      | init => exact hok
      | start _ _ => exact hok
      | stop => exact hok
      | quit => exact hok
    · intro w hw; exact h.purger1 w (halive w hw).2
    · intro w hw hne hst; rw [hireq]; exact h.startRound w (halive w hw).2 hne hst
    · intro hr'; exact h.rootRound hr'
    · intro hst; exact h.rootStart hst
    · intro w hw; exact h.pcKind w (halive w hw).2
  · cases hs

theorem stepTend_G1 {r : Fin n} {s s' : St n} (h : G1 r s) (v : Fin n) (hs : stepTend r s v = some s') : G1 r s' := by
  unfold stepTend at hs
  split at hs
  · rename_i hg
    cases hs
    exact h.frame_pc v .gone rfl rfl rfl rfl rfl rfl rfl rfl hg.2.2.2.1 (by rw [hg.2.2.1]; rfl) (fun e => absurd e hg.2.1)
  · cases hs

theorem init_G1 (r : Fin n) : G1 r (init r) := by
  have hch : ∀ a b, isChild (init r) a b = false := by intro a b; simp [isChild, init]
  have hdebt : ∀ a b, debt (init r) a b = 0 := by
    intro a b; simp [debt, init, inRound, cStop, pStop, cAck, pAck]
  refine ⟨?_, ?_, ?_, ?_, ?_, ?_, ?_, ?_, ?_, ?_, ?_, ?_, ?_⟩
  · simp [init]
  · simp [init]
  · intro v hv hne; simp [init] at hv; exact absurd hv hne
  · intro v p _ hp; simp [init] at hp
  · intro p _
    show (0 : Nat) = _
    symm; apply sumAll_zero; intro c; rw [hch]; simp
  · intro p c hc; rw [hch] at hc; cases hc
  · intro v o _ ho; simp [init] at ho
  · intro v c _ hc; simp [init] at hc
  · intro v _; simp [init]
  · intro v _ _ hst; simp [init, hasStart, hasPStart] at hst
  · intro hr; simp [init, inRound] at hr
  · intro hst; simp [init, hasPStart] at hst
  · intro v hv
    simp [init] at hv; subst hv
    simp [init, isEnginePc]

/-- every step of the protocol model preserves the counting invariant -/
theorem step_G1 {r : Fin n} {s s' : St n} (h : G1 r s) (e : Ev n) (hs : step r s e = some s') : G1 r s' := by
  cases e with
  | waitRet v => exact stepWaitRet_G1 h v hs
  | deq v => exact stepDeq_G1 h v hs
  | pollEmpty v => exact stepPollEmpty_G1 h v hs
  | send v o => exact stepSend_G1 h v o hs
  | ackSelf v => exact stepAckSelf_G1 h v hs
  | searchResult v => exact stepSearchResult_G1 h v hs
  | searchLeave v m => exact stepSearchLeave_G1 h v m hs
  | spawn v p => exact stepSpawn_G1 h v p hs
  | tend v => exact stepTend_G1 h v hs
  | exit v => exact stepExit_G1 h v hs
  | eRdPre x => exact stepERdPre_G1 h x hs
  | eRd x b => exact stepERd_G1 h x b hs
  | eOpts k => exact stepEOpts_G1 h k hs
  | eStopSend => exact stepEStopSend_G1 h hs
  | eBegin => exact stepE_G1_easy h .eBegin (by simp) hs
  | eInit => exact stepE_G1_easy h .eInit (by simp) hs
  | eJobNext => exact stepE_G1_easy h .eJobNext (by simp) hs
  | eSearchDone => exact stepE_G1_easy h .eSearchDone (by simp) hs
  | eHoldDone => exact stepE_G1_easy h .eHoldDone (by simp) hs
  | eBest => exact stepE_G1_easy h .eBest (by simp) hs
  | eSearchEnd => exact stepE_G1_easy h .eSearchEnd (by simp) hs
  | eQuitSend => exact stepE_G1_easy h .eQuitSend (by simp) hs
  | pWr x b => exact stepP_G1 h (.pWr x b) hs
  | pWd x => exact stepP_G1 h (.pWd x) hs
  | pWaitStop => exact stepP_G1 h .pWaitStop hs
  | pWaitOpts => exact stepP_G1 h .pWaitOpts hs
  | pSetOpt => exact stepP_G1 h .pSetOpt hs
  | pNotify t => exact stepP_G1 h (.pNotify t) hs

theorem reach_G1 {r : Fin n} {s : St n} (h : Reach r s) : G1 r s := by
  induction h with
  | init => exact init_G1 r
  | step s s' e _ hs ih => exact step_G1 ih e hs

end Conc
