/-! Executable protocol model of texel's thread communication layer
    (`lib/texellib/hw/parallel.cpp`, `app/texel/enginecontrol.cpp`, `Search::shouldStop`).

    Threads: the protocol thread `P` (UCIProtocol::mainLoop), the engine thread `E`
    (EngineMainThread::mainLoop, owner of the root communicator `r`) and one helper thread per
    non-root communicator.  Communicators are the slots `Fin n`; the tree (`parent`, `alive`)
    is part of the state and changes only by `spawn` / `exit`.

    Every step is one atomic action at a synchronisation point of the C++ code (the lock held
    there is named in the comment); thread-local updates are folded into the preceding
    synchronisation step of the same thread.  `step r s e` is a partial function: `none`
    means "event `e` is not enabled in `s`".  The theorems (Props/C10, Props/C09) quantify over
    all sequences of events; the trace acceptor (Drv/Proto) replays recorded hook events
    through this same function. -/
namespace Conc

variable {n : Nat}

/-- Commands in a communicator's queue (`Communicator::CommandType`).  `src`, `e` are ghost
    tags (sender, search epoch) that the C++ commands do not carry. -/
inductive Cmd (n : Nat) where
  | init : Cmd n
  | start (e j : Nat) : Cmd n
  | stop : Cmd n
  | quit : Cmd n
  | report (src : Fin n) (e j : Nat) : Cmd n
  | ack (src : Fin n) : Cmd n
  | quitAck (src : Fin n) : Cmd n
deriving DecidableEq, Repr

/-- A pending synchronisation action of a thread (it has decided to do it, but not yet done it). -/
inductive Out (n : Nat) where
  | enq (tgt : Fin n) (c : Cmd n) : Out n      -- lock tgt.mutex; (purge;) push; tgt.notifier.notify()
  | notify (tgt : Fin n) : Out n               -- tgt.notifier.notify()
deriving DecidableEq, Repr

/-- Program counters.  Helper threads: `wait … done` (`done`: left the loop after all QUIT_ACKs; `gone`: terminated by
    `~WorkerThread`, the communicator still exists); engine thread: `ewait … edone`. -/
inductive Pc where
  | wait | poll | search (j : Nat) | ackSelf | done | gone
  | ewait | eQ0 | eQ1 | eOpts1 | eS0 | eS1 | eBegin | eGo | esearch
  | ehold (ws : Bool) | ebest (ws : Bool)
  | estop | eack | ecollect | ecwait | epost | eend | eQuit0 | equit | eqwait | edone
deriving DecidableEq, Repr, Inhabited

/-- A flag written by `P` and read lock-free by `E` (std::atomic<bool>).  The hooks log a
    write as a window (`pWr` before, `pWd` after the store) and a read as `eRdPre` before the
    load and the outcome after it; a read may return any value the flag held in between. -/
structure Reg where
  cur : Bool := false
  nxt : Option Bool := none
  seenF : Bool := false
  seenT : Bool := false
deriving DecidableEq, Repr

inductive Var where
  | ponder | infinite | quit | search | hold
deriving DecidableEq, Repr

structure St (n : Nat) where
  -- tree of communicators
  parent : Fin n → Option (Fin n)
  alive : Fin n → Bool
  depth : Fin n → Nat                 -- ghost: strictly increasing from parent to child
  gen : Fin n → Nat                   -- ghost: number of STOPs this communicator has processed (root: stop rounds started)
  -- per communicator (queue guarded by its mutex, flag by the notifier's mutex,
  -- counters owned by the communicator's thread)
  q : Fin n → List (Cmd n)
  flag : Fin n → Bool                 -- Notifier::notified
  selfWait : Fin n → Bool             -- stopAckWaitSelf
  childWait : Fin n → Nat             -- stopAckWaitChildren
  quitWait : Fin n → Int              -- quitAckWaitChildren
  out : Fin n → List (Out n)          -- pending actions of the owning thread
  pc : Fin n → Pc
  -- per helper (thread-local)
  jobId : Fin n → Option Nat          -- WorkerThread::jobId (none = -1)
  jobEp : Fin n → Nat                 -- ghost: epoch of that job
  hasResult : Fin n → Bool
  -- engine thread
  ejob : Nat                          -- Search::jobId of the running search
  epoch : Nat                         -- ghost: number of searches started
  -- shared between P and E
  quitF : Reg
  search : Reg
  ponder : Reg
  infinite : Reg
  pend : Bool                         -- pendingOptions non-empty   (EngineMainThread::mutex)
  optsFin : Bool                      -- optionsSetFinished          (EngineMainThread::mutex)
  pOut : List (Out n)                 -- pending actions of P
  goCount : Nat                       -- ghost
  bmCount : Nat                       -- ghost

def upd {α : Type} (f : Fin n → α) (v : Fin n) (x : α) : Fin n → α := fun i => if i = v then x else f i

@[simp] theorem upd_same {α : Type} (f : Fin n → α) (v : Fin n) (x : α) : upd f v x v = x := by simp [upd]
@[simp] theorem upd_other {α : Type} (f : Fin n → α) (v w : Fin n) (x : α) (h : w ≠ v) : upd f v x w = f w := by
  simp [upd, h]
@[simp] theorem upd_self {α : Type} (f : Fin n → α) (v : Fin n) : upd f v (f v) = f := by
  funext w; by_cases h : w = v
  · subst h; simp [upd]
  · simp [upd, h]
theorem upd_apply {α : Type} (f : Fin n → α) (v w : Fin n) (x : α) : upd f v x w = if w = v then x else f w := rfl

/-! ### Tree -/

def isChild (s : St n) (p c : Fin n) : Bool := s.alive c && (s.parent c == some p)
def children (s : St n) (p : Fin n) : List (Fin n) := (List.finRange n).filter (isChild s p)
def nChildren (s : St n) (p : Fin n) : Nat := (children s p).length
/-- one pending enqueue of `c` per child of `p` (`for (auto& c : children) c->doSend…`) -/
def bcast (s : St n) (p : Fin n) (c : Cmd n) : List (Out n) := (children s p).map (fun x => Out.enq x c)
/-- `if (parent) parent->doSend…` -/
def toParent (s : St n) (v : Fin n) (c : Cmd n) : List (Out n) :=
  match s.parent v with
  | some p => [Out.enq p c]
  | none => []

/-! ### Queues -/

/-- removed by `doSendStartSearch` / `doSendStopSearch` before pushing -/
def Cmd.purgeable : Cmd n → Bool
  | .start _ _ => true
  | .stop => true
  | .report _ _ _ => true
  | _ => false

def Cmd.isPurger : Cmd n → Bool
  | .start _ _ => true
  | .stop => true
  | _ => false

def purge (l : List (Cmd n)) : List (Cmd n) := l.filter (fun c => !c.purgeable)

def pushCmd (l : List (Cmd n)) (c : Cmd n) : List (Cmd n) :=
  (if c.isPurger then purge l else l) ++ [c]

/-- perform a pending action (atomic: the push and the notify are both inside tgt.mutex, and
    the hook logs them as one event from inside the notifier's mutex) -/
def applyOut (s : St n) : Out n → St n
  | .notify t => { s with flag := upd s.flag t true }
  | .enq t c => { s with q := upd s.q t (pushCmd (s.q t) c), flag := upd s.flag t true }

/-! ### Command handlers of a helper thread (`WorkerThread::CommHandler`), run after the pop -/

def handleW (s : St n) (v : Fin n) : Cmd n → St n
  | .init =>
      { s with jobId := upd s.jobId v none, out := upd s.out v (bcast s v .init) }
  | .start e j =>
      { s with jobId := upd s.jobId v (some j), jobEp := upd s.jobEp v e,
               hasResult := upd s.hasResult v false, out := upd s.out v (bcast s v (.start e j)) }
  | .stop =>
      { s with selfWait := upd s.selfWait v true, childWait := upd s.childWait v (nChildren s v),
               jobId := upd s.jobId v none, out := upd s.out v (Out.notify v :: bcast s v .stop),
               gen := upd s.gen v (s.gen v + 1) }
  | .quit =>
      if nChildren s v = 0 then
        { s with quitWait := upd s.quitWait v 0, out := upd s.out v (toParent s v (.quitAck v)) }
      else
        { s with quitWait := upd s.quitWait v (nChildren s v), out := upd s.out v (bcast s v .quit) }
  | .report _ e j =>
      if s.hasResult v = false ∧ s.jobId v = some j then
        { s with hasResult := upd s.hasResult v true, out := upd s.out v (toParent s v (.report v e j)) }
      else s
  | .ack _ =>
      { s with childWait := upd s.childWait v (s.childWait v - 1),
               out := upd s.out v (if s.selfWait v = false ∧ s.childWait v - 1 = 0 then toParent s v (.ack v) else []) }
  | .quitAck _ =>
      { s with quitWait := upd s.quitWait v (s.quitWait v - 1),
               out := upd s.out v (if s.quitWait v - 1 = 0 then toParent s v (.quitAck v) else []) }

/-- handlers of the engine thread: `Search::shouldStop` (only REPORT_RESULT, no state), the
    stop-ack collection loop of `EngineMainThread::doSearch`, the quit-ack loop of `mainLoop` -/
def handleE (s : St n) (v : Fin n) (pc : Pc) (c : Cmd n) : St n :=
  match pc, c with
  | .ecollect, .ack _ => { s with childWait := upd s.childWait v (s.childWait v - 1) }
  | .equit, .quitAck _ => { s with quitWait := upd s.quitWait v (s.quitWait v - 1) }
  | _, _ => s

/-! ### Registers -/

def getReg (s : St n) : Var → Reg
  | .ponder => s.ponder
  | .infinite => s.infinite
  | .quit => s.quitF
  | .search => s.search
  | .hold => s.ponder

def setReg (s : St n) (x : Var) (g : Reg) : St n :=
  match x with
  | .ponder => { s with ponder := g }
  | .infinite => { s with infinite := g }
  | .quit => { s with quitF := g }
  | .search => { s with search := g }
  | .hold => s

def Reg.snap (g : Reg) : Reg :=
  { g with seenF := (g.cur == false) || (g.nxt == some false), seenT := (g.cur == true) || (g.nxt == some true) }

def Reg.wr (g : Reg) (b : Bool) : Reg :=
  { g with nxt := some b, seenF := g.seenF || !b, seenT := g.seenT || b }

def Reg.seen (g : Reg) (b : Bool) : Bool := if b then g.seenT else g.seenF

/-! ### Events -/

inductive Ev (n : Nat) where
  -- any communicator-owning thread
  | waitRet (v : Fin n)             -- Notifier::wait returns (notifier mutex): needs flag, clears it
  | deq (v : Fin n)                 -- Communicator::poll pops the head (queue mutex) and runs the handler
  | pollEmpty (v : Fin n)           -- Communicator::poll sees an empty queue (queue mutex)
  | send (v : Fin n) (o : Out n)    -- v's thread performs one pending action
  -- helper threads
  | ackSelf (v : Fin n)             -- comm->sendStopAck(false) at the bottom of the loop / in doSearch
  | searchResult (v : Fin n)        -- own search returned a score: sendReportResult(jobId, score)
  | searchLeave (v : Fin n) (max : Bool)  -- doSearch returns (StopSearch, or maximum depth reached)
  | spawn (v p : Fin n)             -- new helper thread v with parent p (createWorkers)
  | tend (v : Fin n)                -- helper thread terminated by ~WorkerThread (`terminate`; notify; join)
  | exit (v : Fin n)                -- its communicator is destroyed (`removeChild`)
  -- engine thread
  | eRdPre (x : Var) | eRd (x : Var) (b : Bool)
  | eOpts (k : Bool)                -- setOptions: swap pending options (E.mutex); k = some were pending
  | eBegin | eInit | eJobNext | eSearchDone | eHoldDone | eBest | eStopSend | eSearchEnd | eQuitSend
  -- protocol thread
  | pWr (x : Var) (b : Bool) | pWd (x : Var) | pWaitStop | pWaitOpts | pSetOpt
  | pNotify (t : Fin n)             -- P calls t.notifier.notify() (quit, startSearch, setOption, ~WorkerThread)
deriving DecidableEq, Repr

def isWaitPc : Pc → Bool
  | .wait | .ewait | .ecwait | .eqwait => true
  | _ => false

def afterWait : Pc → Pc
  | .wait => .poll
  | .ewait => .eQ0
  | .ecwait => .ecollect
  | .eqwait => .equit
  | p => p

def stepWaitRet (s : St n) (v : Fin n) : Option (St n) :=
  if s.alive v = true ∧ s.out v = [] ∧ isWaitPc (s.pc v) = true ∧ s.flag v = true then
    some { s with flag := upd s.flag v false, pc := upd s.pc v (afterWait (s.pc v)) }
  else none

def stepDeq (s : St n) (v : Fin n) : Option (St n) :=
  if s.alive v = true ∧ s.out v = [] then
    match s.q v with
    | [] => none
    | c :: rest =>
      let s1 := { s with q := upd s.q v rest }
      match s.pc v with
      | .poll => some (handleW s1 v c)
      | .search _ => some (handleW s1 v c)
      | .esearch => some s1
      | .ecollect => some (handleE s1 v .ecollect c)
      | .equit => some (handleE s1 v .equit c)
      | _ => none
  else none

def stepPollEmpty (s : St n) (v : Fin n) : Option (St n) :=
  if s.alive v = true ∧ s.out v = [] ∧ s.q v = [] then
    match s.pc v with
    | .poll =>
        -- `if (comm->hasQuitAck()) break; if (jobId != -1) doSearch(handler); comm->sendStopAck(false);`
        some { s with pc := upd s.pc v (if s.quitWait v = 0 then .done else
                                        match s.jobId v with
                                        | some j => .search j
                                        | none => .ackSelf) }
    | .search _ => some s
    | .esearch => some s
    | .ecollect =>
        -- `if (comm->hasStopAck()) break; notifierWait();` … `notifier.notify();`
        if s.childWait v = 0 ∧ s.selfWait v = false then
          some { s with pc := upd s.pc v .epost, out := upd s.out v [Out.notify v] }
        else some { s with pc := upd s.pc v .ecwait }
    | .equit => some { s with pc := upd s.pc v (if s.quitWait v = 0 then .edone else .eqwait) }
    | _ => none
  else none

def stepSend (s : St n) (v : Fin n) (o : Out n) : Option (St n) :=
  if s.alive v = true ∧ o ∈ s.out v then
    some (applyOut { s with out := upd s.out v ((s.out v).erase o) } o)
  else none

def stepAckSelf (s : St n) (v : Fin n) : Option (St n) :=
  if s.alive v = true ∧ s.out v = [] then
    match s.pc v with
    | .ackSelf =>
        -- Communicator::sendStopAck(false)
        if s.selfWait v = true then
          some { s with selfWait := upd s.selfWait v false, pc := upd s.pc v .wait,
                        out := upd s.out v (if s.childWait v = 0 then toParent s v (.ack v) else []) }
        else some { s with pc := upd s.pc v .wait }
    | .eack => some { s with selfWait := upd s.selfWait v false, pc := upd s.pc v .ecollect }
    | _ => none
  else none

def stepSearchResult (s : St n) (v : Fin n) : Option (St n) :=
  if s.alive v = true ∧ s.out v = [] then
    match s.pc v with
    | .search j =>
        -- WorkerThread::sendReportResult(jobId, score) with the job id the search was started with
        if s.hasResult v = false ∧ s.jobId v = some j then
          some { s with hasResult := upd s.hasResult v true,
                        out := upd s.out v (toParent s v (.report v (s.jobEp v) j)) }
        else some s
    | _ => none
  else none

def stepSearchLeave (s : St n) (v : Fin n) (max : Bool) : Option (St n) :=
  if s.alive v = true ∧ s.out v = [] then
    match s.pc v with
    | .search j =>
        if max then some { s with jobId := upd s.jobId v none, pc := upd s.pc v .ackSelf }
        else if s.jobId v ≠ some j then some { s with pc := upd s.pc v .ackSelf }
        else none
    | _ => none
  else none

/-- the engine thread is in its main loop, outside `doSearch` and not quitting (threads are created and destroyed by
    the protocol thread only then: `EngineMainThread::startSearch` after `waitStop()`) -/
def mainLoopPc : Pc → Bool
  | .ewait | .eQ0 | .eQ1 | .eOpts1 | .eS0 | .eS1 => true
  | _ => false

/-- number of pending enqueues to `c` in `l` -/
def pendingTo (l : List (Out n)) (c : Fin n) : Nat :=
  (l.filter (fun o => match o with | .enq t _ => t == c | .notify _ => false)).length

def mentions (v : Fin n) : Cmd n → Bool
  | .report src _ _ => src == v
  | .ack src => src == v
  | .quitAck src => src == v
  | _ => false

/-- a new helper thread: `comm = make_unique<ThreadCommunicator>(parentComm, …)` (parent's queue mutex) -/
def stepSpawn (r : Fin n) (s : St n) (v p : Fin n) : Option (St n) :=
  if s.alive v = false ∧ s.alive p = true ∧ v ≠ r ∧ v ≠ p ∧ s.q v = [] ∧ s.out v = [] ∧
     mainLoopPc (s.pc r) = true ∧ s.q p = [] ∧ s.out p = [] ∧ (p = r ∨ (s.pc p = .wait ∧ s.flag p = false)) ∧
     pendingTo (s.out p) v = 0 ∧ (s.q p).all (fun c => !mentions v c) = true ∧
     (List.finRange n).all (fun c => !(s.parent c == some v && s.alive c)) = true then
    some { s with alive := upd s.alive v true, parent := upd s.parent v (some p),
                  depth := upd s.depth v (s.depth p + 1), gen := upd s.gen v (s.gen p), pc := upd s.pc v .wait,
                  flag := upd s.flag v false, selfWait := upd s.selfWait v false,
                  childWait := upd s.childWait v 0, quitWait := upd s.quitWait v (-1),
                  jobId := upd s.jobId v none, hasResult := upd s.hasResult v false }
  else none

/-- nothing from or for `v` is in flight at its parent -/
def parentClean (s : St n) (v : Fin n) : Bool :=
  match s.parent v with
  | some p => decide (pendingTo (s.out p) v = 0) && (s.q p).all (fun c => !mentions v c)
  | none => false

/-- no helper thread has been terminated whose communicator still exists (the protocol thread is not inside `createWorkers`) -/
def noGone (s : St n) : Bool := (List.finRange n).all (fun v => !(s.alive v && s.pc v == .gone))

/-- `~WorkerThread`: `terminate = true; threadNotifier.notify(); thread->join()` — the thread saw `terminate` after a wake-up -/
def stepTend (r : Fin n) (s : St n) (v : Fin n) : Option (St n) :=
  if s.alive v = true ∧ v ≠ r ∧ s.pc v = .poll ∧ s.out v = [] ∧ s.q v = [] ∧ s.selfWait v = false ∧ s.childWait v = 0 ∧
     s.jobId v = none ∧ mainLoopPc (s.pc r) = true ∧ s.search.cur = false ∧ s.search.nxt = none ∧ s.quitF.cur = false ∧ s.quitF.nxt = none then
    some { s with pc := upd s.pc v .gone }
  else none

/-- `~Communicator` of a terminated helper: `parent->removeChild(this)` (its own children are gone already) -/
def stepExit (r : Fin n) (s : St n) (v : Fin n) : Option (St n) :=
  if s.alive v = true ∧ v ≠ r ∧ s.pc v = .gone ∧ s.out v = [] ∧ s.q v = [] ∧ mainLoopPc (s.pc r) = true ∧
     s.selfWait v = false ∧ s.childWait v = 0 ∧ s.jobId v = none ∧ nChildren s v = 0 ∧
     parentClean s v = true then
    some { s with alive := upd s.alive v false }
  else none

/-! ### Engine thread (all at index `r`) -/

def setPc (s : St n) (v : Fin n) (p : Pc) : St n := { s with pc := upd s.pc v p }

def stepERdPre (r : Fin n) (s : St n) (x : Var) : Option (St n) :=
  if s.out r = [] then
    match x, s.pc r with
    | .quit, .eQ0 => some (setPc { s with quitF := s.quitF.snap } r .eQ1)
    | .search, .eS0 => some (setPc { s with search := s.search.snap } r .eS1)
    | .hold, .ehold _ => some { s with ponder := s.ponder.snap, infinite := s.infinite.snap }
    | .hold, .eGo => some { s with ponder := s.ponder.snap, infinite := s.infinite.snap }   -- book move
    | _, _ => none
  else none

def stepERd (r : Fin n) (s : St n) (x : Var) (b : Bool) : Option (St n) :=
  if s.out r = [] then
    match x, s.pc r with
    | .quit, .eQ1 => if s.quitF.seen b then some (setPc s r (if b then .eQuit0 else .eOpts1)) else none
    | .search, .eS1 => if s.search.seen b then some (setPc s r (if b then .eBegin else .ewait)) else none
    | _, _ => none
  else none

/-- `EngineMainThread::setOptions` critical section (E.mutex; P's stores to `search` / `quitFlag` are
    inside the same mutex, so no store window is open) -/
def stepEOpts (r : Fin n) (s : St n) (k : Bool) : Option (St n) :=
  if s.out r = [] ∧ k = s.pend ∧ s.search.nxt = none ∧ s.quitF.nxt = none then
    match s.pc r with
    | .eOpts1 => some (if k then { s with pend := false } else setPc { s with optsFin := true } r .eS0)
    | .epost => some (if k then { s with pend := false } else setPc { s with optsFin := true } r .eend)
    | _ => none
  else none

def stepE (r : Fin n) (s : St n) : Ev n → Option (St n)
  | .eBegin =>
      if s.out r = [] ∧ s.pc r = .eBegin then some (setPc { s with ejob := 0 } r .eGo) else none
  | .eInit =>
      -- Search::iterativeDeepening → comm.sendInitSearch
      if s.out r = [] ∧ s.pc r = .eGo then
        some (setPc { s with out := upd s.out r (bcast s r .init) } r .esearch) else none
  | .eJobNext =>
      -- Search::negaScoutRoot: jobId++; comm.sendStartSearch
      if s.out r = [] ∧ s.pc r = .esearch then
        some { s with ejob := s.ejob + 1, out := upd s.out r (bcast s r (.start s.epoch (s.ejob + 1))) } else none
  | .eSearchDone =>
      if s.out r = [] ∧ s.pc r = .esearch then some (setPc s r (.ehold true)) else none
  | .eHoldDone =>
      -- `while (*ponder || *infinite)` left: both were read as false
      if s.out r = [] ∧ s.ponder.seenF = true ∧ s.infinite.seenF = true then
        match s.pc r with
        | .eGo => some (setPc s r (.ebest false))        -- book move: no search was run
        | .ehold ws => some (setPc s r (.ebest ws))
        | _ => none
      else none
  | .eBest =>
      -- engineControl->finishSearch: the one `bestmove` line
      if s.out r = [] then
        match s.pc r with
        | .ebest ws => some (setPc { s with bmCount := s.bmCount + 1 } r (if ws then .estop else .epost))
        | _ => none
      else none
  | .eStopSend =>
      -- comm->sendStopSearch()
      if s.out r = [] ∧ s.pc r = .estop then
        some (setPc { s with selfWait := upd s.selfWait r true, childWait := upd s.childWait r (nChildren s r),
                             out := upd s.out r (Out.notify r :: bcast s r .stop),
                             gen := upd s.gen r (s.gen r + 1) } r .eack) else none
  | .eSearchEnd =>
      -- `search = false` (E.mutex) ; searchStopped.notify_all()
      if s.out r = [] ∧ s.pc r = .eend ∧ s.search.nxt = none ∧ s.quitF.nxt = none then
        some (setPc { s with search := { s.search with cur := false } } r .ewait) else none
  | .eQuitSend =>
      -- comm->sendQuit()
      if s.out r = [] ∧ s.pc r = .eQuit0 then
        some (setPc (if nChildren s r = 0 then { s with quitWait := upd s.quitWait r 0 }
                     else { s with quitWait := upd s.quitWait r (nChildren s r), out := upd s.out r (bcast s r .quit) }) r .equit)
      else none
  | _ => none

/-! ### Protocol thread -/

/-- P stores to an atomic flag: window opens (`pWr`, logged before the store) -/
def stepPWr (s : St n) : Var → Bool → Option (St n)
  | .ponder, b => if s.pOut = [] ∧ s.ponder.nxt = none then some { s with ponder := s.ponder.wr b } else none
  | .infinite, b => if s.pOut = [] ∧ s.infinite.nxt = none then some { s with infinite := s.infinite.wr b } else none
  | .quit, b =>
      -- EngineMainThread::quit, only after stopSearch()/waitStop()
      if s.pOut = [] ∧ s.quitF.nxt = none ∧ b = true ∧ s.search.cur = false ∧ s.search.nxt = none ∧ noGone s = true then
        some { s with quitF := s.quitF.wr true } else none
  | .search, b =>
      -- EngineMainThread::startSearch (E.mutex), only after waitStop() and waitOptionsSet(), never after quit
      if s.pOut = [] ∧ s.search.nxt = none ∧ b = true ∧ s.search.cur = false ∧ s.quitF.cur = false ∧ s.quitF.nxt = none ∧
         s.optsFin = true ∧ noGone s = true then
        some { s with search := s.search.wr true, goCount := s.goCount + 1, epoch := s.epoch + 1 } else none
  | .hold, _ => none

/-- the store has happened (`pWd`, logged after it) -/
def stepPWd (r : Fin n) (s : St n) : Var → Option (St n)
  | .ponder => match s.ponder.nxt with
      | some b => some { s with ponder := { s.ponder with cur := b, nxt := none } }
      | none => none
  | .infinite => match s.infinite.nxt with
      | some b => some { s with infinite := { s.infinite with cur := b, nxt := none } }
      | none => none
  | .quit => match s.quitF.nxt with
      | some b => some { s with quitF := { s.quitF with cur := b, nxt := none }, pOut := [Out.notify r] }
      | none => none
  | .search => match s.search.nxt with
      | some b => some { s with search := { s.search with cur := b, nxt := none }, pOut := [Out.notify r] }
      | none => none
  | .hold => none

def stepP (r : Fin n) (s : St n) : Ev n → Option (St n)
  | .pWr x b => stepPWr s x b
  | .pWd x => stepPWd r s x
  | .pWaitStop => if s.search.cur = false ∧ s.search.nxt = none then some s else none
  | .pWaitOpts => if s.optsFin = true then some s else none
  | .pSetOpt => if s.pOut = [] then some { s with pend := true, optsFin := false, pOut := [Out.notify r] } else none
  | .pNotify t => some { s with flag := upd s.flag t true, pOut := s.pOut.erase (Out.notify t) }
  | _ => none

def step (r : Fin n) (s : St n) : Ev n → Option (St n)
  | .waitRet v => stepWaitRet s v
  | .deq v => stepDeq s v
  | .pollEmpty v => stepPollEmpty s v
  | .send v o => stepSend s v o
  | .ackSelf v => stepAckSelf s v
  | .searchResult v => stepSearchResult s v
  | .searchLeave v m => stepSearchLeave s v m
  | .spawn v p => stepSpawn r s v p
  | .tend v => stepTend r s v
  | .exit v => stepExit r s v
  | .eRdPre x => stepERdPre r s x
  | .eRd x b => stepERd r s x b
  | .eOpts k => stepEOpts r s k
  | .pWr x b => stepP r s (.pWr x b)
  | .pWd x => stepP r s (.pWd x)
  | .pWaitStop => stepP r s .pWaitStop
  | .pWaitOpts => stepP r s .pWaitOpts
  | .pSetOpt => stepP r s .pSetOpt
  | .pNotify t => stepP r s (.pNotify t)
  | e => stepE r s e

/-- Initial state: only the root communicator exists, the engine thread is about to wait. -/
def init (r : Fin n) : St n where
  parent := fun _ => none
  alive := fun v => decide (v = r)
  depth := fun _ => 0
  gen := fun _ => 0
  q := fun _ => []
  flag := fun _ => false
  selfWait := fun _ => false
  childWait := fun _ => 0
  quitWait := fun _ => -1
  out := fun _ => []
  pc := fun v => if v = r then .ewait else .done
  jobId := fun _ => none
  jobEp := fun _ => 0
  hasResult := fun _ => false
  ejob := 0
  epoch := 0
  quitF := {}
  search := {}
  ponder := {}
  infinite := {}
  pend := false
  optsFin := true
  pOut := []
  goCount := 0
  bmCount := 0

/-- reachability over all interleavings -/
inductive Reach (r : Fin n) : St n → Prop where
  | init : Reach r (init r)
  | step (s s' : St n) (e : Ev n) : Reach r s → step r s e = some s' → Reach r s'

/-- replay of an event list -/
def run (r : Fin n) (s : St n) : List (Ev n) → Except (Nat × St n) (St n)
  | [] => .ok s
  | e :: es =>
    match step r s e with
    | some s' => match run r s' es with
                 | .ok t => .ok t
                 | .error (k, t) => .error (k + 1, t)
    | none => .error (0, s)

end Conc
