import TexelVerif.Conc.StepG3
/-! Two small auxiliary invariants used by the progress theorem. -/
namespace Conc

variable {n : Nat}

structure G5 (r : Fin n) (s : St n) : Prop where
  /-- the engine thread waits inside the ack-collection loop only while acks are outstanding -/
  ecw : s.pc r = .ecwait → inRound s r = true
  /-- a helper that has left its loop did so because all QUIT_ACKs had arrived -/
  dn : ∀ v, s.alive v = true → s.pc v = .done → s.quitWait v = 0
  /-- after the pre-read hook at least one outcome of the lock-free load is possible -/
  rdq : s.pc r = .eQ1 → s.quitF.seenF = true ∨ s.quitF.seenT = true
  rds : s.pc r = .eS1 → s.search.seenF = true ∨ s.search.seenT = true

theorem snap_seen (g : Reg) : g.snap.seenF = true ∨ g.snap.seenT = true := by
  cases hc : g.cur <;> simp [Reg.snap, hc]

theorem init_G5 (r : Fin n) : G5 r (init r) := by
  refine ⟨?_, ?_, ?_, ?_⟩
  · simp [init]
  · intro v hv hp; simp [init] at hv; subst hv; simp [init] at hp
  · simp [init]
  · simp [init]

theorem handleW_G5fields (s : St n) (v : Fin n) (c : Cmd n) :
    (handleW s v c).pc = s.pc ∧ (handleW s v c).alive = s.alive ∧ (handleW s v c).quitF = s.quitF ∧
    (handleW s v c).search = s.search ∧
    (∀ w, w ≠ v → (handleW s v c).selfWait w = s.selfWait w ∧ (handleW s v c).childWait w = s.childWait w ∧
                   (handleW s v c).quitWait w = s.quitWait w) := by
  cases c <;> simp only [handleW] <;> (try split) <;> simp <;> intro w hw <;> simp [hw]

/-- assemble `G5` from a root part and a helper part -/
theorem G5.mk' {r : Fin n} {s s' : St n} (h : G5 r s)
    (hroot : (s'.pc r = s.pc r ∧ inRound s' r = inRound s r ∧ s'.quitF = s.quitF ∧ s'.search = s.search) ∨
             ((s'.pc r = .ecwait → inRound s' r = true) ∧ (s'.pc r = .eQ1 → s'.quitF.seenF = true ∨ s'.quitF.seenT = true) ∧
              (s'.pc r = .eS1 → s'.search.seenF = true ∨ s'.search.seenT = true)))
    (hdn : ∀ w, s'.alive w = true → s'.pc w = .done →
            (s.alive w = true ∧ s.pc w = .done ∧ s'.quitWait w = s.quitWait w) ∨ s'.quitWait w = 0) : G5 r s' := by
  have dn : ∀ v, s'.alive v = true → s'.pc v = .done → s'.quitWait v = 0 := by
    intro w hw hp
    rcases hdn w hw hp with ⟨a, b, c⟩ | d
    · rw [c]; exact h.dn w a b
    · exact d
  rcases hroot with ⟨a, b, c, d⟩ | ⟨a, b, c⟩
  · exact ⟨by rw [a, b]; exact h.ecw, dn, by rw [a, c]; exact h.rdq, by rw [a, d]; exact h.rds⟩
  · exact ⟨a, dn, b, c⟩

/-- a step of a helper thread `v ≠ r` that updates only components at index `v` and does not move to `done` -/
theorem G5.helper {r : Fin n} {s s' : St n} (h : G5 r s) (v : Fin n) (hvr : v ≠ r)
    (ha : s'.alive = s.alive) (hq : s'.quitF = s.quitF) (hs : s'.search = s.search)
    (hpc : ∀ w, w ≠ v → s'.pc w = s.pc w)
    (hsw : ∀ w, w ≠ v → s'.selfWait w = s.selfWait w ∧ s'.childWait w = s.childWait w ∧ s'.quitWait w = s.quitWait w)
    (hv : s'.pc v = .done → s'.quitWait v = 0) : G5 r s' := by
  have hrv : r ≠ v := fun e => hvr e.symm
  apply h.mk'
  · left
    refine ⟨hpc r hrv, ?_, hq, hs⟩
    simp [inRound, (hsw r hrv).1, (hsw r hrv).2.1]
  · intro w hw hp
    by_cases hwv : w = v
    · subst hwv; right; exact hv hp
    · left; rw [ha] at hw; rw [hpc w hwv] at hp; exact ⟨hw, hp, (hsw w hwv).2.2⟩

/-- an engine-thread step to a program point other than `ecwait`, `eQ1`, `eS1` -/
theorem G5.root_move {r : Fin n} {s s' : St n} (h : G5 r s) (x : Pc)
    (ha : s'.alive = s.alive) (hpc : s'.pc = upd s.pc r x)
    (hqw : ∀ w, w ≠ r → s'.quitWait w = s.quitWait w)
    (x1 : x ≠ .ecwait) (x2 : x ≠ .eQ1) (x3 : x ≠ .eS1) (x4 : x ≠ .done) : G5 r s' := by
  apply h.mk'
  · right
    refine ⟨?_, ?_, ?_⟩ <;> intro hp <;> rw [hpc, upd_same] at hp
    · exact absurd hp x1
    · exact absurd hp x2
    · exact absurd hp x3
  · intro w hw hp
    rw [hpc] at hp
    by_cases hwr : w = r
    · subst hwr; rw [upd_same] at hp; exact absurd hp x4
    · left; rw [upd_other _ _ _ _ hwr] at hp; rw [ha] at hw; exact ⟨hw, hp, hqw w hwr⟩

theorem step_G5 {r : Fin n} {s s' : St n} (h1 : G1 r s) (h : G5 r s) (e : Ev n) (hs : step r s e = some s') : G5 r s' := by
  have hra := h1.rootAlive
  cases e with
  | waitRet v =>
    simp only [step, stepWaitRet] at hs
    split at hs
    · rename_i hg; cases hs
      apply h.mk'
      · by_cases hrv : r = v
        · subst hrv; right
          refine ⟨?_, ?_, ?_⟩ <;> intro hp <;> simp at hp <;>
            (cases hq : s.pc r <;> simp [hq, isWaitPc] at hg <;> simp [hq, afterWait] at hp)
        · left; simp [hrv, inRound]
      · intro w hw hp
        by_cases hwv : w = v
        · subst hwv; simp at hp
          cases hq : s.pc w <;> simp [hq, isWaitPc] at hg <;> simp [hq, afterWait] at hp
        · left; simp [hwv] at hp; exact ⟨hw, hp, rfl⟩
    · cases hs
  | deq v =>
    simp only [step, stepDeq] at hs
    split at hs
    · rename_i hg
      split at hs
      · cases hs
      · rename_i c rest hq
        have worker : isEnginePc (s.pc v) = false → s.pc v ≠ .done → G5 r (handleW { s with q := upd s.q v rest } v c) := by
          intro hk hnd
          obtain ⟨e1, e2, e3, e4, e5⟩ := handleW_G5fields { s with q := upd s.q v rest } v c
          refine h.helper v (h1.worker_ne_root hg.1 hk) e2 e3 e4 (fun w _ => by rw [e1]) e5 ?_
          rw [e1]; intro hp; exact absurd hp hnd
        split at hs
        · rename_i hpc; cases hs; exact worker (by rw [hpc]; rfl) (by rw [hpc]; simp)
        · rename_i j hpc; cases hs; exact worker (by rw [hpc]; rfl) (by rw [hpc]; simp)
        · cases hs; exact h.mk' (Or.inl ⟨rfl, rfl, rfl, rfl⟩) (fun w hw hp => Or.inl ⟨hw, hp, rfl⟩)
        · rename_i hpc; cases hs
          have hvr : v = r := h1.root_pc hg.1 (by rw [hpc]; rfl)
          subst hvr
          apply h.mk'
          · right
            refine ⟨?_, ?_, ?_⟩ <;> intro hp <;> (have : (handleE { s with q := upd s.q v rest } v .ecollect c).pc = s.pc := by cases c <;> rfl) <;>
              rw [this, hpc] at hp <;> cases hp
          · intro w hw hp
            have e1 : (handleE { s with q := upd s.q v rest } v .ecollect c).pc = s.pc := by cases c <;> rfl
            have e2 : (handleE { s with q := upd s.q v rest } v .ecollect c).quitWait = s.quitWait := by cases c <;> rfl
            have e3 : (handleE { s with q := upd s.q v rest } v .ecollect c).alive = s.alive := by cases c <;> rfl
            left; rw [e3] at hw; rw [e1] at hp; exact ⟨hw, hp, by rw [e2]⟩
        · rename_i hpc; cases hs
          have hvr : v = r := h1.root_pc hg.1 (by rw [hpc]; rfl)
          subst hvr
          have e1 : (handleE { s with q := upd s.q v rest } v .equit c).pc = s.pc := by cases c <;> rfl
          have e3 : (handleE { s with q := upd s.q v rest } v .equit c).alive = s.alive := by cases c <;> rfl
          apply h.mk'
          · right
            refine ⟨?_, ?_, ?_⟩ <;> intro hp <;> rw [e1, hpc] at hp <;> cases hp
          · intro w hw hp
            rw [e3] at hw; rw [e1] at hp
            by_cases hwv : w = v
            · subst hwv; rw [hpc] at hp; cases hp
            · left; refine ⟨hw, hp, ?_⟩
              cases c <;> simp [handleE, hwv]
        · cases hs
    · cases hs
  | pollEmpty v =>
    simp only [step, stepPollEmpty] at hs
    split at hs
    · rename_i hg
      split at hs
      · rename_i hpc; cases hs
        refine h.helper v (h1.worker_ne_root hg.1 (by rw [hpc]; rfl)) rfl rfl rfl (fun w hw => by simp [hw]) (fun w _ => ⟨rfl, rfl, rfl⟩) ?_
        show upd s.pc v _ v = Pc.done → s.quitWait v = 0
        rw [upd_same]
        intro hp
        by_cases hq0 : s.quitWait v = 0
        · exact hq0
        · rw [if_neg hq0] at hp
          cases hj : s.jobId v <;> simp [hj] at hp
      · cases hs; exact h
      · cases hs; exact h
      · rename_i hpc
        have hvr : v = r := h1.root_pc hg.1 (by rw [hpc]; rfl)
        subst hvr
        split at hs
        · cases hs
          apply h.mk'
          · right; refine ⟨?_, ?_, ?_⟩ <;> intro hp <;> simp at hp
          · intro w hw hp
            by_cases hwv : w = v
            · subst hwv; simp at hp
            · left; simp [hwv] at hp; exact ⟨hw, hp, rfl⟩
        · rename_i hnack; cases hs
          apply h.mk'
          · right
            refine ⟨?_, ?_, ?_⟩
            · intro _
              show inRound s v = true
              simp only [inRound, Bool.or_eq_true, decide_eq_true_eq]
              by_cases hc : s.childWait v = 0
              · left
                cases hsw : s.selfWait v
                · exact absurd ⟨hc, hsw⟩ hnack
                · rfl
              · right; omega
            · intro hp; simp at hp
            · intro hp; simp at hp
          · intro w hw hp
            by_cases hwv : w = v
            · subst hwv; simp at hp
            · left; simp [hwv] at hp; exact ⟨hw, hp, rfl⟩
      · rename_i hpc; cases hs
        have hvr : v = r := h1.root_pc hg.1 (by rw [hpc]; rfl)
        subst hvr
        apply h.mk'
        · right; refine ⟨?_, ?_, ?_⟩ <;> intro hp <;> simp at hp <;> (split at hp <;> cases hp)
        · intro w hw hp
          by_cases hwv : w = v
          · subst hwv; simp at hp; split at hp <;> cases hp
          · left; simp [hwv] at hp; exact ⟨hw, hp, rfl⟩
      · cases hs
    · cases hs
  | send v o =>
    simp only [step, stepSend] at hs
    split at hs
    · cases hs
      cases o <;> exact h.mk' (Or.inl ⟨rfl, rfl, rfl, rfl⟩) (fun w hw hp => Or.inl ⟨hw, hp, rfl⟩)
    · cases hs
  | ackSelf v =>
    simp only [step, stepAckSelf] at hs
    split at hs
    · rename_i hg
      split at hs
      · rename_i hpc
        have hne := h1.worker_ne_root hg.1 (by rw [hpc]; rfl)
        split at hs
        · cases hs
          exact h.helper v hne rfl rfl rfl (fun w hw => by simp [hw]) (fun w hw => by simp [hw]) (by simp)
        · cases hs
          exact h.helper v hne rfl rfl rfl (fun w hw => by simp [hw]) (fun w hw => ⟨rfl, rfl, rfl⟩) (by simp)
      · rename_i hpc; cases hs
        have hvr : v = r := h1.root_pc hg.1 (by rw [hpc]; rfl)
        subst hvr
        apply h.mk'
        · right; refine ⟨?_, ?_, ?_⟩ <;> intro hp <;> simp at hp
        · intro w hw hp
          by_cases hwv : w = v
          · subst hwv; simp at hp
          · left; simp [hwv] at hp; exact ⟨hw, hp, rfl⟩
      · cases hs
    · cases hs
  | searchResult v =>
    simp only [step, stepSearchResult] at hs
    split at hs
    · split at hs
      · split at hs
        · cases hs; exact h.mk' (Or.inl ⟨rfl, rfl, rfl, rfl⟩) (fun w hw hp => Or.inl ⟨hw, hp, rfl⟩)
        · cases hs; exact h
      · cases hs
    · cases hs
  | searchLeave v m =>
    simp only [step, stepSearchLeave] at hs
    split at hs
    · rename_i hg
      split at hs
      · rename_i j hpc
        have hne := h1.worker_ne_root hg.1 (by rw [hpc]; rfl)
        split at hs
        · cases hs
          exact h.helper v hne rfl rfl rfl (fun w hw => by simp [hw]) (fun w hw => ⟨rfl, rfl, rfl⟩) (by simp)
        · split at hs
          · cases hs
            exact h.helper v hne rfl rfl rfl (fun w hw => by simp [hw]) (fun w hw => ⟨rfl, rfl, rfl⟩) (by simp)
          · cases hs
      · cases hs
    · cases hs
  | spawn v p =>
    simp only [step, stepSpawn] at hs
    split at hs
    · rename_i hg
      have hvr : v ≠ r := hg.2.2.1
      have hrv : r ≠ v := fun e => hvr e.symm
      cases hs
      apply h.mk'
      · left; simp [hrv, inRound]
      · intro w hw hp
        by_cases hwv : w = v
        · subst hwv; simp at hp
        · left; simp [hwv] at hw hp ⊢; exact ⟨hw, hp⟩
    · cases hs
  | tend v =>
    simp only [step, stepTend] at hs
    split at hs
    · rename_i hg; cases hs
      exact h.helper v hg.2.1 rfl rfl rfl (fun w hw => by simp [hw]) (fun w _ => ⟨rfl, rfl, rfl⟩) (by simp)
    · cases hs
  | exit v =>
    simp only [step, stepExit] at hs
    split at hs
    · cases hs
      refine h.mk' (Or.inl ⟨rfl, rfl, rfl, rfl⟩) ?_
      intro w hw hp
      by_cases hwv : w = v
      · subst hwv; simp at hw
      · left; simp [hwv] at hw; exact ⟨hw, hp, rfl⟩
    · cases hs
  | eRdPre x =>
    simp only [step, stepERdPre] at hs
    split at hs
    · split at hs
      · cases hs
        apply h.mk'
        · right; refine ⟨?_, ?_, ?_⟩
          · intro hp; simp [setPc] at hp
          · intro _; exact snap_seen _
          · intro hp; simp [setPc] at hp
        · intro w hw hp
          by_cases hwr : w = r
          · subst hwr; simp [setPc] at hp
          · left; simp [setPc, hwr] at hp; exact ⟨hw, hp, rfl⟩
      · cases hs
        apply h.mk'
        · right; refine ⟨?_, ?_, ?_⟩
          · intro hp; simp [setPc] at hp
          · intro hp; simp [setPc] at hp
          · intro _; exact snap_seen _
        · intro w hw hp
          by_cases hwr : w = r
          · subst hwr; simp [setPc] at hp
          · left; simp [setPc, hwr] at hp; exact ⟨hw, hp, rfl⟩
      · rename_i ws hpc; cases hs
        exact h.mk' (Or.inl ⟨rfl, rfl, rfl, rfl⟩) (fun w hw hp => Or.inl ⟨hw, hp, rfl⟩)
      · rename_i hpc; cases hs
        exact h.mk' (Or.inl ⟨rfl, rfl, rfl, rfl⟩) (fun w hw hp => Or.inl ⟨hw, hp, rfl⟩)
      · cases hs
    · cases hs
  | eRd x b =>
    simp only [step, stepERd] at hs
    split at hs
    · split at hs
      · split at hs
        · cases hs
          apply h.mk'
          · right; refine ⟨?_, ?_, ?_⟩ <;> intro hp <;> cases b <;> simp [setPc] at hp
          · intro w hw hp
            by_cases hwr : w = r
            · subst hwr; cases b <;> simp [setPc] at hp
            · left; simp [setPc, hwr] at hp; exact ⟨hw, hp, rfl⟩
        · cases hs
      · split at hs
        · cases hs
          apply h.mk'
          · right; refine ⟨?_, ?_, ?_⟩ <;> intro hp <;> cases b <;> simp [setPc] at hp
          · intro w hw hp
            by_cases hwr : w = r
            · subst hwr; cases b <;> simp [setPc] at hp
            · left; simp [setPc, hwr] at hp; exact ⟨hw, hp, rfl⟩
        · cases hs
      · cases hs
    · cases hs
  | eOpts k =>
    simp only [step, stepEOpts] at hs
    split at hs
    · split at hs
      · rename_i hpc; cases hs
        cases k
        · apply h.mk'
          · right; refine ⟨?_, ?_, ?_⟩ <;> intro hp <;> simp [setPc] at hp
          · intro w hw hp
            by_cases hwr : w = r
            · subst hwr; simp [setPc] at hp
            · left; simp [setPc, hwr] at hp; exact ⟨hw, hp, rfl⟩
        · exact h.mk' (Or.inl ⟨rfl, rfl, rfl, rfl⟩) (fun w hw hp => Or.inl ⟨hw, hp, rfl⟩)
      · rename_i hpc; cases hs
        cases k
        · apply h.mk'
          · right; refine ⟨?_, ?_, ?_⟩ <;> intro hp <;> simp [setPc] at hp
          · intro w hw hp
            by_cases hwr : w = r
            · subst hwr; simp [setPc] at hp
            · left; simp [setPc, hwr] at hp; exact ⟨hw, hp, rfl⟩
        · exact h.mk' (Or.inl ⟨rfl, rfl, rfl, rfl⟩) (fun w hw hp => Or.inl ⟨hw, hp, rfl⟩)
      · cases hs
    · cases hs
  | pWr x b =>
    simp only [step, stepP] at hs
    cases x <;> simp only [stepPWr] at hs <;> try (cases hs)
    · split at hs
      · cases hs; exact h.mk' (Or.inl ⟨rfl, rfl, rfl, rfl⟩) (fun w hw hp => Or.inl ⟨hw, hp, rfl⟩)
      · cases hs
    · split at hs
      · cases hs; exact h.mk' (Or.inl ⟨rfl, rfl, rfl, rfl⟩) (fun w hw hp => Or.inl ⟨hw, hp, rfl⟩)
      · cases hs
    · split at hs
      · cases hs
        apply h.mk'
        · right; refine ⟨h.ecw, ?_, h.rds⟩
          intro _; right; simp [Reg.wr]
        · exact fun w hw hp => Or.inl ⟨hw, hp, rfl⟩
      · cases hs
    · split at hs
      · cases hs
        apply h.mk'
        · right; refine ⟨h.ecw, h.rdq, ?_⟩
          intro _; right; simp [Reg.wr]
        · exact fun w hw hp => Or.inl ⟨hw, hp, rfl⟩
      · cases hs
  | pWd x =>
    simp only [step, stepP] at hs
    cases x <;> simp only [stepPWd] at hs <;> try (cases hs)
    · split at hs
      · cases hs; exact h.mk' (Or.inl ⟨rfl, rfl, rfl, rfl⟩) (fun w hw hp => Or.inl ⟨hw, hp, rfl⟩)
      · cases hs
    · split at hs
      · cases hs; exact h.mk' (Or.inl ⟨rfl, rfl, rfl, rfl⟩) (fun w hw hp => Or.inl ⟨hw, hp, rfl⟩)
      · cases hs
    · split at hs
      · cases hs
        exact h.mk' (Or.inr ⟨h.ecw, h.rdq, h.rds⟩) (fun w hw hp => Or.inl ⟨hw, hp, rfl⟩)
      · cases hs
    · split at hs
      · cases hs
        exact h.mk' (Or.inr ⟨h.ecw, h.rdq, h.rds⟩) (fun w hw hp => Or.inl ⟨hw, hp, rfl⟩)
      · cases hs
  | pWaitStop =>
    simp only [step, stepP] at hs
    split at hs
    · cases hs; exact h
    · cases hs
  | pWaitOpts =>
    simp only [step, stepP] at hs
    split at hs
    · cases hs; exact h
    · cases hs
  | pSetOpt =>
    simp only [step, stepP] at hs
    split at hs
    · cases hs; exact h.mk' (Or.inl ⟨rfl, rfl, rfl, rfl⟩) (fun w hw hp => Or.inl ⟨hw, hp, rfl⟩)
    · cases hs
  | pNotify t =>
    simp only [step, stepP] at hs
    cases hs; exact h.mk' (Or.inl ⟨rfl, rfl, rfl, rfl⟩) (fun w hw hp => Or.inl ⟨hw, hp, rfl⟩)
  | eBegin =>
    simp only [step, stepE] at hs
    split at hs
    · cases hs; exact h.root_move .eGo rfl rfl (fun _ _ => rfl) (by simp) (by simp) (by simp) (by simp)
    · cases hs
  | eInit =>
    simp only [step, stepE] at hs
    split at hs
    · cases hs; exact h.root_move .esearch rfl rfl (fun _ _ => rfl) (by simp) (by simp) (by simp) (by simp)
    · cases hs
  | eJobNext =>
    simp only [step, stepE] at hs
    split at hs
    · rename_i hg; cases hs
      exact h.root_move .esearch rfl (by rw [← hg.2]; simp) (fun _ _ => rfl) (by simp) (by simp) (by simp) (by simp)
    · cases hs
  | eSearchDone =>
    simp only [step, stepE] at hs
    split at hs
    · cases hs; exact h.root_move (.ehold true) rfl rfl (fun _ _ => rfl) (by simp) (by simp) (by simp) (by simp)
    · cases hs
  | eHoldDone =>
    simp only [step, stepE] at hs
    split at hs
    · split at hs
      · cases hs; exact h.root_move (.ebest false) rfl rfl (fun _ _ => rfl) (by simp) (by simp) (by simp) (by simp)
      · cases hs; exact h.root_move (.ebest _) rfl rfl (fun _ _ => rfl) (by simp) (by simp) (by simp) (by simp)
      · cases hs
    · cases hs
  | eBest =>
    simp only [step, stepE] at hs
    split at hs
    · split at hs
      · rename_i ws _; cases hs
        refine h.root_move (if ws then .estop else .epost) rfl rfl (fun _ _ => rfl) ?_ ?_ ?_ ?_ <;> cases ws <;> simp
      · cases hs
    · cases hs
  | eStopSend =>
    simp only [step, stepE] at hs
    split at hs
    · cases hs; exact h.root_move .eack rfl rfl (fun _ _ => rfl) (by simp) (by simp) (by simp) (by simp)
    · cases hs
  | eSearchEnd =>
    simp only [step, stepE] at hs
    split at hs
    · cases hs; exact h.root_move .ewait rfl rfl (fun _ _ => rfl) (by simp) (by simp) (by simp) (by simp)
    · cases hs
  | eQuitSend =>
    simp only [step, stepE] at hs
    split at hs
    · cases hs
      split
      · exact h.root_move .equit rfl rfl (fun w hw => by simp [setPc, hw]) (by simp) (by simp) (by simp) (by simp)
      · exact h.root_move .equit rfl rfl (fun w hw => by simp [setPc, hw]) (by simp) (by simp) (by simp) (by simp)
    · cases hs

theorem reach_G5 {r : Fin n} {s : St n} (h : Reach r s) : G5 r s := by
  induction h with
  | init => exact init_G5 r
  | step s s' e hr hs ih => exact step_G5 (reach_G1 hr) ih e hs

/-- while a terminated helper's communicator still exists (the protocol thread is inside `createWorkers`) neither a
    search nor a quit has been requested -/
structure G7 (r : Fin n) (s : St n) : Prop where
  gn : ∀ v, s.alive v = true → s.pc v = .gone →
        s.search.cur = false ∧ s.search.nxt = none ∧ s.quitF.cur = false ∧ s.quitF.nxt = none

theorem noGone_spec {s : St n} (h : noGone s = true) (v : Fin n) (hv : s.alive v = true) : s.pc v ≠ .gone := by
  intro hp
  have := List.all_eq_true.1 h v (List.mem_finRange v)
  simp [hv, hp] at this

/-- steps that create no new `gone` thread and leave the two request flags' values alone -/
theorem G7.keep {r : Fin n} {s s' : St n} (h : G7 r s)
    (hpc : ∀ v, s'.alive v = true → s'.pc v = .gone → s.alive v = true ∧ s.pc v = .gone)
    (hs : s'.search.cur = s.search.cur ∧ s'.search.nxt = s.search.nxt) (hq : s'.quitF.cur = s.quitF.cur ∧ s'.quitF.nxt = s.quitF.nxt) : G7 r s' := by
  refine ⟨fun v hv hp => ?_⟩
  obtain ⟨a, b⟩ := hpc v hv hp
  rw [hs.1, hs.2, hq.1, hq.2]; exact h.gn v a b

theorem handleW_pc_alive (s : St n) (v : Fin n) (c : Cmd n) :
    (handleW s v c).pc = s.pc ∧ (handleW s v c).alive = s.alive ∧ (handleW s v c).search = s.search ∧ (handleW s v c).quitF = s.quitF := by
  cases c <;> simp only [handleW] <;> (try split) <;> simp

theorem step_G7 {r : Fin n} {s s' : St n} (h : G7 r s) (e : Ev n) (hs : step r s e = some s') : G7 r s' := by
  have keepPc : ∀ (s'' : St n) (v : Fin n) (x : Pc), x ≠ .gone → s''.alive = s.alive → s''.pc = upd s.pc v x →
      ∀ w, s''.alive w = true → s''.pc w = .gone → s.alive w = true ∧ s.pc w = .gone := by
    intro s'' v x hx a1 a2 w hw hp
    rw [a1] at hw; rw [a2] at hp
    by_cases hwv : w = v
    · subst hwv; rw [upd_same] at hp; exact absurd hp hx
    · rw [upd_other _ _ _ _ hwv] at hp; exact ⟨hw, hp⟩
  have keepSame : ∀ (s'' : St n), s''.alive = s.alive → s''.pc = s.pc →
      ∀ w, s''.alive w = true → s''.pc w = .gone → s.alive w = true ∧ s.pc w = .gone := by
    intro s'' a1 a2 w hw hp; rw [a1] at hw; rw [a2] at hp; exact ⟨hw, hp⟩
  cases e with
  | waitRet v =>
    simp only [step, stepWaitRet] at hs
    split at hs
    · rename_i hg; cases hs
      refine h.keep (keepPc _ v _ ?_ rfl rfl) ⟨rfl, rfl⟩ ⟨rfl, rfl⟩
      cases hp : s.pc v <;> simp [hp, isWaitPc] at hg <;> simp [afterWait]
    · cases hs
  | deq v =>
    simp only [step, stepDeq] at hs
    split at hs
    · split at hs
      · cases hs
      · rename_i c rest _
        have e1 := handleW_pc_alive { s with q := upd s.q v rest } v c
        split at hs
        · cases hs; exact h.keep (keepSame _ e1.2.1 e1.1) (by rw [e1.2.2.1]; exact ⟨rfl, rfl⟩) (by rw [e1.2.2.2]; exact ⟨rfl, rfl⟩)
        · cases hs; exact h.keep (keepSame _ e1.2.1 e1.1) (by rw [e1.2.2.1]; exact ⟨rfl, rfl⟩) (by rw [e1.2.2.2]; exact ⟨rfl, rfl⟩)
        · cases hs; exact h.keep (keepSame _ rfl rfl) ⟨rfl, rfl⟩ ⟨rfl, rfl⟩
        · cases hs; cases c <;> exact h.keep (keepSame _ rfl rfl) ⟨rfl, rfl⟩ ⟨rfl, rfl⟩
        · cases hs; cases c <;> exact h.keep (keepSame _ rfl rfl) ⟨rfl, rfl⟩ ⟨rfl, rfl⟩
        · cases hs
    · cases hs
  | pollEmpty v =>
    simp only [step, stepPollEmpty] at hs
    split at hs
    · split at hs
      · cases hs
        refine h.keep (keepPc _ v _ ?_ rfl rfl) ⟨rfl, rfl⟩ ⟨rfl, rfl⟩
        split
        · simp
        · split <;> simp
      · cases hs; exact h
      · cases hs; exact h
      · split at hs
        · cases hs; exact h.keep (keepPc _ v .epost (by simp) rfl rfl) ⟨rfl, rfl⟩ ⟨rfl, rfl⟩
        · cases hs; exact h.keep (keepPc _ v .ecwait (by simp) rfl rfl) ⟨rfl, rfl⟩ ⟨rfl, rfl⟩
      · cases hs
        refine h.keep (keepPc _ v _ ?_ rfl rfl) ⟨rfl, rfl⟩ ⟨rfl, rfl⟩
        split <;> simp
      · cases hs
    · cases hs
  | send v o =>
    simp only [step, stepSend] at hs
    split at hs
    · cases hs; cases o <;> exact h.keep (keepSame _ rfl rfl) ⟨rfl, rfl⟩ ⟨rfl, rfl⟩
    · cases hs
  | ackSelf v =>
    simp only [step, stepAckSelf] at hs
    split at hs
    · split at hs
      · split at hs
        · cases hs; exact h.keep (keepPc _ v .wait (by simp) rfl rfl) ⟨rfl, rfl⟩ ⟨rfl, rfl⟩
        · cases hs; exact h.keep (keepPc _ v .wait (by simp) rfl rfl) ⟨rfl, rfl⟩ ⟨rfl, rfl⟩
      · cases hs; exact h.keep (keepPc _ v .ecollect (by simp) rfl rfl) ⟨rfl, rfl⟩ ⟨rfl, rfl⟩
      · cases hs
    · cases hs
  | searchResult v =>
    simp only [step, stepSearchResult] at hs
    split at hs
    · split at hs
      · split at hs
        · cases hs; exact h.keep (keepSame _ rfl rfl) ⟨rfl, rfl⟩ ⟨rfl, rfl⟩
        · cases hs; exact h
      · cases hs
    · cases hs
  | searchLeave v m =>
    simp only [step, stepSearchLeave] at hs
    split at hs
    · split at hs
      · split at hs
        · cases hs; exact h.keep (keepPc _ v .ackSelf (by simp) rfl rfl) ⟨rfl, rfl⟩ ⟨rfl, rfl⟩
        · split at hs
          · cases hs; exact h.keep (keepPc _ v .ackSelf (by simp) rfl rfl) ⟨rfl, rfl⟩ ⟨rfl, rfl⟩
          · cases hs
      · cases hs
    · cases hs
  | spawn v p =>
    simp only [step, stepSpawn] at hs
    split at hs
    · cases hs
      refine h.keep ?_ ⟨rfl, rfl⟩ ⟨rfl, rfl⟩
      intro w hw hp
      by_cases hwv : w = v
      · subst hwv; simp at hp
      · simp [hwv] at hw hp; exact ⟨hw, hp⟩
    · cases hs
  | tend v =>
    simp only [step, stepTend] at hs
    split at hs
    · rename_i hg; cases hs
      refine ⟨fun w _ _ => ⟨hg.2.2.2.2.2.2.2.2.2.1, hg.2.2.2.2.2.2.2.2.2.2.1, hg.2.2.2.2.2.2.2.2.2.2.2.1, hg.2.2.2.2.2.2.2.2.2.2.2.2⟩⟩
    · cases hs
  | exit v =>
    simp only [step, stepExit] at hs
    split at hs
    · cases hs
      refine h.keep ?_ ⟨rfl, rfl⟩ ⟨rfl, rfl⟩
      intro w hw hp
      by_cases hwv : w = v
      · subst hwv; simp at hw
      · simp [hwv] at hw; exact ⟨hw, hp⟩
    · cases hs
  | eRdPre x =>
    simp only [step, stepERdPre] at hs
    split at hs
    · split at hs
      · cases hs; exact h.keep (keepPc _ r .eQ1 (by simp) rfl rfl) ⟨rfl, rfl⟩ ⟨rfl, rfl⟩
      · cases hs; exact h.keep (keepPc _ r .eS1 (by simp) rfl rfl) ⟨rfl, rfl⟩ ⟨rfl, rfl⟩
      · cases hs; exact h.keep (keepSame _ rfl rfl) ⟨rfl, rfl⟩ ⟨rfl, rfl⟩
      · cases hs; exact h.keep (keepSame _ rfl rfl) ⟨rfl, rfl⟩ ⟨rfl, rfl⟩
      · cases hs
    · cases hs
  | eRd x b =>
    simp only [step, stepERd] at hs
    split at hs
    · split at hs
      · split at hs
        · cases hs; refine h.keep (keepPc _ r _ ?_ rfl rfl) ⟨rfl, rfl⟩ ⟨rfl, rfl⟩; cases b <;> simp
        · cases hs
      · split at hs
        · cases hs; refine h.keep (keepPc _ r _ ?_ rfl rfl) ⟨rfl, rfl⟩ ⟨rfl, rfl⟩; cases b <;> simp
        · cases hs
      · cases hs
    · cases hs
  | eOpts k =>
    simp only [step, stepEOpts] at hs
    split at hs
    · split at hs
      · cases hs; cases k
        · exact h.keep (keepPc _ r .eS0 (by simp) rfl rfl) ⟨rfl, rfl⟩ ⟨rfl, rfl⟩
        · exact h.keep (keepSame _ rfl rfl) ⟨rfl, rfl⟩ ⟨rfl, rfl⟩
      · cases hs; cases k
        · exact h.keep (keepPc _ r .eend (by simp) rfl rfl) ⟨rfl, rfl⟩ ⟨rfl, rfl⟩
        · exact h.keep (keepSame _ rfl rfl) ⟨rfl, rfl⟩ ⟨rfl, rfl⟩
      · cases hs
    · cases hs
  | pWr x b =>
    simp only [step, stepP] at hs
    cases x <;> simp only [stepPWr] at hs <;> try (cases hs)
    · split at hs
      · cases hs; exact h.keep (keepSame _ rfl rfl) ⟨rfl, rfl⟩ ⟨rfl, rfl⟩
      · cases hs
    · split at hs
      · cases hs; exact h.keep (keepSame _ rfl rfl) ⟨rfl, rfl⟩ ⟨rfl, rfl⟩
      · cases hs
    · split at hs
      · rename_i hg; cases hs
        exact ⟨fun w hw hp => absurd hp (noGone_spec hg.2.2.2.2.2 w hw)⟩
      · cases hs
    · split at hs
      · rename_i hg; cases hs
        exact ⟨fun w hw hp => absurd hp (noGone_spec hg.2.2.2.2.2.2.2 w hw)⟩
      · cases hs
  | pWd x =>
    simp only [step, stepP] at hs
    cases x <;> simp only [stepPWd] at hs <;> try (cases hs)
    · split at hs
      · cases hs; exact h.keep (keepSame _ rfl rfl) ⟨rfl, rfl⟩ ⟨rfl, rfl⟩
      · cases hs
    · split at hs
      · cases hs; exact h.keep (keepSame _ rfl rfl) ⟨rfl, rfl⟩ ⟨rfl, rfl⟩
      · cases hs
    · split at hs
      · rename_i b hb; cases hs
        refine ⟨fun w hw hp => ?_⟩
        have := (h.gn w hw hp).2.2.2
        rw [this] at hb; cases hb
      · cases hs
    · split at hs
      · rename_i b hb; cases hs
        refine ⟨fun w hw hp => ?_⟩
        have := (h.gn w hw hp).2.1
        rw [this] at hb; cases hb
      · cases hs
  | pWaitStop => simp only [step, stepP] at hs; split at hs <;> cases hs; exact h
  | pWaitOpts => simp only [step, stepP] at hs; split at hs <;> cases hs; exact h
  | pSetOpt =>
    simp only [step, stepP] at hs
    split at hs
    · cases hs; exact h.keep (keepSame _ rfl rfl) ⟨rfl, rfl⟩ ⟨rfl, rfl⟩
    · cases hs
  | pNotify t => simp only [step, stepP] at hs; cases hs; exact h.keep (keepSame _ rfl rfl) ⟨rfl, rfl⟩ ⟨rfl, rfl⟩
  | eBegin =>
    simp only [step, stepE] at hs
    split at hs
    · cases hs; exact h.keep (keepPc _ r .eGo (by simp) rfl rfl) ⟨rfl, rfl⟩ ⟨rfl, rfl⟩
    · cases hs
  | eInit =>
    simp only [step, stepE] at hs
    split at hs
    · cases hs; exact h.keep (keepPc _ r .esearch (by simp) rfl rfl) ⟨rfl, rfl⟩ ⟨rfl, rfl⟩
    · cases hs
  | eJobNext =>
    simp only [step, stepE] at hs
    split at hs
    · cases hs; exact h.keep (keepSame _ rfl rfl) ⟨rfl, rfl⟩ ⟨rfl, rfl⟩
    · cases hs
  | eSearchDone =>
    simp only [step, stepE] at hs
    split at hs
    · cases hs; exact h.keep (keepPc _ r (.ehold true) (by simp) rfl rfl) ⟨rfl, rfl⟩ ⟨rfl, rfl⟩
    · cases hs
  | eHoldDone =>
    simp only [step, stepE] at hs
    split at hs
    · split at hs
      · cases hs; exact h.keep (keepPc _ r (.ebest false) (by simp) rfl rfl) ⟨rfl, rfl⟩ ⟨rfl, rfl⟩
      · cases hs; exact h.keep (keepPc _ r (.ebest _) (by simp) rfl rfl) ⟨rfl, rfl⟩ ⟨rfl, rfl⟩
      · cases hs
    · cases hs
  | eBest =>
    simp only [step, stepE] at hs
    split at hs
    · split at hs
      · rename_i ws _; cases hs
        refine h.keep (keepPc _ r _ ?_ rfl rfl) ⟨rfl, rfl⟩ ⟨rfl, rfl⟩; cases ws <;> simp
      · cases hs
    · cases hs
  | eStopSend =>
    simp only [step, stepE] at hs
    split at hs
    · cases hs; exact h.keep (keepPc _ r .eack (by simp) rfl rfl) ⟨rfl, rfl⟩ ⟨rfl, rfl⟩
    · cases hs
  | eSearchEnd =>
    simp only [step, stepE] at hs
    split at hs
    · rename_i hg; cases hs
      refine ⟨fun w hw hp => ?_⟩
      have hw' : s.alive w = true := hw
      have hp' : s.pc w = .gone := by
        have : upd s.pc r Pc.ewait w = .gone := hp
        by_cases hwr : w = r
        · subst hwr; rw [upd_same] at this; cases this
        · rw [upd_other _ _ _ _ hwr] at this; exact this
      have := h.gn w hw' hp'
      exact ⟨rfl, this.2.1, this.2.2.1, this.2.2.2⟩
    · cases hs
  | eQuitSend =>
    simp only [step, stepE] at hs
    split at hs
    · cases hs
      split <;> exact h.keep (keepPc _ r .equit (by simp) rfl rfl) ⟨rfl, rfl⟩ ⟨rfl, rfl⟩
    · cases hs

theorem init_G7 (r : Fin n) : G7 r (init r) := by
  refine ⟨fun v hv hp => ?_⟩
  simp [init] at hv; subst hv; simp [init] at hp

theorem reach_G7 {r : Fin n} {s : St n} (h : Reach r s) : G7 r s := by
  induction h with
  | init => exact init_G7 r
  | step s s' e _ hs ih => exact step_G7 ih e hs

end Conc
