/-! Prototype: stop / stop-ack sub-protocol of parallel.cpp on an arbitrary communicator tree. -/
namespace Proto

variable {n : Nat}

inductive Cmd (n : Nat) where
  | stop : Cmd n
  | ack : Fin n → Cmd n          -- ghost sender tag (the C++ STOP_ACK carries no sender)
deriving DecidableEq

structure St (n : Nat) where
  q : Fin n → List (Cmd n)        -- inbound queue of each communicator
  selfWait : Fin n → Bool         -- stopAckWaitSelf
  childWait : Fin n → Nat         -- stopAckWaitChildren

/-- static tree -/
structure Tree (n : Nat) where
  parent : Fin n → Option (Fin n)

variable (T : Tree n)

def isChild (p c : Fin n) : Bool := T.parent c == some p
def nChildren (p : Fin n) : Nat := ((List.finRange n).filter (isChild T p)).length

def cnt (l : List (Cmd n)) (x : Cmd n) : Nat := l.count x

/-- number of STOP_ACKs that child c still owes its parent p in state s -/
def debt (s : St n) (p c : Fin n) : Nat :=
  cnt (s.q c) .stop + (if s.selfWait c || decide (0 < s.childWait c) then 1 else 0) + cnt (s.q p) (.ack c)

def sumChildren (p : Fin n) (f : Fin n → Nat) : Nat :=
  ((List.finRange n).map (fun c => if isChild T p c then f c else 0)).sum

/-- the invariant -/
def Inv (s : St n) : Prop :=
  (∀ p, s.childWait p = sumChildren T p (debt s p)) ∧
  (∀ p c, isChild T p c = true → debt s p c ≤ 1) ∧
  (∀ p c, isChild T p c = false → cnt (s.q p) (.ack c) = 0)

def setQ (s : St n) (v : Fin n) (l : List (Cmd n)) : St n := { s with q := fun x => if x = v then l else s.q x }
/-- append cmd to the queue of every child of p -/
def bcast (s : St n) (p : Fin n) (cmd : Cmd n) : St n :=
  { s with q := fun x => if isChild T p x then s.q x ++ [cmd] else s.q x }
def sendUp (s : St n) (v : Fin n) : St n :=
  match T.parent v with
  | some p => { s with q := fun x => if x = p then s.q x ++ [.ack v] else s.q x }
  | none => s

inductive Step : St n → St n → Prop where
  /-- Communicator::sendStopSearch, at the root (engine thread) or in a worker's STOP handler -/
  | procStop (s : St n) (v : Fin n) (rest : List (Cmd n)) (h : s.q v = .stop :: rest) :
      Step s (bcast T { (setQ s v rest) with selfWait := fun x => if x = v then true else s.selfWait x,
                                             childWait := fun x => if x = v then nChildren T v else s.childWait x } v .stop)
  | rootStop (s : St n) (r : Fin n) (hr : T.parent r = none) (h1 : s.selfWait r = false) (h2 : s.childWait r = 0) :
      Step s (bcast T { s with selfWait := fun x => if x = r then true else s.selfWait x,
                               childWait := fun x => if x = r then nChildren T r else s.childWait x } r .stop)
  /-- sendStopAck(false) -/
  | selfAck (s : St n) (v : Fin n) (h : s.selfWait v = true) :
      Step s (let s1 : St n := { s with selfWait := fun x => if x = v then false else s.selfWait x }
              if s.childWait v = 0 then sendUp T s1 v else s1)
  /-- STOP_ACK handler: sendStopAck(true) -/
  | procAck (s : St n) (v c : Fin n) (rest : List (Cmd n)) (h : s.q v = .ack c :: rest) :
      Step s (let s1 : St n := { (setQ s v rest) with childWait := fun x => if x = v then s.childWait v - 1 else s.childWait x }
              if s.selfWait v = false ∧ s.childWait v - 1 = 0 then sendUp T s1 v else s1)

end Proto
