import TexelVerif.Conc.StepG4d
/-! `G4`: dequeue, self-ack, send, thread creation / termination, and the assembly. -/
namespace Conc

variable {n : Nat}

theorem stepDeq_G4 {r : Fin n} {s s' : St n} (h1 : G1 r s) (h : G4 r s) (v : Fin n) (hs : stepDeq s v = some s') : G4 r s' := by
  unfold stepDeq at hs
  split at hs
  · rename_i hg
    obtain ⟨va, hout⟩ := hg
    split at hs
    · cases hs
    · rename_i c rest hq
      simp only at hs
      have htail : hasStart rest = true → hasStart (s.q v) = true := by intro hh; rw [hq]; exact hasStart_tail hh
      -- helper
      have worker : isEnginePc (s.pc v) = false → G4 r (handleW { s with q := upd s.q v rest } v c) := by
        intro hk
        have hne : v ≠ r := h1.worker_ne_root va hk
        by_cases hcs : c = Cmd.stop
        · subst hcs
          exact h.stop_handler h1 v rest va hne hq hout rfl rfl rfl rfl rfl rfl rfl rfl rfl
        · by_cases hca : ∃ d, c = Cmd.ack d
          · obtain ⟨d, hd⟩ := hca
            subst hd
            obtain ⟨hge, _, _⟩ := h1.ack_local rest [] va hq hout (by intro c; simp [pStop])
            have hin : inRound s v = true := by simp [inRound]; right; omega
            refine h.ack_step h1 v (s.pc v) rest _ (s.selfWait v) (s.childWait v - 1) va hout (fun _ => hin) rfl rfl rfl rfl rfl
              (by simp [handleW]) rfl rfl (by simp [handleW]) (by rw [hq, cStop_cons]; simp) (fun x => by rw [hq]; exact cAck_tail_le _ _ x) htail
              ?_ ?_ (fun e => e) (fun _ e => Or.inr ⟨e, rfl⟩) (fun _ e => e) (fun e => absurd e hne)
            · intro x; split
              · exact pStop_toParent s v _ (by simp) x
              · exact pStop_nil x
            · split
              · exact hasPStart_toParent s v _ rfl
              · rfl
          · exact handleW_neutral_G4 h1 h v c rest va hne hq hout hcs (fun d e => hca ⟨d, e⟩)
      split at hs
      · rename_i hpc; cases hs; exact worker (by rw [hpc]; rfl)
      · rename_i j hpc; cases hs; exact worker (by rw [hpc]; rfl)
      · rename_i hpc; cases hs
        have hvr : v = r := h1.root_pc va (by rw [hpc]; rfl)
        subst hvr
        obtain ⟨g1, g2⟩ := h1.root_head hq
        have hnr : inRound s v = false := h1.root_not_inRound (by rw [hpc]; rfl)
        refine h.neutral v (s.pc v) rest (s.out v) (s.jobId v) rfl rfl rfl rfl rfl rfl (by simp) (by simp) (by simp)
          (by rw [hq, cStop_cons]; simp [g1]) (fun d => by rw [hq, cAck_cons]; simp [g2 hnr d]) (fun _ => rfl) (fun _ _ => rfl)
          (fun hne => absurd rfl hne) (fun hne => absurd rfl hne) (fun hne => absurd rfl hne) (fun hh => by unfold actR at hh ⊢; exact hh)
      · rename_i hpc; cases hs
        have hvr : v = r := h1.root_pc va (by rw [hpc]; rfl)
        subst hvr
        obtain ⟨g1, _⟩ := h1.root_head hq
        have hRf : actR s v = true → False := by intro hh; unfold actR at hh; rw [hpc] at hh; cases hh
        cases c with
        | ack src =>
          simp only [handleE]
          refine h.ack_step h1 v (s.pc v) rest (s.out v) (s.selfWait v) (s.childWait v - 1) va hout (fun hne => absurd rfl hne) rfl rfl rfl rfl
            (by simp) (by simp) rfl rfl (by simp) (by rw [hq, cStop_cons]; simp) (fun x => by rw [hq]; exact cAck_tail_le _ _ x) htail
            (by intro x; rw [hout]; exact pStop_nil x) (by rw [hout]; rfl) (fun e => e) (fun hne => absurd rfl hne) (fun hne => absurd rfl hne)
            (fun _ hh => absurd hh hRf)
        | stop => exact absurd rfl g1
        | init | start _ _ | quit | report _ _ _ | quitAck _ =>
          simp only [handleE]
          refine h.neutral v (s.pc v) rest (s.out v) (s.jobId v) rfl rfl rfl rfl rfl rfl (by simp) (by simp) (by simp)
            (by rw [hq, cStop_cons]; simp) (fun d => by rw [hq, cAck_cons]; simp) (fun _ => rfl) (fun _ _ => rfl)
            (fun hne => absurd rfl hne) (fun hne => absurd rfl hne) (fun hne => absurd rfl hne) (fun hh => by unfold actR at hh ⊢; exact hh)
      · rename_i hpc; cases hs
        have hvr : v = r := h1.root_pc va (by rw [hpc]; rfl)
        subst hvr
        obtain ⟨g1, g2⟩ := h1.root_head hq
        have hnr : inRound s v = false := h1.root_not_inRound (by rw [hpc]; rfl)
        have key : ∀ s'' : St n, s''.alive = s.alive → s''.parent = s.parent → s''.gen = s.gen → s''.selfWait = s.selfWait →
            s''.childWait = s.childWait → s''.q = upd s.q v rest → s''.out = s.out → s''.jobId = s.jobId → s''.pc = s.pc → G4 v s'' := by
          intro s'' a1 a2 a3 a4 a5 a6 a7 a8 a9
          refine h.neutral v (s.pc v) rest (s.out v) (s.jobId v) a1 a2 a3 a4 a5 a6 (by rw [a7]; simp) (by rw [a8]; simp) (by rw [a9]; simp)
            (by rw [hq, cStop_cons]; simp [g1]) (fun d => by rw [hq, cAck_cons]; simp [g2 hnr d]) (fun _ => rfl) (fun _ _ => rfl)
            (fun hne => absurd rfl hne) (fun hne => absurd rfl hne) (fun hne => absurd rfl hne) (fun hh => by unfold actR at hh ⊢; rw [a9]; exact hh)
        cases c <;> exact key _ rfl rfl rfl rfl rfl rfl rfl rfl rfl
      · cases hs
  · cases hs

theorem stepAckSelf_G4 {r : Fin n} {s s' : St n} (h1 : G1 r s) (h : G4 r s) (v : Fin n) (hs : stepAckSelf s v = some s') : G4 r s' := by
  unfold stepAckSelf at hs
  split at hs
  · rename_i hg
    obtain ⟨va, hout⟩ := hg
    split at hs
    · rename_i hpc
      have hne : v ≠ r := h1.worker_ne_root va (by rw [hpc]; rfl)
      split at hs
      · rename_i hsw; cases hs
        have hin : inRound s v = true := by simp [inRound, hsw]
        refine h.ack_step h1 v .wait (s.q v) _ false (s.childWait v) va hout (fun _ => hin) rfl rfl rfl (by simp) rfl rfl (by simp) rfl rfl
          rfl (fun _ => Nat.le_refl _) (fun e => e) ?_ ?_ (by intro e; cases e) (fun _ _ => Or.inl rfl) (by intro _ e; cases e) (fun e => absurd e hne)
        · intro x; split
          · exact pStop_toParent s v _ (by simp) x
          · exact pStop_nil x
        · split
          · exact hasPStart_toParent s v _ rfl
          · rfl
      · cases hs
        exact h.helper_move v va hne .wait (s.jobId v) rfl rfl rfl rfl rfl rfl rfl (by simp) rfl (Or.inr rfl) (by intro e; cases e)
    · rename_i hpc; cases hs
      have hvr : v = r := h1.root_pc va (by rw [hpc]; rfl)
      subst hvr
      refine h.ack_step h1 v .ecollect (s.q v) (s.out v) false (s.childWait v) va hout (fun hne => absurd rfl hne) rfl rfl rfl (by simp) (by simp) rfl (by simp) rfl rfl
        rfl (fun _ => Nat.le_refl _) (fun e => e) (by intro x; rw [hout]; exact pStop_nil x) (by rw [hout]; rfl) (by intro e; cases e)
        (fun hne => absurd rfl hne) (fun hne => absurd rfl hne) ?_
      intro _ hh; unfold actR at hh; rw [hpc] at hh; cases hh
    · cases hs
  · cases hs

theorem stepEStopSend_G4 {r : Fin n} {s s' : St n} (h1 : G1 r s) (h : G4 r s) (hs : stepE r s .eStopSend = some s') : G4 r s' := by
  simp only [stepE] at hs
  split at hs
  · rename_i hg; cases hs
    have hnr : inRound s r = false := h1.root_not_inRound (by rw [hg.2]; rfl)
    exact h.root_stop h1 hnr hg.1 rfl rfl rfl rfl rfl rfl rfl rfl rfl
  · cases hs

/-- performing a pending enqueue leaves the STOP / ack traffic on every edge unchanged (it only moves it
    from "pending" to "queued"; the purge never removes a STOP) -/
theorem send_parts {r : Fin n} {s : St n} (h : G1 r s) (v t : Fin n) (c : Cmd n) (va : s.alive v = true)
    (hmo : Out.enq t c ∈ s.out v) (p d : Fin n) (hc : isChild s p d = true) :
    cStop (pushCmd (s.q t) c) = (if c.isPurger then 0 else cStop (s.q t)) + (if c = Cmd.stop then 1 else 0) →
    stopIn { s with q := upd s.q t (pushCmd (s.q t) c), out := upd s.out v ((s.out v).erase (Out.enq t c)) } p d = stopIn s p d ∧
    ackIn { s with q := upd s.q t (pushCmd (s.q t) c), out := upd s.out v ((s.out v).erase (Out.enq t c)) } p d = ackIn s p d := by
  intro _
  have hok := h.outOk v _ va hmo
  have hA : ∀ d, cStop (upd s.q t (pushCmd (s.q t) c) d) = if d = t then (if c.isPurger then 0 else cStop (s.q t)) + (if c = Cmd.stop then 1 else 0) else cStop (s.q d) := by
    intro d
    by_cases hdt : d = t
    · subst hdt; rw [upd_same, cStop_push]; simp
    · rw [upd_other _ _ _ _ hdt]; simp [hdt]
  have hB : ∀ p d, pStop (upd s.out v ((s.out v).erase (Out.enq t c)) p) d = pStop (s.out p) d - (if p = v ∧ t = d ∧ c = Cmd.stop then 1 else 0) := by
    intro p d
    by_cases hpv : p = v
    · subst hpv; rw [upd_same, pStop_erase]
      by_cases hx : Out.enq t c = Out.enq d Cmd.stop
      · cases hx; simp
      · have : ¬ (t = d ∧ c = Cmd.stop) := by rintro ⟨e1, e2⟩; subst e1; subst e2; exact hx rfl
        simp [hx, this]
    · rw [upd_other _ _ _ _ hpv]; simp [hpv]
  have hC : ∀ p d, cAck (upd s.q t (pushCmd (s.q t) c) p) d = cAck (s.q p) d + (if p = t ∧ c = Cmd.ack d then 1 else 0) := by
    intro p d
    by_cases hpt : p = t
    · subst hpt; rw [upd_same, cAck_push]; simp
    · rw [upd_other _ _ _ _ hpt]; simp [hpt]
  have hD : ∀ p d, pAck (upd s.out v ((s.out v).erase (Out.enq t c)) d) p d = pAck (s.out d) p d - (if d = v ∧ t = p ∧ c = Cmd.ack d then 1 else 0) := by
    intro p d
    by_cases hdv : d = v
    · subst hdv; rw [upd_same, pAck_erase]
      by_cases hx : Out.enq t c = Out.enq p (Cmd.ack d)
      · cases hx; simp
      · have : ¬ (t = p ∧ c = Cmd.ack d) := by rintro ⟨e1, e2⟩; subst e1; subst e2; exact hx rfl
        simp [hx, this]
    · rw [upd_other _ _ _ _ hdv]; simp [hdv]
  unfold stopIn ackIn
  show cStop (upd s.q t (pushCmd (s.q t) c) d) + pStop (upd s.out v ((s.out v).erase (Out.enq t c)) p) d = _ ∧
       cAck (upd s.q t (pushCmd (s.q t) c) p) d + pAck (upd s.out v ((s.out v).erase (Out.enq t c)) d) p d = _
  rw [hA, hB, hC, hD]
  rcases hok with ⟨hvt, hdown⟩ | ⟨hpar, hment⟩
  · have hnack : ∀ x, c ≠ Cmd.ack x := by intro x e; subst e; simp [Cmd.isDown] at hdown
    have hC0 : (if p = t ∧ c = Cmd.ack d then 1 else 0) = 0 := by simp [hnack d]
    have hD0 : (if d = v ∧ t = p ∧ c = Cmd.ack d then 1 else 0) = 0 := by simp [hnack d]
    rw [hC0, hD0]
    refine ⟨?_, by omega⟩
    by_cases hdt : d = t
    · subst hdt
      have hpv : p = v := by
        have e1 := ((isChild_iff s p d).1 hc).2
        have e2 := ((isChild_iff s v d).1 hvt).2
        rw [e1] at e2; cases e2; rfl
      subst hpv
      have hle := h.le1 p d hc
      unfold debt at hle
      cases c with
      | stop =>
        have := pStop_pos_of_mem hmo
        simp [Cmd.isPurger]; omega
      | start e j =>
        have hidle := h.start_sender_idle va (hasPStart_of_mem hmo rfl)
        have := (h.idle_children hidle hc).1
        simp [Cmd.isPurger, this]
      | init => simp [Cmd.isPurger]
      | quit => simp [Cmd.isPurger]
      | report _ _ _ => simp [Cmd.isDown] at hdown
      | ack _ => simp [Cmd.isDown] at hdown
      | quitAck _ => simp [Cmd.isDown] at hdown
    · have : ¬ (p = v ∧ t = d ∧ c = Cmd.stop) := by rintro ⟨_, e, _⟩; exact hdt e.symm
      simp [hdt, this]
  · have hnp : c.isPurger = false := by cases c <;> simp [mentions] at hment <;> rfl
    have hns : c ≠ Cmd.stop := by intro e; subst e; simp [mentions] at hment
    have hB0 : (if p = v ∧ t = d ∧ c = Cmd.stop then 1 else 0) = 0 := by simp [hns]
    have hA0 : (if d = t then (if c.isPurger then 0 else cStop (s.q t)) + (if c = Cmd.stop then 1 else 0) else cStop (s.q d)) = cStop (s.q d) := by
      by_cases hdt : d = t
      · subst hdt; simp [hnp, hns]
      · simp [hdt]
    rw [hA0, hB0]
    refine ⟨by omega, ?_⟩
    by_cases hca : c = Cmd.ack v
    · subst hca
      by_cases hcond : p = t ∧ d = v
      · obtain ⟨e1, e2⟩ := hcond
        subst e1; subst e2
        have := pAck_pos_of_mem hmo
        simp; omega
      · have c1 : ¬ (p = t ∧ Cmd.ack v = Cmd.ack d) := by
          rintro ⟨e1, e2⟩; cases e2; exact hcond ⟨e1, rfl⟩
        have c2 : ¬ (d = v ∧ t = p ∧ Cmd.ack v = Cmd.ack d) := by
          rintro ⟨e1, e2, _⟩; exact hcond ⟨e2.symm, e1⟩
        rw [if_neg c1, if_neg c2]; omega
    · have c1 : ¬ (p = t ∧ c = Cmd.ack d) := by
        rintro ⟨_, e2⟩; subst e2
        simp [mentions] at hment; subst hment; exact hca rfl
      have c2 : ¬ (d = v ∧ t = p ∧ c = Cmd.ack d) := by
        rintro ⟨e1, _, e2⟩; subst e1; exact hca e2
      simp [c1, c2]

theorem stepSend_G4 {r : Fin n} {s s' : St n} (h1 : G1 r s) (h : G4 r s) (v : Fin n) (o : Out n) (hs : stepSend s v o = some s') : G4 r s' := by
  unfold stepSend at hs
  split at hs
  · rename_i hg
    obtain ⟨va, hmo⟩ := hg
    cases hs
    cases o with
    | notify t =>
      refine h.neutral v (s.pc v) (s.q v) ((s.out v).erase (Out.notify t)) (s.jobId v) rfl rfl rfl rfl rfl (by simp [applyOut]) (by simp [applyOut])
        (by simp [applyOut]) (by simp [applyOut]) rfl (fun _ => rfl) ?_ ?_ (fun _ _ => Or.inr rfl) (fun _ e => Or.inl e) ?_ ?_
      · intro d; rw [pStop_erase]; simp
      · intro p d; rw [pAck_erase]; simp
      · intro _ hh; left
        apply act_of_parts hh
        · intro e; exact Or.inl e
        · intro e; exact Or.inr (Or.inl e)
        · intro e; exact Or.inr (Or.inr (Or.inl e))
        · intro e; exact Or.inr (Or.inr (Or.inr (hasPStart_erase e)))
      · intro hh; unfold actR at hh ⊢; exact hh
    | enq t c =>
      have hok := h1.outOk v _ va hmo
      refine h.frame rfl rfl rfl ?_ ?_ (fun _ _ => rfl) (fun _ _ _ => rfl) (fun _ _ _ _ => Or.inr rfl) (fun _ _ _ e => Or.inl e) ?_ (fun hh => by unfold actR at hh ⊢; exact hh)
      · intro p d hc; exact (send_parts h1 v t c va hmo p d hc (cStop_push _ _)).1
      · intro p d hc hh
        have := (send_parts h1 v t c va hmo p d hc (cStop_push _ _)).2
        show 0 < ackIn s p d
        have e : ackIn (applyOut { s with out := upd s.out v ((s.out v).erase (Out.enq t c)) } (Out.enq t c)) p d =
                 ackIn { s with q := upd s.q t (pushCmd (s.q t) c), out := upd s.out v ((s.out v).erase (Out.enq t c)) } p d := rfl
        rw [e, this] at hh; exact hh
      · intro w hw hwr hact
        unfold act at hact
        simp only [applyOut, Bool.or_eq_true] at hact
        have old_act : ∀ k : (s.jobId w).isSome = true ∨ isSearch (s.pc w) = true ∨ hasStart (s.q w) = true ∨ hasPStart (s.out w) = true,
            act s w = true := by
          intro k; unfold act; simp only [Bool.or_eq_true]
          rcases k with k | k | k | k
          · exact Or.inl (Or.inl (Or.inl k))
          · exact Or.inl (Or.inl (Or.inr k))
          · exact Or.inl (Or.inr k)
          · exact Or.inr k
        rcases hact with ((hh | hh) | hh) | hh
        · exact Or.inl (old_act (Or.inl hh))
        · exact Or.inl (old_act (Or.inr (Or.inl hh)))
        · by_cases hwt : w = t
          · subst hwt
            rw [upd_same] at hh
            rcases hasStart_pushCmd hh with k | k
            · exact Or.inl (old_act (Or.inr (Or.inr (Or.inl k))))
            · -- a START arrives at w: its sender is active and outside a round
              have hps : hasPStart (s.out v) = true := hasPStart_of_mem hmo (by simpa [Out.isStart] using k)
              have hidle := h1.start_sender_idle va hps
              rcases hok with ⟨hvt, _⟩ | ⟨_, hment⟩
              · by_cases hvr : v = r
                · subst hvr
                  right; right; left
                  show actPc (s.pc v) = true
                  rw [h1.rootStart hps]; rfl
                · have hav : act s v = true := by
                    unfold act; rw [hps]; simp
                  rcases h.a v va hvr hav with e | e | e
                  · rw [hidle] at e; cases e
                  · exact Or.inr (Or.inr (Or.inl e))
                  · right; right; right
                    have := h.gM v w hvt
                    have := h.gN2 w hw
                    omega
              · cases c <;> simp [mentions] at hment <;> simp [Cmd.isStart] at k
          · rw [upd_other _ _ _ _ hwt] at hh
            exact Or.inl (old_act (Or.inr (Or.inr (Or.inl hh))))
        · by_cases hwv : w = v
          · subst hwv; rw [upd_same] at hh
            exact Or.inl (old_act (Or.inr (Or.inr (Or.inr (hasPStart_erase hh)))))
          · rw [upd_other _ _ _ _ hwv] at hh
            exact Or.inl (old_act (Or.inr (Or.inr (Or.inr hh))))
  · cases hs

theorem G4.spawn {r : Fin n} {s s' : St n} (h : G4 r s) (v p0 : Fin n)
    (hav : s.alive v = false) (hap : s.alive p0 = true) (hvr : v ≠ r) (hvp : v ≠ p0) (hqv : s.q v = []) (hov : s.out v = [])
    (hqp : s.q p0 = []) (hop : s.out p0 = [])
    (hnoch : (List.finRange n).all (fun c => !(s.parent c == some v && s.alive c)) = true)
    (ha : s'.alive = upd s.alive v true) (hp : s'.parent = upd s.parent v (some p0))
    (hg : s'.gen = upd s.gen v (s.gen p0)) (hq : s'.q = s.q) (ho : s'.out = s.out)
    (h3 : s'.selfWait = upd s.selfWait v false) (h4 : s'.childWait = upd s.childWait v 0)
    (hj : s'.jobId = upd s.jobId v none) (hpc : s'.pc = upd s.pc v .wait) : G4 r s' := by
    have hrv : r ≠ v := fun e => hvr e.symm
    have hpv : p0 ≠ v := fun e => hvp e.symm
    have hnoch' : ∀ c, s.parent c = some v → s.alive c = false := by
      intro c hc
      have := List.all_eq_true.1 hnoch c (List.mem_finRange c)
      simp [hc] at this
      exact this
    have hicv : ∀ a, isChild s' a v = true → a = p0 := by
      intro a hc
      have := ((isChild_iff s' a v).1 hc).2
      rw [hp, upd_same] at this; cases this; rfl
    have hico : ∀ a b, b ≠ v → isChild s' a b = isChild s a b := by
      intro a b hb; simp [isChild, ha, hp, hb]
    have hnov : ∀ b, b ≠ v → isChild s v b = false := by
      intro b _
      cases hb : isChild s v b
      · rfl
      · have hh := (isChild_iff s v b).1 hb
        rw [hnoch' b hh.2] at hh; cases hh.1
    have hgr : s'.gen r = s.gen r := by rw [hg, upd_other _ _ _ _ hrv]
    have hgv : s'.gen v = s.gen p0 := by rw [hg, upd_same]
    have hgo : ∀ w, w ≠ v → s'.gen w = s.gen w := by intro w hw; rw [hg, upd_other _ _ _ _ hw]
    have hiro : ∀ w, w ≠ v → inRound s' w = inRound s w := by
      intro w hw; simp [inRound, h3, h4, hw]
    have hirv : inRound s' v = false := by simp [inRound, h3, h4]
    have hsi : ∀ a b, stopIn s' a b = stopIn s a b := by intro a b; unfold stopIn; rw [hq, ho]
    have hai : ∀ a b, ackIn s' a b = ackIn s a b := by intro a b; unfold ackIn; rw [hq, ho]
    have hsiv : stopIn s p0 v = 0 := by unfold stopIn; rw [hqv, hop]; simp [cStop, pStop]
    have haiv : ackIn s p0 v = 0 := by unfold ackIn; rw [hqp, hov]; simp [cAck, pAck]
    have halive : ∀ w, w ≠ v → s'.alive w = true → s.alive w = true := by
      intro w hw hh; rw [ha, upd_other _ _ _ _ hw] at hh; exact hh
    have hgp0N : s.gen p0 ≤ s.gen r := h.gN p0 hap
    have hgp0N2 : s.gen r ≤ s.gen p0 + 1 := h.gN2 p0 hap
    refine ⟨?_, ?_, ?_, ?_, ?_, ?_, ?_, ?_, ?_, ?_⟩
    · intro w hw; rw [hgr]
      by_cases hwv : w = v
      · subst hwv; rw [hgv]; exact hgp0N
      · rw [hgo w hwv]; exact h.gN w (halive w hwv hw)
    · intro w hw; rw [hgr]
      by_cases hwv : w = v
      · subst hwv; rw [hgv]; exact hgp0N2
      · rw [hgo w hwv]; exact h.gN2 w (halive w hwv hw)
    · intro a b hc
      by_cases hbv : b = v
      · subst hbv
        have := hicv a hc; subst this
        rw [hgv, hgo a hpv]; exact Nat.le_refl _
      · rw [hico a b hbv] at hc
        have hav' : a ≠ v := by intro e; subst e; rw [hnov b hbv] at hc; cases hc
        rw [hgo b hbv, hgo a hav']; exact h.gM a b hc
    · intro a b hc hst
      rw [hsi] at hst
      by_cases hbv : b = v
      · subst hbv
        have := hicv a hc; subst this
        rw [hsiv] at hst; omega
      · rw [hico a b hbv] at hc
        have hav' : a ≠ v := by intro e; subst e; rw [hnov b hbv] at hc; cases hc
        rw [hgo b hbv, hgo a hav', hgr]; exact h.gX a b hc hst
    · intro a b hc ho'
      rw [hgr] at ho' ⊢
      by_cases hbv : b = v
      · subst hbv
        have := hicv a hc; subst this
        right; rw [hgo a hpv]; rw [hgv] at ho'; exact ho'
      · rw [hico a b hbv] at hc
        have hav' : a ≠ v := by intro e; subst e; rw [hnov b hbv] at hc; cases hc
        rw [hgo b hbv] at ho'
        rw [hsi, hgo a hav']; exact h.gW a b hc ho'
    · intro w hw hwr hr
      by_cases hwv : w = v
      · subst hwv; rw [hirv] at hr; cases hr
      · rw [hiro w hwv] at hr; rw [hgo w hwv, hgr]; exact h.gZ w (halive w hwv hw) hwr hr
    · intro a b hc hak
      rw [hai] at hak
      by_cases hbv : b = v
      · subst hbv
        have := hicv a hc; subst this
        rw [haiv] at hak; omega
      · rw [hico a b hbv] at hc
        rw [hgo b hbv, hgr]; exact h.gZ2 a b hc hak
    · intro w hw hwr hr
      by_cases hwv : w = v
      · subst hwv; rw [hirv] at hr; cases hr
      · rw [hiro w hwv] at hr; rw [hj, upd_other _ _ _ _ hwv]; exact h.j1 w (halive w hwv hw) hwr hr
    · intro w hw hwr hr hsw
      by_cases hwv : w = v
      · subst hwv; rw [hirv] at hr; cases hr
      · rw [hiro w hwv] at hr; rw [h3, upd_other _ _ _ _ hwv] at hsw
        rw [hpc, upd_other _ _ _ _ hwv]; exact h.j2 w (halive w hwv hw) hwr hr hsw
    · intro w hw hwr hact
      by_cases hwv : w = v
      · subst hwv
        unfold act at hact
        rw [hj, hpc, hq, ho, upd_same, upd_same, hqv, hov] at hact
        simp [isSearch, hasStart, hasPStart] at hact
      · have : act s' w = act s w := act_upd_other hwv (by rw [hj, upd_other _ _ _ _ hwv]) (by rw [hpc, upd_other _ _ _ _ hwv]) (by rw [hq]) (by rw [ho])
        rw [this] at hact
        have hactR : actR s' r = actR s r := by unfold actR; rw [hpc, upd_other _ _ _ _ hrv]
        rw [hiro w hwv, hactR, hgo w hwv, hgr]; exact h.a w (halive w hwv hw) hwr hact

theorem stepSpawn_G4 {r : Fin n} {s s' : St n} (h : G4 r s) (v p0 : Fin n) (hs : stepSpawn r s v p0 = some s') : G4 r s' := by
  unfold stepSpawn at hs
  split at hs
  · rename_i hg
    obtain ⟨hav, hap, hvr, hvp, hqv, hov, _, hqp, hop, _, _, _, hnoch⟩ := hg
    cases hs
    exact h.spawn v p0 hav hap hvr hvp hqv hov hqp hop hnoch rfl rfl rfl rfl rfl rfl rfl rfl rfl
  · cases hs

theorem stepExit_G4 {r : Fin n} {s s' : St n} (h : G4 r s) (v : Fin n) (hs : stepExit r s v = some s') : G4 r s' := by
  unfold stepExit at hs
  split at hs
  · cases hs
    have halive : ∀ w, (upd s.alive v false) w = true → s.alive w = true := by
      intro w hw
      by_cases hwv : w = v
      · subst hwv; simp at hw
      · rw [upd_other _ _ _ _ hwv] at hw; exact hw
    have hic : ∀ a b, isChild ({ s with alive := upd s.alive v false } : St n) a b = true → isChild s a b = true := by
      intro a b hc
      have hh := (isChild_iff _ a b).1 hc
      exact (isChild_iff s a b).2 ⟨halive b hh.1, hh.2⟩
    exact ⟨fun w hw => h.gN w (halive w hw), fun w hw => h.gN2 w (halive w hw), fun a b hc => h.gM a b (hic a b hc),
      fun a b hc hst => h.gX a b (hic a b hc) hst, fun a b hc ho => h.gW a b (hic a b hc) ho,
      fun w hw hwr hr => h.gZ w (halive w hw) hwr hr, fun a b hc hak => h.gZ2 a b (hic a b hc) hak,
      fun w hw hwr hr => h.j1 w (halive w hw) hwr hr, fun w hw hwr hr hsw => h.j2 w (halive w hw) hwr hr hsw,
      fun w hw hwr hact => h.a w (halive w hw) hwr hact⟩
  · cases hs

theorem stepTend_G4 {r : Fin n} {s s' : St n} (h : G4 r s) (v : Fin n) (hs : stepTend r s v = some s') : G4 r s' := by
  unfold stepTend at hs
  split at hs
  · rename_i hg; cases hs
    exact h.helper_move v hg.1 hg.2.1 .gone (s.jobId v) rfl rfl rfl rfl rfl rfl rfl (by simp) rfl (Or.inr rfl) (by intro e; cases e)
  · cases hs

theorem init_G4 (r : Fin n) : G4 r (init r) := by
  have hch : ∀ a b, isChild (init r) a b = false := by intro a b; simp [isChild, init]
  refine ⟨?_, ?_, ?_, ?_, ?_, ?_, ?_, ?_, ?_, ?_⟩
  · intro v _; simp [init]
  · intro v _; simp [init]
  · intro p v hc; rw [hch] at hc; cases hc
  · intro p v hc; rw [hch] at hc; cases hc
  · intro p v hc; rw [hch] at hc; cases hc
  · intro v hv hne; simp [init] at hv; exact absurd hv hne
  · intro p v hc; rw [hch] at hc; cases hc
  · intro v hv hne; simp [init] at hv; exact absurd hv hne
  · intro v hv hne; simp [init] at hv; exact absurd hv hne
  · intro v hv hne; simp [init] at hv; exact absurd hv hne

theorem step_G4 {r : Fin n} {s s' : St n} (h1 : G1 r s) (h : G4 r s) (e : Ev n) (hs : step r s e = some s') : G4 r s' := by
  cases e with
  | waitRet v => exact stepWaitRet_G4 h1 h v hs
  | deq v => exact stepDeq_G4 h1 h v hs
  | pollEmpty v => exact stepPollEmpty_G4 h1 h v hs
  | send v o => exact stepSend_G4 h1 h v o hs
  | ackSelf v => exact stepAckSelf_G4 h1 h v hs
  | searchResult v => exact stepSearchResult_G4 h1 h v hs
  | searchLeave v m => exact stepSearchLeave_G4 h1 h v m hs
  | spawn v p => exact stepSpawn_G4 h v p hs
  | tend v => exact stepTend_G4 h v hs
  | exit v => exact stepExit_G4 h v hs
  | eRdPre x => exact stepERdPre_G4 h x hs
  | eRd x b => exact stepERd_G4 h x b hs
  | eOpts k => exact stepEOpts_G4 h k hs
  | eStopSend => exact stepEStopSend_G4 h1 h hs
  | eBegin => exact stepE_G4_easy h .eBegin (by simp) hs
  | eInit => exact stepE_G4_easy h .eInit (by simp) hs
  | eJobNext => exact stepE_G4_easy h .eJobNext (by simp) hs
  | eSearchDone => exact stepE_G4_easy h .eSearchDone (by simp) hs
  | eHoldDone => exact stepE_G4_easy h .eHoldDone (by simp) hs
  | eBest => exact stepE_G4_easy h .eBest (by simp) hs
  | eSearchEnd => exact stepE_G4_easy h .eSearchEnd (by simp) hs
  | eQuitSend => exact stepE_G4_easy h .eQuitSend (by simp) hs
  | pWr x b => exact stepP_G4 h (.pWr x b) hs
  | pWd x => exact stepP_G4 h (.pWd x) hs
  | pWaitStop => exact stepP_G4 h .pWaitStop hs
  | pWaitOpts => exact stepP_G4 h .pWaitOpts hs
  | pSetOpt => exact stepP_G4 h .pSetOpt hs
  | pNotify t => exact stepP_G4 h (.pNotify t) hs

theorem reach_G4 {r : Fin n} {s : St n} (h : Reach r s) : G4 r s := by
  induction h with
  | init => exact init_G4 r
  | step s s' e hr hs ih => exact step_G4 (reach_G1 hr) ih e hs

end Conc
