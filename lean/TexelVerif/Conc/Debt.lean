import TexelVerif.Conc.Model
/-! Stop / stop-ack accounting of the protocol model: the per-edge `debt`, sums over children,
    and the list lemmas used by the preservation proofs. -/
namespace Conc

variable {n : Nat}

/-- `v` is inside a stop round: `!hasStopAck()` -/
def inRound (s : St n) (v : Fin n) : Bool := s.selfWait v || decide (0 < s.childWait v)

def cStop (l : List (Cmd n)) : Nat := l.count Cmd.stop
def cAck (l : List (Cmd n)) (c : Fin n) : Nat := l.count (Cmd.ack c)
def pStop (l : List (Out n)) (c : Fin n) : Nat := l.count (Out.enq c Cmd.stop)
def pAck (l : List (Out n)) (p c : Fin n) : Nat := l.count (Out.enq p (Cmd.ack c))

/-- number of STOP_ACKs child `c` still owes its parent `p`: a STOP on its way to `c` (queued or about
    to be enqueued by `p`), `c` inside its round, or `c`'s ack on its way to `p`. -/
def debt (s : St n) (p c : Fin n) : Nat :=
  cStop (s.q c) + pStop (s.out p) c + (if inRound s c then 1 else 0) + cAck (s.q p) c + pAck (s.out c) p c

def sumAll (g : Fin n → Nat) : Nat := ((List.finRange n).map g).sum
def sumCh (s : St n) (p : Fin n) (f : Fin n → Nat) : Nat := sumAll (fun c => if isChild s p c then f c else 0)

/-! ### sums -/

theorem sumAll_congr (f g : Fin n → Nat) (h : ∀ c, f c = g c) : sumAll f = sumAll g := by
  have : f = g := funext h
  rw [this]

theorem sum_map_upd1 (f g : Fin n → Nat) (l : List (Fin n)) (c0 : Fin n) (hnd : l.Nodup) (hmem : c0 ∈ l)
    (hfg : ∀ c, c ≠ c0 → f c = g c) : (l.map f).sum + g c0 = (l.map g).sum + f c0 := by
  induction l with
  | nil => cases hmem
  | cons x l ih =>
    rw [List.nodup_cons] at hnd
    simp only [List.map_cons, List.sum_cons]
    by_cases hx : x = c0
    · subst hx
      have : (l.map f) = (l.map g) := by
        apply List.map_congr_left
        intro s hs; exact hfg s (fun e => hnd.1 (e ▸ hs))
      rw [this]; omega
    · have hm : c0 ∈ l := by
        rcases List.mem_cons.1 hmem with h | h
        · exact absurd h.symm hx
        · exact h
      have := ih hnd.2 hm
      rw [hfg x hx]; omega

/-- two functions that differ at most at `c0` -/
theorem sumAll_upd1 (f g : Fin n → Nat) (c0 : Fin n) (hfg : ∀ c, c ≠ c0 → f c = g c) :
    sumAll f + g c0 = sumAll g + f c0 :=
  sum_map_upd1 f g (List.finRange n) c0 (List.nodup_finRange n) (List.mem_finRange c0) hfg

theorem sumAll_zero (f : Fin n → Nat) (h : ∀ c, f c = 0) : sumAll f = 0 := by
  unfold sumAll
  have : ∀ l : List (Fin n), (l.map f).sum = 0 := by
    intro l
    induction l with
    | nil => rfl
    | cons x l ih => simp [h x, ih]
  exact this _

theorem sumAll_eq_zero (f : Fin n → Nat) (h : sumAll f = 0) (c : Fin n) : f c = 0 := by
  unfold sumAll at h
  have : ∀ l : List (Fin n), (l.map f).sum = 0 → c ∈ l → f c = 0 := by
    intro l
    induction l with
    | nil => intro _ hm; cases hm
    | cons x l ih =>
      intro hs hm
      simp only [List.map_cons, List.sum_cons] at hs
      rcases List.mem_cons.1 hm with e | hm
      · subst e; omega
      · exact ih (by omega) hm
  exact this _ h (List.mem_finRange c)

theorem sumAll_ge (f : Fin n → Nat) (c : Fin n) : f c ≤ sumAll f := by
  unfold sumAll
  have : ∀ l : List (Fin n), c ∈ l → f c ≤ (l.map f).sum := by
    intro l
    induction l with
    | nil => intro hm; cases hm
    | cons x l ih =>
      intro hm
      simp only [List.map_cons, List.sum_cons]
      rcases List.mem_cons.1 hm with e | hm
      · subst e; omega
      · have := ih hm; omega
  exact this _ (List.mem_finRange c)

theorem length_filter_eq_sum (p : Fin n → Bool) (l : List (Fin n)) :
    (l.filter p).length = (l.map (fun c => if p c then 1 else 0)).sum := by
  induction l with
  | nil => rfl
  | cons x l ih =>
    simp only [List.filter_cons, List.map_cons, List.sum_cons]
    by_cases h : p x = true
    · simp [h, ih]; omega
    · simp [h, ih]

theorem sumCh_congr (s s' : St n) (p : Fin n) (f g : Fin n → Nat)
    (hc : ∀ c, isChild s' p c = isChild s p c)
    (h : ∀ c, isChild s p c = true → f c = g c) : sumCh s p f = sumCh s' p g := by
  unfold sumCh
  apply sumAll_congr
  intro c
  rw [hc c]
  by_cases hcc : isChild s p c = true
  · simp [hcc, h c hcc]
  · simp [hcc]

theorem sumCh_one (s : St n) (p : Fin n) : sumCh s p (fun _ => 1) = nChildren s p := by
  unfold sumCh sumAll nChildren children
  rw [length_filter_eq_sum]

theorem sumCh_zero_iff (s : St n) (p : Fin n) (f : Fin n → Nat) (h : sumCh s p f = 0) (c : Fin n)
    (hc : isChild s p c = true) : f c = 0 := by
  have := sumAll_eq_zero _ h c
  simpa [hc] using this

theorem sumCh_ge (s : St n) (p : Fin n) (f : Fin n → Nat) (c : Fin n) (hc : isChild s p c = true) :
    f c ≤ sumCh s p f := by
  have := sumAll_ge (fun c => if isChild s p c then f c else 0) c
  unfold sumCh
  simpa [hc] using this

/-- changing the summand at one child `c0` of `p` -/
theorem sumCh_upd1 (s s' : St n) (p c0 : Fin n) (f g : Fin n → Nat)
    (hc : ∀ c, isChild s' p c = isChild s p c) (hc0 : isChild s p c0 = true)
    (hfg : ∀ c, c ≠ c0 → isChild s p c = true → f c = g c) : sumCh s p f + g c0 = sumCh s' p g + f c0 := by
  unfold sumCh
  have := sumAll_upd1 (fun c => if isChild s p c then f c else 0) (fun c => if isChild s' p c then g c else 0) c0
    (by
      intro c hne
      show (if isChild s p c then f c else 0) = (if isChild s' p c then g c else 0)
      rw [hc c]
      by_cases hcc : isChild s p c = true
      · simp [hcc, hfg c hne hcc]
      · simp [hcc])
  simpa [hc c0, hc0] using this

/-! ### queues -/

theorem cStop_purge (l : List (Cmd n)) : cStop (purge l) = 0 := by
  unfold cStop purge
  rw [List.count_eq_zero]
  intro h
  have := (List.mem_filter.1 h).2
  simp [Cmd.purgeable] at this

theorem cAck_purge (l : List (Cmd n)) (c : Fin n) : cAck (purge l) c = cAck l c := by
  unfold cAck purge
  exact List.count_filter (by simp [Cmd.purgeable])

theorem cAck_push (l : List (Cmd n)) (x : Cmd n) (c : Fin n) :
    cAck (pushCmd l x) c = cAck l c + (if x = Cmd.ack c then 1 else 0) := by
  unfold pushCmd
  by_cases hp : x.isPurger = true
  · have hx : x ≠ Cmd.ack c := by intro e; subst e; simp [Cmd.isPurger] at hp
    simp only [hp, if_true]
    unfold cAck
    rw [List.count_append]
    have := cAck_purge l c
    unfold cAck at this
    rw [this]
    simp [hx]
  · simp only [hp]
    unfold cAck
    rw [List.count_append]
    by_cases hx : x = Cmd.ack c
    · subst hx; simp
    · simp [hx]

theorem cStop_push (l : List (Cmd n)) (x : Cmd n) :
    cStop (pushCmd l x) = (if x.isPurger then 0 else cStop l) + (if x = Cmd.stop then 1 else 0) := by
  unfold pushCmd
  by_cases hp : x.isPurger = true
  · simp only [hp, if_true]
    unfold cStop
    rw [List.count_append]
    have := cStop_purge l
    unfold cStop at this
    rw [this]
    by_cases hx : x = Cmd.stop
    · subst hx; simp
    · simp [hx]
  · have hx : x ≠ Cmd.stop := by intro e; subst e; simp [Cmd.isPurger] at hp
    simp only [hp]
    unfold cStop
    rw [List.count_append]
    simp [hx]

theorem cStop_cons (x : Cmd n) (l : List (Cmd n)) : cStop (x :: l) = cStop l + (if x = Cmd.stop then 1 else 0) := by
  unfold cStop
  rw [List.count_cons]
  by_cases hx : x = Cmd.stop
  · subst hx; simp
  · simp [hx]

theorem cAck_cons (x : Cmd n) (l : List (Cmd n)) (c : Fin n) :
    cAck (x :: l) c = cAck l c + (if x = Cmd.ack c then 1 else 0) := by
  unfold cAck
  rw [List.count_cons]
  by_cases hx : x = Cmd.ack c
  · subst hx; simp
  · simp [hx]

/-! ### pending actions -/

theorem pStop_erase (l : List (Out n)) (o : Out n) (c : Fin n) :
    pStop (l.erase o) c = pStop l c - (if o = Out.enq c Cmd.stop then 1 else 0) := by
  unfold pStop
  by_cases h : o = Out.enq c Cmd.stop
  · subst h; simp [List.count_erase_self]
  · rw [List.count_erase_of_ne (Ne.symm h)]; simp [h]

theorem pAck_erase (l : List (Out n)) (o : Out n) (p c : Fin n) :
    pAck (l.erase o) p c = pAck l p c - (if o = Out.enq p (Cmd.ack c) then 1 else 0) := by
  unfold pAck
  by_cases h : o = Out.enq p (Cmd.ack c)
  · subst h; simp [List.count_erase_self]
  · rw [List.count_erase_of_ne (Ne.symm h)]; simp [h]

theorem children_nodup (s : St n) (p : Fin n) : (children s p).Nodup := by
  unfold children
  exact List.Nodup.sublist List.filter_sublist (List.nodup_finRange n)

theorem mem_children (s : St n) (p c : Fin n) : c ∈ children s p ↔ isChild s p c = true := by
  unfold children
  simp [List.mem_filter, List.mem_finRange]

theorem count_map_enq (l : List (Fin n)) (hnd : l.Nodup) (x : Cmd n) (c : Fin n) (y : Cmd n) :
    (l.map (fun t => Out.enq t x)).count (Out.enq c y) = if x = y ∧ c ∈ l then 1 else 0 := by
  induction l with
  | nil => simp
  | cons a l ih =>
    rw [List.nodup_cons] at hnd
    simp only [List.map_cons, List.count_cons, ih hnd.2]
    by_cases hxy : x = y
    · subst hxy
      by_cases hac : a = c
      · subst hac; simp [hnd.1]
      · have : c ≠ a := fun e => hac e.symm
        simp [hac, this]
    · simp [hxy]

theorem pStop_bcast (s : St n) (p : Fin n) (x : Cmd n) (c : Fin n) :
    pStop (bcast s p x) c = if x = Cmd.stop ∧ isChild s p c = true then 1 else 0 := by
  unfold pStop bcast
  rw [count_map_enq _ (children_nodup s p)]
  simp only [mem_children]

theorem pAck_bcast (s : St n) (p : Fin n) (x : Cmd n) (q c : Fin n) (hx : ∀ d, x ≠ Cmd.ack d) :
    pAck (bcast s p x) q c = 0 := by
  unfold pAck bcast
  rw [count_map_enq _ (children_nodup s p)]
  simp [hx c]

theorem mem_bcast (s : St n) (p : Fin n) (x : Cmd n) (o : Out n) :
    o ∈ bcast s p x ↔ ∃ c, isChild s p c = true ∧ o = Out.enq c x := by
  unfold bcast
  simp only [List.mem_map, mem_children]
  constructor
  · rintro ⟨c, hc, e⟩; exact ⟨c, hc, e.symm⟩
  · rintro ⟨c, hc, e⟩; exact ⟨c, hc, e.symm⟩

end Conc
