import TexelVerif.Conc.InvG6
/-! Every step preserves `G6` (given `G1` and `G4`). -/
namespace Conc

variable {n : Nat}

/-- when the root is neither searching nor in a round nothing tagged with an epoch exists -/
theorem G6.idle_clean {r : Fin n} {s : St n} (h1 : G1 r s) (h4 : G4 r s) (h : G6 r s) (hnr : inRound s r = false) (hna : actR s r = false) :
    (∀ v e j, s.alive v = true → Cmd.start e j ∉ s.q v) ∧
    (∀ v t e j, s.alive v = true → Out.enq t (Cmd.start e j) ∉ s.out v) ∧
    (∀ v src e j, s.alive v = true → Cmd.report src e j ∉ s.q v) ∧
    (∀ v t src e j, s.alive v = true → Out.enq t (Cmd.report src e j) ∉ s.out v) ∧
    (∀ v, s.alive v = true → v ≠ r → s.jobId v = none) := by
  have hidle := fun v hv hvr => h4.idle h1 hnr hna v hv hvr
  have hsplit : ∀ v, s.alive v = true → v ≠ r →
      (s.jobId v).isSome = false ∧ hasStart (s.q v) = false ∧ hasPStart (s.out v) = false := by
    intro v hv hvr
    have := hidle v hv hvr
    unfold act at this
    simp only [Bool.or_eq_false_iff] at this
    exact ⟨this.1.1.1, this.1.2, this.2⟩
  refine ⟨?_, ?_, ?_, ?_, ?_⟩
  · intro v e j hv hm
    by_cases hvr : v = r
    · subst hvr; exact h1.qOk v _ hv hm rfl
    · have := (hsplit v hv hvr).2.1
      unfold hasStart at this
      rw [List.any_eq_false] at this
      exact this _ hm rfl
  · intro v t e j hv hm
    have hps : hasPStart (s.out v) = true := hasPStart_of_mem hm rfl
    by_cases hvr : v = r
    · subst hvr
      have := h1.rootStart hps
      unfold actR at hna; rw [this] at hna; cases hna
    · rw [(hsplit v hv hvr).2.2] at hps; cases hps
  · intro v src e j hv hm
    have hc : isChild s v src = true := h1.qOk v _ hv hm
    have hsa : s.alive src = true := ((isChild_iff s v src).1 hc).1
    have hq := h1.quiescent_edge hnr hc
    have hnew := h4.all_new h1 hnr src hsa
    rcases h.rp v src hc (hasReportFrom_of_mem hm) with a | a | a | a | a
    · rw [hna] at a; cases a
    · omega
    · unfold stopIn at a; omega
    · rw [hq.2.2.1] at a; cases a
    · unfold ackIn at a; omega
  · intro v t src e j hv hm
    by_cases hvr : v = r
    · subst hvr
      have hok := h1.outOk v _ hv hm
      rcases hok with ⟨_, hd⟩ | ⟨hp, _⟩
      · simp [Cmd.isDown] at hd
      · rw [h1.rootPar] at hp; cases hp
    · obtain ⟨a1, _⟩ := h.pr v hv hvr (hasPReport_of_mem hm)
      rcases a1 with a | a
      · rw [hna] at a; cases a
      · have := h4.all_new h1 hnr v hv; omega
  · intro v hv hvr
    have := (hsplit v hv hvr).1
    cases hj : s.jobId v
    · rfl
    · rw [hj] at this; cases this

/-- the protocol thread starts a new search: the epoch is incremented while nothing carries an epoch -/
theorem G6.epoch_bump {r : Fin n} {s s' : St n} (h1 : G1 r s) (h3 : G3 r s) (h4 : G4 r s) (h : G6 r s)
    (hinact : s.search.cur = false ∧ s.search.nxt = none)
    (ha : s'.alive = s.alive) (hp : s'.parent = s.parent) (hg : s'.gen = s.gen)
    (hq : s'.q = s.q) (ho : s'.out = s.out) (hs3 : s'.selfWait = s.selfWait) (hs4 : s'.childWait = s.childWait)
    (hj : s'.jobId = s.jobId) (hpc : s'.pc = s.pc) : G6 r s' := by
  have hns : searchPc (s.pc r) = false := by
    cases hh : searchPc (s.pc r)
    · rfl
    · have := h3.s1 hh; simp [Reg.active, hinact.1, hinact.2] at this
  have hnr : inRound s r = false := by
    apply h1.root_not_inRound
    cases hh : roundPc (s.pc r)
    · rfl
    · have : searchPc (s.pc r) = true := by cases hp' : s.pc r <;> simp [hp', roundPc] at hh <;> rfl
      rw [hns] at this; cases this
  have hna : actR s r = false := by
    unfold actR
    cases hh : actPc (s.pc r)
    · rfl
    · have : searchPc (s.pc r) = true := by
        cases hp' : s.pc r <;> simp [hp', actPc] at hh <;> first | rfl | (subst hh; rfl)
      rw [hns] at this; cases this
  obtain ⟨k1, k2, k3, k4, k5⟩ := h.idle_clean h1 h4 hnr hna
  have hic := isChild_congr ha hp
  have hsi : ∀ p v, stopIn s' p v = stopIn s p v := by intro p v; unfold stopIn; rw [hq, ho]
  have hai : ∀ p v, ackIn s' p v = ackIn s p v := by intro p v; unfold ackIn; rw [hq, ho]
  have hir := inRound_congr hs3 hs4
  have hR : actR s' r = actR s r := by unfold actR; rw [hpc]
  refine ⟨?_, ?_, ?_, ?_, ?_, ?_, ?_, ?_⟩
  · intro p hpa; rw [ha] at hpa; rw [hq]; exact h.ord p hpa
  · intro v hv hne hpr; rw [ha] at hv; rw [ho] at hpr
    obtain ⟨a1, a2⟩ := h.pr v hv hne hpr
    exact ⟨by rw [hR, hg]; exact a1, fun p hc => by rw [hic] at hc; rw [hai]; exact a2 p hc⟩
  · intro p src hc hrf; rw [hic] at hc; rw [hq] at hrf
    rw [hR, hg, hsi, hai, hir]; exact h.rp p src hc hrf
  · intro v e j hv hm; rw [ha] at hv; rw [hq] at hm; exact absurd hm (k1 v e j hv)
  · intro v t e j hv hm; rw [ha] at hv; rw [ho] at hm; exact absurd hm (k2 v t e j hv)
  · intro v src e j hv hm; rw [ha] at hv; rw [hq] at hm; exact absurd hm (k3 v src e j hv)
  · intro v t src e j hv hm; rw [ha] at hv; rw [ho] at hm; exact absurd hm (k4 v t src e j hv)
  · intro v hv hne hjn; rw [ha] at hv; rw [hj] at hjn; exact absurd (k5 v hv hne) hjn

/-- nothing `G6` reads changes (the root's phase may only move forward inside the active phase) -/
theorem G6.same {r : Fin n} {s s' : St n} (h : G6 r s)
    (ha : s'.alive = s.alive) (hp : s'.parent = s.parent) (hg : s'.gen = s.gen) (hep : s'.epoch = s.epoch)
    (hq : s'.q = s.q) (ho : s'.out = s.out) (h3 : s'.selfWait = s.selfWait) (h4 : s'.childWait = s.childWait)
    (hj : s'.jobId = s.jobId) (hje : s'.jobEp = s.jobEp) (hR : actR s r = true → actR s' r = true) : G6 r s' :=
  h.frame ha hp hg hep hq ho h3 h4 (fun v hh => by rw [hj] at hh; exact ⟨hh, by rw [hje]⟩) hR

/-- an engine-thread step that moves its program counter and possibly sets INIT / START / QUIT broadcasts -/
theorem G6.root_move {r : Fin n} {s s' : St n} (h : G6 r s) (x : Pc) (ol : List (Out n)) (hra : s.alive r = true)
    (ha : s'.alive = s.alive) (hp : s'.parent = s.parent) (hg : s'.gen = s.gen) (hep : s'.epoch = s.epoch)
    (h3 : s'.selfWait = s.selfWait) (h4 : s'.childWait = s.childWait)
    (hq : s'.q = s.q) (ho : s'.out = upd s.out r ol) (hj : s'.jobId = s.jobId) (hje : s'.jobEp = s.jobEp) (hpc : s'.pc = upd s.pc r x)
    (c3 : ∀ d, pStop ol d = pStop (s.out r) d) (c4 : ∀ p d, pAck ol p d = pAck (s.out r) p d)
    (he2 : ∀ t e j, Out.enq t (Cmd.start e j) ∈ ol → e = s.epoch)
    (he4 : ∀ t src e j, Out.enq t (Cmd.report src e j) ∉ ol)
    (oR : actR s r = true → actPc x = true) : G6 r s' := by
  refine h.neutral r (s.q r) ol (s.jobId r) (s.jobEp r) ha hp hg hep h3 h4 (by rw [hq]; simp) ho (by rw [hj]; simp) (by rw [hje]; simp)
    rfl (fun _ => rfl) c3 c4 (h.ord r hra) (fun _ hx => hx) (fun hne => absurd rfl hne) he2 (fun t src e j hm => absurd hm (he4 t src e j))
    (fun hne => absurd rfl hne) ?_
  intro hh; unfold actR; rw [hpc, upd_same]; exact oR hh

theorem stepWaitRet_G6 {r : Fin n} {s s' : St n} (h : G6 r s) (v : Fin n) (hs : stepWaitRet s v = some s') : G6 r s' := by
  unfold stepWaitRet at hs
  split at hs
  · rename_i hg
    obtain ⟨va, hout, hwp, hfl⟩ := hg
    cases hs
    refine h.same rfl rfl rfl rfl rfl rfl rfl rfl rfl rfl ?_
    intro hh
    unfold actR at hh ⊢
    show actPc (upd s.pc v (afterWait (s.pc v)) r) = true
    by_cases hrv : r = v
    · subst hrv; rw [upd_same]
      cases hp : s.pc r <;> simp [hp, isWaitPc] at hwp <;> simp [hp, actPc] at hh
    · rw [upd_other _ _ _ _ hrv]; exact hh
  · cases hs

theorem stepSearchLeave_G6 {r : Fin n} {s s' : St n} (h1 : G1 r s) (h : G6 r s) (v : Fin n) (m : Bool)
    (hs : stepSearchLeave s v m = some s') : G6 r s' := by
  unfold stepSearchLeave at hs
  split at hs
  · rename_i hg
    split at hs
    · rename_i j hpc
      have hne : v ≠ r := h1.worker_ne_root hg.1 (by rw [hpc]; rfl)
      have hrv : r ≠ v := fun e => hne e.symm
      have hR : ∀ x, actR s r = true → actPc (upd s.pc v x r) = true := by
        intro x hh; rw [upd_other _ _ _ _ hrv]; exact hh
      split at hs
      · cases hs
        refine h.frame rfl rfl rfl rfl rfl rfl rfl rfl ?_ (hR _)
        intro w hh
        by_cases hwv : w = v
        · subst hwv; simp at hh
        · simp [hwv] at hh; exact ⟨hh, rfl⟩
      · split at hs
        · cases hs; exact h.same rfl rfl rfl rfl rfl rfl rfl rfl rfl rfl (hR _)
        · cases hs
    · cases hs
  · cases hs

theorem stepSearchResult_G6 {r : Fin n} {s s' : St n} (h1 : G1 r s) (h4 : G4 r s) (h : G6 r s) (v : Fin n)
    (hs : stepSearchResult s v = some s') : G6 r s' := by
  unfold stepSearchResult at hs
  split at hs
  · rename_i hg
    split at hs
    · rename_i j hpc
      have hne : v ≠ r := h1.worker_ne_root hg.1 (by rw [hpc]; rfl)
      split at hs
      · rename_i hfw; cases hs
        have hjn : s.jobId v ≠ none := by rw [hfw.2]; simp
        refine h.neutral v (s.q v) (toParent s v (.report v (s.jobEp v) j)) (s.jobId v) (s.jobEp v) rfl rfl rfl rfl rfl rfl (by simp) rfl (by simp) (by simp)
          rfl (fun _ => rfl) ?_ ?_ (h.ord v hg.1) (fun _ hx => hx) ?_ ?_ ?_ (fun hne' hj => h.e5 v hg.1 hne' hj) (fun hh => hh)
        · intro d; rw [hg.2, pStop_toParent s v _ (by simp), pStop_nil]
        · intro p d; rw [hg.2, pAck_toParent_ne s v _ (by simp), pAck_nil]
        · intro _ _; exact job_not_passed h1 h4 hg.1 hne hjn
        · intro t e j' hm; cases mem_toParent hm
        · intro t src e j' hm; have := mem_toParent hm; cases this; exact h.e5 v hg.1 hne hjn
      · cases hs; exact h
    · cases hs
  · cases hs

theorem stepPollEmpty_G6 {r : Fin n} {s s' : St n} (h1 : G1 r s) (h : G6 r s) (v : Fin n) (hs : stepPollEmpty s v = some s') : G6 r s' := by
  unfold stepPollEmpty at hs
  split at hs
  · rename_i hg
    obtain ⟨va, hout, hqe⟩ := hg
    split at hs
    · rename_i hpc; cases hs
      have hne : v ≠ r := h1.worker_ne_root va (by rw [hpc]; rfl)
      have hrv : r ≠ v := fun e => hne e.symm
      refine h.same rfl rfl rfl rfl rfl rfl rfl rfl rfl rfl ?_
      intro hh; unfold actR at hh ⊢
      show actPc (upd s.pc v _ r) = true
      rw [upd_other _ _ _ _ hrv]; exact hh
    · cases hs; exact h
    · cases hs; exact h
    · rename_i hpc
      have hvr : v = r := h1.root_pc va (by rw [hpc]; rfl)
      subst hvr
      have hna : actR s v = true → False := by intro hh; unfold actR at hh; rw [hpc] at hh; cases hh
      split at hs
      · cases hs
        refine h.root_move .epost [Out.notify v] va rfl rfl rfl rfl rfl rfl rfl rfl rfl rfl rfl ?_ ?_ ?_ ?_ (fun hh => absurd hh hna)
        · intro d; rw [hout]; simp [pStop]
        · intro p d; rw [hout]; simp [pAck]
        · intro t e j hm; simp at hm
        · intro t src e j hm; simp at hm
      · cases hs
        refine h.same rfl rfl rfl rfl rfl rfl rfl rfl rfl rfl (fun hh => absurd hh hna)
    · rename_i hpc; cases hs
      have hvr : v = r := h1.root_pc va (by rw [hpc]; rfl)
      subst hvr
      refine h.same rfl rfl rfl rfl rfl rfl rfl rfl rfl rfl ?_
      intro hh; unfold actR at hh; rw [hpc] at hh; cases hh
    · cases hs
  · cases hs

theorem not_mem_toParent_ack_start (s : St n) (v t : Fin n) (e j : Nat) : Out.enq t (Cmd.start e j) ∉ toParent s v (Cmd.ack v) := by
  intro hm; cases mem_toParent hm

theorem hasReportFrom_tail' {c : Cmd n} {rest : List (Cmd n)} {src : Fin n} (h : hasReportFrom rest src = true) :
    hasReportFrom (c :: rest) src = true := hasReportFrom_tail h

theorem stepDeq_G6 {r : Fin n} {s s' : St n} (h1 : G1 r s) (h4 : G4 r s) (h : G6 r s) (v : Fin n) (hs : stepDeq s v = some s') : G6 r s' := by
  unfold stepDeq at hs
  split at hs
  · rename_i hg
    obtain ⟨va, hout⟩ := hg
    split at hs
    · cases hs
    · rename_i c rest hq
      simp only at hs
      have hord : okOrder rest = true := okOrder_tail (by rw [← hq]; exact h.ord v va)
      have hmem : ∀ x, x ∈ rest → x ∈ s.q v := by intro x hx; rw [hq]; exact List.mem_cons_of_mem _ hx
      have hRsame : ∀ s'' : St n, s''.pc = s.pc → actR s r = true → actR s'' r = true := by
        intro s'' e hh; unfold actR at hh ⊢; rw [e]; exact hh
      -- the STOP_ACK case, shared by helpers and the engine thread
      have ackcase : ∀ (src : Fin n) (ol : List (Out n)) (sw : Bool) (cw : Nat) (s'' : St n), c = Cmd.ack src →
          s''.alive = s.alive → s''.parent = s.parent → s''.gen = s.gen → s''.epoch = s.epoch →
          s''.q = upd s.q v rest → s''.out = upd s.out v ol → s''.selfWait = upd s.selfWait v sw → s''.childWait = upd s.childWait v cw →
          s''.jobId = s.jobId → s''.jobEp = s.jobEp → s''.pc = s.pc →
          (∀ d, pStop ol d = 0) → hasPReport ol = false → (∀ t e j, Out.enq t (Cmd.start e j) ∉ ol) →
          (∀ p, isChild s p v = true → (sw || decide (0 < cw)) = true ∨ 0 < pAck ol p v) → G6 r s'' := by
        intro src ol sw cw s'' hc a1 a2 a3 a4 a5 a6 a7 a8 a9 a10 a11 b1 b2 b3 b4
        subst hc
        refine h.ack_step v rest ol sw cw hout a1 a2 a3 a4 a5 a6 a7 a8 a9 a10 hord hmem
          (by rw [hq, cStop_cons]; simp) (fun d => by rw [hq]; exact cAck_tail_le _ _ d) ?_ b1 b2 b3 b4 (hRsame _ a11)
        intro c' hrf
        have hne : c' ≠ src := by
          intro e; subst e
          have := okOrder_head_ack (by rw [← hq]; exact h.ord v va)
          rw [this] at hrf; cases hrf
        rw [hq, cAck_cons]
        have : Cmd.ack src ≠ Cmd.ack c' := by intro e; cases e; exact hne rfl
        simp [this]
      have worker : isEnginePc (s.pc v) = false → G6 r (handleW { s with q := upd s.q v rest } v c) := by
        intro hk
        have hne : v ≠ r := h1.worker_ne_root va hk
        by_cases hcs : c = Cmd.stop
        · subst hcs
          exact h.stop_handler h1 v rest va hne hq hout rfl rfl rfl rfl rfl rfl rfl rfl rfl rfl rfl
        · by_cases hca : ∃ d, c = Cmd.ack d
          · obtain ⟨d, hd⟩ := hca
            subst hd
            obtain ⟨p0, hp0, _⟩ := h1.par v va hne
            have hge : 1 ≤ s.childWait v := (h1.ack_local rest [] va hq hout (by intro c; simp [pStop])).1
            refine ackcase d _ (s.selfWait v) (s.childWait v - 1) _ rfl rfl rfl rfl rfl rfl rfl (by simp [handleW]) rfl rfl rfl rfl ?_ ?_ ?_ ?_
            · intro x; split
              · exact pStop_toParent _ v _ (by simp) x
              · exact pStop_nil x
            · split
              · exact hasPReport_toParent _ v _ (by simp)
              · rfl
            · intro t e j hm; split at hm
              · cases mem_toParent hm
              · cases hm
            · intro p hc
              have hpp : p = p0 := by
                have := ((isChild_iff s p v).1 hc).2; rw [hp0] at this; cases this; rfl
              subst hpp
              by_cases hfw : s.selfWait v = false ∧ s.childWait v - 1 = 0
              · right; rw [if_pos hfw]
                have : toParent { s with q := upd s.q v rest } v (Cmd.ack v) = [Out.enq p (Cmd.ack v)] := by
                  simp [toParent, hp0]
                rw [this]; simp [pAck]
              · left
                cases hsw : s.selfWait v
                · simp [hsw] at hfw; simp; omega
                · rfl
          · exact handleW_neutral_G6 h1 h4 h v c rest va hne hq hout hcs (fun d e => hca ⟨d, e⟩)
      -- pops by the engine thread that leave the counters alone
      have rootpop : c ≠ Cmd.stop → (∀ d, c ≠ Cmd.ack d) → ∀ s'' : St n, s''.alive = s.alive → s''.parent = s.parent → s''.gen = s.gen →
          s''.epoch = s.epoch → s''.selfWait = s.selfWait → s''.childWait = s.childWait → s''.q = upd s.q v rest → s''.out = s.out →
          s''.jobId = s.jobId → s''.jobEp = s.jobEp → s''.pc = s.pc → v = r → G6 r s'' := by
        intro g1 g2 s'' a1 a2 a3 a4 a5 a6 a7 a8 a9 a10 a11 hvr
        subst hvr
        refine h.neutral v rest (s.out v) (s.jobId v) (s.jobEp v) a1 a2 a3 a4 a5 a6 a7 (by rw [a8]; simp) (by rw [a9]; simp) (by rw [a10]; simp)
          (by rw [hq, cStop_cons]; simp [g1]) (fun d => by rw [hq, cAck_cons]; simp [g2 d]) (fun _ => rfl) (fun _ _ => rfl) hord hmem
          (fun hne => absurd rfl hne) (fun t e j hm => h.e2 v t e j va hm) (fun t src e j hm => h.e4 v t src e j va hm)
          (fun hne => absurd rfl hne) (hRsame _ a11)
      split at hs
      · rename_i hpc; cases hs; exact worker (by rw [hpc]; rfl)
      · rename_i j hpc; cases hs; exact worker (by rw [hpc]; rfl)
      · rename_i hpc; cases hs
        have hvr : v = r := h1.root_pc va (by rw [hpc]; rfl)
        have hnr : inRound s v = false := by subst hvr; exact h1.root_not_inRound (by rw [hpc]; rfl)
        have hh := h1.root_head (by subst hvr; exact hq)
        exact rootpop hh.1 (by subst hvr; exact hh.2 hnr) _ rfl rfl rfl rfl rfl rfl rfl rfl rfl rfl rfl hvr
      · rename_i hpc; cases hs
        have hvr : v = r := h1.root_pc va (by rw [hpc]; rfl)
        have hh := h1.root_head (by subst hvr; exact hq)
        cases c with
        | ack src =>
          refine ackcase src (s.out v) (s.selfWait v) (s.childWait v - 1) _ rfl rfl rfl rfl rfl rfl (by simp [handleE]) (by simp [handleE]) rfl rfl rfl rfl ?_ ?_ ?_ ?_
          · intro d; rw [hout]; exact pStop_nil d
          · rw [hout]; rfl
          · intro t e j hm; rw [hout] at hm; cases hm
          · intro p hc; subst hvr; exact absurd rfl (h1.child_ne_root hc)
        | stop => exact absurd rfl hh.1
        | init => exact rootpop (by simp) (by simp) _ rfl rfl rfl rfl rfl rfl rfl rfl rfl rfl rfl hvr
        | start e j => exact rootpop (by simp) (by simp) _ rfl rfl rfl rfl rfl rfl rfl rfl rfl rfl rfl hvr
        | quit => exact rootpop (by simp) (by simp) _ rfl rfl rfl rfl rfl rfl rfl rfl rfl rfl rfl hvr
        | report a b d => exact rootpop (by simp) (by simp) _ rfl rfl rfl rfl rfl rfl rfl rfl rfl rfl rfl hvr
        | quitAck a => exact rootpop (by simp) (by simp) _ rfl rfl rfl rfl rfl rfl rfl rfl rfl rfl rfl hvr
      · rename_i hpc; cases hs
        have hvr : v = r := h1.root_pc va (by rw [hpc]; rfl)
        have hnr : inRound s v = false := by subst hvr; exact h1.root_not_inRound (by rw [hpc]; rfl)
        have hh := h1.root_head (by subst hvr; exact hq)
        have g2 : ∀ d, c ≠ Cmd.ack d := by subst hvr; exact hh.2 hnr
        cases c <;> first
          | exact rootpop hh.1 g2 _ rfl rfl rfl rfl rfl rfl rfl rfl rfl rfl rfl hvr
          | exact absurd rfl hh.1
      · cases hs
  · cases hs

theorem stepAckSelf_G6 {r : Fin n} {s s' : St n} (h1 : G1 r s) (h : G6 r s) (v : Fin n) (hs : stepAckSelf s v = some s') : G6 r s' := by
  unfold stepAckSelf at hs
  split at hs
  · rename_i hg
    obtain ⟨va, hout⟩ := hg
    split at hs
    · rename_i hpc
      have hne : v ≠ r := h1.worker_ne_root va (by rw [hpc]; rfl)
      have hrv : r ≠ v := fun e => hne e.symm
      have hR : actR s r = true → actPc (upd s.pc v .wait r) = true := by
        intro hh; rw [upd_other _ _ _ _ hrv]; exact hh
      split at hs
      · rename_i hsw; cases hs
        obtain ⟨p0, hp0, _⟩ := h1.par v va hne
        refine h.ack_step v (s.q v) _ false (s.childWait v) hout rfl rfl rfl rfl (by simp) rfl rfl (by simp) rfl rfl
          (h.ord v va) (fun _ hx => hx) rfl (fun _ => Nat.le_refl _) (fun _ _ => rfl) ?_ ?_ ?_ ?_ hR
        · intro x; split
          · exact pStop_toParent s v _ (by simp) x
          · exact pStop_nil x
        · split
          · exact hasPReport_toParent s v _ (by simp)
          · rfl
        · intro t e j hm; split at hm
          · cases mem_toParent hm
          · cases hm
        · intro p hc
          have hpp : p = p0 := by
            have := ((isChild_iff s p v).1 hc).2; rw [hp0] at this; cases this; rfl
          subst hpp
          by_cases hz : s.childWait v = 0
          · right; rw [if_pos hz]
            have : toParent s v (Cmd.ack v) = [Out.enq p (Cmd.ack v)] := by simp [toParent, hp0]
            rw [this]; simp [pAck]
          · left; simp; omega
      · cases hs
        exact h.same rfl rfl rfl rfl rfl rfl rfl rfl rfl rfl hR
    · rename_i hpc; cases hs
      have hvr : v = r := h1.root_pc va (by rw [hpc]; rfl)
      subst hvr
      refine h.ack_step v (s.q v) (s.out v) false (s.childWait v) hout rfl rfl rfl rfl (by simp) (by simp) rfl (by simp) rfl rfl
        (h.ord v va) (fun _ hx => hx) rfl (fun _ => Nat.le_refl _) (fun _ _ => rfl) (by intro x; rw [hout]; exact pStop_nil x) (by rw [hout]; rfl)
        (by intro t e j hm; rw [hout] at hm; cases hm) (fun p hc => absurd rfl (h1.child_ne_root hc)) ?_
      intro hh; unfold actR at hh; rw [hpc] at hh; cases hh
    · cases hs
  · cases hs

theorem stepSend_G6 {r : Fin n} {s s' : St n} (h1 : G1 r s) (h : G6 r s) (v : Fin n) (o : Out n) (hs : stepSend s v o = some s') : G6 r s' := by
  unfold stepSend at hs
  split at hs
  · rename_i hg
    obtain ⟨va, hmo⟩ := hg
    cases hs
    cases o with
    | notify t =>
      refine h.neutral v (s.q v) ((s.out v).erase (Out.notify t)) (s.jobId v) (s.jobEp v) rfl rfl rfl rfl rfl rfl (by simp [applyOut]) (by simp [applyOut])
        (by simp [applyOut]) (by simp [applyOut]) rfl (fun _ => rfl) ?_ ?_ (h.ord v va) (fun _ hx => hx) ?_ ?_ ?_ (fun hne hj => h.e5 v va hne hj)
        (fun hh => by unfold actR at hh ⊢; exact hh)
      · intro d; rw [pStop_erase]; simp
      · intro p d; rw [pAck_erase]; simp
      · intro hne hpr
        have hact : actR (applyOut { s with out := upd s.out v ((s.out v).erase (Out.notify t)) } (Out.notify t)) r = actR s r := rfl
        rw [hact]
        exact h.pr v va hne (hasPReport_erase hpr)
      · intro t' e j hm; exact h.e2 v t' e j va (List.mem_of_mem_erase hm)
      · intro t' src e j hm; exact h.e4 v t' src e j va (List.mem_of_mem_erase hm)
    | enq t c => exact h.send h1 v t c va hmo
  · cases hs

theorem stepE_G6 {r : Fin n} {s s' : St n} (h1 : G1 r s) (h4 : G4 r s) (h : G6 r s) (e : Ev n) (hs : stepE r s e = some s') : G6 r s' := by
  have hra := h1.rootAlive
  have hnone : ∀ t src e j, Out.enq t (Cmd.report src e j) ∉ s.out r := by
    intro t src e j hm
    rcases h1.outOk r _ hra hm with ⟨_, hd⟩ | ⟨hp, _⟩
    · simp [Cmd.isDown] at hd
    · rw [h1.rootPar] at hp; cases hp
  cases e <;> simp only [stepE] at hs <;> try (cases hs)
  case eBegin =>
    split at hs
    · rename_i hg; cases hs
      refine h.root_move .eGo (s.out r) hra rfl rfl rfl rfl rfl rfl rfl (by simp [setPc]) rfl rfl rfl (fun _ => rfl) (fun _ _ => rfl)
        (fun t e j hm => h.e2 r t e j hra hm) hnone ?_
      intro hh; unfold actR at hh; rw [hg.2] at hh; cases hh
    · cases hs
  case eInit =>
    split at hs
    · rename_i hg; cases hs
      refine h.root_move .esearch (bcast s r .init) hra rfl rfl rfl rfl rfl rfl rfl rfl rfl rfl rfl ?_ ?_ ?_ ?_ (fun _ => rfl)
      · intro d; rw [hg.1, pStop_bcast_ne s r _ (by simp), pStop_nil]
      · intro p d; rw [hg.1, pAck_bcast s r _ p d (by simp), pAck_nil]
      · intro t e j hm; cases mem_bcast_start hm
      · intro t src e j hm; cases mem_bcast_report hm
    · cases hs
  case eJobNext =>
    split at hs
    · rename_i hg; cases hs
      refine h.root_move .esearch (bcast s r (.start s.epoch (s.ejob + 1))) hra rfl rfl rfl rfl rfl rfl rfl rfl rfl rfl (by rw [← hg.2]; simp) ?_ ?_ ?_ ?_ (fun _ => rfl)
      · intro d; rw [hg.1, pStop_bcast_ne s r _ (by simp), pStop_nil]
      · intro p d; rw [hg.1, pAck_bcast s r _ p d (by simp), pAck_nil]
      · intro t e j hm; have := mem_bcast_start hm; cases this; rfl
      · intro t src e j hm; cases mem_bcast_report hm
    · cases hs
  case eSearchDone =>
    split at hs
    · cases hs
      exact h.root_move (.ehold true) (s.out r) hra rfl rfl rfl rfl rfl rfl rfl (by simp [setPc]) rfl rfl rfl (fun _ => rfl) (fun _ _ => rfl)
        (fun t e j hm => h.e2 r t e j hra hm) hnone (fun _ => rfl)
    · cases hs
  case eHoldDone =>
    split at hs
    · split at hs
      · rename_i hpc; cases hs
        refine h.root_move (.ebest false) (s.out r) hra rfl rfl rfl rfl rfl rfl rfl (by simp [setPc]) rfl rfl rfl (fun _ => rfl) (fun _ _ => rfl)
          (fun t e j hm => h.e2 r t e j hra hm) hnone ?_
        intro hh; unfold actR at hh; rw [hpc] at hh; cases hh
      · rename_i ws hpc; cases hs
        refine h.root_move (.ebest ws) (s.out r) hra rfl rfl rfl rfl rfl rfl rfl (by simp [setPc]) rfl rfl rfl (fun _ => rfl) (fun _ _ => rfl)
          (fun t e j hm => h.e2 r t e j hra hm) hnone ?_
        intro hh; unfold actR at hh; rw [hpc] at hh
        cases ws
        · cases hh
        · rfl
      · cases hs
    · cases hs
  case eBest =>
    split at hs
    · split at hs
      · rename_i ws hpc; cases hs
        refine h.root_move (if ws then .estop else .epost) (s.out r) hra rfl rfl rfl rfl rfl rfl rfl (by simp [setPc]) rfl rfl rfl (fun _ => rfl) (fun _ _ => rfl)
          (fun t e j hm => h.e2 r t e j hra hm) hnone ?_
        intro hh; unfold actR at hh; rw [hpc] at hh
        cases ws
        · cases hh
        · rfl
      · cases hs
    · cases hs
  case eStopSend =>
    split at hs
    · rename_i hg; cases hs
      have hnr : inRound s r = false := h1.root_not_inRound (by rw [hg.2]; rfl)
      exact h.root_stop h1 h4 hnr rfl rfl rfl rfl rfl rfl rfl rfl rfl rfl
    · cases hs
  case eSearchEnd =>
    split at hs
    · rename_i hg; cases hs
      refine h.root_move .ewait (s.out r) hra rfl rfl rfl rfl rfl rfl rfl (by simp [setPc]) rfl rfl rfl (fun _ => rfl) (fun _ _ => rfl)
        (fun t e j hm => h.e2 r t e j hra hm) hnone ?_
      intro hh; unfold actR at hh; rw [hg.2.1] at hh; cases hh
    · cases hs
  case eQuitSend =>
    split at hs
    · rename_i hg; cases hs
      have hnr : actR s r = true → False := by intro hh; unfold actR at hh; rw [hg.2] at hh; cases hh
      split
      · exact h.root_move .equit (s.out r) hra rfl rfl rfl rfl rfl rfl rfl (by simp [setPc]) rfl rfl rfl (fun _ => rfl) (fun _ _ => rfl)
          (fun t e j hm => h.e2 r t e j hra hm) hnone (fun hh => absurd hh hnr)
      · refine h.root_move .equit (bcast s r .quit) hra rfl rfl rfl rfl rfl rfl rfl rfl rfl rfl rfl ?_ ?_ ?_ ?_ (fun hh => absurd hh hnr)
        · intro d; rw [hg.1, pStop_bcast_ne s r _ (by simp), pStop_nil]
        · intro p d; rw [hg.1, pAck_bcast s r _ p d (by simp), pAck_nil]
        · intro t e j hm; cases mem_bcast_start hm
        · intro t src e j hm; cases mem_bcast_report hm
    · cases hs

theorem stepEmisc_G6 {r : Fin n} {s s' : St n} (h1 : G1 r s) (h : G6 r s) :
    (∀ x, stepERdPre r s x = some s' → G6 r s') ∧ (∀ x b, stepERd r s x b = some s' → G6 r s') ∧ (∀ k, stepEOpts r s k = some s' → G6 r s') := by
  have hra := h1.rootAlive
  have key : ∀ (x : Pc) (s'' : St n), s''.alive = s.alive → s''.parent = s.parent → s''.gen = s.gen → s''.epoch = s.epoch →
      s''.q = s.q → s''.out = s.out → s''.selfWait = s.selfWait → s''.childWait = s.childWait → s''.jobId = s.jobId → s''.jobEp = s.jobEp →
      s''.pc = upd s.pc r x → actR s r = false → G6 r s'' := by
    intro x s'' a1 a2 a3 a4 a5 a6 a7 a8 a9 a10 _ hna
    exact h.same a1 a2 a3 a4 a5 a6 a7 a8 a9 a10 (fun hh => by rw [hna] at hh; cases hh)
  refine ⟨?_, ?_, ?_⟩
  · intro x hs
    unfold stepERdPre at hs
    split at hs
    · split at hs
      · rename_i hpc; cases hs; exact key .eQ1 _ rfl rfl rfl rfl rfl rfl rfl rfl rfl rfl rfl (by unfold actR; rw [hpc]; rfl)
      · rename_i hpc; cases hs; exact key .eS1 _ rfl rfl rfl rfl rfl rfl rfl rfl rfl rfl rfl (by unfold actR; rw [hpc]; rfl)
      · cases hs; exact h.same rfl rfl rfl rfl rfl rfl rfl rfl rfl rfl (fun hh => by unfold actR at hh ⊢; exact hh)
      · cases hs; exact h.same rfl rfl rfl rfl rfl rfl rfl rfl rfl rfl (fun hh => by unfold actR at hh ⊢; exact hh)
      · cases hs
    · cases hs
  · intro x b hs
    unfold stepERd at hs
    split at hs
    · split at hs
      · rename_i hpc
        split at hs
        · cases hs; exact key _ _ rfl rfl rfl rfl rfl rfl rfl rfl rfl rfl rfl (by unfold actR; rw [hpc]; rfl)
        · cases hs
      · rename_i hpc
        split at hs
        · cases hs; exact key _ _ rfl rfl rfl rfl rfl rfl rfl rfl rfl rfl rfl (by unfold actR; rw [hpc]; rfl)
        · cases hs
      · cases hs
    · cases hs
  · intro k hs
    unfold stepEOpts at hs
    split at hs
    · split at hs
      · rename_i hpc; cases hs
        cases k
        · exact key .eS0 _ rfl rfl rfl rfl rfl rfl rfl rfl rfl rfl rfl (by unfold actR; rw [hpc]; rfl)
        · exact h.same rfl rfl rfl rfl rfl rfl rfl rfl rfl rfl (fun hh => by unfold actR at hh ⊢; exact hh)
      · rename_i hpc; cases hs
        cases k
        · exact key .eend _ rfl rfl rfl rfl rfl rfl rfl rfl rfl rfl rfl (by unfold actR; rw [hpc]; rfl)
        · exact h.same rfl rfl rfl rfl rfl rfl rfl rfl rfl rfl (fun hh => by unfold actR at hh ⊢; exact hh)
      · cases hs
    · cases hs

theorem stepP_G6 {r : Fin n} {s s' : St n} (h1 : G1 r s) (h3 : G3 r s) (h4 : G4 r s) (h : G6 r s) (e : Ev n)
    (hs : stepP r s e = some s') : G6 r s' := by
  have same : ∀ s'' : St n, s''.alive = s.alive → s''.parent = s.parent → s''.gen = s.gen → s''.epoch = s.epoch →
      s''.q = s.q → s''.out = s.out → s''.selfWait = s.selfWait → s''.childWait = s.childWait → s''.jobId = s.jobId → s''.jobEp = s.jobEp →
      s''.pc = s.pc → G6 r s'' := by
    intro s'' a1 a2 a3 a4 a5 a6 a7 a8 a9 a10 a11
    exact h.same a1 a2 a3 a4 a5 a6 a7 a8 a9 a10 (fun hh => by unfold actR at hh ⊢; rw [a11]; exact hh)
  cases e <;> simp only [stepP] at hs <;> try (cases hs)
  case pWr x b =>
    cases x <;> simp only [stepPWr] at hs <;> try (cases hs)
    case ponder => split at hs <;> first | (cases hs; exact same _ rfl rfl rfl rfl rfl rfl rfl rfl rfl rfl rfl) | cases hs
    case infinite => split at hs <;> first | (cases hs; exact same _ rfl rfl rfl rfl rfl rfl rfl rfl rfl rfl rfl) | cases hs
    case quit => split at hs <;> first | (cases hs; exact same _ rfl rfl rfl rfl rfl rfl rfl rfl rfl rfl rfl) | cases hs
    case search =>
      split at hs
      · rename_i hg; cases hs
        exact h.epoch_bump h1 h3 h4 ⟨hg.2.2.2.1, hg.2.1⟩ rfl rfl rfl rfl rfl rfl rfl rfl rfl
      · cases hs
  case pWd x =>
    cases x <;> simp only [stepPWd] at hs <;> try (cases hs)
    all_goals (split at hs <;> first | (cases hs; exact same _ rfl rfl rfl rfl rfl rfl rfl rfl rfl rfl rfl) | cases hs)
  case pWaitStop =>
    split at hs
    · cases hs; exact h
    · cases hs
  case pWaitOpts =>
    split at hs
    · cases hs; exact h
    · cases hs
  case pSetOpt =>
    split at hs
    · cases hs; exact same _ rfl rfl rfl rfl rfl rfl rfl rfl rfl rfl rfl
    · cases hs
  case pNotify t => exact same _ rfl rfl rfl rfl rfl rfl rfl rfl rfl rfl rfl

theorem G6.spawn {r : Fin n} {s s' : St n} (h : G6 r s) (v p0 : Fin n)
    (hav : s.alive v = false) (hvr : v ≠ r) (hvp : v ≠ p0) (hqv : s.q v = []) (hov : s.out v = []) (hqp : s.q p0 = [])
    (ha : s'.alive = upd s.alive v true) (hp : s'.parent = upd s.parent v (some p0))
    (hg : s'.gen = upd s.gen v (s.gen p0)) (hep : s'.epoch = s.epoch) (hq : s'.q = s.q) (ho : s'.out = s.out)
    (h3 : s'.selfWait = upd s.selfWait v false) (h4 : s'.childWait = upd s.childWait v 0)
    (hj : s'.jobId = upd s.jobId v none) (hje : s'.jobEp = s.jobEp) (hpc : s'.pc = upd s.pc v .wait) : G6 r s' := by
  have hrv : r ≠ v := fun e => hvr e.symm
  have hicv : ∀ a, isChild s' a v = true → a = p0 := by
    intro a hc
    have := ((isChild_iff s' a v).1 hc).2
    rw [hp, upd_same] at this; cases this; rfl
  have hico : ∀ a b, b ≠ v → isChild s' a b = isChild s a b := by
    intro a b hb; simp [isChild, ha, hp, hb]
  have hgr : s'.gen r = s.gen r := by rw [hg, upd_other _ _ _ _ hrv]
  have hgo : ∀ w, w ≠ v → s'.gen w = s.gen w := by intro w hw; rw [hg, upd_other _ _ _ _ hw]
  have hiro : ∀ w, w ≠ v → inRound s' w = inRound s w := by intro w hw; simp [inRound, h3, h4, hw]
  have hsi : ∀ a b, stopIn s' a b = stopIn s a b := by intro a b; unfold stopIn; rw [hq, ho]
  have hai : ∀ a b, ackIn s' a b = ackIn s a b := by intro a b; unfold ackIn; rw [hq, ho]
  have hactR : actR s' r = actR s r := by unfold actR; rw [hpc, upd_other _ _ _ _ hrv]
  have halive : ∀ w, w ≠ v → s'.alive w = true → s.alive w = true := by
    intro w hw hh; rw [ha, upd_other _ _ _ _ hw] at hh; exact hh
  have hnotv : ∀ a b, b ≠ v → isChild s a b = true → True := fun _ _ _ _ => trivial
  refine ⟨?_, ?_, ?_, ?_, ?_, ?_, ?_, ?_⟩
  · intro p hpa; rw [hq]
    by_cases hpv : p = v
    · subst hpv; rw [hqv]; rfl
    · exact h.ord p (halive p hpv hpa)
  · intro w hw hwr hpr; rw [ho] at hpr
    by_cases hwv : w = v
    · subst hwv; rw [hov] at hpr; cases hpr
    · obtain ⟨a1, a2⟩ := h.pr w (halive w hwv hw) hwr hpr
      refine ⟨by rw [hactR, hgr, hgo w hwv]; exact a1, fun p hc => ?_⟩
      rw [hico p w hwv] at hc; rw [hai]; exact a2 p hc
  · intro p src hc hrf; rw [hq] at hrf
    by_cases hsv : src = v
    · subst hsv
      have := hicv p hc; subst this
      rw [hqp] at hrf; cases hrf
    · rw [hico p src hsv] at hc
      rw [hactR, hgr, hgo src hsv, hsi, hai, hiro src hsv]; exact h.rp p src hc hrf
  · intro w e j hw hm; rw [hq] at hm; rw [hep]
    by_cases hwv : w = v
    · subst hwv; rw [hqv] at hm; cases hm
    · exact h.e1 w e j (halive w hwv hw) hm
  · intro w t e j hw hm; rw [ho] at hm; rw [hep]
    by_cases hwv : w = v
    · subst hwv; rw [hov] at hm; cases hm
    · exact h.e2 w t e j (halive w hwv hw) hm
  · intro w src e j hw hm; rw [hq] at hm; rw [hep]
    by_cases hwv : w = v
    · subst hwv; rw [hqv] at hm; cases hm
    · exact h.e3 w src e j (halive w hwv hw) hm
  · intro w t src e j hw hm; rw [ho] at hm; rw [hep]
    by_cases hwv : w = v
    · subst hwv; rw [hov] at hm; cases hm
    · exact h.e4 w t src e j (halive w hwv hw) hm
  · intro w hw hwr hjn; rw [hj] at hjn; rw [hje, hep]
    by_cases hwv : w = v
    · subst hwv; rw [upd_same] at hjn; exact absurd rfl hjn
    · rw [upd_other _ _ _ _ hwv] at hjn; exact h.e5 w (halive w hwv hw) hwr hjn

theorem stepSpawn_G6 {r : Fin n} {s s' : St n} (h : G6 r s) (v p0 : Fin n) (hs : stepSpawn r s v p0 = some s') : G6 r s' := by
  unfold stepSpawn at hs
  split at hs
  · rename_i hg
    obtain ⟨hav, hap, hvr, hvp, hqv, hov, _, hqp, hop, _, _, _, hnoch⟩ := hg
    cases hs
    exact h.spawn v p0 hav hvr hvp hqv hov hqp rfl rfl rfl rfl rfl rfl rfl rfl rfl rfl rfl
  · cases hs

theorem stepExit_G6 {r : Fin n} {s s' : St n} (h : G6 r s) (v : Fin n) (hs : stepExit r s v = some s') : G6 r s' := by
  unfold stepExit at hs
  split at hs
  · cases hs
    have halive : ∀ w, (upd s.alive v false) w = true → s.alive w = true := by
      intro w hw
      by_cases hwv : w = v
      · subst hwv; simp at hw
      · rw [upd_other _ _ _ _ hwv] at hw; exact hw
    have hic : ∀ a b, isChild ({ s with alive := upd s.alive v false } : St n) a b = true → isChild s a b = true := by
      intro a b hc
      have hh := (isChild_iff _ a b).1 hc
      exact (isChild_iff s a b).2 ⟨halive b hh.1, hh.2⟩
    refine ⟨fun p hpa => h.ord p (halive p hpa), ?_, ?_, fun w e j hw hm => h.e1 w e j (halive w hw) hm,
      fun w t e j hw hm => h.e2 w t e j (halive w hw) hm, fun w src e j hw hm => h.e3 w src e j (halive w hw) hm,
      fun w t src e j hw hm => h.e4 w t src e j (halive w hw) hm, fun w hw hwr hjn => h.e5 w (halive w hw) hwr hjn⟩
    · intro w hw hwr hpr
      obtain ⟨a1, a2⟩ := h.pr w (halive w hw) hwr hpr
      exact ⟨a1, fun p hc => a2 p (hic p w hc)⟩
    · intro p src hc hrf; exact h.rp p src (hic p src hc) hrf
  · cases hs

theorem stepTend_G6 {r : Fin n} {s s' : St n} (h : G6 r s) (v : Fin n) (hs : stepTend r s v = some s') : G6 r s' := by
  unfold stepTend at hs
  split at hs
  · rename_i hg; cases hs
    have hrv : r ≠ v := fun e => hg.2.1 e.symm
    refine h.same rfl rfl rfl rfl rfl rfl rfl rfl rfl rfl ?_
    intro hh; unfold actR at hh ⊢
    show actPc (upd s.pc v .gone r) = true
    rw [upd_other _ _ _ _ hrv]; exact hh
  · cases hs

theorem init_G6 (r : Fin n) : G6 r (init r) := by
  refine ⟨?_, ?_, ?_, ?_, ?_, ?_, ?_, ?_⟩
  · intro p _; simp [init, okOrder]
  · intro v _ _ hpr; simp [init, hasPReport] at hpr
  · intro p src _ hrf; simp [init, hasReportFrom] at hrf
  · intro v e j _ hm; simp [init] at hm
  · intro v t e j _ hm; simp [init] at hm
  · intro v src e j _ hm; simp [init] at hm
  · intro v t src e j _ hm; simp [init] at hm
  · intro v _ _ hjn; simp [init] at hjn

theorem step_G6 {r : Fin n} {s s' : St n} (h1 : G1 r s) (h3 : G3 r s) (h4 : G4 r s) (h : G6 r s) (e : Ev n)
    (hs : step r s e = some s') : G6 r s' := by
  cases e with
  | waitRet v => exact stepWaitRet_G6 h v hs
  | deq v => exact stepDeq_G6 h1 h4 h v hs
  | pollEmpty v => exact stepPollEmpty_G6 h1 h v hs
  | send v o => exact stepSend_G6 h1 h v o hs
  | ackSelf v => exact stepAckSelf_G6 h1 h v hs
  | searchResult v => exact stepSearchResult_G6 h1 h4 h v hs
  | searchLeave v m => exact stepSearchLeave_G6 h1 h v m hs
  | spawn v p => exact stepSpawn_G6 h v p hs
  | tend v => exact stepTend_G6 h v hs
  | exit v => exact stepExit_G6 h v hs
  | eRdPre x => exact (stepEmisc_G6 h1 h).1 x hs
  | eRd x b => exact (stepEmisc_G6 h1 h).2.1 x b hs
  | eOpts k => exact (stepEmisc_G6 h1 h).2.2 k hs
  | eStopSend => exact stepE_G6 h1 h4 h .eStopSend hs
  | eBegin => exact stepE_G6 h1 h4 h .eBegin hs
  | eInit => exact stepE_G6 h1 h4 h .eInit hs
  | eJobNext => exact stepE_G6 h1 h4 h .eJobNext hs
  | eSearchDone => exact stepE_G6 h1 h4 h .eSearchDone hs
  | eHoldDone => exact stepE_G6 h1 h4 h .eHoldDone hs
  | eBest => exact stepE_G6 h1 h4 h .eBest hs
  | eSearchEnd => exact stepE_G6 h1 h4 h .eSearchEnd hs
  | eQuitSend => exact stepE_G6 h1 h4 h .eQuitSend hs
  | pWr x b => exact stepP_G6 h1 h3 h4 h (.pWr x b) hs
  | pWd x => exact stepP_G6 h1 h3 h4 h (.pWd x) hs
  | pWaitStop => exact stepP_G6 h1 h3 h4 h .pWaitStop hs
  | pWaitOpts => exact stepP_G6 h1 h3 h4 h .pWaitOpts hs
  | pSetOpt => exact stepP_G6 h1 h3 h4 h .pSetOpt hs
  | pNotify t => exact stepP_G6 h1 h3 h4 h (.pNotify t) hs

theorem reach_G6 {r : Fin n} {s : St n} (h : Reach r s) : G6 r s := by
  induction h with
  | init => exact init_G6 r
  | step s s' e hr hs ih => exact step_G6 (reach_G1 hr) (reach_G3 hr) (reach_G4 hr) ih e hs

end Conc
