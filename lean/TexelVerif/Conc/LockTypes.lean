/-! Record types of the facts that `tools/locktie.py` extracts from the C++ source of the thread layer
    (`Generated/LockFacts.lean`).  Plain data, no imports: the generated file depends only on this module. -/
namespace Conc.LockTie

/-- a lock that is held: the mutex data member (`Class::member`) and the object it belongs to (`this`, or the text of the object expression) -/
structure Lock where
  mutex : String
  base : String
deriving DecidableEq, Repr

/-- a data member of a thread-layer class -/
structure Member where
  cls : String
  name : String
  type : String
  isConst : Bool      -- const-qualified or a reference: cannot be written after construction
  atomicTy : Bool     -- std::atomic<…> or RelaxedShared<…> (not a pointer to one)
  file : String
  line : Nat
deriving DecidableEq, Repr

/-- one access site -/
structure Access where
  cls : String
  name : String
  base : String       -- object whose member is accessed
  fn : String         -- enclosing function (qualified), lambdas as `f::<lambda@line>`
  file : String
  line : Nat
  col : Nat
  write : Bool
  locks : List Lock   -- lexically held at this point
  atomicTy : Bool     -- the accessed expression has atomic type
  ctor : Bool         -- inside a constructor
deriving DecidableEq, Repr

/-- a member with all its access sites (the generated facts are grouped by member so that a check resolves the table row once per member) -/
structure Group where
  member : Member
  sites : List Access
deriving DecidableEq, Repr

structure Var where
  cls : String
  name : String
  base : String
deriving DecidableEq, Repr

/-- `cv.wait(L)` / `cv.wait(L, pred)` / `wait_for` / `wait_until` -/
structure Wait where
  cv : String
  cvbase : String
  call : String
  fn : String
  file : String
  line : Nat
  mutex : Option Lock -- mutex of the lock argument
  held : Bool         -- that lock is held at the call
  looped : Bool       -- predicate re-tested in a loop (or predicate overload)
  preds : List Var    -- members read by the enclosing loop / if / the predicate lambda
deriving DecidableEq, Repr

structure Written where
  var : Var
  locks : List Lock
deriving DecidableEq, Repr

/-- `cv.notify_one/all` (or `Notifier::notify` on a Notifier object, cv = `Notifier:<object>`) -/
structure Notify where
  cv : String
  cvbase : String
  call : String
  fn : String
  file : String
  line : Nat
  locks : List Lock
  inside : Bool            -- a lock is held at the call
  written : List Written   -- members written in the current (inside) or the most recently closed critical section of the function
deriving DecidableEq, Repr

end Conc.LockTie
