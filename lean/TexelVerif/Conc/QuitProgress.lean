import TexelVerif.Conc.StepG8
/-! The engine thread waits in the quit-ack loop only while acks are outstanding; the quit-ack
    collection cannot get stuck. -/
namespace Conc

variable {n : Nat}

theorem step_eqw_cases {r : Fin n} {s s' : St n} (h1 : G1 r s) (h8 : G8 r s) (e : Ev n) (hs : step r s e = some s') :
    (s'.pc r = s.pc r ∧ s'.quitWait r = s.quitWait r) ∨ postQuitPc (s'.pc r) = false ∨
    (postQuitPc (s.pc r) = true ∧ s'.quitWait r = s.quitWait r ∧ (s'.pc r = .eqwait → s.quitWait r ≠ 0)) ∨
    (0 ≤ s'.quitWait r ∧ s'.pc r ≠ .eqwait) := by
  have hra := h1.rootAlive
  have rootpc : ∀ v, s.alive v = true → isEnginePc (s.pc v) = false → r ≠ v := by
    intro v hv hk e; subst e
    have := (h1.pcKind r hv).2 rfl
    rw [hk] at this; cases this
  cases e with
  | waitRet v =>
    simp only [step, stepWaitRet] at hs
    split at hs
    · rename_i hg; cases hs
      by_cases hrv : r = v
      · subst hrv
        cases hp : s.pc r <;> simp [hp, isWaitPc] at hg
        · right; left; simp [afterWait, postQuitPc]
        · right; left; simp [afterWait, postQuitPc]
        · right; left; simp [afterWait, postQuitPc]
        · right; right; left
          refine ⟨rfl, rfl, ?_⟩
          intro hh; simp [afterWait] at hh
      · left; exact ⟨by simp [hrv], rfl⟩
    · cases hs
  | deq v =>
    simp only [step, stepDeq] at hs
    split at hs
    · rename_i hg
      split at hs
      · cases hs
      · rename_i c rest _
        split at hs
        · rename_i hpc; cases hs
          have hrv := rootpc v hg.1 (by rw [hpc]; rfl)
          obtain ⟨a, b⟩ := handleW_quitWait_other { s with q := upd s.q v rest } v r c hrv
          left; exact ⟨by rw [b], a⟩
        · rename_i j hpc; cases hs
          have hrv := rootpc v hg.1 (by rw [hpc]; rfl)
          obtain ⟨a, b⟩ := handleW_quitWait_other { s with q := upd s.q v rest } v r c hrv
          left; exact ⟨by rw [b], a⟩
        · cases hs; left; exact ⟨rfl, rfl⟩
        · cases hs; left; cases c <;> exact ⟨rfl, rfl⟩
        · rename_i hpc; cases hs
          have hvr : v = r := h1.root_pc hg.1 (by rw [hpc]; rfl)
          subst hvr
          have hpcs : (handleE { s with q := upd s.q v rest } v .equit c).pc = s.pc := by cases c <;> rfl
          by_cases hca : ∃ d, c = Cmd.quitAck d
          · obtain ⟨d, hd⟩ := hca
            subst hd
            right; right; right
            rename_i hq
            have hcs : isChild s v d = true := h1.qOk v (Cmd.quitAck d) hg.1 (by rw [hq]; exact List.mem_cons_self)
            have hdd : 1 ≤ qdebt s v d := by
              unfold qdebt qackIn; rw [hq, cQAck_cons]; simp; omega
            have hnm1 : s.quitWait v ≠ -1 := by
              intro e; have := (h8.qzero v d hcs e).2; omega
            have hge0 : 0 ≤ s.quitWait v := by have := h8.qrange v hg.1; omega
            have hsum := h8.qsum v hg.1 hge0
            have hge : qdebt s v d ≤ sumCh s v (qdebt s v) := sumCh_ge s v _ d hcs
            refine ⟨?_, by rw [hpcs, hpc]; simp⟩
            show 0 ≤ (upd s.quitWait v (s.quitWait v - 1)) v
            rw [upd_same, hsum]
            have : (1 : Int) ≤ ((sumCh s v (qdebt s v) : Nat) : Int) := by exact_mod_cast (by omega : 1 ≤ sumCh s v (qdebt s v))
            omega
          · left
            refine ⟨by rw [hpcs], ?_⟩
            cases c <;> first | rfl | (exfalso; exact hca ⟨_, rfl⟩)
        · cases hs
    · cases hs
  | pollEmpty v =>
    simp only [step, stepPollEmpty] at hs
    split at hs
    · rename_i hg
      split at hs
      · rename_i hpc; cases hs
        have hrv := rootpc v hg.1 (by rw [hpc]; rfl)
        left; exact ⟨by simp [hrv], rfl⟩
      · cases hs; left; exact ⟨rfl, rfl⟩
      · cases hs; left; exact ⟨rfl, rfl⟩
      · rename_i hpc
        have hvr : v = r := h1.root_pc hg.1 (by rw [hpc]; rfl)
        subst hvr
        split at hs <;> cases hs <;> (right; left; simp [postQuitPc])
      · rename_i hpc; cases hs
        have hvr : v = r := h1.root_pc hg.1 (by rw [hpc]; rfl)
        subst hvr
        right; right; left
        refine ⟨by rw [hpc]; rfl, rfl, ?_⟩
        intro hh
        have : upd s.pc v (if s.quitWait v = 0 then Pc.edone else Pc.eqwait) v = .eqwait := hh
        rw [upd_same] at this
        intro hz; rw [if_pos hz] at this; cases this
      · cases hs
    · cases hs
  | send v o =>
    simp only [step, stepSend] at hs
    split at hs
    · cases hs; left; cases o <;> exact ⟨rfl, rfl⟩
    · cases hs
  | ackSelf v =>
    simp only [step, stepAckSelf] at hs
    split at hs
    · rename_i hg
      split at hs
      · rename_i hpc
        have hrv := rootpc v hg.1 (by rw [hpc]; rfl)
        split at hs <;> cases hs <;> (left; exact ⟨by simp [hrv], rfl⟩)
      · rename_i hpc; cases hs
        have hvr : v = r := h1.root_pc hg.1 (by rw [hpc]; rfl)
        subst hvr
        right; left; simp [postQuitPc]
      · cases hs
    · cases hs
  | searchResult v =>
    simp only [step, stepSearchResult] at hs
    split at hs
    · split at hs
      · split at hs <;> cases hs <;> (left; exact ⟨rfl, rfl⟩)
      · cases hs
    · cases hs
  | searchLeave v m =>
    simp only [step, stepSearchLeave] at hs
    split at hs
    · rename_i hg
      split at hs
      · rename_i j hpc
        have hrv := rootpc v hg.1 (by rw [hpc]; rfl)
        split at hs
        · cases hs; left; exact ⟨by simp [hrv], rfl⟩
        · split at hs <;> cases hs; left; exact ⟨by simp [hrv], rfl⟩
      · cases hs
    · cases hs
  | spawn v p =>
    simp only [step, stepSpawn] at hs
    split at hs
    · rename_i hg
      have hrv : r ≠ v := fun e => hg.2.2.1 e.symm
      cases hs; left; exact ⟨by simp [hrv], by simp [hrv]⟩
    · cases hs
  | tend v =>
    simp only [step, stepTend] at hs
    split at hs
    · rename_i hg
      have hrv : r ≠ v := fun e => hg.2.1 e.symm
      cases hs; left; exact ⟨by simp [hrv], rfl⟩
    · cases hs
  | exit v =>
    simp only [step, stepExit] at hs
    split at hs <;> cases hs; left; exact ⟨rfl, rfl⟩
  | eRdPre x =>
    simp only [step, stepERdPre] at hs
    split at hs
    · split at hs <;> cases hs <;> first | (left; exact ⟨rfl, rfl⟩) | (right; left; simp [setPc, postQuitPc])
    · cases hs
  | eRd x b =>
    simp only [step, stepERd] at hs
    split at hs
    · split at hs
      · split at hs <;> cases hs; right; left; cases b <;> simp [setPc, postQuitPc]
      · split at hs <;> cases hs; right; left; cases b <;> simp [setPc, postQuitPc]
      · cases hs
    · cases hs
  | eOpts k =>
    simp only [step, stepEOpts] at hs
    split at hs
    · split at hs
      · cases hs; cases k
        · right; left; simp [setPc, postQuitPc]
        · left; exact ⟨rfl, rfl⟩
      · cases hs; cases k
        · right; left; simp [setPc, postQuitPc]
        · left; exact ⟨rfl, rfl⟩
      · cases hs
    · cases hs
  | pWr x b =>
    simp only [step, stepP] at hs
    cases x <;> simp only [stepPWr] at hs <;> try (cases hs)
    all_goals (split at hs <;> first | (cases hs; left; exact ⟨rfl, rfl⟩) | cases hs)
  | pWd x =>
    simp only [step, stepP] at hs
    cases x <;> simp only [stepPWd] at hs <;> try (cases hs)
    all_goals (split at hs <;> first | (cases hs; left; exact ⟨rfl, rfl⟩) | cases hs)
  | pWaitStop => simp only [step, stepP] at hs; split at hs <;> cases hs; left; exact ⟨rfl, rfl⟩
  | pWaitOpts => simp only [step, stepP] at hs; split at hs <;> cases hs; left; exact ⟨rfl, rfl⟩
  | pSetOpt => simp only [step, stepP] at hs; split at hs <;> cases hs; left; exact ⟨rfl, rfl⟩
  | pNotify t => simp only [step, stepP] at hs; cases hs; left; exact ⟨rfl, rfl⟩
  | eBegin => simp only [step, stepE] at hs; split at hs <;> cases hs; right; left; simp [setPc, postQuitPc]
  | eInit => simp only [step, stepE] at hs; split at hs <;> cases hs; right; left; simp [setPc, postQuitPc]
  | eJobNext => simp only [step, stepE] at hs; split at hs <;> cases hs; left; exact ⟨rfl, rfl⟩
  | eSearchDone => simp only [step, stepE] at hs; split at hs <;> cases hs; right; left; simp [setPc, postQuitPc]
  | eHoldDone =>
    simp only [step, stepE] at hs
    split at hs
    · split at hs <;> cases hs <;> (right; left; simp [setPc, postQuitPc])
    · cases hs
  | eBest =>
    simp only [step, stepE] at hs
    split at hs
    · split at hs
      · rename_i ws _; cases hs; right; left; cases ws <;> simp [setPc, postQuitPc]
      · cases hs
    · cases hs
  | eStopSend => simp only [step, stepE] at hs; split at hs <;> cases hs; right; left; simp [setPc, postQuitPc]
  | eSearchEnd => simp only [step, stepE] at hs; split at hs <;> cases hs; right; left; simp [setPc, postQuitPc]
  | eQuitSend =>
    simp only [step, stepE] at hs
    split at hs
    · cases hs
      right; right; right
      split
      · refine ⟨?_, by simp [setPc]⟩
        show 0 ≤ (upd s.quitWait r 0) r
        rw [upd_same]; omega
      · refine ⟨?_, by simp [setPc]⟩
        show 0 ≤ (upd s.quitWait r (nChildren s r : Nat)) r
        rw [upd_same]; omega
    · cases hs

/-- after `sendQuit` the root's counter is non-negative, and the engine thread waits in the quit-ack loop only
    while QUIT_ACKs are outstanding -/
theorem eqwait_outstanding {r : Fin n} {s : St n} (h : Reach r s) :
    (postQuitPc (s.pc r) = true → 0 ≤ s.quitWait r) ∧ (s.pc r = .eqwait → s.quitWait r ≠ 0) := by
  induction h with
  | init => exact ⟨by intro hp; simp [init, postQuitPc] at hp, by intro hp; simp [init] at hp⟩
  | step s s' e hr hs ih =>
    rcases step_eqw_cases (reach_G1 hr) (reach_G8 hr) e hs with ⟨a, b⟩ | a | ⟨a, b, c⟩ | ⟨a, b⟩
    · exact ⟨by rw [a, b]; exact ih.1, by rw [a, b]; exact ih.2⟩
    · refine ⟨fun hp => (by rw [a] at hp; cases hp), fun hp => ?_⟩
      rw [hp] at a; cases a
    · exact ⟨fun _ => by rw [b]; exact ih.1 a, fun hp => by rw [b]; exact c hp⟩
    · exact ⟨fun _ => a, fun hp => absurd hp b⟩

/-- a communicator with outstanding QUIT_ACKs cannot be blocked together with its whole subtree -/
theorem no_stuck_quit {r : Fin n} {s : St n} (h1 : G1 r s) (h2 : G2 r s) (h5 : G5 r s) (h8 : G8 r s)
    (hng : ∀ v, s.alive v = true → s.pc v ≠ .gone)
    (hall : ∀ v, s.alive v = true → Blocked s v) :
    ∀ k p, sumAll s.depth - s.depth p = k → s.alive p = true → 0 < s.quitWait p → s.out p = [] → s.q p = [] → False := by
  intro k
  induction k using Nat.strongRecOn with
  | _ k ih =>
    intro p hk hp hqw hop hqp
    have hsum := h8.qsum p hp (by omega)
    have hpos : 0 < sumCh s p (qdebt s p) := by
      have : (0 : Int) < ((sumCh s p (qdebt s p) : Nat) : Int) := by rw [← hsum]; exact hqw
      exact_mod_cast this
    obtain ⟨c, hc, hd⟩ := sumCh_pos s p _ hpos
    have hca : s.alive c = true := ((isChild_iff s p c).1 hc).1
    have hcr : c ≠ r := h1.child_ne_root hc
    have hbc := hall c hca
    have hoc : s.out c = [] := hbc.1
    have hk' : isEnginePc (s.pc c) = false := by
      cases hh : isEnginePc (s.pc c)
      · rfl
      · exact absurd ((h1.pcKind c hca).1 hh) hcr
    -- where is the blocked child?
    have hcase : (s.pc c = .wait ∧ s.q c = []) ∨ (s.pc c = .done ∧ s.quitWait c = 0) := by
      rcases hbc.2 with ⟨hw, hf⟩ | hd' | hd' | hd'
      · left
        have hpw : s.pc c = .wait := by
          cases hp' : s.pc c <;> simp [hp', isWaitPc] at hw <;> simp [hp', isEnginePc] at hk' <;> rfl
        exact ⟨hpw, h2.nq c hca (by rw [hpw]; rfl) hf⟩
      · right; exact ⟨hd', h5.dn c hca hd'⟩
      · rw [hd'] at hk'; cases hk'
      · exact absurd hd' (hng c hca)
    unfold qdebt quitIn qackIn at hd
    rw [hop, hqp, hoc] at hd
    simp only [pQuit_nil, pQAck_nil, cQAck, List.count_nil, Nat.add_zero] at hd
    rcases hcase with ⟨hpw, hqc⟩ | ⟨hpd, hq0⟩
    · rw [hqc] at hd
      simp only [cQuit, List.count_nil, Nat.zero_add] at hd
      have hqwc : 0 < s.quitWait c := by
        by_cases hh : 0 < s.quitWait c
        · exact hh
        · rw [if_neg hh] at hd; omega
      have hdep := h1.dep c p hca ((isChild_iff s p c).1 hc).2
      have hle : s.depth c ≤ sumAll s.depth := sumAll_ge s.depth c
      exact ih (sumAll s.depth - s.depth c) (by omega) c rfl hca hqwc hoc hqc
    · -- a helper that has left its loop has no QUIT on its way and owes nothing
      have hz : ¬ (0 < s.quitWait c) := by rw [hq0]; decide
      rw [if_neg hz] at hd
      have hqi : 0 < quitIn s p c := by unfold quitIn; rw [hop]; simp only [pQuit_nil]; omega
      have := h8.qpre p c hc hqi
      rw [hq0] at this; cases this

/-- **no stuck quit-ack collection**: if every thread is blocked, the engine thread is not waiting for QUIT_ACKs -/
theorem quit_not_stuck {r : Fin n} {s : St n} (hr : Reach r s) (hall : ∀ v, s.alive v = true → Blocked s v) :
    s.pc r ≠ .eqwait := by
  intro hpc
  have h1 := reach_G1 hr
  have h2 := reach_G2 hr
  have h5 := reach_G5 hr
  have h8 := reach_G8 hr
  have hra := h1.rootAlive
  have hb := hall r hra
  have hfl : s.flag r = false := by
    rcases hb.2 with ⟨_, hf⟩ | hd | hd | hd
    · exact hf
    · rw [hpc] at hd; cases hd
    · rw [hpc] at hd; cases hd
    · rw [hpc] at hd; cases hd
  have hqr : s.q r = [] := h2.nq r hra (by rw [hpc]; rfl) hfl
  obtain ⟨e1, e2⟩ := eqwait_outstanding hr
  have hge := e1 (by rw [hpc]; rfl)
  have hne := e2 hpc
  have hng : ∀ v, s.alive v = true → s.pc v ≠ .gone := by
    intro v hv hg
    have := (reach_G7 hr).gn v hv hg
    have hact := (reach_G3 hr).q1 (by rw [hpc]; rfl)
    simp [Reg.active, this.2.2.1, this.2.2.2] at hact
  exact no_stuck_quit h1 h2 h5 h8 hng hall _ r rfl hra (by omega) hb.1 hqr

end Conc
