import TexelVerif.Conc.InvAux
/-! Progress: a state in which every thread is blocked is never inside a stop-ack collection, and a
    thread that is not blocked has an enabled step of its own. -/
namespace Conc

variable {n : Nat}

/-- the thread owning `v` cannot move: nothing pending, and either inside `Notifier::wait` with the flag clear or terminated -/
def Blocked (s : St n) (v : Fin n) : Prop :=
  s.out v = [] ∧ ((isWaitPc (s.pc v) = true ∧ s.flag v = false) ∨ s.pc v = .done ∨ s.pc v = .edone ∨ s.pc v = .gone)

theorem sumCh_pos (s : St n) (p : Fin n) (f : Fin n → Nat) (h : 0 < sumCh s p f) : ∃ c, isChild s p c = true ∧ 0 < f c := by
  apply Classical.byContradiction
  intro hne
  have : sumCh s p f = 0 := by
    unfold sumCh
    apply sumAll_zero
    intro c
    cases hc : isChild s p c
    · simp
    · simp only [if_true]
      cases hf : f c with
      | zero => rfl
      | succ k => exact absurd ⟨c, hc, by omega⟩ hne
  omega

/-- a blocked helper has an empty queue (while the engine thread is not quitting) -/
theorem blocked_helper_queue {r : Fin n} {s : St n} (h1 : G1 r s) (h2 : G2 r s) (h5 : G5 r s) (hq : quitPc (s.pc r) = false)
    (hng : ∀ v, s.alive v = true → s.pc v ≠ .gone)
    {c : Fin n} (hc : s.alive c = true) (hcr : c ≠ r) (hb : Blocked s c) : s.q c = [] ∧ s.pc c = .wait := by
  obtain ⟨_, hb⟩ := hb
  have hk : isEnginePc (s.pc c) = false := by
    cases hh : isEnginePc (s.pc c)
    · rfl
    · exact absurd ((h1.pcKind c hc).1 hh) hcr
  rcases hb with ⟨hw, hf⟩ | hd | hd | hd
  · have hpw : s.pc c = .wait := by
      cases hp : s.pc c <;> simp [hp, isWaitPc] at hw <;> simp [hp, isEnginePc] at hk <;> rfl
    exact ⟨h2.nq c hc (by rw [hpw]; rfl) hf, hpw⟩
  · have := h5.dn c hc hd
    have := h2.qphase c hc (Or.inr (Or.inr (by rw [this]; decide)))
    rw [hq] at this; cases this
  · rw [hd] at hk; cases hk
  · exact absurd hd (hng c hc)

/-- a helper with outstanding child acks cannot be blocked together with its whole subtree -/
theorem no_stuck_round {r : Fin n} {s : St n} (h1 : G1 r s) (h2 : G2 r s) (h5 : G5 r s) (hq : quitPc (s.pc r) = false)
    (hng : ∀ v, s.alive v = true → s.pc v ≠ .gone)
    (hall : ∀ v, s.alive v = true → Blocked s v) :
    ∀ k p, sumAll s.depth - s.depth p = k → s.alive p = true → 0 < s.childWait p → s.out p = [] → s.q p = [] → False := by
  intro k
  induction k using Nat.strongRecOn with
  | _ k ih =>
    intro p hk hp hcw hop hqp
    rw [h1.sum p hp] at hcw
    obtain ⟨c, hc, hd⟩ := sumCh_pos s p _ hcw
    have hca : s.alive c = true := ((isChild_iff s p c).1 hc).1
    have hcr : c ≠ r := h1.child_ne_root hc
    have hbc := hall c hca
    obtain ⟨hqc, hpcc⟩ := blocked_helper_queue h1 h2 h5 hq hng hca hcr hbc
    have hoc : s.out c = [] := hbc.1
    unfold debt at hd
    rw [hqc, hop, hqp, hoc] at hd
    -- only the "c is inside its round" term is left
    have hir : inRound s c = true := by
      cases hh : inRound s c
      · rw [hh] at hd; simp [cStop, pStop, cAck, pAck] at hd
      · rfl
    simp only [inRound, Bool.or_eq_true, decide_eq_true_eq] at hir
    rcases hir with hsw | hcwc
    · have := h2.ns c hca hsw
      rw [hpcc] at this; cases this
    · have hdep := h1.dep c p hca ((isChild_iff s p c).1 hc).2
      have hle : s.depth c ≤ sumAll s.depth := sumAll_ge s.depth c
      exact ih (sumAll s.depth - s.depth c) (by omega) c rfl hca hcwc hoc hqc

/-- **no stuck ack collection**: if every thread is blocked, the engine thread is not waiting for stop acks -/
theorem collect_not_stuck {r : Fin n} {s : St n} (hr : Reach r s) (hall : ∀ v, s.alive v = true → Blocked s v) :
    s.pc r ≠ .ecwait := by
  intro hpc
  have h1 := reach_G1 hr
  have h2 := reach_G2 hr
  have h5 := reach_G5 hr
  have hra := h1.rootAlive
  have hir := h5.ecw hpc
  have hb := hall r hra
  have hfl : s.flag r = false := by
    rcases hb.2 with ⟨_, hf⟩ | hd | hd | hd
    · exact hf
    · rw [hpc] at hd; cases hd
    · rw [hpc] at hd; cases hd
    · rw [hpc] at hd; cases hd
  have hqr : s.q r = [] := h2.nq r hra (by rw [hpc]; rfl) hfl
  have hsw : s.selfWait r = false := by
    cases hh : s.selfWait r
    · rfl
    · have := h2.ns r hra hh; rw [hpc] at this; cases this
  have hcw : 0 < s.childWait r := by
    simp [inRound, hsw] at hir; exact hir
  have hng : ∀ v, s.alive v = true → s.pc v ≠ .gone := by
    intro v hv hg
    have := (reach_G7 hr).gn v hv hg
    have hact := (reach_G3 hr).s1 (by rw [hpc]; rfl)
    simp [Reg.active, this.1, this.2.1] at hact
  exact no_stuck_round h1 h2 h5 (by rw [hpc]; rfl) hng hall _ r rfl hra hcw hb.1 hqr

/-- events performed by the thread that owns communicator `v` (the engine thread for `v = r`) -/
def Own (r v : Fin n) : Ev n → Prop
  | .waitRet w => w = v
  | .deq w => w = v
  | .pollEmpty w => w = v
  | .send w _ => w = v
  | .ackSelf w => w = v
  | .searchResult w => w = v
  | .searchLeave w _ => w = v
  | .tend w => w = v
  | .eRdPre _ => v = r
  | .eRd _ _ => v = r
  | .eOpts _ => v = r
  | .eBegin => v = r
  | .eInit => v = r
  | .eJobNext => v = r
  | .eSearchDone => v = r
  | .eHoldDone => v = r
  | .eBest => v = r
  | .eStopSend => v = r
  | .eSearchEnd => v = r
  | .eQuitSend => v = r
  | _ => False

/-- a thread that is not blocked has an enabled step of its own (the engine thread's critical sections
    need `EngineMainThread::mutex`, i.e. no store window of the protocol thread open) -/
theorem thread_enabled {r : Fin n} {s : St n} (h1 : G1 r s) (h5 : G5 r s) (v : Fin n) (va : s.alive v = true)
    (hnb : ¬ Blocked s v) (hwin : s.search.nxt = none ∧ s.quitF.nxt = none) :
    ∃ e, Own r v e ∧ (step r s e).isSome = true := by
  cases hout : s.out v with
  | cons o l =>
    exact ⟨.send v o, rfl, by simp [step, stepSend, va, hout]⟩
  | nil =>
    have hkind := h1.pcKind v va
    have hwait : isWaitPc (s.pc v) = true → s.flag v = true := by
      intro hw
      cases hf : s.flag v
      · exact absurd ⟨hout, Or.inl ⟨hw, hf⟩⟩ hnb
      · rfl
    have hq : (∃ c rest, s.q v = c :: rest) ∨ s.q v = [] := by
      cases hh : s.q v with
      | nil => exact Or.inr rfl
      | cons c rest => exact Or.inl ⟨c, rest, rfl⟩
    cases hpc : s.pc v with
    | wait => exact ⟨.waitRet v, rfl, by simp [step, stepWaitRet, va, hout, hpc, isWaitPc, hwait (by rw [hpc]; rfl)]⟩
    | poll =>
      rcases hq with ⟨c, rest, hh⟩ | hh
      · exact ⟨.deq v, rfl, by simp [step, stepDeq, va, hout, hpc, hh]⟩
      · exact ⟨.pollEmpty v, rfl, by simp [step, stepPollEmpty, va, hout, hpc, hh]⟩
    | search j => exact ⟨.searchLeave v true, rfl, by simp [step, stepSearchLeave, va, hout, hpc]⟩
    | ackSelf =>
      refine ⟨.ackSelf v, rfl, ?_⟩
      simp only [step, stepAckSelf, va, hout, hpc]
      cases s.selfWait v <;> simp
    | done => exact absurd ⟨hout, Or.inr (Or.inl hpc)⟩ hnb
    | edone => exact absurd ⟨hout, Or.inr (Or.inr (Or.inl hpc))⟩ hnb
    | gone => exact absurd ⟨hout, Or.inr (Or.inr (Or.inr hpc))⟩ hnb
    | ewait => exact ⟨.waitRet v, rfl, by simp [step, stepWaitRet, va, hout, hpc, isWaitPc, hwait (by rw [hpc]; rfl)]⟩
    | ecwait => exact ⟨.waitRet v, rfl, by simp [step, stepWaitRet, va, hout, hpc, isWaitPc, hwait (by rw [hpc]; rfl)]⟩
    | eqwait => exact ⟨.waitRet v, rfl, by simp [step, stepWaitRet, va, hout, hpc, isWaitPc, hwait (by rw [hpc]; rfl)]⟩
    | eQ0 =>
      have hvr : v = r := hkind.1 (by rw [hpc]; rfl)
      subst hvr
      exact ⟨.eRdPre .quit, rfl, by simp [step, stepERdPre, hout, hpc]⟩
    | eQ1 =>
      have hvr : v = r := hkind.1 (by rw [hpc]; rfl)
      subst hvr
      rcases h5.rdq hpc with hh | hh
      · exact ⟨.eRd .quit false, rfl, by simp [step, stepERd, hout, hpc, Reg.seen, hh]⟩
      · exact ⟨.eRd .quit true, rfl, by simp [step, stepERd, hout, hpc, Reg.seen, hh]⟩
    | eOpts1 =>
      have hvr : v = r := hkind.1 (by rw [hpc]; rfl)
      subst hvr
      exact ⟨.eOpts s.pend, rfl, by simp [step, stepEOpts, hout, hpc, hwin.1, hwin.2]⟩
    | eS0 =>
      have hvr : v = r := hkind.1 (by rw [hpc]; rfl)
      subst hvr
      exact ⟨.eRdPre .search, rfl, by simp [step, stepERdPre, hout, hpc]⟩
    | eS1 =>
      have hvr : v = r := hkind.1 (by rw [hpc]; rfl)
      subst hvr
      rcases h5.rds hpc with hh | hh
      · exact ⟨.eRd .search false, rfl, by simp [step, stepERd, hout, hpc, Reg.seen, hh]⟩
      · exact ⟨.eRd .search true, rfl, by simp [step, stepERd, hout, hpc, Reg.seen, hh]⟩
    | eBegin =>
      have hvr : v = r := hkind.1 (by rw [hpc]; rfl)
      subst hvr
      exact ⟨.eBegin, rfl, by simp [step, stepE, hout, hpc]⟩
    | eGo =>
      have hvr : v = r := hkind.1 (by rw [hpc]; rfl)
      subst hvr
      exact ⟨.eInit, rfl, by simp [step, stepE, hout, hpc]⟩
    | esearch =>
      have hvr : v = r := hkind.1 (by rw [hpc]; rfl)
      subst hvr
      exact ⟨.eSearchDone, rfl, by simp [step, stepE, hout, hpc]⟩
    | ehold ws =>
      have hvr : v = r := hkind.1 (by rw [hpc]; rfl)
      subst hvr
      exact ⟨.eRdPre .hold, rfl, by simp [step, stepERdPre, hout, hpc]⟩
    | ebest ws =>
      have hvr : v = r := hkind.1 (by rw [hpc]; rfl)
      subst hvr
      exact ⟨.eBest, rfl, by simp [step, stepE, hout, hpc]⟩
    | estop =>
      have hvr : v = r := hkind.1 (by rw [hpc]; rfl)
      subst hvr
      exact ⟨.eStopSend, rfl, by simp [step, stepE, hout, hpc]⟩
    | eack => exact ⟨.ackSelf v, rfl, by simp [step, stepAckSelf, va, hout, hpc]⟩
    | ecollect =>
      rcases hq with ⟨c, rest, hh⟩ | hh
      · exact ⟨.deq v, rfl, by simp [step, stepDeq, va, hout, hpc, hh]⟩
      · refine ⟨.pollEmpty v, rfl, ?_⟩
        simp only [step, stepPollEmpty, va, hout, hpc, hh]
        simp
        split <;> simp
    | epost =>
      have hvr : v = r := hkind.1 (by rw [hpc]; rfl)
      subst hvr
      exact ⟨.eOpts s.pend, rfl, by simp [step, stepEOpts, hout, hpc, hwin.1, hwin.2]⟩
    | eend =>
      have hvr : v = r := hkind.1 (by rw [hpc]; rfl)
      subst hvr
      exact ⟨.eSearchEnd, rfl, by simp [step, stepE, hout, hpc, hwin.1, hwin.2]⟩
    | eQuit0 =>
      have hvr : v = r := hkind.1 (by rw [hpc]; rfl)
      subst hvr
      exact ⟨.eQuitSend, rfl, by simp [step, stepE, hout, hpc]⟩
    | equit =>
      rcases hq with ⟨c, rest, hh⟩ | hh
      · exact ⟨.deq v, rfl, by simp [step, stepDeq, va, hout, hpc, hh]⟩
      · exact ⟨.pollEmpty v, rfl, by simp [step, stepPollEmpty, va, hout, hpc, hh]⟩

end Conc
