import TexelVerif.Conc.StepG4b
/-! `G4` is preserved by the dequeue step. -/
namespace Conc

variable {n : Nat}

theorem pStop_nil (d : Fin n) : pStop ([] : List (Out n)) d = 0 := by simp [pStop]
theorem pAck_nil (p d : Fin n) : pAck ([] : List (Out n)) p d = 0 := by simp [pAck]

/-- handlers of a helper that do not touch stop / ack traffic: INIT, START, QUIT, REPORT_RESULT, QUIT_ACK -/
theorem handleW_neutral_G4 {r : Fin n} {s : St n} (h1 : G1 r s) (h : G4 r s) (v : Fin n) (c : Cmd n) (rest : List (Cmd n))
    (va : s.alive v = true) (hne : v ≠ r) (hq : s.q v = c :: rest) (hout : s.out v = [])
    (hc1 : c ≠ Cmd.stop) (hc2 : ∀ d, c ≠ Cmd.ack d) :
    G4 r (handleW { s with q := upd s.q v rest } v c) := by
  have hrv : r ≠ v := fun e => hne e.symm
  have c1 : cStop rest = cStop (s.q v) := by rw [hq, cStop_cons]; simp [hc1]
  have c2 : ∀ d, cAck rest d = cAck (s.q v) d := by intro d; rw [hq, cAck_cons]; simp [hc2 d]
  have hR : ∀ s' : St n, s'.pc = s.pc → actR s r = true → actR s' r = true := by
    intro s' e hh; unfold actR at hh ⊢; rw [e]; exact hh
  have hstart_tail : hasStart rest = true → hasStart (s.q v) = true := by
    intro hh; rw [hq]; exact hasStart_tail hh
  -- common shape of the activity obligation when the job does not become set
  have oact_sub : ∀ (jb : Option Nat) (ol : List (Out n)), (jb = none ∨ jb = s.jobId v) → hasPStart ol = false →
      (jb.isSome || isSearch (s.pc v) || hasStart rest || hasPStart ol) = true → act s v = true := by
    intro jb ol hjb hol hh
    apply act_of_parts hh
    · intro e; rcases hjb with e' | e'
      · rw [e'] at e; cases e
      · rw [e'] at e; exact Or.inl e
    · intro e; exact Or.inr (Or.inl e)
    · intro e; exact Or.inr (Or.inr (Or.inl (hstart_tail e)))
    · intro e; rw [hol] at e; cases e
  cases c with
  | stop => exact absurd rfl hc1
  | ack d => exact absurd rfl (hc2 d)
  | init =>
    refine h.neutral v (s.pc v) rest (bcast s v .init) none rfl rfl rfl rfl rfl rfl rfl rfl (by simp [handleW])
      c1 c2 ?_ ?_ (fun _ _ => Or.inl rfl) (fun _ hx => Or.inl hx) ?_ (hR _ rfl)
    · intro d; rw [hout, pStop_bcast_ne s v _ (by simp), pStop_nil]
    · intro p d; rw [hout, pAck_bcast s v _ p d (by simp), pAck_nil]
    · intro _ hh; exact Or.inl (oact_sub none _ (Or.inl rfl) (hasPStart_bcast s v _ rfl) hh)
  | start e j =>
    have hnr : inRound s v = false := h1.startRound v va hne (Or.inl (by rw [hq, hasStart_cons]; simp [Cmd.isStart]))
    refine h.neutral v (s.pc v) rest (bcast s v (.start e j)) (some j) rfl rfl rfl rfl rfl rfl rfl rfl (by simp [handleW])
      c1 c2 ?_ ?_ ?_ (fun _ hx => Or.inl hx) ?_ (hR _ rfl)
    · intro d; rw [hout, pStop_bcast_ne s v _ (by simp), pStop_nil]
    · intro p d; rw [hout, pAck_bcast s v _ p d (by simp), pAck_nil]
    · intro _ hr; rw [hnr] at hr; cases hr
    · intro _ _; left
      unfold act; rw [hq, hasStart_cons]; simp [Cmd.isStart]
  | quit =>
    simp only [handleW]
    split
    · refine h.neutral v (s.pc v) rest (toParent s v (.quitAck v)) (s.jobId v) rfl rfl rfl rfl rfl rfl rfl (by simp) (by simp)
        c1 c2 ?_ ?_ (fun _ _ => Or.inr rfl) (fun _ hx => Or.inl hx) ?_ (hR _ rfl)
      · intro d; rw [hout, pStop_toParent s v _ (by simp), pStop_nil]
      · intro p d; rw [hout, pAck_toParent_ne s v _ (by simp), pAck_nil]
      · intro _ hh; exact Or.inl (oact_sub _ _ (Or.inr rfl) (hasPStart_toParent s v _ rfl) hh)
    · refine h.neutral v (s.pc v) rest (bcast s v .quit) (s.jobId v) rfl rfl rfl rfl rfl rfl rfl (by simp) (by simp)
        c1 c2 ?_ ?_ (fun _ _ => Or.inr rfl) (fun _ hx => Or.inl hx) ?_ (hR _ rfl)
      · intro d; rw [hout, pStop_bcast_ne s v _ (by simp), pStop_nil]
      · intro p d; rw [hout, pAck_bcast s v _ p d (by simp), pAck_nil]
      · intro _ hh; exact Or.inl (oact_sub _ _ (Or.inr rfl) (hasPStart_bcast s v _ rfl) hh)
  | report src e j =>
    simp only [handleW]
    split
    · refine h.neutral v (s.pc v) rest (toParent s v (.report v e j)) (s.jobId v) rfl rfl rfl rfl rfl rfl rfl (by simp) (by simp)
        c1 c2 ?_ ?_ (fun _ _ => Or.inr rfl) (fun _ hx => Or.inl hx) ?_ (hR _ rfl)
      · intro d; rw [hout, pStop_toParent s v _ (by simp), pStop_nil]
      · intro p d; rw [hout, pAck_toParent_ne s v _ (by simp), pAck_nil]
      · intro _ hh; exact Or.inl (oact_sub _ _ (Or.inr rfl) (hasPStart_toParent s v _ rfl) hh)
    · refine h.neutral v (s.pc v) rest (s.out v) (s.jobId v) rfl rfl rfl rfl rfl rfl (by simp) (by simp) (by simp)
        c1 c2 (fun _ => rfl) (fun _ _ => rfl) (fun _ _ => Or.inr rfl) (fun _ hx => Or.inl hx) ?_ (hR _ rfl)
      intro _ hh; exact Or.inl (oact_sub _ _ (Or.inr rfl) (by rw [hout]; rfl) hh)
  | quitAck src =>
    simp only [handleW]
    refine h.neutral v (s.pc v) rest _ (s.jobId v) rfl rfl rfl rfl rfl rfl rfl (by simp) (by simp)
      c1 c2 ?_ ?_ (fun _ _ => Or.inr rfl) (fun _ hx => Or.inl hx) ?_ (hR _ rfl)
    · intro d; rw [hout, pStop_nil]; split
      · exact pStop_toParent s v _ (by simp) d
      · exact pStop_nil d
    · intro p d; rw [hout, pAck_nil]; split
      · exact pAck_toParent_ne s v _ (by simp) p d
      · exact pAck_nil p d
    · intro _ hh
      refine Or.inl (oact_sub _ _ (Or.inr rfl) ?_ hh)
      split
      · exact hasPStart_toParent s v _ rfl
      · rfl

theorem pStop_stop_bcast (s : St n) (v c : Fin n) :
    pStop (Out.notify v :: bcast s v Cmd.stop) c = if isChild s v c = true then 1 else 0 := by
  rw [pStop_notify_cons, pStop_bcast]; simp

/-- STOP handler of a helper: the stop wave reaches `v` -/
theorem G4.stop_handler {r : Fin n} {s s' : St n} (h1 : G1 r s) (h : G4 r s) (v : Fin n) (rest : List (Cmd n))
    (va : s.alive v = true) (hne : v ≠ r) (hq : s.q v = Cmd.stop :: rest) (hout : s.out v = [])
    (ha : s'.alive = s.alive) (hp : s'.parent = s.parent)
    (hg : s'.gen = upd s.gen v (s.gen v + 1)) (hq' : s'.q = upd s.q v rest)
    (ho' : s'.out = upd s.out v (Out.notify v :: bcast s v .stop))
    (h3 : s'.selfWait = upd s.selfWait v true) (h4 : s'.childWait = upd s.childWait v (nChildren s v))
    (hj : s'.jobId = upd s.jobId v none) (hpc : s'.pc = s.pc) : G4 r s' := by
  have hic := isChild_congr ha hp
  have hrv : r ≠ v := fun e => hne e.symm
  obtain ⟨p0, hp0, hp0a⟩ := h1.par v va hne
  have hcp : isChild s p0 v = true := (isChild_iff s p0 v).2 ⟨va, hp0⟩
  have hp0v : p0 ≠ v := fun e => h1.child_ne hcp e.symm
  have hpar : ∀ p, isChild s p v = true → p = p0 := by
    intro p hc; have := ((isChild_iff s p v).1 hc).2; rw [hp0] at this; cases this; rfl
  -- facts about the edge (p0, v)
  have hle := h1.le1 p0 v hcp
  have hcs : cStop (s.q v) = cStop rest + 1 := by rw [hq, cStop_cons]; simp
  have hparts : cStop rest = 0 ∧ pStop (s.out p0) v = 0 ∧ inRound s v = false ∧ ackIn s p0 v = 0 := by
    rw [debt_split] at hle
    unfold stopIn at hle
    rw [hcs] at hle
    cases hir : inRound s v
    · rw [hir] at hle; simp only [Bool.false_eq_true, ↓reduceIte] at hle
      exact ⟨by omega, by omega, rfl, by omega⟩
    · rw [hir] at hle; simp only [↓reduceIte] at hle; exfalso; omega
  have hst : 0 < stopIn s p0 v := by unfold stopIn; omega
  obtain ⟨hgv, hgp0⟩ := h.gX p0 v hcp hst
  have hgr : s'.gen r = s.gen r := by rw [hg, upd_other _ _ _ _ hrv]
  have hgv' : s'.gen v = s.gen r := by rw [hg, upd_same]; omega
  have hgo : ∀ w, w ≠ v → s'.gen w = s.gen w := by intro w hw; rw [hg, upd_other _ _ _ _ hw]
  -- children of v
  have hch : ∀ c, isChild s v c = true → cStop (s.q c) = 0 ∧ inRound s c = false ∧ ackIn s v c = 0 ∧ s.gen c + 1 = s.gen r := by
    intro c hc
    have hi := h1.idle_children hparts.2.2.1 hc
    have hca : s.alive c = true := ((isChild_iff s v c).1 hc).1
    have := h.gM v c hc
    have := h.gN2 c hca
    exact ⟨hi.1, hi.2.2.1, by unfold ackIn; omega, by omega⟩
  have hiro : ∀ w, w ≠ v → inRound s' w = inRound s w := by
    intro w hw; simp [inRound, h3, h4, hw]
  have hirv : inRound s' v = true := by simp [inRound, h3]
  -- traffic on the edges
  have hsi_up : stopIn s' p0 v = 0 := by
    unfold stopIn; rw [hq', ho', upd_same, upd_other _ _ _ _ hp0v, hparts.1, hparts.2.1]
  have hsi_down : ∀ c, isChild s v c = true → stopIn s' v c = 1 := by
    intro c hc
    have hcv : c ≠ v := h1.child_ne hc
    unfold stopIn; rw [hq', ho', upd_other _ _ _ _ hcv, upd_same, pStop_stop_bcast, (hch c hc).1]; simp [hc]
  have hsi_other : ∀ p w, p ≠ v → w ≠ v → stopIn s' p w = stopIn s p w := by
    intro p w hpv hwv; unfold stopIn; rw [hq', ho', upd_other _ _ _ _ hwv, upd_other _ _ _ _ hpv]
  have hai_down : ∀ c, isChild s v c = true → ackIn s' v c = 0 := by
    intro c hc
    have hcv : c ≠ v := h1.child_ne hc
    have := (hch c hc).2.2.1
    unfold ackIn at this ⊢
    rw [hq', ho', upd_same, upd_other _ _ _ _ hcv]
    have hle2 : cAck rest c ≤ cAck (s.q v) c := by rw [hq]; exact cAck_tail_le _ _ c
    omega
  have hai_other : ∀ p w, p ≠ v → w ≠ v → ackIn s' p w = ackIn s p w := by
    intro p w hpv hwv; unfold ackIn; rw [hq', ho', upd_other _ _ _ _ hpv, upd_other _ _ _ _ hwv]
  have hact_o : ∀ w, w ≠ v → act s' w = act s w := by
    intro w hw
    exact act_upd_other hw (by rw [hj, upd_other _ _ _ _ hw]) (by rw [hpc]) (by rw [hq', upd_other _ _ _ _ hw]) (by rw [ho', upd_other _ _ _ _ hw])
  have hactR : actR s' r = actR s r := by unfold actR; rw [hpc]
  refine ⟨?_, ?_, ?_, ?_, ?_, ?_, ?_, ?_, ?_, ?_⟩
  · intro w hw; rw [ha] at hw; rw [hgr]
    by_cases hwv : w = v
    · subst hwv; rw [hgv']; exact Nat.le_refl _
    · rw [hgo w hwv]; exact h.gN w hw
  · intro w hw; rw [ha] at hw; rw [hgr]
    by_cases hwv : w = v
    · subst hwv; rw [hgv']; omega
    · rw [hgo w hwv]; exact h.gN2 w hw
  · intro p w hc; rw [hic] at hc
    by_cases hwv : w = v
    · subst hwv
      have := hpar p hc; subst this
      rw [hgv', hgo p hp0v, hgp0]; exact Nat.le_refl _
    · rw [hgo w hwv]
      by_cases hpv : p = v
      · subst hpv; rw [hgv']; have := (hch w hc).2.2.2; omega
      · rw [hgo p hpv]; exact h.gM p w hc
  · intro p w hc hst'; rw [hic] at hc; rw [hgr]
    by_cases hwv : w = v
    · subst hwv
      have := hpar p hc; subst this
      rw [hsi_up] at hst'; omega
    · by_cases hpv : p = v
      · subst hpv
        rw [hgo w hwv, hgv']; exact ⟨(hch w hc).2.2.2, rfl⟩
      · rw [hsi_other p w hpv hwv] at hst'
        rw [hgo w hwv, hgo p hpv]; exact h.gX p w hc hst'
  · intro p w hc ho; rw [hic] at hc; rw [hgr] at ho ⊢
    by_cases hwv : w = v
    · subst hwv; rw [hgv'] at ho; omega
    · by_cases hpv : p = v
      · subst hpv; left; rw [hsi_down w hc]; omega
      · rw [hgo w hwv] at ho
        rw [hsi_other p w hpv hwv, hgo p hpv]; exact h.gW p w hc ho
  · intro w hw hwr hr; rw [ha] at hw; rw [hgr]
    by_cases hwv : w = v
    · subst hwv; exact hgv'
    · rw [hiro w hwv] at hr; rw [hgo w hwv]; exact h.gZ w hw hwr hr
  · intro p w hc hak; rw [hic] at hc; rw [hgr]
    by_cases hwv : w = v
    · subst hwv; exact hgv'
    · by_cases hpv : p = v
      · subst hpv; rw [hai_down w hc] at hak; omega
      · rw [hai_other p w hpv hwv] at hak; rw [hgo w hwv]; exact h.gZ2 p w hc hak
  · intro w hw hwr hr; rw [ha] at hw
    by_cases hwv : w = v
    · subst hwv; rw [hj, upd_same]
    · rw [hiro w hwv] at hr; rw [hj, upd_other _ _ _ _ hwv]; exact h.j1 w hw hwr hr
  · intro w hw hwr hr hsw; rw [ha] at hw
    by_cases hwv : w = v
    · subst hwv; rw [h3, upd_same] at hsw; cases hsw
    · rw [hiro w hwv] at hr; rw [h3, upd_other _ _ _ _ hwv] at hsw; rw [hpc]; exact h.j2 w hw hwr hr hsw
  · intro w hw hwr hact; rw [ha] at hw
    by_cases hwv : w = v
    · subst hwv; exact Or.inl hirv
    · rw [hact_o w hwv] at hact
      rw [hiro w hwv, hactR, hgr, hgo w hwv]; exact h.a w hw hwr hact

end Conc
