import TexelVerif.Conc.StopAck
namespace Proto
variable {n : Nat} (T : Tree n)

theorem sumChildren_congr (p : Fin n) (f g : Fin n → Nat)
    (h : ∀ c, isChild T p c = true → f c = g c) : sumChildren T p f = sumChildren T p g := by
  unfold sumChildren
  congr 1
  apply List.map_congr_left
  intro c _
  by_cases hc : isChild T p c = true
  · simp [hc, h c hc]
  · simp [hc]

theorem sum_map_upd1 (f g : Fin n → Nat) (l : List (Fin n)) (c0 : Fin n) (hnd : l.Nodup) (hmem : c0 ∈ l)
    (hfg : ∀ c, c ≠ c0 → f c = g c) : (l.map f).sum + g c0 = (l.map g).sum + f c0 := by
  induction l with
  | nil => cases hmem
  | cons x l ih =>
    rw [List.nodup_cons] at hnd
    simp only [List.map_cons, List.sum_cons]
    by_cases hx : x = c0
    · subst hx
      have : (l.map f) = (l.map g) := by
        apply List.map_congr_left
        intro s hs; exact hfg s (fun e => hnd.1 (e ▸ hs))
      rw [this]; omega
    · have hm : c0 ∈ l := by
        rcases List.mem_cons.1 hmem with h | h
        · exact absurd h.symm hx
        · exact h
      have := ih hnd.2 hm
      rw [hfg x hx]; omega

/-- changing f at one child c0 of p -/
theorem sumChildren_upd1 (p c0 : Fin n) (f g : Fin n → Nat) (hc0 : isChild T p c0 = true)
    (hfg : ∀ c, c ≠ c0 → f c = g c) : sumChildren T p f + g c0 = sumChildren T p g + f c0 := by
  unfold sumChildren
  have := sum_map_upd1 (fun c => if isChild T p c then f c else 0) (fun c => if isChild T p c then g c else 0)
    (List.finRange n) c0 (List.nodup_finRange n) (List.mem_finRange c0)
    (by intro c hc; show (if isChild T p c then f c else 0) = (if isChild T p c then g c else 0); rw [hfg c hc])
  simpa [hc0] using this

end Proto

namespace Proto
variable {n : Nat} (T : Tree n)

theorem cnt_append_ne (l : List (Cmd n)) (a x : Cmd n) (h : a ≠ x) : cnt (l ++ [a]) x = cnt l x := by
  simp [cnt, List.count_append, List.count_cons, h]
theorem cnt_append_self (l : List (Cmd n)) (a : Cmd n) : cnt (l ++ [a]) a = cnt l a + 1 := by
  simp [cnt, List.count_append]

/-- selfAck preserves every debt, hence the invariant -/
theorem selfAck_debt (hirr : ∀ v, T.parent v ≠ some v) (s : St n) (v : Fin n) (h : s.selfWait v = true)
    (p c : Fin n) (hpc : isChild T p c = true) :
    debt (let s1 : St n := { s with selfWait := fun x => if x = v then false else s.selfWait x }
          if s.childWait v = 0 then sendUp T s1 v else s1) p c = debt s p c := by
  simp only
  by_cases hz : s.childWait v = 0
  · rw [if_pos hz]
    unfold sendUp
    cases hp : T.parent v with
    | none =>
      simp only [debt]
      by_cases hcv : c = v
      · subst hcv
        -- c = v has a parent p, contradiction with parent v = none
        simp [isChild, hp] at hpc
      · simp [hcv]
    | some pv =>
      simp only [debt]
      have hvpv : v ≠ pv := fun e => hirr v (by rw [hp, e])
      by_cases hcv : c = v
      · subst hcv
        have hppv : p = pv := by
          simp [isChild, hp] at hpc; exact hpc.symm
        subst hppv
        simp [hvpv, h, hz, cnt_append_self]; omega
      · have hq : cnt (if p = pv then s.q p ++ [Cmd.ack v] else s.q p) (.ack c) = cnt (s.q p) (.ack c) := by
          by_cases hppv : p = pv
          · rw [if_pos hppv]; exact cnt_append_ne _ _ _ (by intro e; injection e with e; exact hcv e.symm)
          · rw [if_neg hppv]
        have hq2 : cnt (if c = pv then s.q c ++ [Cmd.ack v] else s.q c) .stop = cnt (s.q c) .stop := by
          by_cases hcpv : c = pv
          · rw [if_pos hcpv]; exact cnt_append_ne _ _ _ (by intro e; cases e)
          · rw [if_neg hcpv]
        simp [hcv, hq, hq2]
  · rw [if_neg hz]
    simp only [debt]
    by_cases hcv : c = v
    · subst hcv
      have : 0 < s.childWait c := by omega
      simp [h, this]
    · simp [hcv]

end Proto
