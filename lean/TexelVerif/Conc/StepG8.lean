import TexelVerif.Conc.InvG8
/-! Every step preserves the QUIT accounting `G8`; progress of the quit-ack collection. -/
namespace Conc

variable {n : Nat}

def postQuitPc : Pc → Bool
  | .equit | .eqwait | .edone => true
  | _ => false

/-- the root's `quitAckWaitChildren` is still -1 until `sendQuit` -/
structure G9 (r : Fin n) (s : St n) : Prop where
  qroot : s.quitWait r ≠ -1 → postQuitPc (s.pc r) = true

theorem G9.keep {r : Fin n} {s s' : St n} (h : G9 r s) (hw : s'.quitWait r = s.quitWait r)
    (hpc : postQuitPc (s.pc r) = true → postQuitPc (s'.pc r) = true) : G9 r s' :=
  ⟨fun hh => hpc (h.qroot (by rw [← hw]; exact hh))⟩

theorem handleW_quitWait_other (s : St n) (v w : Fin n) (c : Cmd n) (hw : w ≠ v) :
    (handleW s v c).quitWait w = s.quitWait w ∧ (handleW s v c).pc = s.pc := by
  cases c <;> simp only [handleW] <;> (try split) <;> simp [hw]

theorem step_G9 {r : Fin n} {s s' : St n} (h1 : G1 r s) (h : G9 r s) (e : Ev n) (hs : step r s e = some s') : G9 r s' := by
  have hra := h1.rootAlive
  have rootpc : ∀ v, s.alive v = true → isEnginePc (s.pc v) = false → r ≠ v := by
    intro v hv hk e; subst e
    have := (h1.pcKind r hv).2 rfl
    rw [hk] at this; cases this
  cases e with
  | waitRet v =>
    simp only [step, stepWaitRet] at hs
    split at hs
    · rename_i hg; cases hs
      refine h.keep rfl ?_
      intro hh
      show postQuitPc (upd s.pc v (afterWait (s.pc v)) r) = true
      by_cases hrv : r = v
      · subst hrv; rw [upd_same]
        cases hp : s.pc r <;> simp [hp, isWaitPc] at hg <;> simp [hp, postQuitPc] at hh <;> rfl
      · rw [upd_other _ _ _ _ hrv]; exact hh
    · cases hs
  | deq v =>
    simp only [step, stepDeq] at hs
    split at hs
    · rename_i hg
      split at hs
      · cases hs
      · rename_i c rest _
        split at hs
        · rename_i hpc; cases hs
          have hrv := rootpc v hg.1 (by rw [hpc]; rfl)
          obtain ⟨a, b⟩ := handleW_quitWait_other { s with q := upd s.q v rest } v r c hrv
          exact h.keep a (by rw [b]; exact fun hh => hh)
        · rename_i j hpc; cases hs
          have hrv := rootpc v hg.1 (by rw [hpc]; rfl)
          obtain ⟨a, b⟩ := handleW_quitWait_other { s with q := upd s.q v rest } v r c hrv
          exact h.keep a (by rw [b]; exact fun hh => hh)
        · cases hs; exact h.keep rfl (fun hh => hh)
        · cases hs; cases c <;> exact h.keep rfl (fun hh => hh)
        · rename_i hpc; cases hs
          have hvr : v = r := h1.root_pc hg.1 (by rw [hpc]; rfl)
          subst hvr
          refine ⟨fun _ => ?_⟩
          have : (handleE { s with q := upd s.q v rest } v .equit c).pc = s.pc := by cases c <;> rfl
          rw [this, hpc]; rfl
        · cases hs
    · cases hs
  | pollEmpty v =>
    simp only [step, stepPollEmpty] at hs
    split at hs
    · rename_i hg
      split at hs
      · rename_i hpc; cases hs
        have hrv := rootpc v hg.1 (by rw [hpc]; rfl)
        refine h.keep rfl ?_
        intro hh; show postQuitPc (upd s.pc v _ r) = true
        rw [upd_other _ _ _ _ hrv]; exact hh
      · cases hs; exact h
      · cases hs; exact h
      · rename_i hpc
        have hvr : v = r := h1.root_pc hg.1 (by rw [hpc]; rfl)
        subst hvr
        split at hs <;> cases hs <;> exact h.keep rfl (fun hh => by rw [hpc] at hh; cases hh)
      · rename_i hpc; cases hs
        have hvr : v = r := h1.root_pc hg.1 (by rw [hpc]; rfl)
        subst hvr
        refine ⟨fun _ => ?_⟩
        show postQuitPc (upd s.pc v _ v) = true
        rw [upd_same]; split <;> rfl
      · cases hs
    · cases hs
  | send v o =>
    simp only [step, stepSend] at hs
    split at hs
    · cases hs; cases o <;> exact h.keep rfl (fun hh => hh)
    · cases hs
  | ackSelf v =>
    simp only [step, stepAckSelf] at hs
    split at hs
    · rename_i hg
      split at hs
      · rename_i hpc
        have hrv := rootpc v hg.1 (by rw [hpc]; rfl)
        have hk : postQuitPc (s.pc r) = true → postQuitPc (upd s.pc v .wait r) = true := by
          intro hh; rw [upd_other _ _ _ _ hrv]; exact hh
        split at hs <;> cases hs <;> exact h.keep rfl hk
      · rename_i hpc; cases hs
        have hvr : v = r := h1.root_pc hg.1 (by rw [hpc]; rfl)
        subst hvr
        exact h.keep rfl (fun hh => by rw [hpc] at hh; cases hh)
      · cases hs
    · cases hs
  | searchResult v =>
    simp only [step, stepSearchResult] at hs
    split at hs
    · split at hs
      · split at hs <;> cases hs <;> first | exact h | exact h.keep rfl (fun hh => hh)
      · cases hs
    · cases hs
  | searchLeave v m =>
    simp only [step, stepSearchLeave] at hs
    split at hs
    · rename_i hg
      split at hs
      · rename_i j hpc
        have hrv := rootpc v hg.1 (by rw [hpc]; rfl)
        have hk : postQuitPc (s.pc r) = true → postQuitPc (upd s.pc v .ackSelf r) = true := by
          intro hh; rw [upd_other _ _ _ _ hrv]; exact hh
        split at hs
        · cases hs; exact h.keep rfl hk
        · split at hs <;> cases hs; exact h.keep rfl hk
      · cases hs
    · cases hs
  | spawn v p =>
    simp only [step, stepSpawn] at hs
    split at hs
    · rename_i hg
      have hrv : r ≠ v := fun e => hg.2.2.1 e.symm
      cases hs
      refine h.keep (by simp [hrv]) ?_
      intro hh; show postQuitPc (upd s.pc v .wait r) = true
      rw [upd_other _ _ _ _ hrv]; exact hh
    · cases hs
  | tend v =>
    simp only [step, stepTend] at hs
    split at hs
    · rename_i hg
      have hrv : r ≠ v := fun e => hg.2.1 e.symm
      cases hs
      refine h.keep rfl ?_
      intro hh; show postQuitPc (upd s.pc v .gone r) = true
      rw [upd_other _ _ _ _ hrv]; exact hh
    · cases hs
  | exit v =>
    simp only [step, stepExit] at hs
    split at hs <;> cases hs; exact h.keep rfl (fun hh => hh)
  | eRdPre x =>
    simp only [step, stepERdPre] at hs
    split at hs
    · split at hs
      · rename_i hpc; cases hs; exact h.keep rfl (fun hh => by rw [hpc] at hh; cases hh)
      · rename_i hpc; cases hs; exact h.keep rfl (fun hh => by rw [hpc] at hh; cases hh)
      · cases hs; exact h.keep rfl (fun hh => hh)
      · cases hs; exact h.keep rfl (fun hh => hh)
      · cases hs
    · cases hs
  | eRd x b =>
    simp only [step, stepERd] at hs
    split at hs
    · split at hs
      · rename_i hpc; split at hs <;> cases hs; exact h.keep rfl (fun hh => by rw [hpc] at hh; cases hh)
      · rename_i hpc; split at hs <;> cases hs; exact h.keep rfl (fun hh => by rw [hpc] at hh; cases hh)
      · cases hs
    · cases hs
  | eOpts k =>
    simp only [step, stepEOpts] at hs
    split at hs
    · split at hs
      · rename_i hpc; cases hs; cases k <;> exact h.keep rfl (fun hh => by rw [hpc] at hh; cases hh)
      · rename_i hpc; cases hs; cases k <;> exact h.keep rfl (fun hh => by rw [hpc] at hh; cases hh)
      · cases hs
    · cases hs
  | pWr x b =>
    simp only [step, stepP] at hs
    cases x <;> simp only [stepPWr] at hs <;> try (cases hs)
    all_goals (split at hs <;> first | (cases hs; exact h.keep rfl (fun hh => hh)) | cases hs)
  | pWd x =>
    simp only [step, stepP] at hs
    cases x <;> simp only [stepPWd] at hs <;> try (cases hs)
    all_goals (split at hs <;> first | (cases hs; exact h.keep rfl (fun hh => hh)) | cases hs)
  | pWaitStop => simp only [step, stepP] at hs; split at hs <;> cases hs; exact h
  | pWaitOpts => simp only [step, stepP] at hs; split at hs <;> cases hs; exact h
  | pSetOpt => simp only [step, stepP] at hs; split at hs <;> cases hs; exact h.keep rfl (fun hh => hh)
  | pNotify t => simp only [step, stepP] at hs; cases hs; exact h.keep rfl (fun hh => hh)
  | eBegin =>
    simp only [step, stepE] at hs
    split at hs <;> cases hs
    rename_i hg; exact h.keep rfl (fun hh => by rw [hg.2] at hh; cases hh)
  | eInit =>
    simp only [step, stepE] at hs
    split at hs <;> cases hs
    rename_i hg; exact h.keep rfl (fun hh => by rw [hg.2] at hh; cases hh)
  | eJobNext =>
    simp only [step, stepE] at hs
    split at hs <;> cases hs
    exact h.keep rfl (fun hh => hh)
  | eSearchDone =>
    simp only [step, stepE] at hs
    split at hs <;> cases hs
    rename_i hg; exact h.keep rfl (fun hh => by rw [hg.2] at hh; cases hh)
  | eHoldDone =>
    simp only [step, stepE] at hs
    split at hs
    · split at hs
      · rename_i hpc; cases hs; exact h.keep rfl (fun hh => by rw [hpc] at hh; cases hh)
      · rename_i ws hpc; cases hs; exact h.keep rfl (fun hh => by rw [hpc] at hh; cases hh)
      · cases hs
    · cases hs
  | eBest =>
    simp only [step, stepE] at hs
    split at hs
    · split at hs
      · rename_i ws hpc; cases hs; exact h.keep rfl (fun hh => by rw [hpc] at hh; cases hh)
      · cases hs
    · cases hs
  | eStopSend =>
    simp only [step, stepE] at hs
    split at hs <;> cases hs
    rename_i hg; exact h.keep rfl (fun hh => by rw [hg.2] at hh; cases hh)
  | eSearchEnd =>
    simp only [step, stepE] at hs
    split at hs <;> cases hs
    rename_i hg; exact h.keep rfl (fun hh => by rw [hg.2.1] at hh; cases hh)
  | eQuitSend =>
    simp only [step, stepE] at hs
    split at hs
    · cases hs
      refine ⟨fun _ => ?_⟩
      split <;> (show postQuitPc (upd _ r .equit r) = true; rw [upd_same]; rfl)
    · cases hs

theorem reach_G9 {r : Fin n} {s : St n} (h : Reach r s) : G9 r s := by
  induction h with
  | init => exact ⟨fun hh => by simp [init] at hh⟩
  | step s s' e hr hs ih => exact step_G9 (reach_G1 hr) ih e hs

/-- nothing `G8` reads changes -/
theorem G8.same {r : Fin n} {s s' : St n} (h : G8 r s) (ha : s'.alive = s.alive) (hp : s'.parent = s.parent)
    (hw : s'.quitWait = s.quitWait) (hq : s'.q = s.q) (ho : s'.out = s.out) : G8 r s' :=
  h.frame ha hp hw (fun p c _ => by unfold quitIn; rw [hq, ho]) (fun p c _ => by unfold qackIn; rw [hq, ho])

/-- performing a pending enqueue moves QUIT / QUIT_ACK traffic from "pending" to "queued" -/
theorem G8.send {r : Fin n} {s : St n} (h1 : G1 r s) (h : G8 r s) (v t : Fin n) (c : Cmd n) (va : s.alive v = true)
    (hmo : Out.enq t c ∈ s.out v) :
    G8 r { s with q := upd s.q t (pushCmd (s.q t) c), out := upd s.out v ((s.out v).erase (Out.enq t c)), flag := upd s.flag t true } := by
  have hok := h1.outOk v _ va hmo
  refine h.frame rfl rfl rfl ?_ ?_
  · intro p d hc
    show cQuit (upd s.q t (pushCmd (s.q t) c) d) + pQuit (upd s.out v ((s.out v).erase (Out.enq t c)) p) d = quitIn s p d
    unfold quitIn
    have eA : cQuit (upd s.q t (pushCmd (s.q t) c) d) = cQuit (s.q d) + (if d = t ∧ c = Cmd.quit then 1 else 0) := by
      by_cases hdt : d = t
      · subst hdt; rw [upd_same, cQuit_push]; simp
      · rw [upd_other _ _ _ _ hdt]; simp [hdt]
    have eB : pQuit (upd s.out v ((s.out v).erase (Out.enq t c)) p) d = pQuit (s.out p) d - (if p = v ∧ t = d ∧ c = Cmd.quit then 1 else 0) := by
      by_cases hpv : p = v
      · subst hpv; rw [upd_same, pQuit_erase]
        by_cases hx : Out.enq t c = Out.enq d Cmd.quit
        · cases hx; simp
        · have : ¬ (t = d ∧ c = Cmd.quit) := by rintro ⟨e1, e2⟩; subst e1; subst e2; exact hx rfl
          simp [hx, this]
      · rw [upd_other _ _ _ _ hpv]; simp [hpv]
    rw [eA, eB]
    by_cases hcq : c = Cmd.quit
    · subst hcq
      by_cases hdt : d = t
      · subst hdt
        -- a QUIT goes to a child of v: the edge is (v, d)
        have hvt : isChild s v d = true := by
          rcases hok with ⟨a, _⟩ | ⟨_, b⟩
          · exact a
          · simp [mentions] at b
        have hpv : p = v := by
          have e1 := ((isChild_iff s p d).1 hc).2
          have e2 := ((isChild_iff s v d).1 hvt).2
          rw [e1] at e2; cases e2; rfl
        subst hpv
        have : 1 ≤ pQuit (s.out p) d := by unfold pQuit; exact List.one_le_count_iff.2 hmo
        simp; omega
      · have c1 : ¬ (d = t ∧ (Cmd.quit : Cmd n) = Cmd.quit) := fun hh => hdt hh.1
        have c2 : ¬ (p = v ∧ t = d ∧ (Cmd.quit : Cmd n) = Cmd.quit) := by rintro ⟨_, e, _⟩; exact hdt e.symm
        rw [if_neg c1, if_neg c2]; omega
    · have c1 : ¬ (d = t ∧ c = Cmd.quit) := fun hh => hcq hh.2
      have c2 : ¬ (p = v ∧ t = d ∧ c = Cmd.quit) := fun hh => hcq hh.2.2
      simp [c1, c2]
  · intro p d hc
    show cQAck (upd s.q t (pushCmd (s.q t) c) p) d + pQAck (upd s.out v ((s.out v).erase (Out.enq t c)) d) p d = qackIn s p d
    unfold qackIn
    have eC : cQAck (upd s.q t (pushCmd (s.q t) c) p) d = cQAck (s.q p) d + (if p = t ∧ c = Cmd.quitAck d then 1 else 0) := by
      by_cases hpt : p = t
      · subst hpt; rw [upd_same, cQAck_push]; simp
      · rw [upd_other _ _ _ _ hpt]; simp [hpt]
    have eD : pQAck (upd s.out v ((s.out v).erase (Out.enq t c)) d) p d = pQAck (s.out d) p d - (if d = v ∧ t = p ∧ c = Cmd.quitAck d then 1 else 0) := by
      by_cases hdv : d = v
      · subst hdv; rw [upd_same, pQAck_erase]
        by_cases hx : Out.enq t c = Out.enq p (Cmd.quitAck d)
        · cases hx; simp
        · have : ¬ (t = p ∧ c = Cmd.quitAck d) := by rintro ⟨e1, e2⟩; subst e1; subst e2; exact hx rfl
          simp [hx, this]
      · rw [upd_other _ _ _ _ hdv]; simp [hdv]
    rw [eC, eD]
    by_cases hca : c = Cmd.quitAck v
    · subst hca
      by_cases hcond : p = t ∧ d = v
      · obtain ⟨e1, e2⟩ := hcond
        subst e1; subst e2
        have : 1 ≤ pQAck (s.out d) p d := by unfold pQAck; exact List.one_le_count_iff.2 hmo
        simp; omega
      · have c1 : ¬ (p = t ∧ Cmd.quitAck v = Cmd.quitAck d) := by
          rintro ⟨e1, e2⟩; cases e2; exact hcond ⟨e1, rfl⟩
        have c2 : ¬ (d = v ∧ t = p ∧ Cmd.quitAck v = Cmd.quitAck d) := by
          rintro ⟨e1, e2, _⟩; exact hcond ⟨e2.symm, e1⟩
        rw [if_neg c1, if_neg c2]; omega
    · -- any other command: a quitAck in a pending action of v is v's own (OutOk), so c is no quitAck at all
      have hnq : ∀ x, c ≠ Cmd.quitAck x := by
        intro x e; subst e
        rcases hok with ⟨_, b⟩ | ⟨_, b⟩
        · simp [Cmd.isDown] at b
        · simp [mentions] at b; subst b; exact hca rfl
      have c1 : ¬ (p = t ∧ c = Cmd.quitAck d) := fun hh => hnq d hh.2
      have c2 : ¬ (d = v ∧ t = p ∧ c = Cmd.quitAck d) := fun hh => hnq d hh.2.2
      simp [c1, c2]

theorem G8.spawn {r : Fin n} {s s' : St n} (h2 : G2 r s) (h : G8 r s) (v p0 : Fin n)
    (hav : s.alive v = false) (hap : s.alive p0 = true) (hvp : v ≠ p0) (hqv : s.q v = []) (hov : s.out v = []) (hqp : s.q p0 = []) (hop : s.out p0 = [])
    (hml : mainLoopPc (s.pc r) = true)
    (hnoch : (List.finRange n).all (fun c => !(s.parent c == some v && s.alive c)) = true)
    (ha : s'.alive = upd s.alive v true) (hp : s'.parent = upd s.parent v (some p0))
    (hw : s'.quitWait = upd s.quitWait v (-1)) (hq : s'.q = s.q) (ho : s'.out = s.out) : G8 r s' := by
  have hpv : p0 ≠ v := fun e => hvp e.symm
  have hnoch' : ∀ c, s.parent c = some v → s.alive c = false := by
    intro c hc
    have := List.all_eq_true.1 hnoch c (List.mem_finRange c)
    simp [hc] at this
    exact this
  have hnq : quitPc (s.pc r) = false := by cases hh : s.pc r <;> simp [hh, mainLoopPc] at hml <;> rfl
  have hp0m1 : s.quitWait p0 = -1 := by
    apply Classical.byContradiction
    intro hne
    have := h2.qphase p0 hap (Or.inr (Or.inr hne))
    rw [hnq] at this; cases this
  have hicv : ∀ a, isChild s' a v = true → a = p0 := by
    intro a hc
    have := ((isChild_iff s' a v).1 hc).2
    rw [hp, upd_same] at this; cases this; rfl
  have hico : ∀ a b, b ≠ v → isChild s' a b = isChild s a b := by
    intro a b hb; simp [isChild, ha, hp, hb]
  have hsv : ∀ a, isChild s a v = false := by intro a; simp [isChild, hav]
  have hnov : ∀ b, b ≠ v → isChild s v b = false := by
    intro b _
    cases hb : isChild s v b
    · rfl
    · have hh := (isChild_iff s v b).1 hb
      rw [hnoch' b hh.2] at hh; cases hh.1
  have hwv : s'.quitWait v = -1 := by rw [hw, upd_same]
  have hwo : ∀ w, w ≠ v → s'.quitWait w = s.quitWait w := by intro w hw'; rw [hw, upd_other _ _ _ _ hw']
  have hdv : qdebt s' p0 v = 0 := by
    unfold qdebt quitIn qackIn
    rw [hq, ho, hwv, hqv, hop, hqp, hov]
    simp [cQuit, pQuit, cQAck, pQAck]
  have hdo : ∀ a b, b ≠ v → qdebt s' a b = qdebt s a b := by
    intro a b hb; unfold qdebt quitIn qackIn; rw [hq, ho, hwo b hb]
  have halive : ∀ w, w ≠ v → s'.alive w = true → s.alive w = true := by
    intro w hw' hh; rw [ha, upd_other _ _ _ _ hw'] at hh; exact hh
  refine ⟨?_, ?_, ?_, ?_, ?_⟩
  · intro w hw'
    by_cases hwv' : w = v
    · subst hwv'; rw [hwv]; omega
    · rw [hwo w hwv']; exact h.qrange w (halive w hwv' hw')
  · intro a haa h0
    by_cases hav' : a = v
    · subst hav'; rw [hwv] at h0; omega
    · rw [hwo a hav'] at h0 ⊢
      rw [h.qsum a (halive a hav' haa) h0]
      congr 1
      unfold sumCh
      apply sumAll_congr
      intro b
      by_cases hb : b = v
      · subst hb
        rw [hsv a]
        cases hcc : isChild s' a b
        · simp
        · have := hicv a hcc; subst this; simp [hdv]
      · rw [hico a b hb, hdo a b hb]
  · intro a b hc hm
    by_cases hb : b = v
    · subst hb
      have := hicv a hc; subst this
      exact ⟨hwv, hdv⟩
    · rw [hico a b hb] at hc
      have hav' : a ≠ v := by intro e; subst e; rw [hnov b hb] at hc; cases hc
      rw [hwo a hav'] at hm
      rw [hwo b hb, hdo a b hb]; exact h.qzero a b hc hm
  · intro a b hc
    by_cases hb : b = v
    · subst hb
      have := hicv a hc; subst this; rw [hdv]; omega
    · rw [hico a b hb] at hc; rw [hdo a b hb]; exact h.qle1 a b hc
  · intro a b hc hqi
    by_cases hb : b = v
    · subst hb; exact hwv
    · rw [hico a b hb] at hc
      have : quitIn s' a b = quitIn s a b := by unfold quitIn; rw [hq, ho]
      rw [this] at hqi
      rw [hwo b hb]; exact h.qpre a b hc hqi

theorem pQuit_notify_cons (t : Fin n) (l : List (Out n)) (c : Fin n) : pQuit (Out.notify t :: l) c = pQuit l c := by simp [pQuit]
theorem pQAck_notify_cons (t : Fin n) (l : List (Out n)) (p c : Fin n) : pQAck (Out.notify t :: l) p c = pQAck l p c := by simp [pQAck]

/-- handlers of a helper other than QUIT / QUIT_ACK -/
theorem handleW_neutral_G8 {r : Fin n} {s : St n} (h : G8 r s) (v : Fin n) (c : Cmd n) (rest : List (Cmd n))
    (hq : s.q v = c :: rest) (hout : s.out v = []) (hc1 : c ≠ Cmd.quit) (hc2 : ∀ d, c ≠ Cmd.quitAck d) :
    G8 r (handleW { s with q := upd s.q v rest } v c) := by
  have c1 : cQuit rest = cQuit (s.q v) := by rw [hq, cQuit_cons]; simp [hc1]
  have c2 : ∀ d, cQAck rest d = cQAck (s.q v) d := by intro d; rw [hq, cQAck_cons]; simp [hc2 d]
  cases c with
  | quit => exact absurd rfl hc1
  | quitAck d => exact absurd rfl (hc2 d)
  | init =>
    refine h.neutral v rest (bcast s v .init) rfl rfl rfl rfl rfl c1 c2 ?_ ?_
    · intro d; rw [hout, pQuit_bcast, pQuit_nil]; simp
    · intro p d; rw [hout, pQAck_bcast s v _ p d (by simp), pQAck_nil]
  | start e j =>
    refine h.neutral v rest (bcast s v (.start e j)) rfl rfl rfl rfl rfl c1 c2 ?_ ?_
    · intro d; rw [hout, pQuit_bcast, pQuit_nil]; simp
    · intro p d; rw [hout, pQAck_bcast s v _ p d (by simp), pQAck_nil]
  | stop =>
    refine h.neutral v rest (Out.notify v :: bcast s v .stop) rfl rfl rfl rfl rfl c1 c2 ?_ ?_
    · intro d; rw [hout, pQuit_notify_cons, pQuit_bcast, pQuit_nil]; simp
    · intro p d; rw [hout, pQAck_notify_cons, pQAck_bcast s v _ p d (by simp), pQAck_nil]
  | report src e j =>
    simp only [handleW]
    split
    · refine h.neutral v rest (toParent s v (.report v e j)) rfl rfl rfl rfl rfl c1 c2 ?_ ?_
      · intro d; rw [hout, pQuit_toParent s v _ (by simp), pQuit_nil]
      · intro p d; rw [hout, pQAck_toParent_ne s v _ (by simp), pQAck_nil]
    · exact h.neutral v rest (s.out v) rfl rfl rfl rfl (by simp) c1 c2 (fun _ => rfl) (fun _ _ => rfl)
  | ack src =>
    simp only [handleW]
    refine h.neutral v rest _ rfl rfl rfl rfl rfl c1 c2 ?_ ?_
    · intro d; rw [hout, pQuit_nil]; split
      · exact pQuit_toParent _ v _ (by simp) d
      · exact pQuit_nil d
    · intro p d; rw [hout, pQAck_nil]; split
      · exact pQAck_toParent_ne _ v _ (by simp) p d
      · exact pQAck_nil p d

theorem step_G8 {r : Fin n} {s s' : St n} (h1 : G1 r s) (h2 : G2 r s) (h9 : G9 r s) (h : G8 r s) (e : Ev n)
    (hs : step r s e = some s') : G8 r s' := by
  have hra := h1.rootAlive
  cases e with
  | waitRet v =>
    simp only [step, stepWaitRet] at hs
    split at hs <;> cases hs; exact h.same rfl rfl rfl rfl rfl
  | deq v =>
    simp only [step, stepDeq] at hs
    split at hs
    · rename_i hg
      obtain ⟨va, hout⟩ := hg
      split at hs
      · cases hs
      · rename_i c rest hq
        have hhead : c ∈ s.q v := by rw [hq]; exact List.mem_cons_self
        have worker : isEnginePc (s.pc v) = false → G8 r (handleW { s with q := upd s.q v rest } v c) := by
          intro hk
          have hne : v ≠ r := h1.worker_ne_root va hk
          obtain ⟨p0, hp0, _⟩ := h1.par v va hne
          have hcp : isChild s p0 v = true := (isChild_iff s p0 v).2 ⟨va, hp0⟩
          by_cases hcq : c = Cmd.quit
          · subst hcq
            have hqi : 0 < quitIn s p0 v := by unfold quitIn; rw [hq, cQuit_cons, if_pos rfl]; omega
            have hm1 := h.qpre p0 v hcp hqi
            have hcq : ∀ p, isChild s p v = true → cQuit rest + 1 = cQuit (s.q v) := by
              intro _ _; rw [hq, cQuit_cons, if_pos rfl]
            simp only [handleW]
            split
            · rename_i hz
              have hz' : nChildren s v = 0 := hz
              refine h.quit_step h1 v rest _ 0 va hout hm1 rfl rfl rfl rfl rfl (fun d => by rw [hq, cQAck_cons]; omega) (by rw [hz']; rfl)
                (Or.inr ⟨hz', rfl⟩) hcq
            · rename_i hz
              have hz' : ¬ nChildren s v = 0 := hz
              refine h.quit_step h1 v rest _ _ va hout hm1 rfl rfl rfl rfl rfl (fun d => by rw [hq, cQAck_cons]; omega) rfl
                (Or.inl ⟨by omega, rfl⟩) hcq
          · by_cases hca : ∃ d, c = Cmd.quitAck d
            · obtain ⟨d, hd⟩ := hca
              subst hd
              exact h.qack_step h1 v d rest _ va hq hout rfl rfl (by simp [handleW]) rfl rfl (Or.inl rfl)
            · exact handleW_neutral_G8 h v c rest hq hout hcq (fun d e => hca ⟨d, e⟩)
        -- the engine thread pops a command that is no QUIT_ACK
        have rootpop : (∀ d, c ≠ Cmd.quitAck d) → ∀ s'' : St n, s''.alive = s.alive → s''.parent = s.parent → s''.quitWait = s.quitWait →
            s''.q = upd s.q v rest → s''.out = s.out → v = r → G8 r s'' := by
          intro g2 s'' a1 a2 a3 a4 a5 hvr
          have g1 : c ≠ Cmd.quit := by intro e; subst e; subst hvr; exact h1.qOk v _ va hhead rfl
          exact h.neutral v rest (s.out v) a1 a2 a3 a4 (by rw [a5]; simp) (by rw [hq, cQuit_cons]; simp [g1])
            (fun d => by rw [hq, cQAck_cons]; simp [g2 d]) (fun _ => rfl) (fun _ _ => rfl)
        have noqack : quitPc (s.pc v) = false → v = r → ∀ d, c ≠ Cmd.quitAck d := by
          intro hnq hvr d e
          subst e; subst hvr
          have := h2.qphase v va (Or.inl (by rw [hq]; simp [Cmd.isQuit]))
          rw [hnq] at this; cases this
        split at hs
        · rename_i hpc; cases hs; exact worker (by rw [hpc]; rfl)
        · rename_i j hpc; cases hs; exact worker (by rw [hpc]; rfl)
        · rename_i hpc; cases hs
          have hvr : v = r := h1.root_pc va (by rw [hpc]; rfl)
          exact rootpop (noqack (by rw [hpc]; rfl) hvr) _ rfl rfl rfl rfl rfl hvr
        · rename_i hpc; cases hs
          have hvr : v = r := h1.root_pc va (by rw [hpc]; rfl)
          have := noqack (by rw [hpc]; rfl) hvr
          cases c <;> first
            | exact rootpop this _ rfl rfl rfl rfl rfl hvr
            | exact absurd rfl (this _)
        · rename_i hpc; cases hs
          have hvr : v = r := h1.root_pc va (by rw [hpc]; rfl)
          cases c with
          | quitAck d =>
            exact h.qack_step h1 v d rest (s.out v) va hq hout rfl rfl (by simp [handleE]) rfl (by simp [handleE]) (Or.inr ⟨hout, hvr⟩)
          | init => exact rootpop (by simp) _ rfl rfl rfl rfl rfl hvr
          | start a b => exact rootpop (by simp) _ rfl rfl rfl rfl rfl hvr
          | stop => exact rootpop (by simp) _ rfl rfl rfl rfl rfl hvr
          | quit => exact rootpop (by simp) _ rfl rfl rfl rfl rfl hvr
          | report a b d => exact rootpop (by simp) _ rfl rfl rfl rfl rfl hvr
          | ack a => exact rootpop (by simp) _ rfl rfl rfl rfl rfl hvr
        · cases hs
    · cases hs
  | pollEmpty v =>
    simp only [step, stepPollEmpty] at hs
    split at hs
    · rename_i hg
      split at hs
      · cases hs; exact h.same rfl rfl rfl rfl rfl
      · cases hs; exact h
      · cases hs; exact h
      · split at hs
        · cases hs
          refine h.neutral v (s.q v) [Out.notify v] rfl rfl rfl (by simp) rfl rfl (fun _ => rfl) ?_ ?_
          · intro d; rw [hg.2.1]; simp [pQuit]
          · intro p d; rw [hg.2.1]; simp [pQAck]
        · cases hs; exact h.same rfl rfl rfl rfl rfl
      · cases hs; exact h.same rfl rfl rfl rfl rfl
      · cases hs
    · cases hs
  | send v o =>
    simp only [step, stepSend] at hs
    split at hs
    · rename_i hg; cases hs
      cases o with
      | notify t =>
        refine h.neutral v (s.q v) ((s.out v).erase (Out.notify t)) rfl rfl rfl (by simp [applyOut]) (by simp [applyOut]) rfl (fun _ => rfl) ?_ ?_
        · intro d; rw [pQuit_erase]; simp
        · intro p d; rw [pQAck_erase]; simp
      | enq t c => exact h.send h1 v t c hg.1 hg.2
    · cases hs
  | ackSelf v =>
    simp only [step, stepAckSelf] at hs
    split at hs
    · rename_i hg
      split at hs
      · split at hs
        · cases hs
          refine h.neutral v (s.q v) _ rfl rfl rfl (by simp) rfl rfl (fun _ => rfl) ?_ ?_
          · intro d; rw [hg.2, pQuit_nil]; split
            · exact pQuit_toParent s v _ (by simp) d
            · exact pQuit_nil d
          · intro p d; rw [hg.2, pQAck_nil]; split
            · exact pQAck_toParent_ne s v _ (by simp) p d
            · exact pQAck_nil p d
        · cases hs; exact h.same rfl rfl rfl rfl rfl
      · cases hs; exact h.same rfl rfl rfl rfl rfl
      · cases hs
    · cases hs
  | searchResult v =>
    simp only [step, stepSearchResult] at hs
    split at hs
    · rename_i hg
      split at hs
      · split at hs
        · cases hs
          refine h.neutral v (s.q v) _ rfl rfl rfl (by simp) rfl rfl (fun _ => rfl) ?_ ?_
          · intro d; rw [hg.2, pQuit_toParent s v _ (by simp), pQuit_nil]
          · intro p d; rw [hg.2, pQAck_toParent_ne s v _ (by simp), pQAck_nil]
        · cases hs; exact h
      · cases hs
    · cases hs
  | searchLeave v m =>
    simp only [step, stepSearchLeave] at hs
    split at hs
    · split at hs
      · split at hs
        · cases hs; exact h.same rfl rfl rfl rfl rfl
        · split at hs <;> cases hs; exact h.same rfl rfl rfl rfl rfl
      · cases hs
    · cases hs
  | spawn v p =>
    simp only [step, stepSpawn] at hs
    split at hs
    · rename_i hg
      obtain ⟨hav, hap, hvr, hvp, hqv, hov, hml, hqp, hop, _, _, _, hnoch⟩ := hg
      cases hs
      exact h.spawn h2 v p hav hap hvp hqv hov hqp hop hml hnoch rfl rfl rfl rfl rfl
    · cases hs
  | tend v =>
    simp only [step, stepTend] at hs
    split at hs <;> cases hs; exact h.same rfl rfl rfl rfl rfl
  | exit v =>
    simp only [step, stepExit] at hs
    split at hs
    · cases hs
      have halive : ∀ w, (upd s.alive v false) w = true → s.alive w = true := by
        intro w hw
        by_cases hwv : w = v
        · subst hwv; simp at hw
        · rw [upd_other _ _ _ _ hwv] at hw; exact hw
      have hic : ∀ a b, isChild ({ s with alive := upd s.alive v false } : St n) a b = true → isChild s a b = true := by
        intro a b hc
        have hh := (isChild_iff _ a b).1 hc
        exact (isChild_iff s a b).2 ⟨halive b hh.1, hh.2⟩
      have hdeq : ∀ a b, qdebt ({ s with alive := upd s.alive v false } : St n) a b = qdebt s a b := fun _ _ => rfl
      rename_i hg
      have hml : mainLoopPc (s.pc r) = true := hg.2.2.2.2.2.1
      have hnq : quitPc (s.pc r) = false := by cases hh : s.pc r <;> simp [hh, mainLoopPc] at hml <;> rfl
      have hm1 : ∀ w, s.alive w = true → s.quitWait w = -1 := by
        intro w hw
        apply Classical.byContradiction
        intro hne
        have := h2.qphase w hw (Or.inr (Or.inr hne))
        rw [hnq] at this; cases this
      refine ⟨fun w hw => h.qrange w (halive w hw), ?_, fun a b hc hm => h.qzero a b (hic a b hc) hm,
        fun a b hc => h.qle1 a b (hic a b hc), fun a b hc hq => h.qpre a b (hic a b hc) hq⟩
      intro a haa h0
      have := hm1 a (halive a haa)
      have h0' : (0 : Int) ≤ s.quitWait a := h0
      omega
    · cases hs
  | eRdPre x =>
    simp only [step, stepERdPre] at hs
    split at hs
    · split at hs <;> cases hs <;> exact h.same rfl rfl rfl rfl rfl
    · cases hs
  | eRd x b =>
    simp only [step, stepERd] at hs
    split at hs
    · split at hs
      · split at hs <;> cases hs; exact h.same rfl rfl rfl rfl rfl
      · split at hs <;> cases hs; exact h.same rfl rfl rfl rfl rfl
      · cases hs
    · cases hs
  | eOpts k =>
    simp only [step, stepEOpts] at hs
    split at hs
    · split at hs
      · cases hs; cases k <;> exact h.same rfl rfl rfl rfl rfl
      · cases hs; cases k <;> exact h.same rfl rfl rfl rfl rfl
      · cases hs
    · cases hs
  | pWr x b =>
    simp only [step, stepP] at hs
    cases x <;> simp only [stepPWr] at hs <;> try (cases hs)
    all_goals (split at hs <;> first | (cases hs; exact h.same rfl rfl rfl rfl rfl) | cases hs)
  | pWd x =>
    simp only [step, stepP] at hs
    cases x <;> simp only [stepPWd] at hs <;> try (cases hs)
    all_goals (split at hs <;> first | (cases hs; exact h.same rfl rfl rfl rfl rfl) | cases hs)
  | pWaitStop => simp only [step, stepP] at hs; split at hs <;> cases hs; exact h
  | pWaitOpts => simp only [step, stepP] at hs; split at hs <;> cases hs; exact h
  | pSetOpt => simp only [step, stepP] at hs; split at hs <;> cases hs; exact h.same rfl rfl rfl rfl rfl
  | pNotify t => simp only [step, stepP] at hs; cases hs; exact h.same rfl rfl rfl rfl rfl
  | eBegin => simp only [step, stepE] at hs; split at hs <;> cases hs; exact h.same rfl rfl rfl rfl rfl
  | eInit =>
    simp only [step, stepE] at hs
    split at hs <;> cases hs
    rename_i hg
    refine h.neutral r (s.q r) (bcast s r .init) rfl rfl rfl (by simp [setPc]) rfl rfl (fun _ => rfl) ?_ ?_
    · intro d; rw [hg.1, pQuit_bcast, pQuit_nil]; simp
    · intro p d; rw [hg.1, pQAck_bcast s r _ p d (by simp), pQAck_nil]
  | eJobNext =>
    simp only [step, stepE] at hs
    split at hs <;> cases hs
    rename_i hg
    refine h.neutral r (s.q r) (bcast s r (.start s.epoch (s.ejob + 1))) rfl rfl rfl (by simp) rfl rfl (fun _ => rfl) ?_ ?_
    · intro d; rw [hg.1, pQuit_bcast, pQuit_nil]; simp
    · intro p d; rw [hg.1, pQAck_bcast s r _ p d (by simp), pQAck_nil]
  | eSearchDone => simp only [step, stepE] at hs; split at hs <;> cases hs; exact h.same rfl rfl rfl rfl rfl
  | eHoldDone =>
    simp only [step, stepE] at hs
    split at hs
    · split at hs <;> cases hs <;> exact h.same rfl rfl rfl rfl rfl
    · cases hs
  | eBest =>
    simp only [step, stepE] at hs
    split at hs
    · split at hs <;> cases hs; exact h.same rfl rfl rfl rfl rfl
    · cases hs
  | eStopSend =>
    simp only [step, stepE] at hs
    split at hs <;> cases hs
    rename_i hg
    refine h.neutral r (s.q r) (Out.notify r :: bcast s r .stop) rfl rfl rfl (by simp [setPc]) rfl rfl (fun _ => rfl) ?_ ?_
    · intro d; rw [hg.1, pQuit_notify_cons, pQuit_bcast, pQuit_nil]; simp
    · intro p d; rw [hg.1, pQAck_notify_cons, pQAck_bcast s r _ p d (by simp), pQAck_nil]
  | eSearchEnd => simp only [step, stepE] at hs; split at hs <;> cases hs; exact h.same rfl rfl rfl rfl rfl
  | eQuitSend =>
    simp only [step, stepE] at hs
    split at hs
    · rename_i hg; cases hs
      have hm1 : s.quitWait r = -1 := by
        apply Classical.byContradiction
        intro hne
        have := h9.qroot hne
        rw [hg.2] at this; cases this
      split
      · rename_i hz
        refine h.quit_step h1 r (s.q r) (s.out r) 0 hra hg.1 hm1 rfl rfl (by simp [setPc]) (by simp [setPc]) (by simp [setPc])
          (fun _ => Nat.le_refl _) (by rw [hz]; rfl) (Or.inr ⟨hz, ?_⟩) (fun p hc => absurd rfl (h1.child_ne_root hc))
        rw [hg.1]; simp [toParent, h1.rootPar]
      · rename_i hz
        refine h.quit_step h1 r (s.q r) (bcast s r .quit) _ hra hg.1 hm1 rfl rfl rfl (by simp [setPc]) rfl
          (fun _ => Nat.le_refl _) rfl (Or.inl ⟨by omega, rfl⟩) (fun p hc => absurd rfl (h1.child_ne_root hc))
    · cases hs

theorem init_G8 (r : Fin n) : G8 r (init r) := by
  have hch : ∀ a b, isChild (init r) a b = false := by intro a b; simp [isChild, init]
  refine ⟨?_, ?_, ?_, ?_, ?_⟩
  · intro v _; simp [init]
  · intro p _ h0; simp [init] at h0
  · intro p c hc; rw [hch] at hc; cases hc
  · intro p c hc; rw [hch] at hc; cases hc
  · intro p c hc; rw [hch] at hc; cases hc

theorem reach_G8 {r : Fin n} {s : St n} (h : Reach r s) : G8 r s := by
  induction h with
  | init => exact init_G8 r
  | step s s' e hr hs ih => exact step_G8 (reach_G1 hr) (reach_G2 hr) (reach_G9 hr) ih e hs

end Conc
