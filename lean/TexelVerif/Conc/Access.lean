import TexelVerif.Conc.StepG4e
/-! Shared locations of the thread communication layer, their protection discipline, and the accesses
    each model step performs (property C09).  The table is read off the C++ source; that the source's
    data members obey it (locks held at every site, atomic types, complete member list of the thread-layer classes) is checked
    statically by `Conc/LockTable.lean` + `Bridge/LockFacts.lean` over facts regenerated from the source (tools/locktie.py);
    what a lexical analysis cannot see (thread roles, globals, aliasing) is validated dynamically (ThreadSanitizer). -/
namespace Conc

variable {n : Nat}

/-- threads: the protocol thread and one thread per communicator (`T r` = engine thread) -/
inductive Thr (n : Nat) where
  | P : Thr n
  | T (v : Fin n) : Thr n
deriving DecidableEq, Repr

inductive Lock (n : Nat) where
  | qmutex (v : Fin n) : Lock n     -- Communicator::mutex of v
  | nmutex (v : Fin n) : Lock n     -- Notifier::mutex of v's notifier
  | emutex : Lock n                 -- EngineMainThread::mutex
deriving DecidableEq, Repr

inductive Loc (n : Nat) where
  | queue (v : Fin n) : Loc n       -- Communicator::cmdQueue                       guarded by qmutex v
  | flag (v : Fin n) : Loc n        -- Notifier::notified                           guarded by nmutex v
  | counters (v : Fin n) : Loc n    -- stopAckWaitSelf/Children, quitAckWaitChildren owned by the thread of v
  | job (v : Fin n) : Loc n         -- WorkerThread: jobId, hasResult, pos, sti, kt, ht, et …   owned by the thread of v
  | children (v : Fin n) : Loc n    -- Communicator::children: written under qmutex v (addChild / removeChild),
                                    -- read WITHOUT the lock by the thread of v (sendXxx loops, poll's doPoll loop)
  | regs : Loc n                    -- search, quitFlag, ponder, infinite            std::atomic<bool>
  | params : Loc n                  -- EngineMainThread: engineControl, sc, pos, moves, … : written by P under emutex
                                    -- while the engine thread is outside doSearch, read by it inside doSearch without lock
  | pending : Loc n                 -- pendingOptions, optionsSetFinished            guarded by emutex
  | options : Loc n                 -- UCI parameter values, table-base globals, hash size: written by the engine thread
                                    -- in setOptions (no lock), read by every searching thread and by P when it starts a search
  | ttGen : Loc n                   -- TranspositionTable::generation: written by P (nextGeneration) before a search, read by searchers
  | ttData : Loc n                  -- table slots, node counters, time limits        relaxed atomics
deriving DecidableEq, Repr

def Loc.atomic : Loc n → Bool
  | .regs => true
  | .ttData => true
  | _ => false

structure Acc (n : Nat) where
  loc : Loc n
  write : Bool
  lock : Option (Lock n)
deriving DecidableEq, Repr

def rd (l : Loc n) (k : Option (Lock n) := none) : Acc n := ⟨l, false, k⟩
def wr (l : Loc n) (k : Option (Lock n) := none) : Acc n := ⟨l, true, k⟩

/-- the thread that performs an event -/
def thr (r : Fin n) : Ev n → Thr n
  | .waitRet v => .T v
  | .deq v => .T v
  | .pollEmpty v => .T v
  | .send v _ => .T v
  | .ackSelf v => .T v
  | .searchResult v => .T v
  | .searchLeave v _ => .T v
  | .spawn v _ => .T v          -- the new thread itself registers with its parent (`addChild`)
  | .tend v => .T v
  | .exit _ => .P               -- `~WorkerThread` runs in the protocol thread (`removeChild`)
  | .pWr _ _ => .P
  | .pWd _ => .P
  | .pWaitStop => .P
  | .pWaitOpts => .P
  | .pSetOpt => .P
  | .pNotify _ => .P
  | _ => .T r                   -- engine thread

/-- reads performed by a thread that is inside a search (`Search::negaScout…`) -/
def searchReads : List (Acc n) := [rd .options, rd .ttGen, wr .ttData]

/-- accesses of one model step (including the thread-local work that follows it up to the next step of the same thread) -/
def acc (r : Fin n) (s : St n) : Ev n → List (Acc n)
  | .waitRet v => [wr (.flag v) (some (.nmutex v))]
  | .deq v =>
      -- pop under the queue mutex, then the handler: counters, job state, broadcasts over `children`
      [wr (.queue v) (some (.qmutex v)), wr (.counters v), wr (.job v), rd (.children v)] ++
      (if isSearch (s.pc v) || s.pc v == .esearch then searchReads else [])
  | .pollEmpty v =>
      [rd (.queue v) (some (.qmutex v)), rd (.children v), wr (.counters v), wr (.job v)] ++
      (if isSearch (s.pc v) || s.pc v == .esearch then searchReads else [])
  | .send _ (.enq t _) => [wr (.queue t) (some (.qmutex t)), wr (.flag t) (some (.nmutex t))]
  | .send _ (.notify t) => [wr (.flag t) (some (.nmutex t))]
  | .ackSelf v => [wr (.counters v)]
  | .searchResult v => [wr (.job v)] ++ searchReads
  | .searchLeave v _ => [wr (.job v)] ++ searchReads
  | .spawn v p => [wr (.children p) (some (.qmutex p)), wr (.counters v), wr (.job v)]
  | .tend _ => []
  | .exit v => match s.parent v with
      | some p => [wr (.children p) (some (.qmutex p))]
      | none => []
  | .eRdPre _ => [rd .regs]
  | .eRd _ _ => [rd .regs]
  | .eOpts k =>
      -- swap under emutex; the options taken are applied (Parameters::set, listeners) until the next eOpts
      [wr .pending (some .emutex)] ++ (if k || !s.optsFin then [wr .options] else [])
  | .eBegin => [rd .params, rd .options]
  | .eInit => [rd .params, rd (.children r), wr (.counters r)] ++ searchReads
  | .eJobNext => [rd (.children r), wr (.counters r)] ++ searchReads
  | .eSearchDone => [rd .params] ++ searchReads
  | .eHoldDone => [rd .regs, rd .params]
  | .eBest => [rd .params, wr .ttData]
  | .eStopSend => [rd (.children r), wr (.counters r)]
  | .eSearchEnd => [wr .regs (some .emutex)]
  | .eQuitSend => [rd (.children r), wr (.counters r)]
  | .pWr .search _ => [wr .params (some .emutex), rd .options, wr .ttGen, wr .regs (some .emutex)]
  | .pWr _ _ => [wr .regs]
  | .pWd _ => [wr .regs]
  | .pWaitStop => [rd .regs (some .emutex), wr .params (some .emutex)]
  | .pWaitOpts => [rd .pending (some .emutex)]
  | .pSetOpt => [wr .pending (some .emutex)]
  | .pNotify t => [wr (.flag t) (some (.nmutex t))]

/-- two accesses conflict: same location, at least one write, not both atomic, no common lock -/
def conflict (a b : Acc n) : Prop :=
  a.loc = b.loc ∧ (a.write = true ∨ b.write = true) ∧ a.loc.atomic = false ∧
  ¬ (∃ k, a.lock = some k ∧ b.lock = some k)

/-- `~Communicator` of a helper runs while its parent's thread is not running (blocked in `wait`, finished or terminated),
    or the parent is the root (the engine thread is in its main loop then).  The original C++ code did NOT
    guarantee this for helper parents (`worker-destroy-vs-poll`, repaired): the strict acceptor checks it per event. -/
def exitQuiet (r : Fin n) (s : St n) : Ev n → Prop
  | .exit v => match s.parent v with
      | some p => p = r ∨ s.pc p = .wait ∨ s.pc p = .done ∨ s.pc p = .gone
      | none => True
  | _ => True

/-- small invariant: pending options imply `optionsSetFinished = false` -/
theorem pend_optsFin {r : Fin n} {s : St n} (h : Reach r s) : s.pend = true → s.optsFin = false := by
  induction h with
  | init => intro hp; simp [init] at hp
  | step s s' e _ hs ih =>
    cases e <;> simp only [step] at hs
    case waitRet v => unfold stepWaitRet at hs; split at hs <;> cases hs; exact ih
    case deq v =>
      unfold stepDeq at hs
      split at hs
      · split at hs
        · cases hs
        · rename_i c rest _
          have e1 := (handleW_G3fields { s with q := upd s.q v rest } v c)
          split at hs
          · cases hs; rw [e1.2.2.2.2.1, e1.2.2.2.2.2.1]; exact ih
          · cases hs; rw [e1.2.2.2.2.1, e1.2.2.2.2.2.1]; exact ih
          · cases hs; exact ih
          · cases hs
            have e2 := handleE_G3fields { s with q := upd s.q v rest } v .ecollect c
            rw [e2.2.2.2.2.1, e2.2.2.2.2.2.1]; exact ih
          · cases hs
            have e2 := handleE_G3fields { s with q := upd s.q v rest } v .equit c
            rw [e2.2.2.2.2.1, e2.2.2.2.2.2.1]; exact ih
          · cases hs
      · cases hs
    case pollEmpty v =>
      unfold stepPollEmpty at hs
      split at hs
      · split at hs
        · cases hs; exact ih
        · cases hs; exact ih
        · cases hs; exact ih
        · split at hs <;> cases hs <;> exact ih
        · cases hs; exact ih
        · cases hs
      · cases hs
    case send v o =>
      unfold stepSend at hs
      split at hs
      · cases hs; cases o <;> exact ih
      · cases hs
    case ackSelf v =>
      unfold stepAckSelf at hs
      split at hs
      · split at hs
        · split at hs <;> cases hs <;> exact ih
        · cases hs; exact ih
        · cases hs
      · cases hs
    case searchResult v =>
      unfold stepSearchResult at hs
      split at hs
      · split at hs
        · split at hs <;> cases hs <;> exact ih
        · cases hs
      · cases hs
    case searchLeave v m =>
      unfold stepSearchLeave at hs
      split at hs
      · split at hs
        · split at hs
          · cases hs; exact ih
          · split at hs <;> cases hs; exact ih
        · cases hs
      · cases hs
    case spawn v p => unfold stepSpawn at hs; split at hs <;> cases hs; exact ih
    case tend v => unfold stepTend at hs; split at hs <;> cases hs; exact ih
    case exit v => unfold stepExit at hs; split at hs <;> cases hs; exact ih
    case eRdPre x =>
      unfold stepERdPre at hs
      split at hs
      · split at hs <;> cases hs <;> exact ih
      · cases hs
    case eRd x b =>
      unfold stepERd at hs
      split at hs
      · split at hs
        · split at hs <;> cases hs; exact ih
        · split at hs <;> cases hs; exact ih
        · cases hs
      · cases hs
    case eOpts k =>
      unfold stepEOpts at hs
      split at hs
      · rename_i hg
        split at hs
        · cases hs; cases k
          · intro hp; simp [setPc] at hp; rw [← hg.2.1] at hp; cases hp
          · intro hp; simp at hp
        · cases hs; cases k
          · intro hp; simp [setPc] at hp; rw [← hg.2.1] at hp; cases hp
          · intro hp; simp at hp
        · cases hs
      · cases hs
    case pWr x b =>
      simp only [stepP] at hs
      cases x <;> simp only [stepPWr] at hs <;> try (cases hs)
      all_goals (split at hs <;> first | (cases hs; exact ih) | cases hs)
    case pWd x =>
      simp only [stepP] at hs
      cases x <;> simp only [stepPWd] at hs <;> try (cases hs)
      all_goals (split at hs <;> first | (cases hs; exact ih) | cases hs)
    case pWaitStop => simp only [stepP] at hs; split at hs <;> cases hs; exact ih
    case pWaitOpts => simp only [stepP] at hs; split at hs <;> cases hs; exact ih
    case pSetOpt => simp only [stepP] at hs; split at hs <;> cases hs; intro _; rfl
    case pNotify t => simp only [stepP] at hs; cases hs; exact ih
    all_goals (
      simp only [stepE] at hs
      first
        | (split at hs <;> first | (cases hs; exact ih) | (cases hs; split <;> exact ih) | (cases hs; done))
        | (split at hs
           · split at hs <;> first | (cases hs; exact ih) | (cases hs; done)
           · cases hs))

end Conc
