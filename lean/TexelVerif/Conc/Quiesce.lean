import TexelVerif.Conc.StepG1d
/-! Consequences of the counting invariant that need the tree to be well founded:
    when the root is outside a stop round, so is everybody else, and nothing of the stop / ack
    traffic is in flight on any edge. -/
namespace Conc

variable {n : Nat}

theorem G1.quiescent {r : Fin n} {s : St n} (h : G1 r s) (hr : inRound s r = false) :
    ∀ v, s.alive v = true → inRound s v = false := by
  have key : ∀ d v, s.depth v = d → s.alive v = true → inRound s v = false := by
    intro d
    induction d using Nat.strongRecOn with
    | _ d ih =>
      intro v hd hv
      by_cases hvr : v = r
      · subst hvr; exact hr
      · obtain ⟨p, hp, hpa⟩ := h.par v hv hvr
        have hlt := h.dep v p hv hp
        have hip := ih (s.depth p) (by omega) p rfl hpa
        exact (h.idle_children hip ((isChild_iff s p v).2 ⟨hv, hp⟩)).2.2.1
  intro v hv
  exact key (s.depth v) v rfl hv

/-- the root has all acks: no STOP queued or pending, nobody in a round, no STOP_ACK queued or pending, on every edge -/
theorem G1.quiescent_edge {r : Fin n} {s : St n} (h : G1 r s) (hr : inRound s r = false) {p c : Fin n}
    (hc : isChild s p c = true) :
    cStop (s.q c) = 0 ∧ pStop (s.out p) c = 0 ∧ inRound s c = false ∧ cAck (s.q p) c = 0 ∧ pAck (s.out c) p c = 0 :=
  h.idle_children (h.quiescent hr p (h.parent_alive hc)) hc

end Conc
