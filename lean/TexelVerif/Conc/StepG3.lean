import TexelVerif.Conc.InvG3
/-! Every step preserves `G3`. -/
namespace Conc

variable {n : Nat}

/-- a communication step of the engine thread (wait-return, poll, send, self-ack): registers untouched,
    the program counter stays in the same phase and at a point where nothing is assumed -/
theorem G3.root_comm {r : Fin n} {s s' : St n} (h : G3 r s) (x : Pc)
    (hpc : s'.pc r = x)
    (hq : s'.quitF = s.quitF) (hs : s'.search = s.search)
    (hg : s'.goCount = s.goCount) (hb : s'.bmCount = s.bmCount)
    (c1 : searchPc x = searchPc (s.pc r)) (c2 : quitPc x = quitPc (s.pc r)) (c3 : postBest x = postBest (s.pc r))
    (c4 : x ≠ .eS1) (c5 : ∀ t : St n, need t x) : G3 r s' := by
  refine ⟨?_, ?_, ?_, ?_, ?_, ?_, ?_, ?_, ?_⟩
  · rw [hq]; exact h.r1q
  · rw [hs]; exact h.r1s
  · rw [hq, hs]; exact h.excl
  · rw [hpc, hs, c1]; exact h.s1
  · rw [hpc, hq, c2]; exact h.q1
  · rw [hq]; exact h.r4
  · rw [hpc]; intro e; exact absurd e c4
  · rw [hg, hb, hs, hpc, c3]; exact h.b1
  · intro _ _; rw [hpc]; exact c5 s'

theorem stepWaitRet_G3 {r : Fin n} {s s' : St n} (h : G3 r s) (v : Fin n) (hs : stepWaitRet s v = some s') : G3 r s' := by
  unfold stepWaitRet at hs
  split at hs
  · rename_i hg
    obtain ⟨va, hout, hwp, hfl⟩ := hg
    cases hs
    by_cases hvr : v = r
    · subst hvr
      refine h.root_comm (afterWait (s.pc v)) (by simp) rfl rfl rfl rfl ?_ ?_ ?_ ?_ ?_
      all_goals (cases hp : s.pc v <;> simp [hp, isWaitPc] at hwp <;> simp [afterWait, searchPc, quitPc, postBest, need])
    · have hrv : r ≠ v := fun e => hvr e.symm
      exact h.frame (by simp [hrv]) (Or.inl (by simp [hrv])) rfl rfl rfl rfl rfl rfl rfl
  · cases hs

theorem handleW_G3fields (s : St n) (v : Fin n) (c : Cmd n) :
    (handleW s v c).pc = s.pc ∧ (handleW s v c).flag = s.flag ∧ (handleW s v c).quitF = s.quitF ∧
    (handleW s v c).search = s.search ∧ (handleW s v c).pend = s.pend ∧ (handleW s v c).optsFin = s.optsFin ∧
    (handleW s v c).pOut = s.pOut ∧ (handleW s v c).goCount = s.goCount ∧ (handleW s v c).bmCount = s.bmCount := by
  cases c <;> (try simp only [handleW]) <;> (try split) <;> (try simp)

theorem handleE_G3fields (s : St n) (v : Fin n) (pc : Pc) (c : Cmd n) :
    (handleE s v pc c).pc = s.pc ∧ (handleE s v pc c).flag = s.flag ∧ (handleE s v pc c).quitF = s.quitF ∧
    (handleE s v pc c).search = s.search ∧ (handleE s v pc c).pend = s.pend ∧ (handleE s v pc c).optsFin = s.optsFin ∧
    (handleE s v pc c).pOut = s.pOut ∧ (handleE s v pc c).goCount = s.goCount ∧ (handleE s v pc c).bmCount = s.bmCount := by
  unfold handleE
  split <;> (try simp)

theorem stepDeq_G3 {r : Fin n} {s s' : St n} (h : G3 r s) (v : Fin n) (hs : stepDeq s v = some s') : G3 r s' := by
  unfold stepDeq at hs
  split at hs
  · split at hs
    · cases hs
    · rename_i c rest hq
      simp only at hs
      split at hs
      · cases hs
        obtain ⟨e1, e2, e3, e4, e5, e6, e7, e8, e9⟩ := handleW_G3fields { s with q := upd s.q v rest } v c
        exact h.frame (by rw [e1]) (Or.inl (by rw [e2])) e3 e4 e5 e6 e7 e8 e9
      · cases hs
        obtain ⟨e1, e2, e3, e4, e5, e6, e7, e8, e9⟩ := handleW_G3fields { s with q := upd s.q v rest } v c
        exact h.frame (by rw [e1]) (Or.inl (by rw [e2])) e3 e4 e5 e6 e7 e8 e9
      · cases hs; exact h.frame rfl (Or.inl rfl) rfl rfl rfl rfl rfl rfl rfl
      · cases hs
        obtain ⟨e1, e2, e3, e4, e5, e6, e7, e8, e9⟩ := handleE_G3fields { s with q := upd s.q v rest } v .ecollect c
        exact h.frame (by rw [e1]) (Or.inl (by rw [e2])) e3 e4 e5 e6 e7 e8 e9
      · cases hs
        obtain ⟨e1, e2, e3, e4, e5, e6, e7, e8, e9⟩ := handleE_G3fields { s with q := upd s.q v rest } v .equit c
        exact h.frame (by rw [e1]) (Or.inl (by rw [e2])) e3 e4 e5 e6 e7 e8 e9
      · cases hs
  · cases hs

theorem stepPollEmpty_G3 {r : Fin n} {s s' : St n} (h1 : G1 r s) (h : G3 r s) (v : Fin n) (hs : stepPollEmpty s v = some s') : G3 r s' := by
  unfold stepPollEmpty at hs
  split at hs
  · rename_i hg
    obtain ⟨va, hout, hqe⟩ := hg
    split at hs
    · rename_i hpc; cases hs
      have hne : v ≠ r := h1.worker_ne_root va (by rw [hpc]; rfl)
      have hrv : r ≠ v := fun e => hne e.symm
      exact h.frame (by simp [hrv]) (Or.inl rfl) rfl rfl rfl rfl rfl rfl rfl
    · cases hs; exact h
    · cases hs; exact h
    · rename_i hpc
      have hvr : v = r := h1.root_pc va (by rw [hpc]; rfl)
      subst hvr
      split at hs
      · cases hs
        exact h.root_comm .epost (by simp) rfl rfl rfl rfl (by rw [hpc]; rfl) (by rw [hpc]; rfl) (by rw [hpc]; rfl) (by simp) (by intro t; simp [need])
      · cases hs
        exact h.root_comm .ecwait (by simp) rfl rfl rfl rfl (by rw [hpc]; rfl) (by rw [hpc]; rfl) (by rw [hpc]; rfl) (by simp) (by intro t; simp [need])
    · rename_i hpc; cases hs
      have hvr : v = r := h1.root_pc va (by rw [hpc]; rfl)
      subst hvr
      refine h.root_comm (if s.quitWait v = 0 then .edone else .eqwait) (by simp) rfl rfl rfl rfl ?_ ?_ ?_ ?_ ?_
      · rw [hpc]; split <;> rfl
      · rw [hpc]; split <;> rfl
      · rw [hpc]; split <;> rfl
      · split <;> simp
      · intro t; split <;> simp [need]
    · cases hs
  · cases hs

theorem stepSend_G3 {r : Fin n} {s s' : St n} (h : G3 r s) (v : Fin n) (o : Out n) (hs : stepSend s v o = some s') : G3 r s' := by
  unfold stepSend at hs
  split at hs
  · cases hs
    cases o with
    | notify t =>
      refine h.frame rfl ?_ rfl rfl rfl rfl rfl rfl rfl
      by_cases hrt : r = t
      · subst hrt; right; simp [applyOut]
      · left; simp [applyOut, hrt]
    | enq t c =>
      refine h.frame rfl ?_ rfl rfl rfl rfl rfl rfl rfl
      by_cases hrt : r = t
      · subst hrt; right; simp [applyOut]
      · left; simp [applyOut, hrt]
  · cases hs

theorem stepAckSelf_G3 {r : Fin n} {s s' : St n} (h1 : G1 r s) (h : G3 r s) (v : Fin n) (hs : stepAckSelf s v = some s') : G3 r s' := by
  unfold stepAckSelf at hs
  split at hs
  · rename_i hg
    obtain ⟨va, hout⟩ := hg
    split at hs
    · rename_i hpc
      have hne : v ≠ r := h1.worker_ne_root va (by rw [hpc]; rfl)
      have hrv : r ≠ v := fun e => hne e.symm
      split at hs
      · cases hs; exact h.frame (by simp [hrv]) (Or.inl rfl) rfl rfl rfl rfl rfl rfl rfl
      · cases hs; exact h.frame (by simp [hrv]) (Or.inl rfl) rfl rfl rfl rfl rfl rfl rfl
    · rename_i hpc; cases hs
      have hvr : v = r := h1.root_pc va (by rw [hpc]; rfl)
      subst hvr
      exact h.root_comm .ecollect (by simp) rfl rfl rfl rfl (by rw [hpc]; rfl) (by rw [hpc]; rfl) (by rw [hpc]; rfl) (by simp) (by intro t; simp [need])
    · cases hs
  · cases hs

theorem stepSearchResult_G3 {r : Fin n} {s s' : St n} (h : G3 r s) (v : Fin n) (hs : stepSearchResult s v = some s') : G3 r s' := by
  unfold stepSearchResult at hs
  split at hs
  · split at hs
    · split at hs
      · cases hs; exact h.frame rfl (Or.inl rfl) rfl rfl rfl rfl rfl rfl rfl
      · cases hs; exact h
    · cases hs
  · cases hs

theorem stepSearchLeave_G3 {r : Fin n} {s s' : St n} (h1 : G1 r s) (h : G3 r s) (v : Fin n) (m : Bool)
    (hs : stepSearchLeave s v m = some s') : G3 r s' := by
  unfold stepSearchLeave at hs
  split at hs
  · rename_i hg
    split at hs
    · rename_i j hpc
      have hne : v ≠ r := h1.worker_ne_root hg.1 (by rw [hpc]; rfl)
      have hrv : r ≠ v := fun e => hne e.symm
      split at hs
      · cases hs; exact h.frame (by simp [hrv]) (Or.inl rfl) rfl rfl rfl rfl rfl rfl rfl
      · split at hs
        · cases hs; exact h.frame (by simp [hrv]) (Or.inl rfl) rfl rfl rfl rfl rfl rfl rfl
        · cases hs
    · cases hs
  · cases hs

theorem stepSpawn_G3 {r : Fin n} {s s' : St n} (h : G3 r s) (v p : Fin n) (hs : stepSpawn r s v p = some s') : G3 r s' := by
  unfold stepSpawn at hs
  split at hs
  · rename_i hg
    have hrv : r ≠ v := fun e => hg.2.2.1 e.symm
    cases hs
    exact h.frame (by simp [hrv]) (Or.inl (by simp [hrv])) rfl rfl rfl rfl rfl rfl rfl
  · cases hs

theorem stepExit_G3 {r : Fin n} {s s' : St n} (h : G3 r s) (v : Fin n) (hs : stepExit r s v = some s') : G3 r s' := by
  unfold stepExit at hs
  split at hs
  · cases hs; exact h.frame rfl (Or.inl rfl) rfl rfl rfl rfl rfl rfl rfl
  · cases hs

theorem snap_seenF_false {g : Reg} (hc : g.cur = true) (hn : g.nxt ≠ some false) : g.snap.seenF = false := by
  simp only [Reg.snap, hc]
  cases hx : g.nxt with
  | none => rfl
  | some b => cases b
              · exact absurd hx hn
              · rfl

theorem snap_seenT_active (g : Reg) : g.snap.seenT = g.active := by
  simp [Reg.snap, Reg.active]

theorem stepERdPre_G3 {r : Fin n} {s s' : St n} (h : G3 r s) (x : Var) (hs : stepERdPre r s x = some s') : G3 r s' := by
  unfold stepERdPre at hs
  split at hs
  · rename_i hg
    split at hs
    · rename_i hpc; cases hs
      refine ⟨h.r1q, h.r1s, h.excl, ?_, ?_, ?_, ?_, ?_, ?_⟩
      · intro hh; simp [setPc, searchPc] at hh
      · intro hh; simp [setPc, quitPc] at hh
      · intro hh; rw [← snap_seenT_active]; exact hh
      · intro hh; simp [setPc] at hh
      · have := h.b1; rw [hpc] at this; simpa [setPc, postBest] using this
      · intro _ _
        show need _ (upd s.pc r .eQ1 r)
        rw [upd_same]
        intro hc
        exact snap_seenF_false hc h.r1q
    · rename_i hpc; cases hs
      refine ⟨h.r1q, h.r1s, h.excl, ?_, ?_, h.r4, ?_, ?_, ?_⟩
      · intro hh; simp [setPc, searchPc] at hh
      · intro hh; simp [setPc, quitPc] at hh
      · intro _ hh; rw [← snap_seenT_active]; exact hh
      · have := h.b1; rw [hpc] at this
        simpa [setPc, postBest, Reg.active, Reg.snap] using this
      · intro hf hpn
        have old := h.ne hf (by intro hh; apply hpn; exact hh)
        rw [hpc] at old
        show need _ (upd s.pc r .eS1 r)
        rw [upd_same]
        exact ⟨old.1, old.2.1, old.2.2, fun hc => snap_seenF_false hc h.r1s⟩
    · cases hs
      exact h.frame rfl (Or.inl rfl) rfl rfl rfl rfl rfl rfl rfl
    · cases hs
      exact h.frame rfl (Or.inl rfl) rfl rfl rfl rfl rfl rfl rfl
    · cases hs
  · cases hs

theorem stepERd_G3 {r : Fin n} {s s' : St n} (h : G3 r s) (x : Var) (b : Bool) (hs : stepERd r s x b = some s') : G3 r s' := by
  unfold stepERd at hs
  split at hs
  · rename_i hg
    split at hs
    · rename_i hpc
      split at hs
      · rename_i hseen; cases hs
        cases b
        · -- read `false`: continue with setOptions
          refine ⟨h.r1q, h.r1s, h.excl, ?_, ?_, h.r4, ?_, ?_, ?_⟩
          · intro hh; simp [setPc, searchPc] at hh
          · intro hh; simp [setPc, quitPc] at hh
          · intro hh; simp [setPc] at hh
          · have := h.b1; rw [hpc] at this; simpa [setPc, postBest] using this
          · intro hf hpn
            have old := h.ne hf hpn
            rw [hpc] at old
            show need _ (upd s.pc r _ r)
            rw [upd_same]
            show s.quitF.cur = false
            cases hc : s.quitF.cur
            · rfl
            · have := old hc
              simp [Reg.seen] at hseen
              rw [this] at hseen; cases hseen
        · -- read `true`: leave the main loop
          refine ⟨h.r1q, h.r1s, h.excl, ?_, ?_, h.r4, ?_, ?_, ?_⟩
          · intro hh; simp [setPc, searchPc] at hh
          · intro _; apply h.r4; simpa [Reg.seen] using hseen
          · intro hh; simp [setPc] at hh
          · have := h.b1; rw [hpc] at this; simpa [setPc, postBest] using this
          · intro _ _
            show need _ (upd s.pc r _ r)
            rw [upd_same]; trivial
      · cases hs
    · rename_i hpc
      split at hs
      · rename_i hseen; cases hs
        cases b
        · refine ⟨h.r1q, h.r1s, h.excl, ?_, ?_, h.r4, ?_, ?_, ?_⟩
          · intro hh; simp [setPc, searchPc] at hh
          · intro hh; simp [setPc, quitPc] at hh
          · intro hh; simp [setPc] at hh
          · have := h.b1; rw [hpc] at this; simpa [setPc, postBest] using this
          · intro hf hpn
            have old := h.ne hf hpn
            rw [hpc] at old
            show need _ (upd s.pc r _ r)
            rw [upd_same]
            refine ⟨old.1, ?_, old.2.1, old.2.2.1⟩
            show s.search.cur = false
            cases hc : s.search.cur
            · rfl
            · have := old.2.2.2 hc
              simp [Reg.seen] at hseen
              rw [this] at hseen; cases hseen
        · refine ⟨h.r1q, h.r1s, h.excl, ?_, ?_, h.r4, ?_, ?_, ?_⟩
          · intro _; apply h.r5 hpc; simpa [Reg.seen] using hseen
          · intro hh; simp [setPc, quitPc] at hh
          · intro hh; simp [setPc] at hh
          · have := h.b1; rw [hpc] at this; simpa [setPc, postBest] using this
          · intro _ _
            show need _ (upd s.pc r _ r)
            rw [upd_same]; trivial
      · cases hs
    · cases hs
  · cases hs

theorem stepEOpts_G3 {r : Fin n} {s s' : St n} (h : G3 r s) (k : Bool) (hs : stepEOpts r s k = some s') : G3 r s' := by
  unfold stepEOpts at hs
  split at hs
  · rename_i hg
    obtain ⟨hout, hk, hsn, hqn⟩ := hg
    split at hs
    · rename_i hpc; cases hs
      cases k
      · refine ⟨h.r1q, h.r1s, h.excl, ?_, ?_, h.r4, ?_, ?_, ?_⟩
        · intro hh; simp [setPc, searchPc] at hh
        · intro hh; simp [setPc, quitPc] at hh
        · intro hh; simp [setPc] at hh
        · have := h.b1; rw [hpc] at this; simpa [setPc, postBest] using this
        · intro hf hpn
          have old := h.ne hf hpn
          rw [hpc] at old
          show need _ (upd s.pc r _ r)
          rw [upd_same]
          exact ⟨old, hk.symm, rfl⟩
      · refine ⟨h.r1q, h.r1s, h.excl, h.s1, h.q1, h.r4, h.r5, h.b1, ?_⟩
        intro hf hpn
        have old := h.ne hf hpn
        show need _ (s.pc r)
        rw [hpc] at old ⊢
        exact old
    · rename_i hpc; cases hs
      cases k
      · refine ⟨h.r1q, h.r1s, h.excl, ?_, ?_, h.r4, ?_, ?_, ?_⟩
        · intro _; apply h.s1; rw [hpc]; rfl
        · intro hh; simp [setPc, quitPc] at hh
        · intro hh; simp [setPc] at hh
        · have := h.b1; rw [hpc] at this; simpa [setPc, postBest] using this
        · intro _ _
          show need _ (upd s.pc r _ r)
          rw [upd_same]
          exact ⟨hk.symm, rfl⟩
      · refine ⟨h.r1q, h.r1s, h.excl, h.s1, h.q1, h.r4, h.r5, h.b1, ?_⟩
        intro _ _
        show need _ (s.pc r)
        rw [hpc]; trivial
    · cases hs
  · cases hs

theorem postBest_searchPc {p : Pc} (h : postBest p = true) : searchPc p = true := by
  cases p <;> simp [postBest] at h <;> rfl

theorem stepE_G3 {r : Fin n} {s s' : St n} (h : G3 r s) (e : Ev n) (hs : stepE r s e = some s') : G3 r s' := by
  cases e <;> simp only [stepE] at hs <;> try (cases hs)
  case eBegin =>
    split at hs
    · rename_i hg; cases hs
      exact h.root_comm .eGo (by simp [setPc]) rfl rfl rfl rfl (by rw [hg.2]; rfl) (by rw [hg.2]; rfl) (by rw [hg.2]; rfl) (by simp) (by intro t; simp [need])
    · cases hs
  case eInit =>
    split at hs
    · rename_i hg; cases hs
      exact h.root_comm .esearch (by simp [setPc]) rfl rfl rfl rfl (by rw [hg.2]; rfl) (by rw [hg.2]; rfl) (by rw [hg.2]; rfl) (by simp) (by intro t; simp [need])
    · cases hs
  case eJobNext =>
    split at hs
    · rename_i hg; cases hs
      exact h.root_comm .esearch hg.2 rfl rfl rfl rfl (by rw [hg.2]) (by rw [hg.2]) (by rw [hg.2]) (by simp) (by intro t; simp [need])
    · cases hs
  case eSearchDone =>
    split at hs
    · rename_i hg; cases hs
      exact h.root_comm (.ehold true) (by simp [setPc]) rfl rfl rfl rfl (by rw [hg.2]; rfl) (by rw [hg.2]; rfl) (by rw [hg.2]; rfl) (by simp) (by intro t; simp [need])
    · cases hs
  case eHoldDone =>
    split at hs
    · rename_i hg
      split at hs
      · rename_i hpc; cases hs
        exact h.root_comm (.ebest false) (by simp [setPc]) rfl rfl rfl rfl (by rw [hpc]; rfl) (by rw [hpc]; rfl) (by rw [hpc]; rfl) (by simp) (by intro t; simp [need])
      · rename_i ws hpc; cases hs
        exact h.root_comm (.ebest ws) (by simp [setPc]) rfl rfl rfl rfl (by rw [hpc]; rfl) (by rw [hpc]; rfl) (by rw [hpc]; rfl) (by simp) (by intro t; simp [need])
      · cases hs
    · cases hs
  case eBest =>
    split at hs
    · rename_i hg
      split at hs
      · rename_i ws hpc; cases hs
        have hact : s.search.active = true := h.s1 (by rw [hpc]; rfl)
        have hb := h.b1
        rw [hpc, hact] at hb
        simp [postBest] at hb
        refine ⟨h.r1q, h.r1s, h.excl, ?_, ?_, h.r4, ?_, ?_, ?_⟩
        · intro _; exact hact
        · intro hh; cases ws <;> simp [setPc, quitPc] at hh
        · intro hh; cases ws <;> simp [setPc] at hh
        · show s.goCount = s.bmCount + 1 + _
          rw [hb]
          cases ws <;> simp [setPc, postBest]
        · intro _ _
          show need _ (upd s.pc r _ r)
          rw [upd_same]; cases ws <;> trivial
      · cases hs
    · cases hs
  case eStopSend =>
    split at hs
    · rename_i hg; cases hs
      exact h.root_comm .eack (by simp [setPc]) rfl rfl rfl rfl (by rw [hg.2]; rfl) (by rw [hg.2]; rfl) (by rw [hg.2]; rfl) (by simp) (by intro t; simp [need])
    · cases hs
  case eSearchEnd =>
    split at hs
    · rename_i hg
      obtain ⟨hout, hpc, hsn, hqn⟩ := hg
      cases hs
      have hact : s.search.active = true := h.s1 (by rw [hpc]; rfl)
      have hqc : s.quitF.cur = false := by
        cases hc : s.quitF.cur
        · rfl
        · exact absurd ⟨by simp [Reg.active, hc], hact⟩ h.excl
      refine ⟨h.r1q, ?_, ?_, ?_, ?_, h.r4, ?_, ?_, ?_⟩
      · exact h.r1s
      · intro hh; simp [setPc, Reg.active, hsn] at hh
      · intro hh; simp [setPc, searchPc] at hh
      · intro hh; simp [setPc, quitPc] at hh
      · intro hh; simp [setPc] at hh
      · have := h.b1; rw [hpc] at this
        simpa [setPc, postBest, Reg.active, hsn] using this
      · intro hf hpn
        have old := h.ne hf (by intro hh; apply hpn; exact hh)
        rw [hpc] at old
        show need _ (upd s.pc r _ r)
        rw [upd_same]
        exact ⟨hqc, rfl, old.1, old.2⟩
    · cases hs
  case eQuitSend =>
    split at hs
    · rename_i hg; cases hs
      split
      · exact h.root_comm .equit (by simp [setPc]) rfl rfl rfl rfl (by rw [hg.2]; rfl) (by rw [hg.2]; rfl) (by rw [hg.2]; rfl) (by simp) (by intro t; simp [need])
      · exact h.root_comm .equit (by simp [setPc]) rfl rfl rfl rfl (by rw [hg.2]; rfl) (by rw [hg.2]; rfl) (by rw [hg.2]; rfl) (by simp) (by intro t; simp [need])
    · cases hs

theorem need_congr {s s' : St n} (hq : s'.quitF = s.quitF) (hs : s'.search = s.search) (hpe : s'.pend = s.pend)
    (hof : s'.optsFin = s.optsFin) (p : Pc) (h : need s p) : need s' p := by
  cases p <;> simp only [need] at h ⊢ <;> (try rw [hq]) <;> (try rw [hs]) <;> (try rw [hpe]) <;> (try rw [hof]) <;> exact h

theorem stepP_G3 {r : Fin n} {s s' : St n} (h : G3 r s) (e : Ev n) (hs : stepP r s e = some s') : G3 r s' := by
  cases e <;> simp only [stepP] at hs <;> try (cases hs)
  case pWr x b =>
    cases x <;> simp only [stepPWr] at hs <;> try (cases hs)
    case ponder =>
      split at hs
      · cases hs; exact h.frame rfl (Or.inl rfl) rfl rfl rfl rfl rfl rfl rfl
      · cases hs
    case infinite =>
      split at hs
      · cases hs; exact h.frame rfl (Or.inl rfl) rfl rfl rfl rfl rfl rfl rfl
      · cases hs
    case quit =>
      split at hs
      · rename_i hg
        obtain ⟨hpo, hqn, hb, hsc, hsn⟩ := hg
        cases hs
        have hsa : s.search.active = false := by simp [Reg.active, hsc, hsn]
        refine ⟨?_, h.r1s, ?_, h.s1, ?_, ?_, h.r5, h.b1, ?_⟩
        · simp [Reg.wr]
        · intro hh; rw [hsa] at hh; cases hh.2
        · intro _; simp [Reg.active, Reg.wr]
        · intro _; simp [Reg.active, Reg.wr]
        · intro _ hpn; exfalso; apply hpn; right; left; simp [Reg.wr]
      · cases hs
    case search =>
      split at hs
      · rename_i hg
        obtain ⟨hpo, hsn, hb, hsc, hqc, hqn, _⟩ := hg
        cases hs
        have hsa : s.search.active = false := by simp [Reg.active, hsc, hsn]
        have hqa : s.quitF.active = false := by simp [Reg.active, hqc, hqn]
        have hnpost : postBest (s.pc r) = false := by
          cases hp : postBest (s.pc r)
          · rfl
          · have := h.s1 (postBest_searchPc hp); rw [hsa] at this; cases this
        refine ⟨h.r1q, ?_, ?_, ?_, h.q1, h.r4, ?_, ?_, ?_⟩
        · simp [Reg.wr]
        · intro hh; rw [hqa] at hh; cases hh.1
        · intro _; simp [Reg.active, Reg.wr]
        · intro _ _; simp [Reg.active, Reg.wr]
        · have := h.b1; rw [hsa] at this
          simp at this
          show s.goCount + 1 = s.bmCount + _
          rw [this]; simp [Reg.active, Reg.wr, hnpost]
        · intro _ hpn; exfalso; apply hpn; right; right; simp [Reg.wr]
      · cases hs
  case pWd x =>
    cases x <;> simp only [stepPWd] at hs <;> try (cases hs)
    case ponder =>
      split at hs
      · cases hs; exact h.frame rfl (Or.inl rfl) rfl rfl rfl rfl rfl rfl rfl
      · cases hs
    case infinite =>
      split at hs
      · cases hs; exact h.frame rfl (Or.inl rfl) rfl rfl rfl rfl rfl rfl rfl
      · cases hs
    case quit =>
      split at hs
      · rename_i b hb; cases hs
        have hbt : b = true := by
          cases b
          · exact absurd hb h.r1q
          · rfl
        subst hbt
        have hqa : s.quitF.active = true := by simp [Reg.active, hb]
        refine ⟨?_, h.r1s, ?_, h.s1, ?_, ?_, h.r5, h.b1, ?_⟩
        · simp
        · intro hh; exact h.excl ⟨hqa, hh.2⟩
        · intro _; simp [Reg.active]
        · intro _; simp [Reg.active]
        · intro _ hpn; exfalso; apply hpn; left; simp
      · cases hs
    case search =>
      split at hs
      · rename_i b hb; cases hs
        have hbt : b = true := by
          cases b
          · exact absurd hb h.r1s
          · rfl
        subst hbt
        have hsa : s.search.active = true := by simp [Reg.active, hb]
        refine ⟨h.r1q, ?_, ?_, ?_, h.q1, h.r4, ?_, ?_, ?_⟩
        · simp
        · intro hh; exact h.excl ⟨hh.1, hsa⟩
        · intro _; simp [Reg.active]
        · intro _ _; simp [Reg.active]
        · have := h.b1; rw [hsa] at this
          show s.goCount = s.bmCount + _
          rw [this]; simp [Reg.active]
        · intro _ hpn; exfalso; apply hpn; left; simp
      · cases hs
  case pWaitStop =>
    split at hs
    · cases hs; exact h
    · cases hs
  case pWaitOpts =>
    split at hs
    · cases hs; exact h
    · cases hs
  case pSetOpt =>
    split at hs
    · cases hs
      refine ⟨h.r1q, h.r1s, h.excl, h.s1, h.q1, h.r4, h.r5, h.b1, ?_⟩
      intro _ hpn; exfalso; apply hpn; left; simp
    · cases hs
  case pNotify t =>
    refine ⟨h.r1q, h.r1s, h.excl, h.s1, h.q1, h.r4, h.r5, h.b1, ?_⟩
    intro hf hpn
    by_cases hrt : r = t
    · subst hrt; simp at hf
    · simp [hrt] at hf
      have hne : Out.notify r ≠ Out.notify t := by intro e; cases e; exact hrt rfl
      have old := h.ne hf (by
        intro hh; apply hpn
        rcases hh with hh | hh | hh
        · left; exact (List.mem_erase_of_ne hne).2 hh
        · right; left; exact hh
        · right; right; exact hh)
      exact need_congr rfl rfl rfl rfl _ old

theorem stepTend_G3 {r : Fin n} {s s' : St n} (h : G3 r s) (v : Fin n) (hs : stepTend r s v = some s') : G3 r s' := by
  unfold stepTend at hs
  split at hs
  · rename_i hg
    have hrv : r ≠ v := fun e => hg.2.1 e.symm
    cases hs
    exact h.frame (by simp [hrv]) (Or.inl rfl) rfl rfl rfl rfl rfl rfl rfl
  · cases hs

theorem init_G3 (r : Fin n) : G3 r (init r) := by
  refine ⟨?_, ?_, ?_, ?_, ?_, ?_, ?_, ?_, ?_⟩
  · simp [init]
  · simp [init]
  · simp [init, Reg.active]
  · simp [init, searchPc]
  · simp [init, quitPc]
  · simp [init]
  · simp [init]
  · simp [init, Reg.active]
  · intro _ _; simp [init, need]

theorem step_G3 {r : Fin n} {s s' : St n} (h1 : G1 r s) (h : G3 r s) (e : Ev n) (hs : step r s e = some s') : G3 r s' := by
  cases e with
  | waitRet v => exact stepWaitRet_G3 h v hs
  | deq v => exact stepDeq_G3 h v hs
  | pollEmpty v => exact stepPollEmpty_G3 h1 h v hs
  | send v o => exact stepSend_G3 h v o hs
  | ackSelf v => exact stepAckSelf_G3 h1 h v hs
  | searchResult v => exact stepSearchResult_G3 h v hs
  | searchLeave v m => exact stepSearchLeave_G3 h1 h v m hs
  | spawn v p => exact stepSpawn_G3 h v p hs
  | tend v => exact stepTend_G3 h v hs
  | exit v => exact stepExit_G3 h v hs
  | eRdPre x => exact stepERdPre_G3 h x hs
  | eRd x b => exact stepERd_G3 h x b hs
  | eOpts k => exact stepEOpts_G3 h k hs
  | eStopSend => exact stepE_G3 h .eStopSend hs
  | eBegin => exact stepE_G3 h .eBegin hs
  | eInit => exact stepE_G3 h .eInit hs
  | eJobNext => exact stepE_G3 h .eJobNext hs
  | eSearchDone => exact stepE_G3 h .eSearchDone hs
  | eHoldDone => exact stepE_G3 h .eHoldDone hs
  | eBest => exact stepE_G3 h .eBest hs
  | eSearchEnd => exact stepE_G3 h .eSearchEnd hs
  | eQuitSend => exact stepE_G3 h .eQuitSend hs
  | pWr x b => exact stepP_G3 h (.pWr x b) hs
  | pWd x => exact stepP_G3 h (.pWd x) hs
  | pWaitStop => exact stepP_G3 h .pWaitStop hs
  | pWaitOpts => exact stepP_G3 h .pWaitOpts hs
  | pSetOpt => exact stepP_G3 h .pSetOpt hs
  | pNotify t => exact stepP_G3 h (.pNotify t) hs

theorem reach_G3 {r : Fin n} {s : St n} (h : Reach r s) : G3 r s := by
  induction h with
  | init => exact init_G3 r
  | step s s' e hr hs ih => exact step_G3 (reach_G1 hr) ih e hs

end Conc
