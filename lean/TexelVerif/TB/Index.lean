import TexelVerif.TB.Game
/-!
# Model of Texel's table index (`TBIndex`, `TBPosition::setPosition/indexValid`, tbgen.cpp) and of `PositionValue`

A literal transcription: the index is a 32-bit word
`[ white-king index 0..9 : 4 | side to move : 1 | square of slot 1 : 6 | … | square of slot p-1 : 6 ]`,
a captured man sits on the black king's square, the white king is confined to the a1-d1-d4 triangle by mirroring
the other men, and `canonize` sorts equal men and picks the smaller of the two diagonal images.
Executable; imported by the compiled driver.
-/
namespace TB

/-! ## Static tables (`TBIndex::staticInitialize`) -/

def mirrorXSq (s : Nat) : Nat := s ^^^ 7
def mirrorYSq (s : Nat) : Nat := s ^^^ 56
def mirrorDSq (s : Nat) : Nat := (s % 8) * 8 + s / 8

/-- bit 0: mirror X, bit 1: mirror Y, bit 2: mirror in the a1-h8 diagonal -/
def symType (s : Nat) : Nat :=
  let sym1 := if s % 8 ≥ 4 then 1 else 0
  let s1 := if s % 8 ≥ 4 then mirrorXSq s else s
  let sym2 := if s1 / 8 ≥ 4 then 2 else 0
  let s2 := if s1 / 8 ≥ 4 then mirrorYSq s1 else s1
  let sym4 := if s2 / 8 > s2 % 8 then 4 else 0
  sym1 ||| sym2 ||| sym4

def kingMapInverse : List Nat := [0, 1, 2, 3, 9, 10, 11, 18, 19, 27]

/-- the triangle square that `s` is mapped to by its `symType` -/
def toTriangle (s : Nat) : Nat :=
  let t := symType s
  let s := if t &&& 1 != 0 then mirrorXSq s else s
  let s := if t &&& 2 != 0 then mirrorYSq s else s
  if t &&& 4 != 0 then mirrorDSq s else s

def kingMap (s : Nat) : Nat := (kingMapInverse.idxOf (toTriangle s))

/-- the three static arrays of `TBIndex`, tabulated once -/
def symTypeTab : Array Nat := Array.ofFn (n := 64) fun i => symType i.val
def kingMapTab : Array Nat := Array.ofFn (n := 64) fun i => kingMap i.val
def kingMapInvTab : Array Nat := kingMapInverse.toArray

/-! ## `TBIndex` -/

abbrev W := UInt64    -- holds the U32 index; no operation below leaves the low 32 bits

/-- shape of an index: number of men `p`, number of white men, Texel piece code of each slot, and the constants
    the `TBIndex` constructor derives from them (computed once by `mkShape`) -/
structure Shape where
  p : Nat
  nWhite : Nat
  types : List Nat
  colBits : W          -- bits of the square columns of slots 1..p-1
  rowBits : W          -- bits of the square rows of slots 1..p-1
  duplicated : Bool    -- `TBPosition::duplicatedPieces`
  slots1 : List Nat    -- 1, …, p-1
  slots0 : List Nat    -- 0, …, p-1
deriving Repr

def kindCode : Kind → Nat
  | .K => 1 | .Q => 2 | .R => 3 | .B => 4 | .N => 5

def mkShape (p nWhite : Nat) (types : List Nat) : Shape :=
  { p := p, nWhite := nWhite, types := types,
    colBits := (List.range (p - 1)).foldl (fun a i => a ||| ((0x07 : W) <<< (6*i).toUInt64)) 0,
    rowBits := (List.range (p - 1)).foldl (fun a i => a ||| ((0x38 : W) <<< (6*i).toUInt64)) 0,
    duplicated := (List.range' 1 (p - 1)).any fun i => (List.range' (i+1) (p - 1 - i)).any fun j =>
      types.getD i 0 == types.getD j 0,
    slots1 := List.range' 1 (p - 1), slots0 := List.range p }

def CC.shape (c : CC) : Shape :=
  mkShape c.n c.nWhite (c.slots.map fun sl => kindCode sl.2 + (if sl.1 then 0 else 6))

def Shape.nPos (sh : Shape) : Nat := 20 * 64 ^ (sh.p - 1)

def mask32 : W := 0xffffffff
@[inline] def clearBits (idx m : W) : W := idx &&& (mask32 ^^^ m)

@[inline] def Shape.pieceShift (sh : Shape) (i : Nat) : W := (6 * (sh.p - 1 - i)).toUInt64
@[inline] def Shape.kingShift (sh : Shape) : W := (6*sh.p - 5).toUInt64
@[inline] def Shape.sideShift (sh : Shape) : W := (6*sh.p - 6).toUInt64

def Shape.getSquare (sh : Shape) (idx : W) (i : Nat) : Nat :=
  if i == 0 then kingMapInvTab.getD ((idx >>> sh.kingShift) &&& 0xf).toNat 0
  else ((idx >>> sh.pieceShift i) &&& 0x3f).toNat

def Shape.mirrorX (sh : Shape) (idx : W) : W := idx ^^^ sh.colBits
def Shape.mirrorY (sh : Shape) (idx : W) : W := idx ^^^ sh.rowBits
def Shape.mirrorD (sh : Shape) (idx : W) : W :=
  ((idx &&& sh.colBits) <<< 3) ||| ((idx &&& sh.rowBits) >>> 3) ||| clearBits idx (sh.colBits ||| sh.rowBits)

def Shape.whiteMove (sh : Shape) (idx : W) : Bool := (idx >>> sh.sideShift) &&& 1 == 1
def Shape.swapSide (sh : Shape) (idx : W) : W := idx ^^^ ((1 : W) <<< sh.sideShift)

def Shape.putSquare (sh : Shape) (idx : W) (i sq : Nat) : W :=
  clearBits idx ((0x3f : W) <<< sh.pieceShift i) ||| (sq.toUInt64 <<< sh.pieceShift i)

/-- `TBIndex::setSquare` -/
def Shape.setSquare (sh : Shape) (idx : W) (i sq : Nat) : W :=
  if i == 0 then
    let idx := clearBits idx ((0xf : W) <<< sh.kingShift) ||| ((kingMapTab.getD sq 0).toUInt64 <<< sh.kingShift)
    let sym := symTypeTab.getD sq 0
    let idx := if sym &&& 1 != 0 then sh.mirrorX idx else idx
    let idx := if sym &&& 2 != 0 then sh.mirrorY idx else idx
    if sym &&& 4 != 0 then sh.mirrorD idx else idx
  else if i == sh.nWhite then
    let oldSq := sh.getSquare idx i
    sh.slots1.foldl (fun idx j => if sh.getSquare idx j == oldSq then sh.putSquare idx j sq else idx) idx
  else sh.putSquare idx i sq

/-- `TBIndex::sortPieces`: within each run of equal men, smaller squares first -/
def Shape.sortPieces (sh : Shape) (idx : W) : W :=
  sh.slots1.foldl (fun idx i =>
    ((List.range' (i+1) (sh.p - 1 - i)).foldl (fun (st : W × Bool) j =>
      if st.2 then st
      else if sh.types.getD i 0 != sh.types.getD j 0 then (st.1, true)      -- `break`
      else
        let sqI := sh.getSquare st.1 i
        let sqJ := sh.getSquare st.1 j
        if sqJ < sqI then (sh.setSquare (sh.setSquare st.1 i sqJ) j sqI, false) else st) (idx, false)).1) idx

def diagA1D4 : List Nat := [0, 9, 18, 27]

/-- `TBIndex::canonize` -/
def Shape.canonize (sh : Shape) (idx : W) : W :=
  let idx := if sh.duplicated then sh.sortPieces idx else idx
  if diagA1D4.contains (sh.getSquare idx 0) then
    let idx0 := idx
    let idx := sh.mirrorD idx
    let idx := if sh.duplicated then sh.sortPieces idx else idx
    if idx < idx0 then idx else idx0
  else idx

/-- no square other than `bk` occurs twice -/
def distinctNot (bk : Nat) : List Nat → Bool
  | [] => true
  | a :: l => (a == bk || !l.contains a) && distinctNot bk l

/-- `TBPosition::indexValid` -/
def Shape.indexValid (sh : Shape) (idx : W) : Bool :=
  let bk := sh.getSquare idx sh.nWhite
  if sh.getSquare idx 0 == bk then false
  else
    if !distinctNot bk (sh.slots0.map (sh.getSquare idx)) then false   -- two men (not counting captured ones) on one square
    else sh.canonize idx == idx

/-! ## `TBPosition::setPosition` on a general board -/

/-- A chess position as `setPosition` sees it: the men, each coded as `square * 16 + piece code (1..12)`, in
    increasing order — i.e. by square, the order in which `BitBoard::extractSquare` delivers the bits of a piece
    bitboard —, the side to move and the castling mask. -/
structure Board where
  men : List Nat
  wtm : Bool
  castle : Nat
deriving Repr

@[inline] def manCode (m : Nat) : Nat := m % 16
@[inline] def manSq (m : Nat) : Nat := m / 16
@[inline] def mkMan (code sq : Nat) : Nat := sq * 16 + code

/-- remove the first (= lowest-square) man with the given code: its square and the other men -/
def takeFirst (code : Nat) : List Nat → Option (Nat × List Nat)
  | [] => none
  | m :: l => if manCode m == code then some (manSq m, l)
              else match takeFirst code l with
                | some (s, l') => some (s, m :: l')
                | none => none

def isKingCode (code : Nat) : Bool := code == 1 || code == 7

def findSq (code : Nat) : List Nat → Nat
  | [] => 0
  | m :: l => if manCode m == code then manSq m else findSq code l

/-- the placement loop of `setPosition`: `(idx, remaining men)` after handling the slots `i, i+1, …` whose piece
    codes are listed -/
def Shape.place (sh : Shape) (bk : Nat) : Nat → List Nat → W → List Nat → W × List Nat
  | _, [], idx, men => (idx, men)
  | i, code :: codes, idx, men =>
    match takeFirst code men with
    | some (sq, rest) => sh.place bk (i+1) codes (if isKingCode code then idx else sh.setSquare idx i sq) rest
    | none => sh.place bk (i+1) codes (sh.setSquare idx i bk) men

/-- `TBPosition::setPosition` followed by `getIndex`: `none` = "not in this table" -/
def Shape.setPosition (sh : Shape) (b : Board) : Option Nat :=
  if b.castle != 0 then none
  else
    let bk := findSq 7 b.men
    let wk := findSq 1 b.men
    let idx := sh.setSquare 0 sh.nWhite bk
    let st := sh.place bk 0 sh.types idx b.men
    let idx := sh.setSquare st.1 0 wk
    let idx := if b.wtm != sh.whiteMove idx then sh.swapSide idx else idx
    if !st.2.isEmpty then none       -- could not place all men
    else
      let idx := sh.canonize idx
      if sh.indexValid idx then some idx.toNat else none

/-! ## Game positions as boards -/

def insertMan (m : Nat) : List Nat → List Nat
  | [] => [m]
  | a :: l => if m < a then m :: a :: l else a :: insertMan m l

def sortMen : List Nat → List Nat
  | [] => []
  | m :: l => insertMan m (sortMen l)

/-- the men on the board, in slot order -/
def presentMen : List Nat → List Nat → List Nat
  | code :: codes, s :: sqs => if s < 64 then mkMan code s :: presentMen codes sqs else presentMen codes sqs
  | _, _ => []

def toBoard (sh : Shape) (p : Pos) : Board :=
  { men := sortMen (presentMen sh.types p.sq), wtm := p.wtm, castle := 0 }

/-- the table index of a game position, as `setPosition` computes it -/
def indexOf (sh : Shape) (p : Pos) : Option Nat := sh.setPosition (toBoard sh p)

/-- the position an index denotes (`TBPosition::getPos`): a non-king man on the black king's square is captured -/
def posOfIndex (sh : Shape) (idx : W) : Pos :=
  let bk := sh.getSquare idx sh.nWhite
  { wtm := sh.whiteMove idx,
    sq := sh.slots0.map fun i => let s := sh.getSquare idx i; if i != sh.nWhite && s == bk then captured else s }

/-! ## `PositionValue` -/

def s8 (b : UInt8) : Int := if b.toNat < 128 then (b.toNat : Int) else (b.toNat : Int) - 256

/-- MATE_IN_n (n ≥ 1) = 64+n, MATED_IN_n = 63-n (n ≤ 62), DRAW = 0; everything else (MATE_IN_0 = "king can be
    taken", INVALID, UNINITIALIZED, UNKNOWN/REMAINING_n) is not a game value — `probeDTM` reports a miss for it -/
def decodeS (s : Int) : Option Cert.Val :=
  if s > 64 then some (.win (s - 64).toNat)
  else if 1 ≤ s ∧ s ≤ 63 then some (.loss (63 - s).toNat)
  else if s = 0 then some .draw
  else none

def decodeByte (b : UInt8) : Option Cert.Val := decodeS (s8 b)

def MATE0 : Int := 32000

/-- the score conversion of `TBGenerator::probeDTM` -/
def convertS (s : Int) (ply : Int) : Option Int :=
  if s > 64 then some (MATE0 - ply - (s - 64) * 2)
  else if 1 ≤ s ∧ s ≤ 63 then some (-(MATE0 - ply - (63 - s) * 2 - 1))
  else if s = 0 then some 0
  else none

def readByte (T : ByteArray) (i : Nat) : UInt8 := if i < T.size then T.get! i else 0xFE   -- UNINITIALIZED

/-- `TBGenerator::probeDTM` -/
def probeDTM (sh : Shape) (T : ByteArray) (b : Board) (ply : Int) : Option Int :=
  match sh.setPosition b with
  | none => none
  | some i => convertS (s8 (readByte T i)) ply

end TB
