import TexelVerif.TB.Index
/-! Lemmas about the model of `TBPosition::setPosition`: a board that has castling rights, or more men of some
    piece code than the table's class has slots for it, is reported as "not in this table". -/
namespace TB

/-- number of men with piece code `c` -/
def countCode (c : Nat) (men : List Nat) : Nat := men.countP fun m => manCode m == c

theorem takeFirst_count (code c : Nat) (men : List Nat) (s : Nat) (rest : List Nat)
    (h : takeFirst code men = some (s, rest)) :
    countCode c men ≤ countCode c rest + (if c = code then 1 else 0) := by
  induction men generalizing s rest with
  | nil => simp [takeFirst] at h
  | cons m l ih =>
    unfold takeFirst at h
    split at h
    · next hm =>
      injection h with h; injection h with h1 h2; subst h2
      simp only [countCode, List.countP_cons]
      have hm' : manCode m = code := by simpa using hm
      by_cases hc : c = code
      · subst hc; simp [hm']
      · have : (manCode m == c) = false := by simp [hm', Ne.symm hc]
        simp [this]
    · next hm =>
      split at h
      · next s' l' hl =>
        injection h with h; injection h with h1 h2; subst h1; subst h2
        have := ih s' l' hl
        simp only [countCode, List.countP_cons] at this ⊢
        omega
      · cases h

theorem place_count (sh : Shape) (bk : Nat) (c : Nat) (codes : List Nat) :
    ∀ (i : Nat) (idx : W) (men : List Nat),
      countCode c men ≤ countCode c (sh.place bk i codes idx men).2 + codes.count c := by
  induction codes with
  | nil => intro i idx men; simp [Shape.place]
  | cons code codes ih =>
    intro i idx men
    unfold Shape.place
    split
    · next sq rest hr =>
      have h1 := takeFirst_count code c men sq rest hr
      have h2 := ih (i+1) (if isKingCode code = true then idx else sh.setSquare idx i sq) rest
      simp only [List.count_cons]
      by_cases hc : c = code
      · subst hc; simp only [if_true, beq_self_eq_true] at h1 ⊢; omega
      · have : (code == c) = false := by simp [Ne.symm hc]
        simp only [hc, if_false, this] at h1 ⊢
        omega
    · next hr =>
      have h2 := ih (i+1) (sh.setSquare idx i bk) men
      simp only [List.count_cons]
      omega

/-- castling rights ⇒ not found -/
theorem setPosition_castle (sh : Shape) (b : Board) (h : b.castle ≠ 0) : sh.setPosition b = none := by
  unfold Shape.setPosition
  simp [h]

/-- more men of some piece code (1..12, pawns included) than the class has slots with that code ⇒ not found -/
theorem setPosition_material (sh : Shape) (b : Board) (c : Nat) (h : sh.types.count c < countCode c b.men) :
    sh.setPosition b = none := by
  unfold Shape.setPosition
  split
  · rfl
  · have hp := place_count sh (findSq 7 b.men) c sh.types 0 (sh.setSquare 0 sh.nWhite (findSq 7 b.men)) b.men
    have hpos : 0 < countCode c (sh.place (findSq 7 b.men) 0 sh.types (sh.setSquare 0 sh.nWhite (findSq 7 b.men)) b.men).2 := by omega
    have hne : (sh.place (findSq 7 b.men) 0 sh.types (sh.setSquare 0 sh.nWhite (findSq 7 b.men)) b.men).2.isEmpty = false := by
      cases hl : (sh.place (findSq 7 b.men) 0 sh.types (sh.setSquare 0 sh.nWhite (findSq 7 b.men)) b.men).2 with
      | nil => rw [hl] at hpos; simp [countCode] at hpos
      | cons a l => rfl
    simp only [hne, Bool.not_false, if_true]

end TB
