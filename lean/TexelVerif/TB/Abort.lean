/-!
# State machine of `TranspositionTable::updateTB` / `probeDTM` / `clear` / hash stores (property C12, abort clause)

What matters about the on-demand table inside the transposition table:
* `gen`      — `tbGen`: the material (8 counts) the resident generator was built for, if any; `probeDTM` consults the
               table iff `tbGen` is set;
* `complete` — the bytes of the table region are a completely generated table for that material;
* `reduced`  — `usedSize` excludes the table region, so ordinary hash stores cannot touch it;
* `notUsed`  — `notUsedCnt`.
`stepFixed` is the code after the `fix:` commit, `stepOrig` the code before it (it differs only on the abort path).
Executable; imported by the compiled driver.
-/
namespace TB.Abort

abbrev Mat := List Nat   -- nwq nwr nwb nwn nbq nbr nbb nbn

structure St where
  gen : Option Mat := none
  complete : Bool := false
  reduced : Bool := false
  notUsed : Nat := 0
deriving Repr, DecidableEq

/-- outcome of `generate` if `updateTB` gets as far as calling it -/
inductive Outcome where
  | finish      -- ran to completion
  | abort       -- returned false (time limit in phase 1/2, or `maxTimeMillis == 0` seen in phase 3)
  | noTime      -- `updateTB` returned before generating: not enough time (or hash table too small)
deriving Repr, DecidableEq

inductive Ev where
  | update (m : Mat) (o : Outcome) (garbageHit : Bool)  -- root position of material `m`, ≤ 4 men, no pawns
  | unsuitable                                          -- root position with > 4 men or pawns
  | store                                               -- an ordinary hash insert
  | clear
deriving Repr, DecidableEq

/-- a table for material `t` also contains the positions of material `m` (captures lead into sub-classes) -/
def covers (t m : Mat) : Bool := t.length == m.length && (t.zip m).all fun (a, b) => b ≤ a

/-- `updateTB`'s first test: `tbGen && tbGen->probeDTM(pos, 0, score)`.  A complete table answers for every legal
    position it covers; a half-built or overwritten one answers or not (`garbageHit`). -/
def earlyHit (st : St) (m : Mat) (garbageHit : Bool) : Bool :=
  match st.gen with
  | some t => covers t m && (st.complete || garbageHit)
  | none => false

def stepCommon (fixed : Bool) (st : St) : Ev → St × Bool
  | .update m o g =>
    if earlyHit st m g then ({ st with notUsed := 0 }, true)
    else match o with
      | .noTime => (st, false)
      | .finish => ({ gen := some m, complete := true, reduced := true, notUsed := 0 }, true)
      | .abort =>
        -- `generate` has started to overwrite the region in either version
        if fixed then ({ gen := none, complete := false, reduced := false, notUsed := st.notUsed }, false)
        else ({ gen := some m, complete := false, reduced := st.reduced, notUsed := st.notUsed }, false)
  | .unsuitable =>
    match st.gen with
    | some _ =>
      if st.notUsed > 3 then ({ gen := none, complete := false, reduced := false, notUsed := 0 }, false)
      else ({ st with notUsed := st.notUsed + 1 }, true)
    | none => (st, false)
  | .store => ({ st with complete := st.complete && st.reduced }, true)
  | .clear => ({ gen := none, complete := false, reduced := false, notUsed := 0 }, true)

def stepFixed := stepCommon true
def stepOrig := stepCommon false

def run (step : St → Ev → St × Bool) (st : St) (evs : List Ev) : St := evs.foldl (fun s e => (step s e).1) st

/-- `probeDTM` consults the table -/
def probeAnswers (st : St) : Bool := st.gen.isSome

/-- the safety invariant: a table that is consulted is complete and protected from hash stores -/
def Safe (st : St) : Prop := st.gen.isSome = true → st.complete = true ∧ st.reduced = true

theorem stepFixed_safe (st : St) (e : Ev) (h : Safe st) : Safe (stepFixed st e).1 := by
  unfold Safe at *
  cases e with
  | update m o g =>
    simp only [stepFixed, stepCommon]
    split
    · exact h
    · cases o <;> simp_all
  | unsuitable =>
    simp only [stepFixed, stepCommon]
    split
    · split
      · simp
      · exact h
    · exact h
  | store =>
    simp only [stepFixed, stepCommon]
    intro hg
    obtain ⟨h1, h2⟩ := h hg
    simp [h1, h2]
  | clear => simp [stepFixed, stepCommon]

theorem run_safe (evs : List Ev) (st : St) (h : Safe st) : Safe (run stepFixed st evs) := by
  induction evs generalizing st with
  | nil => exact h
  | cons e evs ih => exact ih _ (stepFixed_safe st e h)

/-! ### line protocol: `tb abortmodel fixed|orig ev…` -/

def parseMat (s : String) : Option Mat :=
  let ds := s.toList.map fun c => c.toNat - '0'.toNat
  if ds.length == 8 && s.toList.all Char.isDigit then some ds else none

def parseEv (s : String) : Option Ev :=
  match s.splitOn ":" with
  | ["u", m, "f"] => (parseMat m).map fun m => .update m .finish false
  | ["u", m, "t"] => (parseMat m).map fun m => .update m .noTime false
  | "u" :: m :: "a" :: _ => (parseMat m).map fun m => .update m .abort false
  | ["x"] => some .unsuitable
  | ["s", _] => some .store
  | ["c"] => some .clear
  | _ => none

def b01 (b : Bool) : String := if b then "1" else "0"

def runLine (fixed : Bool) (evs : List String) : String :=
  match evs.mapM parseEv with
  | none => "bad-op"
  | some evs =>
    let (_, outs) := evs.foldl (fun (acc : St × List String) e =>
      let (st', r) := stepCommon fixed acc.1 e
      -- reply of a store/clear is not observable; `ok` column: the model's resident table is always complete here
      (st', acc.2 ++ [s!"{b01 r},{b01 st'.gen.isSome},{b01 st'.reduced},{b01 (!st'.gen.isSome || st'.complete)}"])) ({}, [])
    " ".intercalate outs

end TB.Abort
