import TexelVerif.TB.Game
/-! Consistency lemmas of the game model (property C12): the tabulated lines are the geometric ones, and
    "attacks" is the same relation as "can move there by the movement rules". -/
namespace TB

theorem kindOfIdx_kindIdx (k : Kind) : kindOfIdx (kindIdx k) = k := by cases k <;> rfl

theorem lines_eq (k : Kind) (s : Nat) (h : s < 64) : lines k s = linesSpec k s := by
  have hk : kindIdx k < 5 := by cases k <;> decide
  have hi : kindIdx k * 64 + s < 320 := by omega
  have h1 : (kindIdx k * 64 + s) / 64 = kindIdx k := by omega
  have h2 : (kindIdx k * 64 + s) % 64 = s := by omega
  unfold lines linesTab
  rw [Array.getD_eq_getD_getElem?, Array.getElem?_ofFn]
  simp only [hi, dite_true, Option.getD_some, h1, h2, kindOfIdx_kindIdx]

theorem cut_contains (occ : SqSet) (t : Nat) (l : List Nat) : (cut occ l).contains t = hits occ t l := by
  induction l with
  | nil => rfl
  | cons q l ih =>
    unfold cut hits
    have hc : (t == q) = (q == t) := BEq.comm
    cases h : occ.has q
    · rw [if_neg (by simp), List.contains_cons, ih, hc]; simp
    · rw [if_pos rfl, List.contains_cons, hc]; simp

theorem flatMap_contains (t : Nat) (f : List Nat → List Nat) (ls : List (List Nat)) :
    (ls.flatMap f).contains t = ls.any fun l => (f l).contains t := by
  induction ls with
  | nil => rfl
  | cons l ls ih => simp only [List.flatMap_cons, List.any_cons, ← ih]; simp [List.contains_eq_mem, List.mem_append]

/-- a man attacks exactly the squares it could move to by the movement rules -/
theorem reach_contains (k : Kind) (occ : SqSet) (s t : Nat) : (reach k occ s).contains t = attacks k occ s t := by
  simp only [reach, attacks, flatMap_contains, cut_contains]

end TB
