/-!
# Executable model of `TBGenerator::generate` (tbgen.cpp:481-612) over an abstract index graph (property C12)

`generate` sees a material class only through `TBPosition`: the number of indices, `indexValid`, `canTakeKing`,
`getMoves`, `getUnMoves` (both deliver *sorted* lists of indices; the generator skips adjacent duplicates) and
`swapSide`.  `IG` packages exactly that interface; `generate` below is the C++ function over it, pass by pass:

* phase 1 (tbgen.cpp:496-516)  every index becomes INVALID, MATE_IN_0 ("the side to move can take the king") or UNKNOWN;
* phase 2 (518-553)  every UNKNOWN index becomes REMAINING_k (k = number of distinct successors that are not
  MATE_IN_0), or MATED_IN_0 / DRAW when k = 0 according to whether the index with the other side to move is MATE_IN_0;
  the 64-index block of every MATED_IN_0 entry is flagged in `newMated`;
* phase 3 (557-601)  for n = 1, 2, …: `oldMated.swap(newMated)`, clear `newMated`; scan all indices, skipping a
  64-index block whose flag is clear (`idx += 63; continue;`); for every MATED_IN_(n-1) entry, every distinct
  predecessor that is not yet computed becomes MATE_IN_n, and every distinct predecessor of *that* which is
  REMAINING_k is decremented — reaching REMAINING_0 it becomes MATED_IN_n and its block is flagged; stop after a scan
  that modified nothing;
* phase 4 (608-612)  every REMAINING_k entry becomes DRAW.

Cells hold the numeric value of `PositionValue::State` as an `Int` (MATE_IN_n = 64+n, MATED_IN_n = 63-n, DRAW = 0,
INVALID = -1, UNINITIALIZED = -2, UNKNOWN = REMAINING_0 = -3, REMAINING_k = -3-k); the C++ keeps them in an `S8`, which
is the same thing as long as every value stays in -128..127 (`TB/RetroProof.lean`: it does when the run needs at
most 63 scans and no index has more than 124 successors).  Abort polling (`maxTimeMillis`) is not part of this
model (see `TB/Abort.lean`).  Core Lean only; imported by the compiled driver.
-/
namespace TB.Retro

/-- what `TBGenerator::generate` uses of `TBPosition` -/
structure IG where
  nPos : Nat                  -- `nPositions()`
  valid : Nat → Bool          -- `setIndex(i); indexValid()`
  takeK : Nat → Bool          -- `setIndex(i); canTakeKing()`
  moves : Nat → List Nat      -- `setIndex(i); getMoves(lst)`   (sorted)
  unmoves : Nat → List Nat    -- `setIndex(i); getUnMoves(lst)` (sorted)
  swap : Nat → Nat            -- `setIndex(i); swapSide(); getIndex()`

abbrev Tab := Array Int
abbrev Flags := Array Bool

/-- `table[idx]`; an index outside the table (undefined behaviour in the C++, excluded by the hypotheses of the
    theorems) reads as INVALID -/
@[inline] def rd (T : Tab) (i : Nat) : Int := T.getD i (-1)
@[inline] def flag (F : Flags) (b : Nat) : Bool := F.getD b false

/-- the C++ idiom `if (m > 0 && lst[m] == lst[m-1]) continue;` on a sorted list: drop adjacent duplicates -/
def dedupAdj : List Nat → List Nat
  | [] => []
  | [a] => [a]
  | a :: b :: l => if a = b then dedupAdj (b :: l) else a :: dedupAdj (b :: l)

/-! ## phase 1 -/

def classify (G : IG) (idx : Nat) : Int :=
  if !G.valid idx then -1 else if G.takeK idx then 64 else -3

def phase1 (G : IG) : Tab :=
  (List.range G.nPos).foldl (fun T idx => T.setIfInBounds idx (classify G idx)) (Array.replicate G.nPos (-2))

/-! ## phase 2 -/

/-- number of distinct successors that are not MATE_IN_0 -/
def nLegal (G : IG) (T : Tab) (idx : Nat) : Nat :=
  ((dedupAdj (G.moves idx)).filter fun j => rd T j != 64).length

def step2 (G : IG) (st : Tab × Flags) (idx : Nat) : Tab × Flags :=
  if rd st.1 idx != -3 then st
  else
    let k := nLegal G st.1 idx
    if k > 0 then (st.1.setIfInBounds idx (-3 - (k : Int)), st.2)
    else if rd st.1 (G.swap idx) == 64 then (st.1.setIfInBounds idx 63, st.2.setIfInBounds (idx / 64) true)
    else (st.1.setIfInBounds idx 0, st.2)

def phase2 (G : IG) (T : Tab) : Tab × Flags :=
  (List.range G.nPos).foldl (step2 G) (T, Array.replicate (G.nPos / 64) false)

/-! ## phase 3 -/

/-- state of one scan: table, `newMated`, `modified` -/
structure PSt where
  tab : Tab
  new : Flags
  modified : Nat

/-- the innermost loop: one predecessor `idx3` of a position that has just become MATE_IN_n -/
def decStep (n : Nat) (st : Tab × Flags) (idx3 : Nat) : Tab × Flags :=
  let pv := rd st.1 idx3
  if pv < -3 then                                   -- isRemainingN
    if pv + 1 = -3 then                             -- decRemaining() reached REMAINING_0
      (st.1.setIfInBounds idx3 (63 - (n : Int)), st.2.setIfInBounds (idx3 / 64) true)
    else (st.1.setIfInBounds idx3 (pv + 1), st.2)
  else st

/-- `idx2` becomes MATE_IN_n; its distinct predecessors lose one remaining move -/
def labelWin (G : IG) (n : Nat) (T : Tab) (F : Flags) (idx2 : Nat) : Tab × Flags :=
  (dedupAdj (G.unmoves idx2)).foldl (decStep n) (T.setIfInBounds idx2 (64 + (n : Int)), F)

/-- the middle loop: one predecessor `idx2` of a MATED_IN_(n-1) position -/
def midStep (G : IG) (n : Nat) (st : PSt) (idx2 : Nat) : PSt :=
  if rd st.tab idx2 < -1 then                       -- !isComputed
    let r := labelWin G n st.tab st.new idx2
    { tab := r.1, new := r.2, modified := st.modified + 1 }
  else st

/-- the body of the scan at `idx` -/
def visit (G : IG) (n : Nat) (st : PSt) (idx : Nat) : PSt :=
  if rd st.tab idx = 64 - (n : Int) then            -- isMatedInN(n-1)
    (dedupAdj (G.unmoves idx)).foldl (midStep G n) st
  else st

/-- the scan `for (idx = 0; idx < nPos; idx++)` with its block skip, control flow as in the C++:
    at the first index of a block whose `oldMated` flag is clear, `idx += 63; continue;` -/
def scan (G : IG) (n : Nat) (old : Flags) (idx : Nat) (st : PSt) : PSt :=
  if h : idx < G.nPos then
    if idx % 64 = 0 ∧ flag old (idx / 64) = false then scan G n old (idx + 63 + 1) st
    else scan G n old (idx + 1) (visit G n st idx)
  else st
termination_by G.nPos - idx
decreasing_by all_goals omega

/-- one iteration of `for (int n = 1; ; n++)`: swap the flag arrays, clear `newMated`, scan -/
def pass (G : IG) (n : Nat) (T : Tab) (newMated : Flags) : PSt :=
  scan G n newMated 0 { tab := T, new := Array.replicate (G.nPos / 64) false, modified := 0 }

structure Run where
  tab : Tab
  passes : Nat        -- number of scans made, the last (modifying nothing) included
  finished : Bool     -- the loop was left through `if (modified == 0) break;` (always, see `generate_finished`)

/-- phase 4: remaining positions are draws -/
def finalize (T : Tab) : Tab := T.map fun s => if s < -3 then 0 else s

/-- `for (int n = 1; ; n++) { … if (modified == 0) break; }`; `fuel` only makes the definition structurally
    recursive — `nPos + 1` is never exhausted (`generate_finished`) -/
def loop (G : IG) : Nat → Nat → Tab → Flags → Run
  | 0, n, T, _ => { tab := T, passes := n - 1, finished := false }
  | fuel + 1, n, T, F =>
    let st := pass G n T F
    if st.modified = 0 then { tab := finalize st.tab, passes := n, finished := true }
    else loop G fuel (n + 1) st.tab st.new

/-- `TBGenerator::generate` -/
def generate (G : IG) : Run :=
  let st2 := phase2 G (phase1 G)
  loop G (G.nPos + 1) 1 st2.1 st2.2

/-- `table.store` keeps the state in one byte -/
def toByte (s : Int) : UInt8 := UInt8.ofNat (s % 256).toNat

def bytes (T : Tab) : ByteArray := ByteArray.mk (T.map toByte)

end TB.Retro
