import TexelVerif.TB.Check
/-!
Model of the on-demand tablebase probe inside the search (`TBProbe::tbProbe`, tbprobe.cpp:85-140, the `nPieces <= 4`
branch) and of what the engine may therefore announce at the root of a ≤ 4-man pawnless position (property C13).
-/
namespace TB13

/-- plies until the mate is on the board, for a DTM score `d` seen at search ply `ply` (`MATE0 − 1 − |d| − ply`) -/
def pliesToMate (d ply : Int) : Int := 32000 - 1 - (d.natAbs : Int) - ply

/-- `rule50Margin` (tbprobe.cpp) -/
def margin (d ply hmc : Int) : Int := (100 - hmc) - pliesToMate d ply

inductive Bound where | exact | lower | upper
deriving DecidableEq, Repr

/-- result of the on-demand probe on a table hit with DTM score `d`: (score, bound type, frustration distance stored in
    evalScore — 0 when the result is exact) -/
def onDemand (d ply hmc : Int) : Int × Bound × Int :=
  if d = 0 ∨ margin d ply hmc ≥ 0 then (d, .exact, 0)
  else (0, (if d > 0 then .lower else .upper), (if d > 0 then -(margin d ply hmc) else margin d ply hmc))

/-- what the root of a position with exact value `v` and half-move clock `hmc` may announce:
    `some n` = "mate n" (negative for being mated), `none` = no mate score -/
def expectedMate (v : Cert.Val) (hmc : Int) : Option Int :=
  match v with
  | .win n => if 2 * (n : Int) - 1 ≤ 100 - hmc then some n else none
  | .loss n => if 2 * (n : Int) ≤ 100 - hmc then some (-(n : Int)) else none
  | .draw => none

end TB13
