import TexelVerif.TB.Certificate
/-!
# Pawnless chess positions of a material class as a finite game (property C12)

A *class* lists the men of both sides besides the kings.  A position assigns a square to every man
("slot") of the class, or marks it captured, and says who is to move; so the positions of a class
comprise those of all its sub-classes, exactly like Texel's on-demand tables.  Moves are the chess
moves of K, Q, R, B, N (no pawns, hence no en passant / promotion; no castling rights: Texel's
`TBPosition::setPosition` refuses positions with castling rights).

Squares are numbered as in Texel: a1 = 0, b1 = 1, …, h1 = 7, a2 = 8, …, h8 = 63; 64 = captured.
Executable; imported by the compiled driver (no proofs with Mathlib here).
-/
namespace TB

inductive Kind where
  | K | Q | R | B | N
deriving DecidableEq, Repr

/-- The men besides the two kings, in the slot order of `TBPosition` (knights, bishops, rooks, queens). -/
structure Cls where
  white : List Kind
  black : List Kind
deriving Repr

/-- slot ↦ (is white, kind); slot 0 is the white king, slot `nWhite` the black king -/
def Cls.slots (c : Cls) : List (Bool × Kind) :=
  (true, .K) :: c.white.map (fun k => (true, k)) ++ (false, .K) :: c.black.map (fun k => (false, k))

/-- A class with its derived data computed once ("compiled"): what the executable functions take.
    `Cls.cc` below is the only constructor used. -/
structure CC where
  n : Nat                      -- number of men including the kings
  nWhite : Nat                 -- number of white men = slot of the black king
  slots : List (Bool × Kind)
deriving Repr

def Cls.cc (c : Cls) : CC :=
  { n := c.white.length + c.black.length + 2, nWhite := c.white.length + 1, slots := c.slots }

structure Pos where
  wtm : Bool
  sq : List Nat      -- slot ↦ square 0..63, or 64 = captured
deriving DecidableEq, Repr

def captured : Nat := 64

/-! ## Board geometry -/

@[inline] def sx (s : Nat) : Int := (s % 8 : Nat)
@[inline] def sy (s : Nat) : Int := (s / 8 : Nat)
@[inline] def onBoard (x y : Int) : Bool := 0 ≤ x && x < 8 && 0 ≤ y && y < 8
@[inline] def sqOf (x y : Int) : Nat := (y * 8 + x).toNat

def kingDeltas : List (Int × Int) := [(1,0),(-1,0),(0,1),(0,-1),(1,1),(1,-1),(-1,1),(-1,-1)]
def knightDeltas : List (Int × Int) := [(1,2),(2,1),(2,-1),(1,-2),(-1,-2),(-2,-1),(-2,1),(-1,2)]
def rookDirs : List (Int × Int) := [(1,0),(-1,0),(0,1),(0,-1)]
def bishopDirs : List (Int × Int) := [(1,1),(1,-1),(-1,1),(-1,-1)]

/-- one step from `s` by each delta, as far as it stays on the board -/
def leap (deltas : List (Int × Int)) (s : Nat) : List Nat :=
  deltas.filterMap fun d => if onBoard (sx s + d.1) (sy s + d.2) then some (sqOf (sx s + d.1) (sy s + d.2)) else none

/-- the squares met walking from `(x, y)` in direction `(dx, dy)` on an empty board, nearest first -/
def walk (dx dy : Int) : Nat → Int → Int → List Nat
  | 0, _, _ => []
  | fuel+1, x, y =>
    if onBoard (x + dx) (y + dy) then sqOf (x + dx) (y + dy) :: walk dx dy fuel (x + dx) (y + dy) else []

/-- the lines along which a man of kind `k` on `s` acts: one line per direction for Q, R, B (squares in walking
    order), one single-square line per jump for K and N -/
def linesSpec (k : Kind) (s : Nat) : List (List Nat) :=
  match k with
  | .K => (leap kingDeltas s).map fun t => [t]
  | .N => (leap knightDeltas s).map fun t => [t]
  | .R => rookDirs.map fun d => walk d.1 d.2 7 (sx s) (sy s)
  | .B => bishopDirs.map fun d => walk d.1 d.2 7 (sx s) (sy s)
  | .Q => (rookDirs ++ bishopDirs).map fun d => walk d.1 d.2 7 (sx s) (sy s)

def kindIdx : Kind → Nat
  | .K => 0 | .Q => 1 | .R => 2 | .B => 3 | .N => 4
def kindOfIdx : Nat → Kind
  | 0 => .K | 1 => .Q | 2 => .R | 3 => .B | _ => .N

/-- `linesSpec` tabulated once (entry `kindIdx k * 64 + s`); see `lines_eq` in GameLemmas -/
def linesTab : Array (List (List Nat)) := Array.ofFn (n := 320) fun i => linesSpec (kindOfIdx (i.val / 64)) (i.val % 64)

@[inline] def lines (k : Kind) (s : Nat) : List (List Nat) := linesTab.getD (kindIdx k * 64 + s) []

/-- a set of squares as a 64-bit mask (bit `s` = square `s`), like Texel's bitboards -/
abbrev SqSet := UInt64
@[inline] def SqSet.has (m : SqSet) (s : Nat) : Bool := (m >>> s.toUInt64) &&& 1 != 0
/-- the set of the squares `< 64` in the list -/
def sqSetOf : List Nat → SqSet
  | [] => 0
  | s :: l => if s < 64 then sqSetOf l ||| ((1 : UInt64) <<< s.toUInt64) else sqSetOf l

/-- a line up to and including the first occupied square -/
def cut (occ : SqSet) : List Nat → List Nat
  | [] => []
  | q :: l => if occ.has q then [q] else q :: cut occ l

/-- `t` lies on the line with no occupied square before it -/
def hits (occ : SqSet) (t : Nat) : List Nat → Bool
  | [] => false
  | q :: l => q == t || (!occ.has q && hits occ t l)

/-- the squares a man of kind `k` standing on `s` can move to by the movement rules, given the occupied squares
    (squares holding men of its own side are removed later) -/
def reach (k : Kind) (occ : SqSet) (s : Nat) : List Nat := (lines k s).flatMap (cut occ)

/-- a man of kind `k` standing on `s` attacks `t` (`reach_contains` in GameLemmas: iff `t ∈ reach k occ s`) -/
def attacks (k : Kind) (occ : SqSet) (s t : Nat) : Bool := (lines k s).any (hits occ t)

/-! ## Positions -/

/-- the occupied squares -/
def Pos.occ (p : Pos) : SqSet := sqSetOf p.sq

def distinct : List Nat → Bool
  | [] => true
  | a :: l => !l.contains a && distinct l

/-- no two men on the board share a square (64 = captured may repeat) -/
def distinctPresent : List Nat → Bool
  | [] => true
  | a :: l => (a ≥ 64 || !l.contains a) && distinctPresent l

/-- every slot has a square or is captured, both kings are on the board, no two men share a square -/
def wellFormed (c : CC) (p : Pos) : Bool :=
  p.sq.length == c.n && p.sq.all (· ≤ 64) &&
  p.sq.getD 0 captured < 64 && p.sq.getD c.nWhite captured < 64 && distinctPresent p.sq

def kingSq (c : CC) (p : Pos) (white : Bool) : Nat := p.sq.getD (if white then 0 else c.nWhite) captured

/-- is `t` attacked by one of the men `slots ↦ sqs` of colour `white` (`occ` = all occupied squares) -/
def attackedBy (occ : SqSet) (white : Bool) (t : Nat) : List (Bool × Kind) → List Nat → Bool
  | sl :: slots, s :: sqs =>
    (sl.1 == white && s < 64 && attacks sl.2 occ s t) || attackedBy occ white t slots sqs
  | _, _ => false

/-- is square `t` attacked by a man of colour `white` -/
def attacked (c : CC) (p : Pos) (white : Bool) (t : Nat) : Bool := attackedBy p.occ white t c.slots p.sq

/-- the side to move could capture the opposing king: such a position cannot arise in a game -/
def canTakeKing (c : CC) (p : Pos) : Bool := attacked c p p.wtm (kingSq c p (!p.wtm))

def legal (c : CC) (p : Pos) : Bool := wellFormed c p && !canTakeKing c p

/-- the side to move is in check -/
def inCheck (c : CC) (p : Pos) : Bool := attacked c p (!p.wtm) (kingSq c p p.wtm)

/-- the squares after a man of colour `mover` has arrived on `t`: an enemy man standing there is captured -/
def captureOn (mover : Bool) (t : Nat) : List (Bool × Kind) → List Nat → List Nat
  | sl :: slots, s :: sqs => (if sl.1 != mover && s == t then captured else s) :: captureOn mover t slots sqs
  | _, _ => []

/-- man in slot `i` goes to `t`; an enemy man standing there is captured; the turn passes -/
def makeMove (c : CC) (p : Pos) (i t : Nat) : Pos :=
  { wtm := !p.wtm, sq := (captureOn p.wtm t c.slots p.sq).set i t }

/-- the squares occupied by men of colour `white` -/
def ownSquares (white : Bool) : List (Bool × Kind) → List Nat → List Nat
  | sl :: slots, s :: sqs => if sl.1 == white && s < 64 then s :: ownSquares white slots sqs else ownSquares white slots sqs
  | _, _ => []

/-- moves of the men in slots `i, i+1, …` -/
def movesFrom (c : CC) (p : Pos) (occ own : SqSet) (ek : Nat) : Nat → List (Bool × Kind) → List Nat → List Pos
  | i, sl :: slots, s :: sqs =>
    (if sl.1 == p.wtm && s < 64 then
      ((reach sl.2 occ s).filter fun t => !own.has t && t != ek).map fun t => makeMove c p i t
     else []) ++ movesFrom c p occ own ek (i+1) slots sqs
  | _, _, _ => []

/-- all moves by the movement rules alone: a man of the side to move goes to a square it reaches that is not
    occupied by a man of its own side and is not the opposing king's square -/
def pseudoMoves (c : CC) (p : Pos) : List Pos :=
  movesFrom c p p.occ (sqSetOf (ownSquares p.wtm c.slots p.sq)) (kingSq c p (!p.wtm)) 0 c.slots p.sq

/-- the legal moves: those after which the mover's king cannot be taken -/
def moves (c : CC) (p : Pos) : List Pos := (pseudoMoves c p).filter (legal c)

def game (c : CC) : Cert.Game Pos := { moves := moves c, inCheck := inCheck c }

theorem moves_legal (c : CC) (p q : Pos) (h : q ∈ (game c).moves p) : legal c q = true := by
  simp only [game, moves, List.mem_filter] at h
  exact h.2

end TB
