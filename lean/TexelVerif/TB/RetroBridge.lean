import TexelVerif.TB.RetroProof
import TexelVerif.TB.RetroChess
/-!
# From the retrograde model to the certificate checker (property C12)

Soundness of the executable instance checks of `TB/RetroChess.lean` (`okCheck…`: the obligations `Retro.OK`;
`homCheck`: legal positions ↔ legal indices), and the bridge: if both hold for a class and the run needs at most 63
scans, the bytes of the table the model generates are accepted by every unit of the certificate checker
`TB.checkUnit` (hence, by `units_sound`, are the exact distance to mate of every legal position).
-/
namespace TB.Retro
open TB Cert

/-! ## `TbMoveList::sort` sorts -/

theorem mem_insertNat (a x : Nat) : ∀ l, x ∈ insertNat a l ↔ x = a ∨ x ∈ l
  | [] => by simp [insertNat]
  | b :: l => by
    unfold insertNat
    by_cases h : a ≤ b
    · simp [h]
    · simp only [h, if_false, List.mem_cons, mem_insertNat a x l]
      constructor
      · rintro (h | h | h)
        · exact Or.inr (Or.inl h)
        · exact Or.inl h
        · exact Or.inr (Or.inr h)
      · rintro (h | h | h)
        · exact Or.inr (Or.inl h)
        · exact Or.inl h
        · exact Or.inr (Or.inr h)

theorem insertNat_sorted (a : Nat) : ∀ l : List Nat, l.Pairwise (· ≤ ·) → (insertNat a l).Pairwise (· ≤ ·)
  | [], _ => by simp [insertNat]
  | b :: l, h => by
    unfold insertNat
    have ⟨h1, h2⟩ := List.pairwise_cons.1 h
    by_cases hab : a ≤ b
    · simp only [hab, if_true]
      refine List.pairwise_cons.2 ⟨fun x hx => ?_, h⟩
      rcases List.mem_cons.1 hx with e | hx'
      · omega
      · have := h1 x hx'; omega
    · simp only [hab, if_false]
      refine List.pairwise_cons.2 ⟨fun x hx => ?_, insertNat_sorted a l h2⟩
      rcases (mem_insertNat a x l).1 hx with e | hx'
      · omega
      · exact h1 x hx'

theorem sortNat_sorted : ∀ l : List Nat, (sortNat l).Pairwise (· ≤ ·)
  | [] => by simp [sortNat]
  | a :: l => by
    have := sortNat_sorted l
    unfold sortNat at this ⊢
    simp only [List.foldr_cons]
    exact insertNat_sorted a _ this

/-! ## the instance obligations from the executable check -/

theorem legalB_iff (G : IG) (i : Nat) : legalB G i = true ↔ legalI G i := by
  simp only [legalB, legalI, Bool.and_eq_true, decide_eq_true_eq, Bool.not_eq_true', and_assoc]

theorem okCheckWith_sound (G : IG) (mv un : Nat → List Nat)
    (hmv : ∀ i, legalI G i → mv i = G.moves i) (hun : ∀ i, legalI G i → un i = G.unmoves i)
    (hs1 : ∀ i, (G.moves i).Pairwise (· ≤ ·)) (hs2 : ∀ i, (G.unmoves i).Pairwise (· ≤ ·))
    (h : okCheckWith G mv un = true) : OK G := by
  simp only [okCheckWith, okAt, Bool.and_eq_true, beq_iff_eq, List.all_eq_true, List.mem_range, Bool.or_eq_true,
    Bool.not_eq_true', decide_eq_true_eq, List.contains_iff_mem] at h
  obtain ⟨h64, hall⟩ := h
  have hleg : ∀ i, legalI G i → (∀ j ∈ G.moves i, (j < G.nPos ∧ G.valid j = true) ∧ (legalB G j = false ∨ i ∈ un j)) ∧
      (∀ j ∈ G.unmoves i, j < G.nPos ∧ (legalB G j = false ∨ i ∈ mv j)) ∧ G.swap i < G.nPos := by
    intro i hi
    rcases hall i hi.1 with hf | ⟨⟨a, b⟩, c⟩
    · have := (legalB_iff G i).2 hi; rw [this] at hf; cases hf
    · rw [hmv i hi] at a; rw [hun i hi] at b
      exact ⟨a, b, c⟩
  refine ⟨h64, ?_, ?_, fun i _ => hs1 i, ?_, fun i _ => hs2 i, ?_, ?_⟩
  · intro i j hi hj; exact ((hleg i hi).1 j hj).1.1
  · intro i j hi hj; exact ((hleg i hi).1 j hj).1.2
  · intro i j hi hj; exact ((hleg i hi).2.1 j hj).1
  · intro i j hi hj
    constructor
    · intro hij
      rcases ((hleg j hj).2.1 i hij).2 with hf | hm
      · have := (legalB_iff G i).2 hi; rw [this] at hf; cases hf
      · rw [hmv i hi] at hm; exact hm
    · intro hji
      rcases ((hleg i hi).1 j hji).2 with hf | hm
      · have := (legalB_iff G j).2 hj; rw [this] at hf; cases hf
      · rw [hun j hj] at hm; exact hm
  · intro i hi; exact (hleg i hi).2.2

theorem getD_map_range (n : Nat) (f : Nat → List Nat) (i : Nat) (hi : i < n) :
    ((Array.range n).map f).getD i [] = f i := by
  simp [Array.getD_eq_getD_getElem?, hi]

theorem okCheckCached_sound (G : IG) (hs1 : ∀ i, (G.moves i).Pairwise (· ≤ ·)) (hs2 : ∀ i, (G.unmoves i).Pairwise (· ≤ ·))
    (h : okCheckCached G = true) : OK G := by
  unfold okCheckCached at h
  refine okCheckWith_sound G _ _ ?_ ?_ hs1 hs2 h
  · intro i hi
    rw [getD_map_range _ _ i hi.1, (legalB_iff G i).2 hi]; rfl
  · intro i hi
    rw [getD_map_range _ _ i hi.1, (legalB_iff G i).2 hi]; rfl

theorem okCheckDirect_sound (G : IG) (hs1 : ∀ i, (G.moves i).Pairwise (· ≤ ·)) (hs2 : ∀ i, (G.unmoves i).Pairwise (· ≤ ·))
    (h : okCheckDirect G = true) : OK G :=
  okCheckWith_sound G _ _ (fun _ _ => rfl) (fun _ _ => rfl) hs1 hs2 h

theorem igOf_sorted (c : CC) : (∀ i, ((igOf c).moves i).Pairwise (· ≤ ·)) ∧ (∀ i, ((igOf c).unmoves i).Pairwise (· ≤ ·)) :=
  ⟨fun _ => sortNat_sorted _, fun _ => sortNat_sorted _⟩

/-! ## legal positions ↔ legal indices from the executable check -/

theorem subList_spec (l1 l2 : List (Option Nat)) (h : subList l1 l2 = true) : ∀ x ∈ l1, x ∈ l2 := by
  simp only [subList, List.all_eq_true, List.contains_iff_mem] at h
  exact h

/-- what `homAt` establishes -/
theorem homAt_spec (c : CC) (sh : Shape) (G : IG) (p : Pos) (h : homAt c sh G p = true) :
    ∃ i, indexOf sh p = some i ∧ legalI G i ∧ inCheck c p = inCheckI G i ∧
      (∀ q ∈ moves c p, ∃ j ∈ lm G i, indexOf sh q = some j) ∧
      (∀ j ∈ lm G i, ∃ q ∈ moves c p, indexOf sh q = some j) := by
  unfold homAt at h
  split at h
  · cases h
  · next i hi =>
    simp only [Bool.and_eq_true, beq_iff_eq] at h
    obtain ⟨⟨hl, hc⟩, ha, hb⟩ := h
    refine ⟨i, hi, (legalB_iff G i).1 hl, hc, ?_, ?_⟩
    · intro q hq
      have := subList_spec _ _ ha (indexOf sh q) (List.mem_map.2 ⟨q, hq, rfl⟩)
      obtain ⟨j, hj, e⟩ := List.mem_map.1 this
      exact ⟨j, hj, e.symm⟩
    · intro j hj
      have := subList_spec _ _ hb (some j) (List.mem_map.2 ⟨j, hj, rfl⟩)
      obtain ⟨q, hq, e⟩ := List.mem_map.1 this
      exact ⟨q, hq, e⟩

theorem homCheck_spec (c : CC) (hn2 : 2 ≤ c.n) (h : homCheck c = true) :
    ∀ p, legal c p = true → homAt c c.shape (igOf c) p = true := by
  simp only [homCheck, List.all_eq_true, List.mem_range] at h
  intro p hp
  obtain ⟨hlen, hle⟩ := legal_shape c p hp
  obtain ⟨w, sq⟩ := p
  match sq, hlen, hle with
  | k1 :: k2 :: l, hlen, hle =>
    have h1 := h k1 (by have := hle k1 (by simp); omega) k2 (by have := hle k2 (by simp); omega)
    have hl : l.length = c.n - 2 := by simp only [List.length_cons] at hlen; omega
    have := allLists_spec _ _ h1 l hl (fun x hx => hle x (by simp [hx]))
    simp only [List.all_cons, List.all_nil, Bool.and_true, Bool.and_eq_true, Bool.or_eq_true,
      Bool.not_eq_true'] at this
    cases w with
    | true => rcases this.1 with h' | h'
              · rw [hp] at h'; cases h'
              · exact h'
    | false => rcases this.2 with h' | h'
               · rw [hp] at h'; cases h'
               · exact h'
  | [], hlen, _ => simp only [List.length_nil] at hlen; omega
  | [_], hlen, _ => simp only [List.length_cons, List.length_nil] at hlen; omega

/-! ## the local rule depends only on the *set* of successor values -/

theorem opt_ext {a b : Option Nat} (h : ∀ m, a = some m ↔ b = some m) : a = b := by
  cases a with
  | none =>
    cases b with
    | none => rfl
    | some y => exact absurd ((h y).2 rfl) (by simp)
  | some x => exact ((h x).1 rfl).symm

theorem expectedV_congr (l1 l2 : List Val) (chk : Bool) (h : ∀ v, v ∈ l1 ↔ v ∈ l2) :
    expectedV l1 chk = expectedV l2 chk := by
  have hnil : l1 = [] ↔ l2 = [] := by
    constructor
    · intro e; subst e
      cases l2 with
      | nil => rfl
      | cons a l => exact absurd ((h a).2 (List.mem_cons_self ..)) (by simp)
    · intro e; subst e
      cases l1 with
      | nil => rfl
      | cons a l => exact absurd ((h a).1 (List.mem_cons_self ..)) (by simp)
  have hmin : minLoss id l1 = minLoss id l2 := by
    apply opt_ext
    intro m
    rw [minLoss_some, minLoss_some]
    constructor
    · rintro ⟨⟨q, hq, e⟩, h2⟩
      exact ⟨⟨q, (h q).1 hq, e⟩, fun q hq n e => h2 q ((h q).2 hq) n e⟩
    · rintro ⟨⟨q, hq, e⟩, h2⟩
      exact ⟨⟨q, (h q).2 hq, e⟩, fun q hq n e => h2 q ((h q).1 hq) n e⟩
  have hmax : allWinMax id l1 = allWinMax id l2 := by
    apply opt_ext
    intro m
    rw [allWinMax_some, allWinMax_some]
    constructor
    · rintro ⟨h1, h2⟩
      refine ⟨fun q hq => h1 q ((h q).2 hq), ?_⟩
      rcases h2 with ⟨e, e2⟩ | ⟨q, hq, e⟩
      · exact Or.inl ⟨hnil.1 e, e2⟩
      · exact Or.inr ⟨q, (h q).1 hq, e⟩
    · rintro ⟨h1, h2⟩
      refine ⟨fun q hq => h1 q ((h q).1 hq), ?_⟩
      rcases h2 with ⟨e, e2⟩ | ⟨q, hq, e⟩
      · exact Or.inl ⟨hnil.2 e, e2⟩
      · exact Or.inr ⟨q, (h q).2 hq, e⟩
  have hemp : l1.isEmpty = l2.isEmpty := by
    cases l1 with
    | nil => rw [hnil.1 rfl]
    | cons a l =>
      cases l2 with
      | nil => exact absurd (hnil.2 rfl) (by simp)
      | cons b l' => rfl
  unfold expectedV
  rw [hmin, hmax, hemp]

/-! ## the bytes of the table -/

theorem s8_toByte (s : Int) (h1 : -128 ≤ s) (h2 : s ≤ 127) : s8 (toByte s) = s := by
  unfold s8 toByte
  have : (UInt8.ofNat (s % 256).toNat).toNat = (s % 256).toNat := by
    rw [UInt8.toNat_ofNat']
    omega
  rw [this]
  split <;> omega

theorem size_bytes (T : Tab) : (bytes T).size = T.size := by
  simp [bytes, ByteArray.size]

theorem readByte_bytes (T : Tab) (i : Nat) (hi : i < T.size) : readByte (bytes T) i = toByte (rd T i) := by
  unfold readByte
  rw [size_bytes, if_pos hi]
  simp [bytes, ByteArray.get!, rd, Array.getD_eq_getD_getElem?, hi]


/-! ## the generated table is accepted by the certificate checker -/

theorem allLists_intro : ∀ (n : Nat) (f : List Nat → Bool), (∀ l, f l = true) → allLists n f = true
  | 0, f, h => h []
  | n + 1, f, h => by
    simp only [allLists, List.all_eq_true]
    intro x _
    exact allLists_intro n _ (fun l => h (x :: l))

theorem decodeByte_bytes (T : Tab) (i : Nat) (hi : i < T.size) (h1 : -1 ≤ rd T i) (h2 : rd T i ≤ 126) :
    decodeByte (readByte (bytes T) i) = decodeS (rd T i) := by
  unfold decodeByte
  rw [readByte_bytes T i hi, s8_toByte _ (by omega) (by omega)]

theorem retro_checkPos (c : CC) (hok : OK (igOf c))
    (hhom : ∀ p, legal c p = true → homAt c c.shape (igOf c) p = true)
    (hp : (generate (igOf c)).passes ≤ 63) (p : Pos) (hl : legal c p = true) :
    checkPos c c.shape (bytes (generate (igOf c)).tab) p = true := by
  obtain ⟨i, hi, hleg, hchk, hfw, hbw⟩ := homAt_spec c c.shape (igOf c) p (hhom p hl)
  obtain ⟨hsz, hs⟩ := generate_spec hok hp
  generalize (generate (igOf c)).tab = tab at *
  have hdec : ∀ j, legalI (igOf c) j → decodeByte (readByte (bytes tab) j) = decodeS (rd tab j) := by
    intro j hj
    have := (hs j hj.1).2.2.2
    exact decodeByte_bytes tab j (by rw [hsz]; exact hj.1) this.1 this.2
  have htv : ∀ q j, indexOf c.shape q = some j → legalI (igOf c) j →
      tableVal c c.shape (bytes tab) q = valT tab j := by
    intro q j hq hj
    unfold tableVal valT
    rw [hq]; simp only
    rw [hdec j hj]
  obtain ⟨v, hv, he⟩ := (hs i hleg.1).2.2.1 hleg
  unfold checkPos
  rw [hi]; simp only
  rw [hdec i hleg, hv]; simp only
  have hlt : i < (bytes tab).size := by rw [size_bytes, hsz]; exact hleg.1
  simp only [hlt, decide_true, Bool.true_and, decide_eq_true_eq]
  rw [he, expected_eq_expectedV, hchk]
  have hm : (gameI (igOf c)).moves i = lm (igOf c) i := rfl
  have hc : (gameI (igOf c)).inCheck i = inCheckI (igOf c) i := rfl
  rw [hm, hc]
  apply expectedV_congr
  intro v'
  simp only [List.mem_map]
  constructor
  · rintro ⟨j, hj, e⟩
    obtain ⟨q, hq, hqj⟩ := hbw j hj
    exact ⟨q, hq, by rw [htv q j hqj (lm_legal hok hleg hj)]; exact e⟩
  · rintro ⟨q, hq, e⟩
    obtain ⟨j, hj, hqj⟩ := hfw q hq
    exact ⟨j, hj, by rw [← htv q j hqj (lm_legal hok hleg hj)]; exact e⟩

/-- **bridge**: every unit of the certificate checker accepts the bytes of the table the model generates -/
theorem retro_checkUnits (c : CC) (hn2 : 2 ≤ c.n) (hok : OK (igOf c)) (hhom : homCheck c = true)
    (hp : (generate (igOf c)).passes ≤ 63) (k1 k2 : Nat) :
    checkUnit c c.shape (bytes (generate (igOf c)).tab) k1 k2 = true := by
  unfold checkUnit
  apply allLists_intro
  intro l
  unfold checkAt
  simp only [List.all_cons, List.all_nil, Bool.and_true, Bool.and_eq_true, Bool.or_eq_true, Bool.not_eq_true']
  have hh := homCheck_spec c hn2 hhom
  constructor
  · cases hl : legal c ⟨true, k1 :: k2 :: l⟩
    · exact Or.inl rfl
    · exact Or.inr (retro_checkPos c hok hh hp _ hl)
  · cases hl : legal c ⟨false, k1 :: k2 :: l⟩
    · exact Or.inl rfl
    · exact Or.inr (retro_checkPos c hok hh hp _ hl)

theorem retro_checkTable (c : CC) (hn2 : 2 ≤ c.n) (hok : OK (igOf c)) (hhom : homCheck c = true)
    (hp : (generate (igOf c)).passes ≤ 63) :
    checkTable c c.shape (bytes (generate (igOf c)).tab) = true := by
  unfold checkTable
  simp only [Bool.and_eq_true, beq_iff_eq, List.all_eq_true]
  refine ⟨?_, fun k1 _ k2 _ => retro_checkUnits c hn2 hok hhom hp k1 k2⟩
  rw [size_bytes, (generate_spec hok hp).1]; rfl

/-- the table size of a class is a multiple of 64 (`newMated[idx >> 6]` stays inside its `nPos / 64` entries) -/
theorem igOf_h64 (c : CC) (hn2 : 2 ≤ c.n) : (igOf c).nPos % 64 = 0 := by
  show c.shape.nPos % 64 = 0
  unfold Shape.nPos
  have : c.shape.p = c.n := rfl
  rw [this]
  obtain ⟨k, hk⟩ : ∃ k, c.n - 1 = k + 1 := ⟨c.n - 2, by omega⟩
  rw [hk, Nat.pow_succ]
  omega


/-- a toy index graph (64 indices, four of them valid) showing that the hypotheses of the theorems are satisfiable:
    0 → 1; 1 has no move and is in check (its swapped index 3 is a king capture); 2 has no move and is not in check -/
def toy : IG :=
  { nPos := 64, valid := fun i => i < 4, takeK := fun i => i == 3,
    moves := fun i => if i == 0 then [1] else [], unmoves := fun i => if i == 1 then [0] else [],
    swap := fun i => if i == 1 then 3 else 2 }

end TB.Retro
