import TexelVerif.TB.Retro
import TexelVerif.TB.Check
/-!
# The chess instance of the retrograde model (property C12)

`TBPosition::getMoves` and `TBPosition::getUnMoves` (tbgen.cpp:328-475) transcribed on index words with the
`TBIndex` operations of `TB/Index.lean` (`setSquare` incl. the mirroring done when the white king moves and the
"captured men follow the black king" rule, `swapSide`, `canonize`); `igOf c` packages them with `indexValid`,
`canTakeKing` and `swapSide` as the index graph the generator model `Retro.generate` runs on.

Executable checks of the obligations `Retro.OK (igOf c)` (`okCheck`) and of the correspondence between legal
positions and legal indices (`homCheck`): both are finite per class, their soundness lemmas are in
`TB/RetroBridge.lean`, the compiled driver evaluates them.  Core Lean only.
-/
namespace TB.Retro
open TB

def insertNat (a : Nat) : List Nat → List Nat
  | [] => [a]
  | b :: l => if a ≤ b then a :: b :: l else b :: insertNat a l

/-- `TbMoveList::sort` -/
def sortNat (l : List Nat) : List Nat := l.foldr insertNat []

def kindOfType (code : Nat) : Kind :=
  match (if code > 6 then code - 6 else code) with
  | 1 => .K | 2 => .Q | 3 => .R | 4 => .B | _ => .N

/-- `TBPosition::getOccupied` -/
def occIdx (sh : Shape) (idx : W) : SqSet := sqSetOf (sh.slots0.map (sh.getSquare idx))

/-- `TBPosition::getMoves` -/
def getMovesIdx (sh : Shape) (idx : W) : List Nat :=
  let occ := occIdx sh idx
  let wtm := sh.whiteMove idx
  let bk := sh.getSquare idx sh.nWhite
  let movers := if wtm then List.range' 0 sh.nWhite else List.range' sh.nWhite (sh.p - sh.nWhite)
  let victims := if wtm then List.range' (sh.nWhite + 1) (sh.p - sh.nWhite - 1) else List.range' 1 (sh.nWhite - 1)
  sortNat (movers.flatMap fun i =>
    let frm := sh.getSquare idx i
    if i != sh.nWhite && frm == bk then []                       -- ignore non-present piece
    else
      (reach (kindOfType (sh.types.getD i 0)) occ frm).filterMap fun to =>
        if to == bk then none
        else
          let captured := if occ.has to then victims.find? (fun j => sh.getSquare idx j == to) else none
          if occ.has to && captured.isNone then none             -- can not capture same colour
          else
            let idx1 := match captured with
              | some j => sh.setSquare idx j bk
              | none => idx
            some (sh.canonize (sh.swapSide (sh.setSquare idx1 i to))).toNat)

/-- `TBPosition::getUnMoves` -/
def getUnMovesIdx (sh : Shape) (idx : W) : List Nat :=
  let occ := occIdx sh idx
  let wtm := sh.whiteMove idx
  let bk := sh.getSquare idx sh.nWhite
  let missRange := if wtm then List.range' 1 (sh.nWhite - 1) else List.range' (sh.nWhite + 1) (sh.p - sh.nWhite - 1)
  let missing := missRange.filter fun j => sh.getSquare idx j == bk
  let movers := if wtm then List.range' sh.nWhite (sh.p - sh.nWhite) else List.range' 0 sh.nWhite
  sortNat (movers.flatMap fun i =>
    let to := sh.getSquare idx i
    if i != sh.nWhite && to == bk then []                        -- ignore non-present piece
    else
      ((reach (kindOfType (sh.types.getD i 0)) occ to).filter fun f => !occ.has f).flatMap fun frm =>
        (sh.canonize (sh.swapSide (sh.setSquare idx i frm))).toNat ::
          missing.map fun j =>
            let idx1 :=
              if i == sh.nWhite then sh.setSquare (sh.setSquare idx i frm) j to   -- black king, must set i first
              else sh.setSquare (sh.setSquare idx j to) i frm                     -- if white king, must set j first
            (sh.canonize (sh.swapSide idx1)).toNat)

/-- the index graph of a class -/
def igOf (c : CC) : IG :=
  let sh := c.shape
  { nPos := sh.nPos
    valid := fun i => sh.indexValid i.toUInt64
    takeK := fun i => canTakeKing c (posOfIndex sh i.toUInt64)
    moves := fun i => getMovesIdx sh i.toUInt64
    unmoves := fun i => getUnMovesIdx sh i.toUInt64
    swap := fun i => (sh.swapSide i.toUInt64).toNat }

/-! ## executable checks of the instance obligations -/

def legalB (G : IG) (i : Nat) : Bool := decide (i < G.nPos) && G.valid i && !G.takeK i

/-- the obligations `Retro.OK` except sortedness (which holds by construction), with the two move generators
    given as functions `mv`, `un` (the generators themselves, or tables of their results) -/
def okAt (G : IG) (mv un : Nat → List Nat) (i : Nat) : Bool :=
  !legalB G i ||
    ((mv i).all (fun j => decide (j < G.nPos) && G.valid j && (!legalB G j || (un j).contains i)) &&
     (un i).all (fun j => decide (j < G.nPos) && (!legalB G j || (mv j).contains i)) &&
     decide (G.swap i < G.nPos))

def okCheckWith (G : IG) (mv un : Nat → List Nat) : Bool :=
  G.nPos % 64 == 0 && (List.range G.nPos).all (okAt G mv un)

/-- both generators tabulated once (3-man classes: 81 920 lists each) -/
def okCheckCached (G : IG) : Bool :=
  let mvA := (Array.range G.nPos).map fun i => if legalB G i then G.moves i else []
  let unA := (Array.range G.nPos).map fun i => if legalB G i then G.unmoves i else []
  okCheckWith G (fun i => mvA.getD i []) (fun i => unA.getD i [])

def okCheckDirect (G : IG) : Bool := okCheckWith G G.moves G.unmoves

/-- `l1 ⊆ l2` as sets -/
def subList (l1 l2 : List (Option Nat)) : Bool := l1.all fun x => l2.contains x

/-- the legal successors of index `i` (what phase 2 counts) -/
def lmB (G : IG) (i : Nat) : List Nat := (dedupAdj (G.moves i)).filter fun j => !G.takeK j

/-- one legal position: it has a legal index, "in check" agrees, and its legal successors are mapped onto the
    index's legal successors -/
def homAt (c : CC) (sh : Shape) (G : IG) (p : Pos) : Bool :=
  match indexOf sh p with
  | none => false
  | some i =>
    legalB G i && (inCheck c p == (G.valid (G.swap i) && G.takeK (G.swap i))) &&
    (let a := (moves c p).map (indexOf sh)
     let b := (lmB G i).map some
     subList a b && subList b a)

def homUnit (c : CC) (sh : Shape) (G : IG) (k1 k2 : Nat) : Bool :=
  allLists (c.n - 2) fun l => [true, false].all fun w => !legal c ⟨w, k1 :: k2 :: l⟩ || homAt c sh G ⟨w, k1 :: k2 :: l⟩

def homCheck (c : CC) : Bool :=
  (List.range 65).all fun k1 => (List.range 65).all fun k2 => homUnit c c.shape (igOf c) k1 k2

end TB.Retro
