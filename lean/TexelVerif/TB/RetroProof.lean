import TexelVerif.TB.RetroLemmas
import TexelVerif.TB.Index
/-!
# The retrograde generator computes the exact distance to mate (property C12)

`TB/Retro.lean` is `TBGenerator::generate` over an abstract index graph `IG`.  Here: under the hypotheses `OK`
(chiefly: `getUnMoves` is the converse of `getMoves` on the indices that denote legal positions), if the run needs
at most 63 scans, the table it leaves satisfies at every legal index the local rule `Cert.expected` of the
certificate checker for the game "legal index → successor indices that are not king captures" — hence
(`Cert.fixedpoint_is_dtm`) holds the exact distance to mate; and the loop always terminates.

Proof: an invariant `Inv T a b` on the table ("every MATE_IN_k has a MATED_IN_(k-1) successor; every REMAINING_c has
exactly c successors that are not yet MATE_IN; every MATED_IN_k has only MATE_IN_≤k successors, one of them
MATE_IN_k; every predecessor of a MATED_IN_m entry with m < b is MATE_IN_≤(m+1); values ≤ a") that holds between
any two executions of the atomic step "an index becomes MATE_IN_n and its predecessors are decremented".
-/
namespace TB.Retro
open Cert

variable (G : IG)

/-- the indices the retrograde loops work with: a valid index whose side to move cannot take the king -/
def legalI (i : Nat) : Prop := i < G.nPos ∧ G.valid i = true ∧ G.takeK i = false

/-- legal successors: distinct successor indices that are not king captures (phase 2 counts exactly these) -/
def lm (i : Nat) : List Nat := (dedupAdj (G.moves i)).filter fun j => !G.takeK j

/-- "in check": with the other side to move the king could be taken (phase 2 tests `table[swapSide] == MATE_IN_0`) -/
def inCheckI (i : Nat) : Bool := G.valid (G.swap i) && G.takeK (G.swap i)

/-- the game the generator solves -/
def gameI : Cert.Game Nat := { moves := lm G, inCheck := inCheckI G }

/-- the obligations of an instance -/
structure OK : Prop where
  h64 : G.nPos % 64 = 0
  moves_lt : ∀ i j, legalI G i → j ∈ G.moves i → j < G.nPos
  moves_valid : ∀ i j, legalI G i → j ∈ G.moves i → G.valid j = true
  moves_sorted : ∀ i, legalI G i → (G.moves i).Pairwise (· ≤ ·)
  unmoves_lt : ∀ i j, legalI G i → j ∈ G.unmoves i → j < G.nPos
  unmoves_sorted : ∀ i, legalI G i → (G.unmoves i).Pairwise (· ≤ ·)
  /-- predecessor generation is sound and complete w.r.t. forward moves, on legal indices -/
  conv : ∀ i j, legalI G i → legalI G j → (i ∈ G.unmoves j ↔ j ∈ G.moves i)
  swap_lt : ∀ i, legalI G i → G.swap i < G.nPos

/-- number of successors that are not (yet) MATE_IN_k -/
def cnt (T : Tab) (i : Nat) : Nat := ((lm G i).filter fun j => decide (rd T j ≤ 64)).length

variable {G}

theorem lm_legal (hG : OK G) {i j : Nat} (hi : legalI G i) (hj : j ∈ lm G i) : legalI G j := by
  simp only [lm, List.mem_filter, mem_dedupAdj, Bool.not_eq_true'] at hj
  exact ⟨hG.moves_lt i j hi hj.1, hG.moves_valid i j hi hj.1, hj.2⟩

theorem lm_nodup (hG : OK G) {i : Nat} (hi : legalI G i) : (lm G i).Nodup :=
  (nodup_dedupAdj _ (hG.moves_sorted i hi)).filter _

theorem mem_lm {i j : Nat} (hj : legalI G j) : j ∈ lm G i ↔ j ∈ G.moves i := by
  simp only [lm, List.mem_filter, mem_dedupAdj, hj.2.2, Bool.not_false, and_true]

theorem un_nodup (hG : OK G) {i : Nat} (hi : legalI G i) : (dedupAdj (G.unmoves i)).Nodup :=
  nodup_dedupAdj _ (hG.unmoves_sorted i hi)

variable (G)

structure Inv (T : Tab) (a b : Nat) : Prop where
  size : T.size = G.nPos
  inval : ∀ i, i < G.nPos → G.valid i = false → rd T i = -1
  take : ∀ i, i < G.nPos → G.valid i = true → G.takeK i = true → rd T i = 64
  shape : ∀ i, legalI G i →
    (∃ k : Nat, 1 ≤ k ∧ k ≤ a ∧ rd T i = 64 + (k : Int)) ∨ (∃ k : Nat, k ≤ a ∧ rd T i = 63 - (k : Int)) ∨
    rd T i = 0 ∨ (∃ c : Nat, 1 ≤ c ∧ rd T i = -3 - (c : Int))
  win : ∀ i (k : Nat), legalI G i → 1 ≤ k → rd T i = 64 + (k : Int) → ∃ j ∈ lm G i, rd T j = 64 - (k : Int)
  rem : ∀ i (c : Nat), legalI G i → 1 ≤ c → rd T i = -3 - (c : Int) → cnt G T i = c
  loss : ∀ i (k : Nat), legalI G i → 1 ≤ k → k ≤ 62 → rd T i = 63 - (k : Int) →
    (∀ j ∈ lm G i, 64 < rd T j ∧ rd T j ≤ 64 + (k : Int)) ∧ (∃ j ∈ lm G i, rd T j = 64 + (k : Int))
  loss0 : ∀ i, legalI G i → rd T i = 63 → lm G i = [] ∧ inCheckI G i = true
  draw : ∀ i, legalI G i → rd T i = 0 → lm G i = [] ∧ inCheckI G i = false
  done : ∀ j (m : Nat), legalI G j → m < b → rd T j = 63 - (m : Int) →
    ∀ i, legalI G i → j ∈ lm G i → 64 < rd T i ∧ rd T i ≤ 64 + (m : Int) + 1

/-- the invariant while scan `n` is in progress; `S` = the indices visited so far -/
structure PInv (n : Nat) (T : Tab) (F : Flags) (S : List Nat) : Prop where
  inv : Inv G T n (n - 1)
  fsize : F.size = G.nPos / 64
  fl : ∀ i, i < G.nPos → rd T i = 63 - (n : Int) → flag F (i / 64) = true
  doneS : ∀ j, j ∈ S → legalI G j → rd T j = 64 - (n : Int) →
    ∀ i, legalI G i → j ∈ lm G i → 64 < rd T i ∧ rd T i ≤ 64 + (n : Int)

/-- what never changes during scan `n`: computed entries, and the set of MATED_IN_(n-1) entries -/
def Ext (n : Nat) (T T' : Tab) : Prop :=
  (∀ k, -1 ≤ rd T k → rd T' k = rd T k) ∧ (∀ k, rd T' k = 64 - (n : Int) → rd T k = 64 - (n : Int))

variable {G}

theorem Ext.refl (n : Nat) (T : Tab) : Ext n T T := ⟨fun _ _ => rfl, fun _ h => h⟩

theorem Ext.trans {n : Nat} {T1 T2 T3 : Tab} (h12 : Ext n T1 T2) (h23 : Ext n T2 T3) : Ext n T1 T3 :=
  ⟨fun k hk => by rw [h23.1 k (by rw [h12.1 k hk]; exact hk), h12.1 k hk], fun k hk => h12.2 k (h23.2 k hk)⟩

theorem legal_of_lt {a b : Nat} {T : Tab} (h : Inv G T a b) {i : Nat} (hi : i < G.nPos)
    (h1 : rd T i ≠ -1) (h2 : rd T i ≠ 64) : legalI G i := by
  refine ⟨hi, ?_, ?_⟩
  · cases hv : G.valid i
    · exact absurd (h.inval i hi hv) h1
    · rfl
  · cases hv : G.valid i
    · exact absurd (h.inval i hi hv) h1
    · cases ht : G.takeK i
      · rfl
      · exact absurd (h.take i hi hv ht) h2

/-- the atomic step: an index that is not yet computed and has a MATED_IN_(n-1) successor becomes MATE_IN_n -/
theorem label_inv (hG : OK G) (n : Nat) (hn1 : 1 ≤ n) (hn : n ≤ 62) (T : Tab) (F : Flags) (S : List Nat)
    (h : PInv G n T F S) (idx W : Nat) (hidx : legalI G idx) (hv : rd T idx = 64 - (n : Int))
    (hW : W ∈ G.unmoves idx) (hlt : rd T W < -1) :
    PInv G n (labelWin G n T F W).1 (labelWin G n T F W).2 S ∧ Ext n T (labelWin G n T F W).1 ∧
      rd (labelWin G n T F W).1 W = 64 + (n : Int) := by
  have hI := h.inv
  have hWn : W < G.nPos := hG.unmoves_lt idx W hidx hW
  have hWleg : legalI G W := legal_of_lt hI hWn (by omega) (by omega)
  have hidxW : idx ∈ lm G W := (mem_lm hidx).2 ((hG.conv W idx hWleg hidx).1 hW)
  obtain ⟨s1, s2, s3, s4, s5, s6⟩ := labelWin_spec G n T F W (by rw [hI.size]; exact hWn) (un_nodup hG hWleg)
  generalize (labelWin G n T F W).1 = T' at *
  generalize (labelWin G n T F W).2 = F' at *
  -- basic facts about the new table
  have K1 : ∀ k, -1 ≤ rd T k → rd T' k = rd T k := by
    intro k hk
    have hkW : k ≠ W := by intro e; subst e; omega
    rw [s4 k hkW]
    have : ¬ (k ∈ G.unmoves W ∧ rd T k < -3) := by intro hc; omega
    rw [if_neg this]
  have Kc : ∀ k, k ≠ W → rd T' k = rd T k ∨
      (k ∈ G.unmoves W ∧ rd T k < -3 ∧ ((rd T k = -4 ∧ rd T' k = 63 - (n : Int)) ∨ (rd T k ≠ -4 ∧ rd T' k = rd T k + 1))) := by
    intro k hkW
    rw [s4 k hkW]
    by_cases hc : k ∈ G.unmoves W ∧ rd T k < -3
    · rw [if_pos hc]
      right
      refine ⟨hc.1, hc.2, ?_⟩
      unfold dec
      by_cases h4 : rd T k + 1 = -3
      · left; rw [if_pos h4]; exact ⟨by omega, rfl⟩
      · right; rw [if_neg h4]; exact ⟨by omega, rfl⟩
    · rw [if_neg hc]; left; rfl
  have Kback : ∀ k, rd T' k = 64 - (n : Int) → rd T k = 64 - (n : Int) := by
    intro k hk
    by_cases hkW : k = W
    · subst hkW; omega
    · rcases Kc k hkW with e | ⟨_, h3, h4 | h4⟩ <;> omega
  have K2 : ∀ k, k ≠ W → (decide (rd T' k ≤ 64)) = (decide (rd T k ≤ 64)) := by
    intro k hkW
    rcases Kc k hkW with e | ⟨_, h3, h4 | h4⟩
    · rw [e]
    · have a1 : rd T' k ≤ 64 := by omega
      have a2 : rd T k ≤ 64 := by omega
      simp [a1, a2]
    · have a1 : rd T' k ≤ 64 := by omega
      have a2 : rd T k ≤ 64 := by omega
      simp [a1, a2]
  have K3 : ∀ k, legalI G k → (k ∈ G.unmoves W ↔ W ∈ lm G k) := by
    intro k hk
    rw [mem_lm hWleg]
    exact hG.conv k W hk hWleg
  have Kcnt : ∀ i, legalI G i → cnt G T' i + (if W ∈ lm G i then 1 else 0) = cnt G T i := by
    intro i hi
    unfold cnt
    exact length_filter_flip (fun j => decide (rd T j ≤ 64)) (fun j => decide (rd T' j ≤ 64)) W
      (by simp only [decide_eq_true_eq]; omega) (by simp only [decide_eq_false_iff_not]; omega)
      (fun y hy => K2 y hy) (lm G i) (lm_nodup hG hi)
  -- shape of the new table
  have hshape : ∀ i, legalI G i →
      (∃ k : Nat, 1 ≤ k ∧ k ≤ n ∧ rd T' i = 64 + (k : Int)) ∨ (∃ k : Nat, k ≤ n ∧ rd T' i = 63 - (k : Int)) ∨
      rd T' i = 0 ∨ (∃ c : Nat, 1 ≤ c ∧ rd T' i = -3 - (c : Int)) := by
    intro i hi
    by_cases hiW : i = W
    · subst hiW; left; exact ⟨n, hn1, Nat.le_refl _, s3⟩
    · rcases Kc i hiW with e | ⟨_, h3, h4 | h4⟩
      · rw [e]; exact hI.shape i hi
      · right; left; exact ⟨n, Nat.le_refl _, h4.2⟩
      · rcases hI.shape i hi with ⟨k, _, _, e⟩ | ⟨k, _, e⟩ | e | ⟨c, hc, e⟩
        · omega
        · omega
        · omega
        · right; right; right
          exact ⟨c - 1, by omega, by omega⟩
  have hinv : Inv G T' n (n - 1) := by
    refine ⟨by rw [s1, hI.size], ?_, ?_, hshape, ?_, ?_, ?_, ?_, ?_, ?_⟩
    · intro i hi hv; rw [K1 i (by rw [hI.inval i hi hv]; omega)]; exact hI.inval i hi hv
    · intro i hi hv ht; rw [K1 i (by rw [hI.take i hi hv ht]; omega)]; exact hI.take i hi hv ht
    · -- win
      intro i k hi hk e
      by_cases hiW : i = W
      · subst hiW
        have : k = n := by omega
        subst this
        exact ⟨idx, hidxW, by rw [K1 idx (by omega)]; exact hv⟩
      · have e' : rd T i = 64 + (k : Int) := by
          rcases Kc i hiW with e2 | ⟨_, h3, h4 | h4⟩ <;> omega
        obtain ⟨j, hj, hje⟩ := hI.win i k hi hk e'
        have hkn : k ≤ n := by
          rcases hI.shape i hi with ⟨k', _, hk', e2⟩ | ⟨k', _, e2⟩ | e2 | ⟨c, hc, e2⟩ <;> omega
        exact ⟨j, hj, by rw [K1 j (by omega)]; exact hje⟩
    · -- rem
      intro i c hi hc e
      have hiW : i ≠ W := by intro e2; subst e2; omega
      have hk := Kcnt i hi
      rcases Kc i hiW with e2 | ⟨hu, h3, h4 | h4⟩
      · -- unchanged: i is REMAINING in T, so not a predecessor of W
        have hnu : ¬ i ∈ G.unmoves W := by
          intro hu
          have := s4 i hiW
          rw [if_pos ⟨hu, by omega⟩] at this
          unfold dec at this
          by_cases h4 : rd T i + 1 = -3
          · rw [if_pos h4] at this; omega
          · rw [if_neg h4] at this; omega
        have : ¬ W ∈ lm G i := fun hm => hnu ((K3 i hi).2 hm)
        rw [if_neg this] at hk
        rw [Nat.add_zero] at hk
        rw [hk]; exact hI.rem i c hi hc (by omega)
      · omega
      · have hm : W ∈ lm G i := (K3 i hi).1 hu
        rw [if_pos hm] at hk
        have := hI.rem i (c + 1) hi (by omega) (by omega)
        omega
    · -- loss
      intro i k hi hk1 hk62 e
      have hiW : i ≠ W := by intro e2; subst e2; omega
      rcases Kc i hiW with e2 | ⟨hu, h3, h4 | h4⟩
      · obtain ⟨l1, j, hj, hje⟩ := hI.loss i k hi hk1 hk62 (by omega)
        refine ⟨fun j hj => ?_, j, hj, by rw [K1 j (by omega)]; exact hje⟩
        have := l1 j hj
        rw [K1 j (by omega)]; exact this
      · -- REMAINING_1 became MATED_IN_n
        have hkn : k = n := by omega
        subst hkn
        have hm : W ∈ lm G i := (K3 i hi).1 hu
        have hk := Kcnt i hi
        rw [if_pos hm] at hk
        have h1 := hI.rem i 1 hi (Nat.le_refl _) (by omega)
        have h0 : cnt G T' i = 0 := by omega
        refine ⟨fun j hj => ?_, W, hm, s3⟩
        have hgt : 64 < rd T' j := by
          unfold cnt at h0
          have := List.eq_nil_of_length_eq_zero h0
          have hf := List.filter_eq_nil_iff.1 this j hj
          simp only [decide_eq_true_eq] at hf
          omega
        refine ⟨hgt, ?_⟩
        rcases hshape j (lm_legal hG hi hj) with ⟨k', _, hk', e3⟩ | ⟨k', _, e3⟩ | e3 | ⟨c, hc, e3⟩ <;> omega
      · omega
    · -- loss0
      intro i hi e
      have hiW : i ≠ W := by intro e2; subst e2; omega
      rcases Kc i hiW with e2 | ⟨hu, h3, h4 | h4⟩
      · exact hI.loss0 i hi (by omega)
      · omega
      · omega
    · -- draw
      intro i hi e
      have hiW : i ≠ W := by intro e2; subst e2; omega
      rcases Kc i hiW with e2 | ⟨hu, h3, h4 | h4⟩
      · exact hI.draw i hi (by omega)
      · omega
      · omega
    · -- done
      intro j m hj hm e i hi hji
      have hjW : j ≠ W := by intro e2; subst e2; omega
      have e' : rd T j = 63 - (m : Int) := by
        rcases Kc j hjW with e2 | ⟨hu, h3, h4 | h4⟩ <;> omega
      have := hI.done j m hj hm e' i hi hji
      rw [K1 i (by omega)]; exact this
  refine ⟨⟨hinv, by rw [s2, h.fsize], ?_, ?_⟩, ⟨K1, Kback⟩, s3⟩
  · -- flags
    intro i hi e
    by_cases hiW : i = W
    · subst hiW; omega
    · rcases Kc i hiW with e2 | ⟨hu, h3, h4 | h4⟩
      · exact s5 _ (h.fl i hi (by omega))
      · apply s6 i hiW hu h4.1
        rw [h.fsize]
        have := hG.h64
        omega
      · omega
  · intro j hjS hj e i hi hji
    have := h.doneS j hjS hj (Kback j e) i hi hji
    rw [K1 i (by omega)]; exact this


theorem mid_fold (hG : OK G) (n : Nat) (hn1 : 1 ≤ n) (hn : n ≤ 62) (idx : Nat) (hidx : legalI G idx) (S : List Nat) :
    ∀ (l : List Nat) (st : PSt), (∀ x ∈ l, x ∈ G.unmoves idx) → PInv G n st.tab st.new S →
      rd st.tab idx = 64 - (n : Int) →
      PInv G n (l.foldl (midStep G n) st).tab (l.foldl (midStep G n) st).new S ∧
      Ext n st.tab (l.foldl (midStep G n) st).tab ∧ st.modified ≤ (l.foldl (midStep G n) st).modified ∧
      (∀ i ∈ l, legalI G i → idx ∈ lm G i →
        64 < rd (l.foldl (midStep G n) st).tab i ∧ rd (l.foldl (midStep G n) st).tab i ≤ 64 + (n : Int))
  | [], st, _, h, _ => ⟨h, Ext.refl _ _, Nat.le_refl _, fun _ hi => by cases hi⟩
  | x :: l, st, hl, h, hv => by
    simp only [List.foldl_cons]
    have hx : x ∈ G.unmoves idx := hl x (List.mem_cons_self ..)
    have hl' : ∀ y ∈ l, y ∈ G.unmoves idx := fun y hy => hl y (List.mem_cons_of_mem _ hy)
    by_cases hlt : rd st.tab x < -1
    · obtain ⟨p1, p2, p3⟩ := label_inv hG n hn1 hn st.tab st.new S h idx x hidx hv hx hlt
      have hst : midStep G n st x =
          ⟨(labelWin G n st.tab st.new x).1, (labelWin G n st.tab st.new x).2, st.modified + 1⟩ := by
        simp only [midStep, hlt, if_true]
      rw [hst]
      have hv' : rd (labelWin G n st.tab st.new x).1 idx = 64 - (n : Int) := by rw [p2.1 idx (by omega)]; exact hv
      obtain ⟨q1, q2, q3, q4⟩ := mid_fold hG n hn1 hn idx hidx S l
        ⟨(labelWin G n st.tab st.new x).1, (labelWin G n st.tab st.new x).2, st.modified + 1⟩ hl' p1 hv'
      refine ⟨q1, p2.trans q2, by simp only at q3; omega, ?_⟩
      intro i hi hil hm
      rcases List.mem_cons.1 hi with e | hi'
      · subst e
        have := q2.1 i (by rw [p3]; omega)
        simp only at this
        rw [this, p3]; omega
      · exact q4 i hi' hil hm
    · have hst : midStep G n st x = st := by simp only [midStep, hlt, if_false]
      rw [hst]
      obtain ⟨q1, q2, q3, q4⟩ := mid_fold hG n hn1 hn idx hidx S l st hl' h hv
      refine ⟨q1, q2, q3, ?_⟩
      intro i hi hil hm
      rcases List.mem_cons.1 hi with e | hi'
      · subst e
        have hI := h.inv
        have hwin : 64 < rd st.tab i ∧ rd st.tab i ≤ 64 + (n : Int) := by
          rcases hI.shape i hil with ⟨k, hk1, hk, e⟩ | ⟨k, hk, e⟩ | e | ⟨c, hc, e⟩
          · omega
          · by_cases hk0 : k = 0
            · subst hk0
              have := (hI.loss0 i hil (by omega)).1
              rw [this] at hm; cases hm
            · have := (hI.loss i k hil (by omega) (by omega) e).1 idx hm
              omega
          · have := (hI.draw i hil e).1
            rw [this] at hm; cases hm
          · omega
        rw [q2.1 i (by omega)]; exact hwin
      · exact q4 i hi' hil hm

theorem visit_inv (hG : OK G) (n : Nat) (hn1 : 1 ≤ n) (hn : n ≤ 62) (st : PSt) (S : List Nat) (idx : Nat)
    (hlt : idx < G.nPos) (h : PInv G n st.tab st.new S) :
    PInv G n (visit G n st idx).tab (visit G n st idx).new (idx :: S) ∧ Ext n st.tab (visit G n st idx).tab ∧
      st.modified ≤ (visit G n st idx).modified := by
  by_cases hv : rd st.tab idx = 64 - (n : Int)
  · have hidx : legalI G idx := legal_of_lt h.inv hlt (by omega) (by omega)
    have hvis : visit G n st idx = (dedupAdj (G.unmoves idx)).foldl (midStep G n) st := by
      simp only [visit, hv, if_true]
    rw [hvis]
    obtain ⟨q1, q2, q3, q4⟩ := mid_fold hG n hn1 hn idx hidx S (dedupAdj (G.unmoves idx)) st
      (fun x hx => (mem_dedupAdj x _).1 hx) h hv
    refine ⟨⟨q1.inv, q1.fsize, q1.fl, ?_⟩, q2, q3⟩
    intro j hj hjl e i hi hji
    rcases List.mem_cons.1 hj with e2 | hj'
    · subst e2
      have : i ∈ G.unmoves j := (hG.conv i j hi hjl).2 ((mem_lm hjl).1 hji)
      exact q4 i ((mem_dedupAdj i _).2 this) hi hji
    · exact q1.doneS j hj' hjl e i hi hji
  · have hvis : visit G n st idx = st := by simp only [visit, hv, if_false]
    rw [hvis]
    refine ⟨⟨h.inv, h.fsize, h.fl, ?_⟩, Ext.refl _ _, Nat.le_refl _⟩
    intro j hj hjl e i hi hji
    rcases List.mem_cons.1 hj with e2 | hj'
    · subst e2; exact absurd e hv
    · exact h.doneS j hj' hjl e i hi hji

theorem pass_fold (hG : OK G) (n : Nat) (hn1 : 1 ≤ n) (hn : n ≤ 62) :
    ∀ (L : List Nat) (st : PSt) (S : List Nat), (∀ x ∈ L, x < G.nPos) → PInv G n st.tab st.new S →
      PInv G n (L.foldl (visit G n) st).tab (L.foldl (visit G n) st).new (L.reverse ++ S) ∧
      Ext n st.tab (L.foldl (visit G n) st).tab ∧ st.modified ≤ (L.foldl (visit G n) st).modified
  | [], st, S, _, h => ⟨by simpa using h, Ext.refl _ _, Nat.le_refl _⟩
  | x :: L, st, S, hL, h => by
    simp only [List.foldl_cons]
    obtain ⟨p1, p2, p3⟩ := visit_inv hG n hn1 hn st S x (hL x (List.mem_cons_self ..)) h
    obtain ⟨q1, q2, q3⟩ := pass_fold hG n hn1 hn L _ (x :: S) (fun y hy => hL y (List.mem_cons_of_mem _ hy)) p1
    refine ⟨?_, p2.trans q2, by omega⟩
    have : (x :: L).reverse ++ S = L.reverse ++ (x :: S) := by simp
    rw [this]; exact q1


theorem pass_eq (h64 : G.nPos % 64 = 0) (n : Nat) (T : Tab) (F : Flags) :
    pass G n T F = ((List.range' 0 G.nPos).filter (fun i => flag F (i / 64))).foldl (visit G n)
      ⟨T, Array.replicate (G.nPos / 64) false, 0⟩ := by
  unfold pass
  rw [scan_eq G n F h64 (G.nPos - 0) 0 _ rfl (Or.inl rfl), Nat.sub_zero]

theorem pass_inv (hG : OK G) (n : Nat) (hn1 : 1 ≤ n) (hn : n ≤ 62) (T : Tab) (F : Flags)
    (hI : Inv G T (n - 1) (n - 1))
    (hfl : ∀ i, i < G.nPos → rd T i = 64 - (n : Int) → flag F (i / 64) = true) :
    Inv G (pass G n T F).tab n n ∧ (pass G n T F).new.size = G.nPos / 64 ∧
    (∀ i, i < G.nPos → rd (pass G n T F).tab i = 63 - (n : Int) → flag (pass G n T F).new (i / 64) = true) := by
  rw [pass_eq hG.h64]
  have h0 : PInv G n T (Array.replicate (G.nPos / 64) false) [] := by
    refine ⟨⟨hI.size, hI.inval, hI.take, ?_, hI.win, hI.rem, hI.loss, hI.loss0, hI.draw, hI.done⟩, by simp, ?_, ?_⟩
    · intro i hi
      rcases hI.shape i hi with ⟨k, hk1, hk, e⟩ | ⟨k, hk, e⟩ | e | ⟨c, hc, e⟩
      · left; exact ⟨k, hk1, by omega, e⟩
      · right; left; exact ⟨k, by omega, e⟩
      · right; right; left; exact e
      · right; right; right; exact ⟨c, hc, e⟩
    · intro i hi e
      exfalso
      by_cases hl : legalI G i
      · rcases hI.shape i hl with ⟨k, hk1, hk, e2⟩ | ⟨k, hk, e2⟩ | e2 | ⟨c, hc, e2⟩ <;> omega
      · by_cases hv : G.valid i = true
        · by_cases ht : G.takeK i = true
          · have := hI.take i hi hv ht; omega
          · exact hl ⟨hi, hv, by simpa using ht⟩
        · have := hI.inval i hi (by simpa using hv); omega
    · intro j hj; cases hj
  obtain ⟨p1, p2, _⟩ := pass_fold hG n hn1 hn ((List.range' 0 G.nPos).filter (fun i => flag F (i / 64)))
    ⟨T, Array.replicate (G.nPos / 64) false, 0⟩ [] (fun x hx => by
      have := List.mem_range'_1.1 (List.mem_filter.1 hx).1; omega) h0
  generalize (List.foldl (visit G n) _ _) = r at *
  have hI' := p1.inv
  refine ⟨⟨hI'.size, hI'.inval, hI'.take, hI'.shape, hI'.win, hI'.rem, hI'.loss, hI'.loss0, hI'.draw, ?_⟩, p1.fsize, p1.fl⟩
  intro j m hj hm e i hi hji
  by_cases hm' : m < n - 1
  · exact hI'.done j m hj hm' e i hi hji
  · have hmn : m = n - 1 := by omega
    have e' : rd r.tab j = 64 - (n : Int) := by omega
    have e0 : rd T j = 64 - (n : Int) := p2.2 j e'
    have hjS : j ∈ ((List.range' 0 G.nPos).filter (fun i => flag F (i / 64))).reverse ++ [] := by
      simp only [List.append_nil, List.mem_reverse, List.mem_filter, List.mem_range'_1]
      exact ⟨⟨by omega, by have := hj.1; omega⟩, hfl j hj.1 e0⟩
    have := p1.doneS j hjS hj e' i hi hji
    omega


/-! ### a scan that modifies nothing -/

theorem midStep_mono (n : Nat) (st : PSt) (x : Nat) : st.modified ≤ (midStep G n st x).modified := by
  unfold midStep; split <;> simp

theorem midStep_noop (n : Nat) (st : PSt) (x : Nat) (h : (midStep G n st x).modified = st.modified) :
    midStep G n st x = st ∧ -1 ≤ rd st.tab x := by
  unfold midStep at h ⊢
  by_cases hlt : rd st.tab x < -1
  · simp only [hlt, if_true] at h; omega
  · simp only [hlt, if_false]; exact ⟨trivial, by omega⟩

theorem mid_fold_mono (n : Nat) : ∀ (l : List Nat) (st : PSt), st.modified ≤ (l.foldl (midStep G n) st).modified
  | [], _ => Nat.le_refl _
  | x :: l, st => by
    simp only [List.foldl_cons]
    exact Nat.le_trans (midStep_mono n st x) (mid_fold_mono n l _)

theorem mid_fold_noop (n : Nat) : ∀ (l : List Nat) (st : PSt), (l.foldl (midStep G n) st).modified = st.modified →
    l.foldl (midStep G n) st = st ∧ ∀ x ∈ l, -1 ≤ rd st.tab x
  | [], _, _ => ⟨rfl, fun _ h => by cases h⟩
  | x :: l, st, h => by
    simp only [List.foldl_cons] at h ⊢
    have h1 := midStep_mono (G := G) n st x
    have h2 := mid_fold_mono (G := G) n l (midStep G n st x)
    obtain ⟨e, hx⟩ := midStep_noop (G := G) n st x (by omega)
    rw [e] at h ⊢
    obtain ⟨e2, hl⟩ := mid_fold_noop n l st h
    refine ⟨e2, fun y hy => ?_⟩
    rcases List.mem_cons.1 hy with e3 | hy'
    · subst e3; exact hx
    · exact hl y hy'

theorem visit_mono (n : Nat) (st : PSt) (idx : Nat) : st.modified ≤ (visit G n st idx).modified := by
  unfold visit; split
  · exact mid_fold_mono n _ st
  · exact Nat.le_refl _

theorem visit_noop (n : Nat) (st : PSt) (idx : Nat) (h : (visit G n st idx).modified = st.modified) :
    visit G n st idx = st ∧ (rd st.tab idx = 64 - (n : Int) → ∀ x ∈ G.unmoves idx, -1 ≤ rd st.tab x) := by
  unfold visit at h ⊢
  by_cases hv : rd st.tab idx = 64 - (n : Int)
  · simp only [hv, if_true] at h ⊢
    obtain ⟨e, hl⟩ := mid_fold_noop n _ st h
    exact ⟨e, fun _ x hx => hl x ((mem_dedupAdj x _).2 hx)⟩
  · simp only [hv, if_false]; exact ⟨trivial, fun e => e.elim⟩

theorem vfold_mono (n : Nat) : ∀ (L : List Nat) (st : PSt), st.modified ≤ (L.foldl (visit G n) st).modified
  | [], _ => Nat.le_refl _
  | x :: l, st => by
    simp only [List.foldl_cons]
    exact Nat.le_trans (visit_mono n st x) (vfold_mono n l _)

theorem vfold_noop (n : Nat) : ∀ (L : List Nat) (st : PSt), (L.foldl (visit G n) st).modified = st.modified →
    L.foldl (visit G n) st = st ∧
    ∀ idx ∈ L, rd st.tab idx = 64 - (n : Int) → ∀ x ∈ G.unmoves idx, -1 ≤ rd st.tab x
  | [], _, _ => ⟨rfl, fun _ h => by cases h⟩
  | x :: l, st, h => by
    simp only [List.foldl_cons] at h ⊢
    have h1 := visit_mono (G := G) n st x
    have h2 := vfold_mono (G := G) n l (visit G n st x)
    obtain ⟨e, hx⟩ := visit_noop (G := G) n st x (by omega)
    rw [e] at h ⊢
    obtain ⟨e2, hl⟩ := vfold_noop n l st h
    refine ⟨e2, fun y hy => ?_⟩
    rcases List.mem_cons.1 hy with e3 | hy'
    · subst e3; exact hx
    · exact hl y hy'

theorem pass_noop (hG : OK G) (n : Nat) (T : Tab) (F : Flags) (h : (pass G n T F).modified = 0) :
    (pass G n T F).tab = T ∧
    ∀ idx, idx < G.nPos → flag F (idx / 64) = true → rd T idx = 64 - (n : Int) → ∀ x ∈ G.unmoves idx, -1 ≤ rd T x := by
  rw [pass_eq hG.h64] at h ⊢
  obtain ⟨e, hl⟩ := vfold_noop n _ ⟨T, Array.replicate (G.nPos / 64) false, 0⟩ h
  rw [e]
  refine ⟨rfl, fun idx hi hf hv x hx => ?_⟩
  exact hl idx (by simp only [List.mem_filter, List.mem_range'_1]; exact ⟨⟨by omega, by omega⟩, hf⟩) hv x hx

/-- after a scan that modified nothing, the MATED_IN_(n-1) entries are closed too -/
theorem close_inv (hG : OK G) (n : Nat) (hn1 : 1 ≤ n) (hn : n ≤ 63) (T : Tab) (F : Flags)
    (hI : Inv G T (n - 1) (n - 1))
    (hfl : ∀ i, i < G.nPos → rd T i = 64 - (n : Int) → flag F (i / 64) = true)
    (h : (pass G n T F).modified = 0) : Inv G T (n - 1) n := by
  obtain ⟨_, hno⟩ := pass_noop hG n T F h
  refine ⟨hI.size, hI.inval, hI.take, hI.shape, hI.win, hI.rem, hI.loss, hI.loss0, hI.draw, ?_⟩
  intro j m hj hm e i hi hji
  by_cases hm' : m < n - 1
  · exact hI.done j m hj hm' e i hi hji
  · have e' : rd T j = 64 - (n : Int) := by omega
    have hiu : i ∈ G.unmoves j := (hG.conv i j hi hj).2 ((mem_lm hj).1 hji)
    have hc := hno j hj.1 (hfl j hj.1 e') e' i hiu
    rcases hI.shape i hi with ⟨k, hk1, hk, e2⟩ | ⟨k, hk, e2⟩ | e2 | ⟨c, hc', e2⟩
    · omega
    · by_cases hk0 : k = 0
      · subst hk0
        have := (hI.loss0 i hi (by omega)).1
        rw [this] at hji; cases hji
      · have := (hI.loss i k hi (by omega) (by omega) e2).1 j hji
        omega
    · have := (hI.draw i hi e2).1
      rw [this] at hji; cases hji
    · omega

theorem loop_passes_ge : ∀ (fuel n : Nat) (T : Tab) (F : Flags), (loop G fuel n T F).finished = true →
    n ≤ (loop G fuel n T F).passes
  | 0, _, _, _, h => by simp [loop] at h
  | fuel + 1, n, T, F, h => by
    unfold loop at h ⊢
    by_cases hm : (pass G n T F).modified = 0
    · simp only [hm, if_true]; exact Nat.le_refl _
    · simp only [hm, if_false] at h ⊢
      have := loop_passes_ge fuel (n + 1) _ _ h
      omega

theorem loop_spec (hG : OK G) : ∀ (fuel n : Nat) (T : Tab) (F : Flags), 1 ≤ n → Inv G T (n - 1) (n - 1) →
    (∀ i, i < G.nPos → rd T i = 64 - (n : Int) → flag F (i / 64) = true) →
    (loop G fuel n T F).finished = true → (loop G fuel n T F).passes ≤ 63 →
    ∃ T0 a, Inv G T0 a (a + 1) ∧ a ≤ 62 ∧ (loop G fuel n T F).tab = finalize T0
  | 0, _, _, _, _, _, _, h, _ => by simp [loop] at h
  | fuel + 1, n, T, F, hn1, hI, hfl, hfin, hp => by
    unfold loop at hfin hp ⊢
    by_cases hm : (pass G n T F).modified = 0
    · simp only [hm, if_true] at hp ⊢
      have hc := close_inv hG n hn1 hp T F hI hfl hm
      refine ⟨T, n - 1, ?_, by omega, by rw [(pass_noop hG n T F hm).1]⟩
      have : n - 1 + 1 = n := by omega
      rw [this]; exact hc
    · simp only [hm, if_false] at hfin hp ⊢
      have hge := loop_passes_ge fuel (n + 1) _ _ hfin
      obtain ⟨p1, _, p3⟩ := pass_inv hG n hn1 (by omega) T F hI hfl
      exact loop_spec hG fuel (n + 1) _ _ (by omega) (by simpa using p1)
        (fun i hi e => p3 i hi (by omega)) hfin hp


/-! ### phases 1 and 2 -/

theorem phase1_aux (G : IG) : ∀ k, k ≤ G.nPos →
    ((List.range k).foldl (fun T idx => T.setIfInBounds idx (classify G idx)) (Array.replicate G.nPos (-2))).size = G.nPos ∧
    ∀ i, rd ((List.range k).foldl (fun T idx => T.setIfInBounds idx (classify G idx)) (Array.replicate G.nPos (-2))) i =
      if i < k then classify G i else if i < G.nPos then -2 else -1
  | 0, _ => by
    simp only [List.range_zero, List.foldl_nil, Array.size_replicate, true_and]
    intro i; rw [rd_replicate]; simp
  | k + 1, hk => by
    obtain ⟨h1, h2⟩ := phase1_aux G k (by omega)
    rw [List.range_succ, List.foldl_append]
    simp only [List.foldl_cons, List.foldl_nil]
    refine ⟨by rw [Array.size_setIfInBounds, h1], fun i => ?_⟩
    rw [rd_set, h2 i, h1]
    by_cases hik : k = i
    · subst hik
      have : k < G.nPos := by omega
      simp [this]
    · have : ¬ (k = i ∧ k < G.nPos) := fun h => hik h.1
      rw [if_neg this]
      by_cases h3 : i < k
      · have : i < k + 1 := by omega
        simp [h3, this]
      · have : ¬ i < k + 1 := by omega
        simp [h3, this]

theorem phase1_spec (G : IG) : (phase1 G).size = G.nPos ∧ ∀ i, i < G.nPos → rd (phase1 G) i = classify G i := by
  obtain ⟨h1, h2⟩ := phase1_aux G G.nPos (Nat.le_refl _)
  refine ⟨h1, fun i hi => ?_⟩
  unfold phase1
  rw [h2 i, if_pos hi]

/-- the value phase 2 gives to index `i`, computed from the table phase 1 left -/
def cell2 (G : IG) (T1 : Tab) (i : Nat) : Int :=
  if rd T1 i != -3 then rd T1 i
  else if nLegal G T1 i > 0 then -3 - (nLegal G T1 i : Int)
  else if rd T1 (G.swap i) == 64 then 63 else 0

theorem cell2_64 (G : IG) (T1 : Tab) (j : Nat) : cell2 G T1 j = 64 ↔ rd T1 j = 64 := by
  unfold cell2
  by_cases h : rd T1 j = -3
  · simp only [h, bne_self_eq_false, Bool.false_eq_true, if_false]
    split
    · omega
    · split <;> omega
  · have : (rd T1 j != -3) = true := by simpa using h
    simp only [this, if_true]

theorem phase2_aux (G : IG) (hG : G.nPos % 64 = 0) (T1 : Tab) (h1 : T1.size = G.nPos) : ∀ k, k ≤ G.nPos →
    ((List.range k).foldl (step2 G) (T1, Array.replicate (G.nPos / 64) false)).1.size = G.nPos ∧
    ((List.range k).foldl (step2 G) (T1, Array.replicate (G.nPos / 64) false)).2.size = G.nPos / 64 ∧
    (∀ i, rd ((List.range k).foldl (step2 G) (T1, Array.replicate (G.nPos / 64) false)).1 i =
      if i < k then cell2 G T1 i else rd T1 i) ∧
    (∀ i, i < k → rd T1 i = -3 → cell2 G T1 i = 63 →
      flag ((List.range k).foldl (step2 G) (T1, Array.replicate (G.nPos / 64) false)).2 (i / 64) = true)
  | 0, _ => by
    simp only [List.range_zero, List.foldl_nil, h1, Array.size_replicate, true_and]
    exact ⟨fun i => by simp, fun i hi => by omega⟩
  | k + 1, hk => by
    obtain ⟨p1, p2, p3, p4⟩ := phase2_aux G hG T1 h1 k (by omega)
    rw [List.range_succ, List.foldl_append]
    simp only [List.foldl_cons, List.foldl_nil]
    generalize (List.foldl (step2 G) (T1, Array.replicate (G.nPos / 64) false) (List.range k)) = r at *
    have hk0 : rd r.1 k = rd T1 k := by rw [p3 k]; simp
    have h64 : ∀ j, (rd r.1 j = 64) ↔ (rd T1 j = 64) := by
      intro j; rw [p3 j]
      by_cases hj : j < k
      · rw [if_pos hj]; exact cell2_64 G T1 j
      · rw [if_neg hj]
    have hbne : ∀ j, (rd r.1 j != 64) = (rd T1 j != 64) := by
      intro j
      by_cases h : rd T1 j = 64
      · rw [(h64 j).2 h, h]
      · have h' : ¬ rd r.1 j = 64 := fun e => h ((h64 j).1 e)
        have a1 : (rd r.1 j != 64) = true := bne_iff_ne.2 h'
        have a2 : (rd T1 j != 64) = true := bne_iff_ne.2 h
        rw [a1, a2]
    have hnl : nLegal G r.1 k = nLegal G T1 k := by
      unfold nLegal
      rw [List.filter_congr (fun j _ => hbne j)]
    have hsw : (rd r.1 (G.swap k) == 64) = (rd T1 (G.swap k) == 64) := by
      have := hbne (G.swap k)
      simp only [bne] at this
      exact Bool.not_inj this
    have hks : k < r.1.size := by omega
    have hkf : k / 64 < r.2.size := by omega
    unfold step2
    by_cases hu : rd T1 k = -3
    · have hc : (rd r.1 k != -3) = false := by rw [hk0, hu]; rfl
      simp only [hc, Bool.false_eq_true, if_false, hnl, hsw]
      have hcell : cell2 G T1 k = if nLegal G T1 k > 0 then -3 - (nLegal G T1 k : Int)
          else if rd T1 (G.swap k) == 64 then 63 else 0 := by
        unfold cell2; simp [hu]
      by_cases hn : nLegal G T1 k > 0
      · simp only [hn, if_true] at hcell ⊢
        refine ⟨by rw [Array.size_setIfInBounds, p1], p2, fun i => ?_, fun i hi hi3 hi63 => ?_⟩
        · rw [rd_set]
          by_cases hik : k = i
          · subst hik; simp [hks, hcell]
          · have : ¬ (k = i ∧ k < r.1.size) := fun h => hik h.1
            rw [if_neg this, p3 i]
            by_cases h3 : i < k
            · have : i < k + 1 := by omega
              simp [h3, this]
            · have : ¬ i < k + 1 := by omega
              simp [h3, this]
        · by_cases hik : i = k
          · subst hik; omega
          · exact p4 i (by omega) hi3 hi63
      · simp only [hn, if_false] at hcell ⊢
        by_cases hs : (rd T1 (G.swap k) == 64) = true
        · simp only [hs, if_true] at hcell ⊢
          refine ⟨by rw [Array.size_setIfInBounds, p1], by rw [Array.size_setIfInBounds, p2], fun i => ?_, fun i hi hi3 hi63 => ?_⟩
          · rw [rd_set]
            by_cases hik : k = i
            · subst hik; simp [hks, hcell]
            · have : ¬ (k = i ∧ k < r.1.size) := fun h => hik h.1
              rw [if_neg this, p3 i]
              by_cases h3 : i < k
              · have : i < k + 1 := by omega
                simp [h3, this]
              · have : ¬ i < k + 1 := by omega
                simp [h3, this]
          · rw [flag_set]
            by_cases hik : i = k
            · subst hik; simp [hkf]
            · have := p4 i (by omega) hi3 hi63
              split
              · rfl
              · exact this
        · simp only [hs, Bool.false_eq_true, if_false] at hcell ⊢
          refine ⟨by rw [Array.size_setIfInBounds, p1], p2, fun i => ?_, fun i hi hi3 hi63 => ?_⟩
          · rw [rd_set]
            by_cases hik : k = i
            · subst hik; simp [hks, hcell]
            · have : ¬ (k = i ∧ k < r.1.size) := fun h => hik h.1
              rw [if_neg this, p3 i]
              by_cases h3 : i < k
              · have : i < k + 1 := by omega
                simp [h3, this]
              · have : ¬ i < k + 1 := by omega
                simp [h3, this]
          · by_cases hik : i = k
            · subst hik; omega
            · exact p4 i (by omega) hi3 hi63
    · have hc : (rd r.1 k != -3) = true := by rw [hk0]; simpa using hu
      simp only [hc, if_true]
      refine ⟨p1, p2, fun i => ?_, fun i hi hi3 hi63 => ?_⟩
      · rw [p3 i]
        by_cases hik : i = k
        · subst hik
          have : cell2 G T1 i = rd T1 i := by
            unfold cell2
            have : (rd T1 i != -3) = true := by simpa using hu
            simp [this]
          simp [this]
        · by_cases h3 : i < k
          · have : i < k + 1 := by omega
            simp [h3, this]
          · have : ¬ i < k + 1 := by omega
            simp [h3, this]
      · by_cases hik : i = k
        · subst hik; exact absurd hi3 hu
        · exact p4 i (by omega) hi3 hi63


theorem phase2_inv (hG : OK G) :
    Inv G (phase2 G (phase1 G)).1 0 0 ∧
    (∀ i, i < G.nPos → rd (phase2 G (phase1 G)).1 i = 63 → flag (phase2 G (phase1 G)).2 (i / 64) = true) := by
  obtain ⟨s1, s2⟩ := phase1_spec G
  obtain ⟨p1, p2, p3, p4⟩ := phase2_aux G hG.h64 (phase1 G) s1 G.nPos (Nat.le_refl _)
  unfold phase2
  generalize (List.foldl (step2 G) (phase1 G, Array.replicate (G.nPos / 64) false) (List.range G.nPos)) = r at *
  -- the cells
  have hc : ∀ i, i < G.nPos → rd r.1 i = cell2 G (phase1 G) i := fun i hi => by rw [p3 i, if_pos hi]
  have hinv : ∀ i, i < G.nPos → G.valid i = false → rd r.1 i = -1 := by
    intro i hi hv
    rw [hc i hi]; unfold cell2
    have : rd (phase1 G) i = -1 := by rw [s2 i hi]; simp [classify, hv]
    rw [this]; rfl
  have htake : ∀ i, i < G.nPos → G.valid i = true → G.takeK i = true → rd r.1 i = 64 := by
    intro i hi hv ht
    rw [hc i hi]; unfold cell2
    have : rd (phase1 G) i = 64 := by rw [s2 i hi]; simp [classify, hv, ht]
    rw [this]; rfl
  have hnl : ∀ i, legalI G i → nLegal G (phase1 G) i = (lm G i).length := by
    intro i hi
    unfold nLegal lm
    congr 1
    apply List.filter_congr
    intro j hj
    have hj' := (mem_dedupAdj j _).1 hj
    have hjn := hG.moves_lt i j hi hj'
    have hjv := hG.moves_valid i j hi hj'
    rw [s2 j hjn]
    cases ht : G.takeK j <;> simp [classify, hjv, ht]
  have hsw : ∀ i, legalI G i → (rd (phase1 G) (G.swap i) == 64) = inCheckI G i := by
    intro i hi
    rw [s2 _ (hG.swap_lt i hi)]
    unfold inCheckI classify
    cases hv : G.valid (G.swap i) <;> cases ht : G.takeK (G.swap i) <;> simp
  have hleg : ∀ i, legalI G i → rd r.1 i = if (lm G i).length > 0 then -3 - ((lm G i).length : Int)
      else if inCheckI G i then 63 else 0 := by
    intro i hi
    rw [hc i hi.1]; unfold cell2
    have : rd (phase1 G) i = -3 := by rw [s2 i hi.1]; simp [classify, hi.2.1, hi.2.2]
    rw [this, hnl i hi, hsw i hi]
    simp
  have hle : ∀ i, legalI G i → rd r.1 i ≤ 63 := by
    intro i hi
    rw [hleg i hi]
    split
    · omega
    · split <;> omega
  have hcnt : ∀ i, legalI G i → cnt G r.1 i = (lm G i).length := by
    intro i hi
    unfold cnt
    congr 1
    apply List.filter_eq_self.2
    intro j hj
    have := hle j (lm_legal hG hi hj)
    simp only [decide_eq_true_eq]; omega
  refine ⟨⟨p1, hinv, htake, ?_, ?_, ?_, ?_, ?_, ?_, ?_⟩, ?_⟩
  · intro i hi
    have := hleg i hi
    by_cases hl : (lm G i).length > 0
    · rw [if_pos hl] at this
      right; right; right; exact ⟨(lm G i).length, hl, this⟩
    · rw [if_neg hl] at this
      cases hch : inCheckI G i
      · rw [hch] at this; right; right; left; simpa using this
      · rw [hch] at this; right; left; exact ⟨0, Nat.le_refl _, by simpa using this⟩
  · intro i k hi hk e
    have := hle i hi; omega
  · intro i c hi hc' e
    rw [hcnt i hi]
    have := hleg i hi
    by_cases hl : (lm G i).length > 0
    · rw [if_pos hl] at this; omega
    · rw [if_neg hl] at this
      split at this <;> omega
  · intro i k hi hk1 hk62 e
    exfalso
    have := hleg i hi
    by_cases hl : (lm G i).length > 0
    · rw [if_pos hl] at this; omega
    · rw [if_neg hl] at this
      split at this <;> omega
  · intro i hi e
    have := hleg i hi
    by_cases hl : (lm G i).length > 0
    · rw [if_pos hl] at this; omega
    · rw [if_neg hl] at this
      refine ⟨List.eq_nil_of_length_eq_zero (by omega), ?_⟩
      cases hch : inCheckI G i
      · rw [hch] at this; simp at this; omega
      · rfl
  · intro i hi e
    have := hleg i hi
    by_cases hl : (lm G i).length > 0
    · rw [if_pos hl] at this; omega
    · rw [if_neg hl] at this
      refine ⟨List.eq_nil_of_length_eq_zero (by omega), ?_⟩
      cases hch : inCheckI G i
      · rfl
      · rw [hch] at this; simp at this; omega
  · intro j m hj hm; omega
  · intro i hi e
    by_cases hl : legalI G i
    · apply p4 i hi
      · rw [s2 i hi]; simp [classify, hl.2.1, hl.2.2]
      · rw [← hc i hi]; exact e
    · exfalso
      by_cases hv : G.valid i = true
      · by_cases ht : G.takeK i = true
        · have := htake i hi hv ht; omega
        · exact hl ⟨hi, hv, by simpa using ht⟩
      · have := hinv i hi (by simpa using hv); omega


/-! ### the final table satisfies the local rule -/

/-- the game value a final cell denotes (`draw` for cells that are not game values) -/
def valT (T : Tab) (j : Nat) : Val := (decodeS (rd T j)).getD .draw

theorem decodeS_win (k : Nat) (hk : 1 ≤ k) : decodeS (64 + (k : Int)) = some (.win k) := by
  unfold decodeS
  have : 64 + (k : Int) > 64 := by omega
  rw [if_pos this]
  have : (64 + (k : Int) - 64).toNat = k := by omega
  rw [this]

theorem decodeS_loss (k : Nat) (hk : k ≤ 62) : decodeS (63 - (k : Int)) = some (.loss k) := by
  unfold decodeS
  have h1 : ¬ (63 - (k : Int) > 64) := by omega
  have h2 : 1 ≤ 63 - (k : Int) ∧ 63 - (k : Int) ≤ 63 := by omega
  rw [if_neg h1, if_pos h2]
  have : (63 - (63 - (k : Int))).toNat = k := by omega
  rw [this]

theorem decodeS_zero : decodeS 0 = some .draw := by decide

theorem allWinMax_none_of {P : Type} (T : P → Val) : ∀ (l : List P), (∃ q ∈ l, winVal (T q) = none) → allWinMax T l = none
  | [], h => by obtain ⟨q, hq, _⟩ := h; cases hq
  | a :: l, h => by
    unfold allWinMax
    obtain ⟨q, hq, hn⟩ := h
    rcases List.mem_cons.1 hq with e | hq'
    · subst e; rw [hn]
    · rw [allWinMax_none_of T l ⟨q, hq', hn⟩]
      cases winVal (T a) <;> rfl

theorem exp_win {P : Type} (Gm : Game P) (V : P → Val) (p : P) (m : Nat) (h : minLoss V (Gm.moves p) = some m) :
    expected Gm V p = .win (m + 1) := by
  unfold expected; rw [h]

theorem exp_nomoves {P : Type} (Gm : Game P) (V : P → Val) (p : P) (h : Gm.moves p = []) :
    expected Gm V p = if Gm.inCheck p then .loss 0 else .draw := by
  unfold expected; rw [h]; simp [minLoss]

theorem exp_loss {P : Type} (Gm : Game P) (V : P → Val) (p : P) (m : Nat) (h1 : minLoss V (Gm.moves p) = none)
    (h2 : Gm.moves p ≠ []) (h3 : allWinMax V (Gm.moves p) = some (m + 1)) : expected Gm V p = .loss (m + 1) := by
  unfold expected; rw [h1, h3]
  have : (Gm.moves p).isEmpty = false := by simpa using h2
  simp [this]

theorem exp_draw {P : Type} (Gm : Game P) (V : P → Val) (p : P) (h1 : minLoss V (Gm.moves p) = none)
    (h2 : Gm.moves p ≠ []) (h3 : allWinMax V (Gm.moves p) = none) : expected Gm V p = .draw := by
  unfold expected; rw [h1, h3]
  have : (Gm.moves p).isEmpty = false := by simpa using h2
  simp [this]

theorem rd_finalize (T : Tab) (i : Nat) (hi : i < T.size) : rd (finalize T) i = if rd T i < -3 then 0 else rd T i := by
  unfold finalize; rw [rd_map T _ i hi]

/-- **the closed invariant gives the local rule**: after the last scan (every MATED_IN entry closed) and phase 4 -/
theorem final_spec (hG : OK G) (T : Tab) (a : Nat) (ha : a ≤ 62) (hI : Inv G T a (a + 1)) :
    (finalize T).size = G.nPos ∧
    ∀ i, i < G.nPos →
      (G.valid i = false → rd (finalize T) i = -1) ∧
      (G.valid i = true → G.takeK i = true → rd (finalize T) i = 64) ∧
      (legalI G i → ∃ v, decodeS (rd (finalize T) i) = some v ∧ v = expected (gameI G) (valT (finalize T)) i) ∧
      (-1 ≤ rd (finalize T) i ∧ rd (finalize T) i ≤ 126) := by
  have hsz : (finalize T).size = G.nPos := by unfold finalize; rw [Array.size_map, hI.size]
  have hrf : ∀ i, i < G.nPos → rd (finalize T) i = if rd T i < -3 then 0 else rd T i :=
    fun i hi => rd_finalize T i (by rw [hI.size]; exact hi)
  -- values of legal cells
  have vwin : ∀ j (k : Nat), legalI G j → 1 ≤ k → rd T j = 64 + (k : Int) → valT (finalize T) j = .win k := by
    intro j k hj hk e
    unfold valT; rw [hrf j hj.1, e]
    have : ¬ (64 + (k : Int) < -3) := by omega
    rw [if_neg this, decodeS_win k hk]; rfl
  have vloss : ∀ j (k : Nat), legalI G j → k ≤ 62 → rd T j = 63 - (k : Int) → valT (finalize T) j = .loss k := by
    intro j k hj hk e
    unfold valT; rw [hrf j hj.1, e]
    have : ¬ (63 - (k : Int) < -3) := by omega
    rw [if_neg this, decodeS_loss k hk]; rfl
  have vdraw : ∀ j, legalI G j → (rd T j = 0 ∨ rd T j < -3) → valT (finalize T) j = .draw := by
    intro j hj e
    unfold valT; rw [hrf j hj.1]
    rcases e with e | e
    · rw [e]; simp [decodeS_zero]
    · rw [if_pos e]; simp [decodeS_zero]
  -- inverse readings
  have of_loss : ∀ j (m : Nat), legalI G j → valT (finalize T) j = .loss m → rd T j = 63 - (m : Int) ∧ m ≤ a := by
    intro j m hj e
    rcases hI.shape j hj with ⟨k, hk1, hk, e2⟩ | ⟨k, hk, e2⟩ | e2 | ⟨c, hc, e2⟩
    · rw [vwin j k hj hk1 e2] at e; cases e
    · rw [vloss j k hj (by omega) e2] at e; injection e with e; subst e; exact ⟨e2, hk⟩
    · rw [vdraw j hj (Or.inl e2)] at e; cases e
    · rw [vdraw j hj (Or.inr (by omega))] at e; cases e
  refine ⟨hsz, fun i hi => ⟨?_, ?_, ?_, ?_⟩⟩
  · intro hv
    rw [hrf i hi, hI.inval i hi hv]; rfl
  · intro hv ht
    rw [hrf i hi, hI.take i hi hv ht]; rfl
  rotate_left
  · rw [hrf i hi]
    by_cases hl : legalI G i
    · rcases hI.shape i hl with ⟨k, hk1, hk, e⟩ | ⟨k, hk, e⟩ | e | ⟨c, hc, e⟩
      · rw [e]; split <;> omega
      · rw [e]; split <;> omega
      · rw [e]; split <;> omega
      · rw [e]; split <;> omega
    · by_cases hv : G.valid i = true
      · by_cases ht : G.takeK i = true
        · rw [hI.take i hi hv ht]; split <;> omega
        · exact absurd ⟨hi, hv, by simpa using ht⟩ hl
      · rw [hI.inval i hi (by simpa using hv)]; split <;> omega
  · intro hl
    have hmoves : (gameI G).moves i = lm G i := rfl
    have hchk : (gameI G).inCheck i = inCheckI G i := rfl
    rcases hI.shape i hl with ⟨k, hk1, hk, e⟩ | ⟨k, hk, e⟩ | e | ⟨c, hc, e⟩
    · -- MATE_IN_k
      refine ⟨.win k, ?_, ?_⟩
      · rw [hrf i hi, e]
        have : ¬ (64 + (k : Int) < -3) := by omega
        rw [if_neg this, decodeS_win k hk1]
      · obtain ⟨j, hj, hje⟩ := hI.win i k hl hk1 e
        have hjl := lm_legal hG hl hj
        have hm : minLoss (valT (finalize T)) ((gameI G).moves i) = some (k - 1) := by
          rw [minLoss_some, hmoves]
          refine ⟨⟨j, hj, vloss j (k - 1) hjl (by omega) (by omega)⟩, ?_⟩
          intro q hq m' hqe
          have hql := lm_legal hG hl hq
          obtain ⟨e3, hm'⟩ := of_loss q m' hql hqe
          have := hI.done q m' hql (by omega) e3 i hl hq
          omega
        rw [exp_win _ _ _ _ hm]
        congr 1; omega
    · by_cases hk0 : k = 0
      · -- MATED_IN_0
        subst hk0
        obtain ⟨h1, h2⟩ := hI.loss0 i hl (by omega)
        refine ⟨.loss 0, ?_, ?_⟩
        · rw [hrf i hi, e]; decide
        · rw [exp_nomoves _ _ _ (by rw [hmoves]; exact h1), hchk, h2]; rfl
      · -- MATED_IN_k
        obtain ⟨l1, j, hj, hje⟩ := hI.loss i k hl (by omega) (by omega) e
        refine ⟨.loss k, ?_, ?_⟩
        · rw [hrf i hi, e]
          have : ¬ (63 - (k : Int) < -3) := by omega
          rw [if_neg this, decodeS_loss k (by omega)]
        · have hwin : ∀ q ∈ lm G i, ∃ k', 1 ≤ k' ∧ k' ≤ k ∧ valT (finalize T) q = .win k' := by
            intro q hq
            have hql := lm_legal hG hl hq
            have h2 := l1 q hq
            rcases hI.shape q hql with ⟨k', hk1', _, e2⟩ | ⟨k', _, e2⟩ | e2 | ⟨c, hc, e2⟩
            · exact ⟨k', hk1', by omega, vwin q k' hql hk1' e2⟩
            · omega
            · omega
            · omega
          have hne : (gameI G).moves i ≠ [] := by
            rw [hmoves]; intro h; rw [h] at hj; cases hj
          have h1 : minLoss (valT (finalize T)) ((gameI G).moves i) = none := by
            rw [minLoss_none, hmoves]
            intro q hq m' hqe
            obtain ⟨k', _, _, e2⟩ := hwin q hq
            rw [e2] at hqe; cases hqe
          have h3 : allWinMax (valT (finalize T)) ((gameI G).moves i) = some (k - 1 + 1) := by
            rw [allWinMax_some, hmoves]
            refine ⟨fun q hq => ?_, Or.inr ⟨j, hj, ?_⟩⟩
            · obtain ⟨k', _, hk', e2⟩ := hwin q hq
              exact ⟨k', by omega, e2⟩
            · have : k - 1 + 1 = k := by omega
              rw [this]
              exact vwin j k (lm_legal hG hl hj) (by omega) hje
          rw [exp_loss _ _ _ (k - 1) h1 hne h3]
          congr 1; omega
    · -- stalemate
      obtain ⟨h1, h2⟩ := hI.draw i hl e
      refine ⟨.draw, ?_, ?_⟩
      · rw [hrf i hi, e]; decide
      · rw [exp_nomoves _ _ _ (by rw [hmoves]; exact h1), hchk, h2]; rfl
    · -- REMAINING_c: a draw
      refine ⟨.draw, ?_, ?_⟩
      · rw [hrf i hi, if_pos (by omega)]; decide
      · have hcn := hI.rem i c hl hc e
        have h1 : minLoss (valT (finalize T)) ((gameI G).moves i) = none := by
          rw [minLoss_none, hmoves]
          intro q hq m' hqe
          have hql := lm_legal hG hl hq
          obtain ⟨e3, hm'⟩ := of_loss q m' hql hqe
          have := hI.done q m' hql (by omega) e3 i hl hq
          omega
        -- some successor is not a win
        have hex : ∃ q ∈ lm G i, rd T q ≤ 64 := by
          unfold cnt at hcn
          have hpos : 0 < ((lm G i).filter fun j => decide (rd T j ≤ 64)).length := by omega
          obtain ⟨q, hq⟩ := List.exists_mem_of_length_pos hpos
          have := List.mem_filter.1 hq
          exact ⟨q, this.1, by simpa using this.2⟩
        obtain ⟨q, hq, hqle⟩ := hex
        have hql := lm_legal hG hl hq
        have hne : (gameI G).moves i ≠ [] := by
          rw [hmoves]; intro h; rw [h] at hq; cases hq
        have h3 : allWinMax (valT (finalize T)) ((gameI G).moves i) = none := by
          apply allWinMax_none_of
          rw [hmoves]
          refine ⟨q, hq, ?_⟩
          rcases hI.shape q hql with ⟨k', hk1', _, e2⟩ | ⟨k', hk', e2⟩ | e2 | ⟨c', hc', e2⟩
          · omega
          · rw [vloss q k' hql (by omega) e2]; rfl
          · rw [vdraw q hql (Or.inl e2)]; rfl
          · rw [vdraw q hql (Or.inr (by omega))]; rfl
        rw [exp_draw _ _ _ h1 hne h3]


/-! ### termination: every scan that modifies something computes at least one more entry -/

/-- number of entries that are not computed -/
def mu (T : Tab) : Nat := T.countP fun s => decide (s < -1)

theorem rd_eq_getElem (T : Tab) (i : Nat) (h : i < T.size) : rd T i = T[i] := by
  unfold rd; simp [Array.getD_eq_getD_getElem?, h]

theorem mu_set_le (T : Tab) (i : Nat) (v : Int) (h : v < -1 → rd T i < -1) : mu (T.setIfInBounds i v) ≤ mu T := by
  rw [Array.setIfInBounds_def]
  by_cases hi : i < T.size
  · rw [dif_pos hi]
    unfold mu
    rw [Array.countP_set hi]
    have hb := Array.boole_getElem_le_countP (p := fun s => decide (s < -1)) (xs := T) (i := i) hi
    rw [rd_eq_getElem T i hi] at h
    by_cases hv : v < -1
    · have := h hv
      simp only [hv, this, decide_true, if_true] at hb ⊢
      omega
    · simp only [hv, decide_false, Bool.false_eq_true, if_false]
      omega
  · rw [dif_neg hi]; exact Nat.le_refl _

theorem mu_set_lt (T : Tab) (i : Nat) (v : Int) (h1 : rd T i < -1) (h2 : ¬ v < -1) :
    mu (T.setIfInBounds i v) + 1 ≤ mu T := by
  have hi : i < T.size := rd_lt_size T i (by omega)
  rw [Array.setIfInBounds_def, dif_pos hi]
  unfold mu
  rw [Array.countP_set hi]
  have hb := Array.boole_getElem_le_countP (p := fun s => decide (s < -1)) (xs := T) (i := i) hi
  rw [rd_eq_getElem T i hi] at h1
  simp only [h1, h2, decide_true, decide_false, if_true, Bool.false_eq_true, if_false] at hb ⊢
  omega

theorem mu_decStep (n : Nat) (st : Tab × Flags) (x : Nat) : mu (decStep n st x).1 ≤ mu st.1 := by
  unfold decStep
  by_cases hv : rd st.1 x < -3
  · simp only [hv, if_true]
    split
    · exact mu_set_le _ _ _ (fun _ => by omega)
    · exact mu_set_le _ _ _ (fun _ => by omega)
  · simp only [hv, if_false]; exact Nat.le_refl _

theorem mu_decFold (n : Nat) : ∀ (l : List Nat) (st : Tab × Flags), mu (l.foldl (decStep n) st).1 ≤ mu st.1
  | [], _ => Nat.le_refl _
  | x :: l, st => by
    simp only [List.foldl_cons]
    exact Nat.le_trans (mu_decFold n l _) (mu_decStep n st x)

theorem mu_midStep (n : Nat) (st : PSt) (x : Nat) :
    mu (midStep G n st x).tab + (midStep G n st x).modified ≤ mu st.tab + st.modified := by
  unfold midStep
  by_cases hlt : rd st.tab x < -1
  · simp only [hlt, if_true]
    unfold labelWin
    have h1 := mu_decFold n (dedupAdj (G.unmoves x)) (st.tab.setIfInBounds x (64 + (n : Int)), st.new)
    have h2 := mu_set_lt st.tab x (64 + (n : Int)) hlt (by omega)
    simp only at h1
    omega
  · simp only [hlt, if_false]; exact Nat.le_refl _

theorem mu_midFold (n : Nat) : ∀ (l : List Nat) (st : PSt),
    mu (l.foldl (midStep G n) st).tab + (l.foldl (midStep G n) st).modified ≤ mu st.tab + st.modified
  | [], _ => Nat.le_refl _
  | x :: l, st => by
    simp only [List.foldl_cons]
    exact Nat.le_trans (mu_midFold n l _) (mu_midStep n st x)

theorem mu_visit (n : Nat) (st : PSt) (idx : Nat) :
    mu (visit G n st idx).tab + (visit G n st idx).modified ≤ mu st.tab + st.modified := by
  unfold visit; split
  · exact mu_midFold n _ st
  · exact Nat.le_refl _

theorem mu_vfold (n : Nat) : ∀ (L : List Nat) (st : PSt),
    mu (L.foldl (visit G n) st).tab + (L.foldl (visit G n) st).modified ≤ mu st.tab + st.modified
  | [], _ => Nat.le_refl _
  | x :: l, st => by
    simp only [List.foldl_cons]
    exact Nat.le_trans (mu_vfold n l _) (mu_visit n st x)

theorem mu_pass (h64 : G.nPos % 64 = 0) (n : Nat) (T : Tab) (F : Flags) :
    mu (pass G n T F).tab + (pass G n T F).modified ≤ mu T := by
  rw [pass_eq h64]
  exact mu_vfold n _ _

theorem loop_finished (h64 : G.nPos % 64 = 0) : ∀ (fuel n : Nat) (T : Tab) (F : Flags), mu T < fuel →
    (loop G fuel n T F).finished = true
  | 0, _, _, _, h => by omega
  | fuel + 1, n, T, F, h => by
    unfold loop
    by_cases hm : (pass G n T F).modified = 0
    · simp only [hm, if_true]
    · simp only [hm, if_false]
      have := mu_pass h64 n T F
      exact loop_finished h64 fuel (n + 1) _ _ (by omega)

/-- **termination**: the loop `for (n = 1; ; n++)` is always left through `if (modified == 0) break;` -/
theorem generate_finished (h64 : G.nPos % 64 = 0) : (generate G).finished = true := by
  unfold generate
  apply loop_finished h64
  have hsz : (phase2 G (phase1 G)).1.size = G.nPos :=
    (phase2_aux G h64 (phase1 G) (phase1_spec G).1 G.nPos (Nat.le_refl _)).1
  have : mu (phase2 G (phase1 G)).1 ≤ (phase2 G (phase1 G)).1.size := Array.countP_le_size
  omega

/-- **the generated table satisfies the certificate's local rule** -/
theorem generate_spec (hG : OK G) (hp : (generate G).passes ≤ 63) :
    (generate G).tab.size = G.nPos ∧
    ∀ i, i < G.nPos →
      (G.valid i = false → rd (generate G).tab i = -1) ∧
      (G.valid i = true → G.takeK i = true → rd (generate G).tab i = 64) ∧
      (legalI G i → ∃ v, decodeS (rd (generate G).tab i) = some v ∧
        v = expected (gameI G) (valT (generate G).tab) i) ∧
      (-1 ≤ rd (generate G).tab i ∧ rd (generate G).tab i ≤ 126) := by
  have hfin := generate_finished hG.h64
  obtain ⟨h2, h2f⟩ := phase2_inv hG
  unfold generate at hfin hp ⊢
  obtain ⟨T0, a, hI, ha, e⟩ := loop_spec hG (G.nPos + 1) 1 _ _ (Nat.le_refl _) h2
    (fun i hi e => h2f i hi (by simpa using e)) hfin hp
  rw [e]
  exact final_spec hG T0 a ha hI

theorem legal_closed (hG : OK G) : ∀ p, legalI G p → ∀ q ∈ (gameI G).moves p, legalI G q :=
  fun _ hp _ hq => lm_legal hG hp hq

/-- **retrograde_exact (abstract form)**: at every legal index the generated cell decodes to the exact distance to
    mate of the index game -/
theorem generate_exact (hG : OK G) (hp : (generate G).passes ≤ 63) (i : Nat) (hi : legalI G i) :
    decodeS (rd (generate G).tab i) = some (DTM (gameI G) i) := by
  obtain ⟨_, hs⟩ := generate_spec hG hp
  have hfix : ∀ p, legalI G p → valT (generate G).tab p = expected (gameI G) (valT (generate G).tab) p := by
    intro p hpl
    obtain ⟨v, hv, he⟩ := (hs p hpl.1).2.2.1 hpl
    rw [← he]; unfold valT; rw [hv]; rfl
  have hd := fixedpoint_is_dtm (gameI G) (legalI G) (legal_closed hG) (valT (generate G).tab) hfix i hi
  obtain ⟨v, hv, he⟩ := (hs i hi.1).2.2.1 hi
  rw [hv, ← hd]; unfold valT; rw [hv]; rfl


end TB.Retro
