/-! Prototype: a table that is a fixed point of the local "expected value" rule is the exact DTM table. -/
namespace Cert

inductive Val where
  | win  : Nat → Val    -- side to move mates in n moves (n ≥ 1)
  | loss : Nat → Val    -- side to move is mated in n moves (n ≥ 0; 0 = checkmated)
  | draw : Val
deriving DecidableEq, Repr

structure Game (P : Type) where
  moves : P → List P
  inCheck : P → Bool

variable {P : Type} (G : Game P)

/-- ground truth by bounded recursion: (lossWithin n p, winWithin n p) -/
def within : Nat → P → Bool × Bool
  | 0, p => ((G.moves p).isEmpty && G.inCheck p, false)
  | n+1, p =>
    let w := (G.moves p).any (fun q => (within n q).1)
    -- loss within n+1: checkmated, or has moves and every move lets the opponent win within n+1
    -- (opponent's "win within n+1" needs our "loss within n" after his move: one level down)
    (((G.moves p).isEmpty && G.inCheck p) ||
      (!(G.moves p).isEmpty && (G.moves p).all (fun q => (G.moves q).any (fun r => (within n r).1))), w)

def lossW (n : Nat) (p : P) : Bool := (within G n p).1
def winW (n : Nat) (p : P) : Bool := (within G n p).2

theorem winW_succ (n : Nat) (p : P) : winW G (n+1) p = (G.moves p).any (fun q => lossW G n q) := by
  simp [winW, lossW, within]

theorem lossW_zero (p : P) : lossW G 0 p = ((G.moves p).isEmpty && G.inCheck p) := by
  simp [lossW, within]

theorem lossW_succ (n : Nat) (p : P) :
    lossW G (n+1) p = (((G.moves p).isEmpty && G.inCheck p) ||
      (!(G.moves p).isEmpty && (G.moves p).all (fun q => winW G (n+1) q))) := by
  simp [lossW, winW, within]

end Cert

namespace Cert
variable {P : Type} (G : Game P)

def lossVal : Val → Option Nat | .loss n => some n | _ => none
def winVal : Val → Option Nat | .win n => some n | _ => none

/-- minimum n such that some q in l has T q = loss n -/
def minLoss (T : P → Val) : List P → Option Nat
  | [] => none
  | q :: l => match lossVal (T q), minLoss T l with
    | some a, some b => some (min a b)
    | some a, none => some a
    | none, r => r

/-- if every q in l is labelled win k, the maximum k (0 for the empty list) -/
def allWinMax (T : P → Val) : List P → Option Nat
  | [] => some 0
  | q :: l => match winVal (T q), allWinMax T l with
    | some a, some b => some (max a b)
    | _, _ => none

def expected (T : P → Val) (p : P) : Val :=
  match minLoss T (G.moves p) with
  | some n => .win (n+1)
  | none =>
    if (G.moves p).isEmpty then (if G.inCheck p then .loss 0 else .draw)
    else match allWinMax T (G.moves p) with
      | some m => if m = 0 then .draw else .loss m     -- m = 0 would need a successor labelled `win 0`, never valid
      | none => .draw

theorem minLoss_none (T : P → Val) (l : List P) : minLoss T l = none ↔ ∀ q ∈ l, ∀ n, T q ≠ .loss n := by
  induction l with
  | nil => simp [minLoss]
  | cons q l ih =>
    simp only [minLoss, List.mem_cons, forall_eq_or_imp]
    cases h : T q <;> simp [lossVal, ih]
    · cases h2 : minLoss T l <;> simp

theorem minLoss_some (T : P → Val) (l : List P) (m : Nat) : minLoss T l = some m ↔
    (∃ q ∈ l, T q = .loss m) ∧ (∀ q ∈ l, ∀ n, T q = .loss n → m ≤ n) := by
  induction l generalizing m with
  | nil => simp [minLoss]
  | cons q l ih =>
    simp only [minLoss, List.mem_cons, forall_eq_or_imp, exists_eq_or_imp]
    cases h : T q with
    | loss a =>
      simp only [lossVal]
      cases h2 : minLoss T l with
      | none =>
        have hn := (minLoss_none T l).1 h2
        simp only [Option.some.injEq, Val.loss.injEq]
        constructor
        · rintro rfl
          exact ⟨Or.inl rfl, fun n hn' => by omega, fun q hq n hqn => absurd hqn (hn q hq n)⟩
        · rintro ⟨h3 | ⟨q', hq', hq''⟩, h4, _⟩
          · exact h3
          · exact absurd hq'' (hn q' hq' m)
      | some b =>
        have hb := (ih b).1 h2
        simp only [Option.some.injEq, Val.loss.injEq]
        constructor
        · rintro rfl
          refine ⟨?_, fun n hn' => by omega, fun q' hq' n hqn => ?_⟩
          · by_cases hab : a ≤ b
            · left; omega
            · right; obtain ⟨q', hq', hq''⟩ := hb.1; exact ⟨q', hq', by rw [hq'']; congr 1; omega⟩
          · have := hb.2 q' hq' n hqn; omega
        · rintro ⟨h3, h4, h5⟩
          have h4' := h4 a rfl
          obtain ⟨q', hq', hq''⟩ := hb.1
          have h5' := h5 q' hq' b hq''
          rcases h3 with h3 | ⟨q2, hq2, hq2'⟩
          · omega
          · have := hb.2 q2 hq2 m hq2'; omega
    | win a => simp [lossVal, ih]
    | draw => simp [lossVal, ih]

end Cert

namespace Cert
variable {P : Type} (G : Game P)

theorem allWinMax_isSome (T : P → Val) (l : List P) (m : Nat)
    (h3 : ∀ q ∈ l, ∃ k, k ≤ m ∧ T q = .win k) : ∃ b, allWinMax T l = some b := by
  induction l with
  | nil => exact ⟨0, rfl⟩
  | cons q' l' ih' =>
    obtain ⟨k, _, hk⟩ := h3 q' (List.mem_cons_self ..)
    obtain ⟨b, hb⟩ := ih' (fun q'' hq'' => h3 q'' (List.mem_cons_of_mem _ hq''))
    exact ⟨max k b, by simp [allWinMax, hk, winVal, hb]⟩

theorem allWinMax_some (T : P → Val) (l : List P) (m : Nat) : allWinMax T l = some m ↔
    (∀ q ∈ l, ∃ k, k ≤ m ∧ T q = .win k) ∧ (l = [] ∧ m = 0 ∨ ∃ q ∈ l, T q = .win m) := by
  induction l generalizing m with
  | nil => simp [allWinMax]; omega
  | cons q l ih =>
    simp only [allWinMax, List.mem_cons, forall_eq_or_imp, exists_eq_or_imp]
    cases h : T q with
    | win a =>
      simp only [winVal]
      cases h2 : allWinMax T l with
      | none =>
        simp only [reduceCtorEq, false_iff]
        rintro ⟨⟨_, h3⟩, _⟩
        obtain ⟨b, hb⟩ := allWinMax_isSome T l m h3
        rw [hb] at h2; cases h2
      | some b =>
        have hb := (ih b).1 h2
        simp only [Option.some.injEq, Val.win.injEq, reduceCtorEq, false_and, false_or]
        constructor
        · rintro rfl
          refine ⟨⟨⟨a, by omega, rfl⟩, fun q' hq' => ?_⟩, ?_⟩
          · obtain ⟨k, hk, hk'⟩ := hb.1 q' hq'; exact ⟨k, by omega, hk'⟩
          · by_cases hab : b ≤ a
            · left; omega
            · right
              rcases hb.2 with ⟨rfl, rfl⟩ | ⟨q', hq', hq''⟩
              · omega
              · exact ⟨q', hq', by rw [hq'']; congr 1; omega⟩
        · rintro ⟨⟨⟨k, hk, hk'⟩, h3⟩, h4⟩
          subst hk'
          have hbm : b ≤ m := by
            rcases hb.2 with ⟨_, rfl⟩ | ⟨q', hq', hq''⟩
            · omega
            · obtain ⟨k', hk1, hk2⟩ := h3 q' hq'; rw [hq''] at hk2; injection hk2 with e; omega
          rcases h4 with h4 | ⟨q', hq', hq''⟩
          · omega
          · obtain ⟨k', hk1, hk2⟩ := hb.1 q' hq'; rw [hq''] at hk2; injection hk2 with e; omega
    | loss a => simp [winVal]
    | draw => simp [winVal]

end Cert

namespace Cert
variable {P : Type} (G : Game P)

/-- Main theorem, relative to a move-closed set `S` of positions (for chess: the legal positions):
    a table that satisfies the local rule `T p = expected T p` on `S` agrees on `S` with the
    bounded-recursion ground truth, and never holds the impossible label `win 0` there. -/
theorem fixedpoint_exact_on (S : P → Prop) (hS : ∀ p, S p → ∀ q ∈ G.moves p, S q)
    (T : P → Val) (hT : ∀ p, S p → T p = expected G T p) :
    (∀ p, S p → T p ≠ .win 0) ∧
    ∀ n p, S p → (lossW G n p = true ↔ ∃ k, k ≤ n ∧ T p = .loss k) ∧
           (winW G n p = true ↔ ∃ k, 1 ≤ k ∧ k ≤ n ∧ T p = .win k) := by
  -- helper facts from the fixed point
  have hwin : ∀ p, S p → ∀ m, T p = .win (m+1) ↔ minLoss T (G.moves p) = some m := by
    intro p hp m
    constructor
    · intro h
      rw [hT p hp] at h
      unfold expected at h
      split at h
      · next n hn => injection h with e; rw [hn]; congr 1; omega
      · split at h
        · split at h <;> cases h
        · split at h
          · split at h <;> cases h
          · cases h
    · intro h; rw [hT p hp]; unfold expected; simp [h]
  have hwin0 : ∀ p, S p → T p ≠ .win 0 := by
    intro p hp h
    rw [hT p hp] at h
    unfold expected at h
    split at h
    · injection h with e; omega
    · split at h
      · split at h <;> cases h
      · split at h
        · split at h <;> cases h
        · cases h
  have hloss0 : ∀ p, S p → (T p = .loss 0 ↔ ((G.moves p).isEmpty = true ∧ G.inCheck p = true)) := by
    intro p hp
    constructor
    · intro h
      rw [hT p hp] at h
      unfold expected at h
      split at h
      · cases h
      · split at h
        · next he => split at h
                     · next hc => exact ⟨he, hc⟩
                     · cases h
        · split at h
          · split at h
            · cases h
            · next hm => injection h with e; omega
          · cases h
    · rintro ⟨he, hc⟩
      rw [hT p hp]; unfold expected
      have : G.moves p = [] := by simpa using he
      simp [this, minLoss, hc]
  have hlossS : ∀ p, S p → ∀ m, T p = .loss (m+1) ↔
      (minLoss T (G.moves p) = none ∧ (G.moves p).isEmpty = false ∧ allWinMax T (G.moves p) = some (m+1)) := by
    intro p hp m
    constructor
    · intro h
      rw [hT p hp] at h
      unfold expected at h
      split at h
      · cases h
      · next hn =>
        split at h
        · split at h <;> cases h
        · next he =>
          split at h
          · next mm hmm =>
            split at h
            · cases h
            · injection h with e; subst e; exact ⟨hn, by simpa using he, hmm⟩
          · cases h
    · rintro ⟨h1, h2, h3⟩
      rw [hT p hp]; unfold expected; simp [h1, h2, h3]
  refine ⟨hwin0, ?_⟩
  intro n
  induction n with
  | zero =>
    intro p hp
    refine ⟨?_, ?_⟩
    · rw [lossW_zero]
      simp only [Bool.and_eq_true, Nat.le_zero_eq, exists_eq_left]
      exact (hloss0 p hp).symm
    · simp [winW, within]; intro k h1 h2; omega
  | succ n ih =>
    -- first the win part at n+1 (uses loss part at n), then the loss part at n+1 (uses win part at n+1)
    have hW : ∀ p, S p → (winW G (n+1) p = true ↔ ∃ k, 1 ≤ k ∧ k ≤ n+1 ∧ T p = .win k) := by
      intro p hp
      rw [winW_succ, List.any_eq_true]
      constructor
      · rintro ⟨q, hq, hql⟩
        obtain ⟨k, hk, hk'⟩ := ((ih q (hS p hp q hq)).1).1 hql
        -- some successor labelled loss k ≤ n ⇒ minLoss = some m with m ≤ k
        cases hm : minLoss T (G.moves p) with
        | none => exact absurd hk' ((minLoss_none T _).1 hm q hq k)
        | some m =>
          have := ((minLoss_some T _ m).1 hm).2 q hq k hk'
          exact ⟨m+1, by omega, by omega, (hwin p hp m).2 hm⟩
      · rintro ⟨k, hk1, hk2, hk3⟩
        obtain ⟨m, rfl⟩ : ∃ m, k = m+1 := ⟨k-1, by omega⟩
        have hm := (hwin p hp m).1 hk3
        obtain ⟨q, hq, hq'⟩ := ((minLoss_some T _ m).1 hm).1
        exact ⟨q, hq, ((ih q (hS p hp q hq)).1).2 ⟨m, by omega, hq'⟩⟩
    intro p hp
    refine ⟨?_, hW p hp⟩
    rw [lossW_succ]
    constructor
    · intro h
      simp only [Bool.or_eq_true, Bool.and_eq_true, Bool.not_eq_true', List.all_eq_true] at h
      rcases h with ⟨he, hc⟩ | ⟨hne, hall⟩
      · exact ⟨0, by omega, (hloss0 p hp).2 ⟨he, hc⟩⟩
      · -- every successor labelled win k with 1 ≤ k ≤ n+1
        have hall' : ∀ q ∈ G.moves p, ∃ k, k ≤ n+1 ∧ T q = .win k := by
          intro q hq
          obtain ⟨k, _, hk2, hk3⟩ := (hW q (hS p hp q hq)).1 (hall q hq)
          exact ⟨k, hk2, hk3⟩
        obtain ⟨b, hb⟩ := allWinMax_isSome T _ (n+1) hall'
        have hb' := (allWinMax_some T _ b).1 hb
        have hnone : minLoss T (G.moves p) = none := by
          rw [minLoss_none]; intro q hq k hk
          obtain ⟨k', _, hk'⟩ := hall' q hq; rw [hk] at hk'; cases hk'
        have hne' : G.moves p ≠ [] := by intro e; rw [e] at hne; simp at hne
        rcases hb'.2 with ⟨e, _⟩ | ⟨q, hq, hq'⟩
        · exact absurd e hne'
        · obtain ⟨k', hk1, hk2⟩ := hall' q hq
          rw [hq'] at hk2; injection hk2 with e; subst e
          have hb1 : 1 ≤ b := by
            rcases Nat.eq_zero_or_pos b with h0 | h0
            · subst h0; exact absurd hq' (hwin0 q (hS p hp q hq))
            · exact h0
          obtain ⟨m, rfl⟩ : ∃ m, b = m+1 := ⟨b-1, by omega⟩
          exact ⟨m+1, hk1, (hlossS p hp m).2 ⟨hnone, hne, hb⟩⟩
    · rintro ⟨k, hk, hk'⟩
      simp only [Bool.or_eq_true, Bool.and_eq_true, Bool.not_eq_true', List.all_eq_true]
      rcases Nat.eq_zero_or_pos k with h0 | h0
      · subst h0; left; exact (hloss0 p hp).1 hk'
      · obtain ⟨m, rfl⟩ : ∃ m, k = m+1 := ⟨k-1, by omega⟩
        obtain ⟨h1, h2, h3⟩ := (hlossS p hp m).1 hk'
        right
        refine ⟨h2, fun q hq => ?_⟩
        obtain ⟨k', hk1, hk2⟩ := ((allWinMax_some T _ (m+1)).1 h3).1 q hq
        have : 1 ≤ k' := by
          rcases Nat.eq_zero_or_pos k' with h0 | h0
          · subst h0; exact absurd hk2 (hwin0 q (hS p hp q hq))
          · exact h0
        exact (hW q (hS p hp q hq)).2 ⟨k', this, by omega, hk2⟩

/-- The unrelativised form: a fixed point of `expected` on all positions. -/
theorem fixedpoint_exact (T : P → Val) (hT : ∀ p, T p = expected G T p) :
    ∀ n p, (lossW G n p = true ↔ ∃ k, k ≤ n ∧ T p = .loss k) ∧
           (winW G n p = true ↔ ∃ k, 1 ≤ k ∧ k ≤ n ∧ T p = .win k) :=
  fun n p => (fixedpoint_exact_on G (fun _ => True) (fun _ _ _ _ => trivial) T (fun p _ => hT p)).2 n p trivial

/-! ### The local rule on a list of successor values (what the executable checker evaluates) -/

/-- `expected` computed from the successors' table values -/
def expectedV (vals : List Val) (chk : Bool) : Val :=
  match minLoss id vals with
  | some n => .win (n+1)
  | none =>
    if vals.isEmpty then (if chk then .loss 0 else .draw)
    else match allWinMax id vals with
      | some m => if m = 0 then .draw else .loss m
      | none => .draw

theorem minLoss_map (T : P → Val) (l : List P) : minLoss id (l.map T) = minLoss T l := by
  induction l with
  | nil => rfl
  | cons q l ih => simp only [List.map, minLoss, ih, id]

theorem allWinMax_map (T : P → Val) (l : List P) : allWinMax id (l.map T) = allWinMax T l := by
  induction l with
  | nil => rfl
  | cons q l ih => simp only [List.map, allWinMax, ih, id]

theorem expected_eq_expectedV (T : P → Val) (p : P) :
    expected G T p = expectedV ((G.moves p).map T) (G.inCheck p) := by
  unfold expected expectedV
  rw [minLoss_map, allWinMax_map]
  simp only [List.isEmpty_map]

/-! ### The exact value as a function -/

theorem exists_least (Q : Nat → Prop) (h : ∃ n, Q n) : ∃ n, Q n ∧ ∀ m, m < n → ¬ Q m := by
  obtain ⟨n, hn⟩ := h
  induction n using Nat.strongRecOn with
  | _ n ih =>
    by_cases hex : ∃ m, m < n ∧ Q m
    · obtain ⟨m, hm, hq⟩ := hex; exact ih m hm hq
    · exact ⟨n, hn, fun m hm hq => hex ⟨m, hm, hq⟩⟩

noncomputable def least (Q : Nat → Prop) (h : ∃ n, Q n) : Nat := Classical.choose (exists_least Q h)

theorem least_spec (Q : Nat → Prop) (h : ∃ n, Q n) : Q (least Q h) ∧ ∀ m, m < least Q h → ¬ Q m :=
  Classical.choose_spec (exists_least Q h)

open Classical in
/-- Exact distance to mate in the move metric of `PositionValue`: `win n` iff the side to move can force mate in
    `n` of its own moves and not in fewer, `loss n` iff it is mated in `n` moves at best (0 = is checkmated) and
    cannot hold out longer, `draw` iff neither side can force mate in any number of moves. -/
noncomputable def DTM (p : P) : Val :=
  if h : ∃ n, winW G n p = true then .win (least _ h)
  else if h : ∃ n, lossW G n p = true then .loss (least _ h)
  else .draw

/-- A table that satisfies the local rule on a move-closed set equals the exact distance to mate there. -/
theorem fixedpoint_is_dtm (S : P → Prop) (hS : ∀ p, S p → ∀ q ∈ G.moves p, S q)
    (T : P → Val) (hT : ∀ p, S p → T p = expected G T p) : ∀ p, S p → T p = DTM G p := by
  obtain ⟨h0, hx⟩ := fixedpoint_exact_on G S hS T hT
  intro p hp
  have nowin : (∀ k, T p ≠ .win k) → ¬ ∃ n, winW G n p = true := by
    rintro hne ⟨n, hn⟩
    obtain ⟨k, _, _, hk⟩ := ((hx n p hp).2).1 hn
    exact hne k hk
  have noloss : (∀ k, T p ≠ .loss k) → ¬ ∃ n, lossW G n p = true := by
    rintro hne ⟨n, hn⟩
    obtain ⟨k, _, hk⟩ := ((hx n p hp).1).1 hn
    exact hne k hk
  cases hv : T p with
  | win k =>
    have hk1 : 1 ≤ k := by
      rcases Nat.eq_zero_or_pos k with h | h
      · subst h; exact absurd hv (h0 p hp)
      · exact h
    have hw : winW G k p = true := ((hx k p hp).2).2 ⟨k, hk1, Nat.le_refl _, hv⟩
    have hex : ∃ n, winW G n p = true := ⟨k, hw⟩
    unfold DTM; rw [dif_pos hex]
    obtain ⟨hl1, hl2⟩ := least_spec _ hex
    obtain ⟨k', _, hk', hk''⟩ := ((hx _ p hp).2).1 hl1
    rw [hv] at hk''; injection hk'' with e; subst e
    have : ¬ k < least _ hex := fun hlt => hl2 k hlt hw
    congr 1; omega
  | loss k =>
    have hnw : ¬ ∃ n, winW G n p = true := nowin (by intro k' h; rw [hv] at h; cases h)
    have hl : lossW G k p = true := ((hx k p hp).1).2 ⟨k, Nat.le_refl _, hv⟩
    have hex : ∃ n, lossW G n p = true := ⟨k, hl⟩
    unfold DTM; rw [dif_neg hnw, dif_pos hex]
    obtain ⟨hl1, hl2⟩ := least_spec _ hex
    obtain ⟨k', hk', hk''⟩ := ((hx _ p hp).1).1 hl1
    rw [hv] at hk''; injection hk'' with e; subst e
    have : ¬ k < least _ hex := fun hlt => hl2 k hlt hl
    congr 1; omega
  | draw =>
    have hnw : ¬ ∃ n, winW G n p = true := nowin (by intro k' h; rw [hv] at h; cases h)
    have hnl : ¬ ∃ n, lossW G n p = true := noloss (by intro k' h; rw [hv] at h; cases h)
    unfold DTM; rw [dif_neg hnw, dif_neg hnl]

end Cert
