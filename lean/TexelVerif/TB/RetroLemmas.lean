import TexelVerif.TB.Retro
/-!
# Generic lemmas for the retrograde model (property C12): array reads after writes, the adjacent-duplicate skip on
sorted lists, a counting lemma, and the block-skipping scan as a fold over the flagged indices.
-/
namespace TB.Retro
theorem rd_set (T : Tab) (i : Nat) (v : Int) (j : Nat) :
    rd (T.setIfInBounds i v) j = if i = j ∧ i < T.size then v else rd T j := by
  unfold rd
  simp only [Array.getD_eq_getD_getElem?, Array.getElem?_setIfInBounds]
  by_cases h : i = j
  · subst h
    by_cases h2 : i < T.size
    · simp [h2]
    · simp [h2]
  · simp [h]

theorem flag_set (F : Flags) (i : Nat) (v : Bool) (j : Nat) :
    flag (F.setIfInBounds i v) j = if i = j ∧ i < F.size then v else flag F j := by
  unfold flag
  simp only [Array.getD_eq_getD_getElem?, Array.getElem?_setIfInBounds]
  by_cases h : i = j
  · subst h
    by_cases h2 : i < F.size
    · simp [h2]
    · simp [h2]
  · simp [h]

theorem rd_replicate (n : Nat) (v : Int) (j : Nat) : rd (Array.replicate n v) j = if j < n then v else -1 := by
  unfold rd
  simp only [Array.getD_eq_getD_getElem?, Array.getElem?_replicate]
  by_cases h : j < n <;> simp [h]

theorem flag_replicate (n : Nat) (j : Nat) : flag (Array.replicate n false) j = false := by
  unfold flag
  simp only [Array.getD_eq_getD_getElem?, Array.getElem?_replicate]
  by_cases h : j < n <;> simp [h]

theorem rd_map (T : Tab) (f : Int → Int) (j : Nat) (h : j < T.size) : rd (T.map f) j = f (rd T j) := by
  unfold rd
  simp [Array.getD_eq_getD_getElem?, h]

theorem mem_dedupAdj (x : Nat) : ∀ l : List Nat, x ∈ dedupAdj l ↔ x ∈ l
  | [] => by simp [dedupAdj]
  | [a] => by simp [dedupAdj]
  | a :: b :: l => by
    have ih := mem_dedupAdj x (b :: l)
    unfold dedupAdj
    by_cases h : a = b
    · subst h; simp only [if_true, ih, List.mem_cons]
      constructor
      · intro h; exact Or.inr h
      · rintro (h | h)
        · exact Or.inl h
        · exact h
    · simp only [h, if_false, List.mem_cons, ih]

theorem nodup_dedupAdj : ∀ l : List Nat, l.Pairwise (· ≤ ·) → (dedupAdj l).Nodup
  | [], _ => by simp [dedupAdj]
  | [a], _ => by simp [dedupAdj]
  | a :: b :: l, hs => by
    have hs' : (b :: l).Pairwise (· ≤ ·) := (List.pairwise_cons.1 hs).2
    have ih := nodup_dedupAdj (b :: l) hs'
    unfold dedupAdj
    by_cases h : a = b
    · simp only [h, if_true]; exact ih
    · simp only [h, if_false]
      refine List.nodup_cons.2 ⟨?_, ih⟩
      rw [mem_dedupAdj]
      intro hm
      have h1 := (List.pairwise_cons.1 hs).1
      have hab := h1 b (List.mem_cons_self ..)
      rcases List.mem_cons.1 hm with e | hm'
      · exact h e
      · have := (List.pairwise_cons.1 hs').1 a hm'
        omega

theorem length_filter_flip (p q : Nat → Bool) (x : Nat) (hp : p x = true) (hq : q x = false)
    (hoth : ∀ y, y ≠ x → q y = p y) :
    ∀ l : List Nat, l.Nodup → (l.filter q).length + (if x ∈ l then 1 else 0) = (l.filter p).length
  | [], _ => by simp
  | a :: l, hnd => by
    have ⟨ha, hnd'⟩ := List.nodup_cons.1 hnd
    have ih := length_filter_flip p q x hp hq hoth l hnd'
    by_cases hax : a = x
    · subst hax
      simp only [List.filter_cons, hp, hq, if_true, List.mem_cons, true_or, List.length_cons]
      simp only [ha, if_false] at ih
      simp; omega
    · have hxa : ¬ x = a := fun e => hax e.symm
      simp only [List.filter_cons, hoth a hax, List.mem_cons, hxa, false_or]
      by_cases hpa : p a = true
      · simp only [hpa, if_true, List.length_cons]; omega
      · simp only [hpa]; exact ih

theorem filter_block (old : Flags) (idx : Nat) (h0 : idx % 64 = 0) (hf : flag old (idx / 64) = false) :
    (List.range' idx 64).filter (fun i => flag old (i / 64)) = [] := by
  apply List.filter_eq_nil_iff.2
  intro i hi
  have := List.mem_range'_1.1 hi
  have : i / 64 = idx / 64 := by omega
  rw [this, hf]; simp

theorem scan_eq (G : IG) (n : Nat) (old : Flags) (h64 : G.nPos % 64 = 0) :
    ∀ k idx st, G.nPos - idx = k → (idx % 64 = 0 ∨ flag old (idx / 64) = true) →
      scan G n old idx st =
        ((List.range' idx (G.nPos - idx)).filter (fun i => flag old (i / 64))).foldl (visit G n) st := by
  intro k
  induction k using Nat.strongRecOn with
  | _ k ih =>
    intro idx st hk hidx
    rw [scan]
    by_cases hlt : idx < G.nPos
    · simp only [hlt, dif_pos]
      by_cases hskip : idx % 64 = 0 ∧ flag old (idx / 64) = false
      · simp only [hskip, and_self, if_true]
        have hle : idx + 64 ≤ G.nPos := by omega
        rw [ih (G.nPos - (idx + 63 + 1)) (by omega) (idx + 63 + 1) st rfl (Or.inl (by omega))]
        have : G.nPos - idx = 64 + (G.nPos - (idx + 63 + 1)) := by omega
        rw [this, ← List.range'_append_1, List.filter_append, filter_block old idx hskip.1 hskip.2]
        simp
      · simp only [hskip, if_false]
        have hfl : flag old (idx / 64) = true := by
          rcases hidx with h | h
          · by_cases hf : flag old (idx / 64) = true
            · exact hf
            · exfalso; apply hskip; exact ⟨h, by simpa using hf⟩
          · exact h
        have hnext : (idx + 1) % 64 = 0 ∨ flag old ((idx + 1) / 64) = true := by
          by_cases h : (idx + 1) % 64 = 0
          · exact Or.inl h
          · right
            have : (idx + 1) / 64 = idx / 64 := by omega
            rw [this]; exact hfl
        rw [ih (G.nPos - (idx + 1)) (by omega) (idx + 1) _ rfl hnext]
        have : G.nPos - idx = (G.nPos - (idx + 1)) + 1 := by omega
        rw [this, List.range'_succ, List.filter_cons]
        simp only [hfl, if_true, List.foldl_cons]
    · simp only [hlt, dif_neg, not_false_eq_true]
      have : G.nPos - idx = 0 := by omega
      rw [this]; simp

theorem rd_lt_size (T : Tab) (k : Nat) (h : rd T k ≠ -1) : k < T.size := by
  unfold rd at h
  by_cases hk : k < T.size
  · exact hk
  · exfalso; apply h; simp [Array.getD_eq_getD_getElem?, hk]

/-- the value a REMAINING cell gets when one of its successors has become MATE_IN_n -/
def dec (n : Nat) (v : Int) : Int := if v + 1 = -3 then 63 - (n : Int) else v + 1

theorem decFold_spec (n : Nat) : ∀ (l : List Nat) (T0 : Tab) (F0 : Flags), l.Nodup →
    let r := l.foldl (decStep n) (T0, F0)
    r.1.size = T0.size ∧ r.2.size = F0.size ∧
    (∀ k, rd r.1 k = if k ∈ l ∧ rd T0 k < -3 then dec n (rd T0 k) else rd T0 k) ∧
    (∀ b, flag F0 b = true → flag r.2 b = true) ∧
    (∀ k, k ∈ l → rd T0 k = -4 → k / 64 < F0.size → flag r.2 (k / 64) = true)
  | [], T0, F0, _ => by simp
  | x :: l, T0, F0, hnd => by
    have ⟨hx, hnd'⟩ := List.nodup_cons.1 hnd
    simp only [List.foldl_cons]
    by_cases hv : rd T0 x < -3
    · have hxs : x < T0.size := rd_lt_size T0 x (by omega)
      by_cases h4 : rd T0 x + 1 = -3
      · have hst : decStep n (T0, F0) x = (T0.setIfInBounds x (63 - (n : Int)), F0.setIfInBounds (x / 64) true) := by
          simp only [decStep, hv, h4, if_true]
        rw [hst]
        have ih := decFold_spec n l (T0.setIfInBounds x (63 - (n : Int))) (F0.setIfInBounds (x / 64) true) hnd'
        simp only at ih
        obtain ⟨i1, i2, i3, i4, i5⟩ := ih
        refine ⟨by rw [i1, Array.size_setIfInBounds], by rw [i2, Array.size_setIfInBounds], ?_, ?_, ?_⟩
        · intro k
          rw [i3 k, rd_set]
          by_cases hkx : x = k
          · subst hkx
            simp only [hx, false_and, if_false, true_and, hxs, if_true, List.mem_cons, true_or, hv, dec, h4]
          · have : ¬ k = x := fun e => hkx e.symm
            simp only [hkx, false_and, if_false, List.mem_cons, this, false_or]
        · intro b hb
          apply i4
          rw [flag_set]
          by_cases hc : x / 64 = b ∧ x / 64 < F0.size
          · rw [if_pos hc]
          · rw [if_neg hc]; exact hb
        · intro k hk hk4 hks
          rcases List.mem_cons.1 hk with e | hk'
          · subst e
            apply i4
            rw [flag_set]; simp [hks]
          · have hkx : ¬ x = k := fun e => hx (e ▸ hk')
            apply i5 k hk'
            · rw [rd_set]; simp only [hkx, false_and, if_false]; exact hk4
            · rw [Array.size_setIfInBounds]; exact hks
      · have hst : decStep n (T0, F0) x = (T0.setIfInBounds x (rd T0 x + 1), F0) := by
          simp only [decStep, hv, h4, if_true, if_false]
        rw [hst]
        have ih := decFold_spec n l (T0.setIfInBounds x (rd T0 x + 1)) F0 hnd'
        simp only at ih
        obtain ⟨i1, i2, i3, i4, i5⟩ := ih
        refine ⟨by rw [i1, Array.size_setIfInBounds], i2, ?_, i4, ?_⟩
        · intro k
          rw [i3 k, rd_set]
          by_cases hkx : x = k
          · subst hkx
            simp only [hx, false_and, if_false, true_and, hxs, if_true, List.mem_cons, true_or, hv, dec, h4]
          · have : ¬ k = x := fun e => hkx e.symm
            simp only [hkx, false_and, if_false, List.mem_cons, this, false_or]
        · intro k hk hk4 hks
          rcases List.mem_cons.1 hk with e | hk'
          · subst e; omega
          · have hkx : ¬ x = k := fun e => hx (e ▸ hk')
            apply i5 k hk'
            · rw [rd_set]; simp only [hkx, false_and, if_false]; exact hk4
            · exact hks
    · have hst : decStep n (T0, F0) x = (T0, F0) := by
        simp only [decStep, hv, if_false]
      rw [hst]
      have ih := decFold_spec n l T0 F0 hnd'
      simp only at ih
      obtain ⟨i1, i2, i3, i4, i5⟩ := ih
      refine ⟨i1, i2, ?_, i4, ?_⟩
      · intro k
        rw [i3 k]
        by_cases hkx : k = x
        · subst hkx; simp only [hv, and_false, if_false]
        · simp only [List.mem_cons, hkx, false_or]
      · intro k hk hk4 hks
        rcases List.mem_cons.1 hk with e | hk'
        · subst e; omega
        · exact i5 k hk' hk4 hks


theorem labelWin_spec (G : IG) (n : Nat) (T : Tab) (F : Flags) (W : Nat) (hW : W < T.size)
    (hnd : (dedupAdj (G.unmoves W)).Nodup) :
    let r := labelWin G n T F W
    r.1.size = T.size ∧ r.2.size = F.size ∧ rd r.1 W = 64 + (n : Int) ∧
    (∀ k, k ≠ W → rd r.1 k = if k ∈ G.unmoves W ∧ rd T k < -3 then dec n (rd T k) else rd T k) ∧
    (∀ b, flag F b = true → flag r.2 b = true) ∧
    (∀ k, k ≠ W → k ∈ G.unmoves W → rd T k = -4 → k / 64 < F.size → flag r.2 (k / 64) = true) := by
  have h := decFold_spec n (dedupAdj (G.unmoves W)) (T.setIfInBounds W (64 + (n : Int))) F hnd
  simp only at h
  obtain ⟨h1, h2, h3, h4, h5⟩ := h
  simp only [labelWin]
  refine ⟨by rw [h1, Array.size_setIfInBounds], h2, ?_, ?_, h4, ?_⟩
  · rw [h3 W, rd_set]
    simp only [true_and, hW, if_true]
    have : ¬ (64 + (n : Int) < -3) := by omega
    simp only [this, and_false, if_false]
  · intro k hk
    have hk' : ¬ W = k := fun e => hk e.symm
    rw [h3 k, rd_set]
    simp only [hk', false_and, if_false, mem_dedupAdj]
  · intro k hk hm h4' hs
    have hk' : ¬ W = k := fun e => hk e.symm
    apply h5 k ((mem_dedupAdj k _).2 hm) _ hs
    rw [rd_set]; simp only [hk', false_and, if_false]; exact h4'


end TB.Retro
