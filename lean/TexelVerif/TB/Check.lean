import TexelVerif.TB.Index
/-!
# The executable certificate checker for a dumped on-demand table (property C12)

`checkUnit c sh T k1 k2` examines **every** position of class `c` whose first two slots (white king and the next
man) stand on `k1`, `k2`, both sides to move: if the position is legal, Texel's own index mapping must place it
inside the table, the byte found there must be a game value, and that value must equal the local rule
`Cert.expectedV` applied to the values the table holds for the legal successors.  The 65 × 65 units together
cover every legal position (`checkUnits_cover`), so by `Cert.fixedpoint_is_dtm` an accepted table is exact.
-/
namespace TB
open Cert

/-- the value the table gives for a position, read through Texel's index mapping -/
def tableVal (c : CC) (sh : Shape) (T : ByteArray) (q : Pos) : Val :=
  match indexOf sh q with
  | some i => (decodeByte (readByte T i)).getD .draw
  | none => .draw

/-- the local condition at one position -/
def checkPos (c : CC) (sh : Shape) (T : ByteArray) (p : Pos) : Bool :=
  match indexOf sh p with
  | none => false
  | some i =>
    i < T.size &&
    match decodeByte (readByte T i) with
    | none => false
    | some v => decide (v = expectedV ((moves c p).map (tableVal c sh T)) (inCheck c p))

/-- `f` holds for all lists of length `n` over 0..64, without materialising them -/
def allLists : Nat → (List Nat → Bool) → Bool
  | 0, f => f []
  | n+1, f => (List.range 65).all fun x => allLists n fun l => f (x :: l)

def checkAt (c : CC) (sh : Shape) (T : ByteArray) (sq : List Nat) : Bool :=
  [true, false].all fun w => !legal c ⟨w, sq⟩ || checkPos c sh T ⟨w, sq⟩

def checkUnit (c : CC) (sh : Shape) (T : ByteArray) (k1 k2 : Nat) : Bool :=
  allLists (c.n - 2) fun l => checkAt c sh T (k1 :: k2 :: l)

/-- the whole certificate: table size and all 65 × 65 units -/
def checkTable (c : CC) (sh : Shape) (T : ByteArray) : Bool :=
  T.size == sh.nPos &&
  (List.range 65).all fun k1 => (List.range 65).all fun k2 => checkUnit c sh T k1 k2

/-! ## The index-level audit: entries that are not positions are never answered -/

/-- for one index: not canonical / overlapping men ⇒ INVALID; the side to move can take the king ⇒ MATE_IN_0;
    otherwise some game value -/
def auxAt (c : CC) (sh : Shape) (T : ByteArray) (i : Nat) : Bool :=
  let b := readByte T i
  if !sh.indexValid i.toUInt64 then b == 0xFF
  else if canTakeKing c (posOfIndex sh i.toUInt64) then b == 64
  else (decodeByte b).isSome

def checkAux (c : CC) (sh : Shape) (T : ByteArray) (lo hi : Nat) : Bool :=
  (List.range' lo (hi - lo)).all (auxAt c sh T)

/-! ## Soundness -/

theorem allLists_spec (n : Nat) (f : List Nat → Bool) (h : allLists n f = true) :
    ∀ l : List Nat, l.length = n → (∀ x ∈ l, x ≤ 64) → f l = true := by
  induction n generalizing f with
  | zero =>
    intro l hl _
    have : l = [] := List.eq_nil_of_length_eq_zero hl
    subst this; exact h
  | succ n ih =>
    intro l hl hx
    cases l with
    | nil => simp at hl
    | cons a l =>
      simp only [allLists, List.all_eq_true, List.mem_range] at h
      have ha : a < 65 := by have := hx a (List.mem_cons_self ..); omega
      exact ih (fun l => f (a :: l)) (h a ha) l (by simpa using hl) (fun x hx' => hx x (List.mem_cons_of_mem _ hx'))

theorem legal_shape (c : CC) (p : Pos) (h : legal c p = true) :
    p.sq.length = c.n ∧ ∀ x ∈ p.sq, x ≤ 64 := by
  simp only [legal, wellFormed, Bool.and_eq_true, beq_iff_eq, List.all_eq_true, decide_eq_true_eq] at h
  exact ⟨h.1.1.1.1.1, h.1.1.1.1.2⟩

/-- the units cover every legal position -/
theorem checkUnits_cover (c : CC) (sh : Shape) (T : ByteArray) (hn2 : 2 ≤ c.n)
    (h : ∀ k1, k1 ≤ 64 → ∀ k2, k2 ≤ 64 → checkUnit c sh T k1 k2 = true) :
    ∀ p, legal c p = true → checkPos c sh T p = true := by
  intro p hp
  obtain ⟨hlen, hle⟩ := legal_shape c p hp
  obtain ⟨w, sq⟩ := p
  match sq, hlen, hle with
  | k1 :: k2 :: l, hlen, hle =>
    have h1 := h k1 (hle k1 (by simp)) k2 (hle k2 (by simp))
    have hl : l.length = c.n - 2 := by simp only [List.length_cons] at hlen; omega
    have := allLists_spec _ _ h1 l hl (fun x hx => hle x (by simp [hx]))
    simp only [checkAt, List.all_cons, List.all_nil, Bool.and_true, Bool.and_eq_true, Bool.or_eq_true,
      Bool.not_eq_true'] at this
    cases w with
    | true => rcases this.1 with h' | h'
              · rw [hp] at h'; cases h'
              · exact h'
    | false => rcases this.2 with h' | h'
               · rw [hp] at h'; cases h'
               · exact h'
  | [], hlen, _ => simp only [List.length_nil] at hlen; omega
  | [_], hlen, _ => simp only [List.length_cons, List.length_nil] at hlen; omega

/-- what `checkPos` establishes at a position -/
theorem checkPos_spec (c : CC) (sh : Shape) (T : ByteArray) (p : Pos) (h : checkPos c sh T p = true) :
    ∃ i, indexOf sh p = some i ∧ i < T.size ∧
      decodeByte (readByte T i) = some (tableVal c sh T p) ∧
      tableVal c sh T p = expected (game c) (tableVal c sh T) p := by
  unfold checkPos at h
  split at h
  · cases h
  · next i hi =>
    simp only [Bool.and_eq_true, decide_eq_true_eq] at h
    obtain ⟨hlt, h⟩ := h
    split at h
    · cases h
    · next v hv =>
      have hv' : v = expectedV ((moves c p).map (tableVal c sh T)) (inCheck c p) := by simpa using h
      have htv : tableVal c sh T p = v := by simp only [tableVal, hi, hv, Option.getD_some]
      refine ⟨i, hi, hlt, by rw [htv]; exact hv, ?_⟩
      rw [htv, expected_eq_expectedV]
      exact hv'

/-- **Certificate soundness.**  If all units of the checker accept the table, then for every legal position of the
    class — every placement of the men, captured or not, either side to move — Texel's index mapping finds an entry
    inside the table, and the byte stored there decodes to the exact distance to mate. -/
theorem units_sound (c : CC) (sh : Shape) (T : ByteArray) (hn2 : 2 ≤ c.n)
    (h : ∀ k1, k1 ≤ 64 → ∀ k2, k2 ≤ 64 → checkUnit c sh T k1 k2 = true) :
    ∀ p, legal c p = true →
      ∃ i, indexOf sh p = some i ∧ i < T.size ∧ decodeByte (readByte T i) = some (DTM (game c) p) := by
  have hall := checkUnits_cover c sh T hn2 h
  have hfix : ∀ p, legal c p = true → tableVal c sh T p = expected (game c) (tableVal c sh T) p := by
    intro p hp
    obtain ⟨_, _, _, _, h4⟩ := checkPos_spec c sh T p (hall p hp)
    exact h4
  have hdtm := fixedpoint_is_dtm (game c) (fun p => legal c p = true)
    (fun p _ q hq => moves_legal c p q hq) (tableVal c sh T) hfix
  intro p hp
  obtain ⟨i, h1, h2, h3, _⟩ := checkPos_spec c sh T p (hall p hp)
  exact ⟨i, h1, h2, by rw [h3, hdtm p hp]⟩

theorem checkTable_units (c : CC) (sh : Shape) (T : ByteArray) (h : checkTable c sh T = true) :
    T.size = sh.nPos ∧ ∀ k1, k1 ≤ 64 → ∀ k2, k2 ≤ 64 → checkUnit c sh T k1 k2 = true := by
  simp only [checkTable, Bool.and_eq_true, beq_iff_eq, List.all_eq_true, List.mem_range] at h
  exact ⟨h.1, fun k1 h1 k2 h2 => h.2 k1 (by omega) k2 (by omega)⟩

/-! ## Score conversion -/

/-- the engine's score, at search ply `ply`, of a position with exact value `v` (search.cpp returns
    `-(MATE0 - (ply+1))` for the side that is checkmated at `ply`; each ply towards the root negates) -/
def scoreOf (v : Val) (ply : Int) : Int :=
  match v with
  | .win n => MATE0 - ply - 2 * n
  | .loss n => -(MATE0 - ply - 2 * n - 1)
  | .draw => 0

theorem convert_decode (s : Int) (v : Val) (ply : Int) (h : decodeS s = some v) :
    convertS s ply = some (scoreOf v ply) := by
  unfold decodeS at h
  unfold convertS
  split at h
  · next h1 =>
    injection h with h; subst h
    simp only [h1, if_true, scoreOf]
    congr 1
    have : ((s - 64).toNat : Int) = s - 64 := Int.toNat_of_nonneg (by omega)
    omega
  · next h1 =>
    split at h
    · next h2 =>
      injection h with h; subst h
      simp only [h1, if_false, h2, and_self, if_true, scoreOf]
      congr 1
      have : ((63 - s).toNat : Int) = 63 - s := Int.toNat_of_nonneg (by omega)
      omega
    · next h2 =>
      split at h
      · next h3 =>
        injection h with h; subst h; subst h3
        simp [scoreOf]
      · cases h

/-- `s8` and the byte's signed reading agree with C++ `(S8)byte` — all 256 cases -/
theorem s8_range (b : UInt8) : -128 ≤ s8 b ∧ s8 b ≤ 127 := by
  have := b.toNat_lt
  unfold s8; split <;> omega

end TB
