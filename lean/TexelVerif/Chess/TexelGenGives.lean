import TexelVerif.Chess.TexelGenGcChange
/-!
# `MoveGen::givesCheck` against the specification

`givesCheck_eq`: for a position whose side *not* to move has exactly one king (on `ok`) that is not attacked, and whose
en-passant square is sane, and for every pseudo-legal move `m` that does not put the mover's king next to the enemy king
(every legal move: `givesCheck_legal`), the model of `MoveGen::givesCheck` returns `inCheck` of the opponent on the
board after the move.  Three kinds of moves: ordinary (`gives_simple`), en passant (`gives_ep`), castling (`gives_castle`).
-/
namespace Chess.Texel
open PosImpl (BB getP getP_eq)

/-! ## hypotheses -/

/-- the en-passant square, if any, is empty, lies on the sixth rank of the mover and the pawn that made the double step
    stands behind it (what `readFEN` enforces and `makeMove` establishes: C02 `EpOk`) -/
def EpSane (p : Pos) : Prop :=
  PosImpl.EpOk p ∧ ∀ e, p.ep = some e → e.y = (if p.wtm then 5 else 2)

/-- what `givesCheck` assumes: piece codes 0..12, the opponent's king on `ok` and nowhere else, the opponent is not in
    check, the en-passant square is sane -/
structure GcWF (p : Pos) (ok : Sq) : Prop where
  valid : ValidB p.b
  oking : KingAt p.b (!p.wtm) ok
  safe : Chess.inCheck p.b (!p.wtm) = false
  ep : EpSane p

theorem GcWF.notAttacked {p : Pos} {ok : Sq} (h : GcWF p ok) : sqAttacked p.b (!p.wtm) ok (occBB p.b) = false := by
  rw [← inCheck_of_kingAt _ h.valid _ ok h.oking]; exact h.safe

/-! ## a pseudo-legal capture attacks the captured piece -/

theorem castle_dest_empty (p : Pos) (m : Mv) (short : Bool) (hco : castleOk p short = true)
    (hf : m.f.val = (if p.wtm then 4 else 60)) (ht : (m.t.val : Int) = m.f.val + (if short then 2 else -2)) :
    p.b[m.t] = 0 := by
  have := (castleOk_iff p short).1 hco
  simp only at this
  obtain ⟨_, _, _, hsq⟩ := this
  have htt := m.t.isLt
  cases short
  · simp only [Bool.false_eq_true, if_false] at hsq ht
    rw [← hf] at hsq
    rw [← getP_val p.b m.t (m.f.val - 2) (by omega), hsq.2.1]
  · simp only [if_true] at hsq ht
    rw [← hf] at hsq
    rw [← getP_val p.b m.t (m.f.val + 2) (by omega), hsq.2.1]

theorem pseudo_capture_attacks (p : Pos) (m : Mv) (hp : pseudo p m = true) (hne : p.b[m.t] ≠ 0) :
    attacks p.b m.f m.t = true := by
  have hown := pseudo_own_f p m hp
  have hft := pseudo_ne p m hp
  rcases kind_of_own _ _ hown with h1 | h2 | h3 | h4 | h5 | h6
  · -- king
    have hp' := hp
    rw [pseudo_king_iff p m h1] at hp'
    obtain ⟨_, _, _, _, hmv⟩ := hp'
    have hf4 : ∀ (c : m.f.val = (if p.wtm then 4 else 60)), m.f.val = 4 ∨ m.f.val = 60 := by
      intro c; cases hw : p.wtm <;> rw [hw] at c <;> simp at c <;> omega
    rcases hmv with h | ⟨a, b, c, d⟩ | ⟨a, b, c, d⟩
    · unfold attacks; simp only [h1]
      have hne0 : ¬ ((dxy m.f m.t).1 = 0 ∧ (dxy m.f m.t).2 = 0) := by
        rintro ⟨a, b⟩
        apply hft
        unfold dxy at a b; simp only at a b
        exact Sq.ext_xy _ _ (by omega) (by omega)
      simp only [Bool.and_eq_true, decide_eq_true_eq, Bool.not_eq_true', Bool.and_eq_false_iff, beq_eq_false_iff_ne, ne_eq]
      exact ⟨h, by omega⟩
    · exact absurd (castle_dest_empty p m true d c (by simpa using (castle_target m.f m.t (hf4 c) 2 (Or.inl rfl)).1 ⟨a, b⟩)) hne
    · exact absurd (castle_dest_empty p m false d c (by simpa using (castle_target m.f m.t (hf4 c) (-2) (Or.inr rfl)).1 ⟨a, b⟩)) hne
  · exact ((pseudo_other_iff p m (by rw [h2]; decide) (by rw [h2]; decide)).1 hp).2.2.2
  · exact ((pseudo_other_iff p m (by rw [h3]; decide) (by rw [h3]; decide)).1 hp).2.2.2
  · exact ((pseudo_other_iff p m (by rw [h4]; decide) (by rw [h4]; decide)).1 hp).2.2.2
  · exact ((pseudo_other_iff p m (by rw [h5]; decide) (by rw [h5]; decide)).1 hp).2.2.2
  · -- pawn
    have hiw := isWhite_of_own _ _ hown
    unfold pseudo at hp
    simp only [Pos.at, h6, Bool.and_eq_true, Bool.or_eq_true, beq_iff_eq, bne_iff_ne, ne_eq] at hp
    obtain ⟨_, _, hmv⟩ := hp
    unfold attacks
    simp only [h6, hiw, Bool.and_eq_true, beq_iff_eq]
    rcases hmv with (⟨_, h0⟩ | ⟨⟨_, h0⟩, _⟩) | ⟨⟨a, b⟩, _⟩
    · exact absurd h0 hne
    · exact absurd h0 hne
    · exact ⟨a, b⟩

/-- a pseudo-legal move never captures the king of a side that is not in check -/
theorem not_capture_king (p : Pos) (ok : Sq) (h : GcWF p ok) (m : Mv) (hp : pseudo p m = true) : m.t ≠ ok := by
  intro e
  subst e
  have hne : p.b[m.t] ≠ 0 := by
    rw [h.oking.1]; cases p.wtm <;> decide
  have ha := pseudo_capture_attacks p m hp hne
  rw [attacks_eq_atkFrom p.b (occBB p.b) m.f m.t (fun q _ => tst_occBB p.b h.valid q)] at ha
  have : sqAttacked p.b (!p.wtm) m.t (occBB p.b) = true := by
    rw [sqAttacked_iff]; simp only [Bool.not_not]
    exact ⟨m.f, pseudo_own_f p m hp, ha⟩
  rw [h.notAttacked] at this; cases this

/-! ## the piece that arrives -/

/-- the piece standing on the to-square after the move -/
def newPc (p : Pos) (m : Mv) : Pc := if m.promo != 0 then m.promo else p.b[m.f]

theorem kind_newPc (p : Pos) (m : Mv) : kind (newPc p m) = movedKind p m := by
  unfold newPc movedKind
  by_cases h : m.promo = 0 <;> simp [h]

theorem own_newPc (p : Pos) (m : Mv) (hp : pseudo p m = true) : own p.wtm (newPc p m) = true := by
  unfold newPc
  by_cases h : m.promo = 0
  · rw [h]; simp only [bne_self_eq_false, Bool.false_eq_true, if_false]; exact pseudo_own_f p m hp
  · rw [if_pos (bne_iff_ne.2 h)]; exact (promo_own _ _ (pseudo_promo p m hp) h).1

theorem promo_kind (p : Pos) (m : Mv) (hp : pseudo p m = true) (h0 : m.promo ≠ 0) :
    kind m.promo ≠ 1 ∧ kind m.promo ≠ 6 ∧ kind p.b[m.f] = 6 := by
  have hk : kind p.b[m.f] = 6 := by
    apply Classical.byContradiction
    intro h6
    exact h0 (PosImpl.pseudo_other p m hp (by rw [getP_sq]; exact h6))
  have := pseudo_promo p m hp
  cases hw : p.wtm <;> rw [hw] at this <;> simp [promos] at this <;>
    rcases this with h | h | h | h | h <;> first | exact absurd h h0 | (rw [h]; exact ⟨by decide, by decide, hk⟩)

theorem kindOn_of_slider {pc : Pc} {dx dy : Int} (h : sliderOn pc dx dy) : kindOn (kind pc) dx dy := by
  rcases h with ⟨hd, hk | hk⟩ | ⟨hd, hk | hk⟩
  · exact Or.inl ⟨hd, Or.inr hk⟩
  · exact Or.inl ⟨hd, Or.inl hk⟩
  · exact Or.inr ⟨hd, Or.inr hk⟩
  · exact Or.inr ⟨hd, Or.inl hk⟩

theorem slider_of_kindOn {pc : Pc} {dx dy : Int} (h : kindOn (kind pc) dx dy) : sliderOn pc dx dy := by
  rcases h with ⟨hd, hk | hk⟩ | ⟨hd, hk | hk⟩
  · exact Or.inl ⟨hd, Or.inr hk⟩
  · exact Or.inl ⟨hd, Or.inl hk⟩
  · exact Or.inr ⟨hd, Or.inr hk⟩
  · exact Or.inr ⟨hd, Or.inl hk⟩

theorem kindOn.isDir {pw : UInt8} {dx dy : Int} (h : kindOn pw dx dy) : IsDir dx dy := by
  rcases h with ⟨h, _⟩ | ⟨h, _⟩
  · exact h.isDir
  · exact h.isDir

/-! ## discovered check through the from-square (second block) -/

/-- an unchanged slider sees the king after the move along a ray whose first occupied square before the move was the
    from-square, and the rest of the ray passes no other vacated square: the second block of `givesCheck` fires -/
theorem disc_of_xray (p : Pos) (m : Mv) (K : Sq) (hK : KingAt p.b (!p.wtm) K) (hp : pseudo p m = true)
    (hstep : kind p.b[m.f] = 1 → (dxy m.f m.t).1.natAbs ≤ 1 ∧ (dxy m.f m.t).2.natAbs ≤ 1)
    (b' : Board) (V F : Sq → Prop) (hch : Change p.b b' p.wtm V F) (hFt : F m.t)
    (s : Sq) (dx dy : Int) (n j : Nat) (hFs : ¬ F s) (hso : own p.wtm p.b[s] = true) (hsl : sliderOn p.b[s] dx dy)
    (hseg : Seg b' K dx dy n s) (hj1 : 1 ≤ j) (hjn : j < n) (hsf : Seg p.b K dx dy j m.f)
    (hrest : ∀ l q, 1 ≤ l → l < n - j → stepSq m.f.x m.f.y dx dy l = some q → ¬ V q) :
    gcDisc p.b p.wtm K m.f m.t = true := by
  rw [gcDisc_iff _ _ _ hK]
  have hd := hsl.isDir
  have hrestSeg : Seg p.b m.f dx dy (n - j) s := hch.seg_before (hseg.suf j m.f hjn hsf.step) hrest
  refine ⟨-dx, -dy, j, n - j, s, isDir_neg hd, hsf.rev, ?_, by rw [Int.neg_neg, Int.neg_neg]; exact hrestSeg,
    behindOk_neg (behindOk_of_slider _ _ _ _ _ hso hsl)⟩
  exact disc_dir_ne p m hp hstep b' (ne_zero_of_own _ _ (hch.fill _ hFt)) K s dx dy hd n j hj1 hjn hsf.step hseg
    (fun e => hFs (e ▸ hFt)) (ne_zero_of_own _ _ hso)

/-- conversely, when the second block fires the slider behind the from-square sees the king after the move -/
theorem xray_of_disc (p : Pos) (m : Mv) (K : Sq) (hK : KingAt p.b (!p.wtm) K) (hp : pseudo p m = true)
    (b' : Board) (V F : Sq → Prop) (hch : Change p.b b' p.wtm V F) (hF : ∀ q, F q ↔ q = m.t) (hVf : V m.f)
    (hVo : ∀ q, V q → q = m.f ∨ own p.wtm p.b[q] = false)
    (h : gcDisc p.b p.wtm K m.f m.t = true) :
    ∃ s dx dy n j v, ¬ F s ∧ ¬ V s ∧ own p.wtm p.b[s] = true ∧ sliderOn p.b[s] dx dy ∧ Seg b' K dx dy n s ∧
      1 ≤ j ∧ j < n ∧ V v ∧ Seg p.b K dx dy j v := by
  obtain ⟨ex, ey, n, i, s, he, hsK, hne, hss, hbeh⟩ := (gcDisc_iff _ _ _ hK _ _).1 h
  obtain ⟨hso, hsl⟩ := slider_of_behindOk _ _ _ _ _ (behindOk_neg hbeh)
  have hst : s ≠ m.t := by
    intro e; rw [e, pseudo_nown_t p m hp] at hso; cases hso
  have hsf : s ≠ m.f := (hss.ne (isDir_neg he)).symm
  have hVs : ¬ V s := by
    intro hV
    rcases hVo s hV with e | e
    · exact hsf e
    · rw [e] at hso; cases hso
  have tnot : ∀ l, 1 ≤ l → stepSq K.x K.y (-ex) (-ey) l = some m.t → False := by
    intro l hl hq
    have := on_ray_dir K m.t (-ex) (-ey) (isDir_neg he) l hl hq
    rw [Int.neg_neg, Int.neg_neg] at this
    exact hne this
  have s1 : Seg b' K (-ex) (-ey) n m.f :=
    hch.seg_after hsK.rev (fun l q h1 _ hq hFq => tnot l h1 ((hF q).1 hFq ▸ hq))
  have s2 : Seg b' m.f (-ex) (-ey) i s :=
    hch.seg_after hss (fun l q h1 _ hq hFq => by
      have e : q = m.t := (hF q).1 hFq
      subst e
      exact tnot (n + l) (by omega) (by rw [← stepSq_from K m.f (-ex) (-ey) n l hsK.rev.step]; exact hq))
  exact ⟨s, -ex, -ey, n + i, n, m.f, fun hFs => hst ((hF s).1 hFs), hVs, hso, hsl, s1.join (hch.vac _ hVf) s2, hsK.pos,
    by have := hss.pos; omega, hVf, hsK.rev⟩

/-! ## the arriving piece attacks the king (first and third block) -/

theorem direct_simple (p : Pos) (K : Sq) (H : GcWF p K) (m : Mv) (hp : pseudo p m = true)
    (hkk : kind p.b[m.f] = 1 → kingGeom K m.t = false)
    (b' : Board) (hv' : ValidB b') (hch : Change p.b b' p.wtm (fun q => q = m.f) (fun q => q = m.t))
    (ht : b'[m.t] = newPc p m) :
    atkFrom b'[m.t] (occBB b') m.t K = true ↔
      (gcDirect p.b p.wtm K (movedKind p m) m.t = true ∨ gcPromo p.b p.wtm K (movedKind p m) m.promo m.f m.t = true) := by
  have hv := H.valid
  have hK := H.oking
  have hkind := kind_newPc p m
  have hown := own_newPc p m hp
  have hiw := isWhite_of_own _ _ hown
  have hft := pseudo_ne p m hp
  rw [ht]
  constructor
  · intro ha
    rcases atkFrom_cases _ _ _ _ ha with ⟨hk, hg⟩ | ⟨hk, hg⟩ | ⟨hk, hg⟩ | ⟨dx, dy, hsl, hr⟩
    · exfalso
      have h0 : m.promo = 0 := by
        apply Classical.byContradiction
        intro h0
        have := (promo_kind p m hp h0).1
        unfold newPc at hk; simp [h0] at hk
        exact this hk
      have : newPc p m = p.b[m.f] := by unfold newPc; simp [h0]
      rw [this] at hk
      rw [hkk hk] at hg; cases hg
    · left
      rw [gcDirect_iff _ _ _ hK]
      exact Or.inr (Or.inr (Or.inr ⟨by rw [← hkind]; exact hk, by rw [knightGeom_swap]; exact hg⟩))
    · left
      rw [gcDirect_iff _ _ _ hK]
      refine Or.inr (Or.inr (Or.inl ⟨by rw [← hkind]; exact hk, ?_⟩))
      rw [hiw, pawnGeom_swap] at hg; exact hg
    · have hd := hsl.isDir
      obtain ⟨n, hseg⟩ := (tst_ray_seg b' hv' K m.t dx dy hd).1 hr
      by_cases hin : ∃ j, 1 ≤ j ∧ j < n ∧ stepSq K.x K.y dx dy j = some m.f
      · obtain ⟨j, hj1, hjn, hjf⟩ := hin
        have s1 : Seg p.b K dx dy j m.f := hch.seg_before (hseg.pre j m.f hj1 hjn hjf) (fun l q _ h2 hq hV => by
          have hV' : q = m.f := hV
          rw [hV'] at hq
          have := step_inj _ _ _ _ hd l j _ hq hjf
          omega)
        by_cases h0 : m.promo = 0
        · exfalso
          have e : newPc p m = p.b[m.f] := by unfold newPc; simp [h0]
          rw [e] at hsl
          have : sqAttacked p.b (!p.wtm) K (occBB p.b) = true := by
            rw [sqAttacked_iff]; simp only [Bool.not_not]
            exact ⟨m.f, pseudo_own_f p m hp,
              atkFrom_of_slider _ _ _ _ dx dy hsl ((tst_ray_seg p.b hv K m.f dx dy hd).2 ⟨j, s1⟩)⟩
          rw [H.notAttacked] at this; cases this
        · right
          rw [gcPromo_iff _ _ _ hK]
          refine ⟨h0, -dx, -dy, j, on_ray_dir K m.t dx dy hd n hseg.pos hseg.step, s1.rev, ?_⟩
          rw [← hkind]; exact kindOn_neg (kindOn_of_slider hsl)
      · left
        have s1 : Seg p.b K dx dy n m.t := hch.seg_before hseg (fun l q h1 h2 hq hV => by
          have hV' : q = m.f := hV
          exact hin ⟨l, h1, h2, hV' ▸ hq⟩)
        rw [gcDirect_iff _ _ _ hK, ← hkind]
        rcases kindOn_of_slider hsl with ⟨hd', hk'⟩ | ⟨hd', hk'⟩
        · exact Or.inl ⟨hk', -dx, -dy, n, rookD_neg hd', s1.rev⟩
        · exact Or.inr (Or.inl ⟨hk', -dx, -dy, n, bishD_neg hd', s1.rev⟩)
  · have tstart : ∀ (dx dy : Int), IsDir dx dy → ∀ l q, 1 ≤ l → stepSq m.t.x m.t.y dx dy l = some q → ¬ (q = m.t) := by
      intro dx dy hd l q h1 hq e
      subst e
      have := step_inj _ _ _ _ hd l 0 _ hq (stepSq_zero m.t dx dy)
      omega
    have hslide : ∀ (dx dy : Int) (n : Nat), kindOn (movedKind p m) dx dy → Seg b' m.t dx dy n K →
        atkFrom (newPc p m) (occBB b') m.t K = true := by
      intro dx dy n hk s1
      have hsl : sliderOn (newPc p m) (-dx) (-dy) := slider_of_kindOn (by rw [hkind]; exact kindOn_neg hk)
      exact atkFrom_of_slider _ _ _ _ (-dx) (-dy) hsl ((tst_ray_seg b' hv' K m.t _ _ hsl.isDir).2 ⟨n, s1.rev⟩)
    rintro (h | h)
    · rcases (gcDirect_iff _ _ _ hK _ _).1 h with ⟨hk, dx, dy, n, hd, hs⟩ | ⟨hk, dx, dy, n, hd, hs⟩ | ⟨h6, hg⟩ | ⟨h5, hg⟩
      · exact hslide dx dy n (Or.inl ⟨hd, hk⟩) (hch.seg_after hs (fun l q h1 _ hq => tstart dx dy hd.isDir l q h1 hq))
      · exact hslide dx dy n (Or.inr ⟨hd, hk⟩) (hch.seg_after hs (fun l q h1 _ hq => tstart dx dy hd.isDir l q h1 hq))
      · rw [atkFrom_pawn _ _ _ _ (by rw [hkind]; exact h6), hiw, pawnGeom_swap]; exact hg
      · rw [atkFrom_knight _ _ _ _ (by rw [hkind]; exact h5), knightGeom_swap]; exact hg
    · obtain ⟨h0, dx, dy, n, hdir, hs, hk⟩ := (gcPromo_iff _ _ _ hK _ _ _ _).1 h
      have hd := hk.isDir
      obtain ⟨j, hj1, hjt⟩ := (direction_iff m.t K dx dy hd).1 hdir
      have hnk : kind p.b[m.f] ≠ 1 := by rw [(promo_kind p m hp h0).2.2]; decide
      apply hslide dx dy j hk
      rcases Nat.lt_trichotomy j n with hlt | heq | hgt
      · have hftq : stepSq m.f.x m.f.y dx dy (n - j) = some m.t := stepSq_diff m.f m.t K dx dy n j hs.step hjt (by omega)
        have s1 := hs.suf (n - j) m.t (by omega) hftq
        have e : n - (n - j) = j := by omega
        rw [e] at s1
        exact hch.seg_after s1 (fun l q h1 _ hq => tstart dx dy hd l q h1 hq)
      · exfalso
        subst heq
        have := stepSq_diff m.f m.t K dx dy j j hs.step hjt (Nat.le_refl _)
        rw [Nat.sub_self, stepSq_zero] at this
        exact hft (Option.some.inj this)
      · have htf : stepSq m.t.x m.t.y dx dy (j - n) = some m.f := stepSq_diff m.t m.f K dx dy j n hjt hs.step (by omega)
        have hback : stepSq m.f.x m.f.y (-dx) (-dy) (j - n) = some m.t := by
          rw [stepSq_rev m.t m.f dx dy (j - n) (j - n) (Nat.le_refl _) htf, Nat.sub_self, stepSq_zero]
        have s0 : Seg b' m.t dx dy (j - n) m.f := by
          refine ⟨by omega, htf, ?_⟩
          intro l hl1 hl2
          obtain ⟨q, hq⟩ := step_between m.t m.f dx dy hd (j - n) l htf (by omega)
          refine ⟨q, hq, ?_⟩
          have hq' : stepSq m.f.x m.f.y (-dx) (-dy) (j - n - l) = some q := by
            rw [stepSq_rev m.t m.f dx dy (j - n) (j - n - l) (by omega) htf, ← hq]; congr 1; omega
          have hb0 := no_jump p m hp hnk (-dx) (-dy) (isDir_neg hd) (j - n) (j - n - l) (by omega) (by omega) hback q hq'
          have hqf : ¬ (q = m.f) := by
            intro e; subst e
            have := step_inj _ _ _ _ hd l (j - n) _ hq htf
            omega
          have hqt : ¬ (q = m.t) := tstart dx dy hd l q hl1 hq
          unfold emp
          rw [hch.other q hqf hqt, hb0]; rfl
        have s2 : Seg b' m.f dx dy n K := hch.seg_after hs (fun l q h1 _ hq hF => by
          have hF' : q = m.t := hF
          rw [hF'] at hq
          have h3 : stepSq m.t.x m.t.y dx dy (j - n + l) = some m.t := by
            rw [← stepSq_from m.t m.f dx dy (j - n) l htf]; exact hq
          have := step_inj _ _ _ _ hd (j - n + l) 0 _ h3 (stepSq_zero m.t dx dy)
          omega)
        have s3 := s0.join (hch.vac m.f rfl) s2
        have e : j - n + n = j := by omega
        rw [e] at s3; exact s3

/-! ## ordinary moves -/

theorem change_simple (p : Pos) (m : Mv) (hp : pseudo p m = true) (hE : PosImpl.isEpS p m = false)
    (hC : ¬ (kind p.b[m.f] = 1 ∧ (m.t.val = m.f.val + 2 ∨ m.t.val + 2 = m.f.val))) :
    Change p.b (apply p m).b p.wtm (fun q => q = m.f) (fun q => q = m.t) ∧ (apply p m).b[m.t] = newPc p m := by
  have hb := apply_b_simple p m hE hC
  have hft := pseudo_ne p m hp
  have ht : (apply p m).b[m.t] = newPc p m := by rw [hb m.t, if_pos rfl]; rfl
  refine ⟨⟨?_, ?_, ?_⟩, ht⟩
  · intro q h1 h2; rw [hb q, if_neg h2, if_neg h1]
  · intro q h1
    have h1' : q = m.f := h1
    subst h1'; rw [hb m.f, if_neg hft, if_pos rfl]
  · intro q h1
    have h1' : q = m.t := h1
    subst h1'; rw [ht]; exact own_newPc p m hp

/-- a pawn that steps diagonally onto an empty square captures en passant -/
theorem pawn_diag_ep (p : Pos) (m : Mv) (hp : pseudo p m = true) (h6 : kind p.b[m.f] = 6) (h0 : p.b[m.t] = 0)
    (hx : m.t.x ≠ m.f.x) : PosImpl.isEpS p m = true := by
  unfold PosImpl.isEpS
  rw [getP_sq, getP_sq, h6, h0]
  have hown := pseudo_own_f p m hp
  unfold pseudo at hp
  simp only [Pos.at, h6, h0, Bool.and_eq_true, Bool.or_eq_true, beq_iff_eq, bne_iff_ne, ne_eq, dxy] at hp
  obtain ⟨_, _, hmv⟩ := hp
  have hxx : ¬ ((m.t.x : Int) - m.f.x = 0) := by omega
  rcases hmv with (⟨⟨a, _⟩, _⟩ | ⟨⟨⟨⟨a, _⟩, _⟩, _⟩, _⟩) | ⟨_, h⟩
  · exact absurd a hxx
  · exact absurd a hxx
  · rcases h with h | h
    · exact absurd trivial h
    · rw [h]
      have : (m.f.x != m.t.x) = true := by simp only [bne_iff_ne, ne_eq]; exact fun e => hx e.symm
      simp [this]

theorem special_simple (p : Pos) (K : Sq) (m : Mv) (hp : pseudo p m = true) (hE : PosImpl.isEpS p m = false)
    (hC : ¬ (kind p.b[m.f] = 1 ∧ (m.t.val = m.f.val + 2 ∨ m.t.val + 2 = m.f.val))) :
    (if movedKind p m == 1 then gcCastle p.b p.wtm m.f m.t
     else if movedKind p m == 6 then gcEp p.b p.wtm K m.f m.t else false) = false := by
  have hmk : ∀ k : UInt8, (k = 1 ∨ k = 6) → movedKind p m = k → kind p.b[m.f] = k := by
    intro k hk e
    by_cases h0 : m.promo = 0
    · unfold movedKind at e; simpa [h0] using e
    · exfalso
      obtain ⟨a, b, _⟩ := promo_kind p m hp h0
      unfold movedKind at e
      simp [h0] at e
      rcases hk with rfl | rfl
      · exact a e
      · exact b e
  by_cases h1 : movedKind p m = 1
  · have hk := hmk 1 (Or.inl rfl) h1
    rw [if_pos (by rw [h1]; rfl)]
    exact gcCastle_none _ _ _ _ (fun e => hC ⟨hk, Or.inl e⟩) (fun e => hC ⟨hk, Or.inr e⟩)
  · rw [if_neg (by simpa using h1)]
    by_cases h6 : movedKind p m = 6
    · have hk := hmk 6 (Or.inr rfl) h6
      rw [if_pos (by rw [h6]; rfl)]
      apply gcEp_off
      by_cases h0 : p.b[m.t] = 0
      · right
        apply Classical.byContradiction
        intro hx
        rw [pawn_diag_ep p m hp hk h0 hx] at hE; cases hE
      · exact Or.inl h0
    · rw [if_neg (by simpa using h6)]

theorem gives_simple (p : Pos) (K : Sq) (H : GcWF p K) (m : Mv) (hp : pseudo p m = true)
    (hkk : kind p.b[m.f] = 1 → kingGeom K m.t = false) (hE : PosImpl.isEpS p m = false)
    (hC : ¬ (kind p.b[m.f] = 1 ∧ (m.t.val = m.f.val + 2 ∨ m.t.val + 2 = m.f.val))) :
    sqAttacked (apply p m).b (!p.wtm) K (occBB (apply p m).b) = true ↔ givesCheck p K m = true := by
  obtain ⟨hch, ht⟩ := change_simple p m hp hE hC
  have hv' := validB_apply p H.valid m hp
  have hstep : kind p.b[m.f] = 1 → (dxy m.f m.t).1.natAbs ≤ 1 ∧ (dxy m.f m.t).2.natAbs ≤ 1 := by
    intro hk
    have := (pseudo_king_iff p m hk).1 hp
    obtain ⟨_, _, _, _, hmv⟩ := this
    have hf4 : ∀ (c : m.f.val = (if p.wtm then 4 else 60)), m.f.val = 4 ∨ m.f.val = 60 := by
      intro c; cases hw : p.wtm <;> rw [hw] at c <;> simp at c <;> omega
    rcases hmv with h | ⟨a, b, c, _⟩ | ⟨a, b, c, _⟩
    · exact h
    · exfalso
      have := (castle_target m.f m.t (hf4 c) 2 (Or.inl rfl)).1 ⟨a, b⟩
      exact hC ⟨hk, Or.inl (by omega)⟩
    · exfalso
      have := (castle_target m.f m.t (hf4 c) (-2) (Or.inr rfl)).1 ⟨a, b⟩
      exact hC ⟨hk, Or.inr (by omega)⟩
  rw [hch.attacked_iff H.valid hv' K H.notAttacked, givesCheck_split, special_simple p K m hp hE hC]
  simp only [Bool.or_false, Bool.or_eq_true]
  have hdir := direct_simple p K H m hp hkk _ hv' hch ht
  constructor
  · rintro (⟨t, hF, hatk⟩ | ⟨s, dx, dy, n, j, v, hFs, hVs, hso, hsl, hseg, hj1, hjn, hVv, hsv⟩)
    · have hF' : t = m.t := hF
      subst hF'
      rcases hdir.1 hatk with h | h
      · exact Or.inl (Or.inl h)
      · exact Or.inr h
    · have hVv' : v = m.f := hVv
      subst hVv'
      refine Or.inl (Or.inr (disc_of_xray p m K H.oking hp hstep _ _ _ hch rfl s dx dy n j hFs hso hsl hseg hj1 hjn hsv ?_))
      intro l q h1 _ hq hV
      have hV' : q = m.f := hV
      rw [hV'] at hq
      have := step_inj _ _ _ _ hsl.isDir l 0 _ hq (stepSq_zero m.f dx dy)
      omega
  · rintro ((h | h) | h)
    · exact Or.inl ⟨m.t, rfl, hdir.2 (Or.inl h)⟩
    · exact Or.inr (xray_of_disc p m K H.oking hp _ _ _ hch (fun q => Iff.rfl) rfl (fun q hq => Or.inl hq) h)
    · exact Or.inl ⟨m.t, rfl, hdir.2 (Or.inr h)⟩

end Chess.Texel
