import TexelVerif.Chess.TexelGenAtk
import TexelVerif.PosImpl.MakeSpec
import TexelVerif.Chess.SpecLemmas
/-!
`MoveGen::isLegal` and `MoveGen::removeIllegal` against the specification: for a pseudo-legal move the verdict is
"the mover's king is not attacked after the move" (`isLegal_eq`, `removeIllegal_eq`).

* slow path (`makeMove`, `inCheck`, `unMakeMove`): `inCheck_eq` on the board after the move;
* in check, non-king, non-e.p. move to a square outside the king's rook/bishop rays that is not a checking knight:
  the checking piece is neither captured nor blocked (`still_attacked`);
* not in check, non-king, non-e.p. move of a piece the king does not see along a ray: nothing is uncovered
  (`not_attacked_after`, the king-ray argument);
* not in check, the moved piece stays on its ray from the king (`same_ray_safe`);
* not in check, king move: `sqAttacked` on the destination with the king lifted off the board (`sqAttacked_eq`),
  castling included.
-/
namespace Chess.Texel
open PosImpl (BB getP getP_eq)

/-! ## the board after a move -/

theorem getP_sq (b : Board) (q : Sq) : getP b q.val = b[q] := getP_eq b q.val q.isLt

theorem setSq_get (b : Board) (n : Nat) (v : Pc) (q : Sq) : (setSq b n v)[q] = if n = q.val then v else b[q] := by
  unfold setSq
  simp only [Fin.getElem_fin, Vector.getElem_setIfInBounds]

/-- own king on `k` and nowhere else -/
def KingAt (b : Board) (w : Bool) (k : Sq) : Prop :=
  b[k] = (if w then WKING else BKING) ∧ ∀ s : Sq, b[s] = (if w then WKING else BKING) → s = k

theorem kingSq_of_kingAt (b : Board) (w : Bool) (k : Sq) (h : KingAt b w k) : kingSq b w = some k := by
  unfold kingSq
  have hk : (b[k] == if w then WKING else BKING) = true := by rw [h.1]; simp
  cases hf : allSq.find? fun s => b[s] == (if w then WKING else BKING) with
  | none =>
    rw [List.find?_eq_none] at hf
    exact absurd hk (hf k (by simp [allSq]))
  | some s =>
    have := List.find?_some hf
    rw [h.2 s (by simpa using this)]

theorem validB_setSq (b : Board) (hv : ValidB b) (n : Nat) (v : Pc) (h : v ≤ 12) : ValidB (setSq b n v) := by
  intro q; rw [setSq_get]; split
  · exact h
  · exact hv q

theorem getP_le (b : Board) (hv : ValidB b) (n : Nat) : getP b n ≤ 12 := by
  by_cases h : n < 64
  · rw [getP_eq b n h]; exact hv ⟨n, h⟩
  · rw [PosImpl.getP_oob b n h]; decide

set_option maxRecDepth 100000 in
theorem promos_le : ∀ (w : Bool) (pr : Pc), pr ∈ promos w → pr ≤ 12 := by
  intro w pr h
  cases w <;> simp [promos] at h <;> rcases h with rfl | rfl | rfl | rfl | rfl <;> decide

/-- the board after a pseudo-legal move holds proper piece codes -/
theorem validB_apply (p : Pos) (hv : ValidB p.b) (m : Mv) (hp : pseudo p m = true) : ValidB (apply p m).b := by
  have hpr : m.promo ≤ 12 := promos_le p.wtm _ (pseudo_promo p m hp)
  have hr : (if p.wtm then WROOK else BROOK) ≤ (12 : Pc) := by cases p.wtm <;> decide
  have h0 : (0 : Pc) ≤ 12 := by decide
  rw [PosImpl.apply_eq]
  show ValidB (PosImpl.b4S p m)
  have h3 : ValidB (PosImpl.b3S p m) := by
    unfold PosImpl.b3S
    apply validB_setSq
    · apply validB_setSq _ _ _ _ h0
      split
      · exact validB_setSq _ hv _ _ h0
      · exact hv
    · split
      · exact hpr
      · exact getP_le _ hv _
  unfold PosImpl.b4S
  split
  · exact validB_setSq _ (validB_setSq _ h3 _ _ h0) _ _ hr
  · split
    · exact validB_setSq _ (validB_setSq _ h3 _ _ h0) _ _ hr
    · exact h3

/-- the slow path of `isLegal` / `removeIllegal` is the specification's test -/
theorem inCheckAfter_eq (p : Pos) (hv : ValidB p.b) (m : Mv) (hp : pseudo p m = true) :
    inCheckAfter p m = Chess.inCheck (apply p m).b p.wtm :=
  inCheck_eq _ (validB_apply p hv m hp) _

/-- a move that is neither an en-passant capture nor castling changes the from- and the to-square only -/
theorem apply_b_simple (p : Pos) (m : Mv) (h1 : PosImpl.isEpS p m = false)
    (h2 : ¬ (kind p.b[m.f] = 1 ∧ (m.t.val = m.f.val + 2 ∨ m.t.val + 2 = m.f.val))) (q : Sq) :
    (apply p m).b[q] = if q = m.t then (if m.promo != 0 then m.promo else p.b[m.f]) else if q = m.f then 0 else p.b[q] := by
  rw [PosImpl.apply_eq]
  show (PosImpl.b4S p m)[q] = _
  have h3 : PosImpl.b4S p m = PosImpl.b3S p m := by
    unfold PosImpl.b4S
    rw [getP_sq]
    split
    · rename_i hc; simp only [Bool.and_eq_true, beq_iff_eq] at hc; exact absurd ⟨hc.1, Or.inl hc.2⟩ h2
    · split
      · rename_i hc; simp only [Bool.and_eq_true, beq_iff_eq] at hc; exact absurd ⟨hc.1, Or.inr hc.2⟩ h2
      · rfl
  rw [h3]
  unfold PosImpl.b3S
  rw [h1, setSq_get, setSq_get, getP_sq]
  simp only [Bool.false_eq_true, if_false]
  by_cases e1 : q = m.t
  · subst e1; simp
  · have : ¬ m.t.val = q.val := fun h => e1 (Fin.ext h.symm)
    rw [if_neg this, if_neg e1]
    by_cases e2 : q = m.f
    · subst e2; simp
    · have : ¬ m.f.val = q.val := fun h => e2 (Fin.ext h.symm)
      rw [if_neg this, if_neg e2]

/-! ## attack sets as unions of rays -/

def RookD (dx dy : Int) : Prop := (dx = 1 ∧ dy = 0) ∨ (dx = -1 ∧ dy = 0) ∨ (dx = 0 ∧ dy = 1) ∨ (dx = 0 ∧ dy = -1)
def BishD (dx dy : Int) : Prop := (dx = 1 ∧ dy = 1) ∨ (dx = 1 ∧ dy = -1) ∨ (dx = -1 ∧ dy = 1) ∨ (dx = -1 ∧ dy = -1)

theorem RookD.isDir {dx dy : Int} (h : RookD dx dy) : IsDir dx dy := by unfold RookD at h; unfold IsDir; omega
theorem BishD.isDir {dx dy : Int} (h : BishD dx dy) : IsDir dx dy := by unfold BishD at h; unfold IsDir; omega
theorem isDir_split {dx dy : Int} (h : IsDir dx dy) : RookD dx dy ∨ BishD dx dy := by unfold IsDir at h; unfold RookD BishD; omega

theorem tst_rook_iff (k s : Sq) (occ : BB) :
    tst (rookAttacks k occ) s = true ↔ ∃ dx dy, RookD dx dy ∧ tst (ray occ k dx dy) s = true := by
  simp only [rookAttacks, tst_or, Bool.or_eq_true]
  constructor
  · rintro (((h | h) | h) | h)
    · exact ⟨1, 0, Or.inl ⟨rfl, rfl⟩, h⟩
    · exact ⟨-1, 0, Or.inr (Or.inl ⟨rfl, rfl⟩), h⟩
    · exact ⟨0, 1, Or.inr (Or.inr (Or.inl ⟨rfl, rfl⟩)), h⟩
    · exact ⟨0, -1, Or.inr (Or.inr (Or.inr ⟨rfl, rfl⟩)), h⟩
  · rintro ⟨dx, dy, (⟨rfl, rfl⟩ | ⟨rfl, rfl⟩ | ⟨rfl, rfl⟩ | ⟨rfl, rfl⟩), h⟩
    · exact Or.inl (Or.inl (Or.inl h))
    · exact Or.inl (Or.inl (Or.inr h))
    · exact Or.inl (Or.inr h)
    · exact Or.inr h

theorem tst_bishop_iff (k s : Sq) (occ : BB) :
    tst (bishopAttacks k occ) s = true ↔ ∃ dx dy, BishD dx dy ∧ tst (ray occ k dx dy) s = true := by
  simp only [bishopAttacks, tst_or, Bool.or_eq_true]
  constructor
  · rintro (((h | h) | h) | h)
    · exact ⟨1, 1, Or.inl ⟨rfl, rfl⟩, h⟩
    · exact ⟨1, -1, Or.inr (Or.inl ⟨rfl, rfl⟩), h⟩
    · exact ⟨-1, 1, Or.inr (Or.inr (Or.inl ⟨rfl, rfl⟩)), h⟩
    · exact ⟨-1, -1, Or.inr (Or.inr (Or.inr ⟨rfl, rfl⟩)), h⟩
  · rintro ⟨dx, dy, (⟨rfl, rfl⟩ | ⟨rfl, rfl⟩ | ⟨rfl, rfl⟩ | ⟨rfl, rfl⟩), h⟩
    · exact Or.inl (Or.inl (Or.inl h))
    · exact Or.inl (Or.inl (Or.inr h))
    · exact Or.inl (Or.inr h)
    · exact Or.inr h

/-- `s` is seen from `k` along some rook or bishop ray -/
def Visible (occ : BB) (k s : Sq) : Prop := tst (rookAttacks k occ) s = true ∨ tst (bishopAttacks k occ) s = true

theorem visible_of_ray (occ : BB) (k s : Sq) (dx dy : Int) (hd : IsDir dx dy) (h : tst (ray occ k dx dy) s = true) :
    Visible occ k s := by
  rcases isDir_split hd with hr | hb
  · exact Or.inl ((tst_rook_iff k s occ).2 ⟨dx, dy, hr, h⟩)
  · exact Or.inr ((tst_bishop_iff k s occ).2 ⟨dx, dy, hb, h⟩)

/-- if every ray towards `s` transfers from `occ1` to `occ2`, so does `atkFrom` -/
theorem atkFrom_transfer (pc : Pc) (occ1 occ2 : BB) (s k : Sq)
    (hray : ∀ dx dy, IsDir dx dy → tst (ray occ1 k dx dy) s = true → tst (ray occ2 k dx dy) s = true)
    (h : atkFrom pc occ1 s k = true) : atkFrom pc occ2 s k = true := by
  have hr : tst (rookAttacks k occ1) s = true → tst (rookAttacks k occ2) s = true := by
    rw [tst_rook_iff, tst_rook_iff]
    rintro ⟨dx, dy, hd, h⟩; exact ⟨dx, dy, hd, hray dx dy hd.isDir h⟩
  have hb : tst (bishopAttacks k occ1) s = true → tst (bishopAttacks k occ2) s = true := by
    rw [tst_bishop_iff, tst_bishop_iff]
    rintro ⟨dx, dy, hd, h⟩; exact ⟨dx, dy, hd, hray dx dy hd.isDir h⟩
  unfold atkFrom at h ⊢
  split <;> rename_i hk <;> simp only [hk] at h
  · exact h
  · exact h
  · exact h
  · exact hr h
  · exact hb h
  · rw [Bool.or_eq_true] at h ⊢
    exact h.imp hr hb
  · exact h

/-- prefix of a segment -/
theorem reachN_prefix (emp : Sq → Bool) (x y dx dy : Int) (n : Nat) (t : Sq) (h : ReachN emp x y dx dy n t)
    (j : Nat) (q : Sq) (hj : 1 ≤ j) (hjn : j < n) (hq : stepSq x y dx dy j = some q) : ReachN emp x y dx dy j q :=
  ⟨hj, hq, fun i hi hij => h.2.2 i hi (by omega)⟩

/-- a ray towards `s` survives a change of occupancy that keeps the squares before `s` empty -/
theorem ray_transfer (occ1 occ2 : BB) (k s : Sq) (dx dy : Int) (hd : IsDir dx dy)
    (h : tst (ray occ1 k dx dy) s = true)
    (hh : ∀ q, q ≠ s → tst (ray occ1 k dx dy) q = true → tst occ1 q = false → tst occ2 q = false) :
    tst (ray occ2 k dx dy) s = true := by
  rw [tst_ray_iff _ _ _ _ _ hd] at h ⊢
  obtain ⟨n, h⟩ := h
  refine ⟨n, reachN_congr _ _ _ _ _ _ _ _ h ?_⟩
  intro j q hj1 hjn hq he
  have hne := reachN_inner_ne _ k s dx dy hd n j q h hjn hq
  have hv : tst (ray occ1 k dx dy) q = true := (tst_ray_iff _ _ _ _ _ hd).2 ⟨j, reachN_prefix _ _ _ _ _ _ _ h j q hj1 hjn hq⟩
  have := hh q hne hv (by simpa using he)
  simp [this]

/-! ## a move that changes two squares -/

set_option maxRecDepth 100000 in
theorem own_excl_fin : ∀ (w : Bool) (n : Fin 256), own w (UInt8.ofNat n.val) = true → own (!w) (UInt8.ofNat n.val) = false := by
  decide +kernel

theorem own_excl (w : Bool) (p : Pc) (h : own w p = true) : own (!w) p = false := by
  have := own_excl_fin w ⟨p.toNat, p.toNat_lt⟩
  simp only [UInt8.ofNat_toNat] at this
  exact this h

theorem own_zero (w : Bool) : own w 0 = false := by cases w <;> decide

theorem ne_zero_of_own (w : Bool) (p : Pc) (h : own w p = true) : p ≠ 0 := by
  intro e; subst e; rw [own_zero] at h; cases h

/-- `b'` is `b` after a piece of side `w` went from `f` to `t` (capture and promotion allowed, nothing else changes) -/
structure SimpleMove (b b' : Board) (w : Bool) (f t : Sq) : Prop where
  hft : f ≠ t
  own_f : own w b[f] = true
  own_t' : own w b'[t] = true
  zero_f' : b'[f] = 0
  other : ∀ q, q ≠ f → q ≠ t → b'[q] = b[q]

namespace SimpleMove
variable {b b' : Board} {w : Bool} {f t : Sq}

theorem occ_other (h : SimpleMove b b' w f t) (hv : ValidB b) (hv' : ValidB b') (q : Sq) (h1 : q ≠ f) (h2 : q ≠ t) :
    tst (occBB b') q = tst (occBB b) q := by
  rw [tst_occBB b hv, tst_occBB b' hv', h.other q h1 h2]

theorem occ_f (h : SimpleMove b b' w f t) (hv : ValidB b) : tst (occBB b) f = true := by
  rw [tst_occBB b hv]; exact bne_iff_ne.2 (ne_zero_of_own w _ h.own_f)

theorem occ_f' (h : SimpleMove b b' w f t) (hv' : ValidB b') : tst (occBB b') f = false := by
  rw [tst_occBB b' hv', h.zero_f']; rfl

theorem occ_t' (h : SimpleMove b b' w f t) (hv' : ValidB b') : tst (occBB b') t = true := by
  rw [tst_occBB b' hv']; exact bne_iff_ne.2 (ne_zero_of_own w _ h.own_t')

/-- an enemy piece of the board after the move stood there before -/
theorem enemy_after (h : SimpleMove b b' w f t) (s : Sq) (hs : own (!w) b'[s] = true) : s ≠ f ∧ s ≠ t ∧ b'[s] = b[s] := by
  have h1 : s ≠ f := by intro e; subst e; rw [h.zero_f', own_zero] at hs; cases hs
  have h2 : s ≠ t := by intro e; subst e; rw [own_excl w _ h.own_t'] at hs; cases hs
  exact ⟨h1, h2, h.other s h1 h2⟩

/-- **king-ray lemma** (`removeIllegal` / `isLegal` shortcut, not in check): if the piece that moves is not seen from
    `k` along the ray, every square seen along the ray after the move was seen before the move -/
theorem ray_before_of_after (h : SimpleMove b b' w f t) (hv : ValidB b) (hv' : ValidB b') (k s : Sq) (dx dy : Int)
    (hd : IsDir dx dy) (hnv : tst (ray (occBB b) k dx dy) f = false)
    (ha : tst (ray (occBB b') k dx dy) s = true) : tst (ray (occBB b) k dx dy) s = true := by
  have key : ∀ s', tst (ray (occBB b') k dx dy) s' = true →
      (∀ q, q ≠ s' → tst (ray (occBB b') k dx dy) q = true → tst (occBB b') q = false → q ≠ f) →
      tst (ray (occBB b) k dx dy) s' = true := by
    intro s' hs' hq
    apply ray_transfer _ _ _ _ _ _ hd hs'
    intro q hne hvq he
    have h2 : q ≠ t := by intro e; subst e; rw [h.occ_t' hv'] at he; cases he
    rw [← h.occ_other hv hv' q (hq q hne hvq he) h2]; exact he
  apply key s ha
  intro q hne hvq he e
  subst e
  have : tst (ray (occBB b) k dx dy) q = true := by
    apply key q hvq
    intro q' hne' _ _
    exact hne'
  rw [this] at hnv; cases hnv

/-- in check: if the destination is not seen from `k` along the ray, every square seen along the ray before the move
    is still seen after it -/
theorem ray_after_of_before (h : SimpleMove b b' w f t) (hv : ValidB b) (hv' : ValidB b') (k s : Sq) (dx dy : Int)
    (hd : IsDir dx dy) (hnv : tst (ray (occBB b) k dx dy) t = false)
    (hb : tst (ray (occBB b) k dx dy) s = true) : tst (ray (occBB b') k dx dy) s = true := by
  apply ray_transfer _ _ _ _ _ _ hd hb
  intro q _ hvq he
  have h1 : q ≠ f := by intro e; subst e; rw [h.occ_f hv] at he; cases he
  have h2 : q ≠ t := by intro e; subst e; rw [hvq] at hnv; cases hnv
  rw [h.occ_other hv hv' q h1 h2]; exact he

end SimpleMove

/-! ## adjacent squares are always seen -/

theorem kingGeom_iff (k s : Sq) : kingGeom k s = true ↔
    IsDir ((s.x : Int) - k.x) ((s.y : Int) - k.y) := by
  unfold kingGeom dxy IsDir
  simp only [Bool.and_eq_true, decide_eq_true_eq, Bool.not_eq_true', Bool.and_eq_false_iff, beq_eq_false_iff_ne, ne_eq]
  omega

theorem adjacent_visible (occ : BB) (k s : Sq) (h : kingGeom k s = true) : Visible occ k s := by
  rw [kingGeom_iff] at h
  apply visible_of_ray occ k s _ _ h
  rw [tst_ray_iff _ _ _ _ _ h]
  refine ⟨1, Nat.le_refl _, ?_, fun j h1 h2 => by omega⟩
  rw [stepSq_eq_some]
  constructor <;> simp <;> omega

theorem kingGeom_of_pawnGeom (w : Bool) (k s : Sq) (h : pawnGeom w k s = true) : kingGeom k s = true := by
  rw [kingGeom_iff]
  unfold pawnGeom dxy at h
  unfold IsDir
  simp only [Bool.and_eq_true, beq_iff_eq] at h
  cases w <;> simp at h <;> omega

/-- an attacker of `k` is seen from `k` along a ray unless it is a knight -/
theorem atkFrom_visible_or_knight (p : Pc) (occ : BB) (s k : Sq) (h : atkFrom p occ s k = true) :
    (kind p = 5 ∧ knightGeom k s = true) ∨ Visible occ k s := by
  unfold atkFrom at h
  split at h <;> rename_i hk
  · exact Or.inr (adjacent_visible occ k s h)
  · exact Or.inl ⟨hk, h⟩
  · exact Or.inr (adjacent_visible occ k s (kingGeom_of_pawnGeom _ k s h))
  · exact Or.inr (Or.inl h)
  · exact Or.inr (Or.inr h)
  · rw [Bool.or_eq_true] at h; exact Or.inr h
  · cases h

namespace SimpleMove
variable {b b' : Board} {w : Bool} {f t : Sq}

/-- not in check, the moving piece is not seen from the king along a ray ⇒ the king is not attacked after the move -/
theorem not_attacked_after (h : SimpleMove b b' w f t) (hv : ValidB b) (hv' : ValidB b') (k : Sq)
    (hna : sqAttacked b w k (occBB b) = false) (hnv : ¬ Visible (occBB b) k f) :
    sqAttacked b' w k (occBB b') = false := by
  apply Bool.eq_false_iff.2
  intro ha
  rw [sqAttacked_iff] at ha
  obtain ⟨s, hs, hatk⟩ := ha
  obtain ⟨_, _, e⟩ := h.enemy_after s hs
  have : sqAttacked b w k (occBB b) = true := by
    rw [sqAttacked_iff]
    refine ⟨s, by rw [← e]; exact hs, ?_⟩
    rw [← e]
    apply atkFrom_transfer _ _ _ _ _ _ hatk
    intro dx dy hd hr
    apply h.ray_before_of_after hv hv' k s dx dy hd _ hr
    apply Bool.eq_false_iff.2
    intro hf; exact hnv (visible_of_ray _ _ _ _ _ hd hf)
  rw [this] at hna; cases hna

/-- in check, the destination is neither seen from the king along a ray nor a knight that gives check ⇒ the king is
    still attacked after the move -/
theorem still_attacked (h : SimpleMove b b' w f t) (hv : ValidB b) (hv' : ValidB b') (k : Sq)
    (ha : sqAttacked b w k (occBB b) = true) (hnv : ¬ Visible (occBB b) k t)
    (hkn : ¬ (knightGeom k t = true ∧ b[t] = pc (!w) 5)) :
    sqAttacked b' w k (occBB b') = true := by
  rw [sqAttacked_iff] at ha ⊢
  obtain ⟨s, hs, hatk⟩ := ha
  have h1 : s ≠ f := by
    intro e; subst e; rw [own_excl w _ h.own_f] at hs; cases hs
  have h2 : s ≠ t := by
    intro e; subst e
    rcases atkFrom_visible_or_knight _ _ _ _ hatk with ⟨hk5, hg⟩ | hvis
    · apply hkn
      refine ⟨hg, ?_⟩
      have := beq_pc5 (!w) b[s]
      rw [hs, hk5] at this
      simpa using this
    · exact hnv hvis
  have e := h.other s h1 h2
  refine ⟨s, by rw [e]; exact hs, ?_⟩
  rw [e]
  apply atkFrom_transfer _ _ _ _ _ _ hatk
  intro dx dy hd hr
  apply h.ray_after_of_before hv hv' k s dx dy hd _ hr
  apply Bool.eq_false_iff.2
  intro hf; exact hnv (visible_of_ray _ _ _ _ _ hd hf)

end SimpleMove

/-! ## from a pseudo-legal move to `SimpleMove` -/

theorem pc_king (w : Bool) : pc w 1 = (if w then WKING else BKING) := by cases w <;> rfl

theorem king_of_kind (w : Bool) (p : Pc) (ho : own w p = true) (hk : kind p = 1) : p = (if w then WKING else BKING) := by
  have := beq_pc1 w p
  rw [ho, hk] at this
  rw [← pc_king]; simpa using this

theorem kind_king (w : Bool) : kind (if w then WKING else BKING) = 1 := by cases w <;> decide
theorem own_king (w : Bool) : own w (if w then WKING else BKING) = true := by cases w <;> decide

theorem promo_own (w : Bool) (pr : Pc) (h : pr ∈ promos w) (hne : pr ≠ 0) :
    own w pr = true ∧ pr ≠ (if w then WKING else BKING) := by
  cases w <;> simp [promos] at h <;> rcases h with rfl | rfl | rfl | rfl | rfl <;> first | exact absurd rfl hne | decide

theorem pseudo_ne (p : Pos) (m : Mv) (hp : pseudo p m = true) : m.f ≠ m.t := by
  have := (PosImpl.pseudo_basic p m hp).2.2
  intro e; exact this (by rw [e])

theorem pseudo_nown_t (p : Pos) (m : Mv) (hp : pseudo p m = true) : own p.wtm p.b[m.t] = false := by
  have := (PosImpl.pseudo_basic p m hp).2.1; rwa [getP_sq] at this

theorem pseudo_own_f (p : Pos) (m : Mv) (hp : pseudo p m = true) : own p.wtm p.b[m.f] = true := pseudo_own p m hp

/-- a pseudo-legal move of a piece other than the king that is not an en-passant capture: only the from- and
    to-squares change, and the king stays where it is -/
theorem simple_of_pseudo' (p : Pos) (m : Mv) (hp : pseudo p m = true) (k : Sq) (hk : KingAt p.b p.wtm k)
    (hfk : m.f ≠ k) (hnep : PosImpl.isEpS p m = false) :
    SimpleMove p.b (apply p m).b p.wtm m.f m.t ∧ KingAt (apply p m).b p.wtm k := by
  have hnk : ¬ kind p.b[m.f] = 1 := by
    intro h1
    exact hfk (hk.2 _ (king_of_kind _ _ (pseudo_own_f p m hp) h1))
  have hb := apply_b_simple p m hnep (fun h => hnk h.1)
  have hft := pseudo_ne p m hp
  have hprom := pseudo_promo p m hp
  have hto : own p.wtm (apply p m).b[m.t] = true ∧ (apply p m).b[m.t] ≠ (if p.wtm then WKING else BKING) := by
    rw [hb m.t, if_pos rfl]
    by_cases h0 : m.promo = 0
    · rw [h0]; simp only [bne_self_eq_false, Bool.false_eq_true, if_false]
      refine ⟨pseudo_own_f p m hp, ?_⟩
      intro e; exact hfk (hk.2 _ e)
    · have : (m.promo != 0) = true := bne_iff_ne.2 h0
      rw [this]; simp only [if_true]
      exact promo_own _ _ hprom h0
  have htk : m.t ≠ k := by
    intro e
    have := pseudo_nown_t p m hp
    subst e
    rw [hk.1, own_king] at this; cases this
  refine ⟨⟨hft, pseudo_own_f p m hp, hto.1, ?_, ?_⟩, ?_, ?_⟩
  · rw [hb m.f, if_neg hft, if_pos rfl]
  · intro q h1 h2; rw [hb q, if_neg h2, if_neg h1]
  · rw [hb k, if_neg (Ne.symm htk), if_neg (Ne.symm hfk)]; exact hk.1
  · intro s hs
    rw [hb s] at hs
    by_cases e1 : s = m.t
    · have hto' := hto.2
      rw [hb m.t, if_pos rfl] at hto'
      rw [if_pos e1] at hs; exact absurd hs hto'
    · rw [if_neg e1] at hs
      by_cases e2 : s = m.f
      · rw [if_pos e2] at hs
        cases hw : p.wtm <;> rw [hw] at hs <;> cases hs
      · rw [if_neg e2] at hs; exact hk.2 s hs

/-- a pseudo-legal move of a piece other than the king that does not go to the e.p. square: only the from- and
    to-squares change, and the king stays where it is -/
theorem simple_of_pseudo (p : Pos) (m : Mv) (hp : pseudo p m = true) (k : Sq) (hk : KingAt p.b p.wtm k)
    (hfk : m.f ≠ k) (hep : p.ep ≠ some m.t) :
    SimpleMove p.b (apply p m).b p.wtm m.f m.t ∧ KingAt (apply p m).b p.wtm k := by
  apply simple_of_pseudo' p m hp k hk hfk
  unfold PosImpl.isEpS
  have : (p.ep == some m.t) = false := by simpa using hep
  rw [this]; simp

theorem inCheck_of_kingAt (b : Board) (hv : ValidB b) (w : Bool) (k : Sq) (hk : KingAt b w k) :
    Chess.inCheck b w = sqAttacked b w k (occBB b) := by
  unfold Chess.inCheck
  rw [kingSq_of_kingAt b w k hk, sqAttacked_spec b hv]

/-! ## `removeIllegal` -/

/-- **`MoveGen::removeIllegal` keeps exactly the moves after which the mover's king is not attacked** (order kept) -/
theorem removeIllegal_eq (p : Pos) (k : Sq) (hv : ValidB p.b) (hk : KingAt p.b p.wtm k) (l : List Mv)
    (hl : ∀ m ∈ l, pseudo p m = true) :
    removeIllegal p k l = l.filter fun m => !Chess.inCheck (apply p m).b p.wtm := by
  unfold removeIllegal
  simp only
  split
  · rename_i hchk
    apply List.filter_congr
    intro m hm
    have hp := hl m hm
    split
    · rename_i hc
      simp only [Bool.and_eq_true, bne_iff_ne, ne_eq, and_sqBit_eq_zero, Bool.not_eq_true', tst_or, Bool.or_eq_false_iff, tst_pcBB,
        beq_eq_false_iff_ne] at hc
      obtain ⟨⟨hfk, ⟨hr, hb⟩, hkn⟩, hep⟩ := hc
      obtain ⟨hs, hk'⟩ := simple_of_pseudo p m hp k hk hfk hep
      have hv' := validB_apply p hv m hp
      rw [inCheck_of_kingAt _ hv' _ k hk']
      have := hs.still_attacked hv hv' k hchk (by rintro (h | h) <;> simp_all) (fun h => hkn h.2)
      rw [this]; rfl
    · rw [inCheckAfter_eq p hv m hp]
  · rename_i hchk
    apply List.filter_congr
    intro m hm
    have hp := hl m hm
    split
    · rename_i hc
      simp only [Bool.and_eq_true, bne_iff_ne, ne_eq, and_sqBit_eq_zero, Bool.not_eq_true', tst_or, Bool.or_eq_false_iff] at hc
      obtain ⟨⟨hfk, hr, hb⟩, hep⟩ := hc
      obtain ⟨hs, hk'⟩ := simple_of_pseudo p m hp k hk hfk hep
      have hv' := validB_apply p hv m hp
      rw [inCheck_of_kingAt _ hv' _ k hk']
      have := hs.not_attacked_after hv hv' k (by simpa [inCheckK] using hchk) (by rintro (h | h) <;> simp_all)
      rw [this]; rfl
    · rw [inCheckAfter_eq p hv m hp]

/-! ## `isLegal`, branch by branch -/

/-- what `isLegal` has to return for a pseudo-legal move -/
def safeAfter (p : Pos) (m : Mv) : Bool := !Chess.inCheck (apply p m).b p.wtm

/-- in check (moveGen.cpp:625-638) -/
theorem isLegal_inCheck (p : Pos) (k : Sq) (hv : ValidB p.b) (hk : KingAt p.b p.wtm k) (m : Mv) (hp : pseudo p m = true)
    (hchk : Chess.inCheck p.b p.wtm = true) : isLegal p k m true = safeAfter p m := by
  unfold isLegal safeAfter
  simp only [if_true]
  split
  · rename_i hc
    simp only [Bool.and_eq_true, bne_iff_ne, ne_eq, and_sqBit_eq_zero, Bool.not_eq_true', tst_and, tst_pcBB,
      Bool.and_eq_false_iff, knightAttacks, tst_bbSq, beq_eq_false_iff_ne] at hc
    obtain ⟨⟨hfk, hep⟩, ⟨hr, hb⟩, hkn⟩ := hc
    obtain ⟨hs, hk'⟩ := simple_of_pseudo p m hp k hk hfk hep
    have hv' := validB_apply p hv m hp
    rw [inCheck_of_kingAt _ hv' _ k hk']
    rw [inCheck_of_kingAt _ hv _ k hk] at hchk
    have := hs.still_attacked hv hv' k hchk (by rintro (h | h) <;> simp_all)
      (fun h => by rcases hkn with h' | h' <;> simp_all)
    rw [this]; rfl
  · rw [inCheckAfter_eq p hv m hp]

/-- not in check, a piece the king does not see along a ray moves (moveGen.cpp:644-650) -/
theorem isLegal_notVisible (p : Pos) (k : Sq) (hv : ValidB p.b) (hk : KingAt p.b p.wtm k) (m : Mv) (hp : pseudo p m = true)
    (hchk : Chess.inCheck p.b p.wtm = false) (hfk : m.f ≠ k) (hep : p.ep ≠ some m.t) (hnv : ¬ Visible (occBB p.b) k m.f) :
    safeAfter p m = true := by
  unfold safeAfter
  obtain ⟨hs, hk'⟩ := simple_of_pseudo p m hp k hk hfk hep
  have hv' := validB_apply p hv m hp
  rw [inCheck_of_kingAt _ hv' _ k hk']
  rw [inCheck_of_kingAt _ hv _ k hk] at hchk
  rw [hs.not_attacked_after hv hv' k hchk hnv]; rfl

/-- not in check, an ordinary king move (moveGen.cpp:640-642): the destination is tested with the king lifted off -/
theorem isLegal_kingStep (p : Pos) (k : Sq) (hv : ValidB p.b) (hk : KingAt p.b p.wtm k) (m : Mv) (hp : pseudo p m = true)
    (hfk : m.f = k) (hnc : m.t.val ≠ m.f.val + 2 ∧ m.t.val + 2 ≠ m.f.val) :
    (!sqAttacked p.b p.wtm m.t (occBB p.b &&& ~~~sqBit m.f)) = safeAfter p m := by
  unfold safeAfter
  subst hfk
  have hkind : kind p.b[m.f] = 1 := by rw [hk.1]; exact kind_king _
  have hnep : PosImpl.isEpS p m = false := by
    unfold PosImpl.isEpS; rw [getP_sq, hkind]; rfl
  have hb := apply_b_simple p m hnep (fun h => by omega)
  have hft := pseudo_ne p m hp
  have hpr : m.promo = 0 := PosImpl.pseudo_other p m hp (by rw [getP_sq, hkind]; decide)
  have hbf : p.b[m.f] = (if p.wtm then WKING else BKING) := hk.1
  have hk' : KingAt (apply p m).b p.wtm m.t := by
    constructor
    · rw [hb m.t, if_pos rfl, hpr]; simpa using hbf
    · intro s hs
      rw [hb s] at hs
      by_cases e1 : s = m.t
      · exact e1
      · rw [if_neg e1] at hs
        by_cases e2 : s = m.f
        · rw [if_pos e2] at hs
          cases hw : p.wtm <;> rw [hw] at hs <;> cases hs
        · rw [if_neg e2] at hs
          exact absurd (hk.2 s hs) e2
  have hv' := validB_apply p hv m hp
  rw [inCheck_of_kingAt _ hv' _ m.t hk', sqAttacked_spec _ hv']
  congr 1
  apply sqAttacked_eq
  · intro q hq
    rw [tst_and, tst_not, tst_sqBit, tst_occBB _ hv, hb q, if_neg hq]
    by_cases e2 : q = m.f
    · simp [e2]
    · simp [e2]
  · intro s hs ho
    rw [hb s, if_neg hs]
    by_cases e2 : s = m.f
    · exfalso
      rw [hb s, if_neg hs, if_pos e2, own_zero, e2, own_excl _ _ (pseudo_own_f p m hp)] at ho
      rcases ho with h | h <;> cases h
    · rw [if_neg e2]

end Chess.Texel
