import TexelVerif.Chess.SAN
/-!
# PGN scanner, parser and reader (`lib/texelutillib/gametree.cpp:41-340, 598-653`)

* `tokenChars` — the character stream `PgnScanner::getTokenChar` delivers: the input with `%`-escape lines
  (a `%` in column 0 up to and including the next line end) removed, followed by the one `'\n'` the scanner
  synthesises at end of input.  `returnTokenChar` is "do not consume", so the stream is a pure function of the input.
* `nextTok` — `PgnScanner::nextToken` on that stream (structural recursion: the scanner terminates on every input,
  in particular inside an unterminated comment or string, where the C++ catches its end-of-input exception and
  returns the END token).
* `parsePgn` / `readPGN` — the parser over an arena of nodes (index = the C++ `shared_ptr<Node>`), mirroring the
  pointer structure including "variation opened before any move of this line goes to the parent's parent".
  The recursion is bounded by explicit fuel (one unit per token consumed or node visited); running out of fuel is a
  distinguished outcome that the driver prints and that the differential has never seen.
-/
namespace Chess.Pgn

inductive TT where
  | string | integer | period | asterisk | lbracket | rbracket | lparen | rparen | nag | symbol | comment | eof
deriving DecidableEq, Repr

structure Tok where
  ty : TT
  s : List Char := []
deriving DecidableEq, Repr

def isNl (c : Char) : Bool := c == '\n' || c == '\r'
/-- `isspace` in the "C" locale -/
def isSpaceC (c : Char) : Bool := c == ' ' || (9 ≤ c.toNat && c.toNat ≤ 13)
def isDigitC (c : Char) : Bool := 48 ≤ c.toNat && c.toNat ≤ 57

/-- `getTokenChar` without the end-of-input handling: drop every line that starts with '%' in column 0 -/
def stripEsc : List Char → (col0 : Bool) → (skipping : Bool) → List Char
  | [], _, _ => []
  | c :: cs, col0, true => if isNl c then stripEsc cs true false else stripEsc cs col0 true
  | c :: cs, col0, false => if c == '%' && col0 then stripEsc cs col0 true else c :: stripEsc cs (isNl c) false

def tokenChars (inp : List Char) : List Char := stripEsc inp true false ++ ['\n']

/-- split at the first character satisfying `p`; `none` if there is none (the C++ runs into end of input) -/
def splitAtFirst (p : Char → Bool) : List Char → Option (List Char × List Char)
  | [] => none
  | c :: cs => if p c then some ([], cs) else (splitAtFirst p cs).map fun (a, b) => (c :: a, b)

/-- body of a string token: up to the closing quote, a backslash takes the next character literally
    (`esc` = the previous character was the backslash) -/
def stringBody : List Char → (esc : Bool) → Option (List Char × List Char)
  | [], _ => none
  | c :: cs, true => (stringBody cs false).map fun (a, b) => (c :: a, b)
  | c :: cs, false =>
    if c == '"' then some ([], cs)
    else if c == '\\' then stringBody cs true
    else (stringBody cs false).map fun (a, b) => (c :: a, b)

/-- longest prefix of characters satisfying `p`, and the rest -/
def takeRun (p : Char → Bool) : List Char → List Char × List Char
  | [] => ([], [])
  | c :: cs => if p c then let (a, b) := takeRun p cs; (c :: a, b) else ([], c :: cs)

def symTerm : List Char := ['.', '*', '[', ']', '(', ')', '{', ';', '"', '$']

/-- which arm of `PgnScanner::nextToken` a non-blank first character selects -/
inductive Arm where
  | period | asterisk | lbracket | rbracket | lparen | rparen | brace | semicolon | quote | dollar | other
deriving DecidableEq, Repr

def armOf (c : Char) : Arm :=
  if c == '.' then .period else if c == '*' then .asterisk else if c == '[' then .lbracket
  else if c == ']' then .rbracket else if c == '(' then .lparen else if c == ')' then .rparen
  else if c == '{' then .brace else if c == ';' then .semicolon else if c == '"' then .quote
  else if c == '$' then .dollar else .other

/-- the token that starts with the non-blank character `c` -/
def tokAfter (c : Char) (cs : List Char) : Tok × List Char :=
  match armOf c with
  | .period => ({ ty := .period }, cs)
  | .asterisk => ({ ty := .asterisk }, cs)
  | .lbracket => ({ ty := .lbracket }, cs)
  | .rbracket => ({ ty := .rbracket }, cs)
  | .lparen => ({ ty := .lparen }, cs)
  | .rparen => ({ ty := .rparen }, cs)
  | .brace =>
    match splitAtFirst (· == '}') cs with
    | some (body, rest) => ({ ty := .comment, s := body }, rest)
    | none => ({ ty := .eof }, [])
  | .semicolon =>
    match splitAtFirst isNl cs with
    | some (body, rest) => ({ ty := .comment, s := body }, rest)
    | none => ({ ty := .eof }, [])
  | .quote =>
    match stringBody cs false with
    | some (body, rest) => ({ ty := .string, s := body }, rest)
    | none => ({ ty := .eof }, [])
  | .dollar =>
    match takeRun isDigitC cs with
    | (_, []) => ({ ty := .eof }, [])
    | (ds, rest) => ({ ty := .nag, s := ds }, rest)
  | .other =>
    match takeRun (fun d => !(isSpaceC d || symTerm.contains d)) cs with
    | (_, []) => ({ ty := .eof }, [])
    | (more, rest) => ({ ty := if (c :: more).all isDigitC then .integer else .symbol, s := c :: more }, rest)

/-- `PgnScanner::nextToken` (without the put-back stack): skip blanks, then one token; END when the stream ends
    before the token is complete (the C++ catches its own end-of-input exception) -/
def nextTok : List Char → Tok × List Char
  | [] => ({ ty := .eof }, [])
  | c :: cs => if isSpaceC c then nextTok cs else tokAfter c cs

/-- scanner state: the put-back stack (top first) and the remaining character stream -/
structure Sc where
  saved : List Tok := []
  cs : List Char

def Sc.next (sc : Sc) : Tok × Sc :=
  match sc.saved with
  | t :: r => (t, { sc with saved := r })
  | [] => let (t, rest) := nextTok sc.cs; (t, { sc with cs := rest })

def Sc.putBack (sc : Sc) (t : Tok) : Sc := { sc with saved := t :: sc.saved }

/-- `nextTokenDropComments`; fuel ≥ number of remaining characters + saved tokens + 1 -/
def Sc.nextDC : Nat → Sc → Tok × Sc
  | 0, sc => ({ ty := .eof }, sc)
  | f + 1, sc => let (t, sc') := sc.next; if t.ty == .comment then Sc.nextDC f sc' else (t, sc')

/-! ## the tree -/

structure NodeR where
  move : Option Mv := none
  nag : Int := 0
  pre : List Char := []
  post : List Char := []
  parent : Option Nat := none
  children : List Nat := []
  posBefore : Option Pos := none     -- position before `move` (what `unMakeMove` with the stored UndoInfo restores)
  txt : List Char := []              -- model-only: the SYMBOL text the move was read from (for the token-level cross-check)

inductive PErr where
  | oob            -- an unchecked string index would have been out of range
  | invalidMove    -- ChessParseError("Invalid move")
  | fen (e : FenErr)
  | fuel
deriving DecidableEq, Repr

structure PState where
  arena : Array NodeR
  sc : Sc

/-- `Node::addChild` -/
def addChild (st : PState) (pos : Pos) (node : Nat) (pending : NodeR) : PState × Pos × Nat :=
  let id := st.arena.size
  let arena := st.arena.push { pending with parent := some node, posBefore := some pos }
  let arena := arena.modify node fun n => { n with children := n.children ++ [id] }
  ({ st with arena := arena }, (match pending.move with | some m => apply pos m | none => pos), id)

def strEq (a : List Char) (b : String) : Bool := a == b.toList

def annToNag (ann : List Char) : Nat :=
  if strEq ann "!" then 1 else if strEq ann "?" then 2 else if strEq ann "!!" then 3 else if strEq ann "??" then 4
  else if strEq ann "!?" then 5 else if strEq ann "?!" then 6 else 0

def isAnn (c : Char) : Bool := c == '!' || c == '?'

/-- `while (movLen > 0) { c = token[movLen-1]; if (c is ! or ?) movLen--; else break; }` -/
def annStart (tok : Array Char) : Nat → Except PErr Nat
  | 0 => .ok 0
  | k + 1 =>
    match tok[k]? with
    | none => .error .oob
    | some c => if isAnn c then annStart tok k else .ok (k + 1)

/-- skip a parenthesised group at the root (`nestLevel` loop); the flag is false when END was reached ("just give up") -/
def skipGroup : Nat → Sc → Nat → Sc × Bool
  | 0, sc, _ => (sc, false)
  | f + 1, sc, level =>
    let (t, sc) := sc.next
    match t.ty with
    | .lparen => skipGroup f sc (level + 1)
    | .rparen => if level ≤ 1 then (sc, true) else skipGroup f sc (level - 1)
    | .eof => (sc, false)
    | _ => skipGroup f sc level

/-- the local variables of `Node::parsePgn`: position, current node, the detached `nodeToAdd`, `moveAdded` -/
structure Cur where
  pos : Pos
  node : Nat
  pending : NodeR := {}
  moveAdded : Bool := false

/-- `if (moveAdded) { addChild(pos, node, nodeToAdd); moveAdded = false; }` -/
def flush (st : PState) (c : Cur) : PState × Cur :=
  if c.moveAdded then
    let r := addChild st c.pos c.node c.pending
    (r.1, { pos := r.2.1, node := r.2.2, pending := {}, moveAdded := false })
  else (st, c)

/-- the SYMBOL arm before the move is looked up: strip a final '+', strip a `!`/`?` suffix and put the NAG back.
    `tok.token[tok.token.length() - 1]` and `tok.token[movLen - 1]` are checked accesses. -/
def symbolPrep (tok : List Char) (sc : Sc) : Except PErr (Array Char × Sc) :=
  let t := tok.toArray
  match t[t.size - 1]? with
  | none => .error .oob
  | some lastChar =>
    let t := if lastChar == '+' then t.extract 0 (t.size - 1) else t
    if isAnn lastChar then
      match annStart t (t.size - 1) with
      | .error e => .error e
      | .ok movLen =>
        let nag := annToNag (t.extract movLen t.size).toList
        .ok (t.extract 0 movLen, if nag > 0 then sc.putBack { ty := .nag, s := (toString nag).toList } else sc)
    else .ok (t, sc)

def isResultText (s : List Char) : Bool := strEq s "1-0" || strEq s "0-1" || strEq s "1/2-1/2" || strEq s "*"

/-- `Node::parsePgn(scanner, pos, node)` -/
def parsePgn : Nat → PState → Cur → Except PErr PState
  | 0, _, _ => .error .fuel
  | f + 1, st0, c =>
    let tok := st0.sc.next.1
    let st : PState := { st0 with sc := st0.sc.next.2 }
    match tok.ty with
    | .integer | .period => parsePgn f st c
    | .lparen =>
      let st1 := (flush st c).1
      let c1 := (flush st c).2
      match st1.arena[c1.node]? with
      | none => .error .oob
      | some nd =>
        match nd.parent, nd.posBefore with
        | some par, some pos2 =>
          match parsePgn f st1 { pos := pos2, node := par } with
          | .error e => .error e
          | .ok st' => parsePgn f st' c1
        | _, _ =>
          match skipGroup f st1.sc 1 with
          | (sc', false) => .ok { st1 with sc := sc' }     -- broken PGN: return from parsePgn without adding anything
          | (sc', true) => parsePgn f { st1 with sc := sc' } c1
    | .nag =>
      parsePgn f st (if c.moveAdded then { c with pending := { c.pending with nag := (stoi tok.s).getD 0 } } else c)
    | .symbol =>
      if isResultText tok.s then .ok (flush st c).1
      else
        match symbolPrep tok.s st.sc with
        | .error e => .error e
        | .ok (t, sc) =>
          let st : PState := { st with sc := sc }
          if t.size > 0 then
            let st1 := (flush st c).1
            let c1 := (flush st c).2
            match stringToMove c1.pos t.toList with
            | none => .error .invalidMove
            | some m => parsePgn f st1 { c1 with pending := { c1.pending with move := some m, txt := t.toList }, moveAdded := true }
          else parsePgn f st c
    | .comment =>
      parsePgn f st (if c.moveAdded then { c with pending := { c.pending with post := c.pending.post ++ tok.s } }
                     else { c with pending := { c.pending with pre := c.pending.pre ++ tok.s } })
    | _ => .ok (flush st c).1

structure Game where
  tags : List (List Char × List Char)     -- every tag pair in file order
  start : Pos
  arena : Array NodeR                     -- node 0 is the root

/-- the tag section of `PgnReader::readPGN`; returns the tag pairs and the scanner with the offending token put back -/
def readTags : Nat → Sc → Tok → List (List Char × List Char) → List (List Char × List Char) × Sc
  | 0, sc, tok, acc => (acc, sc.putBack tok)
  | f + 1, sc, tok, acc =>
    if tok.ty != .lbracket then (acc, sc.putBack tok)
    else
      let fuelDC := 2 * sc.cs.length + sc.saved.length + 2
      let (tok, sc) := sc.nextDC fuelDC
      if tok.ty != .symbol then (acc, sc.putBack tok) else
      let name := tok.s
      let (tok, sc) := sc.nextDC fuelDC
      if tok.ty != .string then (acc, sc.putBack tok) else
      let value := tok.s
      let (tok, sc) := sc.nextDC fuelDC
      let rec broken : Nat → Sc → Tok → TT → List Char → List Char × Sc
        | 0, sc, _, _, v => (v, sc)
        | g + 1, sc, tok, prev, v =>
          if tok.ty == .string || tok.ty == .symbol then
            let v := if tok.ty != prev then v ++ ['"'] else v
            let v := if tok.ty == .symbol && prev == .symbol then v ++ [' '] else v
            let v := v ++ tok.s
            let (tok', sc') := sc.nextDC fuelDC
            broken g sc' tok' tok.ty v
          else (v, sc)
      let (value, sc) := if tok.ty != .rbracket then broken fuelDC sc tok .string value else (value, sc)
      let (tok, sc) := sc.next
      readTags f sc tok (acc ++ [(name, value)])

def startFENChars : List Char := startFEN.toList

/-- `PgnReader::readPGN`: `none` = "no more games" -/
def readPGN (sc : Sc) : Except PErr (Option Game × Sc) :=
  let fuel := 2 * sc.cs.length + sc.saved.length + 4
  let (tok, sc) := sc.next
  let (tags, sc) := readTags fuel sc tok []
  let fen := tags.foldl (fun acc (n, v) => if strEq n "FEN" then v else acc) startFENChars
  match readFEN (String.ofList fen) with
  | .error e => .error (.fen e)
  | .ok start =>
    match parsePgn (4 * fuel) { arena := #[{}], sc := sc } { pos := start, node := 0 } with
    | .error e => .error e
    | .ok st =>
      let rootKids := match st.arena[0]? with | some r => r.children.length | none => 0
      .ok (if tags.isEmpty && rootKids == 0 then none else some { tags := tags, start := start, arena := st.arena }, st.sc)

/-- all games of a byte string, as the harness loop reads them; the error (if any) ends the list -/
def readAll : Nat → Sc → List Game → List Game × Option PErr
  | 0, _, acc => (acc, some .fuel)
  | f + 1, sc, acc =>
    match readPGN sc with
    | .error e => (acc, some e)
    | .ok (none, _) => (acc, none)
    | .ok (some g, sc') => readAll f sc' (acc ++ [g])

/-! ## the writer: `GameTree::getGameTreeString` on the arena -/

/-- text of the children of `node` as `getGameTreeString` writes them; `pos` is the position at `node` -/
def writeFrom : Nat → Array NodeR → Nat → Pos → List Char
  | 0, _, _, _ => []
  | f + 1, arena, node, pos =>
    match arena[node]? with
    | none => []
    | some nd =>
      match nd.children with
      | [] => []
      | c0 :: rest =>
        let mv (c : Nat) : Option Mv := (arena[c]?).bind (·.move)
        let txt (c : Nat) : List Char := match mv c with | some m => moveToString pos m false | none => []
        let sub (c : Nat) : List Char :=
          match mv c with
          | some m => let s := writeFrom f arena c (apply pos m); if s.isEmpty then [] else ' ' :: s
          | none => []
        txt c0 ++ (rest.flatMap fun c => " (".toList ++ txt c ++ sub c ++ [')']) ++ sub c0

end Chess.Pgn
