import TexelVerif.Chess.SANLemmas
/-!
# The move-text round trip (property C17), part 4: legality facts, then the matching argument
-/
namespace Chess

/-- shape of a pseudo-legal pawn move -/
def PawnAlt (p : Pos) (m : Mv) : Prop :=
  let w := p.wtm
  let fwd : Int := if w then 1 else -1
  let d := dxy m.f m.t
  (d.1 = 0 ∧ d.2 = fwd ∧ p.at m.t = 0) ∨
  (d.1 = 0 ∧ d.2 = 2 * fwd ∧ p.at m.t = 0 ∧
     (match mkSq? m.f.x ((m.f.y : Int) + fwd) with | some q => p.at q == 0 | none => false) = true) ∨
  (d.1.natAbs = 1 ∧ d.2 = fwd ∧ (p.at m.t ≠ 0 ∨ p.ep = some m.t))

theorem pseudo_pawn (p : Pos) (m : Mv) (h : pseudo p m = true) (hk : kind (p.at m.f) = 6) :
    promoOk p.wtm m = true ∧ PawnAlt p m := by
  unfold pseudo at h
  simp only [hk, Bool.and_eq_true] at h
  obtain ⟨_, hp, halt⟩ := h
  refine ⟨hp, ?_⟩
  unfold PawnAlt
  simp only [Bool.or_eq_true, Bool.and_eq_true, beq_iff_eq, bne_iff_ne] at halt
  rcases halt with (⟨⟨h1, h2⟩, h3⟩ | ⟨⟨⟨⟨h1, h2⟩, _⟩, h3⟩, h4⟩) | ⟨⟨h1, h2⟩, h3⟩
  · exact Or.inl ⟨h1, h2, h3⟩
  · exact Or.inr (Or.inl ⟨h1, h2, h3, h4⟩)
  · exact Or.inr (Or.inr ⟨h1, h2, h3⟩)

theorem pseudo_nonpawn_promo (p : Pos) (m : Mv) (h : pseudo p m = true) (hk : kind (p.at m.f) ≠ 6) : m.promo = 0 := by
  unfold pseudo at h
  simp only [Bool.and_eq_true] at h
  obtain ⟨_, h⟩ := h
  split at h
  · rename_i hk'; exact absurd hk' hk
  · simp only [Bool.and_eq_true, beq_iff_eq] at h; exact h.1
  · simp only [Bool.and_eq_true, beq_iff_eq] at h; exact h.1

end Chess

namespace Chess

theorem own_ne_zero (w : Bool) (pc : Pc) (h : own w pc = true) : pc ≠ 0 := by
  intro h0; subst h0; cases w <;> simp [own, isWhite, isBlack] at h

/-- two pseudo-legal moves of pawns of the side to move from the same file to the same square start on the same square -/
theorem pawn_from_unique (p : Pos) (m m' : Mv) (h : pseudo p m = true) (h' : pseudo p m' = true)
    (hk : kind (p.at m.f) = 6) (hk' : kind (p.at m'.f) = 6) (ht : m.t = m'.t) (hx : m.f.x = m'.f.x) : m.f = m'.f := by
  have a := (pseudo_pawn p m h hk).2
  have a' := (pseudo_pawn p m' h' hk').2
  have ho := own_ne_zero _ _ (pseudo_own p m h)
  have ho' := own_ne_zero _ _ (pseudo_own p m' h')
  unfold PawnAlt dxy at a a'
  simp only at a a'
  rw [← ht] at a'
  apply sq_ext _ _ hx
  have hfx : (m.f.x : Int) = m'.f.x := by rw [hx]
  rcases a with ⟨a1, a2, _⟩ | ⟨a1, a2, _, a4⟩ | ⟨a1, a2, _⟩ <;>
  rcases a' with ⟨b1, b2, _⟩ | ⟨b1, b2, _, b4⟩ | ⟨b1, b2, _⟩
  · omega
  · -- m single push, m' double push: the square m' jumps over is m.f, which holds a pawn
    exfalso
    have : mkSq? (m'.f.x : Int) ((m'.f.y : Int) + if p.wtm then 1 else -1) = some m.f := by
      have := mkSq?_xy m.f
      rw [← this]; congr 1 <;> omega
    rw [this] at b4
    simp only [beq_iff_eq] at b4
    exact ho b4
  · omega
  · exfalso
    have : mkSq? (m.f.x : Int) ((m.f.y : Int) + if p.wtm then 1 else -1) = some m'.f := by
      have := mkSq?_xy m'.f
      rw [← this]; congr 1 <;> omega
    rw [this] at a4
    simp only [beq_iff_eq] at a4
    exact ho' a4
  · omega
  · omega
  · omega
  · omega
  · omega

/-- a pawn move that `isCapture` does not flag stays on its file -/
theorem pawn_noncapture_file (p : Pos) (m : Mv) (h : pseudo p m = true) (hpc : p.at m.f = ownPawn p.wtm)
    (hc : sanIsCapture p m = false) : m.f.x = m.t.x := by
  have hk : kind (p.at m.f) = 6 := by rw [hpc]; cases p.wtm <;> decide
  have a := (pseudo_pawn p m h hk).2
  unfold PawnAlt dxy at a
  simp only at a
  unfold sanIsCapture at hc
  simp only [Bool.or_eq_false_iff, Bool.and_eq_false_iff, bne_eq_false_iff_eq, beq_eq_false_iff_ne, ne_eq] at hc
  rcases a with ⟨a1, _⟩ | ⟨a1, _⟩ | ⟨_, _, a3⟩
  · omega
  · omega
  · exfalso
    rcases a3 with a3 | a3
    · exact a3 hc.1
    · rcases hc.2 with h1 | h1
      · exact h1 hpc
      · exact h1 a3

end Chess

/-! ## the shape of the emitted text -/
namespace Chess

def letterOpt (pc : Pc) : Option Char := (pieceLetter pc).head?

theorem pieceLetter_eq (pc : Pc) : pieceLetter pc = (letterOpt pc).toList := by
  unfold letterOpt pieceLetter
  repeat' split
  all_goals rfl

theorem letterOpt_isLetter (pc : Pc) (c : Char) (h : letterOpt pc = some c) : IsLetter c := by
  unfold letterOpt pieceLetter at h
  unfold IsLetter
  repeat' split at h
  all_goals simp at h
  all_goals simp [← h]

def disambShape (legal : List Mv) (p : Pos) (m : Mv) : Option Nat × Option Nat :=
  let st := sameTarget legal p m
  if st.length < 2 then (none, none)
  else if (st.filter fun m' => m'.f.x == m.f.x).length < 2 then (some m.f.x, none)
  else if (st.filter fun m' => m'.f.y == m.f.y).length < 2 then (none, some m.f.y)
  else (some m.f.x, some m.f.y)

def shapeOf (legal : List Mv) (p : Pos) (m : Mv) (long : Bool) : Shape :=
  let pc := p.at m.f
  let cap := sanIsCapture p m
  { letter := letterOpt pc
    fx := if long then some m.f.x else if pc == ownPawn p.wtm then (if cap then some m.f.x else none) else (disambShape legal p m).1
    fy := if long then some m.f.y else if pc == ownPawn p.wtm then none else (disambShape legal p m).2
    sep := if long then some cap else if cap then some true else none
    tx := m.t.x
    ty := m.t.y
    promo := letterOpt m.promo }

theorem sanBody_eq_render (legal : List Mv) (p : Pos) (m : Mv) (long : Bool) :
    sanBody legal p m long = (shapeOf legal p m long).render := by
  unfold sanBody shapeOf Shape.render disambig disambShape
  simp only [pieceLetter_eq]
  cases long <;> cases sanIsCapture p m <;> simp [sepChars]
  all_goals
    by_cases h1 : p.at m.f = ownPawn p.wtm <;>
    by_cases h2 : (sameTarget legal p m).length < 2 <;>
    by_cases h3 : (List.filter (fun m' => m'.f.x == m.f.x) (sameTarget legal p m)).length < 2 <;>
    by_cases h4 : (List.filter (fun m' => m'.f.y == m.f.y) (sameTarget legal p m)).length < 2 <;>
    simp [h1, h2, h3, h4]

theorem Sq.x_lt (s : Sq) : s.x < 8 := by unfold Sq.x; omega
theorem Sq.y_lt (s : Sq) : s.y < 8 := by unfold Sq.y; have := s.isLt; omega

theorem shapeOf_valid (legal : List Mv) (p : Pos) (m : Mv) (long : Bool) : (shapeOf legal p m long).Valid := by
  unfold Shape.Valid shapeOf disambShape
  refine ⟨fun c h => letterOpt_isLetter _ c h, ?_, ?_, Sq.x_lt _, Sq.y_lt _, fun c h => letterOpt_isLetter _ c h⟩
  · intro x hx
    simp only at hx
    repeat' split at hx
    all_goals simp at hx
    all_goals (subst hx; exact Sq.x_lt _)
  · intro y hy
    simp only at hy
    repeat' split at hy
    all_goals simp at hy
    all_goals (subst hy; exact Sq.y_lt _)

end Chess

/-! ## the matching argument -/
namespace Chess

theorem matchField (a b : Int) : (!(decide (a ≥ 0) && (a != b))) = true ↔ (a < 0 ∨ a = b) := by
  by_cases h1 : a ≥ 0 <;> by_cases h2 : a = b <;> simp [h1, h2] <;> omega

theorem infoMatches_iff (p : Pos) (info : MoveInfo) (m : Mv) : infoMatches p info m = true ↔
    (info.piece < 0 ∨ info.piece = ((p.at m.f).toNat : Int)) ∧ (info.fromX < 0 ∨ info.fromX = (m.f.x : Int)) ∧
    (info.fromY < 0 ∨ info.fromY = (m.f.y : Int)) ∧ (info.toX < 0 ∨ info.toX = (m.t.x : Int)) ∧
    (info.toY < 0 ∨ info.toY = (m.t.y : Int)) ∧ (info.promPiece < 0 ∨ info.promPiece = (m.promo.toNat : Int)) := by
  unfold infoMatches
  simp only [Bool.and_eq_true, matchField, and_assoc]

end Chess

namespace Chess

/-- a list that holds exactly the legal moves, each once (what `genLegal p` is) -/
structure LegalList (p : Pos) (L : List Mv) : Prop where
  mem : ∀ m, m ∈ L ↔ legalB p m = true
  nodup : L.Nodup

theorem genLegal_legalList (p : Pos) : LegalList p (genLegal p) := ⟨mem_genLegal p, genLegal_nodup p⟩

theorem mv_ext (m m' : Mv) (hf : m'.f = m.f) (ht : m'.t = m.t) (hp : m'.promo = m.promo) : m' = m := by
  cases m; cases m'; simp_all

theorem letterOpt_zero : letterOpt 0 = none := by decide

/-- the promotion field derived from the emitted promotion letter is the move's promotion piece -/
theorem promo_field (p : Pos) (m : Mv) (hm : legalB p m = true) :
    (match letterOpt m.promo with | some c => charToPiece p.wtm c | none => 0) = (m.promo.toNat : Int) := by
  have hps := legal_pseudo p m hm
  have h0 : m.promo = 0 → (match letterOpt m.promo with | some c => charToPiece p.wtm c | none => 0) = (m.promo.toNat : Int) := by
    intro h; rw [h, letterOpt_zero]; rfl
  by_cases hk : kind (p.at m.f) = 6
  · have hp := (pseudo_pawn p m hps hk).1
    unfold promoOk at hp
    by_cases hy : (m.t.y == (if p.wtm then 7 else 0)) = true
    · rw [if_pos hy] at hp
      obtain ⟨c, hc1, _, hc3⟩ := promo_letter p.wtm m.promo hp
      have : letterOpt m.promo = some c := by unfold letterOpt; rw [hc1]; rfl
      rw [this]; exact hc3
    · rw [if_neg hy] at hp
      exact h0 (by simpa using hp)
  · exact h0 (pseudo_nonpawn_promo p m hps hk)

theorem toNat_inj_int (a b : Pc) (h : (a.toNat : Int) = (b.toNat : Int)) : a = b := by
  have : a.toNat = b.toNat := by omega
  exact UInt8.toNat_inj.1 this

end Chess

namespace Chess

theorem info_piece (w : Bool) (s : Shape) : (s.info w).piece = (match s.letter with
    | some c => charToPiece w c
    | none => if s.fx.isSome && s.fy.isSome then -1 else ((ownPawn w).toNat : Int)) := rfl
theorem info_fromX (w : Bool) (s : Shape) : (s.info w).fromX = (match s.fx with | some x => (x : Int) | none => -1) := rfl
theorem info_fromY (w : Bool) (s : Shape) : (s.info w).fromY = (match s.fy with | some y => (y : Int) | none => -1) := rfl
theorem info_toX (w : Bool) (s : Shape) : (s.info w).toX = (s.tx : Int) := rfl
theorem info_toY (w : Bool) (s : Shape) : (s.info w).toY = (s.ty : Int) := rfl
theorem info_prom (w : Bool) (s : Shape) : (s.info w).promPiece = (match s.promo with | some c => charToPiece w c | none => 0) := rfl
theorem shapeOf_letter (L : List Mv) (p : Pos) (m : Mv) (long : Bool) : (shapeOf L p m long).letter = letterOpt (p.at m.f) := rfl
theorem shapeOf_promo (L : List Mv) (p : Pos) (m : Mv) (long : Bool) : (shapeOf L p m long).promo = letterOpt m.promo := rfl
theorem shapeOf_tx (L : List Mv) (p : Pos) (m : Mv) (long : Bool) : (shapeOf L p m long).tx = m.t.x := rfl
theorem shapeOf_ty (L : List Mv) (p : Pos) (m : Mv) (long : Bool) : (shapeOf L p m long).ty = m.t.y := rfl

/-- the from-file constraint, when present, is the move's own file; same for the rank -/
theorem shapeOf_fx (L : List Mv) (p : Pos) (m : Mv) (long : Bool) (x : Nat) (h : (shapeOf L p m long).fx = some x) : x = m.f.x := by
  unfold shapeOf disambShape at h
  simp only at h
  repeat' split at h
  all_goals simp at h
  all_goals exact h.symm

theorem shapeOf_fy (L : List Mv) (p : Pos) (m : Mv) (long : Bool) (y : Nat) (h : (shapeOf L p m long).fy = some y) : y = m.f.y := by
  unfold shapeOf disambShape at h
  simp only at h
  repeat' split at h
  all_goals simp at h
  all_goals exact h.symm

theorem sameTarget_mem (L : List Mv) (p : Pos) (m x : Mv) :
    x ∈ sameTarget L p m ↔ x ∈ L ∧ p.at x.f = p.at m.f ∧ x.t = m.t := by
  unfold sameTarget
  simp [List.mem_filter]

/-- **the matching core**: among the legal moves, exactly `m` satisfies the constraints parsed from `m`'s own text -/
theorem filter_matches (p : Pos) (L : List Mv) (m : Mv) (long : Bool) (hL : LegalList p L) (hm : legalB p m = true) :
    L.filter (infoMatches p ((shapeOf L p m long).info p.wtm)) = [m] := by
  have hmL : m ∈ L := (hL.mem m).2 hm
  have hps := legal_pseudo p m hm
  have hown := pseudo_own p m hps
  have hprom := promo_field p m hm
  have hkind := own_kind_pawn p.wtm (p.at m.f) hown
  -- the piece field
  have hpiece : ∀ c, letterOpt (p.at m.f) = some c → charToPiece p.wtm c = ((p.at m.f).toNat : Int) := by
    intro c hc
    by_cases hpw : p.at m.f = ownPawn p.wtm
    · rw [hpw] at hc; unfold letterOpt at hc; rw [pieceLetter_pawn] at hc; cases hc
    · obtain ⟨c', h1, _, h3⟩ := own_letter p.wtm (p.at m.f) hown hpw
      unfold letterOpt at hc; rw [h1] at hc
      cases hc; exact h3
  have hnoletter : letterOpt (p.at m.f) = none → p.at m.f = ownPawn p.wtm := by
    intro hn
    by_cases hpw : p.at m.f = ownPawn p.wtm
    · exact hpw
    · obtain ⟨c', h1, _, _⟩ := own_letter p.wtm (p.at m.f) hown hpw
      unfold letterOpt at hn; rw [h1] at hn; cases hn
  apply filter_eq_singleton _ _ _ hL.nodup hmL
  · -- `m` matches
    rw [infoMatches_iff, info_piece, info_fromX, info_fromY, info_toX, info_toY, info_prom, shapeOf_letter, shapeOf_promo,
      shapeOf_tx, shapeOf_ty]
    refine ⟨?_, ?_, ?_, Or.inr rfl, Or.inr rfl, Or.inr hprom⟩
    · cases hl : letterOpt (p.at m.f) with
      | some c => exact Or.inr (hpiece c hl)
      | none =>
        simp only
        split
        · exact Or.inl (by decide)
        · exact Or.inr (by rw [hnoletter hl])
    · cases hx : (shapeOf L p m long).fx with
      | none => exact Or.inl (by decide)
      | some x => exact Or.inr (by rw [shapeOf_fx L p m long x hx])
    · cases hy : (shapeOf L p m long).fy with
      | none => exact Or.inl (by decide)
      | some y => exact Or.inr (by rw [shapeOf_fy L p m long y hy])
  · -- any other legal move that matches is `m`
    intro m' hm'L hmatch
    have hm' := (hL.mem m').1 hm'L
    have hps' := legal_pseudo p m' hm'
    rw [infoMatches_iff, info_piece, info_fromX, info_fromY, info_toX, info_toY, info_prom, shapeOf_letter, shapeOf_promo,
      shapeOf_tx, shapeOf_ty, hprom] at hmatch
    obtain ⟨h1, h2, h3, h4, h5, h6⟩ := hmatch
    have ht : m'.t = m.t := sq_ext _ _ (by omega) (by omega)
    have hpr : m'.promo = m.promo := by apply toNat_inj_int; omega
    suffices hf : m'.f = m.f from mv_ext m m' hf ht hpr
    by_cases hlong : long = true
    · have hx : (shapeOf L p m long).fx = some m.f.x := by unfold shapeOf; simp [hlong]
      have hy : (shapeOf L p m long).fy = some m.f.y := by unfold shapeOf; simp [hlong]
      rw [hx] at h2; rw [hy] at h3
      simp only at h2 h3
      exact sq_ext _ _ (by omega) (by omega)
    · by_cases hpw : p.at m.f = ownPawn p.wtm
      · -- pawn move in short form
        have hl : letterOpt (p.at m.f) = none := by rw [hpw]; unfold letterOpt; rw [pieceLetter_pawn]; rfl
        have hy : (shapeOf L p m long).fy = none := by unfold shapeOf; simp [hlong, hpw]
        rw [hl, hy] at h1
        simp only [Option.isSome_none, Bool.and_false, Bool.false_eq_true, if_false] at h1
        have hpc' : p.at m'.f = ownPawn p.wtm := by
          apply toNat_inj_int
          rcases h1 with h1 | h1
          · omega
          · exact h1.symm
        have hk : kind (p.at m.f) = 6 := by rw [hpw]; cases p.wtm <;> decide
        have hk' : kind (p.at m'.f) = 6 := by rw [hpc']; cases p.wtm <;> decide
        have hfx : m.f.x = m'.f.x := by
          by_cases hcap : sanIsCapture p m = true
          · have hx : (shapeOf L p m long).fx = some m.f.x := by unfold shapeOf; simp [hlong, hpw, hcap]
            rw [hx] at h2; simp only at h2; omega
          · have hcap0 : sanIsCapture p m = false := by simpa using hcap
            have hcap' : sanIsCapture p m' = false := by
              unfold sanIsCapture at hcap0 ⊢; rw [ht, hpc']; rw [hpw] at hcap0; exact hcap0
            have e1 := pawn_noncapture_file p m hps hpw hcap0
            have e2 := pawn_noncapture_file p m' hps' hpc' hcap'
            rw [e1, e2, ht]
        exact (pawn_from_unique p m m' hps hps' hk hk' ht.symm hfx).symm
      · -- piece move in short form
        obtain ⟨c, hc1, _, hc3⟩ := own_letter p.wtm (p.at m.f) hown hpw
        have hl : letterOpt (p.at m.f) = some c := by unfold letterOpt; rw [hc1]; rfl
        rw [hl] at h1
        simp only at h1
        have hpc' : p.at m'.f = p.at m.f := by
          apply toNat_inj_int
          rcases h1 with h1 | h1
          · omega
          · rw [← h1, hc3]
        have hst : m ∈ sameTarget L p m := (sameTarget_mem L p m m).2 ⟨hmL, rfl, rfl⟩
        have hst' : m' ∈ sameTarget L p m := (sameTarget_mem L p m m').2 ⟨hm'L, hpc', ht⟩
        apply Classical.byContradiction
        intro hne
        have hne' : m' ≠ m := fun h => hne (by rw [h])
        have hP : (fun x : Mv => p.at x.f == p.at m.f && x.t == m.t) m = true := by simp
        have hP' : (fun x : Mv => p.at x.f == p.at m.f && x.t == m.t) m' = true := by simp [hpc', ht]
        by_cases c1 : (sameTarget L p m).length < 2
        · have := two_le_length_filter (fun x : Mv => p.at x.f == p.at m.f && x.t == m.t) L m' m hm'L hmL hne' hP' hP
          unfold sameTarget at c1; omega
        · by_cases c2 : ((sameTarget L p m).filter fun x => x.f.x == m.f.x).length < 2
          · have hx : (shapeOf L p m long).fx = some m.f.x := by unfold shapeOf disambShape; simp [hlong, hpw, c1, c2]
            rw [hx] at h2; simp only at h2
            have hQ' : (fun x : Mv => x.f.x == m.f.x) m' = true := by simp; omega
            have := two_le_length_filter (fun x : Mv => x.f.x == m.f.x) (sameTarget L p m) m' m hst' hst hne' hQ' (by simp)
            omega
          · by_cases c3 : ((sameTarget L p m).filter fun x => x.f.y == m.f.y).length < 2
            · have hy : (shapeOf L p m long).fy = some m.f.y := by unfold shapeOf disambShape; simp [hlong, hpw, c1, c2, c3]
              rw [hy] at h3; simp only at h3
              have hQ' : (fun x : Mv => x.f.y == m.f.y) m' = true := by simp; omega
              have := two_le_length_filter (fun x : Mv => x.f.y == m.f.y) (sameTarget L p m) m' m hst' hst hne' hQ' (by simp)
              omega
            · have hx : (shapeOf L p m long).fx = some m.f.x := by unfold shapeOf disambShape; simp [hlong, hpw, c1, c2, c3]
              have hy : (shapeOf L p m long).fy = some m.f.y := by unfold shapeOf disambShape; simp [hlong, hpw, c1, c2, c3]
              rw [hx] at h2; rw [hy] at h3
              simp only at h2 h3
              exact hne (sq_ext _ _ (by omega) (by omega))

end Chess

/-! ## assembling the round trip -/
namespace Chess

private theorem lt8_cases' (x : Nat) (h : x < 8) : x = 0 ∨ x = 1 ∨ x = 2 ∨ x = 3 ∨ x = 4 ∨ x = 5 ∨ x = 6 ∨ x = 7 := by omega

def keepCh (c : Char) : Bool := !(c == '=' || c == '+' || c == '#')

theorem keep_file (x : Nat) (h : x < 8) : keepCh (fileCh x) = true := by
  rcases lt8_cases' x h with rfl | rfl | rfl | rfl | rfl | rfl | rfl | rfl <;> decide
theorem keep_rank (y : Nat) (h : y < 8) : keepCh (rankCh y) = true := by
  rcases lt8_cases' y h with rfl | rfl | rfl | rfl | rfl | rfl | rfl | rfl <;> decide
theorem keep_letter (c : Char) (h : IsLetter c) : keepCh c = true := by
  rcases h with rfl | rfl | rfl | rfl | rfl <;> decide

theorem strip_render (s : Shape) (h : s.Valid) : stripMoveText s.render = s.render := by
  obtain ⟨hl, hfx, hfy, htx, hty, hpr⟩ := h
  unfold stripMoveText
  apply List.filter_eq_self.2
  intro c hc
  show keepCh c = true
  unfold Shape.render at hc
  simp only [List.mem_append, Option.mem_toList, Option.map_eq_some_iff, List.mem_cons, List.not_mem_nil, or_false] at hc
  rcases hc with ((((hc | ⟨x, hx, rfl⟩) | ⟨y, hy, rfl⟩) | hc) | (rfl | rfl)) | hc
  · exact keep_letter c (hl c hc)
  · exact keep_file x (hfx x hx)
  · exact keep_rank y (hfy y hy)
  · unfold sepChars at hc
    split at hc <;> simp at hc <;> subst hc <;> decide
  · exact keep_file _ htx
  · exact keep_rank _ hty
  · exact keep_letter c (hpr c hc)

/-- the file character of the target square occurs in every emitted body, and in no castling spelling or "--" -/
theorem file_mem_render (s : Shape) : fileCh s.tx ∈ s.render := by
  unfold Shape.render; simp

theorem file_not_special (x : Nat) (h : x < 8) :
    fileCh x ≠ '-' ∧ fileCh x ≠ 'O' ∧ fileCh x ≠ '0' ∧ fileCh x ≠ 'o' := by
  rcases lt8_cases' x h with rfl | rfl | rfl | rfl | rfl | rfl | rfl | rfl <;> decide

theorem render_not_special (s : Shape) (h : s.Valid) :
    (s.render == ['-', '-']) = false ∧ isShortCastleText s.render = false ∧ isLongCastleText s.render = false := by
  have hm := file_mem_render s
  obtain ⟨h1, h2, h3, h4⟩ := file_not_special s.tx h.2.2.2.1
  refine ⟨?_, ?_, ?_⟩
  · cases hb : (s.render == ['-', '-'])
    · rfl
    · rw [beq_iff_eq.1 hb] at hm; simp at hm; exact absurd hm h1
  · cases hb : isShortCastleText s.render
    · rfl
    · unfold isShortCastleText at hb
      simp only [Bool.or_eq_true, beq_iff_eq] at hb
      rcases hb with (hb | hb) | hb <;> rw [hb] at hm <;> simp [h1, h2, h3, h4] at hm
  · cases hb : isLongCastleText s.render
    · rfl
    · unfold isLongCastleText at hb
      simp only [Bool.or_eq_true, beq_iff_eq] at hb
      rcases hb with (hb | hb) | hb <;> rw [hb] at hm <;> simp [h1, h2, h3, h4] at hm

end Chess

namespace Chess

theorem castle_match (p : Pos) (L : List Mv) (m : Mv) (hL : LegalList p L) (hm : legalB p m = true) (short : Bool)
    (hf : m.f.val = if p.wtm then 4 else 60) (hking : p.at m.f = if p.wtm then WKING else BKING)
    (ht : m.t.val = (if p.wtm then 0 else 56) + (if short then 6 else 2)) :
    L.filter (infoMatches p (castleInfo p.wtm short)) = [m] := by
  have hmL : m ∈ L := (hL.mem m).2 hm
  have hps := legal_pseudo p m hm
  have hpromo : m.promo = 0 := pseudo_nonpawn_promo p m hps (by rw [hking]; cases p.wtm <;> decide)
  have hfx : (m.f.x : Int) = 4 := by unfold Sq.x; cases hw : p.wtm <;> simp [hw] at hf <;> omega
  have hfy : (m.f.y : Int) = if p.wtm then 0 else 7 := by unfold Sq.y; cases hw : p.wtm <;> simp [hw] at hf ⊢ <;> omega
  have htx : (m.t.x : Int) = if short then 6 else 2 := by
    unfold Sq.x; cases hw : p.wtm <;> cases short <;> simp [hw] at ht ⊢ <;> omega
  have hty : (m.t.y : Int) = if p.wtm then 0 else 7 := by
    unfold Sq.y; cases hw : p.wtm <;> cases short <;> simp [hw] at ht ⊢ <;> omega
  apply filter_eq_singleton _ _ _ hL.nodup hmL
  · rw [infoMatches_iff]
    unfold castleInfo
    simp only [hking, hfx, hfy, htx, hty, hpromo]
    cases p.wtm <;> cases short <;> decide
  · intro m' _ hmatch
    rw [infoMatches_iff] at hmatch
    unfold castleInfo at hmatch
    simp only at hmatch
    obtain ⟨_, h2, h3, h4, h5, h6⟩ := hmatch
    have e2 : (m'.f.x : Int) = 4 := by omega
    have e3 : (m'.f.y : Int) = if p.wtm then 0 else 7 := by split at h3 <;> split <;> simp_all <;> omega
    have e4 : (m'.t.x : Int) = if short then 6 else 2 := by split at h4 <;> split <;> simp_all <;> omega
    have e5 : (m'.t.y : Int) = if p.wtm then 0 else 7 := by split at h5 <;> split <;> simp_all <;> omega
    have e6 : m'.promo = 0 := by
      apply toNat_inj_int; rcases h6 with h6 | h6
      · omega
      · simpa using h6.symm
    exact mv_ext m m' (sq_ext _ _ (by omega) (by omega)) (sq_ext _ _ (by omega) (by omega)) (by rw [e6, hpromo])

end Chess

namespace Chess

theorem checkSuffix_strip (p : Pos) (m : Mv) : stripMoveText (checkSuffix p m) = [] := by
  unfold checkSuffix
  simp only
  split
  · split <;> decide
  · decide

theorem strip_OO : (['O', '-', 'O']).filter (fun c => !(c == '=' || c == '+' || c == '#')) = ['O', '-', 'O'] := by decide
theorem strip_OOO : (['O', '-', 'O', '-', 'O']).filter (fun c => !(c == '=' || c == '+' || c == '#')) = ['O', '-', 'O', '-', 'O'] := by decide
theorem parseInfo_OO (w : Bool) : parseInfo w ['O', '-', 'O'] = (castleInfo w true, false) := rfl
theorem parseInfo_OOO (w : Bool) : parseInfo w ['O', '-', 'O', '-', 'O'] = (castleInfo w false, false) := rfl
theorem OO_ne : ((['O', '-', 'O'] : List Char) == ['-', '-']) = false := by decide
theorem OOO_ne : ((['O', '-', 'O', '-', 'O'] : List Char) == ['-', '-']) = false := by decide

theorem selectMatch_single (p : Pos) (m : Mv) (c : Bool) : selectMatch p [m] c = some m := rfl

/-- **round trip with an explicit legal-move list** -/
theorem roundtrip_L (p : Pos) (L : List Mv) (m : Mv) (long : Bool) (hL : LegalList p L) (hm : legalB p m = true) :
    stringToMoveL L p (moveToStringL L p m long) = some m := by
  unfold moveToStringL stringToMoveL
  simp only
  unfold stripMoveText
  rw [List.filter_append]
  have hsuf := checkSuffix_strip p m
  unfold stripMoveText at hsuf
  rw [hsuf, List.append_nil]
  by_cases hc : (castleText p m).isEmpty = true
  · rw [if_pos hc, sanBody_eq_render]
    have hv := shapeOf_valid L p m long
    have hs := strip_render _ hv
    unfold stripMoveText at hs
    rw [hs]
    obtain ⟨n1, n2, n3⟩ := render_not_special _ hv
    obtain ⟨p1, _⟩ := parse_render p.wtm _ hv
    simp only [n1, Bool.false_eq_true, if_false, parseInfo, n2, n3, p1, filter_matches p L m long hL hm, selectMatch_single]
  · rw [if_neg hc]
    have hown := pseudo_own p m (legal_pseudo p m hm)
    unfold castleText at hc ⊢
    by_cases hW : (m.f.val == 4 && p.at m.f == WKING) = true
    · simp only [hW, if_true] at hc ⊢
      obtain ⟨hf, hk⟩ : m.f.val = 4 ∧ p.at m.f = WKING := by simpa using hW
      have hw : p.wtm = true := by
        rw [hk] at hown; cases h : p.wtm
        · rw [h] at hown; exact absurd hown (by decide)
        · rfl
      by_cases h6 : (m.t.val == 6) = true
      · have := castle_match p L m hL hm true (by simp [hw, hf]) (by simp [hw, hk]) (by simpa [hw] using h6)
        simp only [h6, if_true, strip_OO, OO_ne, Bool.false_eq_true, if_false, parseInfo_OO, this, selectMatch_single]
      · by_cases h2 : (m.t.val == 2) = true
        · have := castle_match p L m hL hm false (by simp [hw, hf]) (by simp [hw, hk]) (by simpa [hw] using h2)
          simp only [h6, h2, if_true, if_false, strip_OOO, OOO_ne, Bool.false_eq_true, parseInfo_OOO, this, selectMatch_single]
        · simp [h6, h2] at hc
    · by_cases hB : (m.f.val == 60 && p.at m.f == BKING) = true
      · simp only [hW, hB, if_true, Bool.false_eq_true, if_false] at hc ⊢
        obtain ⟨hf, hk⟩ : m.f.val = 60 ∧ p.at m.f = BKING := by simpa using hB
        have hw : p.wtm = false := by
          rw [hk] at hown; cases h : p.wtm
          · rfl
          · rw [h] at hown; exact absurd hown (by decide)
        by_cases h6 : (m.t.val == 62) = true
        · have := castle_match p L m hL hm true (by simp [hw, hf]) (by simp [hw, hk]) (by simpa [hw] using h6)
          simp only [h6, if_true, strip_OO, OO_ne, Bool.false_eq_true, if_false, parseInfo_OO, this, selectMatch_single]
        · by_cases h2 : (m.t.val == 58) = true
          · have := castle_match p L m hL hm false (by simp [hw, hf]) (by simp [hw, hk]) (by simpa [hw] using h2)
            simp only [h6, h2, if_true, if_false, strip_OOO, OOO_ne, Bool.false_eq_true, parseInfo_OOO, this, selectMatch_single]
          · simp [h6, h2] at hc
      · simp [hW, hB] at hc

end Chess
