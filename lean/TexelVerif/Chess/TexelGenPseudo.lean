import TexelVerif.Chess.TexelGenLegal2
/-!
`MoveGen::pseudoLegalMoves` against the specification's movement rules: `mem_pseudoLegalMoves`
(`m ∈ pseudoLegalMoves p k ↔ pseudo p m`), no duplicates, and the composition with `removeIllegal`
(`texel_legal_perm`).
-/
namespace Chess.Texel
open PosImpl (BB getP getP_eq)

/-! ## list builders -/

theorem mem_addMovesByMask (sq0 : Sq) (mask : BB) (m : Mv) :
    m ∈ addMovesByMask sq0 mask ↔ (m.f = sq0 ∧ m.promo = 0 ∧ tst mask m.t = true) := by
  unfold addMovesByMask
  simp only [List.mem_map, mem_squaresOf]
  constructor
  · rintro ⟨t, ht, rfl⟩; exact ⟨rfl, rfl, ht⟩
  · rintro ⟨h1, h2, h3⟩; exact ⟨m.t, h3, by cases m; simp_all⟩

theorem mem_pieceMoves (b : Board) (w : Bool) (kd : UInt8) (att targets : Sq → BB) (m : Mv) :
    m ∈ pieceMoves b w kd att targets ↔
      (b[m.f] = pc w kd ∧ m.promo = 0 ∧ tst (att m.f) m.t = true ∧ tst (targets m.f) m.t = true) := by
  unfold pieceMoves
  simp only [List.mem_flatMap, mem_squaresOf, mem_addMovesByMask, tst_pcBB, tst_and, Bool.and_eq_true, beq_iff_eq]
  constructor
  · rintro ⟨sq, h1, rfl, h3, h4, h5⟩; exact ⟨h1, h3, h4, h5⟩
  · rintro ⟨h1, h2, h3, h4⟩; exact ⟨m.f, h1, rfl, h2, h3, h4⟩

theorem mem_addPawnDouble (mask : BB) (delta : Int) (m : Mv) :
    m ∈ addPawnDoubleMovesByMask mask delta ↔ (tst mask m.t = true ∧ m.f = sqOff m.t delta ∧ m.promo = 0) := by
  unfold addPawnDoubleMovesByMask
  simp only [List.mem_map, mem_squaresOf]
  constructor
  · rintro ⟨t, ht, rfl⟩; exact ⟨ht, rfl, rfl⟩
  · rintro ⟨h1, h2, h3⟩; exact ⟨m.t, h1, by cases m; simp_all⟩

theorem mem_addPawn (w : Bool) (mask : BB) (delta : Int) (m : Mv) :
    m ∈ addPawnMovesByMask w mask delta true ↔
      (tst mask m.t = true ∧ m.f = sqOff m.t delta ∧
        (if tst maskRow1Row8 m.t then (m.promo = pc w 2 ∨ m.promo = pc w 5 ∨ m.promo = pc w 3 ∨ m.promo = pc w 4) else m.promo = 0)) := by
  unfold addPawnMovesByMask
  simp only [List.mem_append, List.mem_flatMap, List.mem_map, mem_squaresOf, tst_and, tst_not, Bool.and_eq_true, if_true,
    List.mem_cons, List.mem_nil_iff, or_false, Bool.not_eq_true', Bool.and_eq_false_iff]
  constructor
  · rintro (⟨t, ⟨h1, h2⟩, h⟩ | ⟨t, ⟨h1, h2⟩, rfl⟩)
    · rcases h with (rfl | rfl) | (rfl | rfl) <;> simp [h1, h2]
    · rcases h2 with h2 | h2
      · rw [h1] at h2; cases h2
      · simp [h1, h2]
  · rintro ⟨h1, h2, h3⟩
    cases h8 : tst maskRow1Row8 m.t
    · rw [h8] at h3
      simp only [Bool.false_eq_true, if_false] at h3
      exact Or.inr ⟨m.t, ⟨h1, Or.inr h8⟩, by cases m; simp_all⟩
    · rw [h8] at h3
      simp only [if_true] at h3
      refine Or.inl ⟨m.t, ⟨h1, h8⟩, ?_⟩
      rcases h3 with h | h | h | h
      · exact Or.inl (Or.inl (by cases m; simp_all))
      · exact Or.inl (Or.inr (by cases m; simp_all))
      · exact Or.inr (Or.inl (by cases m; simp_all))
      · exact Or.inr (Or.inr (by cases m; simp_all))

/-! ## shifts and masks -/

theorem tst_shl (a : BB) (n : Nat) (t : Sq) : tst (a <<< n) t = true ↔ ∃ f : Sq, f.val + n = t.val ∧ tst a f = true := by
  unfold tst
  rw [BitVec.getLsbD_shiftLeft]
  simp only [t.isLt, decide_true, Bool.true_and, Bool.and_eq_true, Bool.not_eq_true', decide_eq_false_iff_not, Nat.not_lt]
  constructor
  · rintro ⟨h1, h2⟩
    exact ⟨⟨t.val - n, by have := t.isLt; omega⟩, by simp only; omega, h2⟩
  · rintro ⟨f, h1, h2⟩
    have : t.val - n = f.val := by omega
    exact ⟨by omega, by rw [this]; exact h2⟩

theorem tst_shr (a : BB) (n : Nat) (t : Sq) : tst (a >>> n) t = true ↔ ∃ f : Sq, f.val = t.val + n ∧ tst a f = true := by
  unfold tst
  rw [BitVec.getLsbD_ushiftRight]
  constructor
  · intro h
    have hlt : n + t.val < 64 := by
      apply Classical.byContradiction
      intro hge
      rw [BitVec.getLsbD_of_ge _ _ (by omega)] at h; cases h
    exact ⟨⟨n + t.val, hlt⟩, by simp only; omega, h⟩
  · rintro ⟨f, h1, h2⟩
    have : n + t.val = f.val := by omega
    rw [this]; exact h2

theorem tst_maskAToG : ∀ t : Sq, tst maskAToGFiles t = decide (t.val % 8 ≤ 6) := by decide +kernel
theorem tst_maskBToH : ∀ t : Sq, tst maskBToHFiles t = decide (1 ≤ t.val % 8) := by decide +kernel
theorem tst_maskRow3 : ∀ t : Sq, tst maskRow3 t = decide (t.val / 8 = 2) := by decide +kernel
theorem tst_maskRow6 : ∀ t : Sq, tst maskRow6 t = decide (t.val / 8 = 5) := by decide +kernel
theorem tst_maskRow18 : ∀ t : Sq, tst maskRow1Row8 t = decide (t.val / 8 = 0 ∨ t.val / 8 = 7) := by decide +kernel

theorem sqOff_val (t : Sq) (d : Int) (h : 0 ≤ (t.val : Int) + d ∧ (t.val : Int) + d < 64) : ((sqOff t d).val : Int) = t.val + d := by
  unfold sqOff; simp only; omega

theorem tst_colorBB (b : Board) (w : Bool) (s : Sq) : tst (colorBB b w) s = own w b[s] := tst_bbSq _ _

theorem tst_epMask (p : Pos) (t : Sq) : tst (epMask p) t = decide (p.ep = some t) := by
  unfold epMask
  cases h : p.ep with
  | none => simp
  | some e => rw [tst_sqBit]; simp [eq_comm]

/-! ## queens, rooks, bishops, knights -/

theorem kind_pc_fin : ∀ (w : Bool) (k : Fin 7), 1 ≤ k.val →
    kind (pc w (UInt8.ofNat k.val)) = UInt8.ofNat k.val ∧ own w (pc w (UInt8.ofNat k.val)) = true := by decide

theorem attacks_self (b : Board) (t : Sq) : attacks b t t = false := by
  rw [attacks_eq_atkFrom b (bbSq fun q => b[q] != 0) t t (fun q _ => tst_bbSq _ _), atkFrom_self]

theorem attacks_rook (b : Board) (hv : ValidB b) (f t : Sq) (h : kind b[f] = 3) :
    attacks b f t = tst (rookAttacks f (occBB b)) t := by
  unfold attacks; simp only [h]
  simp only [rookDirs, List.any_cons, List.any_nil, Bool.or_false, rookAttacks, tst_or,
    ray_eq_rayReach (occBB b) b (tst_occBB b hv), Bool.or_assoc]

theorem attacks_bishop (b : Board) (hv : ValidB b) (f t : Sq) (h : kind b[f] = 4) :
    attacks b f t = tst (bishopAttacks f (occBB b)) t := by
  unfold attacks; simp only [h]
  simp only [bishDirs, List.any_cons, List.any_nil, Bool.or_false, bishopAttacks, tst_or,
    ray_eq_rayReach (occBB b) b (tst_occBB b hv), Bool.or_assoc]

theorem attacks_queen (b : Board) (hv : ValidB b) (f t : Sq) (h : kind b[f] = 2) :
    attacks b f t = tst (rookAttacks f (occBB b) ||| bishopAttacks f (occBB b)) t := by
  unfold attacks; simp only [h]
  simp only [dirs8, rookDirs, bishDirs, List.cons_append, List.nil_append, List.any_cons, List.any_nil, Bool.or_false, rookAttacks,
    bishopAttacks, tst_or, ray_eq_rayReach (occBB b) b (tst_occBB b hv), Bool.or_assoc]

theorem attacks_knight (b : Board) (f t : Sq) (h : kind b[f] = 5) : attacks b f t = tst (knightAttacks f) t := by
  unfold attacks; simp only [h]
  rw [knightAttacks, tst_bbSq]; rfl

/-- the movement rules for a piece that is neither king nor pawn -/
theorem pseudo_other_iff (p : Pos) (m : Mv) (hk1 : kind p.b[m.f] ≠ 1) (hk6 : kind p.b[m.f] ≠ 6) :
    pseudo p m = true ↔
      (own p.wtm p.b[m.f] = true ∧ own p.wtm p.b[m.t] = false ∧ m.promo = 0 ∧ attacks p.b m.f m.t = true) := by
  unfold pseudo
  simp only [Pos.at, Bool.and_eq_true, Bool.not_eq_true', bne_iff_ne, ne_eq]
  simp only [beq_iff_eq]
  constructor
  · rintro ⟨⟨⟨h1, h2⟩, _⟩, h4, h5⟩; exact ⟨h1, h2, h4, h5⟩
  · rintro ⟨h1, h2, h4, h5⟩
    refine ⟨⟨⟨h1, h2⟩, ?_⟩, h4, h5⟩
    intro e; rw [e, attacks_self] at h5; cases h5

theorem pc_iff (w : Bool) (p : Pc) (k : Fin 7) (hk : 1 ≤ k.val) :
    p = pc w (UInt8.ofNat k.val) ↔ (own w p = true ∧ kind p = UInt8.ofNat k.val) := by
  have := beq_pc w p k hk
  rw [Bool.eq_iff_iff] at this
  simpa using this

/-- one piece-type loop of `pseudoLegalMoves` generates exactly the pseudo-legal moves of the pieces of that type -/
theorem section_iff (p : Pos) (k : Fin 7) (hk2 : 2 ≤ k.val) (hk5 : k.val ≤ 5) (att : Sq → BB)
    (hatt : ∀ f t, kind p.b[f] = UInt8.ofNat k.val → attacks p.b f t = tst (att f) t) (m : Mv) :
    m ∈ pieceMoves p.b p.wtm (UInt8.ofNat k.val) att (fun _ => ~~~colorBB p.b p.wtm) ↔
      (pseudo p m = true ∧ kind p.b[m.f] = UInt8.ofNat k.val) := by
  rw [mem_pieceMoves, pc_iff _ _ k (by omega), tst_not, tst_colorBB]
  have hne1 : (UInt8.ofNat k.val) ≠ 1 := by
    obtain ⟨k, hk⟩ := k; simp only at hk2 hk5 ⊢
    have : k = 2 ∨ k = 3 ∨ k = 4 ∨ k = 5 := by omega
    rcases this with rfl | rfl | rfl | rfl <;> decide
  have hne6 : (UInt8.ofNat k.val) ≠ 6 := by
    obtain ⟨k, hk⟩ := k; simp only at hk2 hk5 ⊢
    have : k = 2 ∨ k = 3 ∨ k = 4 ∨ k = 5 := by omega
    rcases this with rfl | rfl | rfl | rfl <;> decide
  constructor
  · rintro ⟨⟨h1, h2⟩, h3, h4, h5⟩
    refine ⟨?_, h2⟩
    rw [pseudo_other_iff p m (by rw [h2]; exact hne1) (by rw [h2]; exact hne6)]
    exact ⟨h1, by simpa using h5, h3, by rw [hatt _ _ h2]; exact h4⟩
  · rintro ⟨hp, h2⟩
    rw [pseudo_other_iff p m (by rw [h2]; exact hne1) (by rw [h2]; exact hne6)] at hp
    obtain ⟨h1, h5, h3, h4⟩ := hp
    exact ⟨⟨h1, h2⟩, h3, by rw [← hatt _ _ h2]; exact h4, by rw [h5]; rfl⟩

/-! ## king -/

/-- the movement rules for the king -/
theorem pseudo_king_iff (p : Pos) (m : Mv) (hk : kind p.b[m.f] = 1) :
    pseudo p m = true ↔
      (own p.wtm p.b[m.f] = true ∧ own p.wtm p.b[m.t] = false ∧ m.f ≠ m.t ∧ m.promo = 0 ∧
        (((dxy m.f m.t).1.natAbs ≤ 1 ∧ (dxy m.f m.t).2.natAbs ≤ 1) ∨
         ((dxy m.f m.t).2 = 0 ∧ (dxy m.f m.t).1 = 2 ∧ m.f.val = (if p.wtm then 4 else 60) ∧ castleOk p true = true) ∨
         ((dxy m.f m.t).2 = 0 ∧ (dxy m.f m.t).1 = -2 ∧ m.f.val = (if p.wtm then 4 else 60) ∧ castleOk p false = true))) := by
  unfold pseudo
  simp only [Pos.at, hk, Bool.and_eq_true, Bool.not_eq_true', bne_iff_ne, ne_eq, Bool.or_eq_true, beq_iff_eq, decide_eq_true_eq]
  constructor
  · rintro ⟨⟨⟨h1, h2⟩, h3⟩, h4, h5⟩
    refine ⟨h1, h2, h3, h4, ?_⟩
    rcases h5 with (h | ⟨⟨⟨a, b⟩, c⟩, d⟩) | ⟨⟨⟨a, b⟩, c⟩, d⟩
    · exact Or.inl h
    · exact Or.inr (Or.inl ⟨a, b, c, d⟩)
    · exact Or.inr (Or.inr ⟨a, b, c, d⟩)
  · rintro ⟨h1, h2, h3, h4, h5⟩
    refine ⟨⟨⟨h1, h2⟩, h3⟩, h4, ?_⟩
    rcases h5 with h | ⟨a, b, c, d⟩ | ⟨a, b, c, d⟩
    · exact Or.inl (Or.inl h)
    · exact Or.inl (Or.inr ⟨⟨⟨a, b⟩, c⟩, d⟩)
    · exact Or.inr ⟨⟨⟨a, b⟩, c⟩, d⟩

theorem kingGeom_iff' (f t : Sq) : kingGeom f t = true ↔
    (((dxy f t).1.natAbs ≤ 1 ∧ (dxy f t).2.natAbs ≤ 1) ∧ f ≠ t) := by
  unfold kingGeom
  simp only [Bool.and_eq_true, decide_eq_true_eq, Bool.not_eq_true', Bool.and_eq_false_iff, beq_eq_false_iff_ne, ne_eq]
  have hx := Sq.x_lt f; have hy := Sq.y_lt f; have hx' := Sq.x_lt t; have hy' := Sq.y_lt t
  constructor
  · rintro ⟨h1, h2⟩
    refine ⟨h1, ?_⟩
    intro e; subst e; rw [dxy_self] at h2; simp at h2
  · rintro ⟨h1, h2⟩
    refine ⟨h1, ?_⟩
    apply Classical.byContradiction
    intro hn
    apply h2
    unfold dxy at hn
    simp only at hn
    exact Sq.ext_xy f t (by omega) (by omega)

theorem mem_kingStep (b : Board) (w : Bool) (k : Sq) (m : Mv) :
    m ∈ addMovesByMask k (kingAttacks k &&& ~~~colorBB b w) ↔
      (m.f = k ∧ m.promo = 0 ∧ kingGeom k m.t = true ∧ own w b[m.t] = false) := by
  rw [mem_addMovesByMask, tst_and, tst_not, tst_colorBB, kingAttacks, tst_bbSq]
  simp only [Bool.and_eq_true, Bool.not_eq_true']

theorem sqBits_and_eq_zero2 (a b : Sq) (occ : BB) :
    (((sqBit a ||| sqBit b) &&& occ) == 0) = (!tst occ a && !tst occ b) := by
  rw [Bool.eq_iff_iff, bb_beq_zero_iff]
  simp only [tst_and, tst_or, tst_sqBit, Bool.and_eq_true, Bool.not_eq_true']
  constructor
  · intro h
    have h1 := h a; have h2 := h b
    simp at h1 h2
    exact ⟨h1, h2⟩
  · rintro ⟨h1, h2⟩ s
    by_cases e1 : s = a
    · subst e1; simp [h1]
    · by_cases e2 : s = b
      · subst e2; simp [h2]
      · simp [e1, e2]

theorem sqBits_and_eq_zero3 (a b c : Sq) (occ : BB) :
    (((sqBit a ||| sqBit b ||| sqBit c) &&& occ) == 0) = (!tst occ a && !tst occ b && !tst occ c) := by
  rw [Bool.eq_iff_iff, bb_beq_zero_iff]
  simp only [tst_and, tst_or, tst_sqBit, Bool.and_eq_true, Bool.not_eq_true']
  constructor
  · intro h
    have h1 := h a; have h2 := h b; have h3 := h c
    simp at h1 h2 h3
    exact ⟨⟨h1, h2⟩, h3⟩
  · rintro ⟨⟨h1, h2⟩, h3⟩ s
    by_cases e1 : s = a
    · subst e1; simp [h1]
    · by_cases e2 : s = b
      · subst e2; simp [h2]
      · by_cases e3 : s = c
        · subst e3; simp [h3]
        · simp [e1, e2, e3]

/-! ## castling block -/

theorem castleOk_iff (p : Pos) (short : Bool) :
    castleOk p short = true ↔
      let home : Nat := if p.wtm then 4 else 60
      ((p.castle &&& (if p.wtm then (if short then 2 else 1) else (if short then 8 else 4))) != 0) = true ∧
      getP p.b home = (if p.wtm then WKING else BKING) ∧ Chess.inCheck p.b p.wtm = false ∧
      (if short then
        getP p.b (home + 1) = 0 ∧ getP p.b (home + 2) = 0 ∧ getP p.b (home + 3) = (if p.wtm then WROOK else BROOK) ∧
          attackedBy p.b (!p.wtm) ⟨(home + 1) % 64, Nat.mod_lt _ (by decide)⟩ = false
       else
        getP p.b (home - 1) = 0 ∧ getP p.b (home - 2) = 0 ∧ getP p.b (home - 3) = 0 ∧
          getP p.b (home - 4) = (if p.wtm then WROOK else BROOK) ∧
          attackedBy p.b (!p.wtm) ⟨(home - 1) % 64, Nat.mod_lt _ (by decide)⟩ = false) := by
  unfold castleOk
  cases short <;> simp only [Bool.and_eq_true, Bool.not_eq_true', beq_iff_eq, if_true, if_false, Bool.false_eq_true, getP] <;>
    constructor <;> intro h <;> simp_all

theorem mem_ite_singleton {α : Type} (c : Bool) (x m : α) : m ∈ (if c = true then [x] else []) ↔ (c = true ∧ m = x) := by
  cases c <;> simp

theorem ne_zero_iff_occ (b : Board) (hv : ValidB b) (q : Sq) : (!tst (occBB b) q) = true ↔ b[q] = 0 := by
  rw [tst_occBB b hv]; simp

theorem mv_eq_iff (m : Mv) (a b : Sq) (c : Pc) : m = { f := a, t := b, promo := c } ↔ (m.f = a ∧ m.t = b ∧ m.promo = c) := by
  cases m; simp

/-- the castling block for White -/
theorem mem_castle_white (p : Pos) (hw : p.wtm = true) (k : Sq) (hv : ValidB p.b) (hk : KingAt p.b true k) (m : Mv) :
    m ∈ castleMoves p k ↔
      (m.f = k ∧ m.promo = 0 ∧
       ((m.t = sq 6 ∧ m.f = sq 4 ∧ castleOk p true = true) ∨ (m.t = sq 2 ∧ m.f = sq 4 ∧ castleOk p false = true))) := by
  unfold castleMoves
  simp only [hw, if_true]
  by_cases hk0 : k = sq 4
  · subst hk0
    simp only [beq_self_eq_true, if_true, List.mem_append, mem_ite_singleton]
    have hic : Chess.inCheck p.b true = sqAttacked p.b true (sq 4) (occBB p.b) := inCheck_of_kingAt _ hv _ _ hk
    have hk4 : getP p.b 4 = WKING := by rw [getP_val p.b (sq 4) 4 rfl]; exact hk.1
    have s7 : sqOff (sq 4) 3 = sq 7 := by decide
    have s5 : sqOff (sq 4) 1 = sq 5 := by decide
    have s6 : sqOff (sq 4) 2 = sq 6 := by decide
    have s0 : sqOff (sq 4) (-4) = sq 0 := by decide
    have s3 : sqOff (sq 4) (-1) = sq 3 := by decide
    have s2 : sqOff (sq 4) (-2) = sq 2 := by decide
    have b1 : (1 : UInt8) <<< (1 : Nat).toUInt8 = 2 := by decide
    have b0 : (1 : UInt8) <<< (0 : Nat).toUInt8 = 1 := by decide
    have q5 : (⟨(4 + 1) % 64, Nat.mod_lt _ (by decide)⟩ : Sq) = sq 5 := by decide
    have q3 : (⟨(4 - 1) % 64, Nat.mod_lt _ (by decide)⟩ : Sq) = sq 3 := by decide
    have hsp : ∀ t, attackedBy p.b false t = sqAttacked p.b true t (occBB p.b) := fun t => (sqAttacked_spec p.b hv true t).symm
    rw [castleOk_iff p true, castleOk_iff p false]
    simp only [hw, if_true, if_false, Bool.false_eq_true, hk4, true_and, s7, s5, s6, s0, s3, s2, b1, b0, q5, q3, sqBits_and_eq_zero2, sqBits_and_eq_zero3,
      Bool.and_eq_true, ne_zero_iff_occ _ hv, beq_iff_eq, Bool.not_eq_true', hic, hsp, Bool.not_true,
      getP_val p.b (sq 5) 5 rfl, getP_val p.b (sq 6) 6 rfl, getP_val p.b (sq 7) 7 rfl,
      getP_val p.b (sq 3) 3 rfl, getP_val p.b (sq 2) 2 rfl, getP_val p.b (sq 1) 1 rfl, getP_val p.b (sq 0) 0 rfl]
    have hr : pc true 3 = WROOK := rfl
    simp only [hr, mv_eq_iff]
    constructor
    · rintro (⟨⟨⟨⟨⟨c1, c2, c3⟩, c4⟩, c5⟩, c6⟩, m1, m2, m3⟩ | ⟨⟨⟨⟨⟨c1, ⟨c2, c3⟩, c3'⟩, c4⟩, c5⟩, c6⟩, m1, m2, m3⟩)
      · exact ⟨m1, m3, Or.inl ⟨m2, m1, c1, c5, c2, c3, c4, c6⟩⟩
      · exact ⟨m1, m3, Or.inr ⟨m2, m1, c1, c5, c3', c3, c2, c4, c6⟩⟩
    · rintro ⟨m1, m3, (⟨m2, _, c1, c5, c2, c3, c4, c6⟩ | ⟨m2, _, c1, c5, c3', c3, c2, c4, c6⟩)⟩
      · exact Or.inl ⟨⟨⟨⟨⟨c1, c2, c3⟩, c4⟩, c5⟩, c6⟩, m1, m2, m3⟩
      · exact Or.inr ⟨⟨⟨⟨⟨c1, ⟨c2, c3⟩, c3'⟩, c4⟩, c5⟩, c6⟩, m1, m2, m3⟩
  · have : (k == sq 4) = false := by simpa using hk0
    simp only [this, Bool.false_eq_true, if_false, List.not_mem_nil, false_iff]
    rintro ⟨m1, _, (⟨_, m2, _⟩ | ⟨_, m2, _⟩)⟩ <;> exact hk0 (m1.symm.trans m2)
/-- the castling block for Black -/
theorem mem_castle_black (p : Pos) (hw : p.wtm = false) (k : Sq) (hv : ValidB p.b) (hk : KingAt p.b false k) (m : Mv) :
    m ∈ castleMoves p k ↔
      (m.f = k ∧ m.promo = 0 ∧
       ((m.t = sq 62 ∧ m.f = sq 60 ∧ castleOk p true = true) ∨ (m.t = sq 58 ∧ m.f = sq 60 ∧ castleOk p false = true))) := by
  unfold castleMoves
  simp only [hw, Bool.false_eq_true, if_false]
  by_cases hk0 : k = sq 60
  · subst hk0
    simp only [beq_self_eq_true, if_true, List.mem_append, mem_ite_singleton]
    have hic : Chess.inCheck p.b false = sqAttacked p.b false (sq 60) (occBB p.b) := inCheck_of_kingAt _ hv _ _ hk
    have hk4 : getP p.b 60 = BKING := by rw [getP_val p.b (sq 60) 60 rfl]; exact hk.1
    have s7 : sqOff (sq 60) 3 = sq 63 := by decide
    have s5 : sqOff (sq 60) 1 = sq 61 := by decide
    have s6 : sqOff (sq 60) 2 = sq 62 := by decide
    have s0 : sqOff (sq 60) (-4) = sq 56 := by decide
    have s3 : sqOff (sq 60) (-1) = sq 59 := by decide
    have s2 : sqOff (sq 60) (-2) = sq 58 := by decide
    have b1 : (1 : UInt8) <<< (3 : Nat).toUInt8 = 8 := by decide
    have b0 : (1 : UInt8) <<< (2 : Nat).toUInt8 = 4 := by decide
    have q5 : (⟨(60 + 1) % 64, Nat.mod_lt _ (by decide)⟩ : Sq) = sq 61 := by decide
    have q3 : (⟨(60 - 1) % 64, Nat.mod_lt _ (by decide)⟩ : Sq) = sq 59 := by decide
    have hsp : ∀ t, attackedBy p.b true t = sqAttacked p.b false t (occBB p.b) := fun t => (sqAttacked_spec p.b hv false t).symm
    rw [castleOk_iff p true, castleOk_iff p false]
    simp only [hw, if_true, if_false, Bool.false_eq_true, hk4, true_and, s7, s5, s6, s0, s3, s2, b1, b0, q5, q3, sqBits_and_eq_zero2, sqBits_and_eq_zero3,
      Bool.and_eq_true, ne_zero_iff_occ _ hv, beq_iff_eq, Bool.not_eq_true', hic, hsp, Bool.not_false,
      getP_val p.b (sq 61) 61 rfl, getP_val p.b (sq 62) 62 rfl, getP_val p.b (sq 63) 63 rfl,
      getP_val p.b (sq 59) 59 rfl, getP_val p.b (sq 58) 58 rfl, getP_val p.b (sq 57) 57 rfl, getP_val p.b (sq 56) 56 rfl]
    have hr : pc false 3 = BROOK := rfl
    simp only [hr, mv_eq_iff]
    constructor
    · rintro (⟨⟨⟨⟨⟨c1, c2, c3⟩, c4⟩, c5⟩, c6⟩, m1, m2, m3⟩ | ⟨⟨⟨⟨⟨c1, ⟨c2, c3⟩, c3'⟩, c4⟩, c5⟩, c6⟩, m1, m2, m3⟩)
      · exact ⟨m1, m3, Or.inl ⟨m2, m1, c1, c5, c2, c3, c4, c6⟩⟩
      · exact ⟨m1, m3, Or.inr ⟨m2, m1, c1, c5, c3', c3, c2, c4, c6⟩⟩
    · rintro ⟨m1, m3, (⟨m2, _, c1, c5, c2, c3, c4, c6⟩ | ⟨m2, _, c1, c5, c3', c3, c2, c4, c6⟩)⟩
      · exact Or.inl ⟨⟨⟨⟨⟨c1, c2, c3⟩, c4⟩, c5⟩, c6⟩, m1, m2, m3⟩
      · exact Or.inr ⟨⟨⟨⟨⟨c1, ⟨c2, c3⟩, c3'⟩, c4⟩, c5⟩, c6⟩, m1, m2, m3⟩
  · have : (k == sq 60) = false := by simpa using hk0
    simp only [this, Bool.false_eq_true, if_false, List.not_mem_nil, false_iff]
    rintro ⟨m1, _, (⟨_, m2, _⟩ | ⟨_, m2, _⟩)⟩ <;> exact hk0 (m1.symm.trans m2)
/-! ## pawns: the movement rules in square-index form -/

theorem pseudo_wpawn_iff (p : Pos) (m : Mv) (hw : p.wtm = true) (hpc : p.b[m.f] = WPAWN) :
    pseudo p m = true ↔
      (own true p.b[m.t] = false ∧ promoOk true m = true ∧
       ((m.t.val = m.f.val + 8 ∧ p.b[m.t] = 0) ∨
        (m.t.val = m.f.val + 16 ∧ m.f.val / 8 = 1 ∧ p.b[m.t] = 0 ∧ ∃ q : Sq, q.val = m.f.val + 8 ∧ p.b[q] = 0) ∨
        ((m.t.val = m.f.val + 7 ∧ m.t.val % 8 ≤ 6 ∨ m.t.val = m.f.val + 9 ∧ 1 ≤ m.t.val % 8) ∧
           (p.b[m.t] ≠ 0 ∨ p.ep = some m.t)))) := by
  unfold pseudo
  simp only [Pos.at, hpc, hw, if_true, show kind WPAWN = 6 from by decide, show own true WPAWN = true from by decide,
    Bool.true_and, Bool.and_eq_true, Bool.or_eq_true, Bool.not_eq_true', bne_iff_ne, beq_iff_eq, dxy, ne_eq]
  have hft : m.f.val < 64 := m.f.isLt
  have htt : m.t.val < 64 := m.t.isLt
  cases hq : mkSq? (↑m.f.x) (↑m.f.y + 1) with
  | none =>
    rw [mkSq?_eq_none] at hq
    simp only [Sq.x, Sq.y] at hq ⊢
    simp only [Bool.false_eq_true, and_false, or_false]
    constructor
    · rintro ⟨⟨h1, h2⟩, h3, h4⟩
      refine ⟨h1, h3, ?_⟩
      rcases h4 with ⟨⟨a, b⟩, c⟩ | ⟨⟨a, b⟩, c⟩
      · left; exact ⟨by omega, c⟩
      · right; right; exact ⟨by omega, c⟩
    · rintro ⟨h1, h3, h4⟩
      rcases h4 with ⟨a, c⟩ | ⟨a, b, _⟩ | ⟨a, c⟩
      · exact ⟨⟨h1, fun e => by have := congrArg Fin.val e; omega⟩, h3, Or.inl ⟨⟨by omega, by omega⟩, c⟩⟩
      · omega
      · exact ⟨⟨h1, fun e => by have := congrArg Fin.val e; omega⟩, h3, Or.inr ⟨⟨by omega, by omega⟩, c⟩⟩
  | some q =>
    rw [mkSq?_eq_some] at hq
    have hqq : q.val < 64 := q.isLt
    simp only [Sq.x, Sq.y] at hq ⊢
    simp only [beq_iff_eq]
    constructor
    · rintro ⟨⟨h1, h2⟩, h3, h4⟩
      refine ⟨h1, h3, ?_⟩
      rcases h4 with (⟨⟨a, b⟩, c⟩ | ⟨⟨⟨⟨a, b⟩, c⟩, d⟩, e⟩) | ⟨⟨a, b⟩, c⟩
      · left; exact ⟨by omega, c⟩
      · right; left; exact ⟨by omega, by omega, d, q, by omega, e⟩
      · right; right; exact ⟨by omega, c⟩
    · rintro ⟨h1, h3, h4⟩
      rcases h4 with ⟨a, c⟩ | ⟨a, b, c, q', d, e⟩ | ⟨a, c⟩
      · exact ⟨⟨h1, fun e => by have := congrArg Fin.val e; omega⟩, h3, Or.inl (Or.inl ⟨⟨by omega, by omega⟩, c⟩)⟩
      · have : q' = q := Fin.ext (by omega)
        subst this
        exact ⟨⟨h1, fun e => by have := congrArg Fin.val e; omega⟩, h3, Or.inl (Or.inr ⟨⟨⟨⟨by omega, by omega⟩, by omega⟩, c⟩, e⟩)⟩
      · exact ⟨⟨h1, fun e => by have := congrArg Fin.val e; omega⟩, h3, Or.inr ⟨⟨by omega, by omega⟩, c⟩⟩
theorem pseudo_bpawn_iff (p : Pos) (m : Mv) (hw : p.wtm = false) (hpc : p.b[m.f] = BPAWN) :
    pseudo p m = true ↔
      (own false p.b[m.t] = false ∧ promoOk false m = true ∧
       ((m.t.val + 8 = m.f.val ∧ p.b[m.t] = 0) ∨
        (m.t.val + 16 = m.f.val ∧ m.f.val / 8 = 6 ∧ p.b[m.t] = 0 ∧ ∃ q : Sq, q.val + 8 = m.f.val ∧ p.b[q] = 0) ∨
        ((m.t.val + 9 = m.f.val ∧ m.t.val % 8 ≤ 6 ∨ m.t.val + 7 = m.f.val ∧ 1 ≤ m.t.val % 8) ∧
           (p.b[m.t] ≠ 0 ∨ p.ep = some m.t)))) := by
  unfold pseudo
  simp only [Pos.at, hpc, hw, Bool.false_eq_true, if_false, show kind BPAWN = 6 from by decide, show own false BPAWN = true from by decide,
    Bool.true_and, Bool.and_eq_true, Bool.or_eq_true, Bool.not_eq_true', bne_iff_ne, beq_iff_eq, dxy, ne_eq]
  have hft : m.f.val < 64 := m.f.isLt
  have htt : m.t.val < 64 := m.t.isLt
  cases hq : mkSq? (↑m.f.x) (↑m.f.y + -1) with
  | none =>
    rw [mkSq?_eq_none] at hq
    simp only [Sq.x, Sq.y] at hq ⊢
    simp only [Bool.false_eq_true, and_false, or_false]
    constructor
    · rintro ⟨⟨h1, h2⟩, h3, h4⟩
      refine ⟨h1, h3, ?_⟩
      rcases h4 with ⟨⟨a, b⟩, c⟩ | ⟨⟨a, b⟩, c⟩
      · left; exact ⟨by omega, c⟩
      · right; right; exact ⟨by omega, c⟩
    · rintro ⟨h1, h3, h4⟩
      rcases h4 with ⟨a, c⟩ | ⟨a, b, _⟩ | ⟨a, c⟩
      · exact ⟨⟨h1, fun e => by have := congrArg Fin.val e; omega⟩, h3, Or.inl ⟨⟨by omega, by omega⟩, c⟩⟩
      · omega
      · exact ⟨⟨h1, fun e => by have := congrArg Fin.val e; omega⟩, h3, Or.inr ⟨⟨by omega, by omega⟩, c⟩⟩
  | some q =>
    rw [mkSq?_eq_some] at hq
    have hqq : q.val < 64 := q.isLt
    simp only [Sq.x, Sq.y] at hq ⊢
    simp only [beq_iff_eq]
    constructor
    · rintro ⟨⟨h1, h2⟩, h3, h4⟩
      refine ⟨h1, h3, ?_⟩
      rcases h4 with (⟨⟨a, b⟩, c⟩ | ⟨⟨⟨⟨a, b⟩, c⟩, d⟩, e⟩) | ⟨⟨a, b⟩, c⟩
      · left; exact ⟨by omega, c⟩
      · right; left; exact ⟨by omega, by omega, d, q, by omega, e⟩
      · right; right; exact ⟨by omega, c⟩
    · rintro ⟨h1, h3, h4⟩
      rcases h4 with ⟨a, c⟩ | ⟨a, b, c, q', d, e⟩ | ⟨a, c⟩
      · exact ⟨⟨h1, fun e => by have := congrArg Fin.val e; omega⟩, h3, Or.inl (Or.inl ⟨⟨by omega, by omega⟩, c⟩)⟩
      · have : q' = q := Fin.ext (by omega)
        subst this
        exact ⟨⟨h1, fun e => by have := congrArg Fin.val e; omega⟩, h3, Or.inl (Or.inr ⟨⟨⟨⟨by omega, by omega⟩, by omega⟩, c⟩, e⟩)⟩
      · exact ⟨⟨h1, fun e => by have := congrArg Fin.val e; omega⟩, h3, Or.inr ⟨⟨by omega, by omega⟩, c⟩⟩
/-! ## pawn block -/

/-- promotion part of `addPawnMovesByMask(…, allPromotions = true)` -/
def promoCond (w : Bool) (m : Mv) : Prop :=
  if tst maskRow1Row8 m.t then (m.promo = pc w 2 ∨ m.promo = pc w 5 ∨ m.promo = pc w 3 ∨ m.promo = pc w 4) else m.promo = 0

theorem shl_from (b : Board) (pc6 : Pc) (n : Nat) (m : Mv) :
    (tst (pcBB b pc6 <<< n) m.t = true ∧ m.f = sqOff m.t (-(n : Int))) ↔ (m.t.val = m.f.val + n ∧ b[m.f] = pc6) := by
  rw [tst_shl]
  have := m.t.isLt
  constructor
  · rintro ⟨⟨f', h1, h2⟩, hf⟩
    have hv := sqOff_val m.t (-(n : Int)) (by omega)
    have : m.f = f' := by apply Fin.ext; rw [hf]; omega
    subst this
    rw [tst_pcBB] at h2
    exact ⟨by omega, by simpa using h2⟩
  · rintro ⟨h1, h2⟩
    refine ⟨⟨m.f, by omega, by rw [tst_pcBB, h2]; simp⟩, ?_⟩
    apply Fin.ext
    have hv := sqOff_val m.t (-(n : Int)) (by omega)
    omega

theorem shr_from (b : Board) (pc6 : Pc) (n : Nat) (m : Mv) :
    (tst (pcBB b pc6 >>> n) m.t = true ∧ m.f = sqOff m.t (n : Int)) ↔ (m.f.val = m.t.val + n ∧ b[m.f] = pc6) := by
  rw [tst_shr]
  have := m.f.isLt
  constructor
  · rintro ⟨⟨f', h1, h2⟩, hf⟩
    have := f'.isLt
    have hv := sqOff_val m.t (n : Int) (by omega)
    have : m.f = f' := by apply Fin.ext; rw [hf]; omega
    subst this
    rw [tst_pcBB] at h2
    exact ⟨by omega, by simpa using h2⟩
  · rintro ⟨h1, h2⟩
    refine ⟨⟨m.f, by omega, by rw [tst_pcBB, h2]; simp⟩, ?_⟩
    apply Fin.ext
    have hv := sqOff_val m.t (n : Int) (by omega)
    omega

theorem occ_zero (b : Board) (hv : ValidB b) (q : Sq) : tst (occBB b) q = false ↔ b[q] = 0 := by
  rw [tst_occBB b hv]; simp

theorem mem_pawnMoves_white (p : Pos) (hw : p.wtm = true) (hv : ValidB p.b) (m : Mv) :
    m ∈ pawnMoves p ↔
      (p.b[m.f] = WPAWN ∧ promoCond true m ∧
       ((m.t.val = m.f.val + 8 ∧ p.b[m.t] = 0) ∨
        (m.t.val = m.f.val + 16 ∧ m.f.val / 8 = 1 ∧ p.b[m.t] = 0 ∧ ∃ q : Sq, q.val = m.f.val + 8 ∧ p.b[q] = 0) ∨
        ((m.t.val = m.f.val + 7 ∧ m.t.val % 8 ≤ 6 ∨ m.t.val = m.f.val + 9 ∧ 1 ≤ m.t.val % 8) ∧
           (own false p.b[m.t] = true ∨ p.ep = some m.t)))) := by
  have e8 : (tst (pcBB p.b WPAWN <<< 8) m.t = true ∧ m.f = sqOff m.t (-8)) ↔ (m.t.val = m.f.val + 8 ∧ p.b[m.f] = WPAWN) :=
    shl_from p.b WPAWN 8 m
  have e7 : (tst (pcBB p.b WPAWN <<< 7) m.t = true ∧ m.f = sqOff m.t (-7)) ↔ (m.t.val = m.f.val + 7 ∧ p.b[m.f] = WPAWN) :=
    shl_from p.b WPAWN 7 m
  have e9 : (tst (pcBB p.b WPAWN <<< 9) m.t = true ∧ m.f = sqOff m.t (-9)) ↔ (m.t.val = m.f.val + 9 ∧ p.b[m.f] = WPAWN) :=
    shl_from p.b WPAWN 9 m
  have hpc : pc true 6 = WPAWN := rfl
  have hft := m.f.isLt
  have htt := m.t.isLt
  unfold pawnMoves promoCond
  simp only [hw, if_true, List.mem_append, mem_addPawn, mem_addPawnDouble, hpc, Bool.not_true]
  simp only [tst_and, tst_not, tst_or, tst_colorBB, tst_epMask, tst_maskAToG, tst_maskBToH, Bool.and_eq_true,
    Bool.not_eq_true', Bool.or_eq_true, decide_eq_true_eq, occ_zero _ hv]
  constructor
  · rintro (((⟨⟨h1, h2⟩, h3, h4⟩ | ⟨⟨h1, h2⟩, h3, h4⟩) | ⟨⟨⟨h1, h2⟩, h5⟩, h3, h4⟩) | ⟨⟨⟨h1, h2⟩, h5⟩, h3, h4⟩)
    · obtain ⟨a, b⟩ := e8.1 ⟨h1, h3⟩
      exact ⟨b, h4, Or.inl ⟨a, h2⟩⟩
    · rw [tst_shl] at h1
      obtain ⟨q, hq1, hq2⟩ := h1
      simp only [tst_and, tst_not, tst_maskRow3, Bool.and_eq_true, Bool.not_eq_true', decide_eq_true_eq, occ_zero _ hv] at hq2
      obtain ⟨⟨hq3, hq4⟩, hq5⟩ := hq2
      rw [tst_shl] at hq3
      obtain ⟨f', hf1, hf2⟩ := hq3
      have hv16 := sqOff_val m.t (-16) (by omega)
      have : m.f = f' := by apply Fin.ext; rw [h3]; omega
      subst this
      rw [tst_pcBB] at hf2
      refine ⟨by simpa using hf2, ?_, Or.inr (Or.inl ⟨by omega, by omega, h2, q, by omega, hq4⟩)⟩
      have : tst maskRow1Row8 m.t = false := by rw [tst_maskRow18]; simp; omega
      rw [this]; simpa using h4
    · obtain ⟨a, b⟩ := e7.1 ⟨h1, h3⟩
      exact ⟨b, h4, Or.inr (Or.inr ⟨Or.inl ⟨a, h2⟩, h5⟩)⟩
    · obtain ⟨a, b⟩ := e9.1 ⟨h1, h3⟩
      exact ⟨b, h4, Or.inr (Or.inr ⟨Or.inr ⟨a, h2⟩, h5⟩)⟩
  · rintro ⟨hb, hpr, (⟨a, c⟩ | ⟨a, b, c, q, d, e⟩ | ⟨(⟨a, b⟩ | ⟨a, b⟩), c⟩)⟩
    · obtain ⟨x, y⟩ := e8.2 ⟨a, hb⟩
      exact Or.inl (Or.inl (Or.inl ⟨⟨x, c⟩, y, hpr⟩))
    · refine Or.inl (Or.inl (Or.inr ⟨⟨?_, c⟩, ?_, ?_⟩))
      · rw [tst_shl]
        refine ⟨q, by omega, ?_⟩
        simp only [tst_and, tst_not, tst_maskRow3, Bool.and_eq_true, Bool.not_eq_true', decide_eq_true_eq, occ_zero _ hv]
        refine ⟨⟨?_, e⟩, by omega⟩
        rw [tst_shl]
        exact ⟨m.f, by omega, by rw [tst_pcBB, hb]; simp⟩
      · apply Fin.ext
        have hv16 := sqOff_val m.t (-16) (by omega)
        omega
      · have : tst maskRow1Row8 m.t = false := by rw [tst_maskRow18]; simp; omega
        rw [this] at hpr; simpa using hpr
    · obtain ⟨x, y⟩ := e7.2 ⟨a, hb⟩
      exact Or.inl (Or.inr ⟨⟨⟨x, b⟩, c⟩, y, hpr⟩)
    · obtain ⟨x, y⟩ := e9.2 ⟨a, hb⟩
      exact Or.inr ⟨⟨⟨x, b⟩, c⟩, y, hpr⟩

theorem mem_pawnMoves_black (p : Pos) (hw : p.wtm = false) (hv : ValidB p.b) (m : Mv) :
    m ∈ pawnMoves p ↔
      (p.b[m.f] = BPAWN ∧ promoCond false m ∧
       ((m.t.val + 8 = m.f.val ∧ p.b[m.t] = 0) ∨
        (m.t.val + 16 = m.f.val ∧ m.f.val / 8 = 6 ∧ p.b[m.t] = 0 ∧ ∃ q : Sq, q.val + 8 = m.f.val ∧ p.b[q] = 0) ∨
        ((m.t.val + 9 = m.f.val ∧ m.t.val % 8 ≤ 6 ∨ m.t.val + 7 = m.f.val ∧ 1 ≤ m.t.val % 8) ∧
           (own true p.b[m.t] = true ∨ p.ep = some m.t)))) := by
  have e8 : (tst (pcBB p.b BPAWN >>> 8) m.t = true ∧ m.f = sqOff m.t 8) ↔ (m.f.val = m.t.val + 8 ∧ p.b[m.f] = BPAWN) :=
    shr_from p.b BPAWN 8 m
  have e7 : (tst (pcBB p.b BPAWN >>> 7) m.t = true ∧ m.f = sqOff m.t 7) ↔ (m.f.val = m.t.val + 7 ∧ p.b[m.f] = BPAWN) :=
    shr_from p.b BPAWN 7 m
  have e9 : (tst (pcBB p.b BPAWN >>> 9) m.t = true ∧ m.f = sqOff m.t 9) ↔ (m.f.val = m.t.val + 9 ∧ p.b[m.f] = BPAWN) :=
    shr_from p.b BPAWN 9 m
  have hpc : pc false 6 = BPAWN := rfl
  have hft := m.f.isLt
  have htt := m.t.isLt
  unfold pawnMoves promoCond
  simp only [hw, Bool.false_eq_true, if_false, List.mem_append, mem_addPawn, mem_addPawnDouble, hpc, Bool.not_false]
  simp only [tst_and, tst_not, tst_or, tst_colorBB, tst_epMask, tst_maskAToG, tst_maskBToH, Bool.and_eq_true,
    Bool.not_eq_true', Bool.or_eq_true, decide_eq_true_eq, occ_zero _ hv]
  constructor
  · rintro (((⟨⟨h1, h2⟩, h3, h4⟩ | ⟨⟨h1, h2⟩, h3, h4⟩) | ⟨⟨⟨h1, h2⟩, h5⟩, h3, h4⟩) | ⟨⟨⟨h1, h2⟩, h5⟩, h3, h4⟩)
    · obtain ⟨a, b⟩ := e8.1 ⟨h1, h3⟩
      exact ⟨b, h4, Or.inl ⟨by omega, h2⟩⟩
    · rw [tst_shr] at h1
      obtain ⟨q, hq1, hq2⟩ := h1
      simp only [tst_and, tst_not, tst_maskRow6, Bool.and_eq_true, Bool.not_eq_true', decide_eq_true_eq, occ_zero _ hv] at hq2
      obtain ⟨⟨hq3, hq4⟩, hq5⟩ := hq2
      rw [tst_shr] at hq3
      obtain ⟨f', hf1, hf2⟩ := hq3
      have := f'.isLt
      have hv16 := sqOff_val m.t 16 (by omega)
      have : m.f = f' := by apply Fin.ext; rw [h3]; omega
      subst this
      rw [tst_pcBB] at hf2
      refine ⟨by simpa using hf2, ?_, Or.inr (Or.inl ⟨by omega, by omega, h2, q, by omega, hq4⟩)⟩
      have : tst maskRow1Row8 m.t = false := by rw [tst_maskRow18]; simp; omega
      rw [this]; simpa using h4
    · obtain ⟨a, b⟩ := e9.1 ⟨h1, h3⟩
      exact ⟨b, h4, Or.inr (Or.inr ⟨Or.inl ⟨by omega, h2⟩, h5⟩)⟩
    · obtain ⟨a, b⟩ := e7.1 ⟨h1, h3⟩
      exact ⟨b, h4, Or.inr (Or.inr ⟨Or.inr ⟨by omega, h2⟩, h5⟩)⟩
  · rintro ⟨hb, hpr, (⟨a, c⟩ | ⟨a, b, c, q, d, e⟩ | ⟨(⟨a, b⟩ | ⟨a, b⟩), c⟩)⟩
    · obtain ⟨x, y⟩ := e8.2 ⟨by omega, hb⟩
      exact Or.inl (Or.inl (Or.inl ⟨⟨x, c⟩, y, hpr⟩))
    · have hqq := q.isLt
      refine Or.inl (Or.inl (Or.inr ⟨⟨?_, c⟩, ?_, ?_⟩))
      · rw [tst_shr]
        refine ⟨q, by omega, ?_⟩
        simp only [tst_and, tst_not, tst_maskRow6, Bool.and_eq_true, Bool.not_eq_true', decide_eq_true_eq, occ_zero _ hv]
        refine ⟨⟨?_, e⟩, by omega⟩
        rw [tst_shr]
        exact ⟨m.f, by omega, by rw [tst_pcBB, hb]; simp⟩
      · apply Fin.ext
        have hv16 := sqOff_val m.t 16 (by omega)
        omega
      · have : tst maskRow1Row8 m.t = false := by rw [tst_maskRow18]; simp; omega
        rw [this] at hpr; simpa using hpr
    · obtain ⟨x, y⟩ := e9.2 ⟨by omega, hb⟩
      exact Or.inl (Or.inr ⟨⟨⟨x, b⟩, c⟩, y, hpr⟩)
    · obtain ⟨x, y⟩ := e7.2 ⟨by omega, hb⟩
      exact Or.inr ⟨⟨⟨x, b⟩, c⟩, y, hpr⟩

/-! ## pawn block against the movement rules -/

/-- the en-passant square, if any, is empty (enforced by `readFEN`, kept by `makeMove`: C02 `EpOk`) -/
def EpEmpty (p : Pos) : Prop := ∀ e, p.ep = some e → p.b[e] = 0

set_option maxRecDepth 100000 in
theorem isPromoPiece_fin : ∀ (w : Bool) (n : Fin 256), isPromoPiece w (UInt8.ofNat n.val) = true ↔
    (UInt8.ofNat n.val = pc w 2 ∨ UInt8.ofNat n.val = pc w 5 ∨ UInt8.ofNat n.val = pc w 3 ∨ UInt8.ofNat n.val = pc w 4) := by
  decide +kernel

theorem isPromoPiece_iff (w : Bool) (pr : Pc) :
    isPromoPiece w pr = true ↔ (pr = pc w 2 ∨ pr = pc w 5 ∨ pr = pc w 3 ∨ pr = pc w 4) := by
  have := isPromoPiece_fin w ⟨pr.toNat, pr.toNat_lt⟩
  simpa only [UInt8.ofNat_toNat] using this

theorem promo_bridge (w : Bool) (m : Mv) (ht : if w then 8 ≤ m.t.val else m.t.val < 56) :
    promoCond w m ↔ promoOk w m = true := by
  unfold promoCond promoOk
  rw [tst_maskRow18]
  have := m.t.isLt
  cases w
  · simp only [Bool.false_eq_true, if_false] at ht ⊢
    by_cases h0 : m.t.val / 8 = 0
    · have : (m.t.y == 0) = true := by simp [Sq.y, h0]
      simp only [h0, true_or, decide_true, if_true, this, isPromoPiece_iff]
    · have : (m.t.y == 0) = false := by simp [Sq.y, h0]
      have h7 : ¬ m.t.val / 8 = 7 := by omega
      simp [h0, h7, this]
  · simp only [if_true] at ht ⊢
    by_cases h7 : m.t.val / 8 = 7
    · have : (m.t.y == 7) = true := by simp [Sq.y, h7]
      simp only [h7, or_true, decide_true, if_true, this, isPromoPiece_iff]
    · have : (m.t.y == 7) = false := by simp [Sq.y, h7]
      have h0 : ¬ m.t.val / 8 = 0 := by omega
      simp [h0, h7, this]

theorem capture_bridge (p : Pos) (hv : ValidB p.b) (hep : EpEmpty p) (w : Bool) (t : Sq) :
    (own (!w) p.b[t] = true ∨ p.ep = some t) ↔ (own w p.b[t] = false ∧ (p.b[t] ≠ 0 ∨ p.ep = some t)) := by
  constructor
  · rintro (h | h)
    · have := own_excl (!w) _ h
      rw [Bool.not_not] at this
      exact ⟨this, Or.inl (ne_zero_of_own _ _ h)⟩
    · exact ⟨by rw [hep t h]; exact own_zero w, Or.inr h⟩
  · rintro ⟨h1, h2 | h2⟩
    · left
      have := occ_code_fin ⟨p.b[t].toNat, p.b[t].toNat_lt⟩
      simp only [UInt8.ofNat_toNat] at this
      have := this (hv t)
      have hnz : (p.b[t] != 0) = true := bne_iff_ne.2 h2
      rw [hnz] at this
      cases w
      · simp only [Bool.not_false]; rw [h1] at this; simpa using this
      · simp only [Bool.not_true]; rw [h1] at this; simpa using this
    · exact Or.inr h2

/-- the pawn block of `pseudoLegalMoves` generates exactly the pseudo-legal pawn moves -/
theorem pawn_section_iff (p : Pos) (hv : ValidB p.b) (hep : EpEmpty p) (m : Mv) :
    m ∈ pawnMoves p ↔ (pseudo p m = true ∧ kind p.b[m.f] = 6) := by
  have hft := m.f.isLt
  have htt := m.t.isLt
  cases hw : p.wtm
  · rw [mem_pawnMoves_black p hw hv]
    have hcb := capture_bridge p hv hep false m.t
    simp only [Bool.not_false] at hcb
    constructor
    · rintro ⟨hb, hpr, hmv⟩
      refine ⟨?_, by rw [hb]; decide⟩
      have h56 : m.t.val < 56 := by rcases hmv with h | h | ⟨h | h, _⟩ <;> omega
      rw [pseudo_bpawn_iff p m hw hb]
      refine ⟨?_, (promo_bridge false m (by simpa using h56)).1 hpr, ?_⟩
      · rcases hmv with h | h | ⟨_, h⟩
        · rw [h.2]; rfl
        · rw [h.2.2.1]; rfl
        · exact (hcb.1 h).1
      · rcases hmv with h | h | ⟨h1, h⟩
        · exact Or.inl h
        · exact Or.inr (Or.inl h)
        · exact Or.inr (Or.inr ⟨h1, (hcb.1 h).2⟩)
    · rintro ⟨hp, hk⟩
      have hown := pseudo_own_f p m hp
      rw [hw] at hown
      have hb : p.b[m.f] = BPAWN := (pc_iff false _ ⟨6, by decide⟩ (by decide)).2 ⟨hown, hk⟩
      rw [pseudo_bpawn_iff p m hw hb] at hp
      obtain ⟨h1, h2, hmv⟩ := hp
      have h56 : m.t.val < 56 := by rcases hmv with h | h | ⟨h | h, _⟩ <;> omega
      refine ⟨hb, (promo_bridge false m (by simpa using h56)).2 h2, ?_⟩
      rcases hmv with h | h | ⟨h3, h⟩
      · exact Or.inl h
      · exact Or.inr (Or.inl h)
      · exact Or.inr (Or.inr ⟨h3, hcb.2 ⟨h1, h⟩⟩)
  · rw [mem_pawnMoves_white p hw hv]
    have hcb := capture_bridge p hv hep true m.t
    simp only [Bool.not_true] at hcb
    constructor
    · rintro ⟨hb, hpr, hmv⟩
      refine ⟨?_, by rw [hb]; decide⟩
      have h8 : 8 ≤ m.t.val := by rcases hmv with h | h | ⟨h | h, _⟩ <;> omega
      rw [pseudo_wpawn_iff p m hw hb]
      refine ⟨?_, (promo_bridge true m (by simpa using h8)).1 hpr, ?_⟩
      · rcases hmv with h | h | ⟨_, h⟩
        · rw [h.2]; rfl
        · rw [h.2.2.1]; rfl
        · exact (hcb.1 h).1
      · rcases hmv with h | h | ⟨h1, h⟩
        · exact Or.inl h
        · exact Or.inr (Or.inl h)
        · exact Or.inr (Or.inr ⟨h1, (hcb.1 h).2⟩)
    · rintro ⟨hp, hk⟩
      have hown := pseudo_own_f p m hp
      rw [hw] at hown
      have hb : p.b[m.f] = WPAWN := (pc_iff true _ ⟨6, by decide⟩ (by decide)).2 ⟨hown, hk⟩
      rw [pseudo_wpawn_iff p m hw hb] at hp
      obtain ⟨h1, h2, hmv⟩ := hp
      have h8 : 8 ≤ m.t.val := by rcases hmv with h | h | ⟨h | h, _⟩ <;> omega
      refine ⟨hb, (promo_bridge true m (by simpa using h8)).2 h2, ?_⟩
      rcases hmv with h | h | ⟨h3, h⟩
      · exact Or.inl h
      · exact Or.inr (Or.inl h)
      · exact Or.inr (Or.inr ⟨h3, hcb.2 ⟨h1, h⟩⟩)

/-! ## king block against the movement rules -/

theorem castle_target (f t : Sq) (hf : f.val = 4 ∨ f.val = 60) (dx : Int) (hdx : dx = 2 ∨ dx = -2) :
    ((dxy f t).2 = 0 ∧ (dxy f t).1 = dx) ↔ (t.val : Int) = f.val + dx := by
  unfold dxy Sq.x Sq.y
  have := t.isLt
  simp only
  omega

theorem king_section_iff (p : Pos) (k : Sq) (hv : ValidB p.b) (hk : KingAt p.b p.wtm k) (m : Mv) :
    (m ∈ addMovesByMask k (kingAttacks k &&& ~~~colorBB p.b p.wtm) ∨ m ∈ castleMoves p k) ↔
      (pseudo p m = true ∧ kind p.b[m.f] = 1) := by
  have hstep : ∀ (hfk : m.f = k), kind p.b[m.f] = 1 ∧ own p.wtm p.b[m.f] = true := by
    intro hfk; subst hfk; rw [hk.1]; exact ⟨kind_king _, own_king _⟩
  have hcastle : (m ∈ castleMoves p k) ↔
      (m.f = k ∧ m.promo = 0 ∧
        (((m.t.val : Int) = m.f.val + 2 ∧ m.f.val = (if p.wtm then 4 else 60) ∧ castleOk p true = true) ∨
         ((m.t.val : Int) = m.f.val + -2 ∧ m.f.val = (if p.wtm then 4 else 60) ∧ castleOk p false = true))) := by
    cases hw : p.wtm
    · rw [hw] at hk
      rw [mem_castle_black p hw k hv hk]
      simp only [Bool.false_eq_true, if_false]
      have h1 : ∀ t : Sq, t = sq 62 ↔ (t.val : Int) = 60 + 2 := fun t => by rw [Fin.ext_iff]; simp [sq]; omega
      have h2 : ∀ t : Sq, t = sq 58 ↔ (t.val : Int) = 60 + -2 := fun t => by rw [Fin.ext_iff]; simp [sq]; omega
      have h3 : ∀ t : Sq, t = sq 60 ↔ t.val = 60 := fun t => by rw [Fin.ext_iff]; exact Iff.rfl
      simp only [h1, h2, h3]
      constructor
      · rintro ⟨a, b, (⟨c, d, e⟩ | ⟨c, d, e⟩)⟩
        · exact ⟨a, b, Or.inl ⟨by omega, d, e⟩⟩
        · exact ⟨a, b, Or.inr ⟨by omega, d, e⟩⟩
      · rintro ⟨a, b, (⟨c, d, e⟩ | ⟨c, d, e⟩)⟩
        · exact ⟨a, b, Or.inl ⟨by omega, d, e⟩⟩
        · exact ⟨a, b, Or.inr ⟨by omega, d, e⟩⟩
    · rw [hw] at hk
      rw [mem_castle_white p hw k hv hk]
      simp only [if_true]
      have h1 : ∀ t : Sq, t = sq 6 ↔ (t.val : Int) = 4 + 2 := fun t => by rw [Fin.ext_iff]; simp [sq]; omega
      have h2 : ∀ t : Sq, t = sq 2 ↔ (t.val : Int) = 4 + -2 := fun t => by rw [Fin.ext_iff]; simp [sq]; omega
      have h3 : ∀ t : Sq, t = sq 4 ↔ t.val = 4 := fun t => by rw [Fin.ext_iff]; exact Iff.rfl
      simp only [h1, h2, h3]
      constructor
      · rintro ⟨a, b, (⟨c, d, e⟩ | ⟨c, d, e⟩)⟩
        · exact ⟨a, b, Or.inl ⟨by omega, d, e⟩⟩
        · exact ⟨a, b, Or.inr ⟨by omega, d, e⟩⟩
      · rintro ⟨a, b, (⟨c, d, e⟩ | ⟨c, d, e⟩)⟩
        · exact ⟨a, b, Or.inl ⟨by omega, d, e⟩⟩
        · exact ⟨a, b, Or.inr ⟨by omega, d, e⟩⟩
  have hhome : ∀ (h : m.f.val = (if p.wtm then 4 else 60)), m.f.val = 4 ∨ m.f.val = 60 := by
    intro h; cases hw : p.wtm <;> rw [hw] at h <;> simp at h <;> omega
  -- the destination of a castling move is empty
  have hdest : ∀ (short : Bool), castleOk p short = true → m.f.val = (if p.wtm then 4 else 60) →
      (m.t.val : Int) = m.f.val + (if short then 2 else -2) → own p.wtm p.b[m.t] = false := by
    intro short hco hf ht
    have := (castleOk_iff p short).1 hco
    simp only at this
    obtain ⟨_, _, _, hsq⟩ := this
    have htt := m.t.isLt
    cases short
    · simp only [Bool.false_eq_true, if_false] at hsq ht
      rw [← hf] at hsq
      rw [← getP_val p.b m.t (m.f.val - 2) (by omega), hsq.2.1]; exact own_zero _
    · simp only [if_true] at hsq ht
      rw [← hf] at hsq
      rw [← getP_val p.b m.t (m.f.val + 2) (by omega), hsq.2.1]; exact own_zero _
  rw [mem_kingStep, hcastle]
  constructor
  · rintro (⟨hfk, hpr, hg, ht⟩ | ⟨hfk, hpr, hc⟩)
    · obtain ⟨h1, h2⟩ := hstep hfk
      refine ⟨?_, h1⟩
      rw [pseudo_king_iff p m h1]
      rw [← hfk, kingGeom_iff'] at hg
      exact ⟨h2, ht, hg.2, hpr, Or.inl hg.1⟩
    · obtain ⟨h1, h2⟩ := hstep hfk
      refine ⟨?_, h1⟩
      rw [pseudo_king_iff p m h1]
      rcases hc with ⟨c, d, e⟩ | ⟨c, d, e⟩
      · refine ⟨h2, hdest true e d (by simpa using c), fun e' => by rw [e'] at c; omega, hpr, Or.inr (Or.inl ?_)⟩
        obtain ⟨x, y⟩ := (castle_target m.f m.t (hhome d) 2 (Or.inl rfl)).2 c
        exact ⟨x, y, d, e⟩
      · refine ⟨h2, hdest false e d (by simpa using c), fun e' => by rw [e'] at c; omega, hpr, Or.inr (Or.inr ?_)⟩
        obtain ⟨x, y⟩ := (castle_target m.f m.t (hhome d) (-2) (Or.inr rfl)).2 c
        exact ⟨x, y, d, e⟩
  · rintro ⟨hp, h1⟩
    have hfk : m.f = k := hk.2 _ (king_of_kind _ _ (pseudo_own_f p m hp) h1)
    rw [pseudo_king_iff p m h1] at hp
    obtain ⟨_, ht, hne, hpr, hmv⟩ := hp
    rcases hmv with h | ⟨a, b, c, d⟩ | ⟨a, b, c, d⟩
    · left
      refine ⟨hfk, hpr, ?_, ht⟩
      rw [← hfk, kingGeom_iff']; exact ⟨h, hne⟩
    · right
      exact ⟨hfk, hpr, Or.inl ⟨(castle_target m.f m.t (hhome c) 2 (Or.inl rfl)).1 ⟨a, b⟩, c, d⟩⟩
    · right
      exact ⟨hfk, hpr, Or.inr ⟨(castle_target m.f m.t (hhome c) (-2) (Or.inr rfl)).1 ⟨a, b⟩, c, d⟩⟩

/-! ## `pseudoLegalMoves` -/

set_option maxRecDepth 100000 in
theorem kind_of_own_fin : ∀ (w : Bool) (n : Fin 256), own w (UInt8.ofNat n.val) = true →
    (kind (UInt8.ofNat n.val) = 1 ∨ kind (UInt8.ofNat n.val) = 2 ∨ kind (UInt8.ofNat n.val) = 3 ∨
     kind (UInt8.ofNat n.val) = 4 ∨ kind (UInt8.ofNat n.val) = 5 ∨ kind (UInt8.ofNat n.val) = 6) := by
  decide +kernel

theorem kind_of_own (w : Bool) (p : Pc) (h : own w p = true) :
    kind p = 1 ∨ kind p = 2 ∨ kind p = 3 ∨ kind p = 4 ∨ kind p = 5 ∨ kind p = 6 := by
  have := kind_of_own_fin w ⟨p.toNat, p.toNat_lt⟩
  simp only [UInt8.ofNat_toNat] at this
  exact this h

/-- well-formedness used by the generator theorems: piece codes 0..12, the mover's king on `k` and nowhere else,
    the en-passant square (if any) empty -/
structure GenWF (p : Pos) (k : Sq) : Prop where
  valid : ValidB p.b
  king : KingAt p.b p.wtm k
  ep : EpEmpty p

/-- **`MoveGen::pseudoLegalMoves` generates exactly the moves that obey the movement rules** -/
theorem mem_pseudoLegalMoves (p : Pos) (k : Sq) (h : GenWF p k) (m : Mv) :
    m ∈ pseudoLegalMoves p k ↔ pseudo p m = true := by
  obtain ⟨hv, hk, hep⟩ := h
  have sQ : m ∈ pieceMoves p.b p.wtm 2 (fun sq => rookAttacks sq (occBB p.b) ||| bishopAttacks sq (occBB p.b))
      (fun _ => ~~~colorBB p.b p.wtm) ↔ (pseudo p m = true ∧ kind p.b[m.f] = 2) :=
    section_iff p ⟨2, by decide⟩ (by decide) (by decide) _ (fun f t hk => attacks_queen p.b hv f t hk) m
  have sR : m ∈ pieceMoves p.b p.wtm 3 (fun sq => rookAttacks sq (occBB p.b)) (fun _ => ~~~colorBB p.b p.wtm) ↔
      (pseudo p m = true ∧ kind p.b[m.f] = 3) :=
    section_iff p ⟨3, by decide⟩ (by decide) (by decide) _ (fun f t hk => attacks_rook p.b hv f t hk) m
  have sB : m ∈ pieceMoves p.b p.wtm 4 (fun sq => bishopAttacks sq (occBB p.b)) (fun _ => ~~~colorBB p.b p.wtm) ↔
      (pseudo p m = true ∧ kind p.b[m.f] = 4) :=
    section_iff p ⟨4, by decide⟩ (by decide) (by decide) _ (fun f t hk => attacks_bishop p.b hv f t hk) m
  have sN : m ∈ pieceMoves p.b p.wtm 5 knightAttacks (fun _ => ~~~colorBB p.b p.wtm) ↔
      (pseudo p m = true ∧ kind p.b[m.f] = 5) :=
    section_iff p ⟨5, by decide⟩ (by decide) (by decide) _ (fun f t hk => attacks_knight p.b f t hk) m
  have sK := king_section_iff p k hv hk m
  have sP := pawn_section_iff p hv hep m
  unfold pseudoLegalMoves
  simp only [List.mem_append]
  constructor
  · rintro ((((((h | h) | h) | h) | h) | h) | h)
    · exact (sQ.1 h).1
    · exact (sR.1 h).1
    · exact (sB.1 h).1
    · exact (sK.1 (Or.inl h)).1
    · exact (sK.1 (Or.inr h)).1
    · exact (sN.1 h).1
    · exact (sP.1 h).1
  · intro hp
    rcases kind_of_own _ _ (pseudo_own_f p m hp) with h | h | h | h | h | h
    · rcases sK.2 ⟨hp, h⟩ with h' | h'
      · exact Or.inl (Or.inl (Or.inl (Or.inr h')))
      · exact Or.inl (Or.inl (Or.inr h'))
    · exact Or.inl (Or.inl (Or.inl (Or.inl (Or.inl (Or.inl (sQ.2 ⟨hp, h⟩))))))
    · exact Or.inl (Or.inl (Or.inl (Or.inl (Or.inl (Or.inr (sR.2 ⟨hp, h⟩))))))
    · exact Or.inl (Or.inl (Or.inl (Or.inl (Or.inr (sB.2 ⟨hp, h⟩)))))
    · exact Or.inl (Or.inr (sN.2 ⟨hp, h⟩))
    · exact Or.inr (sP.2 ⟨hp, h⟩)

/-- the moves the engine treats as legal (`pseudoLegalMoves`, then `removeIllegal`) are exactly the legal moves -/
theorem mem_legalMoves (p : Pos) (k : Sq) (h : GenWF p k) (m : Mv) : m ∈ legalMoves p k ↔ legalB p m = true := by
  unfold legalMoves
  rw [removeIllegal_eq p k h.valid h.king _ (fun m hm => (mem_pseudoLegalMoves p k h m).1 hm), List.mem_filter,
    mem_pseudoLegalMoves p k h]
  unfold legalB
  simp only [Bool.and_eq_true]

end Chess.Texel
