/-!
# Token-level model of the PGN writer and of the parser's recursion on the writer's language

Trees are rose trees with a label per node (the move, or its text).  `writeKids` is `GameTree::getGameTreeString`
with each move text abstracted to one SYMBOL token (`sym`) and `(`, `)` to `lp`, `rp`: the children `c0 c1 … ck` of a
node are written as `c0 (c1 <subtree of c1>) … (ck <subtree of ck>) <subtree of c0>`.  `parseLine` is the recursion
structure of `Node::parsePgn` on streams of these three token kinds: a line of moves, each the child of the previous
one, each followed by zero or more parenthesised alternatives that become its later siblings.
(`Chess/Pgn.lean` is the full model — arena of nodes, positions, comments, NAGs, tags — that the differential ties to
the C++; the driver cross-checks its tree against `parseLine` on every input made of these token kinds.)
-/
namespace Chess.PgnTree

inductive Tree (α : Type) where
  | node (lbl : α) (kids : List (Tree α))

inductive Tk (α : Type) where
  | sym (lbl : α) | lp | rp

mutual
  /-- the text of a node's children list -/
  def writeKids {α} : List (Tree α) → List (Tk α)
    | [] => []
    | Tree.node m kids :: rest => Tk.sym m :: (writeAlts rest ++ writeKids kids)
  /-- the later siblings, each as a parenthesised variation -/
  def writeAlts {α} : List (Tree α) → List (Tk α)
    | [] => []
    | Tree.node m kids :: rest => Tk.lp :: Tk.sym m :: (writeKids kids ++ Tk.rp :: writeAlts rest)
end

mutual
  /-- `parsePgn` at one node: returns the children to append to the node and the rest of the input;
      the closing `)` of the line is consumed, as in the C++ -/
  def parseLine {α} : Nat → List (Tk α) → List (Tree α) × List (Tk α)
    | 0, ts => ([], ts)
    | _ + 1, [] => ([], [])
    | _ + 1, Tk.rp :: r => ([], r)
    | _ + 1, Tk.lp :: r => ([], Tk.lp :: r)       -- a variation before any move of the line: not in the writer's language
    | f + 1, Tk.sym m :: r =>
      let (alts, r1) := parseAlts f r
      let (sub, r2) := parseLine f r1
      (Tree.node m sub :: alts, r2)
  /-- the variations following a move: each `( line )` contributes siblings of that move -/
  def parseAlts {α} : Nat → List (Tk α) → List (Tree α) × List (Tk α)
    | 0, ts => ([], ts)
    | f + 1, Tk.lp :: r =>
      let (k, r1) := parseLine f r
      let (more, r2) := parseAlts f r1
      (k ++ more, r2)
    | _ + 1, ts => ([], ts)
end

end Chess.PgnTree
