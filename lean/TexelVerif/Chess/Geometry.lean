import TexelVerif.Chess.Spec
/-!
Board geometry derived from the specification's `attacks`, used to tie the implementation's
precomputed tables (magic / PEXT sliding attacks, king / knight / pawn attacks, squares-between,
direction table) to the ray-walk definition — exhaustively.
-/
namespace Chess

def maskOf (f : Sq → Bool) : Nat := allSq.foldl (fun acc s => if f s then acc ||| (1 <<< s.val) else acc) 0

/-- board with an anonymous blocker (a black pawn) on every square of `occ` and piece `pc` on `s` -/
def boardOfOcc (occ : Nat) (s : Sq) (pc : Pc) : Board :=
  (Vector.ofFn fun (i : Fin 64) => if occ.testBit i.val then BPAWN else EMPTY).set s pc

/-- attack set of piece `pc` standing on `s` with occupancy `occ` -/
def attackMask (pc : Pc) (s : Sq) (occ : Nat) : Nat :=
  let b := boardOfOcc occ s pc
  maskOf fun t => attacks b s t

def sgn (x : Int) : Int := if x > 0 then 1 else if x < 0 then -1 else 0

/-- `BitBoard::getDirection`: unit step for aligned squares, the jump for knight-distance squares, else 0 -/
def direction (a b : Sq) : Int :=
  let d := dxy a b
  if d.1 == 0 && d.2 == 0 then 0
  else if d.1 == 0 || d.2 == 0 || d.1.natAbs == d.2.natAbs then sgn d.2 * 8 + sgn d.1
  else if (d.1.natAbs == 1 && d.2.natAbs == 2) || (d.1.natAbs == 2 && d.2.natAbs == 1) then d.2 * 8 + d.1
  else 0

/-- `BitBoard::squaresBetween`: squares strictly between two aligned squares -/
def between (a b : Sq) : Nat :=
  let d := dxy a b
  if (d.1 == 0 && d.2 == 0) || !(d.1 == 0 || d.2 == 0 || d.1.natAbs == d.2.natAbs) then 0
  else
    let n := max d.1.natAbs d.2.natAbs
    let sx := sgn d.1; let sy := sgn d.2
    (List.range n).foldl (fun (acc : Nat) (k : Nat) =>
      if k == 0 then acc else
      match mkSq? ((a.x : Int) + sx * (k : Int)) ((a.y : Int) + sy * (k : Int)) with
      | some q => acc ||| (1 <<< q.val)
      | none => acc) (0 : Nat)

end Chess
