import TexelVerif.Chess.Spec
/-!
FEN reader / writer mirroring `TextIO::readFEN` / `toFEN` (textio.cpp:34-266) character by character.
Errors are the reader's `ChessParseError` cases.  The half-move clock and move counter are `Int` in the raw
result because `std::stoi` delivers an `int`; since the C17 repair the reader clamps both to
`0 … maxMoveCounter` (see `clampCounter`; `Props/C17.lean` has the witness for the old behaviour).
-/
namespace Chess

inductive FenErr where
  | tooManyRows | tooManyCols | pawnRank | invalidPiece | invalidSide | invalidCastle | invalidEp
  | whiteKings | blackKings | kingCapture
deriving Repr, BEq, DecidableEq

def FenErr.toString : FenErr → String
  | .tooManyRows => "too-many-rows" | .tooManyCols => "too-many-cols" | .pawnRank => "pawn-rank"
  | .invalidPiece => "invalid-piece" | .invalidSide => "invalid-side" | .invalidCastle => "invalid-castle"
  | .invalidEp => "invalid-ep" | .whiteKings => "white-kings" | .blackKings => "black-kings"
  | .kingCapture => "king-capture"

def pcOfChar (c : Char) : Option Pc :=
  match c with
  | 'K' => some 1 | 'Q' => some 2 | 'R' => some 3 | 'B' => some 4 | 'N' => some 5 | 'P' => some 6
  | 'k' => some 7 | 'q' => some 8 | 'r' => some 9 | 'b' => some 10 | 'n' => some 11 | 'p' => some 12
  | _ => none

def charOfPc (p : Pc) : Char :=
  match p with
  | 1 => 'K' | 2 => 'Q' | 3 => 'R' | 4 => 'B' | 5 => 'N' | 6 => 'P'
  | 7 => 'k' | 8 => 'q' | 9 => 'r' | 10 => 'b' | 11 => 'n' | 12 => 'p' | _ => '?'

/-- piece-placement field; returns the board and the rest of the input (starting at the first space) -/
def parsePlacement : List Char → Board → (row : Int) → (col : Nat) → Except FenErr (Board × List Char)
  | [], b, _, _ => .ok (b, [])
  | c :: cs, b, row, col =>
    if c == ' ' then .ok (b, c :: cs)
    else if '1' ≤ c ∧ c ≤ '8' then parsePlacement cs b row (col + (c.toNat - '0'.toNat))
    else if c == '/' then
      if row - 1 < 0 then .error .tooManyRows else parsePlacement cs b (row - 1) 0
    else match pcOfChar c with
      | none => .error .invalidPiece
      | some pc =>
        if col > 7 then .error .tooManyCols
        else if (pc == WPAWN || pc == BPAWN) && (row == 0 || row == 7) then .error .pawnRank
        else parsePlacement cs (setSq b (row.toNat * 8 + col) pc) row (col + 1)

def skipSpaces : List Char → List Char
  | ' ' :: cs => skipSpaces cs
  | cs => cs

def takeWord : List Char → List Char × List Char
  | [] => ([], [])
  | c :: cs => if c == ' ' then ([], c :: cs) else let (w, r) := takeWord cs; (c :: w, r)

def parseCastle : List Char → UInt8 → Except FenErr UInt8
  | [], m => .ok m
  | c :: cs, m =>
    match c with
    | 'K' => parseCastle cs (m ||| 2) | 'Q' => parseCastle cs (m ||| 1)
    | 'k' => parseCastle cs (m ||| 8) | 'q' => parseCastle cs (m ||| 4)
    | '-' => parseCastle cs m
    | _ => .error .invalidCastle

/-- `std::stoi`: optional leading white space, optional sign, at least one digit, stops at the first
    non-digit; fails (leaves the field at its default) on no digits or on int overflow -/
def stoi (s : List Char) : Option Int :=
  let s := s.dropWhile fun c => c == ' ' || c == '\t' || c == '\n' || c == '\r' || c.toNat == 11 || c.toNat == 12
  let (neg, s) := match s with
    | '-' :: r => (true, r) | '+' :: r => (false, r) | r => (false, r)
  let ds := s.takeWhile Char.isDigit
  if ds.isEmpty then none else
  let n : Nat := ds.foldl (fun a c => a * 10 + (c.toNat - '0'.toNat)) 0
  let v : Int := if neg then -(n : Int) else n
  if v < -2147483648 ∨ v > 2147483647 then none else some v

/-- result of the reader before the counters are narrowed to `Nat` -/
structure RawPos where
  b : Board
  wtm : Bool
  castle : UInt8
  ep : Option Sq
  hmc : Int
  fmc : Int

def countPc (b : Board) (pc : Pc) : Nat := (allSq.filter fun s => b[s] == pc).length

def RawPos.toPos (r : RawPos) : Pos :=
  { b := r.b, wtm := r.wtm, castle := r.castle, ep := r.ep, hmc := r.hmc.toNat, fmc := r.fmc.toNat }

/-- largest counter value the reader lets into a position (`maxMoveCounter` in textio.cpp, the C17 repair) -/
def maxMoveCounter : Int := 65535

/-- counters are clamped to `0 … maxMoveCounter` (before the repair the `std::stoi` value was stored as is,
    so a negative half-move clock became a negative index into `Position::moveCntKeys`) -/
def clampCounter (v : Int) : Int := min (max v 0) maxMoveCounter

/-- a counter field: `str2Num` failure leaves the default, success stores the clamped value -/
def counterOfWord (w : List Char) (dflt : Int) : Int :=
  match stoi w with
  | some v => clampCounter v
  | none => dflt

/-- the validation after the six fields have been read: one king each, the side not to move is not in check;
    then the en-passant fix-up -/
def finishRead (b : Board) (wtm : Bool) (cm : UInt8) (ep : Option Sq) (hmc fmc : Int) : Except FenErr RawPos :=
  if countPc b WKING != 1 then .error .whiteKings
  else if countPc b BKING != 1 then .error .blackKings
  else if inCheck b (!wtm) then .error .kingCapture
  else
    let p : Pos := fixupEP { b := b, wtm := wtm, castle := cm, ep := ep, hmc := 0, fmc := 1 }
    .ok { b := b, wtm := wtm, castle := cm, ep := p.ep, hmc := hmc, fmc := fmc }

def readFENRaw (fen : String) : Except FenErr RawPos := do
  let empty : Board := Vector.replicate 64 0
  let (b, rest) ← parsePlacement fen.toList empty 7 0
  let rest := skipSpaces rest
  match rest with
  | [] => .error .invalidSide
  | sc :: rest =>
    let wtm := sc == 'w'
    let rest := skipSpaces rest
    let (cw, rest) := takeWord rest
    let cm ← parseCastle cw 0
    let g (n : Nat) : Pc := b.getD n 0
    let cm := if g 4 != WKING || g 7 != WROOK then cm &&& ~~~(2 : UInt8) else cm
    let cm := if g 4 != WKING || g 0 != WROOK then cm &&& ~~~(1 : UInt8) else cm
    let cm := if g 60 != BKING || g 63 != BROOK then cm &&& ~~~(8 : UInt8) else cm
    let cm := if g 60 != BKING || g 56 != BROOK then cm &&& ~~~(4 : UInt8) else cm
    let rest := skipSpaces rest
    let (epw, rest') := takeWord rest
    let ep ← (match rest with
      | [] => pure none
      | '-' :: _ => pure none
      | [_] => .error .invalidEp            -- `i >= fen.length() - 1`
      | c0 :: c1 :: _ =>                    -- `getSquare(fen.substr(i, 2))`; c1 may be the separating space
        let x : Int := (c0.toNat : Int) - ('a'.toNat : Int)
        let y : Int := (c1.toNat : Int) - ('1'.toNat : Int)
        match mkSq? x y with
        | none => pure none
        | some e =>
          if wtm then
            if e.y != 5 || b[e] != 0 || g (e.val - 8) != BPAWN then pure none else pure (some e)
          else
            if e.y != 2 || b[e] != 0 || g (e.val + 8) != WPAWN then pure none else pure (some e) : Except FenErr (Option Sq))
    let _ := epw
    let rest := rest'
    let rest := skipSpaces rest
    let (hw, rest) := takeWord rest
    let hmc : Int := if hw.isEmpty then 0 else counterOfWord hw 0
    let rest := skipSpaces rest
    let (fw, _) := takeWord rest
    let fmc : Int := if fw.isEmpty then 1 else counterOfWord fw 1
    finishRead b wtm cm ep hmc fmc

def readFEN (fen : String) : Except FenErr Pos := (readFENRaw fen).map RawPos.toPos

def sqName (s : Sq) : String := String.singleton (Char.ofNat ('a'.toNat + s.x)) ++ String.singleton (Char.ofNat ('1'.toNat + s.y))

def rowToFEN (b : Board) (r : Nat) : String := Id.run do
  let mut out := ""
  let mut empty := 0
  for c in [0:8] do
    let p := b.getD (r * 8 + c) 0
    if p == 0 then empty := empty + 1
    else
      if empty > 0 then out := out ++ toString empty; empty := 0
      out := out.push (charOfPc p)
  if empty > 0 then out := out ++ toString empty
  return out

def castleToString (m : UInt8) : String :=
  let s := (if m &&& 2 != 0 then "K" else "") ++ (if m &&& 1 != 0 then "Q" else "") ++
           (if m &&& 8 != 0 then "k" else "") ++ (if m &&& 4 != 0 then "q" else "")
  if s.isEmpty then "-" else s

def toFENWith (b : Board) (wtm : Bool) (castle : UInt8) (ep : Option Sq) (hmc fmc : Int) : String :=
  String.intercalate "/" ([7, 6, 5, 4, 3, 2, 1, 0].map (rowToFEN b)) ++ (if wtm then " w " else " b ") ++
  castleToString castle ++ " " ++ (match ep with | some e => sqName e | none => "-") ++ s!" {hmc} {fmc}"

def toFEN (p : Pos) : String := toFENWith p.b p.wtm p.castle p.ep p.hmc p.fmc

def mvToUci (m : Mv) : String :=
  sqName m.f ++ sqName m.t ++ (match kind m.promo with | 2 => "q" | 3 => "r" | 4 => "b" | 5 => "n" | _ => "")

def startFEN : String := "rnbqkbnr/pppppppp/8/8/8/8/PPPPPPPP/RNBQKBNR w KQkq - 0 1"

end Chess
