import TexelVerif.Chess.TexelGenGives
/-!
`MoveGen::givesCheck` for en-passant captures (`gives_ep`): two squares are vacated, the mover's pawn's and the captured
pawn's; a line through either can be uncovered (second block; fourth block, diagonal case), and on a rank through both at
once (fourth block, `case 1:` / `case -1:`).
-/
namespace Chess.Texel
open PosImpl (BB getP getP_eq)

/-- facts about an en-passant capture; `c` is the square of the captured pawn -/
structure EpGeo (p : Pos) (m : Mv) (c : Sq) : Prop where
  cval : c.val = (if p.wtm then m.t.val - 8 else m.t.val + 8)
  pc_c : p.b[c] = pc (!p.wtm) 6
  t0 : p.b[m.t] = 0
  k6 : kind p.b[m.f] = 6
  promo : m.promo = 0
  cy : c.y = m.f.y
  cx : c.x = m.t.x
  tx : (m.t.x : Int) = m.f.x + 1 ∨ (m.t.x : Int) = m.f.x - 1
  ty : m.t.y ≠ m.f.y
  csq : c = sqOff m.f ((m.t.x : Int) - m.f.x)

theorem isEpS_t0 (p : Pos) (m : Mv) (h : PosImpl.isEpS p m = true) : p.b[m.t] = 0 := by
  unfold PosImpl.isEpS at h
  simp only [Bool.and_eq_true, beq_iff_eq, bne_iff_ne, ne_eq, getP_sq, Bool.not_eq_true', Decidable.not_not] at h
  simpa using h.1.2

theorem ep_geo (p : Pos) (m : Mv) (hp : pseudo p m = true) (hs : EpSane p) (hE : PosImpl.isEpS p m = true) :
    ∃ c, EpGeo p m c := by
  obtain ⟨k6, hep, hfx⟩ := isEpS_facts p m hE
  have t0 := isEpS_t0 p m hE
  have hown := pseudo_own_f p m hp
  have hty := hs.2 m.t hep
  have hok := hs.1 m.t hep
  have hft := m.f.isLt
  have htt := m.t.isLt
  cases hw : p.wtm
  · rw [hw] at hown hty hok
    simp only [Bool.false_eq_true, if_false] at hty hok
    have hb : p.b[m.f] = BPAWN := (pc_iff false _ ⟨6, by decide⟩ (by decide)).2 ⟨hown, k6⟩
    have hp' := hp
    rw [pseudo_bpawn_iff p m hw hb] at hp'
    obtain ⟨_, hprom, hmv⟩ := hp'
    unfold Sq.y at hty
    have hdiag : (m.t.val + 9 = m.f.val ∧ m.t.val % 8 ≤ 6) ∨ (m.t.val + 7 = m.f.val ∧ 1 ≤ m.t.val % 8) := by
      rcases hmv with h | h | ⟨h, _⟩
      · exfalso; apply hfx; unfold Sq.x; omega
      · exfalso; apply hfx; unfold Sq.x; omega
      · exact h
    have hpr : m.promo = 0 := by
      unfold promoOk at hprom
      have : (m.t.y == 0) = false := by unfold Sq.y; simp; omega
      simpa [this] using hprom
    refine ⟨⟨m.t.val + 8, by omega⟩, ⟨by simp [hw], ?_, t0, k6, hpr, ?_, ?_, ?_, ?_, ?_⟩⟩
    · rw [← getP_val p.b ⟨m.t.val + 8, by omega⟩ (m.t.val + 8) rfl, hok.2, hw]; rfl
    · unfold Sq.y; simp only; omega
    · unfold Sq.x; simp only; omega
    · unfold Sq.x; omega
    · unfold Sq.y; omega
    · apply Fin.ext
      have hx1 : m.t.x = m.t.val % 8 := rfl
      have hx2 : m.f.x = m.f.val % 8 := rfl
      have hv := sqOff_val m.f ((m.t.x : Int) - m.f.x) (by omega)
      simp only
      omega
  · rw [hw] at hown hty hok
    simp only [if_true] at hty hok
    have hb : p.b[m.f] = WPAWN := (pc_iff true _ ⟨6, by decide⟩ (by decide)).2 ⟨hown, k6⟩
    have hp' := hp
    rw [pseudo_wpawn_iff p m hw hb] at hp'
    obtain ⟨_, hprom, hmv⟩ := hp'
    unfold Sq.y at hty
    have hdiag : (m.t.val = m.f.val + 7 ∧ m.t.val % 8 ≤ 6) ∨ (m.t.val = m.f.val + 9 ∧ 1 ≤ m.t.val % 8) := by
      rcases hmv with h | h | ⟨h, _⟩
      · exfalso; apply hfx; unfold Sq.x; omega
      · exfalso; apply hfx; unfold Sq.x; omega
      · exact h
    have hpr : m.promo = 0 := by
      unfold promoOk at hprom
      have : (m.t.y == 7) = false := by unfold Sq.y; simp; omega
      simpa [this] using hprom
    refine ⟨⟨m.t.val - 8, by omega⟩, ⟨by simp [hw], ?_, t0, k6, hpr, ?_, ?_, ?_, ?_, ?_⟩⟩
    · rw [← getP_val p.b ⟨m.t.val - 8, by omega⟩ (m.t.val - 8) rfl, hok.2, hw]; rfl
    · unfold Sq.y; simp only; omega
    · unfold Sq.x; simp only; omega
    · unfold Sq.x; omega
    · unfold Sq.y; omega
    · apply Fin.ext
      have hx1 : m.t.x = m.t.val % 8 := rfl
      have hx2 : m.f.x = m.f.val % 8 := rfl
      have hv := sqOff_val m.f ((m.t.x : Int) - m.f.x) (by omega)
      simp only
      omega

/-- the board after an en-passant capture -/
theorem apply_b_ep (p : Pos) (m : Mv) (hE : PosImpl.isEpS p m = true) (hk : kind p.b[m.f] ≠ 1) (hpr : m.promo = 0) (q : Sq) :
    (apply p m).b[q] = if m.t.val = q.val then p.b[m.f] else if m.f.val = q.val then 0
      else if (if p.wtm then m.t.val - 8 else m.t.val + 8) = q.val then 0 else p.b[q] := by
  rw [PosImpl.apply_eq]
  show (PosImpl.b4S p m)[q] = _
  have h3 : PosImpl.b4S p m = PosImpl.b3S p m := by
    unfold PosImpl.b4S
    rw [getP_sq]
    split
    · rename_i hc; simp only [Bool.and_eq_true, beq_iff_eq] at hc; exact absurd hc.1 hk
    · split
      · rename_i hc; simp only [Bool.and_eq_true, beq_iff_eq] at hc; exact absurd hc.1 hk
      · rfl
  rw [h3]
  unfold PosImpl.b3S
  rw [hE]
  simp only [↓reduceIte]
  rw [setSq_get, setSq_get, setSq_get, getP_sq, hpr]
  simp only [bne_self_eq_false, Bool.false_eq_true, if_false]

theorem change_ep (p : Pos) (m : Mv) (c : Sq) (hp : pseudo p m = true) (hE : PosImpl.isEpS p m = true) (g : EpGeo p m c) :
    Change p.b (apply p m).b p.wtm (fun q => q = m.f ∨ q = c) (fun q => q = m.t) ∧ (apply p m).b[m.t] = p.b[m.f] := by
  have hb := apply_b_ep p m hE (by rw [g.k6]; decide) g.promo
  have hft := pseudo_ne p m hp
  have hct : c ≠ m.t := by
    intro e; subst e
    have := g.pc_c; rw [g.t0] at this
    cases hw : p.wtm <;> rw [hw] at this <;> exact absurd this (by decide)
  have ht : (apply p m).b[m.t] = p.b[m.f] := by rw [hb m.t, if_pos rfl]
  refine ⟨⟨?_, ?_, ?_⟩, ht⟩
  · intro q h1 h2
    have h1' : ¬ (q = m.f ∨ q = c) := h1
    have h2' : ¬ q = m.t := h2
    rw [hb q, if_neg (fun e => h2' (Fin.ext e.symm)), if_neg (fun e => h1' (Or.inl (Fin.ext e.symm))),
      if_neg (fun e => h1' (Or.inr (Fin.ext (by rw [g.cval]; exact e.symm))))]
  · intro q h1
    have h1' : q = m.f ∨ q = c := h1
    rcases h1' with e | e
    · subst e
      rw [hb m.f, if_neg (fun e => hft (Fin.ext e.symm)), if_pos rfl]
    · subst e
      rw [hb q, if_neg (fun e => hct (Fin.ext e.symm))]
      split
      · rfl
      · rw [if_pos g.cval.symm]
  · intro q h1
    have h1' : q = m.t := h1
    subst h1'; rw [ht]; exact pseudo_own_f p m hp

/-! ## the rank through both vacated squares -/

/-- `A` is the neighbour of `B` in direction `(σ, 0)`, both are vacated; the king is seen from `A` in direction `(σ, 0)`
    and an own rook or queen from `B` in the opposite direction: after the move that piece sees the king -/
theorem xray_of_rank (b b' : Board) (w : Bool) (V F : Sq → Prop) (hch : Change b b' w V F) (K A B s : Sq) (σ : Int)
    (hσ : σ = 1 ∨ σ = -1) (hAB : stepSq A.x A.y (-σ) 0 1 = some B) (hVA : V A) (hVB : V B)
    (hF : ∀ q, F q → q.y ≠ A.y) (hV : ∀ q, V q → q = A ∨ q = B)
    (n i : Nat) (h1 : Seg b A σ 0 n K) (h2 : Seg b B (-σ) 0 i s) (hbs : b[s] = pc w 2 ∨ b[s] = pc w 3) :
    ∃ s dx dy n j v, ¬ F s ∧ ¬ V s ∧ own w b[s] = true ∧ sliderOn b[s] dx dy ∧ Seg b' K dx dy n s ∧
      1 ≤ j ∧ j < n ∧ V v ∧ Seg b K dx dy j v := by
  have hd : IsDir σ 0 := by unfold IsDir; omega
  have hd' : IsDir (-σ) 0 := by unfold IsDir; omega
  have hrd : RookD (-σ) 0 := by unfold RookD; omega
  obtain ⟨e2, e3, _⟩ := pc_own_kind w b[s]
  have hso : own w b[s] = true ∧ sliderOn b[s] (-σ) 0 := by
    rcases hbs with h | h
    · exact ⟨(e2 h).1, Or.inl ⟨hrd, Or.inr (e2 h).2⟩⟩
    · exact ⟨(e3 h).1, Or.inl ⟨hrd, Or.inl (e3 h).2⟩⟩
  have hr := h1.rev
  rw [Int.neg_zero] at hr
  -- all squares involved lie on the rank of `A`
  have hrow : ∀ (X q : Sq) (τ : Int) (l : Nat), X.y = A.y → stepSq X.x X.y τ 0 l = some q → q.y = A.y := by
    intro X q τ l hX hq
    rw [stepSq_eq_some] at hq
    omega
  have hKy : K.y = A.y := hrow A K σ n rfl h1.step
  have hBy : B.y = A.y := hrow A B (-σ) 1 rfl hAB
  have s1 : Seg b' K (-σ) 0 n A := hch.seg_after hr (fun l q _ _ hq hFq => hF q hFq (hrow K q (-σ) l hKy hq))
  have s2 : Seg b' B (-σ) 0 i s := hch.seg_after h2 (fun l q _ _ hq hFq => hF q hFq (hrow B q (-σ) l hBy hq))
  have s3 := (s1.join (hch.vac A hVA) (seg_one b' A B (-σ) 0 hAB)).join (hch.vac B hVB) s2
  have hsy : s.y = A.y := hrow B s (-σ) i hBy h2.step
  have hsB : s ≠ B := (h2.ne hd').symm
  have hsA : s ≠ A := by
    intro e; subst e
    have a := (stepSq_eq_some _ _ _ _ _ _).1 hAB
    have c := (stepSq_eq_some _ _ _ _ _ _).1 h2.step
    have := h2.pos
    rcases hσ with rfl | rfl <;> simp at a c <;> omega
  refine ⟨s, -σ, 0, n + 1 + i, n, A, fun hFs => hF s hFs hsy, ?_, hso.1, hso.2, s3, h1.pos, by omega, hVA, hr⟩
  intro hVs
  rcases hV s hVs with e | e
  · exact hsA e
  · exact hsB e

/-! ## en passant -/

theorem direct_pawn (p : Pos) (K : Sq) (hK : KingAt p.b (!p.wtm) K) (m : Mv) (hp : pseudo p m = true)
    (h6 : kind p.b[m.f] = 6) (hpr : m.promo = 0) (occ' : BB) :
    atkFrom p.b[m.f] occ' m.t K = true ↔ gcDirect p.b p.wtm K (movedKind p m) m.t = true := by
  have hmk : movedKind p m = 6 := by
    unfold movedKind; rw [hpr]; simp only [beq_self_eq_true, if_true]; exact h6
  have hiw := isWhite_of_own _ _ (pseudo_own_f p m hp)
  rw [atkFrom_pawn _ _ _ _ h6, hiw, pawnGeom_swap, gcDirect_iff _ _ _ hK, hmk]
  constructor
  · intro h; exact Or.inr (Or.inr (Or.inl ⟨rfl, h⟩))
  · rintro (⟨h, _⟩ | ⟨h, _⟩ | ⟨_, h⟩ | ⟨h, _⟩)
    · rcases h with h | h <;> exact absurd h (by decide)
    · rcases h with h | h <;> exact absurd h (by decide)
    · exact h
    · exact absurd h (by decide)

theorem gives_ep (p : Pos) (K : Sq) (H : GcWF p K) (m : Mv) (hp : pseudo p m = true) (hE : PosImpl.isEpS p m = true) :
    sqAttacked (apply p m).b (!p.wtm) K (occBB (apply p m).b) = true ↔ givesCheck p K m = true := by
  obtain ⟨c, g⟩ := ep_geo p m hp H.ep hE
  obtain ⟨hch, ht⟩ := change_ep p m c hp hE g
  have hv := H.valid
  have hK := H.oking
  have hv' := validB_apply p hv m hp
  have hmk : movedKind p m = 6 := by
    unfold movedKind; rw [g.promo]; simp only [beq_self_eq_true, if_true]; exact g.k6
  have hstep : kind p.b[m.f] = 1 → (dxy m.f m.t).1.natAbs ≤ 1 ∧ (dxy m.f m.t).2.natAbs ≤ 1 := by
    intro hk; rw [g.k6] at hk; exact absurd hk (by decide)
  have hcf : c ≠ m.f := by
    intro e
    have h1 := g.cx; have h2 := g.tx
    rw [e] at h1; omega
  have hcown : own p.wtm p.b[c] = false := by
    rw [g.pc_c]; cases p.wtm <;> decide
  have htx : m.t.x ≠ m.f.x := by have := g.tx; omega
  have hcx : (c.x : Int) = m.f.x + 1 ∨ (c.x : Int) = m.f.x - 1 := by rw [g.cx]; exact g.tx
  have hgE := gcEp_iff p.b p.wtm K hK m.f m.t c g.t0 htx g.csq g.cy hcx
  have hpromo : gcPromo p.b p.wtm K (movedKind p m) m.promo m.f m.t = false := by
    apply Bool.eq_false_iff.2
    intro h
    exact ((gcPromo_iff _ _ _ hK _ _ _ _).1 h).1 g.promo
  rw [hch.attacked_iff hv hv' K H.notAttacked, givesCheck_split, hpromo, hmk]
  simp only [Bool.or_false, Bool.or_eq_true, show ((6 : UInt8) == 1) = false from rfl, Bool.false_eq_true, if_false,
    beq_self_eq_true, if_true]
  have hdir := direct_pawn p K hK m hp g.k6 g.promo (occBB (apply p m).b)
  rw [hmk] at hdir
  -- the two vacated squares are neighbours on a rank: a ray that passes both is that rank
  have hnbr : ∀ (v v' : Sq) (dx dy : Int) (l : Nat), IsDir dx dy → (v = m.f ∧ v' = c ∨ v = c ∧ v' = m.f) → 1 ≤ l →
      stepSq v.x v.y dx dy l = some v' → l = 1 ∧ dy = 0 ∧ (dx = 1 ∨ dx = -1) := by
    intro v v' dx dy l hd hvv hl hq
    rw [stepSq_eq_some] at hq
    have hcy := g.cy
    obtain ⟨a1, a2, a3, a4, a5⟩ := hd
    rcases hvv with ⟨rfl, rfl⟩ | ⟨rfl, rfl⟩ <;>
      rcases dir_cases a1 a2 with rfl | rfl | rfl <;> rcases dir_cases a3 a4 with rfl | rfl | rfl <;>
      simp only [Int.mul_neg, Int.mul_one, Int.mul_zero] at hq <;> omega
  constructor
  · rintro (⟨t, hF, hatk⟩ | ⟨s, dx, dy, n, j, v, hFs, hVs, hso, hsl, hseg, hj1, hjn, hVv, hsv⟩)
    · have hF' : t = m.t := hF
      subst hF'
      rw [ht] at hatk
      exact Or.inl (Or.inl (hdir.1 hatk))
    · have hd := hsl.isDir
      have hVs' : ¬ (s = m.f ∨ s = c) := hVs
      have hFs' : ¬ s = m.t := hFs
      have hVv' : v = m.f ∨ v = c := hVv
      have hrest := hseg.suf j v hjn hsv.step
      -- the other vacated square
      obtain ⟨v', hvv⟩ : ∃ v', (v = m.f ∧ v' = c ∨ v = c ∧ v' = m.f) := by
        rcases hVv' with e | e
        · exact ⟨c, Or.inl ⟨e, rfl⟩⟩
        · exact ⟨m.f, Or.inr ⟨e, rfl⟩⟩
      by_cases hin : ∃ l, 1 ≤ l ∧ l < n - j ∧ stepSq v.x v.y dx dy l = some v'
      · -- both vacated squares on the ray: the rank case of the fourth block
        right
        obtain ⟨l, hl1, hl2, hlq⟩ := hin
        obtain ⟨rfl, rfl, hdx⟩ := hnbr v v' dx dy l hd hvv hl1 hlq
        have hrest' := hrest.suf 1 v' hl2 hlq
        have hrest'' : Seg p.b v' dx 0 (n - j - 1) s := hch.seg_before hrest' (fun l q h1 _ hq hV => by
          have hV' : q = m.f ∨ q = c := hV
          have hq' : stepSq v.x v.y dx 0 (1 + l) = some q := by rw [← stepSq_from v v' dx 0 1 l hlq]; exact hq
          have hv0 := stepSq_zero v dx 0
          have hv'0 := stepSq_zero v' dx 0
          rcases hvv with ⟨e1, e2⟩ | ⟨e1, e2⟩ <;> rcases hV' with e | e
          · rw [e, ← e1] at hq'; have := step_inj _ _ _ _ hd _ _ _ hq' hv0; omega
          · rw [e, ← e2] at hq; have := step_inj _ _ _ _ hd _ _ _ hq hv'0; omega
          · rw [e, ← e2] at hq; have := step_inj _ _ _ _ hd _ _ _ hq hv'0; omega
          · rw [e, ← e1] at hq'; have := step_inj _ _ _ _ hd _ _ _ hq' hv0; omega)
        have hbeh := behindOk_of_slider p.b p.wtm s dx 0 hso hsl
        have hbs : p.b[s] = pc p.wtm 2 ∨ p.b[s] = pc p.wtm 3 := by
          rcases hbeh with ⟨_, h⟩ | ⟨h, _⟩
          · exact h
          · unfold BishD at h; omega
        have hr := hsv.rev
        rw [Int.neg_zero] at hr
        have hq1 := (stepSq_eq_some _ _ _ _ _ _).1 hlq
        have hcv := Sq.val_eq c; have hfv := Sq.val_eq m.f
        have hcy := g.cy
        rw [hgE]
        right
        rcases hdx with rfl | rfl
        · -- squares to the right of the king: `v` is the left one
          right
          have hlo : (if c.val ≥ m.f.val then m.f else c) = v := by
            rcases hvv with ⟨e1, e2⟩ | ⟨e1, e2⟩ <;> subst e1 <;> subst e2 <;> simp at hq1
            · rw [if_pos (by omega)]
            · rw [if_neg (by omega)]
          have hhi : (if c.val ≥ m.f.val then c else m.f) = v' := by
            rcases hvv with ⟨e1, e2⟩ | ⟨e1, e2⟩ <;> subst e1 <;> subst e2 <;> simp at hq1
            · rw [if_pos (by omega)]
            · rw [if_neg (by omega)]
          rw [hlo, hhi]
          exact ⟨j, n - j - 1, s, hr, hrest'', hbs⟩
        · left
          have hlo : (if c.val ≥ m.f.val then m.f else c) = v' := by
            rcases hvv with ⟨e1, e2⟩ | ⟨e1, e2⟩ <;> subst e1 <;> subst e2 <;> simp at hq1
            · rw [if_neg (by omega)]
            · rw [if_pos (by omega)]
          have hhi : (if c.val ≥ m.f.val then c else m.f) = v := by
            rcases hvv with ⟨e1, e2⟩ | ⟨e1, e2⟩ <;> subst e1 <;> subst e2 <;> simp at hq1
            · rw [if_neg (by omega)]
            · rw [if_pos (by omega)]
          rw [hlo, hhi]
          rw [Int.neg_neg] at hr
          exact ⟨j, n - j - 1, s, hr, hrest'', hbs⟩
      · -- only `v` on the ray
        have hrestV : ∀ l q, 1 ≤ l → l < n - j → stepSq v.x v.y dx dy l = some q → ¬ (q = m.f ∨ q = c) := by
          intro l q h1 h2 hq hV
          have hv0 := stepSq_zero v dx dy
          rcases hvv with ⟨e1, e2⟩ | ⟨e1, e2⟩ <;> rcases hV with e | e
          · rw [e, ← e1] at hq; have := step_inj _ _ _ _ hd _ _ _ hq hv0; omega
          · rw [e, ← e2] at hq; exact hin ⟨l, h1, h2, hq⟩
          · rw [e, ← e2] at hq; exact hin ⟨l, h1, h2, hq⟩
          · rw [e, ← e1] at hq; have := step_inj _ _ _ _ hd _ _ _ hq hv0; omega
        rcases hvv with ⟨e1, e2⟩ | ⟨e1, e2⟩
        · -- through the from-square: second block
          subst e1; subst e2
          exact Or.inl (Or.inr (disc_of_xray p m K hK hp hstep _ _ _ hch rfl s dx dy n j hFs hso hsl hseg hj1 hjn hsv hrestV))
        · -- through the captured pawn's square: the line must be a diagonal
          subst e1; subst e2
          right
          have hrestB : Seg p.b v dx dy (n - j) s := hch.seg_before hrest hrestV
          rw [hgE]
          rcases isDir_split hd with hr | hb
          · exfalso
            -- on a file the to-square, on a rank the from-square is the neighbour of `v`
            have hvq := (stepSq_eq_some _ _ _ _ _ _).1 hsv.step
            have hcxx := g.cx; have hcy := g.cy; have htx' := g.tx; have hty := g.ty
            have hKv : K ≠ v := hsv.ne hd
            by_cases hdy : dy = 0
            · -- rank: the from-square is `P (j-1)` or `P (j+1)`
              subst hdy
              have hdx : dx = 1 ∨ dx = -1 := by unfold RookD at hr; omega
              have hfy : m.f.y = K.y := by simp at hvq; omega
              by_cases hside : (m.f.x : Int) = K.x + ((j : Int) + 1) * dx
              · -- beyond `v`
                have hq : stepSq K.x K.y dx 0 (j + 1) = some m.f := by
                  rw [stepSq_eq_some]
                  have : ((j + 1 : Nat) : Int) = (j : Int) + 1 := by omega
                  rw [this]; exact ⟨hside, by omega⟩
                rcases Nat.lt_or_ge (j + 1) n with hlt | hge
                · apply hin
                  refine ⟨1, Nat.le_refl _, by omega, ?_⟩
                  rw [stepSq_from K v dx 0 j 1 hsv.step]; exact hq
                · have : j + 1 = n := by omega
                  rw [this, hseg.step] at hq
                  exact hVs' (Or.inl (Option.some.inj hq))
              · -- before `v`
                have hj' : (m.f.x : Int) = K.x + ((j : Int) - 1) * dx := by
                  rcases hdx with rfl | rfl <;> simp at hvq hside ⊢ <;> omega
                rcases Nat.lt_or_ge 1 j with hlt | hge
                · have hq : stepSq K.x K.y dx 0 (j - 1) = some m.f := by
                    rw [stepSq_eq_some]
                    have : ((j - 1 : Nat) : Int) = (j : Int) - 1 := by omega
                    rw [this]; exact ⟨hj', by omega⟩
                  have := hsv.inner_zero (j - 1) m.f (by omega) (by omega) hq
                  exact ne_zero_of_own _ _ (pseudo_own_f p m hp) this
                · have : j = 1 := by omega
                  subst this
                  have : K = m.f := Sq.ext_xy _ _ (by simp at hj'; omega) (by omega)
                  have hk1 := hK.1
                  rw [this] at hk1
                  have := pseudo_own_f p m hp
                  rw [hk1, own_oking] at this; cases this
            · -- file: the to-square is `P (j-1)` or `P (j+1)`
              have hdx : dx = 0 := by unfold RookD at hr; omega
              subst hdx
              have hdy' : dy = 1 ∨ dy = -1 := by unfold RookD at hr; omega
              have htxK : m.t.x = K.x := by simp at hvq; omega
              have ht' : (apply p m).b[m.t] ≠ 0 := by rw [ht]; exact ne_zero_of_own _ _ (pseudo_own_f p m hp)
              have hty2 : (m.t.y : Int) = v.y + 1 ∨ (m.t.y : Int) = v.y - 1 := by
                -- the captured pawn stands directly behind the e.p. square
                have h1 := g.cval
                have hvv := Sq.val_eq v; have htv := Sq.val_eq m.t
                have := Sq.x_lt v; have := Sq.x_lt m.t
                cases hw : p.wtm <;> rw [hw] at h1 <;> simp at h1 <;> omega
              by_cases hside : (m.t.y : Int) = K.y + ((j : Int) + 1) * dy
              · have hq : stepSq K.x K.y 0 dy (j + 1) = some m.t := by
                  rw [stepSq_eq_some]
                  have : ((j + 1 : Nat) : Int) = (j : Int) + 1 := by omega
                  rw [this]; exact ⟨by simp; omega, hside⟩
                rcases Nat.lt_or_ge (j + 1) n with hlt | hge
                · exact ht' (hseg.inner_zero (j + 1) m.t (by omega) hlt hq)
                · have : j + 1 = n := by omega
                  rw [this, hseg.step] at hq
                  exact hFs' (Option.some.inj hq)
              · have hj' : (m.t.y : Int) = K.y + ((j : Int) - 1) * dy := by
                  rcases hdy' with rfl | rfl <;> simp at hvq hside ⊢ <;> omega
                rcases Nat.lt_or_ge 1 j with hlt | hge
                · have hq : stepSq K.x K.y 0 dy (j - 1) = some m.t := by
                    rw [stepSq_eq_some]
                    have : ((j - 1 : Nat) : Int) = (j : Int) - 1 := by omega
                    rw [this]; exact ⟨by simp; omega, hj'⟩
                  exact ht' (hseg.inner_zero (j - 1) m.t (by omega) (by omega) hq)
                · have : j = 1 := by omega
                  subst this
                  have : K = m.t := Sq.ext_xy _ _ (by omega) (by simp at hj'; omega)
                  have hk1 := hK.1
                  rw [this, g.t0] at hk1
                  exact zero_ne_king _ hk1
          · left
            have hbeh := behindOk_of_slider p.b p.wtm s dx dy hso hsl
            have hbs : p.b[s] = pc p.wtm 2 ∨ p.b[s] = pc p.wtm 4 := by
              rcases hbeh with ⟨h, _⟩ | ⟨_, h⟩
              · unfold RookD at h; unfold BishD at hb; omega
              · exact h
            refine ⟨-dx, -dy, j, n - j, s, bishD_neg hb, hsv.rev, ?_, hbs⟩
            rw [Int.neg_neg, Int.neg_neg]; exact hrestB
  · rintro ((h | h) | h)
    · exact Or.inl ⟨m.t, rfl, by rw [ht]; exact hdir.2 h⟩
    · refine Or.inr (xray_of_disc p m K hK hp _ _ _ hch (fun q => Iff.rfl) (Or.inl rfl) ?_ h)
      intro q hq
      have hq' : q = m.f ∨ q = c := hq
      rcases hq' with e | e
      · exact Or.inl e
      · right; rw [e]; exact hcown
    · right
      have hFrow : ∀ q, (fun q => q = m.t) q → q.y ≠ m.f.y := by
        intro q hq; have hq' : q = m.t := hq; rw [hq']; exact g.ty
      rcases hgE.1 h with ⟨ex, ey, n, i, s, hbd, hs1, hs2, hbs⟩ | ⟨n, i, s, hs1, hs2, hbs⟩ | ⟨n, i, s, hs1, hs2, hbs⟩
      · -- diagonal through the captured pawn's square
        have hd := hbd.isDir
        obtain ⟨e2, _, e4⟩ := pc_own_kind p.wtm p.b[s]
        have hso : own p.wtm p.b[s] = true ∧ sliderOn p.b[s] (-ex) (-ey) := by
          rcases hbs with h | h
          · exact ⟨(e2 h).1, Or.inr ⟨bishD_neg hbd, Or.inr (e2 h).2⟩⟩
          · exact ⟨(e4 h).1, Or.inr ⟨bishD_neg hbd, Or.inl (e4 h).2⟩⟩
        have hex : ex = 1 ∨ ex = -1 := by unfold BishD at hbd; omega
        have hcxx := g.cx
        have s1 : Seg (apply p m).b K (-ex) (-ey) n c := hch.seg_after hs1.rev (fun l q h1 h2 hq hFq => by
          have hFq' : q = m.t := hFq
          rw [hFq'] at hq
          have a := (stepSq_eq_some _ _ _ _ _ _).1 hs1.step
          have b := (stepSq_eq_some _ _ _ _ _ _).1 hq
          have hl : (l : Int) < n := by omega
          rcases hex with rfl | rfl <;> simp at a b <;> omega)
        have s2 : Seg (apply p m).b c (-ex) (-ey) i s := hch.seg_after hs2 (fun l q h1 _ hq hFq => by
          have hFq' : q = m.t := hFq
          rw [hFq'] at hq
          have b := (stepSq_eq_some _ _ _ _ _ _).1 hq
          rcases hex with rfl | rfl <;> simp at b <;> omega)
        have hst : ¬ s = m.t := by
          intro e; rw [e, g.t0] at hso; rw [own_zero] at hso; cases hso.1
        have hsf : ¬ s = m.f := by
          intro e
          subst e
          have h6 := g.k6
          rcases hbs with h | h
          · rw [(e2 h).2] at h6; exact absurd h6 (by decide)
          · rw [(e4 h).2] at h6; exact absurd h6 (by decide)
        have hsc : ¬ s = c := (hs2.ne (isDir_neg hd)).symm
        exact ⟨s, -ex, -ey, n + i, n, c, hst, fun hV => hV.elim hsf hsc, hso.1, hso.2,
          s1.join (hch.vac c (Or.inr rfl)) s2, hs1.pos, by have := hs2.pos; omega, Or.inr rfl, hs1.rev⟩
      · -- rank, king to the right
        have hhl : ∀ (hi lo : Sq), hi = (if c.val ≥ m.f.val then c else m.f) → lo = (if c.val ≥ m.f.val then m.f else c) →
            stepSq hi.x hi.y (-1) 0 1 = some lo ∧ (hi = m.f ∨ hi = c) ∧ (lo = m.f ∨ lo = c) ∧ hi.y = m.f.y := by
          intro hi lo e1 e2
          have hcv := Sq.val_eq c; have hfv := Sq.val_eq m.f
          have := Sq.x_lt c; have := Sq.x_lt m.f
          have hcy := g.cy
          by_cases hge : c.val ≥ m.f.val
          · rw [if_pos hge] at e1 e2; subst e1; subst e2
            exact ⟨by rw [stepSq_eq_some]; simp; omega, Or.inr rfl, Or.inl rfl, hcy⟩
          · rw [if_neg hge] at e1 e2; subst e1; subst e2
            exact ⟨by rw [stepSq_eq_some]; simp; omega, Or.inl rfl, Or.inr rfl, rfl⟩
        obtain ⟨hAB, hA, hB, hAy⟩ := hhl _ _ rfl rfl
        refine xray_of_rank p.b _ p.wtm _ _ hch K _ _ s 1 (Or.inl rfl) hAB hA hB (fun q hq => by rw [hAy]; exact hFrow q hq)
          ?_ n i hs1 hs2 hbs
        intro q hq
        have hq' : q = m.f ∨ q = c := hq
        by_cases hge : c.val ≥ m.f.val
        · simp only [hge, if_true]; exact hq'.symm
        · simp only [hge, if_false]; exact hq'
      · -- rank, king to the left
        have hhl : ∀ (hi lo : Sq), hi = (if c.val ≥ m.f.val then c else m.f) → lo = (if c.val ≥ m.f.val then m.f else c) →
            stepSq lo.x lo.y (-(-1)) 0 1 = some hi ∧ (hi = m.f ∨ hi = c) ∧ (lo = m.f ∨ lo = c) ∧ lo.y = m.f.y := by
          intro hi lo e1 e2
          have hcv := Sq.val_eq c; have hfv := Sq.val_eq m.f
          have := Sq.x_lt c; have := Sq.x_lt m.f
          have hcy := g.cy
          by_cases hge : c.val ≥ m.f.val
          · rw [if_pos hge] at e1 e2; subst e1; subst e2
            exact ⟨by rw [stepSq_eq_some]; simp; omega, Or.inr rfl, Or.inl rfl, rfl⟩
          · rw [if_neg hge] at e1 e2; subst e1; subst e2
            exact ⟨by rw [stepSq_eq_some]; simp; omega, Or.inl rfl, Or.inr rfl, hcy⟩
        obtain ⟨hAB, hA, hB, hAy⟩ := hhl _ _ rfl rfl
        have hs2' : Seg p.b (if c.val ≥ m.f.val then c else m.f) (-(-1)) 0 i s := by rw [Int.neg_neg]; exact hs2
        refine xray_of_rank p.b _ p.wtm _ _ hch K _ _ s (-1) (Or.inr rfl) hAB hB hA (fun q hq => by rw [hAy]; exact hFrow q hq)
          ?_ n i hs1 hs2' hbs
        intro q hq
        have hq' : q = m.f ∨ q = c := hq
        by_cases hge : c.val ≥ m.f.val
        · simp only [hge, if_true]; exact hq'
        · simp only [hge, if_false]; exact hq'.symm

end Chess.Texel
