import TexelVerif.Chess.TexelGenGcModel
/-!
Boards before and after a move, abstractly (`Change`): some squares are vacated (`V`), some are filled with pieces of the
mover (`F`), nothing else changes.  `Change.attacked_iff`: if the enemy king `K` is not attacked before, it is attacked
afterwards iff a piece on a filled square attacks it, or an unchanged slider sees it along a ray that passes a vacated
square (the first square of the ray which was occupied before).  Plus the geometric facts shared by the three kinds of
moves (ordinary, en passant, castling) in the proof of `givesCheck`.
-/
namespace Chess.Texel
open PosImpl (BB getP getP_eq)

structure Change (b b' : Board) (w : Bool) (V F : Sq → Prop) : Prop where
  other : ∀ q, ¬ V q → ¬ F q → b'[q] = b[q]
  vac : ∀ q, V q → b'[q] = 0
  fill : ∀ q, F q → own w b'[q] = true

theorem own_oking (w : Bool) : own w (if (!w) then WKING else BKING) = false := by cases w <;> decide

namespace Change
variable {b b' : Board} {w : Bool} {V F : Sq → Prop}

theorem not_fill_of_zero (h : Change b b' w V F) (q : Sq) (h0 : b'[q] = 0) : ¬ F q := by
  intro hf; have := h.fill q hf; rw [h0, own_zero] at this; cases this

/-- a segment that is open after the move and passes no vacated square was open before -/
theorem seg_before (h : Change b b' w V F) {a c : Sq} {dx dy : Int} {n : Nat} (hs : Seg b' a dx dy n c)
    (hV : ∀ j q, 1 ≤ j → j < n → stepSq a.x a.y dx dy j = some q → ¬ V q) : Seg b a dx dy n c := by
  refine hs.congr ?_
  intro j q h1 h2 hq h0
  rw [← h.other q (hV j q h1 h2 hq) (h.not_fill_of_zero q h0)]; exact h0

/-- a segment that is open before the move and passes no filled square is open afterwards -/
theorem seg_after (h : Change b b' w V F) {a c : Sq} {dx dy : Int} {n : Nat} (hs : Seg b a dx dy n c)
    (hF : ∀ j q, 1 ≤ j → j < n → stepSq a.x a.y dx dy j = some q → ¬ F q) : Seg b' a dx dy n c := by
  refine hs.congr ?_
  intro j q h1 h2 hq h0
  by_cases hv : V q
  · exact h.vac q hv
  · rw [h.other q hv (hF j q h1 h2 hq)]; exact h0

theorem kingAt_after (h : Change b b' w V F) (K : Sq) (hK : KingAt b (!w) K) (hKV : ¬ V K) (hKF : ¬ F K) :
    KingAt b' (!w) K := by
  constructor
  · rw [h.other K hKV hKF]; exact hK.1
  · intro s hs
    have h1 : ¬ V s := by
      intro hv; rw [h.vac s hv] at hs; exact zero_ne_king _ hs
    have h2 : ¬ F s := by
      intro hf; have := h.fill s hf; rw [hs, own_oking] at this; cases this
    rw [h.other s h1 h2] at hs
    exact hK.2 s hs

/-- **when is the enemy king attacked after the move** (it was not attacked before) -/
theorem attacked_iff (h : Change b b' w V F) (hv : ValidB b) (hv' : ValidB b') (K : Sq)
    (hno : sqAttacked b (!w) K (occBB b) = false) :
    sqAttacked b' (!w) K (occBB b') = true ↔
      (∃ t, F t ∧ atkFrom b'[t] (occBB b') t K = true) ∨
      (∃ s dx dy n j v, ¬ F s ∧ ¬ V s ∧ own w b[s] = true ∧ sliderOn b[s] dx dy ∧ Seg b' K dx dy n s ∧
         1 ≤ j ∧ j < n ∧ V v ∧ Seg b K dx dy j v) := by
  rw [sqAttacked_iff]
  simp only [Bool.not_not]
  constructor
  · rintro ⟨s, hso, hatk⟩
    by_cases hF : F s
    · exact Or.inl ⟨s, hF, hatk⟩
    · right
      have hVs : ¬ V s := by
        intro hV; rw [h.vac s hV, own_zero] at hso; cases hso
      have e := h.other s hVs hF
      rw [e] at hso hatk
      have hno' : atkFrom b[s] (occBB b) s K = false := by
        apply Bool.eq_false_iff.2
        intro ha
        have : sqAttacked b (!w) K (occBB b) = true := by
          rw [sqAttacked_iff]; simp only [Bool.not_not]; exact ⟨s, hso, ha⟩
        rw [this] at hno; cases hno
      obtain ⟨dx, dy, n, hsl, hseg, j, v, hj1, hjn, hbv, hsv⟩ := new_attack b b' hv hv' K s _ hno' hatk
      have hv0 : b'[v] = 0 := hseg.inner_zero j v hj1 hjn hsv.step
      have hVv : V v := by
        apply Classical.byContradiction
        intro hnv
        rw [h.other v hnv (h.not_fill_of_zero v hv0)] at hv0
        exact hbv hv0
      exact ⟨s, dx, dy, n, j, v, hF, hVs, hso, hsl, hseg, hj1, hjn, hVv, hsv⟩
  · rintro (⟨t, hF, hatk⟩ | ⟨s, dx, dy, n, j, v, hF, hVs, hso, hsl, hseg, _⟩)
    · exact ⟨t, h.fill t hF, hatk⟩
    · have e := h.other s hVs hF
      refine ⟨s, by rw [e]; exact hso, ?_⟩
      rw [e]
      exact atkFrom_of_slider _ _ _ _ dx dy hsl ((tst_ray_seg b' hv' K s dx dy hsl.isDir).2 ⟨n, hseg⟩)

end Change

/-! ## squares on a ray and `getDirection` -/

theorem on_ray_dir (K t : Sq) (dx dy : Int) (hd : IsDir dx dy) (l : Nat) (hl : 1 ≤ l)
    (h : stepSq K.x K.y dx dy l = some t) : direction t K = (-dy) * 8 + (-dx) := by
  refine (direction_iff t K (-dx) (-dy) (isDir_neg hd)).2 ⟨l, hl, ?_⟩
  rw [stepSq_rev K t dx dy l l (Nat.le_refl _) h, Nat.sub_self, stepSq_zero]

theorem ray_of_dir (K t : Sq) (dx dy : Int) (hd : IsDir dx dy) (h : direction t K = (-dy) * 8 + (-dx)) :
    ∃ l, 1 ≤ l ∧ stepSq K.x K.y dx dy l = some t := by
  obtain ⟨l, hl, hs⟩ := (direction_iff t K (-dx) (-dy) (isDir_neg hd)).1 h
  refine ⟨l, hl, ?_⟩
  have := stepSq_rev t K (-dx) (-dy) l l (Nat.le_refl _) hs
  rw [Int.neg_neg, Int.neg_neg, Nat.sub_self, stepSq_zero] at this
  exact this

/-- two squares from which the same ray square is reached: the nearer one lies on the ray from the farther one -/
theorem stepSq_diff (a c K : Sq) (dx dy : Int) (i j : Nat) (ha : stepSq a.x a.y dx dy i = some K)
    (hc : stepSq c.x c.y dx dy j = some K) (hij : j ≤ i) : stepSq a.x a.y dx dy (i - j) = some c := by
  rw [stepSq_eq_some] at ha hc ⊢
  rw [Int.natCast_sub hij, Int.sub_mul, Int.sub_mul]
  omega

theorem rookD_neg {dx dy : Int} (h : RookD dx dy) : RookD (-dx) (-dy) := by unfold RookD at *; omega
theorem bishD_neg {dx dy : Int} (h : BishD dx dy) : BishD (-dx) (-dy) := by unfold BishD at *; omega

theorem sliderOn_neg {pc : Pc} {dx dy : Int} (h : sliderOn pc dx dy) : sliderOn pc (-dx) (-dy) := by
  rcases h with ⟨h, k⟩ | ⟨h, k⟩
  · exact Or.inl ⟨rookD_neg h, k⟩
  · exact Or.inr ⟨bishD_neg h, k⟩

theorem kindOn_neg {pw : UInt8} {dx dy : Int} (h : kindOn pw dx dy) : kindOn pw (-dx) (-dy) := by
  rcases h with ⟨h, k⟩ | ⟨h, k⟩
  · exact Or.inl ⟨rookD_neg h, k⟩
  · exact Or.inr ⟨bishD_neg h, k⟩

theorem eq_pc2 (w : Bool) (p : Pc) (ho : own w p = true) (hk : kind p = 2) : p = pc w 2 :=
  (pc_iff w p ⟨2, by decide⟩ (by decide)).2 ⟨ho, hk⟩
theorem eq_pc3 (w : Bool) (p : Pc) (ho : own w p = true) (hk : kind p = 3) : p = pc w 3 :=
  (pc_iff w p ⟨3, by decide⟩ (by decide)).2 ⟨ho, hk⟩
theorem eq_pc4 (w : Bool) (p : Pc) (ho : own w p = true) (hk : kind p = 4) : p = pc w 4 :=
  (pc_iff w p ⟨4, by decide⟩ (by decide)).2 ⟨ho, hk⟩

theorem pc_own_kind (w : Bool) (p : Pc) :
    (p = pc w 2 → own w p = true ∧ kind p = 2) ∧ (p = pc w 3 → own w p = true ∧ kind p = 3) ∧
    (p = pc w 4 → own w p = true ∧ kind p = 4) :=
  ⟨(pc_iff w p ⟨2, by decide⟩ (by decide)).1, (pc_iff w p ⟨3, by decide⟩ (by decide)).1,
   (pc_iff w p ⟨4, by decide⟩ (by decide)).1⟩

/-- an own slider that moves along `(dx, dy)` is what `givesCheck` accepts behind the from-square on the line `(dx, dy)` -/
theorem behindOk_of_slider (b : Board) (w : Bool) (s : Sq) (dx dy : Int) (ho : own w b[s] = true)
    (hsl : sliderOn b[s] dx dy) : behindOk b w s dx dy := by
  rcases hsl with ⟨hd, hk | hk⟩ | ⟨hd, hk | hk⟩
  · exact Or.inl ⟨hd, Or.inr (eq_pc3 w _ ho hk)⟩
  · exact Or.inl ⟨hd, Or.inl (eq_pc2 w _ ho hk)⟩
  · exact Or.inr ⟨hd, Or.inr (eq_pc4 w _ ho hk)⟩
  · exact Or.inr ⟨hd, Or.inl (eq_pc2 w _ ho hk)⟩

theorem slider_of_behindOk (b : Board) (w : Bool) (s : Sq) (dx dy : Int) (h : behindOk b w s dx dy) :
    own w b[s] = true ∧ sliderOn b[s] dx dy := by
  obtain ⟨h2, h3, h4⟩ := pc_own_kind w b[s]
  rcases h with ⟨hd, hb | hb⟩ | ⟨hd, hb | hb⟩
  · exact ⟨(h2 hb).1, Or.inl ⟨hd, Or.inr (h2 hb).2⟩⟩
  · exact ⟨(h3 hb).1, Or.inl ⟨hd, Or.inl (h3 hb).2⟩⟩
  · exact ⟨(h2 hb).1, Or.inr ⟨hd, Or.inr (h2 hb).2⟩⟩
  · exact ⟨(h4 hb).1, Or.inr ⟨hd, Or.inl (h4 hb).2⟩⟩

theorem behindOk_neg {b : Board} {w : Bool} {s : Sq} {dx dy : Int} (h : behindOk b w s dx dy) :
    behindOk b w s (-dx) (-dy) := by
  rcases h with ⟨h, k⟩ | ⟨h, k⟩
  · exact Or.inl ⟨rookD_neg h, k⟩
  · exact Or.inr ⟨bishD_neg h, k⟩

/-! ## the move does not jump over the slider it uncovers -/

/-- `f` and `s` lie on a ray from `K` (in this order), the ray is open up to `s` after the move, the to-square is occupied
    after the move and is not `s`: then the to-square does not lie on that ray -/
theorem disc_dir_ne (p : Pos) (m : Mv) (hp : pseudo p m = true)
    (hstep : kind p.b[m.f] = 1 → (dxy m.f m.t).1.natAbs ≤ 1 ∧ (dxy m.f m.t).2.natAbs ≤ 1)
    (b' : Board) (ht' : b'[m.t] ≠ 0) (K s : Sq) (dx dy : Int) (hd : IsDir dx dy) (n j : Nat) (hj : 1 ≤ j) (hjn : j < n)
    (hf : stepSq K.x K.y dx dy j = some m.f) (hs : Seg b' K dx dy n s) (hst : s ≠ m.t) (hbs : p.b[s] ≠ 0) :
    direction m.t K ≠ (-dy) * 8 + (-dx) := by
  intro e
  obtain ⟨i, hi1, hit⟩ := ray_of_dir K m.t dx dy hd e
  rcases Nat.lt_trichotomy i n with hlt | heq | hgt
  · exact ht' (hs.inner_zero i m.t hi1 hlt hit)
  · subst heq
    have := hs.step; rw [hit] at this
    exact hst (Option.some.inj this).symm
  · have h1 : stepSq m.f.x m.f.y dx dy (i - j) = some m.t := by
      rw [stepSq_from K m.f dx dy j (i - j) hf, ← hit]; congr 1; omega
    have h2 : stepSq m.f.x m.f.y dx dy (n - j) = some s := by
      rw [stepSq_from K m.f dx dy j (n - j) hf, ← hs.step]; congr 1; omega
    by_cases hk : kind p.b[m.f] = 1
    · obtain ⟨a, c⟩ := hstep hk
      rw [stepSq_eq_some] at h1
      unfold dxy at a c
      simp only at a c
      have h2' : (2 : Int) ≤ ((i - j : Nat) : Int) := by omega
      obtain ⟨a1, a2, a3, a4, a5⟩ := hd
      rcases dir_cases a1 a2 with rfl | rfl | rfl <;> rcases dir_cases a3 a4 with rfl | rfl | rfl <;>
        simp only [Int.mul_neg, Int.mul_one, Int.mul_zero] at h1 <;> omega
    · exact hbs (no_jump p m hp hk dx dy hd (i - j) (n - j) (by omega) (by omega) h1 s h2)

end Chess.Texel
