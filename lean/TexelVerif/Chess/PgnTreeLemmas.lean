import TexelVerif.Chess.PgnTree
/-! Token-level PGN round trip: the parser's recursion inverts the writer (property C17). -/
namespace Chess.PgnTree

/-- what may follow a written line: nothing, or the `)` that closes it -/
def dropRp {α} : List (Tk α) → List (Tk α)
  | Tk.rp :: t => t
  | ts => ts

def TailOK {α} (tail : List (Tk α)) : Prop := tail = [] ∨ ∃ t, tail = Tk.rp :: t
def NoLp {α} (ts : List (Tk α)) : Prop := ∀ t, ts ≠ Tk.lp :: t

theorem noLp_kids {α} (ks : List (Tree α)) (tail : List (Tk α)) (h : TailOK tail) : NoLp (writeKids ks ++ tail) := by
  intro t ht
  cases ks with
  | nil =>
    simp only [writeKids, List.nil_append] at ht
    rcases h with h | ⟨u, h⟩ <;> rw [h] at ht <;> cases ht
  | cons k ks => cases k; simp only [writeKids, List.cons_append] at ht; cases ht

theorem parseAlts_noLp {α} (f : Nat) (ts : List (Tk α)) (h : NoLp ts) : parseAlts (f + 1) ts = ([], ts) := by
  cases ts with
  | nil => rfl
  | cons t ts =>
    cases t with
    | lp => exact absurd rfl (h ts)
    | sym m => rfl
    | rp => rfl

theorem roundtrip_aux {α} (f : Nat) :
    (∀ (ks : List (Tree α)) (tail : List (Tk α)), TailOK tail → (writeKids ks ++ tail).length < f →
        parseLine f (writeKids ks ++ tail) = (ks, dropRp tail)) ∧
    (∀ (as : List (Tree α)) (tail : List (Tk α)), NoLp tail → (writeAlts as ++ tail).length < f →
        parseAlts f (writeAlts as ++ tail) = (as, tail)) := by
  induction f with
  | zero => exact ⟨fun _ _ _ h => absurd h (Nat.not_lt_zero _), fun _ _ _ h => absurd h (Nat.not_lt_zero _)⟩
  | succ f ih =>
    obtain ⟨ihL, ihA⟩ := ih
    constructor
    · intro ks tail htail hlen
      cases ks with
      | nil =>
        simp only [writeKids, List.nil_append]
        rcases htail with h | ⟨t, h⟩ <;> subst h <;> rfl
      | cons k rest =>
        obtain ⟨m, kids⟩ := k
        simp only [writeKids, List.cons_append, List.append_assoc, List.length_cons, List.length_append] at hlen ⊢
        have h1 := ihA rest (writeKids kids ++ tail) (noLp_kids kids tail htail)
          (by simp only [List.length_append]; omega)
        have h2 := ihL kids tail htail (by simp only [List.length_append]; omega)
        simp only [parseLine, h1, h2]
    · intro as tail htail hlen
      cases as with
      | nil =>
        simp only [writeAlts, List.nil_append]
        exact parseAlts_noLp f tail htail
      | cons k rest =>
        obtain ⟨m, kids⟩ := k
        simp only [writeAlts, List.cons_append, List.append_assoc, List.length_cons, List.length_append] at hlen ⊢
        have e : Tk.sym m :: (writeKids kids ++ Tk.rp :: (writeAlts rest ++ tail)) =
            writeKids [Tree.node m kids] ++ Tk.rp :: (writeAlts rest ++ tail) := by
          simp [writeKids, writeAlts]
        have h1 := ihL [Tree.node m kids] (Tk.rp :: (writeAlts rest ++ tail)) (Or.inr ⟨_, rfl⟩)
          (by rw [← e]; simp only [List.length_cons, List.length_append]; omega)
        have h2 := ihA rest tail htail (by simp only [List.length_append]; omega)
        rw [← e] at h1
        simp only [parseAlts, h1, dropRp, h2, List.cons_append, List.nil_append]

/-- **token-level PGN round trip**: parsing the written text of a forest of variations gives the forest back
    (with nothing left over), for every tree shape and every fuel above the token count -/
theorem parse_write {α} (ks : List (Tree α)) (f : Nat) (hf : (writeKids ks).length < f) :
    parseLine f (writeKids ks) = (ks, []) := by
  have := (roundtrip_aux f).1 ks [] (Or.inl rfl) (by simpa using hf)
  simpa [dropRp] using this

end Chess.PgnTree
