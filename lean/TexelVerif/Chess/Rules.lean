/-! Prototype: executable FIDE spec as a Bool predicate over candidate moves. -/
namespace Cz

abbrev Sq := Fin 64
def Sq.x (s : Sq) : Nat := s.val % 8
def Sq.y (s : Sq) : Nat := s.val / 8
def mkSq? (x y : Int) : Option Sq :=
  if h : 0 ≤ x ∧ x < 8 ∧ 0 ≤ y ∧ y < 8 then some ⟨(y*8+x).toNat, by omega⟩ else none

/-- piece codes as in piece.hpp: 0 empty, 1..6 white K Q R B N P, 7..12 black -/
abbrev Pc := UInt8
def isWhite (p : Pc) : Bool := 1 ≤ p && p ≤ 6
def isBlack (p : Pc) : Bool := 7 ≤ p && p ≤ 12
def kind (p : Pc) : UInt8 := if p ≥ 7 then p - 6 else p   -- 1 K 2 Q 3 R 4 B 5 N 6 P
def own (w : Bool) (p : Pc) : Bool := if w then isWhite p else isBlack p

structure Pos where
  b : Array Pc      -- size 64
  wtm : Bool
  castle : UInt8    -- bit0 A1, bit1 H1, bit2 A8, bit3 H8
  ep : Option Sq
deriving BEq

def Pos.at (p : Pos) (s : Sq) : Pc := p.b.getD s.val 0

structure Mv where
  f : Sq
  t : Sq
  promo : Pc   -- 0 or piece code
deriving BEq, Repr

/-- first occupied square walking from s in direction (dx,dy); returns the list of empty squares passed and the blocker -/
def walk (b : Array Pc) (s : Sq) (dx dy : Int) : (fuel : Nat) → Int → Int → Bool
  | 0, _, _ => false
  | _, _, _ => false

/-- is `t` reachable from `s` along direction (dx,dy) with all intermediate squares empty -/
def rayReach (b : Array Pc) (s t : Sq) (dx dy : Int) : Bool := Id.run do
  let mut x : Int := s.x
  let mut y : Int := s.y
  for _ in [0:7] do
    x := x + dx; y := y + dy
    match mkSq? x y with
    | none => return false
    | some q =>
      if q == t then return true
      if b.getD q.val 0 != 0 then return false
  return false

def dirs8 : List (Int × Int) := [(1,0),(-1,0),(0,1),(0,-1),(1,1),(1,-1),(-1,1),(-1,-1)]
def rookDirs : List (Int × Int) := [(1,0),(-1,0),(0,1),(0,-1)]
def bishDirs : List (Int × Int) := [(1,1),(1,-1),(-1,1),(-1,-1)]

def dxy (s t : Sq) : Int × Int := ((t.x : Int) - s.x, (t.y : Int) - s.y)

/-- does the piece on `s` (of colour w) attack square `t` on board b (ignoring whose turn it is) -/
def attacks (b : Array Pc) (s t : Sq) : Bool :=
  let p := b.getD s.val 0
  let (dx, dy) := dxy s t
  match kind p with
  | 1 => (dx.natAbs ≤ 1 && dy.natAbs ≤ 1) && !(dx == 0 && dy == 0)
  | 5 => (dx.natAbs == 1 && dy.natAbs == 2) || (dx.natAbs == 2 && dy.natAbs == 1)
  | 6 => dx.natAbs == 1 && dy == (if isWhite p then 1 else -1)
  | 3 => rookDirs.any (fun d => rayReach b s t d.1 d.2)
  | 4 => bishDirs.any (fun d => rayReach b s t d.1 d.2)
  | 2 => dirs8.any (fun d => rayReach b s t d.1 d.2)
  | _ => false

def allSq : List Sq := List.finRange 64

/-- is square t attacked by side `w` -/
def attackedBy (b : Array Pc) (w : Bool) (t : Sq) : Bool :=
  allSq.any (fun s => own w (b.getD s.val 0) && attacks b s t)

def kingSq (b : Array Pc) (w : Bool) : Option Sq :=
  allSq.find? (fun s => b.getD s.val 0 == (if w then 1 else 7))

def inCheck (b : Array Pc) (w : Bool) : Bool :=
  match kingSq b w with
  | some k => attackedBy b (!w) k
  | none => false

def sqOf (n : Nat) (h : n < 64 := by decide) : Sq := ⟨n, h⟩

/-- pseudo-legal: movement rules only -/
def pseudo (p : Pos) (m : Mv) : Bool :=
  let pc := p.at m.f
  let tg := p.at m.t
  let w := p.wtm
  let (dx, dy) := dxy m.f m.t
  own w pc && !own w tg && m.f != m.t &&
  (match kind pc with
   | 6 =>
     let fwd : Int := if w then 1 else -1
     let startRank : Nat := if w then 1 else 6
     let lastRank : Nat := if w then 7 else 0
     let promoOk := if m.t.y == lastRank then (m.promo != 0 && own w m.promo && (kind m.promo == 2 || kind m.promo == 3 || kind m.promo == 4 || kind m.promo == 5)) else m.promo == 0
     promoOk &&
     ( (dx == 0 && dy == fwd && tg == 0) ||
       (dx == 0 && dy == 2*fwd && m.f.y == startRank && tg == 0 &&
          (match mkSq? m.f.x ((m.f.y : Int) + fwd) with | some q => p.at q == 0 | none => false)) ||
       (dx.natAbs == 1 && dy == fwd && (tg != 0 || p.ep == some m.t)) )
   | 1 =>
     m.promo == 0 &&
     ( (dx.natAbs ≤ 1 && dy.natAbs ≤ 1) ||
       -- castling
       (let home : Nat := if w then 4 else 60
        let rookPc : Pc := if w then 3 else 9
        m.f.val == home && dy == 0 && !inCheck p.b w &&
        ( (dx == 2 && (p.castle &&& (if w then 2 else 8)) != 0 &&
             p.b.getD (home+1) 0 == 0 && p.b.getD (home+2) 0 == 0 && p.b.getD (home+3) 0 == rookPc &&
             !(attackedBy p.b (!w) ⟨(home+1) % 64, Nat.mod_lt _ (by decide)⟩)) ||
          (dx == -2 && (p.castle &&& (if w then 1 else 4)) != 0 &&
             p.b.getD (home-1) 0 == 0 && p.b.getD (home-2) 0 == 0 && p.b.getD (home-3) 0 == 0 && p.b.getD (home-4) 0 == rookPc &&
             !(attackedBy p.b (!w) ⟨(home-1) % 64, Nat.mod_lt _ (by decide)⟩)) )) )
   | _ => m.promo == 0 && attacks p.b m.f m.t)

def castleKeep (s : Sq) : UInt8 :=
  match s.val with
  | 0 => 0b1110 | 4 => 0b1100 | 7 => 0b1101 | 56 => 0b1011 | 60 => 0b0011 | 63 => 0b0111 | _ => 0b1111

def apply (p : Pos) (m : Mv) : Pos :=
  let pc := p.at m.f
  let w := p.wtm
  let b := p.b
  let isEp := kind pc == 6 && p.ep == some m.t && p.at m.t == 0 && m.f.x != m.t.x
  let b := if isEp then b.setIfInBounds (if w then m.t.val - 8 else m.t.val + 8) 0 else b
  let b := b.setIfInBounds m.f.val 0
  let b := b.setIfInBounds m.t.val (if m.promo != 0 then m.promo else pc)
  -- castling rook
  let b := if kind pc == 1 && m.t.val == m.f.val + 2 then (b.setIfInBounds (m.f.val+3) 0).setIfInBounds (m.f.val+1) (if w then 3 else 9)
           else if kind pc == 1 && m.t.val + 2 == m.f.val then (b.setIfInBounds (m.f.val-4) 0).setIfInBounds (m.f.val-1) (if w then 3 else 9)
           else b
  let ep : Option Sq :=
    if kind pc == 6 && (m.t.val == m.f.val + 16 || m.f.val == m.t.val + 16) then
      -- Texel rule: only if an enemy pawn is adjacent to the target
      let enemyPawn : Pc := if w then 12 else 6
      let adj := (m.t.x > 0 && b.getD (m.t.val - 1) 0 == enemyPawn) || (m.t.x < 7 && b.getD (m.t.val + 1) 0 == enemyPawn)
      if adj then some ⟨((m.f.val + m.t.val) / 2) % 64, Nat.mod_lt _ (by decide)⟩ else none
    else none
  { b := b, wtm := !w, castle := p.castle &&& castleKeep m.f &&& castleKeep m.t, ep := ep }

def legalB (p : Pos) (m : Mv) : Bool := pseudo p m && !inCheck (apply p m).b p.wtm

def promos (w : Bool) : List Pc := if w then [0,2,3,4,5] else [0,8,9,10,11]

def candidates (p : Pos) : List Mv :=
  (allSq.filter (fun f => own p.wtm (p.at f))).flatMap fun f =>
    allSq.flatMap fun t => (promos p.wtm).map fun pr => { f := f, t := t, promo := pr }

def genLegal (p : Pos) : List Mv := (candidates p).filter (legalB p)

partial def perft (p : Pos) : Nat → Nat
  | 0 => 1
  | d+1 => (genLegal p).foldl (fun acc m => acc + perft (apply p m) d) 0

def pcOfChar (c : Char) : Option Pc :=
  match c with
  | 'K' => some 1 | 'Q' => some 2 | 'R' => some 3 | 'B' => some 4 | 'N' => some 5 | 'P' => some 6
  | 'k' => some 7 | 'q' => some 8 | 'r' => some 9 | 'b' => some 10 | 'n' => some 11 | 'p' => some 12
  | _ => none

def readFEN (s : String) : Pos := Id.run do
  let parts := s.splitOn " "
  let mut b : Array Pc := Array.replicate 64 0
  let mut r : Nat := 7
  let mut c : Nat := 0
  for ch in (parts.getD 0 "").toList do
    if ch == '/' then r := r - 1; c := 0
    else if ch.isDigit then c := c + (ch.toNat - '0'.toNat)
    else match pcOfChar ch with
      | some pc => b := b.setIfInBounds (r*8+c) pc; c := c + 1
      | none => pure ()
  let wtm := parts.getD 1 "w" == "w"
  let cs := parts.getD 2 "-"
  let mut castle : UInt8 := 0
  if cs.contains 'Q' then castle := castle ||| 1
  if cs.contains 'K' then castle := castle ||| 2
  if cs.contains 'q' then castle := castle ||| 4
  if cs.contains 'k' then castle := castle ||| 8
  let eps := (parts.getD 3 "-").toList
  let ep : Option Sq := match eps with
    | [f, rk] => mkSq? ((f.toNat : Int) - 'a'.toNat) ((rk.toNat : Int) - '1'.toNat)
    | _ => none
  return { b := b, wtm := wtm, castle := castle, ep := ep }

end Cz
