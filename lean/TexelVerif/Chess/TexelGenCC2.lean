import TexelVerif.Chess.TexelGenCC
/-!
The pawn block of `pseudoLegalCapturesAndChecks` against the pawn block of `pseudoLegalMoves` (`mem_ccPawn_white/black`),
and the characterisation of the whole list: `mem_cc_iff`.
-/
namespace Chess.Texel
open PosImpl (BB getP getP_eq)

/-! ## restricting the mask of a pawn section -/

theorem mem_addPawn_and (w : Bool) (mask E : BB) (delta : Int) (m : Mv) :
    m ∈ addPawnMovesByMask w (mask &&& E) delta true ↔ (m ∈ addPawnMovesByMask w mask delta true ∧ tst E m.t = true) := by
  rw [mem_addPawn, mem_addPawn, tst_and, Bool.and_eq_true]
  constructor
  · rintro ⟨⟨h1, h2⟩, h3, h4⟩; exact ⟨⟨h1, h3, h4⟩, h2⟩
  · rintro ⟨⟨h1, h3, h4⟩, h2⟩; exact ⟨⟨h1, h2⟩, h3, h4⟩

theorem mem_addPawnDouble_and (mask E : BB) (delta : Int) (m : Mv) :
    m ∈ addPawnDoubleMovesByMask (mask &&& E) delta ↔ (m ∈ addPawnDoubleMovesByMask mask delta ∧ tst E m.t = true) := by
  rw [mem_addPawnDouble, mem_addPawnDouble, tst_and, Bool.and_eq_true]
  constructor
  · rintro ⟨⟨h1, h2⟩, h3, h4⟩; exact ⟨⟨h1, h3, h4⟩, h2⟩
  · rintro ⟨⟨h1, h3, h4⟩, h2⟩; exact ⟨⟨h1, h2⟩, h3, h4⟩

theorem mem_addPawn_shl (w : Bool) (a X occ : BB) (m : Mv) :
    m ∈ addPawnMovesByMask w (((a &&& X) <<< 8) &&& ~~~occ) (-8) true ↔
      (m ∈ addPawnMovesByMask w ((a <<< 8) &&& ~~~occ) (-8) true ∧ tst X m.f = true) := by
  rw [mem_addPawn, mem_addPawn, tst_and, tst_and, Bool.and_eq_true, Bool.and_eq_true, shl_split a X 8 (-8) rfl]
  constructor
  · rintro ⟨⟨⟨h1, h2⟩, h3⟩, h4, h5⟩; exact ⟨⟨⟨h1, h3⟩, h4, h5⟩, by rw [h4]; exact h2⟩
  · rintro ⟨⟨⟨h1, h3⟩, h4, h5⟩, h2⟩; exact ⟨⟨⟨h1, by rw [← h4]; exact h2⟩, h3⟩, h4, h5⟩

theorem mem_addPawn_shr (w : Bool) (a X occ : BB) (m : Mv) :
    m ∈ addPawnMovesByMask w (((a &&& X) >>> 8) &&& ~~~occ) 8 true ↔
      (m ∈ addPawnMovesByMask w ((a >>> 8) &&& ~~~occ) 8 true ∧ tst X m.f = true) := by
  rw [mem_addPawn, mem_addPawn, tst_and, tst_and, Bool.and_eq_true, Bool.and_eq_true, shr_split a X 8 8 rfl]
  constructor
  · rintro ⟨⟨⟨h1, h2⟩, h3⟩, h4, h5⟩; exact ⟨⟨⟨h1, h3⟩, h4, h5⟩, by rw [h4]; exact h2⟩
  · rintro ⟨⟨⟨h1, h3⟩, h4, h5⟩, h2⟩; exact ⟨⟨⟨h1, by rw [← h4]; exact h2⟩, h3⟩, h4, h5⟩

theorem mem_dbl_shl (a X occ R : BB) (m : Mv) :
    m ∈ addPawnDoubleMovesByMask ((((((a &&& X) <<< 8) &&& ~~~occ) &&& R) <<< 8) &&& ~~~occ) (-16) ↔
      (m ∈ addPawnDoubleMovesByMask (((((a <<< 8) &&& ~~~occ) &&& R) <<< 8) &&& ~~~occ) (-16) ∧ tst X m.f = true) := by
  rw [mem_addPawnDouble, mem_addPawnDouble, dbl_shl_split]
  constructor
  · rintro ⟨⟨h1, h2⟩, h3, h4⟩; exact ⟨⟨h1, h3, h4⟩, by rw [h3]; exact h2⟩
  · rintro ⟨⟨h1, h3, h4⟩, h2⟩; exact ⟨⟨h1, by rw [← h3]; exact h2⟩, h3, h4⟩

theorem mem_dbl_shr (a X occ R : BB) (m : Mv) :
    m ∈ addPawnDoubleMovesByMask ((((((a &&& X) >>> 8) &&& ~~~occ) &&& R) >>> 8) &&& ~~~occ) 16 ↔
      (m ∈ addPawnDoubleMovesByMask (((((a >>> 8) &&& ~~~occ) &&& R) >>> 8) &&& ~~~occ) 16 ∧ tst X m.f = true) := by
  rw [mem_addPawnDouble, mem_addPawnDouble, dbl_shr_split]
  constructor
  · rintro ⟨⟨h1, h2⟩, h3, h4⟩; exact ⟨⟨h1, h3, h4⟩, by rw [h3]; exact h2⟩
  · rintro ⟨⟨h1, h3, h4⟩, h2⟩; exact ⟨⟨h1, by rw [← h3]; exact h2⟩, h3, h4⟩

/-! ## pushes stay on the file, captures change it -/

theorem file_of_shl (a : BB) (n : Nat) (d : Int) (hd : d = -(n : Int)) (m : Mv) (h : tst (a <<< n) m.t = true)
    (hf : m.f = sqOff m.t d) : m.f.val + n = m.t.val := by
  obtain ⟨f, h1, _⟩ := (tst_shl a n m.t).1 h
  rw [hf, sqOff_of_add f m.t n d hd h1]; exact h1

theorem file_of_shr (a : BB) (n : Nat) (d : Int) (hd : d = (n : Int)) (m : Mv) (h : tst (a >>> n) m.t = true)
    (hf : m.f = sqOff m.t d) : m.f.val = m.t.val + n := by
  obtain ⟨f, h1, _⟩ := (tst_shr a n m.t).1 h
  rw [hf, sqOff_of_sub f m.t n d hd h1]; exact h1

theorem push_file_w (w : Bool) (a occ : BB) (m : Mv) (h : m ∈ addPawnMovesByMask w ((a <<< 8) &&& ~~~occ) (-8) true) :
    m.f.x = m.t.x := by
  rw [mem_addPawn, tst_and, Bool.and_eq_true] at h
  have := file_of_shl a 8 (-8) rfl m h.1.1 h.2.1
  unfold Sq.x; omega

theorem push_file_b (w : Bool) (a occ : BB) (m : Mv) (h : m ∈ addPawnMovesByMask w ((a >>> 8) &&& ~~~occ) 8 true) :
    m.f.x = m.t.x := by
  rw [mem_addPawn, tst_and, Bool.and_eq_true] at h
  have := file_of_shr a 8 8 rfl m h.1.1 h.2.1
  unfold Sq.x; omega

theorem dbl_file_w (a occ R : BB) (m : Mv)
    (h : m ∈ addPawnDoubleMovesByMask (((((a <<< 8) &&& ~~~occ) &&& R) <<< 8) &&& ~~~occ) (-16)) :
    m.f.x = m.t.x ∧ m.promo = 0 := by
  rw [mem_addPawnDouble, tst_and, Bool.and_eq_true] at h
  obtain ⟨⟨h1, _⟩, h2, h3⟩ := h
  obtain ⟨q, hq, hq2⟩ := (tst_shl _ 8 m.t).1 h1
  simp only [tst_and, Bool.and_eq_true] at hq2
  obtain ⟨f, hf, _⟩ := (tst_shl a 8 q).1 hq2.1.1
  have : m.f = f := by rw [h2, sqOff_of_add f m.t 16 (-16) rfl (by omega)]
  refine ⟨?_, h3⟩
  rw [this]; unfold Sq.x; omega

theorem dbl_file_b (a occ R : BB) (m : Mv)
    (h : m ∈ addPawnDoubleMovesByMask (((((a >>> 8) &&& ~~~occ) &&& R) >>> 8) &&& ~~~occ) 16) :
    m.f.x = m.t.x ∧ m.promo = 0 := by
  rw [mem_addPawnDouble, tst_and, Bool.and_eq_true] at h
  obtain ⟨⟨h1, _⟩, h2, h3⟩ := h
  obtain ⟨q, hq, hq2⟩ := (tst_shr _ 8 m.t).1 h1
  simp only [tst_and, Bool.and_eq_true] at hq2
  obtain ⟨f, hf, _⟩ := (tst_shr a 8 q).1 hq2.1.1
  have : m.f = f := by rw [h2, sqOff_of_sub f m.t 16 16 rfl (by omega)]
  refine ⟨?_, h3⟩
  rw [this]; unfold Sq.x; omega

theorem cap_file_shl (w : Bool) (a F capT : BB) (n : Nat) (d : Int) (hd : d = -(n : Int)) (hn : n = 7 ∨ n = 9)
    (hF : ∀ t : Sq, tst F t = true → if n = 7 then t.val % 8 ≤ 6 else 1 ≤ t.val % 8) (m : Mv)
    (h : m ∈ addPawnMovesByMask w ((a <<< n) &&& F &&& capT) d true) : m.f.x ≠ m.t.x := by
  rw [mem_addPawn] at h
  simp only [tst_and, Bool.and_eq_true] at h
  have h1 := file_of_shl a n d hd m h.1.1.1 h.2.1
  have h2 := hF m.t h.1.1.2
  unfold Sq.x
  rcases hn with rfl | rfl <;> simp at h2 <;> omega

theorem cap_file_shr (w : Bool) (a F capT : BB) (n : Nat) (d : Int) (hd : d = (n : Int)) (hn : n = 7 ∨ n = 9)
    (hF : ∀ t : Sq, tst F t = true → if n = 9 then t.val % 8 ≤ 6 else 1 ≤ t.val % 8) (m : Mv)
    (h : m ∈ addPawnMovesByMask w ((a >>> n) &&& F &&& capT) d true) : m.f.x ≠ m.t.x := by
  rw [mem_addPawn] at h
  simp only [tst_and, Bool.and_eq_true] at h
  have h1 := file_of_shr a n d hd m h.1.1.1 h.2.1
  have h2 := hF m.t h.1.1.2
  unfold Sq.x
  rcases hn with rfl | rfl <;> simp at h2 <;> omega

/-! ## the pawn block -/

theorem cc_pawn_logic (L1 L2 L3 L4 Q PA NPA PK X : Prop) (hn : NPA ↔ ¬ PA)
    (f1 : L1 → ¬ X) (f2 : L2 → ¬ X ∧ Q) (f3 : L3 → X) (f4 : L4 → X) :
    ((((((L3 ∧ Q) ∨ (L4 ∧ Q)) ∨ ((L1 ∧ PA) ∧ Q)) ∨ (L2 ∧ PA)) ∨ (((L1 ∧ NPA) ∧ PK) ∧ Q)) ∨ ((L2 ∧ NPA) ∧ PK)) ↔
      ((((L1 ∨ L2) ∨ L3) ∨ L4) ∧ Q ∧ (X ∨ PA ∨ PK)) := by
  constructor
  · rintro (((((⟨h, q⟩ | ⟨h, q⟩) | ⟨⟨h, a⟩, q⟩) | ⟨h, a⟩) | ⟨⟨⟨h, _⟩, e⟩, q⟩) | ⟨⟨h, _⟩, e⟩)
    · exact ⟨Or.inl (Or.inr h), q, Or.inl (f3 h)⟩
    · exact ⟨Or.inr h, q, Or.inl (f4 h)⟩
    · exact ⟨Or.inl (Or.inl (Or.inl h)), q, Or.inr (Or.inl a)⟩
    · exact ⟨Or.inl (Or.inl (Or.inr h)), (f2 h).2, Or.inr (Or.inl a)⟩
    · exact ⟨Or.inl (Or.inl (Or.inl h)), q, Or.inr (Or.inr e)⟩
    · exact ⟨Or.inl (Or.inl (Or.inr h)), (f2 h).2, Or.inr (Or.inr e)⟩
  · rintro ⟨((h | h) | h) | h, q, e⟩
    · by_cases a : PA
      · exact Or.inl (Or.inl (Or.inl (Or.inr ⟨⟨h, a⟩, q⟩)))
      · rcases e with e | e | e
        · exact absurd e (f1 h)
        · exact absurd e a
        · exact Or.inl (Or.inr ⟨⟨⟨h, hn.2 a⟩, e⟩, q⟩)
    · by_cases a : PA
      · exact Or.inl (Or.inl (Or.inr ⟨h, a⟩))
      · rcases e with e | e | e
        · exact absurd e (f2 h).1
        · exact absurd e a
        · exact Or.inr ⟨⟨h, hn.2 a⟩, e⟩
    · exact Or.inl (Or.inl (Or.inl (Or.inl (Or.inl ⟨h, q⟩))))
    · exact Or.inl (Or.inl (Or.inl (Or.inl (Or.inr ⟨h, q⟩))))

theorem tst_not_true (a : BB) (s : Sq) : tst (~~~a) s = true ↔ ¬ tst a s = true := by
  rw [tst_not]; cases tst a s <;> simp

theorem qn_of_promo0 (m : Mv) (h : m.promo = 0) : qnPromo m = true := by unfold qnPromo; rw [h]; rfl

theorem mem_ccPawn_white (p : Pos) (ok : Sq) (D : BB) (hw : p.wtm = true) (m : Mv) :
    m ∈ ccPawnMoves p ok D ↔
      (m ∈ pawnMoves p ∧ qnPromo m = true ∧
        (m.f.x ≠ m.t.x ∨ tst (D ||| maskRow7) m.f = true ∨ tst (bPawnAttacks ok) m.t = true)) := by
  unfold ccPawnMoves pawnMoves
  simp only [hw, if_true, List.mem_append]
  generalize pcBB p.b (pc true 6) = pawns
  generalize occBB p.b = occ
  generalize (colorBB p.b !true) ||| epMask p = capT
  generalize D ||| maskRow7 = PA
  have f1 := push_file_w true pawns occ m
  have f2 := dbl_file_w pawns occ maskRow3 m
  have f3 := cap_file_shl true pawns maskAToGFiles capT 7 (-7) rfl (Or.inl rfl)
    (fun t ht => by rw [tst_maskAToG] at ht; simpa using ht) m
  have f4 := cap_file_shl true pawns maskBToHFiles capT 9 (-9) rfl (Or.inr rfl)
    (fun t ht => by rw [tst_maskBToH] at ht; simpa using ht) m
  rw [mem_QN_iff true (pawns <<< 7 &&& maskAToGFiles &&& capT), mem_QN_iff true (pawns <<< 9 &&& maskBToHFiles &&& capT),
    mem_QN_iff true (((pawns &&& PA) <<< 8) &&& ~~~occ), mem_addPawn_shl, mem_dbl_shl,
    mem_QN_iff true ((((pawns &&& ~~~PA) <<< 8) &&& ~~~occ) &&& bPawnAttacks ok),
    mem_addPawn_and true (((pawns &&& ~~~PA) <<< 8) &&& ~~~occ) (bPawnAttacks ok), mem_addPawn_shl,
    mem_addPawnDouble_and ((((((pawns &&& ~~~PA) <<< 8) &&& ~~~occ) &&& maskRow3) <<< 8) &&& ~~~occ) (bPawnAttacks ok), mem_dbl_shl]
  exact cc_pawn_logic _ _ _ _ _ _ _ _ _ (tst_not_true PA m.f) (fun h e => e (f1 h))
    (fun h => ⟨fun e => e (f2 h).1, qn_of_promo0 m (f2 h).2⟩) f3 f4

theorem mem_ccPawn_black (p : Pos) (ok : Sq) (D : BB) (hw : p.wtm = false) (m : Mv) :
    m ∈ ccPawnMoves p ok D ↔
      (m ∈ pawnMoves p ∧ qnPromo m = true ∧
        (m.f.x ≠ m.t.x ∨ tst (D ||| maskRow2) m.f = true ∨ tst (wPawnAttacks ok) m.t = true)) := by
  unfold ccPawnMoves pawnMoves
  simp only [hw, Bool.false_eq_true, if_false, List.mem_append]
  generalize pcBB p.b (pc false 6) = pawns
  generalize occBB p.b = occ
  generalize (colorBB p.b !false) ||| epMask p = capT
  generalize D ||| maskRow2 = PA
  have f1 := push_file_b false pawns occ m
  have f2 := dbl_file_b pawns occ maskRow6 m
  have f3 := cap_file_shr false pawns maskAToGFiles capT 9 9 rfl (Or.inr rfl)
    (fun t ht => by rw [tst_maskAToG] at ht; simpa using ht) m
  have f4 := cap_file_shr false pawns maskBToHFiles capT 7 7 rfl (Or.inl rfl)
    (fun t ht => by rw [tst_maskBToH] at ht; simpa using ht) m
  rw [mem_QN_iff false (pawns >>> 9 &&& maskAToGFiles &&& capT), mem_QN_iff false (pawns >>> 7 &&& maskBToHFiles &&& capT),
    mem_QN_iff false (((pawns &&& PA) >>> 8) &&& ~~~occ), mem_addPawn_shr, mem_dbl_shr,
    mem_QN_iff false ((((pawns &&& ~~~PA) >>> 8) &&& ~~~occ) &&& wPawnAttacks ok),
    mem_addPawn_and false (((pawns &&& ~~~PA) >>> 8) &&& ~~~occ) (wPawnAttacks ok), mem_addPawn_shr,
    mem_addPawnDouble_and ((((((pawns &&& ~~~PA) >>> 8) &&& ~~~occ) &&& maskRow6) >>> 8) &&& ~~~occ) (wPawnAttacks ok), mem_dbl_shr]
  exact cc_pawn_logic _ _ _ _ _ _ _ _ _ (tst_not_true PA m.f) (fun h e => e (f1 h))
    (fun h => ⟨fun e => e (f2 h).1, qn_of_promo0 m (f2 h).2⟩) f3 f4

end Chess.Texel
