import TexelVerif.Chess.TexelGenRay
/-!
`MoveGen::sqAttacked` against the specification's `attackedBy`, in a form general enough for every use in
`isLegal` / `removeIllegal` / `pseudoLegalMoves`: the piece bitboards are read from a board `b`, the occupancy
is an arbitrary bitboard `occ`, and the claim is about a board `b'` that agrees with them away from the
target square (`sqAttacked_eq`).  Instances: `b' = b` (`sqAttacked_spec`, `inCheck_eq`) and the king move with
the king lifted off its square.
-/
namespace Chess.Texel
open PosImpl (BB)

/-! ## reversing a ray -/

theorem step_inj (x y dx dy : Int) (hd : IsDir dx dy) (j k : Nat) (q : Sq)
    (h1 : stepSq x y dx dy j = some q) (h2 : stepSq x y dx dy k = some q) : j = k := by
  rw [stepSq_eq_some] at h1 h2
  obtain ⟨a1, a2, a3, a4, a5⟩ := hd
  rcases dir_cases a1 a2 with rfl | rfl | rfl <;> rcases dir_cases a3 a4 with rfl | rfl | rfl <;>
    simp only [Int.mul_neg, Int.mul_one, Int.mul_zero] at h1 h2 <;> omega

theorem stepSq_zero (s : Sq) (dx dy : Int) : stepSq s.x s.y dx dy 0 = some s := by
  unfold stepSq; simp [mkSq?_xy]

theorem stepSq_rev (s t : Sq) (dx dy : Int) (k j : Nat) (hj : j ≤ k) (h : stepSq s.x s.y dx dy k = some t) :
    stepSq t.x t.y (-dx) (-dy) j = stepSq s.x s.y dx dy (k - j) := by
  rw [stepSq_eq_some] at h
  unfold stepSq
  rw [h.1, h.2, Int.natCast_sub hj, Int.sub_mul, Int.sub_mul, Int.mul_neg, Int.mul_neg]
  congr 1 <;> omega

theorem reachN_rev (emp : Sq → Bool) (s t : Sq) (dx dy : Int) (k : Nat) (h : ReachN emp s.x s.y dx dy k t) :
    ReachN emp t.x t.y (-dx) (-dy) k s := by
  obtain ⟨h1, h2, h3⟩ := h
  refine ⟨h1, ?_, ?_⟩
  · rw [stepSq_rev s t dx dy k k (Nat.le_refl _) h2, Nat.sub_self, stepSq_zero]
  · intro j hj1 hjk
    rw [stepSq_rev s t dx dy k j (by omega) h2]
    exact h3 (k - j) (by omega) (by omega)

theorem isDir_neg {dx dy : Int} (h : IsDir dx dy) : IsDir (-dx) (-dy) := by unfold IsDir at *; omega

/-- changing the emptiness predicate on the squares strictly inside the segment -/
theorem reachN_congr (emp emp' : Sq → Bool) (x y dx dy : Int) (k : Nat) (t : Sq) (h : ReachN emp x y dx dy k t)
    (hh : ∀ j q, 1 ≤ j → j < k → stepSq x y dx dy j = some q → emp q = true → emp' q = true) :
    ReachN emp' x y dx dy k t := by
  obtain ⟨h1, h2, h3⟩ := h
  refine ⟨h1, h2, ?_⟩
  intro j hj1 hjk
  obtain ⟨q, hq, he⟩ := h3 j hj1 hjk
  exact ⟨q, hq, hh j q hj1 hjk hq he⟩

/-- the squares strictly inside a segment differ from its end point -/
theorem reachN_inner_ne (emp : Sq → Bool) (s t : Sq) (dx dy : Int) (hd : IsDir dx dy) (k j : Nat) (q : Sq)
    (h : ReachN emp s.x s.y dx dy k t) (hjk : j < k) (hq : stepSq s.x s.y dx dy j = some q) : q ≠ t := by
  intro e; subst e
  have := step_inj _ _ _ _ hd j k q hq h.2.1
  omega

/-- the spec's "`s` reaches `t` along d over board `b'`" is the generator's "`s` is seen from `t` along -d over `occ`",
    whenever `occ` is the occupancy of `b'` away from `t` -/
theorem rayReach_rev (b' : Board) (occ : BB) (s t : Sq) (dx dy : Int) (hd : IsDir dx dy)
    (H1 : ∀ q, q ≠ t → tst occ q = (b'[q] != 0)) :
    rayReach b' s t dx dy = tst (ray occ t (-dx) (-dy)) s := by
  rw [Bool.eq_iff_iff, rayReach_iff _ _ _ _ _ hd, tst_ray_iff _ _ _ _ _ (isDir_neg hd)]
  constructor
  · rintro ⟨k, h⟩
    refine ⟨k, reachN_rev _ s t dx dy k (reachN_congr _ _ _ _ _ _ _ _ h ?_)⟩
    intro j q hj1 hjk hq he
    have hne := reachN_inner_ne _ s t dx dy hd k j q h hjk hq
    rw [H1 q hne]; simpa using he
  · rintro ⟨k, h⟩
    have h' := reachN_rev _ t s (-dx) (-dy) k h
    rw [Int.neg_neg, Int.neg_neg] at h'
    refine ⟨k, reachN_congr _ _ _ _ _ _ _ _ h' ?_⟩
    intro j q hj1 hjk hq he
    have hne := reachN_inner_ne _ s t dx dy hd k j q h' hjk hq
    rw [H1 q hne] at he; simpa using he

/-! ## piece codes -/

set_option maxRecDepth 100000 in
theorem beq_pc_fin : ∀ (o : Bool) (n : Fin 256) (k : Fin 7), 1 ≤ k.val →
    (UInt8.ofNat n.val == pc o (UInt8.ofNat k.val)) = (own o (UInt8.ofNat n.val) && kind (UInt8.ofNat n.val) == UInt8.ofNat k.val) := by
  decide +kernel

theorem beq_pc (o : Bool) (p : Pc) (k : Fin 7) (hk : 1 ≤ k.val) :
    (p == pc o (UInt8.ofNat k.val)) = (own o p && kind p == UInt8.ofNat k.val) := by
  have := beq_pc_fin o ⟨p.toNat, p.toNat_lt⟩ k hk
  simpa only [UInt8.ofNat_toNat] using this

theorem beq_pc1 (o : Bool) (p : Pc) : (p == pc o 1) = (own o p && kind p == 1) := beq_pc o p ⟨1, by decide⟩ (by decide)
theorem beq_pc2 (o : Bool) (p : Pc) : (p == pc o 2) = (own o p && kind p == 2) := beq_pc o p ⟨2, by decide⟩ (by decide)
theorem beq_pc3 (o : Bool) (p : Pc) : (p == pc o 3) = (own o p && kind p == 3) := beq_pc o p ⟨3, by decide⟩ (by decide)
theorem beq_pc4 (o : Bool) (p : Pc) : (p == pc o 4) = (own o p && kind p == 4) := beq_pc o p ⟨4, by decide⟩ (by decide)
theorem beq_pc5 (o : Bool) (p : Pc) : (p == pc o 5) = (own o p && kind p == 5) := beq_pc o p ⟨5, by decide⟩ (by decide)
theorem beq_pc6 (o : Bool) (p : Pc) : (p == pc o 6) = (own o p && kind p == 6) := beq_pc o p ⟨6, by decide⟩ (by decide)

set_option maxRecDepth 100000 in
theorem isWhite_of_own_fin : ∀ (o : Bool) (n : Fin 256), own o (UInt8.ofNat n.val) = true → isWhite (UInt8.ofNat n.val) = o := by
  decide +kernel

theorem isWhite_of_own (o : Bool) (p : Pc) (h : own o p = true) : isWhite p = o := by
  have := isWhite_of_own_fin o ⟨p.toNat, p.toNat_lt⟩
  simp only [UInt8.ofNat_toNat] at this
  exact this h

theorem tst_pcBB (b : Board) (p : Pc) (s : Sq) : tst (pcBB b p) s = (b[s] == p) := tst_bbSq _ _

/-! ## attack geometry seen from the target -/

theorem dxy_swap (s t : Sq) : dxy t s = (-(dxy s t).1, -(dxy s t).2) := by
  unfold dxy; ext <;> simp only <;> omega

theorem kingGeom_swap (s t : Sq) : kingGeom t s = kingGeom s t := by
  unfold kingGeom; rw [dxy_swap s t]
  have hz : ∀ a : Int, (-a == 0) = (a == 0) := fun a => by rw [Bool.eq_iff_iff]; simp
  simp only [Int.natAbs_neg, hz]

theorem knightGeom_swap (s t : Sq) : knightGeom t s = knightGeom s t := by
  unfold knightGeom; rw [dxy_swap s t]
  simp only [Int.natAbs_neg]

theorem pawnGeom_swap (w : Bool) (s t : Sq) : pawnGeom (!w) t s = pawnGeom w s t := by
  unfold pawnGeom; rw [dxy_swap s t]
  simp only [Int.natAbs_neg]
  cases w <;> simp only [Bool.not_true, Bool.not_false, if_true, if_false, Bool.false_eq_true] <;> congr 1 <;>
    rw [Bool.eq_iff_iff] <;> simp only [beq_iff_eq] <;> omega

/-- piece `p` standing on `s` attacks `t`, read off the generator's attack sets *of the target square* -/
def atkFrom (p : Pc) (occ : BB) (s t : Sq) : Bool :=
  match kind p with
  | 1 => kingGeom t s
  | 5 => knightGeom t s
  | 6 => pawnGeom (!isWhite p) t s
  | 3 => tst (rookAttacks t occ) s
  | 4 => tst (bishopAttacks t occ) s
  | 2 => tst (rookAttacks t occ) s || tst (bishopAttacks t occ) s
  | _ => false

theorem not_tst_ray_self (occ : BB) (t : Sq) (dx dy : Int) (hd : IsDir dx dy) : tst (ray occ t dx dy) t = false := by
  apply Bool.eq_false_iff.2
  intro h
  rw [tst_ray_iff _ _ _ _ _ hd] at h
  obtain ⟨k, h1, h2, _⟩ := h
  have := step_inj _ _ _ _ hd k 0 t h2 (stepSq_zero t dx dy)
  omega

theorem not_tst_rook_self (occ : BB) (t : Sq) : tst (rookAttacks t occ) t = false := by
  obtain ⟨d1, d2, d3, d4⟩ := isDir_rook
  simp [rookAttacks, not_tst_ray_self, d1, d2, d3, d4]

theorem not_tst_bishop_self (occ : BB) (t : Sq) : tst (bishopAttacks t occ) t = false := by
  obtain ⟨d1, d2, d3, d4⟩ := isDir_bishop
  simp [bishopAttacks, not_tst_ray_self, d1, d2, d3, d4]

theorem dxy_self (t : Sq) : dxy t t = (0, 0) := by unfold dxy; ext <;> simp

theorem atkFrom_self (p : Pc) (occ : BB) (t : Sq) : atkFrom p occ t t = false := by
  unfold atkFrom
  split <;> simp [kingGeom, knightGeom, pawnGeom, dxy_self, not_tst_rook_self, not_tst_bishop_self]

theorem or4_perm (a b c d : Bool) : (a || b || c || d) = (b || a || d || c) := by
  cases a <;> cases b <;> cases c <;> cases d <;> rfl

/-- the specification's `attacks` over `b'` is `atkFrom` over any occupancy that is `b'`'s away from the target -/
theorem attacks_eq_atkFrom (b' : Board) (occ : BB) (s t : Sq) (H1 : ∀ q, q ≠ t → tst occ q = (b'[q] != 0)) :
    attacks b' s t = atkFrom b'[s] occ s t := by
  obtain ⟨r1, r2, r3, r4⟩ := isDir_rook
  obtain ⟨c1, c2, c3, c4⟩ := isDir_bishop
  have hr : (rookDirs.any fun dd => rayReach b' s t dd.1 dd.2) = tst (rookAttacks t occ) s := by
    simp only [rookDirs, List.any_cons, List.any_nil, Bool.or_false, rookAttacks, tst_or]
    rw [rayReach_rev b' occ s t 1 0 r1 H1, rayReach_rev b' occ s t (-1) 0 r2 H1,
        rayReach_rev b' occ s t 0 1 r3 H1, rayReach_rev b' occ s t 0 (-1) r4 H1]
    simp only [Int.neg_neg, Int.neg_zero, ← Bool.or_assoc]
    exact or4_perm _ _ _ _
  have hb : (bishDirs.any fun dd => rayReach b' s t dd.1 dd.2) = tst (bishopAttacks t occ) s := by
    simp only [bishDirs, List.any_cons, List.any_nil, Bool.or_false, bishopAttacks, tst_or]
    rw [rayReach_rev b' occ s t 1 1 c1 H1, rayReach_rev b' occ s t 1 (-1) c2 H1,
        rayReach_rev b' occ s t (-1) 1 c3 H1, rayReach_rev b' occ s t (-1) (-1) c4 H1]
    simp only [Int.neg_neg, ← Bool.or_assoc]
    generalize tst (ray occ t (-1) (-1)) s = a
    generalize tst (ray occ t (-1) 1) s = b
    generalize tst (ray occ t 1 (-1)) s = c
    generalize tst (ray occ t 1 1) s = d
    cases a <;> cases b <;> cases c <;> cases d <;> rfl
  unfold attacks atkFrom
  simp only
  generalize kind b'[s] = kd
  split
  · rw [kingGeom_swap]; rfl
  · rw [knightGeom_swap]; rfl
  · rw [pawnGeom_swap]; rfl
  · exact hr
  · exact hb
  · rw [dirs8, List.any_append, hr, hb]; rfl
  · split <;> simp_all

/-! ## `sqAttacked` -/

theorem pawnAtk_eq (w : Bool) (t : Sq) : (if w then wPawnAttacks t else bPawnAttacks t) = bbSq (pawnGeom w t) := by
  cases w <;> rfl

/-- `sqAttacked` unfolded: some enemy piece of `b` attacks `t` according to the attack sets of `t` over `occ` -/
theorem sqAttacked_iff (b : Board) (w : Bool) (t : Sq) (occ : BB) :
    sqAttacked b w t occ = true ↔ ∃ s, own (!w) b[s] = true ∧ atkFrom b[s] occ s t = true := by
  unfold sqAttacked
  simp only [Bool.or_eq_true, bb_ne_zero_iff, tst_and, tst_or, tst_pcBB, pawnAtk_eq, knightAttacks, kingAttacks, tst_bbSq,
    beq_pc1, beq_pc2, beq_pc3, beq_pc4, beq_pc5, beq_pc6, Bool.and_eq_true, beq_iff_eq]
  constructor
  · rintro ((((⟨s, h1, h2, h3⟩ | ⟨s, h1, h2, h3⟩) | ⟨s, h1, h2, h3⟩) | ⟨s, h1, (⟨h2, h3⟩ | ⟨h2, h3⟩)⟩) | ⟨s, h1, (⟨h2, h3⟩ | ⟨h2, h3⟩)⟩) <;>
      refine ⟨s, h2, ?_⟩ <;> unfold atkFrom <;> rw [h3]
    · exact h1
    · exact h1
    · simp only; rw [isWhite_of_own _ _ h2, Bool.not_not]; exact h1
    · exact h1
    · simp only; rw [h1]; simp
    · exact h1
    · simp only; rw [h1]; rfl
  · rintro ⟨s, h2, h⟩
    unfold atkFrom at h
    split at h
    · rename_i hk; exact Or.inl (Or.inl (Or.inl (Or.inr ⟨s, h, h2, hk⟩)))
    · rename_i hk; exact Or.inl (Or.inl (Or.inl (Or.inl ⟨s, h, h2, hk⟩)))
    · rename_i hk
      rw [isWhite_of_own _ _ h2, Bool.not_not] at h
      exact Or.inl (Or.inl (Or.inr ⟨s, h, h2, hk⟩))
    · rename_i hk; exact Or.inr ⟨s, h, Or.inl ⟨h2, hk⟩⟩
    · rename_i hk; exact Or.inl (Or.inr ⟨s, h, Or.inl ⟨h2, hk⟩⟩)
    · rename_i hk
      rcases Bool.or_eq_true _ _ ▸ h with h | h
      · exact Or.inr ⟨s, h, Or.inr ⟨h2, hk⟩⟩
      · exact Or.inl (Or.inr ⟨s, h, Or.inr ⟨h2, hk⟩⟩)
    · cases h

theorem attackedBy_iff (b : Board) (o : Bool) (t : Sq) :
    attackedBy b o t = true ↔ ∃ s, own o b[s] = true ∧ attacks b s t = true := by
  simp [attackedBy, allSq]

/-- **`sqAttacked` against the specification.**  Piece bitboards from `b`, occupancy `occ`; `b'` is any board whose
    occupancy away from `t` is `occ` and whose pieces of the attacking side away from `t` are those of `b`. -/
theorem sqAttacked_eq (b b' : Board) (w : Bool) (t : Sq) (occ : BB)
    (H1 : ∀ q, q ≠ t → tst occ q = (b'[q] != 0))
    (H2 : ∀ s, s ≠ t → (own (!w) b[s] = true ∨ own (!w) b'[s] = true) → b'[s] = b[s]) :
    sqAttacked b w t occ = attackedBy b' (!w) t := by
  rw [Bool.eq_iff_iff, sqAttacked_iff, attackedBy_iff]
  constructor
  · rintro ⟨s, h1, h2⟩
    have hne : s ≠ t := by intro e; subst e; rw [atkFrom_self] at h2; cases h2
    have e := H2 s hne (Or.inl h1)
    exact ⟨s, by rw [e]; exact h1, by rw [attacks_eq_atkFrom b' occ s t H1, e]; exact h2⟩
  · rintro ⟨s, h1, h2⟩
    rw [attacks_eq_atkFrom b' occ s t H1] at h2
    have hne : s ≠ t := by intro e; subst e; rw [atkFrom_self] at h2; cases h2
    have e := H2 s hne (Or.inr h1)
    exact ⟨s, by rw [← e]; exact h1, by rw [← e]; exact h2⟩

/-! ## boards with proper piece codes -/

/-- every square holds one of the codes 0..12 (`Piece::EMPTY` … `Piece::BPAWN`) -/
def ValidB (b : Board) : Prop := ∀ s : Sq, b[s] ≤ 12

set_option maxRecDepth 100000 in
theorem occ_code_fin : ∀ (n : Fin 256), UInt8.ofNat n.val ≤ 12 →
    (own true (UInt8.ofNat n.val) || own false (UInt8.ofNat n.val)) = (UInt8.ofNat n.val != 0) := by
  decide +kernel

theorem tst_occBB (b : Board) (hv : ValidB b) (q : Sq) : tst (occBB b) q = (b[q] != 0) := by
  unfold occBB colorBB
  rw [tst_or, tst_bbSq, tst_bbSq]
  have := occ_code_fin ⟨b[q].toNat, b[q].toNat_lt⟩
  simp only [UInt8.ofNat_toNat] at this
  exact this (hv q)

/-- `MoveGen::sqAttacked(pos, sq)` is the specification's `attackedBy` -/
theorem sqAttacked_spec (b : Board) (hv : ValidB b) (w : Bool) (t : Sq) :
    sqAttacked b w t (occBB b) = attackedBy b (!w) t :=
  sqAttacked_eq b b w t (occBB b) (fun q _ => tst_occBB b hv q) (fun _ _ _ => rfl)

/-- `MoveGen::inCheck` is the specification's `inCheck` -/
theorem inCheck_eq (b : Board) (hv : ValidB b) (w : Bool) : inCheck b w = Chess.inCheck b w := by
  unfold inCheck Chess.inCheck inCheckK
  cases kingSq b w with
  | none => rfl
  | some k => exact sqAttacked_spec b hv w k

end Chess.Texel
