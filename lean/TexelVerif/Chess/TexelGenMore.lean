import TexelVerif.Chess.TexelGen
/-!
Executable models of the remaining generators / predicates of `MoveGen` (moveGen.cpp): `givesCheck` (458-571),
`checkEvasions` (148-250), `pseudoLegalCaptures` (386-456), `pseudoLegalCapturesAndChecks` (257-384).
Same conventions as `TexelGen.lean`; tied to the C++ by the ordered differential (`chess tmg`).
-/
namespace Chess.Texel
open PosImpl (BB bit bbOf)

/-! ## `nextPiece`, `nextPieceSafe` -/

/-- the `switch (delta)` of `nextPieceSafe` -/
def deltaDir (d : Int) : Option (Int × Int) :=
  if d == 1 then some (1, 0) else if d == 9 then some (1, 1) else if d == 8 then some (0, 1) else if d == 7 then some (-1, 1)
  else if d == -1 then some (-1, 0) else if d == -9 then some (-1, -1) else if d == -8 then some (0, -1)
  else if d == -7 then some (1, -1) else none

/-- first piece met from `(x, y)` in direction `(dx, dy)`; `EMPTY` at the edge -/
def walkPiece (b : Board) (dx dy : Int) : Nat → Int → Int → Pc
  | 0, _, _ => EMPTY
  | n + 1, x, y =>
    match mkSq? (x + dx) (y + dy) with
    | none => EMPTY
    | some q => if b[q] != 0 then b[q] else walkPiece b dx dy n (x + dx) (y + dy)

/-- `MoveGen::nextPieceSafe`; `MoveGen::nextPiece` is the same walk without the edge test and is only called along
    the direction towards the opponent's king, where the edge is never reached -/
def nextPiece (b : Board) (s : Sq) (delta : Int) : Pc :=
  match deltaDir delta with
  | some d => walkPiece b d.1 d.2 7 s.x s.y
  | none => EMPTY

def isRookDelta (d : Int) : Bool := d == 8 || d == -8 || d == 1 || d == -1
def isBishDelta (d : Int) : Bool := d == 9 || d == 7 || d == -9 || d == -7

/-- `pos.getPiece(sq + delta)` for a ray step `delta` (stays on the board wherever the code uses it) -/
def pieceAtStep (b : Board) (s : Sq) (delta : Int) : Pc :=
  match deltaDir delta with
  | some d => (match mkSq? ((s.x : Int) + d.1) ((s.y : Int) + d.2) with | some q => b[q] | none => EMPTY)
  | none => EMPTY

/-! ## `givesCheck` -/

/-- `MoveGen::givesCheck` (moveGen.cpp:458-571), `ok` = `pos.getKingSq(!wtm)` -/
def givesCheck (p : Pos) (ok : Sq) (m : Mv) : Bool :=
  let b := p.b
  let w := p.wtm
  let oKing : Pc := if w then BKING else WKING
  let pw : UInt8 := kind (if m.promo == 0 then b[m.f] else m.promo)       -- Piece::makeWhite
  let myQ := pc w 2
  let myR := pc w 3
  let myB := pc w 4
  let d1 := direction m.t ok
  let direct : Bool :=
    if isRookDelta d1 then (pw == 2 || pw == 3) && nextPiece b m.t d1 == oKing
    else if isBishDelta d1 then
      (if pw == 2 || pw == 4 then nextPiece b m.t d1 == oKing
       else if pw == 6 then (decide (d1 > 0) == w) && pieceAtStep b m.t d1 == oKing
       else false)
    else d1 != 0 && pw == 5
  let d2 := direction m.f ok
  let discovered : Bool :=
    d2 != 0 && d2 != d1 && nextPiece b m.f d2 == oKing &&
    (let p2 := nextPiece b m.f (-d2)
     if isRookDelta d2 then p2 == myQ || p2 == myR
     else if isBishDelta d2 then p2 == myQ || p2 == myB
     else false)
  let promoLine : Bool :=
    m.promo != 0 && d1 != 0 && d1 == d2 &&
    (if isRookDelta d1 then (pw == 2 || pw == 3) && nextPiece b m.f d1 == oKing
     else if isBishDelta d1 then (pw == 2 || pw == 4) && nextPiece b m.f d1 == oKing
     else false)
  let up : Int := if w then 8 else -8
  let special : Bool :=
    if pw == 1 then
      if m.t.val == m.f.val + 2 then
        nextPiece b m.f (-1) == oKing || nextPiece b (sqOff m.f 1) up == oKing
      else if m.t.val + 2 == m.f.val then
        nextPiece b m.f 1 == oKing || nextPiece b (sqOff m.f (-1)) up == oKing
      else false
    else if pw == 6 then
      if b[m.t] == 0 && m.t.x != m.f.x then
        let dx : Int := (m.t.x : Int) - m.f.x
        let epSq := sqOff m.f dx
        let d3 := direction epSq ok
        if isBishDelta d3 then
          nextPiece b epSq d3 == oKing && (let p2 := nextPiece b epSq (-d3); p2 == myQ || p2 == myB)
        else if d3 == 1 || d3 == -1 then
          let maxS := if epSq.val ≥ m.f.val then epSq else m.f
          let minS := if epSq.val ≥ m.f.val then m.f else epSq
          if d3 == 1 then
            nextPiece b maxS d3 == oKing && (let p2 := nextPiece b minS (-d3); p2 == myQ || p2 == myR)
          else
            nextPiece b minS d3 == oKing && (let p2 := nextPiece b maxS (-d3); p2 == myQ || p2 == myR)
        else false
      else false
    else false
  direct || discovered || promoLine || special

/-! ## `pseudoLegalCaptures` -/

def addPawnMovesQN (w : Bool) (mask : BB) (delta : Int) : List Mv :=
  let promMask := mask &&& maskRow1Row8
  let mask := mask &&& ~~~promMask
  ((squaresOf promMask).flatMap fun sq =>
      let sq0 := sqOff sq delta
      [{ f := sq0, t := sq, promo := pc w 2 }, { f := sq0, t := sq, promo := pc w 5 }]) ++
  ((squaresOf mask).map fun sq => { f := sqOff sq delta, t := sq, promo := 0 })

/-- `MoveGen::pseudoLegalCaptures<wtm>` (moveGen.cpp:386-456) -/
def pseudoLegalCaptures (p : Pos) (k : Sq) : List Mv :=
  let b := p.b
  let w := p.wtm
  let occ := occBB b
  let enemy : Sq → BB := fun _ => colorBB b (!w)
  let pawns := pcBB b (pc w 6)
  let capT := colorBB b (!w) ||| epMask p
  pieceMoves b w 2 (fun sq => rookAttacks sq occ ||| bishopAttacks sq occ) enemy ++
  pieceMoves b w 3 (fun sq => rookAttacks sq occ) enemy ++
  pieceMoves b w 4 (fun sq => bishopAttacks sq occ) enemy ++
  pieceMoves b w 5 knightAttacks enemy ++
  addMovesByMask k (kingAttacks k &&& colorBB b (!w)) ++
  (if w then
    addPawnMovesQN w ((pawns <<< 8) &&& ~~~occ &&& maskRow8) (-8) ++
    addPawnMovesQN w ((pawns <<< 7) &&& maskAToGFiles &&& capT) (-7) ++
    addPawnMovesQN w ((pawns <<< 9) &&& maskBToHFiles &&& capT) (-9)
   else
    addPawnMovesQN w ((pawns >>> 8) &&& ~~~occ &&& maskRow1) 8 ++
    addPawnMovesQN w ((pawns >>> 9) &&& maskAToGFiles &&& capT) 9 ++
    addPawnMovesQN w ((pawns >>> 7) &&& maskBToHFiles &&& capT) 7)

/-! ## `checkEvasions` -/

def betweenBB (a b : Sq) : BB := BitVec.ofNat 64 (between a b)

/-- the pieces giving check, as computed at the top of `checkEvasions` (the enemy king is never among them) -/
def kingThreats (b : Board) (w : Bool) (k : Sq) : BB :=
  let o := !w
  let occ := occBB b
  let rookPieces := pcBB b (pc o 3) ||| pcBB b (pc o 2)
  let bishPieces := pcBB b (pc o 4) ||| pcBB b (pc o 2)
  let kt0 := pcBB b (pc o 5) &&& knightAttacks k
  let kt1 := if rookPieces != 0 then kt0 ||| (rookPieces &&& rookAttacks k occ) else kt0
  let kt2 := if bishPieces != 0 then kt1 ||| (bishPieces &&& bishopAttacks k occ) else kt1
  kt2 ||| (pcBB b (pc o 6) &&& (if w then wPawnAttacks k else bPawnAttacks k))

/-- `validTargets`: with exactly one checking piece, its square and the squares between it and the king -/
def validTargets (b : Board) (w : Bool) (k : Sq) : BB :=
  let kt := kingThreats b w k
  if kt != 0 && (kt &&& (kt - 1)) == 0 then
    match (squaresOf kt).head? with
    | some threatSq => kt ||| betweenBB k threatSq
    | none => 0
  else 0

/-- the pawn block of `checkEvasions` -/
def evasionPawnMoves (p : Pos) (validTargets : BB) : List Mv :=
  let b := p.b
  let w := p.wtm
  let occ := occBB b
  let pawns := pcBB b (pc w 6)
  let capT := (colorBB b (!w) &&& validTargets) ||| epMask p
  if w then
    let m := (pawns <<< 8) &&& ~~~occ
    addPawnMovesByMask w (m &&& validTargets) (-8) true ++
    addPawnDoubleMovesByMask ((((m &&& maskRow3) <<< 8) &&& ~~~occ) &&& validTargets) (-16) ++
    addPawnMovesByMask w ((pawns <<< 7) &&& maskAToGFiles &&& capT) (-7) true ++
    addPawnMovesByMask w ((pawns <<< 9) &&& maskBToHFiles &&& capT) (-9) true
  else
    let m := (pawns >>> 8) &&& ~~~occ
    addPawnMovesByMask w (m &&& validTargets) 8 true ++
    addPawnDoubleMovesByMask ((((m &&& maskRow6) >>> 8) &&& ~~~occ) &&& validTargets) 16 ++
    addPawnMovesByMask w ((pawns >>> 9) &&& maskAToGFiles &&& capT) 9 true ++
    addPawnMovesByMask w ((pawns >>> 7) &&& maskBToHFiles &&& capT) 7 true

/-- `MoveGen::checkEvasions<wtm>` (moveGen.cpp:148-250), `k` = own king square -/
def checkEvasions (p : Pos) (k : Sq) : List Mv :=
  let b := p.b
  let w := p.wtm
  let occ := occBB b
  let vt := validTargets b w k
  let tgt : Sq → BB := fun _ => ~~~colorBB b w &&& vt
  pieceMoves b w 2 (fun sq => rookAttacks sq occ ||| bishopAttacks sq occ) tgt ++
  pieceMoves b w 3 (fun sq => rookAttacks sq occ) tgt ++
  pieceMoves b w 4 (fun sq => bishopAttacks sq occ) tgt ++
  addMovesByMask k (kingAttacks k &&& ~~~colorBB b w) ++
  pieceMoves b w 5 knightAttacks tgt ++
  evasionPawnMoves p vt

/-! ## `pseudoLegalCapturesAndChecks` -/

/-- one piece-type loop of `pseudoLegalCapturesAndChecks`: the restriction to captures / checking squares is dropped
    for a piece standing on a square of `discovered` -/
def pieceMovesCC (b : Board) (w : Bool) (kd : UInt8) (att : Sq → BB) (discovered restrict : BB) : List Mv :=
  (squaresOf (pcBB b (pc w kd))).flatMap fun sq =>
    let m := att sq
    let m := if (discovered &&& sqBit sq) == 0 then m &&& restrict else m
    addMovesByMask sq (m &&& ~~~colorBB b w)

/-- `MoveGen::pseudoLegalCapturesAndChecks<wtm>` (moveGen.cpp:257-384), `k` own king, `ok` opponent's king -/
def pseudoLegalCapturesAndChecks (p : Pos) (k ok : Sq) : List Mv :=
  let b := p.b
  let w := p.wtm
  let occ := occBB b
  let enemy := colorBB b (!w)
  let kRookAtk := rookAttacks ok occ
  let d0 : BB := if (rookAttacks ok (occ &&& ~~~kRookAtk) &&& (pcBB b (pc w 2) ||| pcBB b (pc w 3))) != 0 then kRookAtk else 0
  let kBishAtk := bishopAttacks ok occ
  let discovered : BB :=
    if (bishopAttacks ok (occ &&& ~~~kBishAtk) &&& (pcBB b (pc w 2) ||| pcBB b (pc w 4))) != 0 then d0 ||| kBishAtk else d0
  let kKnightAtk := knightAttacks ok
  let pawns := pcBB b (pc w 6)
  let capT := enemy ||| epMask p
  pieceMovesCC b w 2 (fun sq => rookAttacks sq occ ||| bishopAttacks sq occ) discovered (enemy ||| kRookAtk ||| kBishAtk) ++
  pieceMovesCC b w 3 (fun sq => rookAttacks sq occ) discovered (enemy ||| kRookAtk) ++
  pieceMovesCC b w 4 (fun sq => bishopAttacks sq occ) discovered (enemy ||| kBishAtk) ++
  addMovesByMask k (kingAttacks k &&& (if (discovered &&& sqBit k) == 0 then enemy else ~~~colorBB b w)) ++
  castleMoves p k ++
  ((squaresOf (pcBB b (pc w 5))).flatMap fun sq =>
    let m := knightAttacks sq &&& ~~~colorBB b w
    let m := if (discovered &&& sqBit sq) == 0 then m &&& (enemy ||| kKnightAtk) else m
    addMovesByMask sq m) ++
  (if w then
    let pawnAll := discovered ||| maskRow7
    let m1 := ((pawns &&& pawnAll) <<< 8) &&& ~~~occ
    let m2 := ((pawns &&& ~~~pawnAll) <<< 8) &&& ~~~occ
    addPawnMovesQN w ((pawns <<< 7) &&& maskAToGFiles &&& capT) (-7) ++
    addPawnMovesQN w ((pawns <<< 9) &&& maskBToHFiles &&& capT) (-9) ++
    addPawnMovesQN w m1 (-8) ++
    addPawnDoubleMovesByMask (((m1 &&& maskRow3) <<< 8) &&& ~~~occ) (-16) ++
    addPawnMovesQN w (m2 &&& bPawnAttacks ok) (-8) ++
    addPawnDoubleMovesByMask ((((m2 &&& maskRow3) <<< 8) &&& ~~~occ) &&& bPawnAttacks ok) (-16)
   else
    let pawnAll := discovered ||| maskRow2
    let m1 := ((pawns &&& pawnAll) >>> 8) &&& ~~~occ
    let m2 := ((pawns &&& ~~~pawnAll) >>> 8) &&& ~~~occ
    addPawnMovesQN w ((pawns >>> 9) &&& maskAToGFiles &&& capT) 9 ++
    addPawnMovesQN w ((pawns >>> 7) &&& maskBToHFiles &&& capT) 7 ++
    addPawnMovesQN w m1 8 ++
    addPawnDoubleMovesByMask (((m1 &&& maskRow6) >>> 8) &&& ~~~occ) 16 ++
    addPawnMovesQN w (m2 &&& wPawnAttacks ok) 8 ++
    addPawnDoubleMovesByMask ((((m2 &&& maskRow6) >>> 8) &&& ~~~occ) &&& wPawnAttacks ok) 16)

/-! ## hypotheses of the `givesCheck` / captures-and-checks theorems as a Boolean -/

/-- `GcWF` (`TexelGenGives.lean`) evaluated by the driver on every tested position: piece codes 0..12, the opponent's king
    on `ok` and nowhere else, the opponent is not in check, the en-passant square (if any) is empty, on the mover's sixth
    rank, with the double-stepped pawn behind it -/
def gcWFb (p : Pos) (ok : Sq) : Bool :=
  (allSq.all fun s => p.b[s] ≤ 12) &&
  (p.b[ok] == (if (!p.wtm) then WKING else BKING)) &&
  (allSq.all fun s => !(p.b[s] == (if (!p.wtm) then WKING else BKING)) || s == ok) &&
  !Chess.inCheck p.b (!p.wtm) &&
  (match p.ep with
   | some e => p.b.getD e.val 0 == 0 &&
       p.b.getD (if p.wtm then e.val - 8 else e.val + 8) 0 == (if p.wtm then BPAWN else WPAWN) &&
       e.y == (if p.wtm then 5 else 2)
   | none => true)

end Chess.Texel
