import TexelVerif.Chess.Fen
/-!
# C02 (FEN part): writing a position as FEN and reading it back gives the same position

Main result (fully proved, no `sorry`, axioms `propext`, `Classical.choice`, `Quot.sound` only):

    theorem readFEN_toFEN (p : Pos) (h : WFfen p) : readFEN (toFEN p) = .ok p

`WFfen p` describes the normal forms of the reader (`TextIO::readFEN`, textio.cpp:34-190): piece codes ≤ 12, no pawn
on ranks 1/8, exactly one king per side, the side not to move is not in check, castling bits < 16 and only with king
and rook at home, the e.p. square plausible (right rank, empty, enemy pawn behind it) and kept by `fixupEP`,
both counters < 65536 (the repaired reader clamps to 0..65535).  `WFfen` is decidable.

Component lemmas (each usable on its own by the differential check):
* (a) castling field  — `parseCastle_castleToString`
* (b) e.p. field      — `sqName_parse` (from `ep_fin`, `sqName_toList`), `epField_dash`, `epField_sq`
* (c) counters        — `stoi_toString`, `stoi_toString_int`, `stoi_toDigits` (all `n < 2^31`, general, not bounded)
* (d) placement field — `rowToFEN_toList`, `placement_toList`, `parseRow`, `parsePlacement_placeChars`
* (e) assembly        — `toFEN_toList`, `readFENRaw_eq`, `fenReadRest_words`, `castleFix_id`, `fenFinish_ok`,
                        `readFENRaw_toFEN`, `readFEN_toFEN`
* anchors             — `readFEN_toFEN_start`, `readFEN_toFEN_ep`, `readFEN_toFEN_castle_direct` (kernel computation)

General forms for positions whose e.p. flag is not yet normalised (`WFfenPre` = `WFfen` without `epLegal`):
`readFEN_toFEN_general`, `fixupEP_counters`, `readFEN_toFEN_fixup : readFEN (toFEN p) = .ok (fixupEP p)`.

Not proved here (not needed for the round trip): the converse `readFEN s = .ok p → WFfen p` (the reader only
produces normal forms), and nothing is said about FEN strings not produced by the writer.
-/
namespace Chess


/-- `Except` has no `DecidableEq` instance in core; needed for `decide` on reader results -/
instance fenRTDecEqExcept {ε α} [DecidableEq ε] [DecidableEq α] : DecidableEq (Except ε α) := fun a b =>
  match a, b with
  | .ok x, .ok y => if h : x = y then isTrue (by rw [h]) else isFalse (by intro h'; cases h'; exact h rfl)
  | .error x, .error y => if h : x = y then isTrue (by rw [h]) else isFalse (by intro h'; cases h'; exact h rfl)
  | .ok _, .error _ => isFalse (by intro h; cases h)
  | .error _, .ok _ => isFalse (by intro h; cases h)

/-! ## (a) castling field -/

/-- all 16 castling masks: the written field parses back, is non-empty and contains no space -/
theorem castle_fin : ∀ m : Fin 16,
    parseCastle (castleToString (UInt8.ofNat m.val)).toList 0 = .ok (UInt8.ofNat m.val) ∧
    (castleToString (UInt8.ofNat m.val)).toList ≠ [] ∧
    (castleToString (UInt8.ofNat m.val)).toList.all (fun c => c != ' ') = true := by
  decide

/-- **(a)** castling field round trip: `castleToString` followed by `parseCastle` is the identity on masks < 16 -/
theorem parseCastle_castleToString (m : UInt8) (h : m < 16) :
    parseCastle (castleToString m).toList 0 = .ok m := by
  have h' : m.toNat < 16 := by simpa using UInt8.lt_iff_toNat_lt.mp h
  have := (castle_fin ⟨m.toNat, h'⟩).1
  simpa using this

/-! ## (b) en-passant field -/

/-- all 64 squares: the two characters of `sqName e` decode (as in `readFENRaw`) to `e`; they are neither `-` nor a space -/
theorem ep_fin : ∀ e : Sq,
    mkSq? (((Char.ofNat ('a'.toNat + e.x)).toNat : Int) - ('a'.toNat : Int))
          (((Char.ofNat ('1'.toNat + e.y)).toNat : Int) - ('1'.toNat : Int)) = some e ∧
    Char.ofNat ('a'.toNat + e.x) ≠ '-' ∧ Char.ofNat ('a'.toNat + e.x) ≠ ' ' ∧ Char.ofNat ('1'.toNat + e.y) ≠ ' ' := by
  decide

/-- the writer's square name is exactly the file letter followed by the rank digit -/
theorem sqName_toList (e : Sq) : (sqName e).toList = [Char.ofNat ('a'.toNat + e.x), Char.ofNat ('1'.toNat + e.y)] := by
  simp [sqName]


/-- **(b)** e.p. field round trip: the two characters of `sqName e` parse back to `e` with `mkSq?` as in `readFENRaw` -/
theorem sqName_parse (e : Sq) : ∃ c0 c1, (sqName e).toList = [c0, c1] ∧
    mkSq? ((c0.toNat : Int) - ('a'.toNat : Int)) ((c1.toNat : Int) - ('1'.toNat : Int)) = some e :=
  ⟨_, _, sqName_toList e, (ep_fin e).1⟩

private theorem isDigit_bounds (c : Char) (h : c.isDigit = true) : 48 ≤ c.toNat ∧ c.toNat ≤ 57 := by
  simp [Char.isDigit] at h
  have h1 := UInt32.le_iff_toNat_le.mp h.1
  have h2 := UInt32.le_iff_toNat_le.mp h.2
  simp at h1 h2
  exact ⟨h1, h2⟩

private theorem foldl_eq_ofDigitChars (ds : List Char) (init : Nat) :
    ds.foldl (fun a c => a * 10 + (c.toNat - '0'.toNat)) init = Nat.ofDigitChars 10 ds init := by
  rw [Nat.ofDigitChars_eq_foldl]
  congr 1
  funext a c
  rw [Nat.mul_comm]

private theorem takeWhile_all {α} (p : α → Bool) : ∀ (l : List α), (∀ x ∈ l, p x = true) → l.takeWhile p = l
  | [], _ => rfl
  | a :: l, h => by
    rw [List.takeWhile_cons_of_pos (h a (by simp)), takeWhile_all p l (fun x hx => h x (by simp [hx]))]

/-! ## (c) counters -/

/-- `stoi` on a non-empty all-digit word whose value fits in `int` returns that value -/
theorem stoi_digits (ds : List Char) (hne : ds ≠ []) (hall : ∀ c ∈ ds, c.isDigit = true)
    (hr : Nat.ofDigitChars 10 ds 0 < 2 ^ 31) : stoi ds = some (Nat.ofDigitChars 10 ds 0 : Int) := by
  match ds, hne with
  | d :: t, _ =>
    have hd := isDigit_bounds d (hall d (by simp))
    have hd5 : d ≠ '-' := by intro hh; subst hh; simp at hd
    have hd6 : d ≠ '+' := by intro hh; subst hh; simp at hd
    have hws : ¬ ((d == ' ' || d == '\t' || d == '\n' || d == '\r' || d.toNat == 11 || d.toNat == 12) = true) := by
      simp only [Bool.or_eq_true, beq_iff_eq, not_or]
      refine ⟨⟨⟨⟨⟨?_, ?_⟩, ?_⟩, ?_⟩, ?_⟩, ?_⟩ <;> (try (intro hh; subst hh; simp at hd)) <;> omega
    have htw : List.takeWhile Char.isDigit (d :: t) = d :: t := takeWhile_all _ _ hall
    unfold stoi
    simp only []
    have hdw : List.dropWhile (fun c : Char => c == ' ' || c == '\t' || c == '\n' || c == '\r' || c.toNat == 11 || c.toNat == 12)
        (d :: t) = d :: t := List.dropWhile_cons_of_neg hws
    rw [hdw]
    split
    · rename_i heq; simp at heq; exact absurd heq.1 hd5
    · rename_i heq; simp at heq; exact absurd heq.1 hd6
    · simp only [htw, foldl_eq_ofDigitChars]
      simp
      omega

/-- **(c)** `stoi` inverts decimal printing for every `n < 2^31` (no bound on the number of digits) -/
theorem stoi_toDigits (n : Nat) (h : n < 2 ^ 31) : stoi (Nat.toDigits 10 n) = some (n : Int) := by
  have := stoi_digits (Nat.toDigits 10 n) Nat.toDigits_ne_nil
    (fun c hc => Nat.isDigit_of_mem_toDigits (by decide) (by decide) hc) (by simpa using h)
  simpa using this

/-- **(c)** counters round trip, `Nat` printing -/
theorem stoi_toString (n : Nat) (h : n < 2 ^ 31) : stoi (toString n).toList = some (n : Int) := by
  simpa using stoi_toDigits n h

/-- **(c)** counters round trip, as used by `toFENWith` (the counters are printed as `Int`) -/
theorem stoi_toString_int (n : Nat) (h : n < 2 ^ 31) : stoi (toString (n : Int)).toList = some (n : Int) := by
  have : toString (n : Int) = toString n := rfl
  rw [this]; exact stoi_toString n h



/-! ## (d) piece-placement field: the writer -/

/-- the pending run of empty squares, as printed by the writer -/
def tailDigits (e : Nat) : List Char := if 0 < e then Nat.toDigits 10 e else []

/-- structurally recursive description of the writer's row loop: `n` columns left, at column `c`, `e` empty squares pending -/
def rowChars (b : Board) (r : Nat) : Nat → Nat → Nat → List Char
  | 0, _, e => tailDigits e
  | n + 1, c, e =>
    if b.getD (r * 8 + c) 0 = 0 then rowChars b r n (c + 1) (e + 1)
    else tailDigits e ++ charOfPc (b.getD (r * 8 + c) 0) :: rowChars b r n (c + 1) 0

/-- the body of the `for c in [0:8]` loop of `rowToFEN` (state: output so far, pending empties) -/
def rowBody (b : Board) (r : Nat) (c : Nat) (s : String × Nat) : Id (ForInStep (String × Nat)) :=
  if Vector.getD b (r * 8 + c) 0 = 0 then pure (ForInStep.yield (s.fst, s.snd + 1))
  else if 0 < s.snd then
    pure (ForInStep.yield ((s.fst ++ s.snd.repr).push (charOfPc (Vector.getD b (r * 8 + c) 0)), 0))
  else pure (ForInStep.yield (s.fst.push (charOfPc (Vector.getD b (r * 8 + c) 0)), s.snd))

/-- loop invariant of `rowToFEN`: running the loop from column `c` appends `rowChars b r n c e` -/
theorem rowLoop (b : Board) (r : Nat) : ∀ (n c e : Nat) (out : String),
    (forIn (List.range' c n) (out, e) (rowBody b r)).run.1.toList ++
      tailDigits (forIn (List.range' c n) (out, e) (rowBody b r)).run.2 = out.toList ++ rowChars b r n c e := by
  intro n
  induction n with
  | zero => intro c e out; simp [rowChars]
  | succ n ih =>
    intro c e out
    simp only [List.range'_succ, List.forIn_cons]
    by_cases h0 : Vector.getD b (r * 8 + c) 0 = 0
    · simp only [rowBody, h0, if_true, rowChars]
      simpa using ih (c + 1) (e + 1) out
    · by_cases he : 0 < e
      · simp only [rowBody, h0, he, if_false, if_true, rowChars]
        have := ih (c + 1) 0 ((out ++ e.repr).push (charOfPc (Vector.getD b (r * 8 + c) 0)))
        have ht : tailDigits e = Nat.toDigits 10 e := by simp [tailDigits, he]
        simpa [String.toList_push, ht] using this
      · simp only [rowBody, h0, he, if_false, rowChars]
        have := ih (c + 1) e (out.push (charOfPc (Vector.getD b (r * 8 + c) 0)))
        have he0 : e = 0 := by omega
        subst he0
        have ht : tailDigits 0 = [] := by simp [tailDigits]
        simpa [String.toList_push, ht] using this

/-- `rowToFEN` as the explicit 8-iteration loop over `rowBody` -/
theorem rowToFEN_eq (b : Board) (r : Nat) : rowToFEN b r =
    if 0 < (forIn (List.range' 0 8) ("", 0) (rowBody b r)).run.2
    then (forIn (List.range' 0 8) ("", 0) (rowBody b r)).run.1 ++ (forIn (List.range' 0 8) ("", 0) (rowBody b r)).run.2.repr
    else (forIn (List.range' 0 8) ("", 0) (rowBody b r)).run.1 := by
  simp [rowToFEN]
  unfold rowBody
  split <;> rfl

/-- **(d, writer)** the characters of one written row -/
theorem rowToFEN_toList (b : Board) (r : Nat) : (rowToFEN b r).toList = rowChars b r 8 0 0 := by
  have := rowLoop b r 8 0 0 ""
  simp only [String.toList_empty, List.nil_append] at this
  rw [← this, rowToFEN_eq]
  generalize (forIn (List.range' 0 8) ("", 0) (rowBody b r)).run = res
  simp only [tailDigits]
  split <;> simp


/-! ## (d) piece-placement field: the reader -/

/-- a space ends the placement field (and is left in the input) -/
theorem parsePlacement_space (cs : List Char) (b : Board) (row : Int) (col : Nat) :
    parsePlacement (' ' :: cs) b row col = .ok (b, ' ' :: cs) := by
  simp [parsePlacement]

/-- `/` moves to the next lower row -/
theorem parsePlacement_slash (cs : List Char) (b : Board) (row : Int) (col : Nat) (h : 1 ≤ row) :
    parsePlacement ('/' :: cs) b row col = parsePlacement cs b (row - 1) 0 := by
  rw [parsePlacement]
  have : ¬ (row - 1 < 0) := by omega
  simp [this]

/-- a digit 1..8 (printed run of empties) advances the column -/
theorem parsePlacement_digit (e : Nat) (h1 : 1 ≤ e) (h8 : e ≤ 8) (cs : List Char) (b : Board) (row : Int) (col : Nat) :
    parsePlacement (Nat.toDigits 10 e ++ cs) b row col = parsePlacement cs b row (col + e) := by
  have : e = 1 ∨ e = 2 ∨ e = 3 ∨ e = 4 ∨ e = 5 ∨ e = 6 ∨ e = 7 ∨ e = 8 := by omega
  rcases this with h | h | h | h | h | h | h | h <;> subst h <;>
    (rw [show Nat.toDigits 10 _ = [_] from rfl, List.singleton_append, parsePlacement]; simp [Nat.digitChar])

private theorem pc_cases (pc : Pc) (h0 : pc ≠ 0) (h : pc ≤ 12) :
    pc = 1 ∨ pc = 2 ∨ pc = 3 ∨ pc = 4 ∨ pc = 5 ∨ pc = 6 ∨ pc = 7 ∨ pc = 8 ∨ pc = 9 ∨ pc = 10 ∨ pc = 11 ∨ pc = 12 := by
  have h' : pc.toNat ≤ 12 := by simpa using UInt8.le_iff_toNat_le.mp h
  have h0' : pc.toNat ≠ 0 := by intro hh; apply h0; exact UInt8.toNat_inj.mp (by simpa using hh)
  simp only [← UInt8.toNat_inj]
  simp
  omega

/-- a piece letter writes the piece and advances the column (`pcOfChar (charOfPc pc) = some pc` for 1 ≤ pc ≤ 12) -/
theorem parsePlacement_piece (pc : Pc) (h0 : pc ≠ 0) (h : pc ≤ 12) (cs : List Char) (b : Board) (row : Int) (col : Nat)
    (hc : col ≤ 7) (hp : (pc = WPAWN ∨ pc = BPAWN) → row ≠ 0 ∧ row ≠ 7) :
    parsePlacement (charOfPc pc :: cs) b row col = parsePlacement cs (setSq b (row.toNat * 8 + col) pc) row (col + 1) := by
  have hc' : ¬ col > 7 := by omega
  rcases pc_cases pc h0 h with h | h | h | h | h | h | h | h | h | h | h | h <;> subst h <;>
    (rw [parsePlacement]; simp [charOfPc, pcOfChar, hc', WPAWN, BPAWN] at hp ⊢ <;> omega)


/-- the board restricted to the squares the reader has visited when it stands at (row `r`, column `c`):
    rows above `r` completely, row `r` up to column `c`; zero elsewhere -/
def prefixB (b : Board) (r c : Nat) : Board :=
  Vector.ofFn fun i : Fin 64 => if r < i.val / 8 ∨ (i.val / 8 = r ∧ i.val % 8 < c) then b[i] else 0

theorem prefixB_skip (b : Board) (r c : Nat) (hc : c < 8) (hr : r < 8) (h0 : b.getD (r * 8 + c) 0 = 0) :
    prefixB b r (c + 1) = prefixB b r c := by
  have hlt : r * 8 + c < 64 := by omega
  have h0' : b[r * 8 + c] = 0 := by simpa [Vector.getD, hlt] using h0
  apply Vector.ext
  intro i hi
  simp only [prefixB, Vector.getElem_ofFn]
  by_cases hi' : i = r * 8 + c
  · subst hi'
    have h1 : (r * 8 + c) / 8 = r := by omega
    have h2 : (r * 8 + c) % 8 = c := by omega
    simp [h1, h2, h0']
  · have : (r < i / 8 ∨ (i / 8 = r ∧ i % 8 < c + 1)) ↔ (r < i / 8 ∨ (i / 8 = r ∧ i % 8 < c)) := by omega
    simp [this]

theorem prefixB_set (b : Board) (r c : Nat) (hc : c < 8) (hr : r < 8) :
    setSq (prefixB b r c) (r * 8 + c) (b.getD (r * 8 + c) 0) = prefixB b r (c + 1) := by
  have hlt : r * 8 + c < 64 := by omega
  apply Vector.ext
  intro i hi
  simp only [prefixB, setSq, Vector.getElem_setIfInBounds, Vector.getElem_ofFn]
  by_cases hi' : r * 8 + c = i
  · subst hi'
    have h1 : (r * 8 + c) / 8 = r := by omega
    have h2 : (r * 8 + c) % 8 = c := by omega
    simp [h1, h2, Vector.getD, hlt]
  · have : (r < i / 8 ∨ (i / 8 = r ∧ i % 8 < c + 1)) ↔ (r < i / 8 ∨ (i / 8 = r ∧ i % 8 < c)) := by omega
    simp [this, hi']

theorem prefixB_next (b : Board) (r : Nat) : prefixB b (r + 1) 8 = prefixB b r 0 := by
  apply Vector.ext
  intro i hi
  simp only [prefixB, Vector.getElem_ofFn]
  have : (r + 1 < i / 8 ∨ (i / 8 = r + 1 ∧ i % 8 < 8)) ↔ (r < i / 8 ∨ (i / 8 = r ∧ i % 8 < 0)) := by omega
  simp only [this]

theorem prefixB_start (b : Board) : prefixB b 7 0 = Vector.replicate 64 0 := by
  apply Vector.ext
  intro i hi
  simp only [prefixB, Vector.getElem_ofFn, Vector.getElem_replicate]
  have : ¬ (7 < i / 8 ∨ (i / 8 = 7 ∧ i % 8 < 0)) := by omega
  rw [if_neg this]

theorem prefixB_end (b : Board) : prefixB b 0 8 = b := by
  apply Vector.ext
  intro i hi
  simp only [prefixB, Vector.getElem_ofFn]
  have : (0 < i / 8 ∨ (i / 8 = 0 ∧ i % 8 < 8)) := by omega
  rw [if_pos this]
  rfl

private theorem tailDigits_zero : tailDigits 0 = [] := by simp [tailDigits]
private theorem tailDigits_pos (e : Nat) (h : 0 < e) : tailDigits e = Nat.toDigits 10 e := by simp [tailDigits, h]

/-- one row: the parser, started at column `c - e` (with `e` pending empty squares) on the board holding
    exactly the squares written so far, consumes `rowChars b r n c e` and ends at column 8 with the whole
    row `r` written -/
theorem parseRow (b : Board) (r : Nat) (hr : r < 8)
    (hcodes : ∀ c, c < 8 → b.getD (r * 8 + c) 0 ≤ 12)
    (hpawn : ∀ c, c < 8 → (r = 0 ∨ r = 7) → b.getD (r * 8 + c) 0 ≠ WPAWN ∧ b.getD (r * 8 + c) 0 ≠ BPAWN) :
    ∀ (n c e : Nat) (rest : List Char), c + n = 8 → e ≤ c →
      parsePlacement (rowChars b r n c e ++ rest) (prefixB b r c) (r : Int) (c - e) =
      parsePlacement rest (prefixB b r 8) (r : Int) 8 := by
  intro n
  induction n with
  | zero =>
    intro c e rest hc he
    have hc8 : c = 8 := by omega
    subst hc8
    simp only [rowChars]
    by_cases h0 : e = 0
    · subst h0; simp [tailDigits_zero]
    · rw [tailDigits_pos e (by omega), parsePlacement_digit e (by omega) (by omega)]
      congr 1; omega
  | succ n ih =>
    intro c e rest hc he
    have hc7 : c < 8 := by omega
    simp only [rowChars]
    by_cases h0 : b.getD (r * 8 + c) 0 = 0
    · rw [if_pos h0]
      have := ih (c + 1) (e + 1) rest (by omega) (by omega)
      rw [prefixB_skip b r c hc7 hr h0] at this
      rw [← this]; congr 1; omega
    · rw [if_neg h0]
      have hp : (b.getD (r * 8 + c) 0 = WPAWN ∨ b.getD (r * 8 + c) 0 = BPAWN) → (r : Int) ≠ 0 ∧ (r : Int) ≠ 7 := by
        intro hh
        have := hpawn c hc7
        constructor <;> (intro h; have := this (by omega); rcases hh with hh | hh <;> simp_all)
      have key : parsePlacement (charOfPc (b.getD (r * 8 + c) 0) :: (rowChars b r n (c + 1) 0 ++ rest)) (prefixB b r c) (r : Int) c =
          parsePlacement rest (prefixB b r 8) (r : Int) 8 := by
        rw [parsePlacement_piece _ h0 (hcodes c hc7) _ _ _ _ (by omega) hp]
        have := ih (c + 1) 0 rest (by omega) (by omega)
        rw [← this, Int.toNat_natCast, prefixB_set b r c hc7 hr]
        rfl
      by_cases he0 : e = 0
      · subst he0
        simpa [tailDigits_zero] using key
      · rw [tailDigits_pos e (by omega), List.append_assoc, parsePlacement_digit e (by omega) (by omega)]
        rw [show c - e + e = c by omega]
        simpa using key


/-- the writer's piece-placement field as a character list -/
def placeChars (b : Board) : List Char :=
  rowChars b 7 8 0 0 ++ '/' :: (rowChars b 6 8 0 0 ++ '/' :: (rowChars b 5 8 0 0 ++ '/' :: (rowChars b 4 8 0 0 ++
  '/' :: (rowChars b 3 8 0 0 ++ '/' :: (rowChars b 2 8 0 0 ++ '/' :: (rowChars b 1 8 0 0 ++ '/' :: rowChars b 0 8 0 0))))))


/-- **(d, writer)** the placement field written by `toFENWith` (8 rows joined by `/`) is `placeChars b` -/
theorem placement_toList (b : Board) :
    (String.intercalate "/" ([7, 6, 5, 4, 3, 2, 1, 0].map (rowToFEN b))).toList = placeChars b := by
  simp [placeChars, rowToFEN_toList]

/-- what the placement parser needs: codes ≤ 12 and no pawn on ranks 1 and 8 -/
def BoardOK (b : Board) : Prop :=
  (∀ s : Sq, b[s] ≤ 12) ∧ (∀ s : Sq, (s.y = 0 ∨ s.y = 7) → b[s] ≠ WPAWN ∧ b[s] ≠ BPAWN)

/-- **(d)** the placement parser, started on the empty board, reads the written placement field back to `b`
    and stops at the separating space, returning the rest of the input untouched -/
theorem parsePlacement_placeChars (b : Board) (hb : BoardOK b) (rest : List Char) :
    parsePlacement (placeChars b ++ ' ' :: rest) (Vector.replicate 64 0) 7 0 = .ok (b, ' ' :: rest) := by
  have hcodes : ∀ r, r < 8 → ∀ c, c < 8 → b.getD (r * 8 + c) 0 ≤ 12 := by
    intro r hr c hc
    have hlt : r * 8 + c < 64 := by omega
    simpa [Vector.getD, hlt] using hb.1 ⟨r * 8 + c, hlt⟩
  have hpawn : ∀ r, r < 8 → ∀ c, c < 8 → (r = 0 ∨ r = 7) → b.getD (r * 8 + c) 0 ≠ WPAWN ∧ b.getD (r * 8 + c) 0 ≠ BPAWN := by
    intro r hr c hc h07
    have hlt : r * 8 + c < 64 := by omega
    have := hb.2 ⟨r * 8 + c, hlt⟩ (by simp only [Sq.y]; omega)
    simpa [Vector.getD, hlt] using this
  have row := fun (r : Nat) (hr : r < 8) (rest : List Char) =>
    parseRow b r hr (hcodes r hr) (hpawn r hr) 8 0 0 rest (by omega) (by omega)
  simp only [placeChars, List.append_assoc, List.cons_append]
  rw [← prefixB_start b]
  have r7 : ∀ rest, parsePlacement (rowChars b 7 8 0 0 ++ rest) (prefixB b 7 0) 7 0 = parsePlacement rest (prefixB b 7 8) 7 8 := row 7 (by omega)
  have r6 : ∀ rest, parsePlacement (rowChars b 6 8 0 0 ++ rest) (prefixB b 6 0) 6 0 = parsePlacement rest (prefixB b 6 8) 6 8 := row 6 (by omega)
  have r5 : ∀ rest, parsePlacement (rowChars b 5 8 0 0 ++ rest) (prefixB b 5 0) 5 0 = parsePlacement rest (prefixB b 5 8) 5 8 := row 5 (by omega)
  have r4 : ∀ rest, parsePlacement (rowChars b 4 8 0 0 ++ rest) (prefixB b 4 0) 4 0 = parsePlacement rest (prefixB b 4 8) 4 8 := row 4 (by omega)
  have r3 : ∀ rest, parsePlacement (rowChars b 3 8 0 0 ++ rest) (prefixB b 3 0) 3 0 = parsePlacement rest (prefixB b 3 8) 3 8 := row 3 (by omega)
  have r2 : ∀ rest, parsePlacement (rowChars b 2 8 0 0 ++ rest) (prefixB b 2 0) 2 0 = parsePlacement rest (prefixB b 2 8) 2 8 := row 2 (by omega)
  have r1 : ∀ rest, parsePlacement (rowChars b 1 8 0 0 ++ rest) (prefixB b 1 0) 1 0 = parsePlacement rest (prefixB b 1 8) 1 8 := row 1 (by omega)
  have r0 : ∀ rest, parsePlacement (rowChars b 0 8 0 0 ++ rest) (prefixB b 0 0) 0 0 = parsePlacement rest (prefixB b 0 8) 0 8 := row 0 (by omega)
  rw [r7, parsePlacement_slash _ _ _ _ (by omega), prefixB_next]
  rw [show (7 : Int) - 1 = 6 from rfl, r6, parsePlacement_slash _ _ _ _ (by omega), prefixB_next]
  rw [show (6 : Int) - 1 = 5 from rfl, r5, parsePlacement_slash _ _ _ _ (by omega), prefixB_next]
  rw [show (5 : Int) - 1 = 4 from rfl, r4, parsePlacement_slash _ _ _ _ (by omega), prefixB_next]
  rw [show (4 : Int) - 1 = 3 from rfl, r3, parsePlacement_slash _ _ _ _ (by omega), prefixB_next]
  rw [show (3 : Int) - 1 = 2 from rfl, r2, parsePlacement_slash _ _ _ _ (by omega), prefixB_next]
  rw [show (2 : Int) - 1 = 1 from rfl, r1, parsePlacement_slash _ _ _ _ (by omega), prefixB_next]
  rw [show (1 : Int) - 1 = 0 from rfl, r0, parsePlacement_space, prefixB_end]


/-! ## (e) assembly: splitting the line into fields -/

theorem skipSpaces_ne (c : Char) (cs : List Char) (h : c ≠ ' ') : skipSpaces (c :: cs) = c :: cs := by
  unfold skipSpaces
  split
  · rename_i heq; simp at heq; exact absurd heq.1 h
  · rfl

theorem skipSpaces_space (cs : List Char) : skipSpaces (' ' :: cs) = skipSpaces cs := by
  rw [skipSpaces]

theorem skipSpaces_word (w r : List Char) (hne : w ≠ []) (h : ∀ c ∈ w, c ≠ ' ') : skipSpaces (' ' :: (w ++ r)) = w ++ r := by
  rw [skipSpaces_space]
  match w, hne with
  | c :: w', _ => exact skipSpaces_ne c _ (h c (by simp))

theorem takeWord_append (w r : List Char) (h : ∀ c ∈ w, c ≠ ' ') : takeWord (w ++ ' ' :: r) = (w, ' ' :: r) := by
  induction w with
  | nil => simp [takeWord]
  | cons c w ih =>
    have hc : c ≠ ' ' := h c (by simp)
    simp only [List.cons_append, takeWord, beq_iff_eq, hc, if_false]
    rw [ih (fun x hx => h x (by simp [hx]))]

theorem takeWord_end (w : List Char) (h : ∀ c ∈ w, c ≠ ' ') : takeWord w = (w, []) := by
  induction w with
  | nil => simp [takeWord]
  | cons c w ih =>
    have hc : c ≠ ' ' := h c (by simp)
    simp only [takeWord, beq_iff_eq, hc, if_false]
    rw [ih (fun x hx => h x (by simp [hx]))]

/-! ## (e) assembly: `readFENRaw` in stages (definitionally equal to the original, see `readFENRaw_eq`) -/

/-- the reader's castling-right clean-up (textio.cpp: rights whose king/rook left home are dropped) -/
def castleFix (b : Board) (cm : UInt8) : UInt8 :=
  let g (n : Nat) : Pc := b.getD n 0
  let cm := if g 4 != WKING || g 7 != WROOK then cm &&& ~~~(2 : UInt8) else cm
  let cm := if g 4 != WKING || g 0 != WROOK then cm &&& ~~~(1 : UInt8) else cm
  let cm := if g 60 != BKING || g 63 != BROOK then cm &&& ~~~(8 : UInt8) else cm
  let cm := if g 60 != BKING || g 56 != BROOK then cm &&& ~~~(4 : UInt8) else cm
  cm

/-- the e.p. field of `readFENRaw` (before `fixupEP`) as a function of the remaining input -/
def epField (b : Board) (wtm : Bool) (rest : List Char) : Except FenErr (Option Sq) :=
  let g (n : Nat) : Pc := b.getD n 0
  match rest with
  | [] => pure none
  | '-' :: _ => pure none
  | [_] => .error .invalidEp
  | c0 :: c1 :: _ =>
    let x : Int := (c0.toNat : Int) - ('a'.toNat : Int)
    let y : Int := (c1.toNat : Int) - ('1'.toNat : Int)
    match mkSq? x y with
    | none => pure none
    | some e =>
      if wtm then
        if e.y != 5 || b[e] != 0 || g (e.val - 8) != BPAWN then pure none else pure (some e)
      else
        if e.y != 2 || b[e] != 0 || g (e.val + 8) != WPAWN then pure none else pure (some e)

/-- a printed counter below the clamp bound is read back unchanged -/
theorem counterOfWord_toDigits (n : Nat) (h : n < 65536) (d : Int) : counterOfWord (Nat.toDigits 10 n) d = (n : Int) := by
  unfold counterOfWord
  rw [stoi_toDigits n (by omega)]
  simp only [clampCounter, maxMoveCounter]
  omega

/-- the tail of `readFENRaw`: king counts, king-capture test, `fixupEP` -/
def fenFinish (b : Board) (wtm : Bool) (cm : UInt8) (ep : Option Sq) (hmc fmc : Int) : Except FenErr RawPos :=
  if countPc b WKING != 1 then .error .whiteKings
  else if countPc b BKING != 1 then .error .blackKings
  else if inCheck b (!wtm) then .error .kingCapture
  else
    let p : Pos := fixupEP { b := b, wtm := wtm, castle := cm, ep := ep, hmc := 0, fmc := 1 }
    .ok { b := b, wtm := wtm, castle := cm, ep := p.ep, hmc := hmc, fmc := fmc }

/-- `readFENRaw` after the side-to-move character -/
def fenReadRest (b : Board) (sc : Char) (rest : List Char) : Except FenErr RawPos := do
  let wtm := sc == 'w'
  let rest := skipSpaces rest
  let (cw, rest) := takeWord rest
  let cm ← parseCastle cw 0
  let cm := castleFix b cm
  let rest := skipSpaces rest
  let (_, rest') := takeWord rest
  let ep ← epField b wtm rest
  let rest := skipSpaces rest'
  let (hw, rest) := takeWord rest
  let hmc : Int := if hw.isEmpty then 0 else counterOfWord hw 0
  let rest := skipSpaces rest
  let (fw, _) := takeWord rest
  let fmc : Int := if fw.isEmpty then 1 else counterOfWord fw 1
  fenFinish b wtm cm ep hmc fmc

/-- the staged reader is the original reader, by definitional unfolding -/
theorem readFENRaw_eq (fen : String) : readFENRaw fen =
    (parsePlacement fen.toList (Vector.replicate 64 0) 7 0).bind fun br =>
      match skipSpaces br.2 with
      | [] => .error .invalidSide
      | sc :: rest => fenReadRest br.1 sc rest := by
  rfl

/-- field splitting: on `" " cw " " epw " " hw " " fw` (non-empty words without spaces) the reader sees exactly these words -/
theorem fenReadRest_words (b : Board) (sc : Char) (cw epw hw fw : List Char)
    (hc0 : cw ≠ []) (hc : ∀ c ∈ cw, c ≠ ' ') (he0 : epw ≠ []) (he : ∀ c ∈ epw, c ≠ ' ')
    (hh0 : hw ≠ []) (hh : ∀ c ∈ hw, c ≠ ' ') (hf0 : fw ≠ []) (hf : ∀ c ∈ fw, c ≠ ' ') :
    fenReadRest b sc (' ' :: (cw ++ ' ' :: (epw ++ ' ' :: (hw ++ ' ' :: fw)))) =
      (parseCastle cw 0).bind fun cm =>
        (epField b (sc == 'w') (epw ++ ' ' :: (hw ++ ' ' :: fw))).bind fun ep =>
          fenFinish b (sc == 'w') (castleFix b cm) ep (counterOfWord hw 0) (counterOfWord fw 1) := by
  have hhe : hw.isEmpty = false := by cases hw <;> simp_all
  have hfe : fw.isEmpty = false := by cases fw <;> simp_all
  have h4 : skipSpaces (' ' :: fw) = fw := by simpa using skipSpaces_word fw [] hf0 hf
  simp only [fenReadRest, skipSpaces_word _ _ hc0 hc, takeWord_append _ _ hc, skipSpaces_word _ _ he0 he,
    takeWord_append _ _ he, skipSpaces_word _ _ hh0 hh, takeWord_append _ _ hh, h4, takeWord_end _ hf, hhe, hfe]
  rfl

/-- plausibility of the en-passant square as checked by the reader before `fixupEP` -/
def epPlausible (b : Board) (wtm : Bool) (e : Sq) : Prop :=
  if wtm then e.y = 5 ∧ b[e] = 0 ∧ b.getD (e.val - 8) 0 = BPAWN
  else e.y = 2 ∧ b[e] = 0 ∧ b.getD (e.val + 8) 0 = WPAWN

instance (b : Board) (wtm : Bool) (e : Sq) : Decidable (epPlausible b wtm e) := by
  unfold epPlausible; infer_instance

/-- the positions the FEN reader accepts and leaves unchanged (its normal forms) -/
structure WFfen (p : Pos) : Prop where
  codes : ∀ s : Sq, p.b[s] ≤ 12
  pawns : ∀ s : Sq, (s.y = 0 ∨ s.y = 7) → p.b[s] ≠ WPAWN ∧ p.b[s] ≠ BPAWN
  wking : countPc p.b WKING = 1
  bking : countPc p.b BKING = 1
  notInCheck : inCheck p.b (!p.wtm) = false
  castleLt : p.castle < 16
  castleK : p.castle &&& 2 ≠ 0 → p.b[4] = WKING ∧ p.b[7] = WROOK
  castleQ : p.castle &&& 1 ≠ 0 → p.b[4] = WKING ∧ p.b[0] = WROOK
  castlek : p.castle &&& 8 ≠ 0 → p.b[60] = BKING ∧ p.b[63] = BROOK
  castleq : p.castle &&& 4 ≠ 0 → p.b[60] = BKING ∧ p.b[56] = BROOK
  epOk : ∀ e : Sq, p.ep = some e → epPlausible p.b p.wtm e
  epLegal : (fixupEP { p with hmc := 0, fmc := 1 }).ep = p.ep
  hmcLt : p.hmc < 65536      -- the reader clamps counters to 0..65535 (repaired readFEN)
  fmcLt : p.fmc < 65536

instance (p : Pos) : Decidable (WFfen p) :=
  decidable_of_iff
    ((∀ s : Sq, p.b[s] ≤ 12) ∧ (∀ s : Sq, (s.y = 0 ∨ s.y = 7) → p.b[s] ≠ WPAWN ∧ p.b[s] ≠ BPAWN) ∧
     countPc p.b WKING = 1 ∧ countPc p.b BKING = 1 ∧ inCheck p.b (!p.wtm) = false ∧ p.castle < 16 ∧
     (p.castle &&& 2 ≠ 0 → p.b[4] = WKING ∧ p.b[7] = WROOK) ∧ (p.castle &&& 1 ≠ 0 → p.b[4] = WKING ∧ p.b[0] = WROOK) ∧
     (p.castle &&& 8 ≠ 0 → p.b[60] = BKING ∧ p.b[63] = BROOK) ∧ (p.castle &&& 4 ≠ 0 → p.b[60] = BKING ∧ p.b[56] = BROOK) ∧
     (∀ e : Sq, p.ep = some e → epPlausible p.b p.wtm e) ∧
     (fixupEP { p with hmc := 0, fmc := 1 }).ep = p.ep ∧ p.hmc < 65536 ∧ p.fmc < 65536)
    ⟨fun ⟨a, b, c, d, e, f, g, h, i, j, k, l, m, n⟩ => ⟨a, b, c, d, e, f, g, h, i, j, k, l, m, n⟩,
     fun w => ⟨w.codes, w.pawns, w.wking, w.bking, w.notInCheck, w.castleLt, w.castleK, w.castleQ, w.castlek,
               w.castleq, w.epOk, w.epLegal, w.hmcLt, w.fmcLt⟩⟩

private theorem mask_fin : ∀ m : Fin 16,
    ((UInt8.ofNat m.val) &&& 2 = 0 → (UInt8.ofNat m.val) &&& ~~~(2 : UInt8) = UInt8.ofNat m.val) ∧
    ((UInt8.ofNat m.val) &&& 1 = 0 → (UInt8.ofNat m.val) &&& ~~~(1 : UInt8) = UInt8.ofNat m.val) ∧
    ((UInt8.ofNat m.val) &&& 8 = 0 → (UInt8.ofNat m.val) &&& ~~~(8 : UInt8) = UInt8.ofNat m.val) ∧
    ((UInt8.ofNat m.val) &&& 4 = 0 → (UInt8.ofNat m.val) &&& ~~~(4 : UInt8) = UInt8.ofNat m.val) := by
  decide

private theorem mask_id (m : UInt8) (hm : m < 16) :
    (m &&& 2 = 0 → m &&& ~~~(2 : UInt8) = m) ∧ (m &&& 1 = 0 → m &&& ~~~(1 : UInt8) = m) ∧
    (m &&& 8 = 0 → m &&& ~~~(8 : UInt8) = m) ∧ (m &&& 4 = 0 → m &&& ~~~(4 : UInt8) = m) := by
  have h' : m.toNat < 16 := by simpa using UInt8.lt_iff_toNat_lt.mp hm
  have := mask_fin ⟨m.toNat, h'⟩
  simpa using this

/-- under `WFfen` the castling clean-up changes nothing -/
theorem castleFix_id (p : Pos) (w : WFfen p) : castleFix p.b p.castle = p.castle := by
  obtain ⟨m2, m1, m8, m4⟩ := mask_id p.castle w.castleLt
  have e2 : (if (p.b.getD 4 0 != WKING || p.b.getD 7 0 != WROOK) = true then p.castle &&& ~~~(2 : UInt8) else p.castle) = p.castle := by
    split
    · rename_i hc
      apply m2
      apply Classical.byContradiction
      intro hz
      have := w.castleK hz
      simp [Vector.getD, this] at hc
    · rfl
  have e1 : (if (p.b.getD 4 0 != WKING || p.b.getD 0 0 != WROOK) = true then p.castle &&& ~~~(1 : UInt8) else p.castle) = p.castle := by
    split
    · rename_i hc
      apply m1
      apply Classical.byContradiction
      intro hz
      have := w.castleQ hz
      simp [Vector.getD, this] at hc
    · rfl
  have e8 : (if (p.b.getD 60 0 != BKING || p.b.getD 63 0 != BROOK) = true then p.castle &&& ~~~(8 : UInt8) else p.castle) = p.castle := by
    split
    · rename_i hc
      apply m8
      apply Classical.byContradiction
      intro hz
      have := w.castlek hz
      simp [Vector.getD, this] at hc
    · rfl
  have e4 : (if (p.b.getD 60 0 != BKING || p.b.getD 56 0 != BROOK) = true then p.castle &&& ~~~(4 : UInt8) else p.castle) = p.castle := by
    split
    · rename_i hc
      apply m4
      apply Classical.byContradiction
      intro hz
      have := w.castleq hz
      simp [Vector.getD, this] at hc
    · rfl
  simp only [castleFix, e2, e1, e8, e4]

/-- **(b)** `-` reads as "no e.p. square" -/
theorem epField_dash (b : Board) (wtm : Bool) (r : List Char) : epField b wtm ('-' :: r) = .ok none := by
  simp [epField, pure, Except.pure]

/-- **(b)** the written name of a plausible e.p. square reads back as that square -/
theorem epField_sq (b : Board) (wtm : Bool) (e : Sq) (r : List Char) (h : epPlausible b wtm e) :
    epField b wtm (Char.ofNat ('a'.toNat + e.x) :: Char.ofNat ('1'.toNat + e.y) :: r) = .ok (some e) := by
  obtain ⟨hmk, hd, _, _⟩ := ep_fin e
  unfold epField
  split
  · rename_i heq; simp at heq
  · rename_i heq; simp at heq; exact absurd heq.1 hd
  · rename_i heq; simp at heq
  · rename_i c0 c1 tl heq
    simp only [List.cons.injEq] at heq
    obtain ⟨h0, h1, _⟩ := heq
    subst h0; subst h1
    simp only [hmk]
    unfold epPlausible at h
    cases wtm <;> simp_all [pure, Except.pure]

/-- under `WFfen` the final checks pass and `fixupEP` keeps the e.p. square -/
theorem fenFinish_ok (p : Pos) (w : WFfen p) (hmc fmc : Int) :
    fenFinish p.b p.wtm p.castle p.ep hmc fmc =
      .ok { b := p.b, wtm := p.wtm, castle := p.castle, ep := p.ep, hmc := hmc, fmc := fmc } := by
  have := w.epLegal
  simp only [fenFinish, w.wking, w.bking, w.notInCheck]
  simp [this]

/-- the writer's e.p. field as characters -/
def epChars : Option Sq → List Char
  | some e => [Char.ofNat ('a'.toNat + e.x), Char.ofNat ('1'.toNat + e.y)]
  | none => ['-']

/-- the writer's output as a character list -/
def fenChars (p : Pos) : List Char :=
  placeChars p.b ++ ' ' :: (if p.wtm then 'w' else 'b') :: ' ' :: ((castleToString p.castle).toList ++ ' ' ::
    (epChars p.ep ++ ' ' :: (Nat.toDigits 10 p.hmc ++ ' ' :: Nat.toDigits 10 p.fmc)))

/-- **(e, writer)** the complete FEN string as a character list -/
theorem toFEN_toList (p : Pos) : (toFEN p).toList = fenChars p := by
  have hs : (toString " " : String) = " " := rfl
  obtain ⟨b, wtm, castle, ep, hmc, fmc⟩ := p
  simp only [toFEN, toFENWith, fenChars, placeChars]
  cases ep <;> cases wtm <;>
    simp [String.toList_append, Int.repr, rowToFEN_toList, hs, epChars, sqName_toList]

/-- the castling word is non-empty and has no space -/
theorem castle_words (m : UInt8) (h : m < 16) :
    (castleToString m).toList ≠ [] ∧ ∀ c ∈ (castleToString m).toList, c ≠ ' ' := by
  have h' : m.toNat < 16 := by simpa using UInt8.lt_iff_toNat_lt.mp h
  have := (castle_fin ⟨m.toNat, h'⟩).2
  simp only [UInt8.ofNat_toNat] at this
  refine ⟨this.1, ?_⟩
  intro c hc
  have := List.all_eq_true.mp this.2 c hc
  simpa using this

/-- the e.p. word is non-empty and has no space -/
theorem epChars_words (ep : Option Sq) : epChars ep ≠ [] ∧ ∀ c ∈ epChars ep, c ≠ ' ' := by
  cases ep with
  | none => simp [epChars]
  | some e =>
    obtain ⟨_, _, h1, h2⟩ := ep_fin e
    refine ⟨by simp [epChars], ?_⟩
    intro c hc
    simp only [epChars, List.mem_cons, List.not_mem_nil, or_false] at hc
    rcases hc with rfl | rfl
    · exact h1
    · exact h2

/-- a printed number is non-empty and has no space -/
theorem digits_words (n : Nat) : Nat.toDigits 10 n ≠ [] ∧ ∀ c ∈ Nat.toDigits 10 n, c ≠ ' ' := by
  refine ⟨Nat.toDigits_ne_nil, ?_⟩
  intro c hc hh
  have := isDigit_bounds c (Nat.isDigit_of_mem_toDigits (by decide) (by decide) hc)
  subst hh
  simp at this

/-- the raw reader (counters still `Int`) inverts the writer on well-formed positions -/
theorem readFENRaw_toFEN (p : Pos) (w : WFfen p) :
    readFENRaw (toFEN p) =
      .ok { b := p.b, wtm := p.wtm, castle := p.castle, ep := p.ep, hmc := p.hmc, fmc := p.fmc } := by
  rw [readFENRaw_eq, toFEN_toList]
  unfold fenChars
  rw [parsePlacement_placeChars p.b ⟨w.codes, w.pawns⟩]
  have hside : (if p.wtm = true then 'w' else 'b') ≠ ' ' := by cases p.wtm <;> decide
  have hwtm : ((if p.wtm = true then 'w' else 'b') == 'w') = p.wtm := by cases p.wtm <;> decide
  simp only [Except.bind, skipSpaces_space, skipSpaces_ne _ _ hside]
  obtain ⟨c0, c1⟩ := castle_words p.castle w.castleLt
  obtain ⟨e0, e1⟩ := epChars_words p.ep
  obtain ⟨h0, h1⟩ := digits_words p.hmc
  obtain ⟨f0, f1⟩ := digits_words p.fmc
  rw [fenReadRest_words _ _ _ _ _ _ c0 c1 e0 e1 h0 h1 f0 f1, parseCastle_castleToString _ w.castleLt]
  simp only [Except.bind, hwtm, castleFix_id p w, counterOfWord_toDigits _ w.hmcLt, counterOfWord_toDigits _ w.fmcLt]
  have hep : epField p.b p.wtm (epChars p.ep ++ ' ' :: (Nat.toDigits 10 p.hmc ++ ' ' :: Nat.toDigits 10 p.fmc)) = .ok p.ep := by
    cases hpe : p.ep with
    | none => exact epField_dash _ _ _
    | some e => exact epField_sq _ _ _ _ (w.epOk e hpe)
  rw [hep]
  exact fenFinish_ok p w _ _

/-- **C02 (FEN part)**: a well-formed position written as FEN and read back is identical -/
theorem readFEN_toFEN (p : Pos) (h : WFfen p) : readFEN (toFEN p) = .ok p := by
  rw [readFEN, readFENRaw_toFEN p h]
  simp [Except.map, RawPos.toPos]

/-! ## Sanity anchors (kernel computation, no `native_decide`) -/

def fenStartPos : Pos :=
  { b := #v[3, 5, 4, 2, 1, 4, 5, 3,  6, 6, 6, 6, 6, 6, 6, 6,  0, 0, 0, 0, 0, 0, 0, 0,  0, 0, 0, 0, 0, 0, 0, 0,
            0, 0, 0, 0, 0, 0, 0, 0,  0, 0, 0, 0, 0, 0, 0, 0,  12, 12, 12, 12, 12, 12, 12, 12,  9, 11, 10, 8, 7, 10, 11, 9],
    wtm := true, castle := 15, ep := none, hmc := 0, fmc := 1 }

theorem readFEN_start : readFEN startFEN = .ok fenStartPos := by decide +kernel
theorem toFEN_start : toFEN fenStartPos = startFEN := by decide +kernel
theorem WFfen_start : WFfen fenStartPos := by decide +kernel

theorem readFEN_toFEN_start : ∃ p, readFEN startFEN = .ok p ∧ readFEN (toFEN p) = .ok p :=
  ⟨fenStartPos, readFEN_start, readFEN_toFEN _ WFfen_start⟩

/-- after 1.e4 … with a black pawn on d4: the en-passant square e3 is kept (a legal e.p. capture exists) -/
def fenEpPos : Pos :=
  { b := #v[3, 5, 4, 2, 1, 4, 5, 3,  6, 6, 6, 6, 0, 6, 6, 6,  0, 0, 0, 0, 0, 0, 0, 0,  0, 0, 0, 12, 6, 0, 0, 0,
            0, 0, 0, 0, 0, 0, 0, 0,  0, 0, 0, 0, 0, 0, 0, 0,  12, 12, 12, 0, 12, 12, 12, 12,  9, 11, 10, 8, 7, 10, 11, 9],
    wtm := false, castle := 15, ep := some 20, hmc := 0, fmc := 3 }

def epFEN : String := "rnbqkbnr/ppp1pppp/8/8/3pP3/8/PPPP1PPP/RNBQKBNR b KQkq e3 0 3"

theorem toFEN_ep : toFEN fenEpPos = epFEN := by decide +kernel
theorem WFfen_ep : WFfen fenEpPos := by decide +kernel
theorem readFEN_toFEN_ep : readFEN epFEN = .ok fenEpPos := by
  rw [← toFEN_ep]; exact readFEN_toFEN _ WFfen_ep

/-- partial castling rights and large counters -/
def fenCastlePos : Pos :=
  { b := #v[3, 0, 0, 0, 1, 0, 0, 3,  0, 0, 0, 0, 0, 0, 0, 0,  0, 0, 0, 0, 0, 0, 0, 0,  0, 0, 0, 0, 0, 0, 0, 0,
            0, 0, 0, 0, 0, 0, 0, 0,  0, 0, 0, 0, 0, 0, 0, 0,  0, 0, 0, 0, 0, 0, 0, 0,  9, 0, 0, 0, 7, 0, 0, 9],
    wtm := true, castle := 6, ep := none, hmc := 12, fmc := 34 }

theorem readFEN_toFEN_castle_direct :
    toFEN fenCastlePos = "r3k2r/8/8/8/8/8/8/R3K2R w Kq - 12 34" ∧ readFEN (toFEN fenCastlePos) = .ok fenCastlePos := by
  decide +kernel

/-! ## Positions whose e.p. flag has not been normalised (raw `Position::makeMove` output) -/

/-- `WFfen` without the requirement that the e.p. square survives `fixupEP` -/
structure WFfenPre (p : Pos) : Prop where
  codes : ∀ s : Sq, p.b[s] ≤ 12
  pawns : ∀ s : Sq, (s.y = 0 ∨ s.y = 7) → p.b[s] ≠ WPAWN ∧ p.b[s] ≠ BPAWN
  wking : countPc p.b WKING = 1
  bking : countPc p.b BKING = 1
  notInCheck : inCheck p.b (!p.wtm) = false
  castleLt : p.castle < 16
  castleK : p.castle &&& 2 ≠ 0 → p.b[4] = WKING ∧ p.b[7] = WROOK
  castleQ : p.castle &&& 1 ≠ 0 → p.b[4] = WKING ∧ p.b[0] = WROOK
  castlek : p.castle &&& 8 ≠ 0 → p.b[60] = BKING ∧ p.b[63] = BROOK
  castleq : p.castle &&& 4 ≠ 0 → p.b[60] = BKING ∧ p.b[56] = BROOK
  epOk : ∀ e : Sq, p.ep = some e → epPlausible p.b p.wtm e
  hmcLt : p.hmc < 65536      -- the reader clamps counters to 0..65535 (repaired readFEN)
  fmcLt : p.fmc < 65536

instance (p : Pos) : Decidable (WFfenPre p) :=
  decidable_of_iff
    ((∀ s : Sq, p.b[s] ≤ 12) ∧ (∀ s : Sq, (s.y = 0 ∨ s.y = 7) → p.b[s] ≠ WPAWN ∧ p.b[s] ≠ BPAWN) ∧
     countPc p.b WKING = 1 ∧ countPc p.b BKING = 1 ∧ inCheck p.b (!p.wtm) = false ∧ p.castle < 16 ∧
     (p.castle &&& 2 ≠ 0 → p.b[4] = WKING ∧ p.b[7] = WROOK) ∧ (p.castle &&& 1 ≠ 0 → p.b[4] = WKING ∧ p.b[0] = WROOK) ∧
     (p.castle &&& 8 ≠ 0 → p.b[60] = BKING ∧ p.b[63] = BROOK) ∧ (p.castle &&& 4 ≠ 0 → p.b[60] = BKING ∧ p.b[56] = BROOK) ∧
     (∀ e : Sq, p.ep = some e → epPlausible p.b p.wtm e) ∧ p.hmc < 65536 ∧ p.fmc < 65536)
    ⟨fun ⟨a, b, c, d, e, f, g, h, i, j, k, m, n⟩ => ⟨a, b, c, d, e, f, g, h, i, j, k, m, n⟩,
     fun w => ⟨w.codes, w.pawns, w.wking, w.bking, w.notInCheck, w.castleLt, w.castleK, w.castleQ, w.castlek,
               w.castleq, w.epOk, w.hmcLt, w.fmcLt⟩⟩

/-- `WFfen` is `WFfenPre` plus `epLegal` -/
theorem WFfen.toPre {p : Pos} (w : WFfen p) : WFfenPre p :=
  ⟨w.codes, w.pawns, w.wking, w.bking, w.notInCheck, w.castleLt, w.castleK, w.castleQ, w.castlek, w.castleq,
   w.epOk, w.hmcLt, w.fmcLt⟩

theorem WFfenPre.toWF {p : Pos} (w : WFfenPre p) (hl : (fixupEP { p with hmc := 0, fmc := 1 }).ep = p.ep) : WFfen p :=
  ⟨w.codes, w.pawns, w.wking, w.bking, w.notInCheck, w.castleLt, w.castleK, w.castleQ, w.castlek, w.castleq,
   w.epOk, hl, w.hmcLt, w.fmcLt⟩

theorem WFfen_iff_pre (p : Pos) : WFfen p ↔ WFfenPre p ∧ (fixupEP { p with hmc := 0, fmc := 1 }).ep = p.ep :=
  ⟨fun w => ⟨w.toPre, w.epLegal⟩, fun h => h.1.toWF h.2⟩

/-- dropping the e.p. flag of a pre-well-formed position gives a well-formed one (used to reuse `castleFix_id`) -/
theorem WFfenPre.clearEp {p : Pos} (w : WFfenPre p) : WFfen { p with ep := none } :=
  ⟨w.codes, w.pawns, w.wking, w.bking, w.notInCheck, w.castleLt, w.castleK, w.castleQ, w.castlek, w.castleq,
   (fun _ h => by cases h), rfl, w.hmcLt, w.fmcLt⟩

/-- under `WFfenPre` the final checks pass; the e.p. square is whatever `fixupEP` leaves -/
theorem fenFinish_general (p : Pos) (w : WFfenPre p) (hmc fmc : Int) :
    fenFinish p.b p.wtm p.castle p.ep hmc fmc =
      .ok { b := p.b, wtm := p.wtm, castle := p.castle, ep := (fixupEP { p with hmc := 0, fmc := 1 }).ep,
            hmc := hmc, fmc := fmc } := by
  simp only [fenFinish, w.wking, w.bking, w.notInCheck]
  simp

/-- the raw reader on the writer's output of a position with un-normalised e.p. flag -/
theorem readFENRaw_toFEN_general (p : Pos) (w : WFfenPre p) :
    readFENRaw (toFEN p) =
      .ok { b := p.b, wtm := p.wtm, castle := p.castle, ep := (fixupEP { p with hmc := 0, fmc := 1 }).ep,
            hmc := p.hmc, fmc := p.fmc } := by
  rw [readFENRaw_eq, toFEN_toList]
  unfold fenChars
  rw [parsePlacement_placeChars p.b ⟨w.codes, w.pawns⟩]
  have hside : (if p.wtm = true then 'w' else 'b') ≠ ' ' := by cases p.wtm <;> decide
  have hwtm : ((if p.wtm = true then 'w' else 'b') == 'w') = p.wtm := by cases p.wtm <;> decide
  simp only [Except.bind, skipSpaces_space, skipSpaces_ne _ _ hside]
  obtain ⟨c0, c1⟩ := castle_words p.castle w.castleLt
  obtain ⟨e0, e1⟩ := epChars_words p.ep
  obtain ⟨h0, h1⟩ := digits_words p.hmc
  obtain ⟨f0, f1⟩ := digits_words p.fmc
  have hcf : castleFix p.b p.castle = p.castle := castleFix_id { p with ep := none } w.clearEp
  rw [fenReadRest_words _ _ _ _ _ _ c0 c1 e0 e1 h0 h1 f0 f1, parseCastle_castleToString _ w.castleLt]
  simp only [Except.bind, hwtm, hcf, counterOfWord_toDigits _ w.hmcLt, counterOfWord_toDigits _ w.fmcLt]
  have hep : epField p.b p.wtm (epChars p.ep ++ ' ' :: (Nat.toDigits 10 p.hmc ++ ' ' :: Nat.toDigits 10 p.fmc)) = .ok p.ep := by
    cases hpe : p.ep with
    | none => exact epField_dash _ _ _
    | some e => exact epField_sq _ _ _ _ (w.epOk e hpe)
  rw [hep]
  exact fenFinish_general p w _ _

/-- **C02 (FEN part), general form**: a position with possibly un-normalised e.p. flag, written as FEN and read
    back, is the same position with the e.p. square normalised by the reader's fix-up -/
theorem readFEN_toFEN_general (p : Pos) (h : WFfenPre p) :
    readFEN (toFEN p) = .ok { p with ep := (fixupEP { p with hmc := 0, fmc := 1 }).ep } := by
  rw [readFEN, readFENRaw_toFEN_general p h]
  simp [Except.map, RawPos.toPos]

/-! ### the fix-up ignores the counters -/

theorem pseudo_counters (p : Pos) (a b : Nat) (m : Mv) : pseudo { p with hmc := a, fmc := b } m = pseudo p m := rfl

theorem apply_b_counters (p : Pos) (a b : Nat) (m : Mv) : (apply { p with hmc := a, fmc := b } m).b = (apply p m).b := rfl

theorem legalB_counters (p : Pos) (a b : Nat) (m : Mv) : legalB { p with hmc := a, fmc := b } m = legalB p m := by
  unfold legalB
  rw [pseudo_counters, apply_b_counters]

theorem genLegal_counters (p : Pos) (a b : Nat) : genLegal { p with hmc := a, fmc := b } = genLegal p := by
  unfold genLegal
  have : legalB { p with hmc := a, fmc := b } = legalB p := funext (legalB_counters p a b)
  rw [this]
  rfl

private theorem ite_ep (c : Prop) [i1 : Decidable c] [i2 : Decidable c] (x y x' y' : Pos)
    (hx : x.ep = x'.ep) (hy : y.ep = y'.ep) : (@ite _ c i1 x y).ep = (@ite _ c i2 x' y').ep := by
  cases i1 <;> cases i2 <;> simp_all

/-- `fixupEP` does not look at the half-move clock and the move counter -/
theorem fixupEP_counters (p : Pos) (a b : Nat) : (fixupEP { p with hmc := a, fmc := b }).ep = (fixupEP p).ep := by
  obtain ⟨bd, wtm, castle, ep, hmc, fmc⟩ := p
  cases ep with
  | none => rfl
  | some e =>
    simp only [fixupEP]
    rw [genLegal_counters ⟨bd, wtm, castle, some e, hmc, fmc⟩ a b]
    simp only [Pos.at]
    exact ite_ep _ _ _ _ _ rfl rfl

theorem fixupEP_eq (p : Pos) : fixupEP p = { p with ep := (fixupEP p).ep } := by
  obtain ⟨bd, wtm, castle, ep, hmc, fmc⟩ := p
  cases ep with
  | none => rfl
  | some e =>
    simp only [fixupEP]
    split <;> rfl

/-- **C02 (FEN part), fix-up form**: writing a position and reading it back applies exactly `fixupEP` -/
theorem readFEN_toFEN_fixup (p : Pos) (h : WFfenPre p) : readFEN (toFEN p) = .ok (fixupEP p) := by
  rw [readFEN_toFEN_general p h, fixupEP_counters p 0 1]
  exact congrArg Except.ok (fixupEP_eq p).symm

/-! ## converse direction: facts about every position the reader returns -/

/-- `fixupEP` keeps the e.p. square or clears it -/
theorem fixupEP_ep_cases (q : Pos) : (fixupEP q).ep = q.ep ∨ (fixupEP q).ep = none := by
  unfold fixupEP
  split
  · left; rfl
  · split
    · left; rfl
    · right; rfl

/-- what a successful `fenFinish` guarantees -/
theorem fenFinish_inv (b : Board) (wtm : Bool) (cm : UInt8) (ep : Option Sq) (hmc fmc : Int) (r : RawPos)
    (h : fenFinish b wtm cm ep hmc fmc = .ok r) :
    r.b = b ∧ r.wtm = wtm ∧ r.castle = cm ∧ (r.ep = ep ∨ r.ep = none) ∧ r.hmc = hmc ∧ r.fmc = fmc ∧
    countPc b WKING = 1 ∧ countPc b BKING = 1 ∧ inCheck b (!wtm) = false := by
  unfold fenFinish at h
  split at h
  · cases h
  · split at h
    · cases h
    · split at h
      · cases h
      · rename_i h1 h2 h3
        simp only [Except.ok.injEq] at h
        subst h
        refine ⟨rfl, rfl, rfl, ?_, rfl, rfl, ?_, ?_, ?_⟩
        · exact fixupEP_ep_cases { b := b, wtm := wtm, castle := cm, ep := ep, hmc := 0, fmc := 1 }
        · simpa using h1
        · simpa using h2
        · simpa using h3

/-- the e.p. field only ever yields a plausible square -/
theorem epField_plausible (b : Board) (wtm : Bool) (rest : List Char) (e : Sq)
    (h : epField b wtm rest = .ok (some e)) : epPlausible b wtm e := by
  unfold epField at h
  split at h
  · cases h
  · cases h
  · cases h
  · simp only [] at h
    split at h
    · cases h
    · rename_i e' _
      unfold epPlausible
      cases wtm
      · simp only [Bool.false_eq_true, if_false] at h ⊢
        split at h
        · cases h
        · rename_i hc
          have : e' = e := by simpa [pure, Except.pure] using h
          subst this
          simpa [and_assoc] using hc
      · simp only [if_true] at h ⊢
        split at h
        · cases h
        · rename_i hc
          have : e' = e := by simpa [pure, Except.pure] using h
          subst this
          simpa [and_assoc] using hc

private theorem and_bit_zero (x m bit : UInt8) (h : x &&& bit = 0) : (x &&& m) &&& bit = 0 := by
  rw [UInt8.and_assoc, UInt8.and_comm m bit, ← UInt8.and_assoc, h, UInt8.zero_and]

private theorem and_not_bit (x bit : UInt8) : (x &&& ~~~bit) &&& bit = 0 := by
  rw [UInt8.and_assoc]
  have : ~~~bit &&& bit = 0 := by
    apply UInt8.eq_of_toBitVec_eq
    simp
  rw [this, UInt8.and_zero]

private theorem ite_keep_zero (c : Bool) (x m bit : UInt8) (h : x &&& bit = 0) :
    (if c = true then x &&& m else x) &&& bit = 0 := by
  split
  · exact and_bit_zero x m bit h
  · exact h

private theorem ite_clear (c : Bool) (x bit : UInt8) (hc : c = true) :
    (if c = true then x &&& ~~~bit else x) &&& bit = 0 := by
  rw [if_pos hc]; exact and_not_bit x bit

/-- after the reader's clean-up every remaining castling right has king and rook at home (any input mask) -/
theorem castleFix_consistent (b : Board) (cm : UInt8) :
    (castleFix b cm &&& 2 ≠ 0 → b[4] = WKING ∧ b[7] = WROOK) ∧
    (castleFix b cm &&& 1 ≠ 0 → b[4] = WKING ∧ b[0] = WROOK) ∧
    (castleFix b cm &&& 8 ≠ 0 → b[60] = BKING ∧ b[63] = BROOK) ∧
    (castleFix b cm &&& 4 ≠ 0 → b[60] = BKING ∧ b[56] = BROOK) := by
  simp only [castleFix]
  refine ⟨?_, ?_, ?_, ?_⟩
  · intro h
    by_cases c : (b.getD 4 0 != WKING || b.getD 7 0 != WROOK) = true
    · exfalso; apply h
      exact ite_keep_zero _ _ _ _ (ite_keep_zero _ _ _ _ (ite_keep_zero _ _ _ _ (ite_clear _ _ _ c)))
    · simpa [Vector.getD] using c
  · intro h
    by_cases c : (b.getD 4 0 != WKING || b.getD 0 0 != WROOK) = true
    · exfalso; apply h
      exact ite_keep_zero _ _ _ _ (ite_keep_zero _ _ _ _ (ite_clear _ _ _ c))
    · simpa [Vector.getD] using c
  · intro h
    by_cases c : (b.getD 60 0 != BKING || b.getD 63 0 != BROOK) = true
    · exfalso; apply h
      exact ite_keep_zero _ _ _ _ (ite_clear _ _ _ c)
    · simpa [Vector.getD] using c
  · intro h
    by_cases c : (b.getD 60 0 != BKING || b.getD 56 0 != BROOK) = true
    · exfalso; apply h
      exact ite_clear _ _ _ c
    · simpa [Vector.getD] using c

/-- a successful `fenReadRest` went through `epField` and `fenFinish` with a cleaned-up castling mask -/
theorem fenReadRest_inv (b : Board) (sc : Char) (rest : List Char) (r : RawPos)
    (h : fenReadRest b sc rest = .ok r) :
    ∃ (cm : UInt8) (ep : Option Sq) (rest' : List Char) (hmc fmc : Int),
      epField b (sc == 'w') rest' = .ok ep ∧ fenFinish b (sc == 'w') (castleFix b cm) ep hmc fmc = .ok r := by
  simp only [fenReadRest, bind, Except.bind] at h
  split at h
  · cases h
  · split at h
    · cases h
    · exact ⟨_, _, _, _, _, by assumption, h⟩

/-- a successful `readFENRaw` went through `fenReadRest` on the parsed board -/
theorem readFENRaw_inv (s : String) (r : RawPos) (h : readFENRaw s = .ok r) :
    ∃ (b : Board) (sc : Char) (rest : List Char), fenReadRest b sc rest = .ok r := by
  rw [readFENRaw_eq] at h
  simp only [Except.bind] at h
  split at h
  · cases h
  · split at h
    · cases h
    · exact ⟨_, _, _, h⟩

/-- everything the reader guarantees about its (raw) result, collected -/
theorem readFENRaw_facts (s : String) (r : RawPos) (h : readFENRaw s = .ok r) :
    (∀ e : Sq, r.ep = some e → epPlausible r.b r.wtm e) ∧
    countPc r.b WKING = 1 ∧ countPc r.b BKING = 1 ∧ inCheck r.b (!r.wtm) = false ∧
    (r.castle &&& 2 ≠ 0 → r.b[4] = WKING ∧ r.b[7] = WROOK) ∧
    (r.castle &&& 1 ≠ 0 → r.b[4] = WKING ∧ r.b[0] = WROOK) ∧
    (r.castle &&& 8 ≠ 0 → r.b[60] = BKING ∧ r.b[63] = BROOK) ∧
    (r.castle &&& 4 ≠ 0 → r.b[60] = BKING ∧ r.b[56] = BROOK) := by
  obtain ⟨b, sc, rest, h1⟩ := readFENRaw_inv s r h
  obtain ⟨cm, ep, rest', hmc, fmc, hep, hfin⟩ := fenReadRest_inv b sc rest r h1
  obtain ⟨hb, hw, hc, hepr, _, _, hk1, hk2, hk3⟩ := fenFinish_inv _ _ _ _ _ _ _ hfin
  obtain ⟨c2, c1, c8, c4⟩ := castleFix_consistent b cm
  rw [hb, hw, hc]
  refine ⟨?_, hk1, hk2, hk3, c2, c1, c8, c4⟩
  intro e he
  rcases hepr with h' | h'
  · rw [h'] at he
    rw [he] at hep
    exact epField_plausible _ _ _ _ hep
  · rw [h'] at he; cases he

private theorem readFEN_raw (s : String) (p : Pos) (h : readFEN s = .ok p) :
    ∃ r : RawPos, readFENRaw s = .ok r ∧ r.toPos = p := by
  unfold readFEN at h
  cases hr : readFENRaw s with
  | error e => rw [hr] at h; cases h
  | ok r => rw [hr] at h; exact ⟨r, rfl, by simpa [Except.map] using h⟩

/-- **(1)** the reader only keeps an e.p. square that is on the right rank, empty, with the enemy pawn behind it -/
theorem readFEN_epPlausible (s : String) (p : Pos) (h : readFEN s = .ok p) :
    ∀ e : Sq, p.ep = some e → epPlausible p.b p.wtm e := by
  obtain ⟨r, hr, rfl⟩ := readFEN_raw s p h
  exact (readFENRaw_facts s r hr).1

/-- **(2a)** one king each, and the side not to move is not in check -/
theorem readFEN_kings (s : String) (p : Pos) (h : readFEN s = .ok p) :
    countPc p.b WKING = 1 ∧ countPc p.b BKING = 1 ∧ inCheck p.b (!p.wtm) = false := by
  obtain ⟨r, hr, rfl⟩ := readFEN_raw s p h
  obtain ⟨_, a, b, c, _⟩ := readFENRaw_facts s r hr
  exact ⟨a, b, c⟩

/-- **(2b)** every castling right returned by the reader has king and rook on their home squares -/
theorem readFEN_castle (s : String) (p : Pos) (h : readFEN s = .ok p) :
    (p.castle &&& 2 ≠ 0 → p.b[4] = WKING ∧ p.b[7] = WROOK) ∧
    (p.castle &&& 1 ≠ 0 → p.b[4] = WKING ∧ p.b[0] = WROOK) ∧
    (p.castle &&& 8 ≠ 0 → p.b[60] = BKING ∧ p.b[63] = BROOK) ∧
    (p.castle &&& 4 ≠ 0 → p.b[60] = BKING ∧ p.b[56] = BROOK) := by
  obtain ⟨r, hr, rfl⟩ := readFEN_raw s p h
  obtain ⟨_, _, _, _, c⟩ := readFENRaw_facts s r hr
  exact c

end Chess
