/-!
# Executable specification of the rules of chess (trusted text; written to be read)

Piece codes follow `piece.hpp`: 0 empty, 1..6 white K Q R B N P, 7..12 black K Q R B N P.
Squares are 0..63 with a1 = 0, b1 = 1, …, h8 = 63 (`square.hpp`).
The specification is a *Boolean predicate over candidate moves* (`legalB`); the legal move list is the filter
of all candidate (from, to, promotion) triples by that predicate, so `m ∈ genLegal p ↔ legalB p m` holds by
construction.  `apply` contains Texel's convention for the en-passant square (set only when an enemy pawn
stands beside the double-pushed pawn); `fixupEP` is the FEN reader's normalisation "keep the en-passant
square only if an en-passant capture is legal".
-/
namespace Chess

abbrev Sq := Fin 64
def Sq.x (s : Sq) : Nat := s.val % 8
def Sq.y (s : Sq) : Nat := s.val / 8

def mkSq? (x y : Int) : Option Sq :=
  if h : 0 ≤ x ∧ x < 8 ∧ 0 ≤ y ∧ y < 8 then some ⟨(y * 8 + x).toNat, by omega⟩ else none

abbrev Pc := UInt8
def EMPTY : Pc := 0
def WKING : Pc := 1
def WQUEEN : Pc := 2
def WROOK : Pc := 3
def WBISHOP : Pc := 4
def WKNIGHT : Pc := 5
def WPAWN : Pc := 6
def BKING : Pc := 7
def BQUEEN : Pc := 8
def BROOK : Pc := 9
def BBISHOP : Pc := 10
def BKNIGHT : Pc := 11
def BPAWN : Pc := 12

def isWhite (p : Pc) : Bool := 1 ≤ p && p ≤ 6
def isBlack (p : Pc) : Bool := 7 ≤ p && p ≤ 12
/-- 1 K, 2 Q, 3 R, 4 B, 5 N, 6 P (0 for empty) -/
def kind (p : Pc) : UInt8 := if p ≥ 7 then p - 6 else p
def own (w : Bool) (p : Pc) : Bool := if w then isWhite p else isBlack p

abbrev Board := Vector Pc 64

structure Pos where
  b : Board
  wtm : Bool
  castle : UInt8      -- bit 0 a1-rook (Q), bit 1 h1-rook (K), bit 2 a8-rook (q), bit 3 h8-rook (k)
  ep : Option Sq
  hmc : Nat           -- half-move clock
  fmc : Nat           -- full-move counter
deriving DecidableEq

def Pos.at (p : Pos) (s : Sq) : Pc := p.b[s]

structure Mv where
  f : Sq
  t : Sq
  promo : Pc          -- 0, or the piece code promoted to
deriving DecidableEq, Repr

/-- walking from (x, y) in direction (dx, dy): is `t` reached before the edge or an occupied square? -/
def rayGo (b : Board) (t : Sq) (dx dy : Int) : Nat → Int → Int → Bool
  | 0, _, _ => false
  | n + 1, x, y =>
    match mkSq? (x + dx) (y + dy) with
    | none => false
    | some q => if q == t then true else if b[q] != 0 then false else rayGo b t dx dy n (x + dx) (y + dy)

/-- `t` is reachable from `s` along (dx, dy) with all intermediate squares empty -/
def rayReach (b : Board) (s t : Sq) (dx dy : Int) : Bool := rayGo b t dx dy 7 s.x s.y

def rookDirs : List (Int × Int) := [(1,0), (-1,0), (0,1), (0,-1)]
def bishDirs : List (Int × Int) := [(1,1), (1,-1), (-1,1), (-1,-1)]
def dirs8 : List (Int × Int) := rookDirs ++ bishDirs

def dxy (s t : Sq) : Int × Int := ((t.x : Int) - s.x, (t.y : Int) - s.y)

/-- the piece standing on `s` attacks square `t` -/
def attacks (b : Board) (s t : Sq) : Bool :=
  let p := b[s]
  let d := dxy s t
  match kind p with
  | 1 => (d.1.natAbs ≤ 1 && d.2.natAbs ≤ 1) && !(d.1 == 0 && d.2 == 0)
  | 5 => (d.1.natAbs == 1 && d.2.natAbs == 2) || (d.1.natAbs == 2 && d.2.natAbs == 1)
  | 6 => d.1.natAbs == 1 && d.2 == (if isWhite p then 1 else -1)
  | 3 => rookDirs.any fun dd => rayReach b s t dd.1 dd.2
  | 4 => bishDirs.any fun dd => rayReach b s t dd.1 dd.2
  | 2 => dirs8.any fun dd => rayReach b s t dd.1 dd.2
  | _ => false

def allSq : List Sq := List.finRange 64

/-- square `t` is attacked by some piece of side `w` -/
def attackedBy (b : Board) (w : Bool) (t : Sq) : Bool :=
  allSq.any fun s => own w b[s] && attacks b s t

def kingSq (b : Board) (w : Bool) : Option Sq :=
  allSq.find? fun s => b[s] == (if w then WKING else BKING)

/-- the king of side `w` is attacked -/
def inCheck (b : Board) (w : Bool) : Bool :=
  match kingSq b w with
  | some k => attackedBy b (!w) k
  | none => false

def sq (n : Nat) (h : n < 64 := by decide) : Sq := ⟨n, h⟩

def isPromoPiece (w : Bool) (pr : Pc) : Bool :=
  own w pr && (kind pr == 2 || kind pr == 3 || kind pr == 4 || kind pr == 5)

/-- castling conditions for the side to move: right present, king and rook at home, squares between empty,
    king not in check, the square the king passes not attacked (the destination is covered by `legalB`) -/
def castleOk (p : Pos) (short : Bool) : Bool :=
  let w := p.wtm
  let home : Nat := if w then 4 else 60
  let bit : UInt8 := if w then (if short then 2 else 1) else (if short then 8 else 4)
  let rookPc : Pc := if w then WROOK else BROOK
  let kingPc : Pc := if w then WKING else BKING
  let pcAt (n : Nat) : Pc := p.b.getD n 0
  (p.castle &&& bit) != 0 && pcAt home == kingPc && !inCheck p.b w &&
  (if short then
     pcAt (home + 1) == 0 && pcAt (home + 2) == 0 && pcAt (home + 3) == rookPc &&
     !attackedBy p.b (!w) ⟨(home + 1) % 64, Nat.mod_lt _ (by decide)⟩
   else
     pcAt (home - 1) == 0 && pcAt (home - 2) == 0 && pcAt (home - 3) == 0 && pcAt (home - 4) == rookPc &&
     !attackedBy p.b (!w) ⟨(home - 1) % 64, Nat.mod_lt _ (by decide)⟩)

/-- promotion piece: required exactly when a pawn reaches the last rank -/
def promoOk (w : Bool) (m : Mv) : Bool :=
  if m.t.y == (if w then 7 else 0) then isPromoPiece w m.promo else m.promo == 0

/-- movement rules only (own king may be left in check) -/
def pseudo (p : Pos) (m : Mv) : Bool :=
  let pc := p.at m.f
  let tg := p.at m.t
  let w := p.wtm
  let d := dxy m.f m.t
  own w pc && !own w tg && m.f != m.t &&
  (match kind pc with
   | 6 =>
     let fwd : Int := if w then 1 else -1
     let startRank : Nat := if w then 1 else 6
     promoOk w m &&
     ( (d.1 == 0 && d.2 == fwd && tg == 0) ||
       (d.1 == 0 && d.2 == 2 * fwd && m.f.y == startRank && tg == 0 &&
          (match mkSq? m.f.x ((m.f.y : Int) + fwd) with | some q => p.at q == 0 | none => false)) ||
       (d.1.natAbs == 1 && d.2 == fwd && (tg != 0 || p.ep == some m.t)) )
   | 1 =>
     m.promo == 0 &&
     ( (d.1.natAbs ≤ 1 && d.2.natAbs ≤ 1) ||
       (d.2 == 0 && d.1 == 2 && m.f.val == (if w then 4 else 60) && castleOk p true) ||
       (d.2 == 0 && d.1 == -2 && m.f.val == (if w then 4 else 60) && castleOk p false) )
   | _ => m.promo == 0 && attacks p.b m.f m.t)

/-- castling rights kept after a move touching square `s` (`Position::castleSqMask`) -/
def castleKeep (s : Sq) : UInt8 :=
  match s.val with
  | 0 => 0b1110 | 4 => 0b1100 | 7 => 0b1101 | 56 => 0b1011 | 60 => 0b0011 | 63 => 0b0111 | _ => 0b1111

def setSq (b : Board) (n : Nat) (v : Pc) : Board := b.setIfInBounds n v

/-- play the (pseudo-legal) move -/
def apply (p : Pos) (m : Mv) : Pos :=
  let pc := p.at m.f
  let w := p.wtm
  let isPawn := kind pc == 6
  let isCapture := p.at m.t != 0
  let isEp := isPawn && p.ep == some m.t && !isCapture && m.f.x != m.t.x
  let b := p.b
  let b := if isEp then setSq b (if w then m.t.val - 8 else m.t.val + 8) 0 else b
  let b := setSq b m.f.val 0
  let b := setSq b m.t.val (if m.promo != 0 then m.promo else pc)
  let b :=
    if kind pc == 1 && m.t.val == m.f.val + 2 then setSq (setSq b (m.f.val + 3) 0) (m.f.val + 1) (if w then WROOK else BROOK)
    else if kind pc == 1 && m.t.val + 2 == m.f.val then setSq (setSq b (m.f.val - 4) 0) (m.f.val - 1) (if w then WROOK else BROOK)
    else b
  let ep : Option Sq :=
    if isPawn && (m.t.val == m.f.val + 16 || m.f.val == m.t.val + 16) then
      let enemyPawn : Pc := if w then BPAWN else WPAWN
      let adj := (m.t.x > 0 && b.getD (m.t.val - 1) 0 == enemyPawn) || (m.t.x < 7 && b.getD (m.t.val + 1) 0 == enemyPawn)
      if adj then some ⟨((m.f.val + m.t.val) / 2) % 64, Nat.mod_lt _ (by decide)⟩ else none
    else none
  { b := b, wtm := !w, castle := p.castle &&& castleKeep m.f &&& castleKeep m.t, ep := ep,
    hmc := if isPawn || isCapture then 0 else p.hmc + 1,
    fmc := if w then p.fmc else p.fmc + 1 }

/-- **the legality predicate**: the move obeys the movement rules and does not leave the mover's king attacked -/
def legalB (p : Pos) (m : Mv) : Bool := pseudo p m && !inCheck (apply p m).b p.wtm

def promos (w : Bool) : List Pc := if w then [0, 2, 3, 4, 5] else [0, 8, 9, 10, 11]

/-- every (from, to, promotion) triple whose from-square holds a piece of the side to move -/
def candidates (p : Pos) : List Mv :=
  (allSq.filter fun f => own p.wtm (p.at f)).flatMap fun f =>
    allSq.flatMap fun t => (promos p.wtm).map fun pr => { f := f, t := t, promo := pr }

/-- the legal moves of `p` -/
def genLegal (p : Pos) : List Mv := (candidates p).filter (legalB p)

def genPseudo (p : Pos) : List Mv := (candidates p).filter (pseudo p)

/-- the FEN reader's normalisation of the en-passant square: keep it only if some legal pawn move goes there -/
def fixupEP (p : Pos) : Pos :=
  match p.ep with
  | none => p
  | some e =>
    if (genLegal p).any fun m => m.t == e && kind (p.at m.f) == 6 then p else { p with ep := none }

/-- move classes used by the engine's specialised generators -/
def isCaptureMv (p : Pos) (m : Mv) : Bool :=
  p.at m.t != 0 || (kind (p.at m.f) == 6 && p.ep == some m.t && m.f.x != m.t.x)

def givesCheckSpec (p : Pos) (m : Mv) : Bool := inCheck (apply p m).b (!p.wtm)

def perft (p : Pos) : Nat → Nat
  | 0 => 1
  | n + 1 => (genLegal p).foldl (fun acc m => acc + perft (apply p m) n) 0

end Chess
