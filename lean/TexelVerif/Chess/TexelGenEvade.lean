import TexelVerif.Chess.TexelGenCaps
/-!
`MoveGen::checkEvasions` omits no legal move when the side to move is in check (`evasions_complete`).

The argument: a legal reply that is neither a king move nor an en-passant capture changes two squares only, so every
piece that gives check must be captured or — a slider — blocked on its ray by the destination square; two different
checking pieces cannot both be neutralised by one destination, hence there is exactly one (`kingThreats` has one
bit) and the destination lies in `kingThreats | squaresBetween(king, checker)`.
-/
namespace Chess.Texel
open PosImpl (BB getP getP_eq)

/-! ## single-bit facts (finite) -/

theorem single_bit_test : ∀ a : Sq, (sqBit a != 0 && (sqBit a &&& (sqBit a - 1)) == 0) = true := by decide +kernel
theorem head_single : ∀ a : Sq, (squaresOf (sqBit a)).head? = some a := by decide +kernel

/-! ## `squaresBetween` contains the squares strictly inside a segment -/

theorem foldl_mono (step : Nat → Nat → Nat) (hm : ∀ acc k i, acc.testBit i = true → (step acc k).testBit i = true)
    (l : List Nat) (init i : Nat) (h : init.testBit i = true) : (l.foldl step init).testBit i = true := by
  induction l generalizing init with
  | nil => exact h
  | cons a l ih => exact ih _ (hm _ _ _ h)

theorem foldl_hit (step : Nat → Nat → Nat) (hm : ∀ acc k i, acc.testBit i = true → (step acc k).testBit i = true)
    (l : List Nat) (init j q : Nat) (hj : j ∈ l) (hh : ∀ acc, (step acc j).testBit q = true) :
    (l.foldl step init).testBit q = true := by
  induction l generalizing init with
  | nil => cases hj
  | cons a l ih =>
    rcases List.mem_cons.1 hj with rfl | h
    · exact foldl_mono step hm l _ q (hh _)
    · exact ih _ h

theorem sgn_of_mul (n : Nat) (hn : 1 ≤ n) (dx : Int) (h1 : -1 ≤ dx) (h2 : dx ≤ 1) : sgn ((n : Int) * dx) = dx := by
  unfold sgn
  rcases dir_cases h1 h2 with rfl | rfl | rfl <;> simp <;> omega

/-- the squares strictly inside the segment from `k` to `a` are in `squaresBetween(k, a)` -/
theorem tst_between (k a t : Sq) (dx dy : Int) (hd : IsDir dx dy) (n j : Nat) (hj1 : 1 ≤ j) (hjn : j < n)
    (ha : stepSq k.x k.y dx dy n = some a) (ht : stepSq k.x k.y dx dy j = some t) : tst (betweenBB k a) t = true := by
  rw [stepSq_eq_some] at ha ht
  obtain ⟨a1, a2, a3, a4, a5⟩ := hd
  have hd1 : (dxy k a).1 = n * dx := by unfold dxy; simp only; omega
  have hd2 : (dxy k a).2 = n * dy := by unfold dxy; simp only; omega
  unfold tst betweenBB
  rw [BitVec.getLsbD_ofNat]
  simp only [t.isLt, decide_true, Bool.true_and]
  unfold between
  simp only [hd1, hd2, sgn_of_mul n (by omega) dx a1 a2, sgn_of_mul n (by omega) dy a3 a4]
  have hcond : (((n : Int) * dx == 0 && (n : Int) * dy == 0) ||
      !((n : Int) * dx == 0 || (n : Int) * dy == 0 || ((n : Int) * dx).natAbs == ((n : Int) * dy).natAbs)) = false := by
    rcases dir_cases a1 a2 with rfl | rfl | rfl <;> rcases dir_cases a3 a4 with rfl | rfl | rfl <;> simp <;> omega
  have hmax : max ((n : Int) * dx).natAbs ((n : Int) * dy).natAbs = n := by
    rcases dir_cases a1 a2 with rfl | rfl | rfl <;> rcases dir_cases a3 a4 with rfl | rfl | rfl <;> simp <;> omega
  rw [hcond, hmax]
  simp only [Bool.false_eq_true, if_false]
  apply foldl_hit _ _ _ _ j t.val (List.mem_range.2 hjn)
  · intro acc
    have hj0 : (j == 0) = false := by simp; omega
    rw [hj0]
    simp only [Bool.false_eq_true, if_false]
    have : mkSq? ((k.x : Int) + dx * (j : Int)) ((k.y : Int) + dy * (j : Int)) = some t := by
      rw [mkSq?_eq_some, Int.mul_comm dx, Int.mul_comm dy]; exact ht
    rw [this]
    simp only
    rw [Nat.testBit_or, Nat.one_shiftLeft, Nat.testBit_two_pow_self, Bool.or_true]
  · intro acc k' i h
    split
    · exact h
    · split
      · rw [Nat.testBit_or, h]; rfl
      · exact h

/-! ## pieces that give check -/

/-- `s` holds an enemy piece that attacks `k` -/
def Attacker (b : Board) (w : Bool) (k s : Sq) : Prop :=
  own (!w) b[s] = true ∧ atkFrom b[s] (occBB b) s k = true

theorem sqAttacked_iff_attacker (b : Board) (w : Bool) (k : Sq) :
    sqAttacked b w k (occBB b) = true ↔ ∃ s, Attacker b w k s := sqAttacked_iff b w k (occBB b)

/-- two occupied squares seen along one ray coincide (a ray ends at the first occupied square) -/
theorem ray_occ_unique (occ : BB) (k x y : Sq) (dx dy : Int) (hd : IsDir dx dy)
    (hx : tst (ray occ k dx dy) x = true) (hxo : tst occ x = true)
    (hy : tst (ray occ k dx dy) y = true) (hyo : tst occ y = true) : x = y := by
  rw [tst_ray_iff _ _ _ _ _ hd] at hx hy
  obtain ⟨n, hn⟩ := hx
  obtain ⟨m, hm⟩ := hy
  rcases Nat.lt_trichotomy n m with h | h | h
  · obtain ⟨q, hq, he⟩ := hm.2.2 n hn.1 h
    rw [hn.2.1] at hq; cases hq
    have he' : (!tst occ x) = true := he
    rw [hxo] at he'; cases he'
  · subst h
    have := hn.2.1; rw [hm.2.1] at this; exact (Option.some.inj this).symm
  · obtain ⟨q, hq, he⟩ := hn.2.2 m hm.1 h
    rw [hm.2.1] at hq; cases hq
    have he' : (!tst occ y) = true := he
    rw [hyo] at he'; cases he'

/-- a square seen along two rays from `k` lies on one ray: the rays are the same -/
theorem ray_dir_unique (occ : BB) (k t : Sq) (dx dy ex ey : Int) (hd : IsDir dx dy) (he : IsDir ex ey)
    (h1 : tst (ray occ k dx dy) t = true) (h2 : tst (ray occ k ex ey) t = true) : dx = ex ∧ dy = ey := by
  rw [tst_ray_iff _ _ _ _ _ hd] at h1
  rw [tst_ray_iff _ _ _ _ _ he] at h2
  obtain ⟨n, hn⟩ := h1
  obtain ⟨m, hm⟩ := h2
  obtain ⟨a, b, _⟩ := dir_unique _ _ _ _ _ _ hd he m n hm.1 hn.1 t hn.2.1 hm.2.1
  exact ⟨a, b⟩

namespace SimpleMove
variable {b b' : Board} {w : Bool} {f t : Sq}

/-- if the king is safe after the move, every checking piece was captured or its ray was blocked by the destination -/
theorem neutralised (h : SimpleMove b b' w f t) (hv : ValidB b) (hv' : ValidB b') (k s : Sq)
    (ha : Attacker b w k s) (hsafe : sqAttacked b' w k (occBB b') = false) :
    t = s ∨ ∃ dx dy, IsDir dx dy ∧ tst (ray (occBB b) k dx dy) s = true ∧ tst (ray (occBB b) k dx dy) t = true := by
  apply Classical.byContradiction
  intro hneg
  have hts : t ≠ s := fun e => hneg (Or.inl e)
  have hrays : ∀ dx dy, IsDir dx dy → tst (ray (occBB b) k dx dy) s = true → tst (ray (occBB b) k dx dy) t = false := by
    intro dx dy hd hs
    apply Bool.eq_false_iff.2
    intro ht
    exact hneg (Or.inr ⟨dx, dy, hd, hs, ht⟩)
  obtain ⟨hso, hatk⟩ := ha
  have h1 : s ≠ f := by intro e; subst e; rw [own_excl w _ h.own_f] at hso; cases hso
  have e := h.other s h1 (Ne.symm hts)
  have : sqAttacked b' w k (occBB b') = true := by
    rw [sqAttacked_iff]
    refine ⟨s, by rw [e]; exact hso, ?_⟩
    rw [e]
    apply atkFrom_transfer _ _ _ _ _ _ hatk
    intro dx dy hd hr
    exact h.ray_after_of_before hv hv' k s dx dy hd (hrays dx dy hd hr) hr
  rw [this] at hsafe; cases hsafe

end SimpleMove

theorem attacker_occ (b : Board) (hv : ValidB b) (w : Bool) (k s : Sq) (ha : Attacker b w k s) : tst (occBB b) s = true := by
  rw [tst_occBB b hv]; exact bne_iff_ne.2 (ne_zero_of_own _ _ ha.1)

/-- one destination square cannot neutralise two different checking pieces -/
theorem one_checker (b b' : Board) (w : Bool) (f t : Sq) (h : SimpleMove b b' w f t) (hv : ValidB b) (hv' : ValidB b')
    (k s1 s2 : Sq) (h1 : Attacker b w k s1) (h2 : Attacker b w k s2)
    (hsafe : sqAttacked b' w k (occBB b') = false) : s1 = s2 := by
  have o1 := attacker_occ b hv w k s1 h1
  have o2 := attacker_occ b hv w k s2 h2
  rcases h.neutralised hv hv' k s1 h1 hsafe with e1 | ⟨dx, dy, hd, r1, t1⟩
  · rcases h.neutralised hv hv' k s2 h2 hsafe with e2 | ⟨ex, ey, he, r2, t2⟩
    · exact e1.symm.trans e2
    · subst e1
      exact ray_occ_unique _ k t s2 ex ey he t2 o1 r2 o2
  · rcases h.neutralised hv hv' k s2 h2 hsafe with e2 | ⟨ex, ey, he, r2, t2⟩
    · subst e2
      exact ray_occ_unique _ k s1 t dx dy hd r1 o1 t1 o2
    · obtain ⟨a, c⟩ := ray_dir_unique _ k t dx dy ex ey hd he t1 t2
      subst a; subst c
      exact ray_occ_unique _ k s1 s2 dx dy hd r1 o1 r2 o2

/-! ## `kingThreats`, `validTargets` -/

theorem ite_or_and (x a y : BB) : (if (x != 0) = true then a ||| (x &&& y) else a) = a ||| (x &&& y) := by
  by_cases h : x = 0
  · subst h; simp
  · have : (x != 0) = true := bne_iff_ne.2 h
    rw [if_pos this]

/-- `kingThreats` is the set of checking pieces (given that the enemy king is not adjacent to `k`) -/
theorem tst_kingThreats (b : Board) (w : Bool) (k s : Sq) (hkk : ∀ q, b[q] = pc (!w) 1 → kingGeom k q = false) :
    tst (kingThreats b w k) s = true ↔ Attacker b w k s := by
  unfold kingThreats Attacker
  simp only [ite_or_and, pawnAtk_eq, tst_or, tst_and, tst_pcBB, knightAttacks, tst_bbSq, Bool.or_eq_true, Bool.and_eq_true,
    beq_pc2, beq_pc3, beq_pc4, beq_pc5, beq_pc6, beq_iff_eq]
  constructor
  · rintro (((⟨⟨h2, h3⟩, h1⟩ | ⟨(⟨h2, h3⟩ | ⟨h2, h3⟩), h1⟩) | ⟨(⟨h2, h3⟩ | ⟨h2, h3⟩), h1⟩) | ⟨⟨h2, h3⟩, h1⟩) <;>
      refine ⟨h2, ?_⟩ <;> unfold atkFrom <;> rw [h3]
    · exact h1
    · exact h1
    · simp only; rw [h1]; rfl
    · exact h1
    · simp only; rw [h1]; simp
    · simp only; rw [isWhite_of_own _ _ h2, Bool.not_not]; exact h1
  · rintro ⟨h2, h⟩
    unfold atkFrom at h
    split at h
    · rename_i hk
      have := hkk s ((pc_iff (!w) _ ⟨1, by decide⟩ (by decide)).2 ⟨h2, hk⟩)
      rw [this] at h; cases h
    · rename_i hk; exact Or.inl (Or.inl (Or.inl ⟨⟨h2, hk⟩, h⟩))
    · rename_i hk
      rw [isWhite_of_own _ _ h2, Bool.not_not] at h
      exact Or.inr ⟨⟨h2, hk⟩, h⟩
    · rename_i hk; exact Or.inl (Or.inl (Or.inr ⟨Or.inl ⟨h2, hk⟩, h⟩))
    · rename_i hk; exact Or.inl (Or.inr ⟨Or.inl ⟨h2, hk⟩, h⟩)
    · rename_i hk
      rcases Bool.or_eq_true _ _ ▸ h with h | h
      · exact Or.inl (Or.inl (Or.inr ⟨Or.inr ⟨h2, hk⟩, h⟩))
      · exact Or.inl (Or.inr ⟨Or.inr ⟨h2, hk⟩, h⟩)
    · cases h

/-- with exactly one checking piece `a`, `validTargets` is `a` and the squares between `a` and the king -/
theorem validTargets_single (b : Board) (w : Bool) (k a : Sq) (hkk : ∀ q, b[q] = pc (!w) 1 → kingGeom k q = false)
    (ha : Attacker b w k a) (huniq : ∀ s, Attacker b w k s → s = a) :
    validTargets b w k = sqBit a ||| betweenBB k a := by
  have hkt : kingThreats b w k = sqBit a := by
    apply bb_ext_sq
    intro s
    rw [tst_sqBit, Bool.eq_iff_iff, tst_kingThreats b w k s hkk, decide_eq_true_eq]
    exact ⟨huniq s, fun e => e ▸ ha⟩
  unfold validTargets
  simp only [hkt]
  rw [if_pos (single_bit_test a), head_single a]

/-- the destination that neutralises the only checking piece lies in `validTargets` -/
theorem neutraliser_valid (occ : BB) (k a t : Sq) (hao : tst occ a = true)
    (h : t = a ∨ ∃ dx dy, IsDir dx dy ∧ tst (ray occ k dx dy) a = true ∧ tst (ray occ k dx dy) t = true) :
    tst (sqBit a ||| betweenBB k a) t = true := by
  rw [tst_or, Bool.or_eq_true]
  rcases h with e | ⟨dx, dy, hd, ra, rt⟩
  · left; rw [e, tst_sqBit]; simp
  · rw [tst_ray_iff _ _ _ _ _ hd] at ra rt
    obtain ⟨n, hn⟩ := ra
    obtain ⟨j, hj⟩ := rt
    rcases Nat.lt_trichotomy j n with h | h | h
    · right; exact tst_between k a t dx dy hd n j hj.1 h hn.2.1 hj.2.1
    · subst h
      left
      have := hj.2.1; rw [hn.2.1] at this
      rw [← Option.some.inj this, tst_sqBit]; simp
    · exfalso
      obtain ⟨q, hq, he⟩ := hj.2.2 n hn.1 h
      rw [hn.2.1] at hq; cases hq
      have he' : (!tst occ a) = true := he
      rw [hao] at he'; cases he'

/-! ## pawn block of `checkEvasions` -/

theorem mem_evasionPawn_white (p : Pos) (hw : p.wtm = true) (hv : ValidB p.b) (V : BB) (m : Mv)
    (hb : p.b[m.f] = WPAWN) (hpr : promoCond true m)
    (hmv : (m.t.val = m.f.val + 8 ∧ p.b[m.t] = 0 ∧ tst V m.t = true) ∨
       (m.t.val = m.f.val + 16 ∧ m.f.val / 8 = 1 ∧ p.b[m.t] = 0 ∧ (∃ q : Sq, q.val = m.f.val + 8 ∧ p.b[q] = 0) ∧ tst V m.t = true) ∨
       ((m.t.val = m.f.val + 7 ∧ m.t.val % 8 ≤ 6 ∨ m.t.val = m.f.val + 9 ∧ 1 ≤ m.t.val % 8) ∧
          ((own false p.b[m.t] = true ∧ tst V m.t = true) ∨ p.ep = some m.t))) :
    m ∈ evasionPawnMoves p V := by
  have e8 : (tst (pcBB p.b WPAWN <<< 8) m.t = true ∧ m.f = sqOff m.t (-8)) ↔ (m.t.val = m.f.val + 8 ∧ p.b[m.f] = WPAWN) :=
    shl_from p.b WPAWN 8 m
  have e7 : (tst (pcBB p.b WPAWN <<< 7) m.t = true ∧ m.f = sqOff m.t (-7)) ↔ (m.t.val = m.f.val + 7 ∧ p.b[m.f] = WPAWN) :=
    shl_from p.b WPAWN 7 m
  have e9 : (tst (pcBB p.b WPAWN <<< 9) m.t = true ∧ m.f = sqOff m.t (-9)) ↔ (m.t.val = m.f.val + 9 ∧ p.b[m.f] = WPAWN) :=
    shl_from p.b WPAWN 9 m
  have hpc : pc true 6 = WPAWN := rfl
  have hft := m.f.isLt
  have htt := m.t.isLt
  unfold evasionPawnMoves
  unfold promoCond at hpr
  simp only [hw, if_true, List.mem_append, mem_addPawn, mem_addPawnDouble, hpc, Bool.not_true]
  simp only [tst_and, tst_not, tst_or, tst_colorBB, tst_epMask, tst_maskAToG, tst_maskBToH, Bool.and_eq_true,
    Bool.not_eq_true', Bool.or_eq_true, decide_eq_true_eq, occ_zero _ hv]
  rcases hmv with ⟨a, c, v⟩ | ⟨a, b, c, ⟨q, d, e⟩, v⟩ | ⟨(⟨a, b⟩ | ⟨a, b⟩), c⟩
  · obtain ⟨x, y⟩ := e8.2 ⟨a, hb⟩
    exact Or.inl (Or.inl (Or.inl ⟨⟨⟨x, c⟩, v⟩, y, hpr⟩))
  · refine Or.inl (Or.inl (Or.inr ⟨⟨⟨?_, c⟩, v⟩, ?_, ?_⟩))
    · rw [tst_shl]
      refine ⟨q, by omega, ?_⟩
      simp only [tst_and, tst_not, tst_maskRow3, Bool.and_eq_true, Bool.not_eq_true', decide_eq_true_eq, occ_zero _ hv]
      refine ⟨⟨?_, e⟩, by omega⟩
      rw [tst_shl]
      exact ⟨m.f, by omega, by rw [tst_pcBB, hb]; simp⟩
    · apply Fin.ext
      have hv16 := sqOff_val m.t (-16) (by omega)
      omega
    · have : tst maskRow1Row8 m.t = false := by rw [tst_maskRow18]; simp; omega
      rw [this] at hpr; simpa using hpr
  · obtain ⟨x, y⟩ := e7.2 ⟨a, hb⟩
    exact Or.inl (Or.inr ⟨⟨⟨x, b⟩, c⟩, y, hpr⟩)
  · obtain ⟨x, y⟩ := e9.2 ⟨a, hb⟩
    exact Or.inr ⟨⟨⟨x, b⟩, c⟩, y, hpr⟩

theorem mem_evasionPawn_black (p : Pos) (hw : p.wtm = false) (hv : ValidB p.b) (V : BB) (m : Mv)
    (hb : p.b[m.f] = BPAWN) (hpr : promoCond false m)
    (hmv : (m.t.val + 8 = m.f.val ∧ p.b[m.t] = 0 ∧ tst V m.t = true) ∨
       (m.t.val + 16 = m.f.val ∧ m.f.val / 8 = 6 ∧ p.b[m.t] = 0 ∧ (∃ q : Sq, q.val + 8 = m.f.val ∧ p.b[q] = 0) ∧ tst V m.t = true) ∨
       ((m.t.val + 9 = m.f.val ∧ m.t.val % 8 ≤ 6 ∨ m.t.val + 7 = m.f.val ∧ 1 ≤ m.t.val % 8) ∧
          ((own true p.b[m.t] = true ∧ tst V m.t = true) ∨ p.ep = some m.t))) :
    m ∈ evasionPawnMoves p V := by
  have e8 : (tst (pcBB p.b BPAWN >>> 8) m.t = true ∧ m.f = sqOff m.t 8) ↔ (m.f.val = m.t.val + 8 ∧ p.b[m.f] = BPAWN) :=
    shr_from p.b BPAWN 8 m
  have e7 : (tst (pcBB p.b BPAWN >>> 7) m.t = true ∧ m.f = sqOff m.t 7) ↔ (m.f.val = m.t.val + 7 ∧ p.b[m.f] = BPAWN) :=
    shr_from p.b BPAWN 7 m
  have e9 : (tst (pcBB p.b BPAWN >>> 9) m.t = true ∧ m.f = sqOff m.t 9) ↔ (m.f.val = m.t.val + 9 ∧ p.b[m.f] = BPAWN) :=
    shr_from p.b BPAWN 9 m
  have hpc : pc false 6 = BPAWN := rfl
  have hft := m.f.isLt
  have htt := m.t.isLt
  unfold evasionPawnMoves
  unfold promoCond at hpr
  simp only [hw, Bool.false_eq_true, if_false, List.mem_append, mem_addPawn, mem_addPawnDouble, hpc, Bool.not_false]
  simp only [tst_and, tst_not, tst_or, tst_colorBB, tst_epMask, tst_maskAToG, tst_maskBToH, Bool.and_eq_true,
    Bool.not_eq_true', Bool.or_eq_true, decide_eq_true_eq, occ_zero _ hv]
  rcases hmv with ⟨a, c, v⟩ | ⟨a, b, c, ⟨q, d, e⟩, v⟩ | ⟨(⟨a, b⟩ | ⟨a, b⟩), c⟩
  · obtain ⟨x, y⟩ := e8.2 ⟨by omega, hb⟩
    exact Or.inl (Or.inl (Or.inl ⟨⟨⟨x, c⟩, v⟩, y, hpr⟩))
  · have hqq := q.isLt
    refine Or.inl (Or.inl (Or.inr ⟨⟨⟨?_, c⟩, v⟩, ?_, ?_⟩))
    · rw [tst_shr]
      refine ⟨q, by omega, ?_⟩
      simp only [tst_and, tst_not, tst_maskRow6, Bool.and_eq_true, Bool.not_eq_true', decide_eq_true_eq, occ_zero _ hv]
      refine ⟨⟨?_, e⟩, by omega⟩
      rw [tst_shr]
      exact ⟨m.f, by omega, by rw [tst_pcBB, hb]; simp⟩
    · apply Fin.ext
      have hv16 := sqOff_val m.t 16 (by omega)
      omega
    · have : tst maskRow1Row8 m.t = false := by rw [tst_maskRow18]; simp; omega
      rw [this] at hpr; simpa using hpr
  · obtain ⟨x, y⟩ := e9.2 ⟨by omega, hb⟩
    exact Or.inl (Or.inr ⟨⟨⟨x, b⟩, c⟩, y, hpr⟩)
  · obtain ⟨x, y⟩ := e7.2 ⟨by omega, hb⟩
    exact Or.inr ⟨⟨⟨x, b⟩, c⟩, y, hpr⟩

/-! ## completeness of `checkEvasions` -/

theorem isEpS_facts (p : Pos) (m : Mv) (h : PosImpl.isEpS p m = true) :
    kind p.b[m.f] = 6 ∧ p.ep = some m.t ∧ m.f.x ≠ m.t.x := by
  unfold PosImpl.isEpS at h
  simp only [Bool.and_eq_true, beq_iff_eq, bne_iff_ne, ne_eq, getP_sq] at h
  exact ⟨h.1.1.1, h.1.1.2, h.2⟩

/-- **`MoveGen::checkEvasions` omits no legal move when the side to move is in check.**  Extra hypothesis: the enemy
    king does not stand next to the mover's king (true in every position where the side not to move is not in check;
    without it the specification lets a piece capture the "checking" king, which the code does not generate). -/
theorem evasions_complete (p : Pos) (k : Sq) (h : GenWF p k)
    (hkk : ∀ q, p.b[q] = pc (!p.wtm) 1 → kingGeom k q = false)
    (hchk : Chess.inCheck p.b p.wtm = true) (m : Mv) (hl : legalB p m = true) : m ∈ checkEvasions p k := by
  obtain ⟨hv, hk, hep⟩ := h
  have hl' := hl
  unfold legalB at hl'
  simp only [Bool.and_eq_true, Bool.not_eq_true'] at hl'
  obtain ⟨hp, hsafe⟩ := hl'
  have hv' := validB_apply p hv m hp
  have hchk0 := hchk
  rw [inCheck_of_kingAt _ hv _ k hk] at hchk
  unfold checkEvasions
  simp only [List.mem_append]
  by_cases hfk : m.f = k
  · -- king moves are not restricted
    have h1 : kind p.b[m.f] = 1 := by subst hfk; rw [hk.1]; exact kind_king _
    have hp' := hp
    rw [pseudo_king_iff p m h1] at hp'
    obtain ⟨_, ht, hne, hpr, hmv⟩ := hp'
    have hstep : (dxy m.f m.t).1.natAbs ≤ 1 ∧ (dxy m.f m.t).2.natAbs ≤ 1 := by
      rcases hmv with h | ⟨_, _, _, d⟩ | ⟨_, _, _, d⟩
      · exact h
      · have := castleOk_notInCheck p true d; rw [hchk0] at this; cases this
      · have := castleOk_notInCheck p false d; rw [hchk0] at this; cases this
    refine Or.inl (Or.inl (Or.inr ?_))
    rw [mem_kingStep]
    exact ⟨hfk, hpr, by rw [← hfk]; exact (kingGeom_iff' m.f m.t).2 ⟨hstep, hne⟩, ht⟩
  · have hnk : ¬ kind p.b[m.f] = 1 := fun h1 => hfk (hk.2 _ (king_of_kind _ _ (pseudo_own_f p m hp) h1))
    have key : PosImpl.isEpS p m = true ∨ tst (validTargets p.b p.wtm k) m.t = true := by
      cases hE : PosImpl.isEpS p m
      · right
        obtain ⟨hs, hk'⟩ := simple_of_pseudo' p m hp k hk hfk hE
        rw [inCheck_of_kingAt _ hv' _ k hk'] at hsafe
        obtain ⟨a, ha⟩ := (sqAttacked_iff_attacker _ _ _).1 hchk
        have huniq : ∀ s, Attacker p.b p.wtm k s → s = a :=
          fun s hs' => one_checker _ _ _ _ _ hs hv hv' k s a hs' ha hsafe
        rw [validTargets_single p.b p.wtm k a hkk ha huniq]
        exact neutraliser_valid (occBB p.b) k a m.t (attacker_occ _ hv _ _ _ ha) (hs.neutralised hv hv' k a ha hsafe)
      · left; rfl
    have hnown := pseudo_nown_t p m hp
    have hV : kind p.b[m.f] ≠ 6 → tst ((fun _ : Sq => ~~~colorBB p.b p.wtm &&& validTargets p.b p.wtm k) m.f) m.t = true := by
      intro h6
      rcases key with hE | hVt
      · exact absurd (isEpS_facts p m hE).1 h6
      · simp only [tst_and, tst_not, tst_colorBB, hnown, hVt]; rfl
    rcases kind_of_own _ _ (pseudo_own_f p m hp) with h1 | h2 | h3 | h4 | h5 | h6
    · exact absurd h1 hnk
    · exact Or.inl (Or.inl (Or.inl (Or.inl (Or.inl
        (section_mem p ⟨2, by decide⟩ (by decide) (by decide) _ _ (fun f t hk => attacks_queen p.b hv f t hk) m hp h2
          (hV (by rw [h2]; decide)))))))
    · exact Or.inl (Or.inl (Or.inl (Or.inl (Or.inr
        (section_mem p ⟨3, by decide⟩ (by decide) (by decide) _ _ (fun f t hk => attacks_rook p.b hv f t hk) m hp h3
          (hV (by rw [h3]; decide)))))))
    · exact Or.inl (Or.inl (Or.inl (Or.inr
        (section_mem p ⟨4, by decide⟩ (by decide) (by decide) _ _ (fun f t hk => attacks_bishop p.b hv f t hk) m hp h4
          (hV (by rw [h4]; decide))))))
    · exact Or.inl (Or.inr
        (section_mem p ⟨5, by decide⟩ (by decide) (by decide) _ _ (fun f t hk => attacks_knight p.b f t hk) m hp h5
          (hV (by rw [h5]; decide))))
    · refine Or.inr ?_
      have hown := pseudo_own_f p m hp
      by_cases hw : p.wtm = true
      · rw [hw] at hown hnown
        have hb : p.b[m.f] = WPAWN := (pc_iff true _ ⟨6, by decide⟩ (by decide)).2 ⟨hown, h6⟩
        have hp' := hp
        rw [pseudo_wpawn_iff p m hw hb] at hp'
        obtain ⟨_, hprom, hmv⟩ := hp'
        have h8 : 8 ≤ m.t.val := by rcases hmv with h | h | ⟨h | h, _⟩ <;> omega
        have hpr := (promo_bridge true m (by simpa using h8)).2 hprom
        have hcb := capture_bridge p hv hep true m.t
        simp only [Bool.not_true] at hcb
        have hft := m.f.isLt
        have htt := m.t.isLt
        have hsame : ∀ n : Nat, m.t.val = m.f.val + n → n = 8 ∨ n = 16 → tst (validTargets p.b p.wtm k) m.t = true := by
          intro n h1 h2
          rcases key with hE | hVt
          · exfalso; apply (isEpS_facts p m hE).2.2; unfold Sq.x; omega
          · exact hVt
        apply mem_evasionPawn_white p hw hv _ m hb hpr
        rcases hmv with ⟨a, c⟩ | ⟨a, b, c, d⟩ | ⟨hd, hcp⟩
        · exact Or.inl ⟨a, c, hsame 8 a (Or.inl rfl)⟩
        · exact Or.inr (Or.inl ⟨a, b, c, d, hsame 16 a (Or.inr rfl)⟩)
        · refine Or.inr (Or.inr ⟨hd, ?_⟩)
          rcases key with hE | hVt
          · exact Or.inr (isEpS_facts p m hE).2.1
          · rcases hcb.2 ⟨hnown, hcp⟩ with h | h
            · exact Or.inl ⟨h, hVt⟩
            · exact Or.inr h
      · have hw' : p.wtm = false := by simpa using hw
        rw [hw'] at hown hnown
        have hb : p.b[m.f] = BPAWN := (pc_iff false _ ⟨6, by decide⟩ (by decide)).2 ⟨hown, h6⟩
        have hp' := hp
        rw [pseudo_bpawn_iff p m hw' hb] at hp'
        obtain ⟨_, hprom, hmv⟩ := hp'
        have h56 : m.t.val < 56 := by rcases hmv with h | h | ⟨h | h, _⟩ <;> omega
        have hpr := (promo_bridge false m (by simpa using h56)).2 hprom
        have hcb := capture_bridge p hv hep false m.t
        simp only [Bool.not_false] at hcb
        have hft := m.f.isLt
        have htt := m.t.isLt
        have hsame : ∀ n : Nat, m.t.val + n = m.f.val → n = 8 ∨ n = 16 → tst (validTargets p.b p.wtm k) m.t = true := by
          intro n h1 h2
          rcases key with hE | hVt
          · exfalso; apply (isEpS_facts p m hE).2.2; unfold Sq.x; omega
          · exact hVt
        apply mem_evasionPawn_black p hw' hv _ m hb hpr
        rcases hmv with ⟨a, c⟩ | ⟨a, b, c, d⟩ | ⟨hd, hcp⟩
        · exact Or.inl ⟨a, c, hsame 8 a (Or.inl rfl)⟩
        · exact Or.inr (Or.inl ⟨a, b, c, d, hsame 16 a (Or.inr rfl)⟩)
        · refine Or.inr (Or.inr ⟨hd, ?_⟩)
          rcases key with hE | hVt
          · exact Or.inr (isEpS_facts p m hE).2.1
          · rcases hcb.2 ⟨hnown, hcp⟩ with h | h
            · exact Or.inl ⟨h, hVt⟩
            · exact Or.inr h

theorem kingsApart_of_b (p : Pos) (k : Sq) (h : kingsApartB p k = true) :
    ∀ q, p.b[q] = pc (!p.wtm) 1 → kingGeom k q = false := by
  unfold kingsApartB at h
  simp only [List.all_eq_true, allSq, List.mem_finRange, true_imp_iff, Bool.or_eq_true, Bool.not_eq_true', beq_eq_false_iff_ne] at h
  intro q hq
  rcases h q with h | h
  · exact absurd hq h
  · exact h

end Chess.Texel
