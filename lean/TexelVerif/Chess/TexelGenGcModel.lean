import TexelVerif.Chess.TexelGenGcGeom
/-!
The model of `MoveGen::givesCheck` (`TexelGenMore.lean`) block by block: `givesCheck_split` cuts it into the four
blocks of moveGen.cpp:458-571 (`gcDirect` 463-485, `gcDisc` 486-501, `gcPromo` 502-516, `gcCastle` 517-528, `gcEp`
529-569) and each block gets a characterisation in terms of segments (`Seg`) on the board before the move.
-/
namespace Chess.Texel
open PosImpl (BB getP getP_eq)

def oKingPc (w : Bool) : Pc := if w then BKING else WKING

theorem oKingPc_eq (w : Bool) : oKingPc w = (if (!w) then WKING else BKING) := by cases w <;> rfl
theorem oKingPc_ne_zero (w : Bool) : oKingPc w ≠ 0 := by cases w <;> decide
theorem pc2_ne_zero (w : Bool) : pc w 2 ≠ 0 := by cases w <;> decide
theorem pc3_ne_zero (w : Bool) : pc w 3 ≠ 0 := by cases w <;> decide
theorem pc4_ne_zero (w : Bool) : pc w 4 ≠ 0 := by cases w <;> decide

/-- first `switch` of `givesCheck`: the moved (or promoted-to) piece of white kind `pw` attacks the king from `t` -/
def gcDirect (b : Board) (w : Bool) (ok : Sq) (pw : UInt8) (t : Sq) : Bool :=
  let d1 := direction t ok
  if isRookDelta d1 then (pw == 2 || pw == 3) && nextPiece b t d1 == oKingPc w
  else if isBishDelta d1 then
    (if pw == 2 || pw == 4 then nextPiece b t d1 == oKingPc w
     else if pw == 6 then (decide (d1 > 0) == w) && pieceAtStep b t d1 == oKingPc w
     else false)
  else d1 != 0 && pw == 5

/-- second block: discovered check through the from-square -/
def gcDisc (b : Board) (w : Bool) (ok : Sq) (f t : Sq) : Bool :=
  let d1 := direction t ok
  let d2 := direction f ok
  d2 != 0 && d2 != d1 && nextPiece b f d2 == oKingPc w &&
    (let p2 := nextPiece b f (-d2)
     if isRookDelta d2 then p2 == pc w 2 || p2 == pc w 3
     else if isBishDelta d2 then p2 == pc w 2 || p2 == pc w 4
     else false)

/-- third block: a promoted piece attacks through the vacated from-square -/
def gcPromo (b : Board) (w : Bool) (ok : Sq) (pw : UInt8) (promo : Pc) (f t : Sq) : Bool :=
  let d1 := direction t ok
  let d2 := direction f ok
  promo != 0 && d1 != 0 && d1 == d2 &&
    (if isRookDelta d1 then (pw == 2 || pw == 3) && nextPiece b f d1 == oKingPc w
     else if isBishDelta d1 then (pw == 2 || pw == 4) && nextPiece b f d1 == oKingPc w
     else false)

/-- fourth block, king: the castling rook gives check -/
def gcCastle (b : Board) (w : Bool) (f t : Sq) : Bool :=
  let up : Int := if w then 8 else -8
  if t.val == f.val + 2 then
    nextPiece b f (-1) == oKingPc w || nextPiece b (sqOff f 1) up == oKingPc w
  else if t.val + 2 == f.val then
    nextPiece b f 1 == oKingPc w || nextPiece b (sqOff f (-1)) up == oKingPc w
  else false

/-- fourth block, pawn: en passant uncovers a line through the captured pawn's square -/
def gcEp (b : Board) (w : Bool) (ok : Sq) (f t : Sq) : Bool :=
  if b[t] == 0 && t.x != f.x then
    let dx : Int := (t.x : Int) - f.x
    let epSq := sqOff f dx
    let d3 := direction epSq ok
    if isBishDelta d3 then
      nextPiece b epSq d3 == oKingPc w && (let p2 := nextPiece b epSq (-d3); p2 == pc w 2 || p2 == pc w 4)
    else if d3 == 1 || d3 == -1 then
      let maxS := if epSq.val ≥ f.val then epSq else f
      let minS := if epSq.val ≥ f.val then f else epSq
      if d3 == 1 then
        nextPiece b maxS d3 == oKingPc w && (let p2 := nextPiece b minS (-d3); p2 == pc w 2 || p2 == pc w 3)
      else
        nextPiece b minS d3 == oKingPc w && (let p2 := nextPiece b maxS (-d3); p2 == pc w 2 || p2 == pc w 3)
    else false
  else false

/-- white kind of the piece that stands on the to-square after the move (`Piece::makeWhite`) -/
def movedKind (p : Pos) (m : Mv) : UInt8 := kind (if m.promo == 0 then p.b[m.f] else m.promo)

theorem givesCheck_split (p : Pos) (ok : Sq) (m : Mv) :
    givesCheck p ok m =
      (gcDirect p.b p.wtm ok (movedKind p m) m.t || gcDisc p.b p.wtm ok m.f m.t ||
       gcPromo p.b p.wtm ok (movedKind p m) m.promo m.f m.t ||
       (if movedKind p m == 1 then gcCastle p.b p.wtm m.f m.t
        else if movedKind p m == 6 then gcEp p.b p.wtm ok m.f m.t else false)) := rfl

/-! ## `nextPiece(...) == oKing` -/

theorem hit_iff (b : Board) (w : Bool) (ok : Sq) (hK : KingAt b (!w) ok) (a : Sq) (d dx dy : Int) (hd : IsDir dx dy)
    (he : d = dy * 8 + dx) : (nextPiece b a d == oKingPc w) = true ↔ ∃ n, Seg b a dx dy n ok := by
  rw [beq_iff_eq, he, nextPiece_iff b a dx dy hd _ (oKingPc_ne_zero w)]
  constructor
  · rintro ⟨n, c, hs, hc⟩
    rw [oKingPc_eq] at hc
    have := hK.2 c hc
    subst this; exact ⟨n, hs⟩
  · rintro ⟨n, hs⟩
    exact ⟨n, ok, hs, by rw [oKingPc_eq]; exact hK.1⟩

theorem behind_iff (b : Board) (a : Sq) (d dx dy : Int) (hd : IsDir dx dy) (he : d = dy * 8 + dx) (v1 v2 : Pc)
    (h1 : v1 ≠ 0) (h2 : v2 ≠ 0) :
    (nextPiece b a d == v1 || nextPiece b a d == v2) = true ↔ ∃ i s, Seg b a dx dy i s ∧ (b[s] = v1 ∨ b[s] = v2) := by
  rw [Bool.or_eq_true, beq_iff_eq, beq_iff_eq, he, nextPiece_iff b a dx dy hd _ h1, nextPiece_iff b a dx dy hd _ h2]
  constructor
  · rintro (⟨i, s, hs, hb⟩ | ⟨i, s, hs, hb⟩)
    · exact ⟨i, s, hs, Or.inl hb⟩
    · exact ⟨i, s, hs, Or.inr hb⟩
  · rintro ⟨i, s, hs, hb | hb⟩
    · exact Or.inl ⟨i, s, hs, hb⟩
    · exact Or.inr ⟨i, s, hs, hb⟩

/-! ## pawn attack geometry -/

theorem pawnGeom_step (w : Bool) (t K : Sq) :
    pawnGeom w t K = true ↔ ∃ dx : Int, (dx = 1 ∨ dx = -1) ∧ stepSq t.x t.y dx (if w then 1 else -1) 1 = some K := by
  unfold pawnGeom dxy
  simp only [Bool.and_eq_true, beq_iff_eq, stepSq_eq_some]
  constructor
  · rintro ⟨h1, h2⟩
    refine ⟨(K.x : Int) - t.x, by omega, ?_, ?_⟩
    · omega
    · rw [← h2]; omega
  · rintro ⟨dx, hdx, h1, h2⟩
    refine ⟨by omega, ?_⟩
    cases w <;> simp only [Bool.false_eq_true, if_false, if_true] at h2 ⊢ <;> omega

theorem pawnBranch_iff (b : Board) (w : Bool) (ok : Sq) (hK : KingAt b (!w) ok) (t : Sq) (d dx dy : Int) (hd : BishD dx dy)
    (he : d = dy * 8 + dx) :
    ((decide (d > 0) == w) && pieceAtStep b t d == oKingPc w) = true ↔
      (dy = (if w then 1 else -1) ∧ stepSq t.x t.y dx dy 1 = some ok) := by
  unfold pieceAtStep
  rw [he, deltaDir_code dx dy hd.isDir, stepSq_one]
  simp only [Bool.and_eq_true, beq_iff_eq]
  have hdy : (decide (dy * 8 + dx > 0) = w) ↔ dy = (if w then 1 else -1) := by
    unfold BishD at hd
    cases w <;> simp only [decide_eq_false_iff_not, decide_eq_true_eq, Bool.false_eq_true, if_false, if_true] <;> omega
  rw [hdy]
  constructor
  · rintro ⟨h1, h2⟩
    refine ⟨h1, ?_⟩
    cases hq : mkSq? ((t.x : Int) + dx) ((t.y : Int) + dy) with
    | none => rw [hq] at h2; exact absurd h2.symm (oKingPc_ne_zero w)
    | some q =>
      rw [hq] at h2
      simp only at h2
      rw [oKingPc_eq] at h2
      rw [hK.2 q h2]
  · rintro ⟨h1, h2⟩
    refine ⟨h1, ?_⟩
    rw [h2]
    simp only
    rw [oKingPc_eq]; exact hK.1

/-! ## the first block -/

theorem gcDirect_iff (b : Board) (w : Bool) (ok : Sq) (hK : KingAt b (!w) ok) (pw : UInt8) (t : Sq) :
    gcDirect b w ok pw t = true ↔
      ((pw = 2 ∨ pw = 3) ∧ ∃ dx dy n, RookD dx dy ∧ Seg b t dx dy n ok) ∨
      ((pw = 2 ∨ pw = 4) ∧ ∃ dx dy n, BishD dx dy ∧ Seg b t dx dy n ok) ∨
      (pw = 6 ∧ pawnGeom w t ok = true) ∨ (pw = 5 ∧ knightGeom t ok = true) := by
  have hkn := knight_dir_iff t ok
  -- what each alternative says about `direction t ok`
  have hR : ∀ dx dy n, RookD dx dy → Seg b t dx dy n ok → isRookDelta (direction t ok) = true := by
    intro dx dy n hd hs
    rw [hs.dir hd.isDir]; exact (isRookDelta_iff _).2 ⟨dx, dy, hd, rfl⟩
  have hB : ∀ dx dy n, BishD dx dy → Seg b t dx dy n ok →
      isBishDelta (direction t ok) = true ∧ isRookDelta (direction t ok) = false := by
    intro dx dy n hd hs
    rw [hs.dir hd.isDir]; exact ⟨(isBishDelta_iff _).2 ⟨dx, dy, hd, rfl⟩, bish_not_rook dx dy hd⟩
  have hP : pawnGeom w t ok = true → ∃ dx dy, BishD dx dy ∧ dy = (if w then 1 else -1) ∧
      stepSq t.x t.y dx dy 1 = some ok ∧ direction t ok = dy * 8 + dx := by
    intro hg
    obtain ⟨dx, hdx, hs⟩ := (pawnGeom_step w t ok).1 hg
    have hbd : BishD dx (if w then 1 else -1) := by unfold BishD; cases w <;> simp <;> omega
    exact ⟨dx, _, hbd, rfl, hs, (direction_iff t ok dx _ hbd.isDir).2 ⟨1, Nat.le_refl _, hs⟩⟩
  unfold gcDirect
  simp only
  by_cases hr : isRookDelta (direction t ok) = true
  · rw [if_pos hr]
    obtain ⟨dx, dy, hd, he⟩ := (isRookDelta_iff _).1 hr
    rw [Bool.and_eq_true, hit_iff b w ok hK t _ dx dy hd.isDir he, Bool.or_eq_true, beq_iff_eq, beq_iff_eq]
    constructor
    · rintro ⟨hp, n, hs⟩; exact Or.inl ⟨hp, dx, dy, n, hd, hs⟩
    · rintro (⟨hp, dx', dy', n, hd', hs⟩ | ⟨hp, dx', dy', n, hd', hs⟩ | ⟨_, hg⟩ | ⟨_, hg⟩)
      · have := hs.dir hd'.isDir
        rw [he] at this
        obtain ⟨e1, e2⟩ := code_inj _ _ _ _ hd.isDir hd'.isDir this
        subst e1; subst e2
        exact ⟨hp, n, hs⟩
      · rw [(hB dx' dy' n hd' hs).2] at hr; cases hr
      · obtain ⟨dx', dy', hbd, _, _, hdir⟩ := hP hg
        rw [hdir, bish_not_rook dx' dy' hbd] at hr; cases hr
      · rw [← hkn, hr] at hg; cases hg
  · have hr' : isRookDelta (direction t ok) = false := by simpa using hr
    rw [if_neg hr]
    by_cases hb : isBishDelta (direction t ok) = true
    · rw [if_pos hb]
      obtain ⟨dx, dy, hd, he⟩ := (isBishDelta_iff _).1 hb
      have hsame : ∀ dx' dy' n, BishD dx' dy' → Seg b t dx' dy' n ok → dx = dx' ∧ dy = dy' := by
        intro dx' dy' n hd' hs
        have := hs.dir hd'.isDir
        rw [he] at this
        exact code_inj _ _ _ _ hd.isDir hd'.isDir this
      by_cases h24 : (pw == 2 || pw == 4) = true
      · rw [if_pos h24, hit_iff b w ok hK t _ dx dy hd.isDir he]
        have h24' : pw = 2 ∨ pw = 4 := by simpa using h24
        constructor
        · rintro ⟨n, hs⟩; exact Or.inr (Or.inl ⟨h24', dx, dy, n, hd, hs⟩)
        · rintro (⟨hp, dx', dy', n, hd', hs⟩ | ⟨hp, dx', dy', n, hd', hs⟩ | ⟨h6, _⟩ | ⟨h5, hg⟩)
          · rw [hR dx' dy' n hd' hs] at hr'; cases hr'
          · obtain ⟨e1, e2⟩ := hsame dx' dy' n hd' hs
            subst e1; subst e2; exact ⟨n, hs⟩
          · exfalso; rcases h24' with h | h <;> rw [h] at h6 <;> exact absurd h6 (by decide)
          · exfalso; rcases h24' with h | h <;> rw [h] at h5 <;> exact absurd h5 (by decide)
      · rw [if_neg h24]
        have h24' : ¬ (pw = 2 ∨ pw = 4) := by simpa using h24
        by_cases h6 : (pw == 6) = true
        · rw [if_pos h6, pawnBranch_iff b w ok hK t _ dx dy hd he]
          have h6' : pw = 6 := by simpa using h6
          constructor
          · rintro ⟨h1, h2⟩
            refine Or.inr (Or.inr (Or.inl ⟨h6', ?_⟩))
            rw [pawnGeom_step]
            unfold BishD at hd
            exact ⟨dx, by omega, by rw [← h1]; exact h2⟩
          · rintro (⟨hp, _⟩ | ⟨hp, _⟩ | ⟨_, hg⟩ | ⟨h5, _⟩)
            · exfalso; rcases hp with h | h <;> rw [h] at h6' <;> exact absurd h6' (by decide)
            · exact absurd hp h24'
            · obtain ⟨dx', dy', hbd, hdy, hs, hdir⟩ := hP hg
              rw [he] at hdir
              obtain ⟨e1, e2⟩ := code_inj _ _ _ _ hd.isDir hbd.isDir hdir
              subst e1; subst e2
              exact ⟨hdy, hs⟩
            · exfalso; rw [h5] at h6'; exact absurd h6' (by decide)
        · rw [if_neg h6]
          have h6' : ¬ pw = 6 := by simpa using h6
          simp only [Bool.false_eq_true, false_iff]
          rintro (⟨_, dx', dy', n, hd', hs⟩ | ⟨hp, _⟩ | ⟨h, _⟩ | ⟨_, hg⟩)
          · rw [hR dx' dy' n hd' hs] at hr'; cases hr'
          · exact h24' hp
          · exact h6' h
          · rw [← hkn, hb] at hg; simp at hg
    · have hb' : isBishDelta (direction t ok) = false := by simpa using hb
      rw [if_neg hb]
      rw [hr', hb'] at hkn
      simp only [Bool.not_false, Bool.true_and] at hkn
      rw [Bool.and_eq_true, hkn, beq_iff_eq]
      constructor
      · rintro ⟨h1, h2⟩; exact Or.inr (Or.inr (Or.inr ⟨h2, h1⟩))
      · rintro (⟨_, dx', dy', n, hd', hs⟩ | ⟨_, dx', dy', n, hd', hs⟩ | ⟨_, hg⟩ | ⟨h5, hg⟩)
        · rw [hR dx' dy' n hd' hs] at hr'; cases hr'
        · rw [(hB dx' dy' n hd' hs).1] at hb'; cases hb'
        · obtain ⟨dx', dy', hbd, _, _, hdir⟩ := hP hg
          rw [hdir, (isBishDelta_iff _).2 ⟨dx', dy', hbd, rfl⟩] at hb'; cases hb'
        · exact ⟨hg, h5⟩

/-! ## the second block -/

/-- the piece found behind the from-square fits the line -/
def behindOk (b : Board) (w : Bool) (s : Sq) (dx dy : Int) : Prop :=
  (RookD dx dy ∧ (b[s] = pc w 2 ∨ b[s] = pc w 3)) ∨ (BishD dx dy ∧ (b[s] = pc w 2 ∨ b[s] = pc w 4))

theorem isDir_neg' {dx dy : Int} (h : IsDir dx dy) : IsDir (-dx) (-dy) := isDir_neg h

theorem gcDisc_iff (b : Board) (w : Bool) (ok : Sq) (hK : KingAt b (!w) ok) (f t : Sq) :
    gcDisc b w ok f t = true ↔
      ∃ dx dy n i s, IsDir dx dy ∧ Seg b f dx dy n ok ∧ direction t ok ≠ dy * 8 + dx ∧
        Seg b f (-dx) (-dy) i s ∧ behindOk b w s dx dy := by
  unfold gcDisc behindOk
  simp only [Bool.and_eq_true, bne_iff_ne, ne_eq]
  constructor
  · rintro ⟨⟨⟨h0, h1⟩, hh⟩, hp2⟩
    by_cases hr : isRookDelta (direction f ok) = true
    · rw [if_pos hr] at hp2
      obtain ⟨dx, dy, hd, he⟩ := (isRookDelta_iff _).1 hr
      obtain ⟨n, hs⟩ := (hit_iff b w ok hK f _ dx dy hd.isDir he).1 hh
      obtain ⟨i, s, hs2, hb⟩ := (behind_iff b f _ (-dx) (-dy) (isDir_neg hd.isDir) (by rw [he]; omega) _ _
        (pc2_ne_zero w) (pc3_ne_zero w)).1 hp2
      exact ⟨dx, dy, n, i, s, hd.isDir, hs, fun e => h1 (he.trans e.symm), hs2, Or.inl ⟨hd, hb⟩⟩
    · rw [if_neg hr] at hp2
      by_cases hb : isBishDelta (direction f ok) = true
      · rw [if_pos hb] at hp2
        obtain ⟨dx, dy, hd, he⟩ := (isBishDelta_iff _).1 hb
        obtain ⟨n, hs⟩ := (hit_iff b w ok hK f _ dx dy hd.isDir he).1 hh
        obtain ⟨i, s, hs2, hb⟩ := (behind_iff b f _ (-dx) (-dy) (isDir_neg hd.isDir) (by rw [he]; omega) _ _
          (pc2_ne_zero w) (pc4_ne_zero w)).1 hp2
        exact ⟨dx, dy, n, i, s, hd.isDir, hs, fun e => h1 (he.trans e.symm), hs2, Or.inr ⟨hd, hb⟩⟩
      · rw [if_neg hb] at hp2; cases hp2
  · rintro ⟨dx, dy, n, i, s, hd, hs, hne, hs2, hbeh⟩
    have he := hs.dir hd
    refine ⟨⟨⟨by rw [he]; exact code_ne_zero dx dy hd, fun e => hne (e ▸ he)⟩,
      (hit_iff b w ok hK f _ dx dy hd he).2 ⟨n, hs⟩⟩, ?_⟩
    rcases hbeh with ⟨hrd, hb⟩ | ⟨hbd, hb⟩
    · rw [if_pos (by rw [he]; exact (isRookDelta_iff _).2 ⟨dx, dy, hrd, rfl⟩)]
      exact (behind_iff b f _ (-dx) (-dy) (isDir_neg hd) (by rw [he]; omega) _ _ (pc2_ne_zero w) (pc3_ne_zero w)).2
        ⟨i, s, hs2, hb⟩
    · rw [if_neg (by rw [he, bish_not_rook dx dy hbd]; exact Bool.false_ne_true),
        if_pos (by rw [he]; exact (isBishDelta_iff _).2 ⟨dx, dy, hbd, rfl⟩)]
      exact (behind_iff b f _ (-dx) (-dy) (isDir_neg hd) (by rw [he]; omega) _ _ (pc2_ne_zero w) (pc4_ne_zero w)).2
        ⟨i, s, hs2, hb⟩

/-! ## the third block -/

/-- the white kind `pw` of a slider fits the line -/
def kindOn (pw : UInt8) (dx dy : Int) : Prop :=
  (RookD dx dy ∧ (pw = 2 ∨ pw = 3)) ∨ (BishD dx dy ∧ (pw = 2 ∨ pw = 4))

theorem gcPromo_iff (b : Board) (w : Bool) (ok : Sq) (hK : KingAt b (!w) ok) (pw : UInt8) (promo : Pc) (f t : Sq) :
    gcPromo b w ok pw promo f t = true ↔
      promo ≠ 0 ∧ ∃ dx dy n, direction t ok = dy * 8 + dx ∧ Seg b f dx dy n ok ∧ kindOn pw dx dy := by
  unfold gcPromo kindOn
  simp only [Bool.and_eq_true, bne_iff_ne, ne_eq, beq_iff_eq]
  constructor
  · rintro ⟨⟨⟨h0, h1⟩, h12⟩, hh⟩
    refine ⟨h0, ?_⟩
    by_cases hr : isRookDelta (direction t ok) = true
    · rw [if_pos hr] at hh
      obtain ⟨dx, dy, hd, he⟩ := (isRookDelta_iff _).1 hr
      rw [Bool.and_eq_true, hit_iff b w ok hK f _ dx dy hd.isDir he] at hh
      obtain ⟨hp, n, hs⟩ := hh
      exact ⟨dx, dy, n, he, hs, Or.inl ⟨hd, by simpa using hp⟩⟩
    · rw [if_neg hr] at hh
      by_cases hb : isBishDelta (direction t ok) = true
      · rw [if_pos hb] at hh
        obtain ⟨dx, dy, hd, he⟩ := (isBishDelta_iff _).1 hb
        rw [Bool.and_eq_true, hit_iff b w ok hK f _ dx dy hd.isDir he] at hh
        obtain ⟨hp, n, hs⟩ := hh
        exact ⟨dx, dy, n, he, hs, Or.inr ⟨hd, by simpa using hp⟩⟩
      · rw [if_neg hb] at hh; cases hh
  · rintro ⟨h0, dx, dy, n, he, hs, hk⟩
    have hd : IsDir dx dy := by
      rcases hk with ⟨h, _⟩ | ⟨h, _⟩
      · exact h.isDir
      · exact h.isDir
    have he2 := hs.dir hd
    refine ⟨⟨⟨h0, by rw [he]; exact code_ne_zero dx dy hd⟩, he.trans he2.symm⟩, ?_⟩
    rcases hk with ⟨hrd, hp⟩ | ⟨hbd, hp⟩
    · rw [if_pos (by rw [he]; exact (isRookDelta_iff _).2 ⟨dx, dy, hrd, rfl⟩), Bool.and_eq_true,
        hit_iff b w ok hK f _ dx dy hd he]
      exact ⟨by simpa using hp, n, hs⟩
    · rw [if_neg (by rw [he, bish_not_rook dx dy hbd]; exact Bool.false_ne_true),
        if_pos (by rw [he]; exact (isBishDelta_iff _).2 ⟨dx, dy, hbd, rfl⟩), Bool.and_eq_true,
        hit_iff b w ok hK f _ dx dy hd he]
      exact ⟨by simpa using hp, n, hs⟩

/-! ## the castling block -/

theorem isDir_left : IsDir (-1) 0 := by unfold IsDir; omega
theorem isDir_right : IsDir 1 0 := by unfold IsDir; omega
theorem isDir_up (w : Bool) : IsDir 0 (if w then 1 else -1) := by unfold IsDir; cases w <;> simp

theorem gcCastle_short (b : Board) (w : Bool) (ok : Sq) (hK : KingAt b (!w) ok) (f t : Sq) (h : t.val = f.val + 2) :
    gcCastle b w f t = true ↔
      (∃ n, Seg b f (-1) 0 n ok) ∨ (∃ n, Seg b (sqOff f 1) 0 (if w then 1 else -1) n ok) := by
  unfold gcCastle
  simp only
  rw [if_pos (by simp [h]), Bool.or_eq_true, hit_iff b w ok hK f _ (-1) 0 isDir_left (by omega),
    hit_iff b w ok hK (sqOff f 1) _ 0 (if w then 1 else -1) (isDir_up w) (by cases w <;> simp)]

theorem gcCastle_long (b : Board) (w : Bool) (ok : Sq) (hK : KingAt b (!w) ok) (f t : Sq) (h : t.val + 2 = f.val) :
    gcCastle b w f t = true ↔
      (∃ n, Seg b f 1 0 n ok) ∨ (∃ n, Seg b (sqOff f (-1)) 0 (if w then 1 else -1) n ok) := by
  unfold gcCastle
  simp only
  rw [if_neg (by simp; omega), if_pos (by simp [h]), Bool.or_eq_true, hit_iff b w ok hK f _ 1 0 isDir_right (by omega),
    hit_iff b w ok hK (sqOff f (-1)) _ 0 (if w then 1 else -1) (isDir_up w) (by cases w <;> simp)]

theorem gcCastle_none (b : Board) (w : Bool) (f t : Sq) (h1 : t.val ≠ f.val + 2) (h2 : t.val + 2 ≠ f.val) :
    gcCastle b w f t = false := by
  unfold gcCastle
  simp only
  rw [if_neg (by simpa using h1), if_neg (by simpa using h2)]

/-! ## the en-passant block -/

theorem gcEp_off (b : Board) (w : Bool) (ok : Sq) (f t : Sq) (h : b[t] ≠ 0 ∨ t.x = f.x) : gcEp b w ok f t = false := by
  unfold gcEp
  rw [if_neg]
  simp only [Bool.and_eq_true, beq_iff_eq, bne_iff_ne, ne_eq, not_and, Decidable.not_not]
  intro h0
  rcases h with h | h
  · exact absurd h0 h
  · exact h

/-- the en-passant block for an e.p. capture: `c` is the square of the captured pawn; `hi` / `lo` are the right / left one
    of the two squares `f`, `c` (which are neighbours on a rank) -/
theorem gcEp_iff (b : Board) (w : Bool) (ok : Sq) (hK : KingAt b (!w) ok) (f t c : Sq)
    (h0 : b[t] = 0) (hx : t.x ≠ f.x) (hc : c = sqOff f ((t.x : Int) - f.x))
    (hcy : c.y = f.y) (hcx : (c.x : Int) = f.x + 1 ∨ (c.x : Int) = f.x - 1) :
    gcEp b w ok f t = true ↔
      (∃ dx dy n i s, BishD dx dy ∧ Seg b c dx dy n ok ∧ Seg b c (-dx) (-dy) i s ∧ (b[s] = pc w 2 ∨ b[s] = pc w 4)) ∨
      (∃ n i s, Seg b (if c.val ≥ f.val then c else f) 1 0 n ok ∧ Seg b (if c.val ≥ f.val then f else c) (-1) 0 i s ∧
          (b[s] = pc w 2 ∨ b[s] = pc w 3)) ∨
      (∃ n i s, Seg b (if c.val ≥ f.val then f else c) (-1) 0 n ok ∧ Seg b (if c.val ≥ f.val then c else f) 1 0 i s ∧
          (b[s] = pc w 2 ∨ b[s] = pc w 3)) := by
  -- the two squares as neighbours
  have hhl : ∀ (hi lo : Sq), hi = (if c.val ≥ f.val then c else f) → lo = (if c.val ≥ f.val then f else c) →
      hi.y = lo.y ∧ (hi.x : Int) = lo.x + 1 ∧ (c = hi ∨ c = lo) := by
    intro hi lo e1 e2
    have hcv := Sq.val_eq c; have hfv := Sq.val_eq f
    have := Sq.x_lt c; have := Sq.x_lt f
    by_cases hge : c.val ≥ f.val
    · rw [if_pos hge] at e1 e2; subst e1; subst e2
      exact ⟨hcy, by omega, Or.inl rfl⟩
    · rw [if_neg hge] at e1 e2; subst e1; subst e2
      exact ⟨hcy.symm, by omega, Or.inr rfl⟩
  obtain ⟨hy, hxx, hcc⟩ := hhl _ _ rfl rfl
  unfold gcEp
  rw [if_pos (by simp [h0, hx])]
  simp only []
  rw [← hc]
  generalize (if c.val ≥ f.val then c else f) = hi at hy hxx hcc ⊢
  generalize (if c.val ≥ f.val then f else c) = lo at hy hxx hcc ⊢
  -- direction from `c` when the king is on the rank
  have hdirR : ∀ n, Seg b hi 1 0 n ok → direction c ok = 1 := by
    intro n hs
    have h1 := (stepSq_eq_some _ _ _ _ _ _).1 hs.step
    rw [show (1 : Int) = 0 * 8 + 1 from by omega]
    rcases hcc with e | e
    · subst e; exact hs.dir isDir_right
    · subst e
      refine (direction_iff c ok 1 0 isDir_right).2 ⟨n + 1, by omega, (stepSq_eq_some _ _ _ _ _ _).2 ⟨?_, ?_⟩⟩
      · have : ((n + 1 : Nat) : Int) = n + 1 := by omega
        rw [this]; omega
      · omega
  have hdirL : ∀ n, Seg b lo (-1) 0 n ok → direction c ok = -1 := by
    intro n hs
    have h1 := (stepSq_eq_some _ _ _ _ _ _).1 hs.step
    rw [show (-1 : Int) = 0 * 8 + (-1) from by omega]
    rcases hcc with e | e
    · subst e
      refine (direction_iff c ok (-1) 0 isDir_left).2 ⟨n + 1, by omega, (stepSq_eq_some _ _ _ _ _ _).2 ⟨?_, ?_⟩⟩
      · have : ((n + 1 : Nat) : Int) = n + 1 := by omega
        rw [this]; omega
      · omega
    · subst e; exact hs.dir isDir_left
  by_cases hb : isBishDelta (direction c ok) = true
  · rw [if_pos hb]
    obtain ⟨dx, dy, hd, he⟩ := (isBishDelta_iff _).1 hb
    rw [Bool.and_eq_true, hit_iff b w ok hK c _ dx dy hd.isDir he,
      behind_iff b c _ (-dx) (-dy) (isDir_neg hd.isDir) (by rw [he]; omega) _ _ (pc2_ne_zero w) (pc4_ne_zero w)]
    constructor
    · rintro ⟨⟨n, hs⟩, i, s, hs2, hbs⟩
      exact Or.inl ⟨dx, dy, n, i, s, hd, hs, hs2, hbs⟩
    · rintro (⟨dx', dy', n, i, s, hd', hs, hs2, hbs⟩ | ⟨n, i, s, hs, _⟩ | ⟨n, i, s, hs, _⟩)
      · have := hs.dir hd'.isDir
        rw [he] at this
        obtain ⟨e1, e2⟩ := code_inj _ _ _ _ hd.isDir hd'.isDir this
        subst e1; subst e2
        exact ⟨⟨n, hs⟩, i, s, hs2, hbs⟩
      · rw [hdirR n hs] at hb; exact absurd hb (by decide)
      · rw [hdirL n hs] at hb; exact absurd hb (by decide)
  · rw [if_neg hb]
    by_cases h1 : direction c ok = 1
    · rw [h1]
      simp only [beq_self_eq_true, Bool.true_or, if_true]
      rw [Bool.and_eq_true, hit_iff b w ok hK hi _ 1 0 isDir_right (by omega),
        behind_iff b lo _ (-1) 0 isDir_left (by omega) _ _ (pc2_ne_zero w) (pc3_ne_zero w)]
      constructor
      · rintro ⟨⟨n, hs⟩, i, s, hs2, hbs⟩; exact Or.inr (Or.inl ⟨n, i, s, hs, hs2, hbs⟩)
      · rintro (⟨dx', dy', n, i, s, hd', hs, _⟩ | ⟨n, i, s, hs, hs2, hbs⟩ | ⟨n, i, s, hs, _⟩)
        · exfalso; apply hb
          rw [hs.dir hd'.isDir]; exact (isBishDelta_iff _).2 ⟨dx', dy', hd', rfl⟩
        · exact ⟨⟨n, hs⟩, i, s, hs2, hbs⟩
        · have := hdirL n hs; rw [h1] at this; omega
    · by_cases h2 : direction c ok = -1
      · rw [h2]
        have e1 : ((-1 : Int) == 1 || (-1 : Int) == -1) = true := by decide
        have e2 : ((-1 : Int) == 1) = false := by decide
        rw [if_pos e1, if_neg (by rw [e2]; exact Bool.false_ne_true)]
        rw [Bool.and_eq_true, hit_iff b w ok hK lo _ (-1) 0 isDir_left (by omega),
          behind_iff b hi _ 1 0 isDir_right (by omega) _ _ (pc2_ne_zero w) (pc3_ne_zero w)]
        constructor
        · rintro ⟨⟨n, hs⟩, i, s, hs2, hbs⟩; exact Or.inr (Or.inr ⟨n, i, s, hs, hs2, hbs⟩)
        · rintro (⟨dx', dy', n, i, s, hd', hs, _⟩ | ⟨n, i, s, hs, _⟩ | ⟨n, i, s, hs, hs2, hbs⟩)
          · exfalso; apply hb
            rw [hs.dir hd'.isDir]; exact (isBishDelta_iff _).2 ⟨dx', dy', hd', rfl⟩
          · have := hdirR n hs; rw [h2] at this; omega
          · exact ⟨⟨n, hs⟩, i, s, hs2, hbs⟩
      · rw [if_neg (by simp [h1, h2])]
        simp only [Bool.false_eq_true, false_iff]
        rintro (⟨dx', dy', n, i, s, hd', hs, _⟩ | ⟨n, i, s, hs, _⟩ | ⟨n, i, s, hs, _⟩)
        · apply hb
          rw [hs.dir hd'.isDir]; exact (isBishDelta_iff _).2 ⟨dx', dy', hd', rfl⟩
        · exact h1 (hdirR n hs)
        · exact h2 (hdirL n hs)

end Chess.Texel
