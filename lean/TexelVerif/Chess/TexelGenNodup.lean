import TexelVerif.Chess.TexelGenPseudo
/-!
No duplicates in `pseudoLegalMoves`, hence (with `mem_legalMoves`) the list the engine treats as the legal moves
is a permutation of the specification's `genLegal` (`texel_legal_perm`).
-/
namespace Chess.Texel
open PosImpl (BB getP getP_eq)

/-! ## list helpers -/

theorem nodup_map_inj {α β : Type} (f : α → β) (hf : ∀ a b, f a = f b → a = b) (l : List α) (h : l.Nodup) :
    (l.map f).Nodup := by
  rw [List.Nodup, List.pairwise_map]
  exact h.imp (fun hne e => hne (hf _ _ e))

theorem nodup_flatMap' {α β : Type} (l : List α) (f : α → List β) (hl : l.Nodup) (hin : ∀ a ∈ l, (f a).Nodup)
    (hx : ∀ a b, a ≠ b → ∀ x ∈ f a, ∀ y ∈ f b, x ≠ y) : (l.flatMap f).Nodup := by
  rw [List.Nodup, List.pairwise_flatMap]
  exact ⟨hin, hl.imp (fun hne => hx _ _ hne)⟩

theorem nodup_append_tag {γ : Type} (tg : Mv → γ) (l₁ l₂ : List Mv) (cs : List γ) (c : γ)
    (n1 : l₁.Nodup) (n2 : l₂.Nodup) (h1 : ∀ a ∈ l₁, tg a ∈ cs) (h2 : ∀ b ∈ l₂, tg b = c) (hc : c ∉ cs) :
    (l₁ ++ l₂).Nodup ∧ ∀ a ∈ l₁ ++ l₂, tg a ∈ c :: cs := by
  constructor
  · rw [List.nodup_append]
    refine ⟨n1, n2, ?_⟩
    intro a ha b hb e
    subst e
    have := h1 a ha
    rw [h2 a hb] at this
    exact hc this
  · intro a ha
    rcases List.mem_append.1 ha with h | h
    · exact List.mem_cons_of_mem _ (h1 a h)
    · rw [h2 a h]; exact List.mem_cons_self

/-! ## sections -/

theorem nodup_addMovesByMask (sq0 : Sq) (mask : BB) : (addMovesByMask sq0 mask).Nodup := by
  unfold addMovesByMask
  apply nodup_map_inj _ _ _ (squaresOf_nodup mask)
  intro a b e
  exact (Mv.mk.inj e).2.1

theorem nodup_pieceMoves (b : Board) (w : Bool) (kd : UInt8) (att targets : Sq → BB) :
    (pieceMoves b w kd att targets).Nodup := by
  unfold pieceMoves
  apply nodup_flatMap' _ _ (squaresOf_nodup _)
  · intro a _; exact nodup_addMovesByMask _ _
  · intro a b hab x hx y hy e
    subst e
    rw [mem_addMovesByMask] at hx hy
    exact hab (hx.1.symm.trans hy.1)

theorem pc_ne (w : Bool) : pc w 2 ≠ pc w 5 ∧ pc w 2 ≠ pc w 3 ∧ pc w 2 ≠ pc w 4 ∧ pc w 5 ≠ pc w 3 ∧ pc w 5 ≠ pc w 4 ∧
    pc w 3 ≠ pc w 4 ∧ pc w 2 ≠ 0 ∧ pc w 5 ≠ 0 ∧ pc w 3 ≠ 0 ∧ pc w 4 ≠ 0 := by cases w <;> decide

theorem nodup_addPawn (w : Bool) (mask : BB) (delta : Int) : (addPawnMovesByMask w mask delta true).Nodup := by
  obtain ⟨n1, n2, n3, n4, n5, n6, z1, z2, z3, z4⟩ := pc_ne w
  unfold addPawnMovesByMask
  simp only [if_true]
  rw [List.nodup_append]
  refine ⟨?_, ?_, ?_⟩
  · apply nodup_flatMap' _ _ (squaresOf_nodup _)
    · intro a _
      simp only [List.cons_append, List.nil_append, List.nodup_cons, List.mem_cons, List.mem_nil_iff, or_false, Mv.mk.injEq,
        true_and, not_or, List.nodup_nil, and_true, List.not_mem_nil, not_false_eq_true]
      exact ⟨⟨n1, n2, n3⟩, ⟨n4, n5⟩, n6⟩
    · intro a b hab x hx y hy e
      subst e
      simp only [List.cons_append, List.nil_append, List.mem_cons, List.mem_nil_iff, or_false] at hx hy
      have hxa : x.t = a := by rcases hx with rfl | rfl | rfl | rfl <;> rfl
      have hxb : x.t = b := by rcases hy with rfl | rfl | rfl | rfl <;> rfl
      exact hab (hxa.symm.trans hxb)
  · apply nodup_map_inj _ _ _ (squaresOf_nodup _)
    intro a b e
    exact (Mv.mk.inj e).2.1
  · intro x hx y hy e
    subst e
    simp only [List.mem_flatMap, List.cons_append, List.nil_append, List.mem_cons, List.mem_nil_iff, or_false] at hx
    simp only [List.mem_map] at hy
    obtain ⟨t, _, hx⟩ := hx
    obtain ⟨t', _, rfl⟩ := hy
    rcases hx with h | h | h | h <;> have := (Mv.mk.inj h).2.2 <;> simp_all

theorem nodup_addPawnDouble (mask : BB) (delta : Int) : (addPawnDoubleMovesByMask mask delta).Nodup := by
  unfold addPawnDoubleMovesByMask
  apply nodup_map_inj _ _ _ (squaresOf_nodup _)
  intro a b e
  exact (Mv.mk.inj e).2.1

theorem sqOff_tag (t : Sq) (d : Int) : (((sqOff t d).val : Int) - t.val) % 64 = d % 64 := by
  unfold sqOff; simp only; omega

/-- the four pawn sections differ in the offset between from- and to-square -/
theorem nodup_pawnMoves (p : Pos) : (pawnMoves p).Nodup := by
  let tg : Mv → Int := fun m => ((m.f.val : Int) - m.t.val) % 64
  have hA : ∀ (w : Bool) (mask : BB) (d : Int) (a : Mv), a ∈ addPawnMovesByMask w mask d true → tg a = d % 64 := by
    intro w mask d a ha
    rw [mem_addPawn] at ha
    show ((a.f.val : Int) - a.t.val) % 64 = d % 64
    rw [ha.2.1]; exact sqOff_tag _ _
  have hD : ∀ (mask : BB) (d : Int) (a : Mv), a ∈ addPawnDoubleMovesByMask mask d → tg a = d % 64 := by
    intro mask d a ha
    rw [mem_addPawnDouble] at ha
    show ((a.f.val : Int) - a.t.val) % 64 = d % 64
    rw [ha.2.1]; exact sqOff_tag _ _
  unfold pawnMoves
  simp only
  split
  · obtain ⟨n1, t1⟩ := nodup_append_tag tg _ _ [(-8 : Int) % 64] ((-16 : Int) % 64) (nodup_addPawn _ _ _) (nodup_addPawnDouble _ _)
      (fun a ha => by rw [hA _ _ _ a ha]; exact List.mem_cons_self) (fun b hb => hD _ _ b hb) (by decide)
    obtain ⟨n2, t2⟩ := nodup_append_tag tg _ _ _ ((-7 : Int) % 64) n1 (nodup_addPawn _ _ _) t1 (fun b hb => hA _ _ _ b hb) (by decide)
    exact (nodup_append_tag tg _ _ _ ((-9 : Int) % 64) n2 (nodup_addPawn _ _ _) t2 (fun b hb => hA _ _ _ b hb) (by decide)).1
  · obtain ⟨n1, t1⟩ := nodup_append_tag tg _ _ [(8 : Int) % 64] ((16 : Int) % 64) (nodup_addPawn _ _ _) (nodup_addPawnDouble _ _)
      (fun a ha => by rw [hA _ _ _ a ha]; exact List.mem_cons_self) (fun b hb => hD _ _ b hb) (by decide)
    obtain ⟨n2, t2⟩ := nodup_append_tag tg _ _ _ ((9 : Int) % 64) n1 (nodup_addPawn _ _ _) t1 (fun b hb => hA _ _ _ b hb) (by decide)
    exact (nodup_append_tag tg _ _ _ ((7 : Int) % 64) n2 (nodup_addPawn _ _ _) t2 (fun b hb => hA _ _ _ b hb) (by decide)).1

theorem nodup_two {α : Type} (c1 c2 : Bool) (a b : α) (h : a ≠ b) :
    ((if c1 = true then [a] else []) ++ (if c2 = true then [b] else [])).Nodup := by
  cases c1 <;> cases c2 <;> simp [h]

theorem nodup_castleMoves (p : Pos) (k : Sq) : (castleMoves p k).Nodup := by
  unfold castleMoves
  by_cases hw : p.wtm = true
  case neg =>
    have hw' : p.wtm = false := by simpa using hw
    simp only [hw', Bool.false_eq_true, if_false]
    split
    · apply nodup_two
      intro e
      have := congrArg Mv.t e
      revert this; decide
    · exact List.nodup_nil
  case pos =>
    simp only [hw, if_true]
    split
    · apply nodup_two
      intro e
      have := congrArg Mv.t e
      revert this; decide
    · exact List.nodup_nil

/-! ## the whole list -/

/-- **`MoveGen::pseudoLegalMoves` never emits a move twice** -/
theorem nodup_pseudoLegalMoves (p : Pos) (k : Sq) (h : GenWF p k) : (pseudoLegalMoves p k).Nodup := by
  obtain ⟨hv, hk, hep⟩ := h
  let tg : Mv → UInt8 := fun m => kind p.b[m.f]
  have sQ : ∀ m, m ∈ pieceMoves p.b p.wtm 2 (fun sq => rookAttacks sq (occBB p.b) ||| bishopAttacks sq (occBB p.b))
      (fun _ => ~~~colorBB p.b p.wtm) → tg m = 2 := fun m hm =>
    ((section_iff p ⟨2, by decide⟩ (by decide) (by decide) _ (fun f t hk => attacks_queen p.b hv f t hk) m).1 hm).2
  have sR : ∀ m, m ∈ pieceMoves p.b p.wtm 3 (fun sq => rookAttacks sq (occBB p.b)) (fun _ => ~~~colorBB p.b p.wtm) →
      tg m = 3 := fun m hm =>
    ((section_iff p ⟨3, by decide⟩ (by decide) (by decide) _ (fun f t hk => attacks_rook p.b hv f t hk) m).1 hm).2
  have sB : ∀ m, m ∈ pieceMoves p.b p.wtm 4 (fun sq => bishopAttacks sq (occBB p.b)) (fun _ => ~~~colorBB p.b p.wtm) →
      tg m = 4 := fun m hm =>
    ((section_iff p ⟨4, by decide⟩ (by decide) (by decide) _ (fun f t hk => attacks_bishop p.b hv f t hk) m).1 hm).2
  have sN : ∀ m, m ∈ pieceMoves p.b p.wtm 5 knightAttacks (fun _ => ~~~colorBB p.b p.wtm) → tg m = 5 := fun m hm =>
    ((section_iff p ⟨5, by decide⟩ (by decide) (by decide) _ (fun f t hk => attacks_knight p.b f t hk) m).1 hm).2
  have sK : ∀ m, m ∈ addMovesByMask k (kingAttacks k &&& ~~~colorBB p.b p.wtm) ++ castleMoves p k → tg m = 1 := fun m hm =>
    ((king_section_iff p k hv hk m).1 (List.mem_append.1 hm)).2
  have sP : ∀ m, m ∈ pawnMoves p → tg m = 6 := fun m hm => ((pawn_section_iff p hv hep m).1 hm).2
  -- king steps and castling moves are different moves
  have nK : (addMovesByMask k (kingAttacks k &&& ~~~colorBB p.b p.wtm) ++ castleMoves p k).Nodup := by
    rw [List.nodup_append]
    refine ⟨nodup_addMovesByMask _ _, nodup_castleMoves p k, ?_⟩
    intro a ha b hb e
    subst e
    rw [mem_kingStep] at ha
    obtain ⟨hf, _, hg, _⟩ := ha
    rw [kingGeom_iff'] at hg
    have hb' : (a.f.val = 4 ∨ a.f.val = 60) ∧ ((a.t.val : Int) = a.f.val + 2 ∨ (a.t.val : Int) = a.f.val + -2) := by
      by_cases hw : p.wtm = true
      · rw [hw] at hk
        rw [mem_castle_white p hw k hv hk] at hb
        obtain ⟨_, _, (⟨h1, h2, _⟩ | ⟨h1, h2, _⟩)⟩ := hb
        · rw [h1, h2]; decide
        · rw [h1, h2]; decide
      · have hw' : p.wtm = false := by simpa using hw
        rw [hw'] at hk
        rw [mem_castle_black p hw' k hv hk] at hb
        obtain ⟨_, _, (⟨h1, h2, _⟩ | ⟨h1, h2, _⟩)⟩ := hb
        · rw [h1, h2]; decide
        · rw [h1, h2]; decide
    rw [← hf] at hg
    obtain ⟨⟨g1, _⟩, _⟩ := hg
    have hft := a.f.isLt; have htt := a.t.isLt
    unfold dxy Sq.x at g1
    simp only at g1
    omega
  unfold pseudoLegalMoves
  simp only
  obtain ⟨n1, t1⟩ := nodup_append_tag tg _ _ [2] 3 (nodup_pieceMoves _ _ _ _ _) (nodup_pieceMoves _ _ _ _ _)
    (fun a ha => by rw [sQ a ha]; exact List.mem_cons_self) sR (by decide)
  obtain ⟨n2, t2⟩ := nodup_append_tag tg _ _ _ 4 n1 (nodup_pieceMoves _ _ _ _ _) t1 sB (by decide)
  obtain ⟨n3, t3⟩ := nodup_append_tag tg _ _ _ 1 n2 nK t2 sK (by decide)
  obtain ⟨n4, t4⟩ := nodup_append_tag tg _ _ _ 5 n3 (nodup_pieceMoves _ _ _ _ _) t3 sN (by decide)
  have n5 := (nodup_append_tag tg _ _ _ 6 n4 (nodup_pawnMoves p) t4 sP (by decide)).1
  simpa only [List.append_assoc] using n5

/-! ## the specification's list -/

theorem promos_nodup (w : Bool) : (promos w).Nodup := by cases w <;> decide

theorem nodup_candidates (p : Pos) : (candidates p).Nodup := by
  unfold candidates
  apply nodup_flatMap' _ _ (List.Pairwise.filter _ (List.nodup_finRange 64))
  · intro f _
    apply nodup_flatMap' _ _ (List.nodup_finRange 64)
    · intro t _
      apply nodup_map_inj _ _ _ (promos_nodup _)
      intro a b e; exact (Mv.mk.inj e).2.2
    · intro a b hab x hx y hy e
      subst e
      simp only [List.mem_map] at hx hy
      obtain ⟨_, _, rfl⟩ := hx
      obtain ⟨_, _, e⟩ := hy
      exact hab (Mv.mk.inj e).2.1.symm
  · intro a b hab x hx y hy e
    subst e
    simp only [List.mem_flatMap, List.mem_map] at hx hy
    obtain ⟨_, _, _, _, rfl⟩ := hx
    obtain ⟨_, _, _, _, e⟩ := hy
    exact hab (Mv.mk.inj e).1.symm

theorem nodup_genLegal (p : Pos) : (genLegal p).Nodup := List.Pairwise.filter _ (nodup_candidates p)

/-- **What the engine treats as the legal moves is, up to order, the specification's list of legal moves.** -/
theorem texel_legal_perm (p : Pos) (k : Sq) (h : GenWF p k) : (legalMoves p k).Perm (genLegal p) := by
  have n1 : (legalMoves p k).Nodup := by
    unfold legalMoves
    rw [removeIllegal_eq p k h.valid h.king _ (fun m hm => (mem_pseudoLegalMoves p k h m).1 hm)]
    exact List.Pairwise.filter _ (nodup_pseudoLegalMoves p k h)
  rw [List.perm_ext_iff_of_nodup n1 (nodup_genLegal p)]
  intro m
  rw [mem_legalMoves p k h, mem_genLegal]

/-! ## decidable form of the hypotheses -/

theorem genWF_of_b (p : Pos) (k : Sq) (h : genWFb p k = true) : GenWF p k := by
  unfold genWFb at h
  simp only [Bool.and_eq_true, List.all_eq_true, allSq, List.mem_finRange, true_imp_iff, decide_eq_true_eq, beq_iff_eq,
    Bool.or_eq_true, Bool.not_eq_true', beq_eq_false_iff_ne] at h
  obtain ⟨⟨⟨h1, h2⟩, h3⟩, h4⟩ := h
  refine ⟨h1, ⟨h2, ?_⟩, ?_⟩
  · intro s hs
    rcases h3 s with h | h
    · exact absurd hs h
    · exact h
  · intro e he
    rw [he] at h4
    exact beq_iff_eq.1 h4

end Chess.Texel
