import TexelVerif.Chess.SANRoundtrip
/-! UCI move text round trip (property C17). -/
namespace Chess

private theorem lt8c (x : Nat) (h : x < 8) : x = 0 ∨ x = 1 ∨ x = 2 ∨ x = 3 ∨ x = 4 ∨ x = 5 ∨ x = 6 ∨ x = 7 := by omega

theorem fileCh_toNat (x : Nat) (h : x < 8) : (fileCh x).toNat = 97 + x := by
  rcases lt8c x h with rfl | rfl | rfl | rfl | rfl | rfl | rfl | rfl <;> rfl

theorem rankCh_toNat (y : Nat) (h : y < 8) : (rankCh y).toNat = 49 + y := by
  rcases lt8c y h with rfl | rfl | rfl | rfl | rfl | rfl | rfl | rfl <;> rfl

theorem getSquare_sqChars (s : Sq) : getSquare (fileCh s.x) (rankCh s.y) = some s := by
  unfold getSquare
  rw [fileCh_toNat _ (Sq.x_lt s), rankCh_toNat _ (Sq.y_lt s)]
  have := mkSq?_xy s
  rw [← this]; congr 1 <;> omega

/-- the promotion piece of a move is consistent with the rank it arrives on (true of every legal move) -/
def PromoConsistent (m : Mv) : Prop :=
  m.promo = 0 ∨ (m.t.y = 7 ∧ (m.promo = WQUEEN ∨ m.promo = WROOK ∨ m.promo = WBISHOP ∨ m.promo = WKNIGHT)) ∨
  (m.t.y = 0 ∧ (m.promo = BQUEEN ∨ m.promo = BROOK ∨ m.promo = BBISHOP ∨ m.promo = BKNIGHT))

theorem uci_roundtrip_of (m : Mv) (hne : m.isEmpty = false) (hp : PromoConsistent m) :
    uciStringToMove (moveToUCI m) = some m := by
  obtain ⟨f, t, pr⟩ := m
  unfold PromoConsistent at hp
  simp only at hp
  unfold moveToUCI sqChars uciStringToMove
  simp only
  rcases hp with rfl | ⟨hy, rfl | rfl | rfl | rfl⟩ | ⟨hy, rfl | rfl | rfl | rfl⟩
  · simp [getSquare_sqChars, Option.filter, hne, WQUEEN, WROOK, WBISHOP, WKNIGHT, BQUEEN, BROOK, BBISHOP, BKNIGHT]
  all_goals
    simp only [WQUEEN, WROOK, WBISHOP, WKNIGHT, BQUEEN, BROOK, BBISHOP, BKNIGHT] at hne ⊢
    simp (config := {decide := true}) only [List.cons_append, List.nil_append, Option.filter, if_true, if_false]
    rw [getSquare_sqChars f, getSquare_sqChars t]
    simp [hy, hne]

end Chess

namespace Chess

theorem isPromoPiece_zero (w : Bool) : isPromoPiece w 0 = false := by cases w <;> decide

theorem legal_promoConsistent (p : Pos) (m : Mv) (hm : legalB p m = true) : PromoConsistent m := by
  have hps := legal_pseudo p m hm
  unfold PromoConsistent
  by_cases hk : kind (p.at m.f) = 6
  · have hp := (pseudo_pawn p m hps hk).1
    unfold promoOk at hp
    by_cases hy : (m.t.y == (if p.wtm then 7 else 0)) = true
    · rw [if_pos hy] at hp
      have hmem := promo_mem p.wtm m.promo hp
      have hne : m.promo ≠ 0 := by intro h0; rw [h0, isPromoPiece_zero] at hp; cases hp
      cases hw : p.wtm
      · rw [hw] at hmem hy
        simp only [promos, Bool.false_eq_true, if_false, List.mem_cons, List.not_mem_nil, or_false, beq_iff_eq] at hmem hy
        rcases hmem with h | h | h | h | h
        · exact absurd h hne
        all_goals (right; right; refine ⟨hy, ?_⟩; simp [h, BQUEEN, BROOK, BBISHOP, BKNIGHT])
      · rw [hw] at hmem hy
        simp only [promos, if_true, List.mem_cons, List.not_mem_nil, or_false, beq_iff_eq] at hmem hy
        rcases hmem with h | h | h | h | h
        · exact absurd h hne
        all_goals (right; left; refine ⟨hy, ?_⟩; simp [h, WQUEEN, WROOK, WBISHOP, WKNIGHT])
    · rw [if_neg hy] at hp
      exact Or.inl (by simpa using hp)
  · exact Or.inl (pseudo_nonpawn_promo p m hps hk)

theorem legal_not_empty (p : Pos) (m : Mv) (hm : legalB p m = true) : m.isEmpty = false := by
  have hps := legal_pseudo p m hm
  unfold pseudo at hps
  simp only [Bool.and_eq_true, bne_iff_ne, ne_eq] at hps
  have hft : m.f ≠ m.t := hps.1.2
  unfold Mv.isEmpty
  cases h : (m.f.val == 0 && m.t.val == 0)
  · rfl
  · simp only [Bool.and_eq_true, beq_iff_eq] at h
    exact absurd (Fin.ext (by omega)) hft

end Chess
