import TexelVerif.Chess.Fen
/-!
Acceptor for the move-generation data dumped from the real `MoveGen` (property C01): given a position and
the implementation's lists / verdicts, decide whether they satisfy the specification.
-/
namespace Chess

/-- what the harness dumps for one position -/
structure GenData where
  inChk : Bool
  pseudo : List Mv          -- MoveGen::pseudoLegalMoves
  legalV : List Bool        -- MoveGen::isLegal per pseudo-legal move
  givesV : List Bool        -- MoveGen::givesCheck per pseudo-legal move
  removed : List Mv         -- pseudoLegalMoves followed by removeIllegal
  ev : List Mv              -- MoveGen::checkEvasions (only meaningful when in check)
  caps : List Mv            -- MoveGen::pseudoLegalCaptures
  cc : List Mv              -- MoveGen::pseudoLegalCapturesAndChecks

/-- the moves the implementation treats as legal via `isLegal` -/
def GenData.implLegal (d : GenData) : List Mv :=
  (d.pseudo.zip d.legalV).filterMap fun x => if x.2 then some x.1 else none

/-- promotions the capture / capture-and-check generators emit: none, queen, knight -/
def qnPromo (m : Mv) : Bool := m.promo == 0 || kind m.promo == 2 || kind m.promo == 5

def capClass (p : Pos) (m : Mv) : Bool := isCaptureMv p m && qnPromo m
def ccClass (p : Pos) (m : Mv) : Bool := (isCaptureMv p m || givesCheckSpec p m) && qnPromo m

def nodupB : List Mv → Bool
  | [] => true
  | m :: ms => !ms.contains m && nodupB ms

def chkInCheck (p : Pos) (d : GenData) : Bool := d.inChk == inCheck p.b p.wtm
def chkLengths (d : GenData) : Bool := d.pseudo.length == d.legalV.length && d.pseudo.length == d.givesV.length
def chkPseudoSound (p : Pos) (d : GenData) : Bool := d.pseudo.all (pseudo p)
def chkPseudoComplete (p : Pos) (d : GenData) : Bool := (genPseudo p).all d.pseudo.contains
def chkNodup (d : GenData) : Bool := nodupB d.pseudo && nodupB d.removed
def chkLegalSound (p : Pos) (d : GenData) : Bool := d.implLegal.all (legalB p) && d.removed.all (legalB p)
def chkLegalComplete (legal : List Mv) (d : GenData) : Bool := legal.all d.implLegal.contains && legal.all d.removed.contains
def chkGives (p : Pos) (d : GenData) : Bool :=
  ((d.pseudo.zip d.legalV).zip d.givesV).all fun x => !x.1.2 || x.2 == givesCheckSpec p x.1.1
def chkEvasions (legal : List Mv) (d : GenData) : Bool := !d.inChk || legal.all d.ev.contains
def chkCaps (p : Pos) (legal : List Mv) (d : GenData) : Bool := (legal.filter (capClass p)).all d.caps.contains
def chkCC (p : Pos) (legal : List Mv) (d : GenData) : Bool := d.inChk || (legal.filter (ccClass p)).all d.cc.contains

/-- first failing sub-check, or `none` if the data satisfy the specification -/
def genCheck (p : Pos) (d : GenData) : Option String :=
  let legal := genLegal p
  if !chkInCheck p d then some "inCheck"
  else if !chkLengths d then some "lengths"
  else if !chkNodup d then some "duplicate-move"
  else if !chkPseudoSound p d then some "pseudo-legal-list-has-non-move"
  else if !chkPseudoComplete p d then some "pseudo-legal-list-incomplete"
  else if !chkLegalSound p d then some "illegal-move-accepted"
  else if !chkLegalComplete legal d then some "legal-move-rejected"
  else if !chkGives p d then some "givesCheck"
  else if !chkEvasions legal d then some "evasions-omit-legal-move"
  else if !chkCaps p legal d then some "captures-omit-capture"
  else if !chkCC p legal d then some "captures-and-checks-omit-move"
  else none

def accepts (p : Pos) (d : GenData) : Bool := (genCheck p d).isNone

end Chess
