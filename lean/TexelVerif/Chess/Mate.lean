import TexelVerif.Chess.Line
/-!
Forced mates under the specification, and executable checkers for *certificates* of forced mates
(strategy trees found by an untrusted solver) and of their absence.  Used to audit `score mate N` claims (C04, C13).
-/
namespace Chess

def nextPos (p : Pos) (m : Mv) : Pos := fixupEP (apply p m)

/-- side to move is checkmated -/
def isMated (p : Pos) : Bool := (genLegal p).isEmpty && inCheck p.b p.wtm

/-- `WinIn p n`: the side to move can force checkmate with at most `n` of its own moves -/
inductive WinIn : Pos → Nat → Prop
  | mate (p m n) : legalB p m = true → isMated (nextPos p m) = true → WinIn p (n + 1)
  | step (p m n) : legalB p m = true → (genLegal (nextPos p m)) ≠ [] →
      (∀ r, legalB (nextPos p m) r = true → WinIn (nextPos (nextPos p m) r) (n + 1)) → WinIn p (n + 2)

/-- `LoseIn p n`: the side to move is not yet mated but whatever it plays the opponent mates within `n` moves -/
def LoseIn (p : Pos) (n : Nat) : Prop := genLegal p ≠ [] ∧ ∀ m, legalB p m = true → WinIn (nextPos p m) n

theorem WinIn.mono {p : Pos} {n k : Nat} (h : WinIn p n) (hk : n ≤ k) : WinIn p k := by
  induction h generalizing k with
  | mate p m n hl hm =>
    obtain ⟨k', rfl⟩ : ∃ k', k = k' + 1 := ⟨k - 1, by omega⟩
    exact .mate p m k' hl hm
  | step p m n hl hne _ ih =>
    obtain ⟨k', rfl⟩ : ∃ k', k = k' + 2 := ⟨k - 2, by omega⟩
    exact .step p m k' hl hne (fun r hr => ih r hr (by omega))

/-- certificate of a forced mate: the attacker's move, then either "mate" or one sub-certificate per reply -/
inductive WinCert where
  | mate (m : Mv)
  | node (m : Mv) (replies : List (Mv × WinCert))

/-- the replies of the certificate cover every legal reply -/
def coversAll (legal : List Mv) (given : List Mv) : Bool := legal.all given.contains

def checkWin (p : Pos) : Nat → WinCert → Bool
  | 0, _ => false
  | n + 1, .mate m => legalB p m && isMated (nextPos p m)
  | n + 1, .node m rs =>
    match n with
    | 0 => false
    | n' + 1 =>
      let q := nextPos p m
      legalB p m && !(genLegal q).isEmpty && coversAll (genLegal q) (rs.map (·.1)) &&
        rs.attach.all fun ⟨x, _⟩ => !legalB q x.1 || checkWin (nextPos q x.1) (n' + 1) x.2
termination_by n c => (n, sizeOf c)
decreasing_by
  all_goals simp_wf
  all_goals first | omega | (apply Prod.Lex.left; omega)

end Chess

namespace Chess

theorem checkWin_sound : ∀ (n : Nat) (p : Pos) (c : WinCert), checkWin p n c = true → WinIn p n := by
  intro n
  induction n using Nat.strongRecOn with
  | _ n ih =>
    intro p c h
    match n, c with
    | 0, c => simp [checkWin] at h
    | n + 1, .mate m =>
      simp only [checkWin, Bool.and_eq_true] at h
      exact .mate p m n h.1 h.2
    | 1, .node m rs => simp [checkWin] at h
    | n' + 2, .node m rs =>
      simp only [checkWin, Bool.and_eq_true, Bool.not_eq_true', List.all_eq_true, List.mem_attach,
        forall_const, Subtype.forall, Bool.or_eq_true] at h
      obtain ⟨⟨⟨hl, hne⟩, hcov⟩, hall⟩ := h
      refine .step p m n' hl ?_ ?_
      · intro he; rw [he] at hne; simp at hne
      · intro r hr
        have hr' : r ∈ genLegal (nextPos p m) := (mem_genLegal _ _).2 hr
        have hc := (List.all_eq_true.1 hcov) r hr'
        rw [List.contains_iff_mem, List.mem_map] at hc
        obtain ⟨x, hx, rfl⟩ := hc
        rcases hall x hx with h1 | h2
        · rw [hr] at h1; cases h1
        · exact ih (n' + 1) (by omega) _ _ h2

/-- certificate that no mate can be forced within the budget: for every attacker move a defence -/
inductive NoWinCert where
  | leaf                                              -- budget exhausted
  | node (answers : List (Mv × Option (Mv × NoWinCert)))  -- per attacker move: `none` = stalemate / not mate and no moves;
                                                      -- `some (r, c)` = reply r and the certificate for the position after it

def checkNoWin (p : Pos) : Nat → NoWinCert → Bool
  | 0, _ => true
  | n + 1, .leaf => false
  | n + 1, .node as =>
    coversAll (genLegal p) (as.map (·.1)) &&
    as.attach.all fun ⟨x, _⟩ =>
      !legalB p x.1 ||
      (let q := nextPos p x.1
       match x.2 with
       | none => (genLegal q).isEmpty && !inCheck q.b q.wtm          -- stalemate: the move does not mate
       | some (r, c) => legalB q r && checkNoWin (nextPos q r) n c)
termination_by n c => (n, sizeOf c)
decreasing_by
  all_goals simp_wf
  all_goals first | omega | (apply Prod.Lex.left; omega)

theorem winIn_zero (p : Pos) : ¬ WinIn p 0 := by intro h; cases h

theorem checkNoWin_sound : ∀ (n : Nat) (p : Pos) (c : NoWinCert), checkNoWin p n c = true → ¬ WinIn p n := by
  intro n
  induction n with
  | zero => intro p c _; exact winIn_zero p
  | succ n ih =>
    intro p c h hw
    match c with
    | .leaf => simp [checkNoWin] at h
    | .node as =>
      simp only [checkNoWin, Bool.and_eq_true, List.all_eq_true, List.mem_attach, forall_const, Subtype.forall,
        Bool.or_eq_true, Bool.not_eq_true'] at h
      obtain ⟨hcov, hall⟩ := h
      -- the attacker's first move of the alleged win
      have key : ∀ m, legalB p m = true →
          (isMated (nextPos p m) = true → False) ∧
          (genLegal (nextPos p m) ≠ [] → (∀ r, legalB (nextPos p m) r = true → WinIn (nextPos (nextPos p m) r) n) → False) := by
        intro m hm
        have hm' : m ∈ genLegal p := (mem_genLegal _ _).2 hm
        have hc := (List.all_eq_true.1 hcov) m hm'
        rw [List.contains_iff_mem, List.mem_map] at hc
        obtain ⟨x, hx, rfl⟩ := hc
        rcases hall x hx with h1 | h2
        · rw [hm] at h1; cases h1
        · cases hx2 : x.2 with
          | none =>
            rw [hx2] at h2
            simp only [Bool.and_eq_true, Bool.not_eq_true'] at h2
            constructor
            · intro hmat; simp only [isMated, Bool.and_eq_true] at hmat; rw [h2.2] at hmat; exact absurd hmat.2 (by simp)
            · intro hne _; have := h2.1; simp only [List.isEmpty_iff] at this; exact hne this
          | some rc =>
            obtain ⟨r, c'⟩ := rc
            rw [hx2] at h2
            simp only [Bool.and_eq_true] at h2
            constructor
            · intro hmat
              simp only [isMated, Bool.and_eq_true, List.isEmpty_iff] at hmat
              have : r ∈ genLegal (nextPos p x.1) := (mem_genLegal _ _).2 h2.1
              rw [hmat.1] at this; cases this
            · intro _ hall'
              exact ih _ _ h2.2 (hall' r h2.1)
      cases hw with
      | mate _ m _ hl hm => exact (key m hl).1 hm
      | step _ m n' hl hne hr => exact (key m hl).2 hne hr

/-- a position in which a mate in one exists -/
def hasMateIn1 (p : Pos) : Bool := (genLegal p).any fun m => isMated (nextPos p m)

theorem hasMateIn1_iff (p : Pos) : hasMateIn1 p = true ↔ WinIn p 1 := by
  unfold hasMateIn1
  rw [List.any_eq_true]
  constructor
  · rintro ⟨m, hm, hmat⟩
    exact .mate p m 0 ((mem_genLegal _ _).1 hm) hmat
  · intro h
    cases h with
    | mate _ m _ hl hm => exact ⟨m, (mem_genLegal _ _).2 hl, hm⟩

end Chess
