import TexelVerif.Chess.SAN
/-!
# Index-level models of the text parsers (for the memory-safety half of C17)

The C++ parsers work with `std::string` and integer indices.  Here every `s[i]` / `s.substr(pos, n)` of
`TextIO::readFEN`, `stringToMove`, `uciStringToMove`, `getSquare`, `trim` and `UCIProtocol::tokenize` is an explicit
*checked* access: reading outside `0 … size-1` (or `substr` with `pos > size`) yields the distinguished outcome
`.error .oob` instead of a value.  The loops carry the index exactly as the C++ does (`termination_by size - i`).
`Props/C17.lean` proves that `.oob` is never produced.  `readFENIdx` is the model the malformed-input differential
runs against the real reader; the driver also cross-checks it against the list-level `readFENRaw` on every input.
-/
set_option linter.unusedVariables false
namespace Chess.Idx

inductive PErr where
  | oob
  | fen (e : FenErr)
deriving DecidableEq, Repr

abbrev M := Except PErr

/-- checked `s[i]` followed by the continuation -/
@[inline] def rd {α} (s : Array Char) (i : Nat) (k : Char → M α) : M α :=
  match s[i]? with
  | some c => k c
  | none => .error .oob

/-- checked `s.substr(pos, n)`: `std::out_of_range` when `pos > size` -/
def substr (s : Array Char) (pos n : Nat) : M (Array Char) :=
  if pos ≤ s.size then .ok (s.extract pos (pos + n)) else .error .oob

/-! ## readFEN -/

/-- the piece-placement loop (textio.cpp:41-72); returns the index at which it stopped and the board -/
def placeLoop (s : Array Char) (i : Nat) (row : Int) (col : Nat) (b : Board) : M (Nat × Board) :=
  if h : i < s.size then
    rd s i fun c =>
      if c == ' ' then .ok (i, b)
      else if '1' ≤ c ∧ c ≤ '8' then placeLoop s (i + 1) row (col + (c.toNat - '0'.toNat)) b
      else if c == '/' then
        if row - 1 < 0 then .error (.fen .tooManyRows) else placeLoop s (i + 1) (row - 1) 0 b
      else match pcOfChar c with
        | none => .error (.fen .invalidPiece)
        | some pc =>
          if col > 7 then .error (.fen .tooManyCols)
          else if (pc == WPAWN || pc == BPAWN) && (row == 0 || row == 7) then .error (.fen .pawnRank)
          else placeLoop s (i + 1) row (col + 1) (setSq b (row.toNat * 8 + col) pc)
  else .ok (i, b)
termination_by s.size - i

/-- `while (i < len && fen[i] == ' ') i++` (or `!= ' '` with `sp = false`) -/
def skipWhile (s : Array Char) (sp : Bool) (i : Nat) : M Nat :=
  if h : i < s.size then
    rd s i fun c => if (c == ' ') == sp then skipWhile s sp (i + 1) else .ok i
  else .ok i
termination_by s.size - i

/-- the castling-flag loop (textio.cpp:83-95) -/
def castleLoop (s : Array Char) (i : Nat) (m : UInt8) : M (Nat × UInt8) :=
  if h : i < s.size then
    rd s i fun c =>
      if c == ' ' then .ok (i, m)
      else if c == 'K' then castleLoop s (i + 1) (m ||| 2)
      else if c == 'Q' then castleLoop s (i + 1) (m ||| 1)
      else if c == 'k' then castleLoop s (i + 1) (m ||| 8)
      else if c == 'q' then castleLoop s (i + 1) (m ||| 4)
      else if c == '-' then castleLoop s (i + 1) m
      else .error (.fen .invalidCastle)
  else .ok (i, m)
termination_by s.size - i

/-- `TextIO::getSquare(const std::string& s)`: reads `s[0]` and `s[1]` without looking at the length -/
def getSquareIdx (s : Array Char) : M (Option Sq) :=
  rd s 0 fun c0 => rd s 1 fun c1 => .ok (getSquare c0 c1)

/-- the en-passant field (textio.cpp:109-130); `i < len` is known by the caller's test -/
def epField (s : Array Char) (i : Nat) (b : Board) (wtm : Bool) : M (Option Sq) :=
  rd s i fun c =>
    if c != '-' then
      if i ≥ s.size - 1 then .error (.fen .invalidEp)
      else
        match substr s i 2 with
        | .error e => .error e
        | .ok sub =>
          match getSquareIdx sub with
          | .error e => .error e
          | .ok none => .ok none
          | .ok (some e) =>
            let g (n : Nat) : Pc := b.getD n 0
            if wtm then
              (if e.y != 5 || b[e] != 0 || g (e.val - 8) != BPAWN then .ok none else .ok (some e))
            else
              (if e.y != 2 || b[e] != 0 || g (e.val + 8) != WPAWN then .ok none else .ok (some e))
    else .ok none

/-- a counter field (textio.cpp:134-141 / 144-151) starting at `i < len`: returns the index after the word and the value -/
def counterField (s : Array Char) (i : Nat) (dflt : Int) : M (Nat × Int) :=
  match skipWhile s false i with
  | .error e => .error e
  | .ok j =>
    match substr s i (j - i) with
    | .error e => .error e
    | .ok w => .ok (j, counterOfWord w.toList dflt)

/-- the en-passant field and the skip to its end (textio.cpp:109-130) -/
def epPart (s : Array Char) (i : Nat) (b : Board) (wtm : Bool) : M (Option Sq × Nat) :=
  if i < s.size then
    match epField s i b wtm with
    | .error e => .error e
    | .ok ep =>
      match skipWhile s false i with
      | .error e => .error e
      | .ok j => .ok (ep, j)
  else .ok (none, i)

def counterPart (s : Array Char) (i : Nat) (dflt : Int) : M (Nat × Int) :=
  if i < s.size then counterField s i dflt else .ok (i, dflt)

/-- castling flags are kept only with king and rook on their original squares (textio.cpp:96-104) -/
def castleFix (b : Board) (cm : UInt8) : UInt8 :=
  let g (n : Nat) : Pc := b.getD n 0
  let cm := if g 4 != WKING || g 7 != WROOK then cm &&& ~~~(2 : UInt8) else cm
  let cm := if g 4 != WKING || g 0 != WROOK then cm &&& ~~~(1 : UInt8) else cm
  let cm := if g 60 != BKING || g 63 != BROOK then cm &&& ~~~(8 : UInt8) else cm
  if g 60 != BKING || g 56 != BROOK then cm &&& ~~~(4 : UInt8) else cm

/-- everything after the castling field (textio.cpp:106-177) -/
def readTail (s : Array Char) (i : Nat) (b : Board) (wtm : Bool) (cm : UInt8) : M RawPos :=
  match skipWhile s true i with
  | .error e => .error e
  | .ok i =>
  match epPart s i b wtm with
  | .error e => .error e
  | .ok (ep, i) =>
  match skipWhile s true i with
  | .error e => .error e
  | .ok i =>
  match counterPart s i 0 with
  | .error e => .error e
  | .ok (i, hmc) =>
  match skipWhile s true i with
  | .error e => .error e
  | .ok i =>
  match counterPart s i 1 with
  | .error e => .error e
  | .ok (_, fmc) =>
  match finishRead b wtm cm ep hmc fmc with
  | .error e => .error (.fen e)
  | .ok r => .ok r

/-- `TextIO::readFEN` with every index explicit -/
def readFENIdx (s : Array Char) : M RawPos :=
  match placeLoop s 0 7 0 (Vector.replicate 64 0) with
  | .error e => .error e
  | .ok (i, b) =>
  match skipWhile s true i with
  | .error e => .error e
  | .ok i =>
  if i ≥ s.size then .error (.fen .invalidSide) else
  rd s i fun sc =>                                   -- `fen[i++]`
  match skipWhile s true (i + 1) with
  | .error e => .error e
  | .ok i =>
  match castleLoop s i 0 with
  | .error e => .error e
  | .ok (i, cm) => readTail s i b (sc == 'w') (castleFix b cm)

/-! ## stringToMove / uciStringToMove -/

/-- `for (i = i0; i < s.length(); i++) st = f(st, i, s[i])` with the access checked -/
def forIdx {σ} (s : Array Char) (f : σ → Nat → Char → σ) (i : Nat) (st : σ) : M σ :=
  if h : i < s.size then rd s i fun c => forIdx s f (i + 1) (f st i c) else .ok st
termination_by s.size - i

/-- `TextIO::stringToMove` with the two character loops index-based -/
def stringToMoveIdx (legal : List Mv) (p : Pos) (s : Array Char) : M (Option Mv) :=
  match forIdx s (fun (acc : Array Char) _ c => if c == '=' || c == '+' || c == '#' then acc else acc.push c) 0 #[] with
  | .error e => .error e
  | .ok str =>
    if str.toList == ['-', '-'] then .ok none
    else if isShortCastleText str.toList then
      .ok (selectMatch p (legal.filter (infoMatches p (castleInfo p.wtm true))) false)
    else if isLongCastleText str.toList then
      .ok (selectMatch p (legal.filter (infoMatches p (castleInfo p.wtm false))) false)
    else
      match forIdx str (fun (st : PSt) i c => parseStep p.wtm str.size st i c) 0 {} with
      | .error e => .error e
      | .ok st => .ok (selectMatch p (legal.filter (infoMatches p (finishInfo p.wtm st.info))) st.capture)

/-- `TextIO::uciStringToMove` -/
def uciStringToMoveIdx (s : Array Char) : M (Option Mv) :=
  if s.size < 4 || s.size > 5 then .ok none else
  match substr s 0 2 with
  | .error e => .error e
  | .ok a =>
  match substr s 2 2 with
  | .error e => .error e
  | .ok b =>
  match getSquareIdx a with
  | .error e => .error e
  | .ok fo =>
  match getSquareIdx b with
  | .error e => .error e
  | .ok to =>
  match fo, to with
  | some f, some t =>
    let fin (m : Mv) : M (Option Mv) := .ok (if m.isEmpty then none else some m)
    if s.size == 5 then
      rd s 4 fun prom =>
        if t.y == 7 || t.y == 0 then
          let white := t.y == 7
          if prom == ' ' then fin { f := f, t := t, promo := 0 }
          else if prom == 'q' then fin { f := f, t := t, promo := if white then WQUEEN else BQUEEN }
          else if prom == 'r' then fin { f := f, t := t, promo := if white then WROOK else BROOK }
          else if prom == 'b' then fin { f := f, t := t, promo := if white then WBISHOP else BBISHOP }
          else if prom == 'n' then fin { f := f, t := t, promo := if white then WKNIGHT else BKNIGHT }
          else .ok none
        else .ok none
    else fin { f := f, t := t, promo := 0 }
  | _, _ => .ok none

/-! ## trim and the UCI tokenizer (util.cpp:70-80, uciprotocol.cpp:309-329) -/

def isSpaceC (c : Char) : Bool := c == ' ' || (9 ≤ c.toNat && c.toNat ≤ 13)

/-- inner loop of `trim`: `for (j = len-1; j >= i; j--) if (!isspace(s[j])) return s.substr(i, j-i+1); return ""`;
    `k` counts `j + 1` down to `i` -/
def trimBack (s : Array Char) (i : Nat) : Nat → M (Array Char)
  | 0 => .ok #[]
  | k + 1 =>
    if k < i then .ok #[] else
    rd s k fun c => if !isSpaceC c then substr s i (k - i + 1) else trimBack s i k

def trimFrom (s : Array Char) (i : Nat) : M (Array Char) :=
  if h : i < s.size then
    rd s i fun c => if !isSpaceC c then trimBack s i s.size else trimFrom s (i + 1)
  else .ok #[]
termination_by s.size - i

/-- `trim(s)` -/
def trim (s : Array Char) : M (Array Char) := trimFrom s 0

structure TokSt where
  toks : Array (Array Char) := #[]
  start : Nat := 0
  inWord : Bool := true

def tokLoop (t : Array Char) (i : Nat) (st : TokSt) : M TokSt :=
  if h : i < t.size then
    rd t i fun c =>
      if st.inWord then
        if isSpaceC c then
          match substr t st.start (i - st.start) with
          | .error e => .error e
          | .ok w => tokLoop t (i + 1) { st with toks := st.toks.push w, inWord := false }
        else tokLoop t (i + 1) st
      else
        if !isSpaceC c then tokLoop t (i + 1) { st with start := i, inWord := true }
        else tokLoop t (i + 1) st
  else .ok st
termination_by t.size - i

/-- `UCIProtocol::tokenize` (note: an empty or all-blank line yields one empty token, as in the C++) -/
def tokenize (line : Array Char) : M (Array (Array Char)) :=
  match trim line with
  | .error e => .error e
  | .ok t =>
    match tokLoop t 0 {} with
    | .error e => .error e
    | .ok st =>
      if st.inWord then
        match substr t st.start (t.size - st.start) with
        | .error e => .error e
        | .ok w => .ok (st.toks.push w)
      else .ok st.toks

end Chess.Idx
