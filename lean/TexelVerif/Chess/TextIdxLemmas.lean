import TexelVerif.Chess.TextIdx
/-! No checked access of the index-level parser models ever fails (`.oob` is unreachable). -/
namespace Chess.Idx

def NoOob {α} (x : M α) : Prop := x ≠ .error .oob

theorem rd_of_lt {α} (s : Array Char) (i : Nat) (k : Char → M α) (h : i < s.size) : rd s i k = k s[i] := by
  unfold rd
  rw [Array.getElem?_eq_getElem h]

theorem noOob_ok {α} (a : α) : NoOob (.ok a : M α) := by intro h; cases h
theorem noOob_fen {α} (e : FenErr) : NoOob (.error (.fen e) : M α) := by intro h; cases h

theorem placeLoop_noOob (s : Array Char) (i : Nat) (row : Int) (col : Nat) (b : Board) :
    NoOob (placeLoop s i row col b) := by
  fun_induction placeLoop s i row col b
  · rw [rd_of_lt _ _ _ ‹_›]
    repeat' split
    all_goals first | exact noOob_ok _ | exact noOob_fen _ | apply_assumption
  · exact noOob_ok _

end Chess.Idx

namespace Chess.Idx

theorem skipWhile_noOob (s : Array Char) (sp : Bool) (i : Nat) : NoOob (skipWhile s sp i) := by
  fun_induction skipWhile s sp i
  · rw [rd_of_lt _ _ _ ‹_›]
    repeat' split
    all_goals first | exact noOob_ok _ | apply_assumption
  · exact noOob_ok _

theorem castleLoop_noOob (s : Array Char) (i : Nat) (m : UInt8) : NoOob (castleLoop s i m) := by
  fun_induction castleLoop s i m
  · rw [rd_of_lt _ _ _ ‹_›]
    repeat' split
    all_goals first | exact noOob_ok _ | exact noOob_fen _ | apply_assumption
  · exact noOob_ok _

theorem substr_ok (s : Array Char) (pos n : Nat) (h : pos ≤ s.size) : substr s pos n = .ok (s.extract pos (pos + n)) := by
  unfold substr; rw [if_pos h]

theorem getSquareIdx_ok (s : Array Char) (h : 2 ≤ s.size) : ∃ r, getSquareIdx s = .ok r := by
  unfold getSquareIdx
  rw [rd_of_lt _ _ _ (by omega), rd_of_lt _ _ _ (by omega)]
  exact ⟨_, rfl⟩

theorem epField_noOob (s : Array Char) (i : Nat) (b : Board) (wtm : Bool) (h : i < s.size) : NoOob (epField s i b wtm) := by
  unfold epField
  rw [rd_of_lt _ _ _ h]
  split
  · split
    · exact noOob_fen _
    · rename_i h2
      rw [substr_ok _ _ _ (by omega)]
      obtain ⟨r, hr⟩ := getSquareIdx_ok (s.extract i (i + 2)) (by simp only [Array.size_extract]; omega)
      simp only [hr]
      cases r <;> simp only
      · exact noOob_ok _
      · repeat' split
        all_goals exact noOob_ok _
  · exact noOob_ok _

theorem counterField_noOob (s : Array Char) (i : Nat) (d : Int) (h : i < s.size) : NoOob (counterField s i d) := by
  unfold counterField
  split
  · rename_i e he
    intro hc; cases hc; exact skipWhile_noOob _ _ _ he
  · rw [substr_ok _ _ _ (by omega)]
    exact noOob_ok _

end Chess.Idx

namespace Chess.Idx

theorem epPart_noOob (s : Array Char) (i : Nat) (b : Board) (wtm : Bool) : NoOob (epPart s i b wtm) := by
  unfold epPart
  split
  · rename_i h
    split
    · rename_i e he; intro hc; cases hc; exact epField_noOob _ _ _ _ h he
    · split
      · rename_i e he; intro hc; cases hc; exact skipWhile_noOob _ _ _ he
      · exact noOob_ok _
  · exact noOob_ok _

theorem counterPart_noOob (s : Array Char) (i : Nat) (d : Int) : NoOob (counterPart s i d) := by
  unfold counterPart
  split
  · exact counterField_noOob _ _ _ ‹_›
  · exact noOob_ok _

theorem readTail_noOob (s : Array Char) (i : Nat) (b : Board) (wtm : Bool) (cm : UInt8) : NoOob (readTail s i b wtm cm) := by
  unfold readTail
  repeat' split
  all_goals first
    | exact noOob_ok _
    | exact noOob_fen _
    | (intro hc; cases hc; first
        | exact skipWhile_noOob _ _ _ ‹_›
        | exact epPart_noOob _ _ _ _ ‹_›
        | exact counterPart_noOob _ _ _ ‹_›)

/-- **readFEN never indexes outside its input** -/
theorem readFENIdx_noOob (s : Array Char) : NoOob (readFENIdx s) := by
  unfold readFENIdx
  split
  · intro hc; cases hc; exact placeLoop_noOob _ _ _ _ _ ‹_›
  split
  · intro hc; cases hc; exact skipWhile_noOob _ _ _ ‹_›
  split
  · exact noOob_fen _
  rw [rd_of_lt _ _ _ (by omega)]
  split
  · intro hc; cases hc; exact skipWhile_noOob _ _ _ ‹_›
  split
  · intro hc; cases hc; exact castleLoop_noOob _ _ _ ‹_›
  exact readTail_noOob _ _ _ _ _

end Chess.Idx

namespace Chess.Idx

/-- list-level meaning of `forIdx` -/
def foldIdx {σ} (f : σ → Nat → Char → σ) : Nat → List Char → σ → σ
  | _, [], st => st
  | i, c :: cs, st => foldIdx f (i + 1) cs (f st i c)

theorem forIdx_eq {σ} (s : Array Char) (f : σ → Nat → Char → σ) (i : Nat) (st : σ) :
    forIdx s f i st = .ok (foldIdx f i (s.toList.drop i) st) := by
  fun_induction forIdx s f i st
  · rename_i i st h ih
    rw [rd_of_lt _ _ _ h, ih]
    have : s.toList.drop i = s[i] :: s.toList.drop (i + 1) := by
      rw [List.drop_eq_getElem_cons (by simpa using h)]; simp
    rw [this, foldIdx]
  · rename_i i st h
    have : s.toList.drop i = [] := by
      apply List.drop_eq_nil_of_le; simp; omega
    rw [this, foldIdx]

theorem parseGo_eq_foldIdx (w : Bool) (n : Nat) (i : Nat) (l : List Char) (st : PSt) :
    parseGo w n i l st = foldIdx (fun st i c => parseStep w n st i c) i l st := by
  induction l generalizing i st with
  | nil => rfl
  | cons c cs ih => simp only [parseGo, foldIdx, ih]

theorem strip_fold (i : Nat) (l : List Char) (acc : Array Char) :
    (foldIdx (fun (acc : Array Char) _ c => if c == '=' || c == '+' || c == '#' then acc else acc.push c) i l acc).toList
      = acc.toList ++ stripMoveText l := by
  induction l generalizing i acc with
  | nil => simp [foldIdx, stripMoveText]
  | cons c cs ih =>
    simp only [foldIdx, ih, stripMoveText, List.filter_cons]
    by_cases h : (c == '=' || c == '+' || c == '#') = true
    · simp [h]
    · simp [h]

/-- the index-level `stringToMove` never fails an access and computes exactly the list-level function -/
theorem stringToMoveIdx_eq (legal : List Mv) (p : Pos) (s : Array Char) :
    stringToMoveIdx legal p s = .ok (stringToMoveL legal p s.toList) := by
  unfold stringToMoveIdx stringToMoveL
  rw [forIdx_eq]
  simp only [List.drop_zero]
  have hs := strip_fold 0 s.toList #[]
  simp only [List.nil_append] at hs
  rw [hs]
  by_cases h1 : (stripMoveText s.toList == ['-', '-']) = true
  · simp [h1]
  · simp only [h1]
    unfold parseInfo
    by_cases h2 : isShortCastleText (stripMoveText s.toList) = true
    · simp [h2]
    · by_cases h3 : isLongCastleText (stripMoveText s.toList) = true
      · simp [h2, h3]
      · simp only [h2, h3, Bool.false_eq_true, if_false]
        rw [forIdx_eq, parseGo_eq_foldIdx]
        simp only [List.drop_zero, hs, Array.size_eq_length_toList]

end Chess.Idx

namespace Chess.Idx

theorem uciStringToMoveIdx_eq (s : Array Char) : uciStringToMoveIdx s = .ok (uciStringToMove s.toList) := by
  obtain ⟨l⟩ := s
  match l with
  | [] => rfl
  | [_] => rfl
  | [_, _] => rfl
  | [_, _, _] => rfl
  | [c0, c1, c2, c3] =>
    have e1 : (⟨[c0, c1, c2, c3]⟩ : Array Char).extract 0 (0 + 2) = #[c0, c1] := rfl
    have e2 : (⟨[c0, c1, c2, c3]⟩ : Array Char).extract 2 (2 + 2) = #[c2, c3] := rfl
    simp only [uciStringToMoveIdx, uciStringToMove, substr, getSquareIdx, rd, e1, e2]
    simp
    generalize getSquare c0 c1 = fo
    generalize getSquare c2 c3 = to
    cases fo <;> cases to <;> simp [Option.filter]
    split <;> simp_all
  | [c0, c1, c2, c3, c4] =>
    have e1 : (⟨[c0, c1, c2, c3, c4]⟩ : Array Char).extract 0 (0 + 2) = #[c0, c1] := rfl
    have e2 : (⟨[c0, c1, c2, c3, c4]⟩ : Array Char).extract 2 (2 + 2) = #[c2, c3] := rfl
    simp only [uciStringToMoveIdx, uciStringToMove, substr, getSquareIdx, rd, e1, e2]
    simp
    generalize getSquare c0 c1 = fo
    generalize getSquare c2 c3 = to
    cases fo <;> cases to <;> simp [Option.filter]
    rename_i f t
    by_cases hy : t.y = 7 ∨ t.y = 0
    · simp only [hy, if_true]
      have hE : ∀ m : Mv, (if m.isEmpty = true then none else some m) = (if m.isEmpty = false then some m else none) := by
        intro m; cases m.isEmpty <;> rfl
      repeat' split
      all_goals simp_all
    · simp [hy]
  | _ :: _ :: _ :: _ :: _ :: _ :: _ =>
    simp [uciStringToMoveIdx, uciStringToMove]

end Chess.Idx

namespace Chess.Idx

theorem trimBack_noOob (s : Array Char) (i k : Nat) (hi : i ≤ s.size) (hk : k ≤ s.size) : NoOob (trimBack s i k) := by
  induction k with
  | zero => exact noOob_ok _
  | succ k ih =>
    unfold trimBack
    split
    · exact noOob_ok _
    · rw [rd_of_lt _ _ _ (by omega)]
      split
      · rw [substr_ok _ _ _ hi]; exact noOob_ok _
      · exact ih (by omega)

theorem trimFrom_noOob (s : Array Char) (i : Nat) : NoOob (trimFrom s i) := by
  fun_induction trimFrom s i
  · rename_i i h ih
    rw [rd_of_lt _ _ _ h]
    split
    · exact trimBack_noOob _ _ _ (by omega) (by omega)
    · exact ih
  · exact noOob_ok _

theorem trim_noOob (s : Array Char) : NoOob (trim s) := trimFrom_noOob s 0

theorem tokLoop_spec (t : Array Char) (i : Nat) (st : TokSt) (hs : st.start ≤ i) (hi : i ≤ t.size) :
    NoOob (tokLoop t i st) ∧ ∀ st', tokLoop t i st = .ok st' → st'.start ≤ t.size := by
  fun_induction tokLoop t i st
  · rename_i i st h ih3 ih2 ih1
    rw [rd_of_lt _ _ _ h]
    split
    · split
      · rw [substr_ok _ _ _ (by omega)]
        exact ih3 _ (by show st.start ≤ i + 1; omega) (by omega)
      · exact ih2 (by omega) (by omega)
    · split
      · exact ih1 (by show i ≤ i + 1; omega) (by omega)
      · exact ih2 (by omega) (by omega)
  · rename_i i st h
    refine ⟨noOob_ok _, ?_⟩
    intro st' he
    cases he
    omega

/-- **the UCI tokenizer (with `trim`) never indexes outside its input** -/
theorem tokenize_noOob (line : Array Char) : NoOob (tokenize line) := by
  unfold tokenize
  split
  · rename_i e he; intro hc; cases hc; exact trim_noOob _ he
  · rename_i t ht
    have hspec := tokLoop_spec t 0 {} (by show 0 ≤ 0; omega) (by omega)
    split
    · rename_i e he; intro hc; cases hc; exact hspec.1 he
    · rename_i st hst
      split
      · rw [substr_ok _ _ _ (hspec.2 _ hst)]; exact noOob_ok _
      · exact noOob_ok _

end Chess.Idx
