import TexelVerif.Chess.Fen
/-!
# Un-moves: the relational specification of "legal predecessor" and its executable oracle (property C15)

`RevMoveGen::genMoves(Q, includeAllEpSquares)` (revmovegen.cpp) lists `UnMove = (move, UndoInfo)` pairs; applying
`Position::unMakeMove` to `Q` with such a pair gives a predecessor `P`.  The contract pinned down here (from
revmovegen.hpp and `knownInvalid`):

* `UndoInfo` = captured piece, castle mask of `P`, e.p. square of `P`; the half-move clock is always 0 and not part
  of the contract (`Undo` below has no such field).
* the move is legal in `P`, and playing it followed by the FEN reader's e.p. normalisation (`fixupEP`, Texel keeps an
  e.p. square only when the capture is legal) gives `Q` — compared on board, side to move, castle mask, e.p. square
  (`Pos.core`; the two counters are not restored by an un-move).
* which `P` count (`wfB`): what the FEN reader accepts and normalises to (piece codes valid, one king each, no pawn on
  the first/last rank, side not to move not in check, castle flags only with king and rook at home, e.p. square only
  if the capture is legal), plus the two static facts `knownInvalid`/`getEpMask` use: the square a double-pushed pawn
  came from is empty, and `pieceCountsValid` (pawns + surplus pieces ≤ 8 per side).
* mode `includeAllEpSquares = true`: every such `(m, undoInfo P m)`.  Mode `false`: those whose `P` has no e.p. square,
  or whose move is the e.p. capture itself (`isEpUn`); `Props/C15.lean` proves that this loses no predecessor board.
-/
namespace Chess

/-- `UndoInfo` (undoInfo.hpp) without the half-move clock -/
structure Undo where
  cap : Pc
  castle : UInt8
  ep : Option Sq
deriving DecidableEq

/-- `UnMove` (revmovegen.hpp) -/
structure UnMv where
  m : Mv
  ui : Undo
deriving DecidableEq

/-- what `Position::makeMove` stores in its `UndoInfo` -/
def undoInfo (P : Pos) (m : Mv) : Undo := { cap := P.at m.t, castle := P.castle, ep := P.ep }

/-- the part of a position an un-move restores (everything but the two counters) -/
structure Core where
  b : Board
  wtm : Bool
  castle : UInt8
  ep : Option Sq
deriving DecidableEq

def Pos.core (p : Pos) : Core := { b := p.b, wtm := p.wtm, castle := p.castle, ep := p.ep }

def pawnOf (w : Bool) : Pc := if w then WPAWN else BPAWN

/-- the piece standing on the from-square before the move, read off the position after the move -/
def movedPc (w : Bool) (atT : Pc) (promo : Pc) : Pc := if promo != 0 then pawnOf w else atT

/-- board part of `Position::unMakeMove` (`w` = the side that made the move, `p` = the piece that moved) -/
def unmakeBoardP (qb : Board) (w : Bool) (m : Mv) (cap : Pc) (ep : Option Sq) (p : Pc) : Board :=
  let b := setSq qb m.t.val cap
  let b := setSq b m.f.val p
  let b :=
    if kind p == 1 && m.t.val == m.f.val + 2 then setSq (setSq b (m.f.val + 1) 0) (m.f.val + 3) (if w then WROOK else BROOK)
    else if kind p == 1 && m.t.val + 2 == m.f.val then setSq (setSq b (m.f.val - 1) 0) (m.f.val - 4) (if w then WROOK else BROOK)
    else b
  if kind p == 6 && ep == some m.t then setSq b (if w then m.t.val - 8 else m.t.val + 8) (if w then BPAWN else WPAWN) else b

def unmakeBoard (qb : Board) (w : Bool) (m : Mv) (cap : Pc) (ep : Option Sq) : Board :=
  unmakeBoardP qb w m cap ep (movedPc w qb[m.t] m.promo)

/-- `Position::unMakeMove` -/
def unmake (Q : Pos) (m : Mv) (ui : Undo) : Pos :=
  { b := unmakeBoard Q.b (!Q.wtm) m ui.cap ui.ep, wtm := !Q.wtm, castle := ui.castle, ep := ui.ep, hmc := 0,
    fmc := if Q.wtm then Q.fmc - 1 else Q.fmc }

/-! ## which predecessors count -/

def validCodes (b : Board) : Bool := allSq.all fun s => b[s] ≤ 12

def noBackRankPawns (b : Board) : Bool := allSq.all fun s => !((s.y == 0 || s.y == 7) && kind b[s] == 6)

/-- the largest castle mask the board allows (king and rook on their home squares) -/
def castleMax (b : Board) : UInt8 :=
  (if b[sq 4] == WKING then (if b[sq 0] == WROOK then 1 else 0) ||| (if b[sq 7] == WROOK then 2 else 0) else 0) |||
  (if b[sq 60] == BKING then (if b[sq 56] == BROOK then 4 else 0) ||| (if b[sq 63] == BROOK then 8 else 0) else 0)

def castleConsistent (p : Pos) : Bool := p.castle &&& ~~~(castleMax p.b) == 0

/-- static shape of an e.p. square: right rank, the square and the square behind it empty, the double-pushed enemy
    pawn in front of it, and a pawn of the side to move beside that pawn -/
def epShape (p : Pos) : Bool :=
  match p.ep with
  | none => true
  | some e =>
    let g (n : Nat) : Pc := p.b.getD n 0
    if p.wtm then
      e.y == 5 && p.at e == 0 && g (e.val - 8) == BPAWN && g (e.val + 8) == 0 &&
        ((e.x > 0 && g (e.val - 9) == WPAWN) || (e.x < 7 && g (e.val - 7) == WPAWN))
    else
      e.y == 2 && p.at e == 0 && g (e.val + 8) == WPAWN && g (e.val - 8) == 0 &&
        ((e.x > 0 && g (e.val + 7) == BPAWN) || (e.x < 7 && g (e.val + 9) == BPAWN))

/-- `pieceCountsValid` (revmovegen.cpp): the pawns plus the pieces that can only come from promotions are at most 8 -/
def pieceCountsValid (b : Board) : Bool :=
  let c (pc : Pc) : Nat := countPc b pc
  (c WPAWN + (c WKNIGHT - 2) + (c WBISHOP - 2) + (c WROOK - 2) + (c WQUEEN - 1) ≤ 8) &&
  (c BPAWN + (c BKNIGHT - 2) + (c BBISHOP - 2) + (c BROOK - 2) + (c BQUEEN - 1) ≤ 8)

/-- **the predecessors that count** (see the file header) -/
def wfB (p : Pos) : Bool :=
  epShape p && castleConsistent p && validCodes p.b && noBackRankPawns p.b &&
  countPc p.b WKING == 1 && countPc p.b BKING == 1 && pieceCountsValid p.b &&
  !inCheck p.b (!p.wtm) && (fixupEP p).ep == p.ep

/-- is one of the (at most two) e.p. captures onto `e` legal? -/
def epCapLegal (p : Pos) (e : Sq) : Bool :=
  let fy : Int := (e.y : Int) - (if p.wtm then 1 else -1)
  [(-1 : Int), 1].any fun dx =>
    match mkSq? ((e.x : Int) + dx) fy with
    | some f => kind (p.at f) == 6 && legalB p { f := f, t := e, promo := 0 }
    | none => false

def epValid (p : Pos) : Bool :=
  match p.ep with
  | none => true
  | some e => epCapLegal p e

/-- `wfB` with the e.p. clause evaluated by `epValid` (equal to `wfB`, see `wfFast_eq`; `fixupEP` generates all legal
    moves, which is far too slow for the inner loop of the oracle) -/
def wfFast (p : Pos) : Bool :=
  epShape p && castleConsistent p && validCodes p.b && noBackRankPawns p.b &&
  countPc p.b WKING == 1 && countPc p.b BKING == 1 && pieceCountsValid p.b &&
  !inCheck p.b (!p.wtm) && epValid p

/-- **the relational specification**: `x` is the un-move of a legal move from a predecessor that counts -/
def Pred (Q : Pos) (x : UnMv) : Prop :=
  ∃ P : Pos, wfB P = true ∧ legalB P x.m = true ∧ (fixupEP (apply P x.m)).core = Q.core ∧ x.ui = undoInfo P x.m

/-- in mode `includeAllEpSquares = false` an e.p. square of the predecessor is reported only for the e.p. capture -/
def isEpUn (Q : Pos) (x : UnMv) : Bool := kind (Q.at x.m.t) == 6 && x.ui.ep == some x.m.t

/-- the same un-move with the predecessor's e.p. square forgotten -/
def UnMv.noEp (x : UnMv) : UnMv := { m := x.m, ui := { cap := x.ui.cap, castle := x.ui.castle, ep := none } }

/-- `Pred` evaluated directly with the forward rules on the predecessor that `unmake` builds -/
def predB (Q : Pos) (x : UnMv) : Bool :=
  let P := unmake Q x.m x.ui
  pseudo P x.m && wfFast P && legalB P x.m && (fixupEP (apply P x.m)).core == Q.core && undoInfo P x.m == x.ui

/-! ## candidates -/

/-- necessary condition on the displacement of a move of piece `pc` (prunes the candidate from-squares) -/
def geomB (pc : Pc) (m : Mv) : Bool :=
  let d := dxy m.f m.t
  match kind pc with
  | 6 => d.1.natAbs ≤ 1 && d.2.natAbs ≤ 2
  | 1 => d.1.natAbs ≤ 2 && d.2.natAbs ≤ 1
  | 5 => (d.1.natAbs == 1 && d.2.natAbs == 2) || (d.1.natAbs == 2 && d.2.natAbs == 1)
  | _ => d.1 == 0 || d.2 == 0 || d.1.natAbs == d.2.natAbs

/-- candidate moves: the destination holds a piece of the side that moved; the promotion piece is none or that
    piece; the from-square is any square geometrically compatible with the piece that moved -/
def mvCands (Q : Pos) : List Mv :=
  let w := !Q.wtm
  (allSq.filter fun t => own w (Q.at t)).flatMap fun t =>
    [0, Q.at t].flatMap fun pr =>
      (allSq.filter fun f => geomB (movedPc w (Q.at t) pr) { f := f, t := t, promo := pr }).map fun f =>
        { f := f, t := t, promo := pr }

/-- candidate captured pieces: none, or any piece of the other side (`w` = the side that moved) -/
def capCands (w : Bool) : List Pc := if w then [0, 7, 8, 9, 10, 11, 12] else [0, 1, 2, 3, 4, 5, 6]

/-- candidate castle masks of the predecessor: those that the move turns into `Q`'s mask -/
def castleCands (Q : Pos) (m : Mv) : List UInt8 :=
  ((List.range 16).map UInt8.ofNat).filter fun c => c &&& castleKeep m.f &&& castleKeep m.t == Q.castle

/-- necessary condition for `e` to have been the predecessor's e.p. square, read off `Q`: the double-pushed pawn in
    front of `e` is still there unless the move captured it (normally, or en passant); `e` and the square behind it
    are still empty unless the move went there -/
def epTracePlausible (Q : Pos) (m : Mv) (e : Sq) : Bool :=
  let i := if Q.wtm then e.val + 8 else e.val - 8
  let j := if Q.wtm then e.val - 8 else e.val + 8
  (Q.b.getD i 0 == (if Q.wtm then WPAWN else BPAWN) || m.t.val == i || m.t == e) &&
  (Q.b.getD e.val 0 == 0 || m.t == e) && (Q.b.getD j 0 == 0 || m.t.val == j)

/-- candidate e.p. squares of the predecessor -/
def epCands (all : Bool) (Q : Pos) (m : Mv) : List (Option Sq) :=
  if all then none :: (allSq.filter fun e => e.y == (if Q.wtm then 2 else 5) && epTracePlausible Q m e).map some
  else if kind (Q.at m.t) == 6 then [none, some m.t] else [none]

def cands (all : Bool) (Q : Pos) : List UnMv :=
  (mvCands Q).flatMap fun m => (capCands (!Q.wtm)).flatMap fun cap => (castleCands Q m).flatMap fun c =>
    (epCands all Q m).map fun ep => { m := m, ui := { cap := cap, castle := c, ep := ep } }

/-- **the oracle**: the un-moves of `Q` (`all` = `includeAllEpSquares`) -/
def unMoves (all : Bool) (Q : Pos) : List UnMv := (cands all Q).filter (predB Q)

def unMovesSpec (Q : Pos) : List UnMv := unMoves true Q

def unMvToString (x : UnMv) : String :=
  mvToUci x.m ++ ":" ++ toString x.ui.cap.toNat ++ ":" ++ toString x.ui.castle.toNat ++ ":" ++
    (match x.ui.ep with | some e => sqName e | none => "-")

end Chess
