import TexelVerif.Chess.TexelGenEvade
/-!
Geometry for `MoveGen::givesCheck` and `MoveGen::pseudoLegalCapturesAndChecks`:
* `Seg b a dx dy n c` — walking from `a` in direction `(dx, dy)` over board `b`, the `n`-th square is `c` and the
  squares before it are empty; splitting, joining, reversing, transfer to another board;
* `walkPiece_iff`, `nextPiece_iff` — `MoveGen::nextPiece(Safe)` returns piece `v` iff the first occupied square of the
  ray holds `v`;
* decoding of the values of `BitBoard::getDirection` as tested by the `switch` statements of `givesCheck`
  (`isRookDelta_iff`, `isBishDelta_iff`, `knight_dir_iff`);
* `atkFrom_cases`, `new_attack` — an attack on a square that exists on board `b'` but not on board `b` by an unchanged
  piece is a slider whose ray passes a square that `b` occupies and `b'` does not (first such square seen from the target).
-/
namespace Chess.Texel
open PosImpl (BB getP getP_eq)

/-! ## segments -/

def emp (b : Board) : Sq → Bool := fun q => b[q] == 0

/-- walking from `a` in direction `(dx, dy)`, the `n`-th square is `c` and the `n-1` squares before it are empty on `b` -/
def Seg (b : Board) (a : Sq) (dx dy : Int) (n : Nat) (c : Sq) : Prop := ReachN (emp b) a.x a.y dx dy n c

theorem emp_eq_occ (b : Board) (hv : ValidB b) : (fun q => !tst (occBB b) q) = emp b := by
  funext q
  unfold emp
  rw [tst_occBB b hv]
  cases h : (b[q] == 0) <;> simp_all

theorem tst_ray_seg (b : Board) (hv : ValidB b) (K s : Sq) (dx dy : Int) (hd : IsDir dx dy) :
    tst (ray (occBB b) K dx dy) s = true ↔ ∃ n, Seg b K dx dy n s := by
  rw [tst_ray_iff _ _ _ _ _ hd, emp_eq_occ b hv]; rfl

namespace Seg
variable {b b' : Board} {a c : Sq} {dx dy : Int} {n : Nat}

theorem pos (h : Seg b a dx dy n c) : 1 ≤ n := h.1
theorem step (h : Seg b a dx dy n c) : stepSq a.x a.y dx dy n = some c := h.2.1

theorem inner (h : Seg b a dx dy n c) (j : Nat) (hj1 : 1 ≤ j) (hjn : j < n) :
    ∃ q, stepSq a.x a.y dx dy j = some q ∧ b[q] = 0 := by
  obtain ⟨q, hq, he⟩ := h.2.2 j hj1 hjn
  exact ⟨q, hq, beq_iff_eq.1 he⟩

theorem inner_zero (h : Seg b a dx dy n c) (j : Nat) (q : Sq) (hj1 : 1 ≤ j) (hjn : j < n)
    (hq : stepSq a.x a.y dx dy j = some q) : b[q] = 0 := by
  obtain ⟨q', hq', he⟩ := h.inner j hj1 hjn
  rw [hq] at hq'; cases hq'; exact he

theorem rev (h : Seg b a dx dy n c) : Seg b c (-dx) (-dy) n a := reachN_rev _ a c dx dy n h

theorem congr (h : Seg b a dx dy n c)
    (hh : ∀ j q, 1 ≤ j → j < n → stepSq a.x a.y dx dy j = some q → b[q] = 0 → b'[q] = 0) : Seg b' a dx dy n c := by
  refine reachN_congr _ _ _ _ _ _ _ _ h ?_
  intro j q h1 h2 hq he
  have := hh j q h1 h2 hq (beq_iff_eq.1 he)
  unfold emp; rw [this]; rfl

theorem pre (h : Seg b a dx dy n c) (j : Nat) (q : Sq) (hj1 : 1 ≤ j) (hjn : j < n)
    (hq : stepSq a.x a.y dx dy j = some q) : Seg b a dx dy j q :=
  reachN_prefix _ _ _ _ _ _ _ h j q hj1 hjn hq

theorem suf (h : Seg b a dx dy n c) (j : Nat) (q : Sq) (hjn : j < n)
    (hq : stepSq a.x a.y dx dy j = some q) : Seg b q dx dy (n - j) c := by
  refine ⟨by omega, ?_, ?_⟩
  · rw [stepSq_from a q dx dy j (n - j) hq, ← h.step]; congr 1; omega
  · intro i hi1 hin
    rw [stepSq_from a q dx dy j i hq]
    exact h.2.2 (j + i) (by omega) (by omega)

theorem join {q : Sq} {j i : Nat} (h1 : Seg b a dx dy j q) (hq : b[q] = 0) (h2 : Seg b q dx dy i c) :
    Seg b a dx dy (j + i) c := by
  refine ⟨by have := h1.pos; omega, ?_, ?_⟩
  · rw [← stepSq_from a q dx dy j i h1.step]; exact h2.step
  · intro l hl1 hl2
    rcases Nat.lt_trichotomy l j with hlt | heq | hgt
    · exact h1.2.2 l hl1 hlt
    · subst heq; exact ⟨q, h1.step, by unfold emp; rw [hq]; rfl⟩
    · have := h2.2.2 (l - j) (by omega) (by omega)
      rw [stepSq_from a q dx dy j (l - j) h1.step] at this
      have e : j + (l - j) = l := by omega
      rw [e] at this; exact this

theorem dir (hd : IsDir dx dy) (h : Seg b a dx dy n c) : direction a c = dy * 8 + dx :=
  (direction_iff a c dx dy hd).2 ⟨n, h.pos, h.step⟩

theorem ne (hd : IsDir dx dy) (h : Seg b a dx dy n c) : a ≠ c := by
  intro e; subst e
  have := step_inj _ _ _ _ hd n 0 a h.step (stepSq_zero a dx dy)
  have := h.pos; omega

theorem le7 (hd : IsDir dx dy) (h : Seg b a dx dy n c) : n ≤ 7 := step_le7 a c dx dy hd n h.step

/-- two segments along one ray that end on occupied squares are the same segment -/
theorem first_unique {c' : Sq} {n' : Nat} (h : Seg b a dx dy n c) (h' : Seg b a dx dy n' c')
    (hc : b[c] ≠ 0) (hc' : b[c'] ≠ 0) : n = n' ∧ c = c' := by
  rcases Nat.lt_trichotomy n n' with hlt | heq | hgt
  · exact absurd (h'.inner_zero n c h.pos hlt h.step) hc
  · subst heq
    have := h.step; rw [h'.step] at this
    exact ⟨rfl, (Option.some.inj this).symm⟩
  · exact absurd (h.inner_zero n' c' h'.pos hgt h'.step) hc'

end Seg

theorem seg_one (b : Board) (a c : Sq) (dx dy : Int) (h : stepSq a.x a.y dx dy 1 = some c) : Seg b a dx dy 1 c :=
  ⟨Nat.le_refl _, h, fun j h1 h2 => by omega⟩

/-- the first square of a partly occupied stretch of a ray that is occupied -/
theorem first_blocker (b : Board) (a : Sq) (dx dy : Int) (n : Nat)
    (hsq : ∀ j, 1 ≤ j → j < n → ∃ q, stepSq a.x a.y dx dy j = some q)
    (j : Nat) (q : Sq) (hj1 : 1 ≤ j) (hjn : j < n) (hq : stepSq a.x a.y dx dy j = some q) (hb : b[q] ≠ 0) :
    ∃ i v, 1 ≤ i ∧ i ≤ j ∧ b[v] ≠ 0 ∧ Seg b a dx dy i v := by
  induction j using Nat.strongRecOn generalizing q with
  | _ j ih =>
    by_cases hall : ∀ i, 1 ≤ i → i < j → ∀ v, stepSq a.x a.y dx dy i = some v → b[v] = 0
    · refine ⟨j, q, hj1, Nat.le_refl _, hb, hj1, hq, ?_⟩
      intro i hi1 hij
      obtain ⟨v, hv⟩ := hsq i hi1 (by omega)
      exact ⟨v, hv, by unfold emp; rw [hall i hi1 hij v hv]; rfl⟩
    · have : ∃ i, 1 ≤ i ∧ i < j ∧ ∃ v, stepSq a.x a.y dx dy i = some v ∧ b[v] ≠ 0 := by
        apply Classical.byContradiction
        intro hn
        apply hall
        intro i hi1 hij v hv
        apply Classical.byContradiction
        intro hne
        exact hn ⟨i, hi1, hij, v, hv, hne⟩
      obtain ⟨i, hi1, hij, v, hv, hne⟩ := this
      obtain ⟨i', v', a1, a2, a3, a4⟩ := ih i hij v hi1 (by omega) hv hne
      exact ⟨i', v', a1, by omega, a3, a4⟩

/-! ## `nextPiece` -/

theorem walkPiece_iff (b : Board) (dx dy : Int) (n0 : Nat) (x y : Int) (v : Pc) (hv : v ≠ 0) :
    walkPiece b dx dy n0 x y = v ↔ ∃ n c, n ≤ n0 ∧ ReachN (emp b) x y dx dy n c ∧ b[c] = v := by
  induction n0 generalizing x y with
  | zero =>
    unfold walkPiece
    constructor
    · intro h; exact absurd h.symm hv
    · rintro ⟨n, c, hn, h1, _⟩; have := h1.1; omega
  | succ n0 ih =>
    unfold walkPiece
    cases hq : mkSq? (x + dx) (y + dy) with
    | none =>
      simp only
      constructor
      · intro h; exact absurd h.symm hv
      · rintro ⟨n, c, _, ⟨h1, h2, h3⟩, _⟩
        exfalso
        by_cases e : n = 1
        · subst e; rw [stepSq_one, hq] at h2; cases h2
        · obtain ⟨q, h, _⟩ := h3 1 (by omega) (by omega)
          rw [stepSq_one, hq] at h; cases h
    | some q =>
      simp only
      by_cases hb : b[q] = 0
      · have : (b[q] != 0) = false := by simp [hb]
        rw [this]
        simp only [Bool.false_eq_true, if_false]
        rw [ih]
        have hemp : emp b q = true := by unfold emp; rw [hb]; rfl
        constructor
        · rintro ⟨n, c, hn, hr, hc⟩
          exact ⟨n + 1, c, by omega, (reachN_shift _ x y dx dy n c q hq hemp hr.1).1 hr, hc⟩
        · rintro ⟨n, c, hn, hr, hc⟩
          have hn1 : n ≠ 1 := by
            intro e1; subst e1
            have := hr.2.1; rw [stepSq_one, hq] at this
            have : q = c := Option.some.inj this
            subst this
            exact hv (hc.symm.trans hb)
          obtain ⟨n', rfl⟩ : ∃ n', n = n' + 1 := ⟨n - 1, by have := hr.1; omega⟩
          have hn' : 1 ≤ n' := by have := hr.1; omega
          exact ⟨n', c, by omega, (reachN_shift _ x y dx dy n' c q hq hemp hn').2 hr, hc⟩
      · have : (b[q] != 0) = true := bne_iff_ne.2 hb
        rw [this]
        simp only [if_true]
        constructor
        · intro h
          exact ⟨1, q, by omega, ⟨Nat.le_refl _, by rw [stepSq_one]; exact hq, fun j h1 h2 => by omega⟩, h⟩
        · rintro ⟨n, c, _, ⟨h1, h2, h3⟩, hc⟩
          by_cases e1 : n = 1
          · subst e1; rw [stepSq_one, hq] at h2
            have : q = c := Option.some.inj h2
            subst this; exact hc
          · exfalso
            obtain ⟨q', h, he⟩ := h3 1 (by omega) (by omega)
            rw [stepSq_one, hq] at h
            have : q = q' := Option.some.inj h
            subst this
            exact hb (beq_iff_eq.1 he)

theorem deltaDir_code (dx dy : Int) (hd : IsDir dx dy) : deltaDir (dy * 8 + dx) = some (dx, dy) := by
  obtain ⟨a1, a2, a3, a4, a5⟩ := hd
  rcases dir_cases a1 a2 with rfl | rfl | rfl <;> rcases dir_cases a3 a4 with rfl | rfl | rfl <;>
    first | (exfalso; omega) | decide

/-- **`MoveGen::nextPiece` / `nextPieceSafe`**: the walk returns the non-empty piece `v` iff the first occupied square
    of the ray holds `v` -/
theorem nextPiece_iff (b : Board) (s : Sq) (dx dy : Int) (hd : IsDir dx dy) (v : Pc) (hv : v ≠ 0) :
    nextPiece b s (dy * 8 + dx) = v ↔ ∃ n c, Seg b s dx dy n c ∧ b[c] = v := by
  unfold nextPiece
  rw [deltaDir_code dx dy hd]
  simp only
  rw [walkPiece_iff b dx dy 7 _ _ v hv]
  constructor
  · rintro ⟨n, c, _, h, hc⟩; exact ⟨n, c, h, hc⟩
  · rintro ⟨n, c, h, hc⟩; exact ⟨n, c, h.le7 hd, h, hc⟩

theorem nextPiece_none (b : Board) (s : Sq) (d : Int) (h : deltaDir d = none) : nextPiece b s d = EMPTY := by
  unfold nextPiece; rw [h]

/-! ## values of `getDirection` -/

theorem isRookDelta_iff (d : Int) : isRookDelta d = true ↔ ∃ dx dy, RookD dx dy ∧ d = dy * 8 + dx := by
  unfold isRookDelta RookD
  simp only [Bool.or_eq_true, beq_iff_eq]
  constructor
  · rintro (((h | h) | h) | h)
    · exact ⟨0, 1, by omega, by omega⟩
    · exact ⟨0, -1, by omega, by omega⟩
    · exact ⟨1, 0, by omega, by omega⟩
    · exact ⟨-1, 0, by omega, by omega⟩
  · rintro ⟨dx, dy, h, rfl⟩; omega

theorem isBishDelta_iff (d : Int) : isBishDelta d = true ↔ ∃ dx dy, BishD dx dy ∧ d = dy * 8 + dx := by
  unfold isBishDelta BishD
  simp only [Bool.or_eq_true, beq_iff_eq]
  constructor
  · rintro (((h | h) | h) | h)
    · exact ⟨1, 1, by omega, by omega⟩
    · exact ⟨-1, 1, by omega, by omega⟩
    · exact ⟨-1, -1, by omega, by omega⟩
    · exact ⟨1, -1, by omega, by omega⟩
  · rintro ⟨dx, dy, h, rfl⟩; omega

theorem rook_not_bish (dx dy : Int) (h : RookD dx dy) : isBishDelta (dy * 8 + dx) = false := by
  unfold RookD at h
  rcases h with ⟨rfl, rfl⟩ | ⟨rfl, rfl⟩ | ⟨rfl, rfl⟩ | ⟨rfl, rfl⟩ <;> decide

theorem bish_not_rook (dx dy : Int) (h : BishD dx dy) : isRookDelta (dy * 8 + dx) = false := by
  unfold BishD at h
  rcases h with ⟨rfl, rfl⟩ | ⟨rfl, rfl⟩ | ⟨rfl, rfl⟩ | ⟨rfl, rfl⟩ <;> decide

theorem code_ne_zero (dx dy : Int) (hd : IsDir dx dy) : dy * 8 + dx ≠ 0 := by
  unfold IsDir at hd; omega

theorem code_inj (dx dy ex ey : Int) (hd : IsDir dx dy) (he : IsDir ex ey) (h : dy * 8 + dx = ey * 8 + ex) :
    dx = ex ∧ dy = ey := by
  unfold IsDir at hd he; omega

theorem code_neg (dx dy : Int) : -(dy * 8 + dx) = (-dy) * 8 + (-dx) := by omega

/-- the `default:` branch of the first `switch` of `givesCheck`: a non-zero value that is neither a rook nor a bishop
    step is a knight jump -/
def knTable : Bool :=
  rng15.all fun X => rng15.all fun Y =>
    ((!isRookDelta (dirXY X Y) && !isBishDelta (dirXY X Y) && dirXY X Y != 0) ==
      ((X.natAbs == 1 && Y.natAbs == 2) || (X.natAbs == 2 && Y.natAbs == 1)))

set_option maxRecDepth 100000 in
theorem knTable_ok : knTable = true := by decide +kernel

theorem knight_dir_iff (a c : Sq) :
    (!isRookDelta (direction a c) && !isBishDelta (direction a c) && direction a c != 0) = knightGeom a c := by
  have h := knTable_ok
  unfold knTable at h
  rw [List.all_eq_true] at h
  obtain ⟨hx1, hx2⟩ := Sq.dx_bounds a c
  obtain ⟨hy1, hy2⟩ := Sq.dy_bounds a c
  have h := h ((c.x : Int) - a.x) (by unfold rng15; exact List.mem_map.2 ⟨((c.x : Int) - a.x + 7).toNat, List.mem_range.2 (by omega), by omega⟩)
  rw [List.all_eq_true] at h
  have h := h ((c.y : Int) - a.y) (by unfold rng15; exact List.mem_map.2 ⟨((c.y : Int) - a.y + 7).toNat, List.mem_range.2 (by omega), by omega⟩)
  rw [direction_eq]
  unfold knightGeom dxy
  exact beq_iff_eq.1 h

/-! ## attacks by kind -/

/-- a slider of kind `pc` moves along direction `(dx, dy)` -/
def sliderOn (pc : Pc) (dx dy : Int) : Prop :=
  (RookD dx dy ∧ (kind pc = 3 ∨ kind pc = 2)) ∨ (BishD dx dy ∧ (kind pc = 4 ∨ kind pc = 2))

theorem sliderOn.isDir {pc : Pc} {dx dy : Int} (h : sliderOn pc dx dy) : IsDir dx dy := by
  rcases h with ⟨h, _⟩ | ⟨h, _⟩
  · exact h.isDir
  · exact h.isDir

theorem atkFrom_of_slider (pc : Pc) (occ : BB) (s K : Sq) (dx dy : Int) (h : sliderOn pc dx dy)
    (hr : tst (ray occ K dx dy) s = true) : atkFrom pc occ s K = true := by
  unfold atkFrom
  rcases h with ⟨hd, hk⟩ | ⟨hd, hk⟩
  · have hra : tst (rookAttacks K occ) s = true := (tst_rook_iff K s occ).2 ⟨dx, dy, hd, hr⟩
    rcases hk with hk | hk <;> rw [hk] <;> simp [hra]
  · have hba : tst (bishopAttacks K occ) s = true := (tst_bishop_iff K s occ).2 ⟨dx, dy, hd, hr⟩
    rcases hk with hk | hk <;> rw [hk] <;> simp [hba]

theorem atkFrom_cases (pc : Pc) (occ : BB) (s K : Sq) (h : atkFrom pc occ s K = true) :
    (kind pc = 1 ∧ kingGeom K s = true) ∨ (kind pc = 5 ∧ knightGeom K s = true) ∨
    (kind pc = 6 ∧ pawnGeom (!isWhite pc) K s = true) ∨
    ∃ dx dy, sliderOn pc dx dy ∧ tst (ray occ K dx dy) s = true := by
  unfold atkFrom at h
  split at h <;> rename_i hk
  · exact Or.inl ⟨hk, h⟩
  · exact Or.inr (Or.inl ⟨hk, h⟩)
  · exact Or.inr (Or.inr (Or.inl ⟨hk, h⟩))
  · obtain ⟨dx, dy, hd, hr⟩ := (tst_rook_iff K s occ).1 h
    exact Or.inr (Or.inr (Or.inr ⟨dx, dy, Or.inl ⟨hd, Or.inl hk⟩, hr⟩))
  · obtain ⟨dx, dy, hd, hr⟩ := (tst_bishop_iff K s occ).1 h
    exact Or.inr (Or.inr (Or.inr ⟨dx, dy, Or.inr ⟨hd, Or.inl hk⟩, hr⟩))
  · rw [Bool.or_eq_true] at h
    rcases h with h | h
    · obtain ⟨dx, dy, hd, hr⟩ := (tst_rook_iff K s occ).1 h
      exact Or.inr (Or.inr (Or.inr ⟨dx, dy, Or.inl ⟨hd, Or.inr hk⟩, hr⟩))
    · obtain ⟨dx, dy, hd, hr⟩ := (tst_bishop_iff K s occ).1 h
      exact Or.inr (Or.inr (Or.inr ⟨dx, dy, Or.inr ⟨hd, Or.inr hk⟩, hr⟩))
  · cases h

theorem atkFrom_king (pc : Pc) (occ : BB) (s K : Sq) (hk : kind pc = 1) : atkFrom pc occ s K = kingGeom K s := by
  unfold atkFrom; simp only [hk]
theorem atkFrom_knight (pc : Pc) (occ : BB) (s K : Sq) (hk : kind pc = 5) : atkFrom pc occ s K = knightGeom K s := by
  unfold atkFrom; simp only [hk]
theorem atkFrom_pawn (pc : Pc) (occ : BB) (s K : Sq) (hk : kind pc = 6) :
    atkFrom pc occ s K = pawnGeom (!isWhite pc) K s := by
  unfold atkFrom; simp only [hk]

/-- **a new attack by an unchanged piece is a discovered attack**: if the piece on `s` attacks `K` over `b'` but not over
    `b`, it is a slider on a ray from `K` that is open on `b'`, and seen from `K` the first square of that ray which `b`
    occupies comes before `s` -/
theorem new_attack (b b' : Board) (hv : ValidB b) (hv' : ValidB b') (K s : Sq) (pc : Pc)
    (hno : atkFrom pc (occBB b) s K = false) (ha : atkFrom pc (occBB b') s K = true) :
    ∃ dx dy n, sliderOn pc dx dy ∧ Seg b' K dx dy n s ∧ ∃ j v, 1 ≤ j ∧ j < n ∧ b[v] ≠ 0 ∧ Seg b K dx dy j v := by
  rcases atkFrom_cases _ _ _ _ ha with ⟨hk, hg⟩ | ⟨hk, hg⟩ | ⟨hk, hg⟩ | ⟨dx, dy, hsl, hr⟩
  · rw [atkFrom_king _ _ _ _ hk, hg] at hno; cases hno
  · rw [atkFrom_knight _ _ _ _ hk, hg] at hno; cases hno
  · rw [atkFrom_pawn _ _ _ _ hk, hg] at hno; cases hno
  · have hd := hsl.isDir
    obtain ⟨n, hseg⟩ := (tst_ray_seg b' hv' K s dx dy hd).1 hr
    refine ⟨dx, dy, n, hsl, hseg, ?_⟩
    have hsq : ∀ j, 1 ≤ j → j < n → ∃ q, stepSq K.x K.y dx dy j = some q := by
      intro j h1 h2; obtain ⟨q, hq, _⟩ := hseg.inner j h1 h2; exact ⟨q, hq⟩
    by_cases hall : ∀ j q, 1 ≤ j → j < n → stepSq K.x K.y dx dy j = some q → b[q] = 0
    · exfalso
      have : Seg b K dx dy n s := hseg.congr (fun j q h1 h2 hq _ => hall j q h1 h2 hq)
      have := atkFrom_of_slider pc (occBB b) s K dx dy hsl ((tst_ray_seg b hv K s dx dy hd).2 ⟨n, this⟩)
      rw [this] at hno; cases hno
    · have : ∃ j q, 1 ≤ j ∧ j < n ∧ stepSq K.x K.y dx dy j = some q ∧ b[q] ≠ 0 := by
        apply Classical.byContradiction
        intro hn
        apply hall
        intro j q h1 h2 hq
        apply Classical.byContradiction
        intro hne
        exact hn ⟨j, q, h1, h2, hq, hne⟩
      obtain ⟨j, q, h1, h2, hq, hne⟩ := this
      obtain ⟨i, v, a1, a2, a3, a4⟩ := first_blocker b K dx dy n hsq j q h1 h2 hq hne
      exact ⟨i, v, a1, by omega, a3, a4⟩

end Chess.Texel
